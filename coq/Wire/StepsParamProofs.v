(** C04, step counting for the dynamic (Param) decoder: [unmarshal_ps] (Wire/StepsParam.v) projects to [unmarshal_p]
    and makes at most [step_weight (udepth c)] steps per byte left in the buffer, plus [step_weight (udepth c)], on EVERY
    input; a successful run at most [step_weight (udepth c)] steps per byte consumed. *)
From RB Require Import Base.Prelude Sig.Types Sig.Parser Sig.ParserProofs Sig.Validator Sig.ValidatorProofs
  Wire.Bytes Wire.Align Wire.Text Wire.Value Wire.SpecEnc Wire.Marshal Wire.MarshalProofs Wire.Decode Wire.Unmarshal.
From RB Require Import Wire.DecodeSoundLemmas Wire.DecodeTotal Wire.Steps Wire.StepsProofs Wire.StepsParam.

(** ** one equation per type constructor *)
Section PFieldLoopS.
  Variable one : ty -> uctx -> counted (val * uctx).
  Fixpoint p_fields_s (l : list ty) (c : uctx) (acc : list val) : counted (list val * uctx) :=
    match l with
    | [] => lift (Ok (rev acc, c))
    | f :: r => tick (dos x <- one f c; p_fields_s r (snd x) (fst x :: acc))
    end.
End PFieldLoopS.

Lemma unmarshal_ps_base_eq vf be b c : unmarshal_ps (S vf) be (TBase b) c = tick (lift (u_base be b c)).
Proof. reflexivity. Qed.
Lemma unmarshal_ps_array_eq vf be e c : unmarshal_ps (S vf) be (TArray e) c =
  tick (
  dos c <- lift (u_enter c);
  dos r <- (dos r <- lift (u_read_fixed be 4 c);
           dos n <- lift (check_array_len (fst r));
           dos c1 <- lift (u_align (align e) (snd r));
           dos s <- lift (u_sub n c1);
           dos vs <- sub_loop_s (unmarshal_ps (S vf) be e) (S (N.to_nat n)) (fst s) [];
           lift (Ok (VArray e vs, snd s)));
  lift (Ok (fst r, u_leave (snd r)))).
Proof. reflexivity. Qed.
Lemma unmarshal_ps_dict_eq vf be k v c : unmarshal_ps (S vf) be (TDict k v) c =
  tick (
  dos c <- lift (u_enter c);
  dos r <- (dos r <- lift (u_read_fixed be 4 c);
           dos n <- lift (check_array_len (fst r));
           dos c1 <- lift (u_align 8 (snd r));
           dos s <- lift (u_sub n c1);
           dos kvs <- sub_loop_s (fun c => dos c <- lift (u_align 8 c);
                                        dos kr <- tick (lift (u_base be k c));
                                        dos vr <- unmarshal_ps (S vf) be v (snd kr);
                                        lift (Ok ((fst kr, fst vr), snd vr)))
                              (S (N.to_nat n)) (fst s) [];
           lift (Ok (VDict k v kvs, snd s)));
  lift (Ok (fst r, u_leave (snd r)))).
Proof. reflexivity. Qed.
Lemma unmarshal_ps_struct_eq vf be ts c : unmarshal_ps (S vf) be (TStruct ts) c =
  tick (
  dos c <- lift (u_enter c);
  dos r <- (dos c <- lift (u_align 8 c);
           match ts with
           | [] => lift Err
           | _ => dos r <- p_fields_s (unmarshal_ps (S vf) be) ts c []; lift (Ok (VStruct (fst r), snd r))
           end);
  lift (Ok (fst r, u_leave (snd r)))).
Proof. reflexivity. Qed.
Lemma unmarshal_ps_variant_eq vf be c : unmarshal_ps (S vf) be TVariant c =
  tick (
  dos c <- lift (u_enter c);
  dos r <- (dos r <- lift (u_read_sig c);
           dos tys <- lift (parse_description (fst r));
           match tys with
           | [t'] => dos x <- unmarshal_ps vf be t' (snd r); lift (Ok (VVariant t' (fst x), snd x))
           | _ => lift Err
           end);
  lift (Ok (fst r, u_leave (snd r)))).
Proof. reflexivity. Qed.

(** ** projection *)
Lemma sub_loop_s_proj {A} (one_s : uctx -> counted (A * uctx)) one : (forall c, fst (one_s c) = one c) ->
  forall lf c acc, fst (sub_loop_s one_s lf c acc) = sub_loop one lf c acc.
Proof.
  intros H. induction lf as [|lf IH]; intros c acc; cbn [sub_loop_s sub_loop]; destruct (remainder_len c =? 0); try reflexivity.
  rewrite fst_tick, fst_bind_s, H. apply bind_ext. intros r _. apply IH.
Qed.
Lemma p_fields_s_proj one_s one : forall ts, (forall f c, In f ts -> fst (one_s f c) = one f c) ->
  forall c acc, fst (p_fields_s one_s ts c acc) = p_fields one ts c acc.
Proof.
  induction ts as [|f r IH]; intros H c acc; cbn [p_fields_s p_fields]; [reflexivity|].
  rewrite fst_tick, fst_bind_s, (H f _ (or_introl eq_refl)). apply bind_ext. intros x _. apply IH.
  intros f' c' Hin. apply H. now right.
Qed.

Theorem unmarshal_ps_proj be : forall vf t c, fst (unmarshal_ps vf be t c) = unmarshal_p vf be t c.
Proof.
  induction vf as [|vf IHvf]; [reflexivity|].
  induction t as [b|e IHe|ts IHts|kt vt IHv|] using ty_ind'; intros c.
  - reflexivity.
  - rewrite unmarshal_ps_array_eq, unmarshal_p_array_eq, fst_tick.
    rewrite fst_bind_s, fst_lift. apply bind_ext. intros c0 _.
    rewrite fst_bind_s. f_equal.
    rewrite fst_bind_s, fst_lift. apply bind_ext. intros r _.
    rewrite fst_bind_s, fst_lift. apply bind_ext. intros n _.
    rewrite fst_bind_s, fst_lift. apply bind_ext. intros c1 _.
    rewrite fst_bind_s, fst_lift. apply bind_ext. intros s _.
    rewrite fst_bind_s. rewrite (sub_loop_s_proj _ (unmarshal_p (S vf) be e)); [reflexivity|exact IHe].
  - rewrite unmarshal_ps_struct_eq, unmarshal_p_struct_eq, fst_tick.
    rewrite fst_bind_s, fst_lift. apply bind_ext. intros c0 _.
    rewrite fst_bind_s. f_equal.
    rewrite fst_bind_s, fst_lift. apply bind_ext. intros c1 _.
    destruct ts as [|t0 ts']; [reflexivity|].
    rewrite fst_bind_s. rewrite (p_fields_s_proj _ (unmarshal_p (S vf) be)); [reflexivity|].
    rewrite Forall_forall in IHts. intros f c' Hin. now apply IHts.
  - rewrite unmarshal_ps_dict_eq, unmarshal_p_dict_eq, fst_tick.
    rewrite fst_bind_s, fst_lift. apply bind_ext. intros c0 _.
    rewrite fst_bind_s. f_equal.
    rewrite fst_bind_s, fst_lift. apply bind_ext. intros r _.
    rewrite fst_bind_s, fst_lift. apply bind_ext. intros n _.
    rewrite fst_bind_s, fst_lift. apply bind_ext. intros c1 _.
    rewrite fst_bind_s, fst_lift. apply bind_ext. intros s _.
    rewrite fst_bind_s. erewrite sub_loop_s_proj; [reflexivity|].
    intros c'. cbv beta. rewrite fst_bind_s, fst_lift. apply bind_ext. intros c2 _.
    rewrite fst_bind_s, fst_tick, fst_lift. apply bind_ext. intros kr _.
    rewrite fst_bind_s, IHv. reflexivity.
  - rewrite unmarshal_ps_variant_eq, unmarshal_p_variant_eq, fst_tick.
    rewrite fst_bind_s, fst_lift. apply bind_ext. intros c0 _.
    rewrite fst_bind_s. f_equal.
    rewrite fst_bind_s, fst_lift. apply bind_ext. intros r _.
    rewrite fst_bind_s, fst_lift. apply bind_ext. intros tys _.
    destruct tys as [|t' [|]]; try reflexivity.
    rewrite fst_bind_s, IHvf. reflexivity.
Qed.

(** ** the bound *)
Lemma unmarshal_ps_array_eq' vf be e c : unmarshal_ps (S vf) be (TArray e) c =
  tick (
  dos c <- lift (u_enter c);
  dos r <- (dos h <- lift (u_header be (align e) c);
           dos vs <- sub_loop_s (unmarshal_ps (S vf) be e) (S (N.to_nat (fst h))) (fst (snd h)) [];
           lift (Ok (VArray e vs, snd (snd h))));
  lift (Ok (fst r, u_leave (snd r)))).
Proof.
  rewrite unmarshal_ps_array_eq. unfold u_header. f_equal. destruct (u_enter c) as [c0| | | |]; try reflexivity.
  rewrite !bind_s_lift_ok. f_equal.
  destruct (u_read_fixed be 4 c0) as [r| | | |]; cbn [bind]; [rewrite bind_s_lift_ok|reflexivity..].
  destruct (check_array_len (fst r)) as [n| | | |]; cbn [bind]; [rewrite bind_s_lift_ok|reflexivity..].
  destruct (u_align (align e) (snd r)) as [c1| | | |]; cbn [bind]; [rewrite bind_s_lift_ok|reflexivity..].
  destruct (u_sub n c1) as [s| | | |]; cbn [bind]; [rewrite !bind_s_lift_ok|reflexivity..]. reflexivity.
Qed.
Lemma unmarshal_ps_dict_eq' vf be k v c : unmarshal_ps (S vf) be (TDict k v) c =
  tick (
  dos c <- lift (u_enter c);
  dos r <- (dos h <- lift (u_header be 8 c);
           dos kvs <- sub_loop_s (fun c => dos c <- lift (u_align 8 c);
                                        dos kr <- tick (lift (u_base be k c));
                                        dos vr <- unmarshal_ps (S vf) be v (snd kr);
                                        lift (Ok ((fst kr, fst vr), snd vr)))
                              (S (N.to_nat (fst h))) (fst (snd h)) [];
           lift (Ok (VDict k v kvs, snd (snd h))));
  lift (Ok (fst r, u_leave (snd r)))).
Proof.
  rewrite unmarshal_ps_dict_eq. unfold u_header. f_equal. destruct (u_enter c) as [c0| | | |]; try reflexivity.
  rewrite !bind_s_lift_ok. f_equal.
  destruct (u_read_fixed be 4 c0) as [r| | | |]; cbn [bind]; [rewrite bind_s_lift_ok|reflexivity..].
  destruct (check_array_len (fst r)) as [n| | | |]; cbn [bind]; [rewrite bind_s_lift_ok|reflexivity..].
  destruct (u_align 8 (snd r)) as [c1| | | |]; cbn [bind]; [rewrite bind_s_lift_ok|reflexivity..].
  destruct (u_sub n c1) as [s| | | |]; cbn [bind]; [rewrite !bind_s_lift_ok|reflexivity..]. reflexivity.
Qed.

(** a good counted result of a value decoder started in context [c] when a byte weighs [w] steps *)
Definition pgood {A} (w : N) (c : uctx) (x : counted (A * uctx)) : Prop :=
  match fst x with
  | Ok r => snd r = set_off c (uoff (snd r)) /\ uoff c < uoff (snd r) <= len (ubuf c)
            /\ snd x + w * uoff c <= w * uoff (snd r)
  | Err => snd x + w * uoff c <= w * len (ubuf c) + w
  | _ => False
  end.
(** the same for one round of a loop (one call), its own step included *)
Definition prgood {A} (v : N) (c : uctx) (x : counted (A * uctx)) : Prop :=
  match fst x with
  | Ok r => snd r = set_off c (uoff (snd r)) /\ uoff c < uoff (snd r) <= len (ubuf c)
            /\ 1 + snd x + v * uoff c <= v * uoff (snd r)
  | Err => 1 + snd x + v * uoff c <= v * len (ubuf c) + v
  | _ => False
  end.

Lemma pgood_tick {A} w c (x : counted (A * uctx)) : prgood w c x -> pgood w c (tick x).
Proof. unfold pgood, prgood. rewrite fst_tick, snd_tick. destruct (fst x); auto. Qed.
Lemma pgood_prgood {A} w c (x : counted (A * uctx)) : uoff c <= len (ubuf c) -> pgood w c x -> prgood (w + 1) c x.
Proof. unfold pgood, prgood. intros Hp. destruct (fst x); auto; intros H; intuition lia. Qed.
Lemma prgood_err0 {A} w c : 1 <= w -> uoff c <= len (ubuf c) -> @prgood A w c (Err, 0).
Proof. intros Hw Ho. unfold prgood. cbn [fst snd]. pose proof (N.mul_le_mono_l _ _ w Ho). lia. Qed.
Lemma prgood_leaf {A} w c (o : outcome (A * uctx)) : 1 <= w -> uoff c <= len (ubuf c) -> good c o -> prgood w c (lift o).
Proof.
  intros Hw Ho. unfold prgood, lift. cbn [fst snd]. destruct o as [r| | | |]; cbn [good]; auto.
  - intros [H1 H2]. repeat split; try assumption; try lia. nia.
  - intros _. pose proof (N.mul_le_mono_l _ _ w Ho). lia.
Qed.
Lemma bind_s_lift_err {A B} (f : A -> counted B) : bind_s (lift Err) f = (Err, 0).
Proof. reflexivity. Qed.

Lemma sub_loop_s_good {A} (P : uctx -> Prop) (one : uctx -> counted (A * uctx)) v :
  (forall c o, P c -> P (set_off c o)) ->
  (forall c, uoff c <= len (ubuf c) -> P c -> prgood v c (one c)) ->
  forall lf c acc, uoff c <= len (ubuf c) -> P c -> (N.to_nat (len (ubuf c) - uoff c) < lf)%nat ->
    let x := sub_loop_s one lf c acc in
    match fst x with
    | Ok _ => snd x + v * uoff c <= v * len (ubuf c)
    | Err => snd x + v * uoff c <= v * len (ubuf c) + v
    | _ => False
    end.
Proof.
  intros HP Hone. induction lf as [|lf IH]; intros c acc Hc Pc Hf; cbn [sub_loop_s]; unfold remainder_len;
    destruct (N.eqb_spec (len (ubuf c) - uoff c) 0) as [Hz|Hnz]; cbv zeta.
  - cbn [fst snd]. assert (E : len (ubuf c) = uoff c) by lia. rewrite E. lia.
  - lia.
  - cbn [fst snd]. assert (E : len (ubuf c) = uoff c) by lia. rewrite E. lia.
  - rewrite fst_tick, snd_tick. unfold bind_s. pose proof (Hone c Hc Pc) as G. unfold prgood in G.
    destruct (one c) as [r s]. cbn [fst snd] in *. destruct r as [x| | | |]; cbn [fst snd]; try exact G.
    destruct G as (E & Hr & Hs). destruct x as [a c']. cbn [fst snd] in *.
    assert (H1 : uoff c' <= len (ubuf c')) by (rewrite E; cbn [set_off ubuf uoff]; lia).
    assert (H2 : P c') by (rewrite E; now apply HP).
    assert (H3 : (N.to_nat (len (ubuf c') - uoff c') < lf)%nat) by (rewrite E; cbn [set_off ubuf uoff]; lia).
    specialize (IH c' (a :: acc) H1 H2 H3). cbv zeta in IH.
    assert (Lb : len (ubuf c') = len (ubuf c)) by (rewrite E; reflexivity).
    destruct (sub_loop_s one lf c' (a :: acc)) as [r2 s2]. cbn [fst snd] in *. rewrite Lb in IH.
    destruct r2 as [u| | | |]; try exact IH; lia.
Qed.

Lemma p_fields_s_good (P : uctx -> Prop) (one : ty -> uctx -> counted (val * uctx)) v :
  (forall c o, P c -> P (set_off c o)) ->
  forall ts, (forall f c, In f ts -> uoff c <= len (ubuf c) -> P c -> prgood v c (one f c)) ->
  forall c acc, uoff c <= len (ubuf c) -> P c ->
    let x := p_fields_s one ts c acc in
    match fst x with
    | Ok r => moved c (snd r) /\ uoff c + len ts <= uoff (snd r) /\ snd x + v * uoff c <= v * uoff (snd r)
    | Err => snd x + v * uoff c <= v * len (ubuf c) + v
    | _ => False
    end.
Proof.
  intros HP. induction ts as [|f r IH]; intros Hone c acc Hc Pc; cbn [p_fields_s]; cbv zeta.
  - cbn [lift fst snd]. change (len (@nil ty)) with 0. split; [split; [now destruct c|lia]|lia].
  - rewrite fst_tick, snd_tick. unfold bind_s. pose proof (Hone f c (or_introl eq_refl) Hc Pc) as G. unfold prgood in G.
    destruct (one f c) as [r1 s1]. cbn [fst snd] in *. destruct r1 as [x| | | |]; cbn [fst snd]; try exact G.
    destruct G as (E & Hr & Hs). destruct x as [a c']. cbn [fst snd] in *.
    assert (H1 : uoff c' <= len (ubuf c')) by (rewrite E; cbn [set_off ubuf uoff]; lia).
    assert (H2 : P c') by (rewrite E; now apply HP).
    specialize (IH (fun f' c'' Hin => Hone f' c'' (or_intror Hin)) c' (a :: acc) H1 H2). cbv zeta in IH.
    assert (Lb : len (ubuf c') = len (ubuf c)) by (rewrite E; reflexivity).
    assert (Hm0 : moved c c') by (split; [exact E|lia]).
    destruct (p_fields_s one r c' (a :: acc)) as [r2 s2]. cbn [fst snd] in *. rewrite Lb in IH. rewrite len_cons.
    destruct r2 as [y| | | |]; try exact IH; [|lia].
    destruct IH as (Hm & Hl & Hs2). split; [eapply moved_trans; eassumption|]. lia.
Qed.

Ltac perr := unfold bind_s; cbn [fst snd lift]; apply prgood_err0; [assumption|lia].

Theorem unmarshal_ps_good be : forall vf t c,
  wf t = true -> uoff c <= len (ubuf c) -> (1 <= vf)%nat -> 65 <= N.of_nat vf + udepth c ->
  pgood (step_weight (udepth c)) c (unmarshal_ps vf be t c).
Proof.
  induction vf as [|vf IHvf]; [intros; lia|].
  induction t as [b|e IHe|ts IHts|kt vt IHv|] using ty_ind'; intros c Hwf Hc Hvf1 Hvf;
    pose proof (step_weight_pos (udepth c)) as Hw.
  - rewrite unmarshal_ps_base_eq. apply pgood_tick, prgood_leaf; try assumption. now apply u_base_good.
  - rewrite unmarshal_ps_array_eq'. apply pgood_tick. cbn [wf] in Hwf.
    destruct (u_enter c) as [c0| | | |] eqn:Een; try (unfold u_enter in Een; destruct (_ <=? _); discriminate); [|perr].
    rewrite bind_s_lift_ok. pose proof (u_enter_ok _ _ Een) as [Hd Ec0].
    rewrite (step_weight_succ _ Hd) in *. pose proof (step_weight_pos (udepth c + 1)) as Hw'. set (w' := step_weight (udepth c + 1)) in *.
    assert (Hc0 : uoff c0 <= len (ubuf c0)) by (rewrite Ec0; exact Hc).
    pose proof (u_header_good be (align e) c0 Hc0) as G.
    destruct (u_header be (align e) c0) as [[n [s c3]]| | | |]; try (exfalso; exact G); [|perr].
    rewrite bind_s_lift_ok. cbn [fst snd]. destruct G as (o & Es & Ec3 & Ho & Hon).
    assert (Ls : len (ubuf s) = o + n) by (rewrite Es; cbn [ubuf]; apply len_firstnN_le; lia).
    assert (Hone : forall c', uoff c' <= len (ubuf c') -> udepth c' = udepth c + 1 ->
                     prgood (w' + 1) c' (unmarshal_ps (S vf) be e c')).
    { intros c' Hc' Hp. apply pgood_prgood; [assumption|]. unfold w'. rewrite <- Hp. apply (IHe c' Hwf Hc' Hvf1).
      rewrite Hp. lia. }
    pose proof (sub_loop_s_good (fun c' => udepth c' = udepth c + 1) (unmarshal_ps (S vf) be e) (w' + 1)
             (fun c' o' Hp => Hp) Hone
             (S (N.to_nat n)) s []
             ltac:(rewrite Ls, Es; cbn [uoff]; lia) ltac:(rewrite Es, Ec0; reflexivity)
             ltac:(rewrite Ls, Es; cbn [uoff]; lia)) as G2. cbv zeta in G2.
    assert (Hm : moved c0 c3) by (split; [rewrite Ec3; reflexivity|rewrite Ec3; cbn [set_off uoff]; lia]).
    destruct (leave_moved _ _ _ Een Hm) as [E1 E2].
    assert (Eo : uoff s = o) by (rewrite Es; reflexivity).
    assert (Eu : uoff (u_leave c3) = o + n) by (rewrite Ec3; reflexivity).
    assert (Eb : len (ubuf c0) = len (ubuf c) /\ uoff c0 = uoff c) by (rewrite Ec0; split; reflexivity). destruct Eb as [Eb1 Eb2].
    unfold bind_s. destruct (sub_loop_s _ _ s []) as [r2 s2]. cbn [fst snd] in G2 |- *. rewrite Ls, Eo in G2. unfold prgood.
    destruct r2 as [vs| | | |]; cbn [fst snd lift]; try exact G2.
    + split; [exact E1|]. rewrite Eu. split; [lia|].
      pose proof (N.mul_le_mono_l (uoff c + 4 + n) (o + n) (w' + 2) ltac:(lia)). nia.
    + pose proof (N.mul_le_mono_l (uoff c + n) (len (ubuf c)) (w' + 2) ltac:(lia)). nia.
  - rewrite unmarshal_ps_struct_eq. apply pgood_tick. cbn [wf] in Hwf. apply andb_prop in Hwf. destruct Hwf as [Hne Hwf].
    destruct (u_enter c) as [c0| | | |] eqn:Een; try (unfold u_enter in Een; destruct (_ <=? _); discriminate); [|perr].
    rewrite bind_s_lift_ok. pose proof (u_enter_ok _ _ Een) as [Hd Ec0].
    rewrite (step_weight_succ _ Hd) in *. pose proof (step_weight_pos (udepth c + 1)) as Hw'. set (w' := step_weight (udepth c + 1)) in *.
    assert (Hc0 : uoff c0 <= len (ubuf c0)) by (rewrite Ec0; exact Hc).
    pose proof (u_align_moved 8 c0 Hc0) as G. destruct (u_align 8 c0) as [c1| | | |]; try (exfalso; exact G); [|perr].
    rewrite bind_s_lift_ok.
    destruct ts as [|t0 ts']; [discriminate|]. set (ts := t0 :: ts') in *.
    rewrite forallb_forall in Hwf. rewrite Forall_forall in IHts.
    assert (Hc1 : uoff c1 <= len (ubuf c1)) by (destruct G as [E ?]; rewrite E; cbn [set_off ubuf uoff]; lia).
    assert (Hone : forall f c', In f ts -> uoff c' <= len (ubuf c') -> udepth c' = udepth c + 1 ->
                     prgood (w' + 1) c' (unmarshal_ps (S vf) be f c')).
    { intros f c' Hin Hc' Hp. apply pgood_prgood; [assumption|]. unfold w'. rewrite <- Hp.
      apply (IHts f Hin c' (Hwf f Hin) Hc' Hvf1). rewrite Hp. lia. }
    pose proof (p_fields_s_good (fun c' => udepth c' = udepth c + 1) (unmarshal_ps (S vf) be) (w' + 1)
                  (fun c' o' Hp => Hp) ts Hone c1 [] Hc1
                  ltac:(destruct G as [E ?]; rewrite E, Ec0; reflexivity)) as G2. cbv zeta in G2.
    assert (Eb : len (ubuf c0) = len (ubuf c) /\ uoff c0 = uoff c) by (rewrite Ec0; split; reflexivity). destruct Eb as [Eb1 Eb2].
    assert (Eb3 : len (ubuf c1) = len (ubuf c)) by (destruct G as [E ?]; rewrite E; exact Eb1).
    unfold ts at 1. unfold bind_s. fold ts. destruct (p_fields_s _ ts c1 []) as [r2 s2]. cbn [fst snd] in G2 |- *. unfold prgood.
    destruct r2 as [r| | | |]; cbn [fst snd lift]; try exact G2.
    + destruct G2 as (Hm2 & Hl2 & Hs2). pose proof (moved_trans _ _ _ G Hm2) as Hm.
      destruct (leave_moved _ _ _ Een Hm) as [E1 E2]. split; [exact E1|].
      unfold ts in Hl2. rewrite len_cons in Hl2. destruct G as [_ G].
      change (uoff (u_leave (snd r))) with (uoff (snd r)) in *. rewrite Eb2 in *.
      split; [destruct Hm2 as [_ Hm2]; lia|].
      pose proof (N.mul_le_mono_l (uoff c) (uoff c1) (w' + 1) ltac:(lia)). nia.
    + destruct G as [_ G]. rewrite Eb2, Eb3 in *.
      pose proof (N.mul_le_mono_l (uoff c) (uoff c1) (w' + 1) ltac:(lia)).
      pose proof (N.mul_le_mono_l (uoff c) (len (ubuf c)) 1 Hc). nia.
  - rewrite unmarshal_ps_dict_eq'. apply pgood_tick. cbn [wf] in Hwf.
    destruct (u_enter c) as [c0| | | |] eqn:Een; try (unfold u_enter in Een; destruct (_ <=? _); discriminate); [|perr].
    rewrite bind_s_lift_ok. pose proof (u_enter_ok _ _ Een) as [Hd Ec0].
    rewrite (step_weight_succ _ Hd) in *. pose proof (step_weight_pos (udepth c + 1)) as Hw'. set (w' := step_weight (udepth c + 1)) in *.
    assert (Hc0 : uoff c0 <= len (ubuf c0)) by (rewrite Ec0; exact Hc).
    pose proof (u_header_good be 8 c0 Hc0) as G.
    destruct (u_header be 8 c0) as [[n [s c3]]| | | |]; try (exfalso; exact G); [|perr].
    rewrite bind_s_lift_ok. cbn [fst snd]. destruct G as (o & Es & Ec3 & Ho & Hon).
    assert (Ls : len (ubuf s) = o + n) by (rewrite Es; cbn [ubuf]; apply len_firstnN_le; lia).
    set (one := fun c => dos c <- lift (u_align 8 c); dos kr <- tick (lift (u_base be kt c));
                         dos vr <- unmarshal_ps (S vf) be vt (snd kr); lift (Ok ((fst kr, fst vr), snd vr))).
    assert (Hone : forall c', uoff c' <= len (ubuf c') -> udepth c' = udepth c + 1 -> prgood (w' + 1) c' (one c')).
    { intros c' Hc' Hp. unfold one. assert (Hv : 1 <= w' + 1) by lia.
      pose proof (u_align_moved 8 c' Hc') as G1.
      destruct (u_align 8 c') as [c1| | | |]; try (exfalso; exact G1); [|perr]. rewrite bind_s_lift_ok. destruct G1 as [E1 H1].
      assert (Hc1 : uoff c1 <= len (ubuf c1)) by (rewrite E1; cbn [set_off ubuf uoff]; lia).
      assert (L1 : len (ubuf c1) = len (ubuf c')) by (rewrite E1; reflexivity).
      pose proof (u_base_good be kt c1 Hc1) as Gk. unfold bind_s at 1. rewrite fst_tick, snd_tick, fst_lift, snd_lift.
      destruct (u_base be kt c1) as [kr| | | |]; cbn [good] in Gk; try (exfalso; exact Gk).
      2:{ unfold prgood. cbn [fst snd]. pose proof (N.mul_le_mono_l _ _ w' Hc'). nia. }
      destruct Gk as [E2 H2]. cbn [snd] in E2, H2.
      assert (Hc2 : uoff (snd kr) <= len (ubuf (snd kr))) by (rewrite E2; cbn [set_off ubuf uoff]; lia).
      assert (L2 : len (ubuf (snd kr)) = len (ubuf c')) by (rewrite E2; exact L1).
      assert (D2 : udepth (snd kr) = udepth c + 1) by (rewrite E2, E1; exact Hp).
      pose proof (IHv (snd kr) Hwf Hc2 Hvf1 ltac:(lia)) as Gv. rewrite D2 in Gv. fold w' in Gv. unfold pgood in Gv.
      unfold bind_s. destruct (unmarshal_ps (S vf) be vt (snd kr)) as [r s']. cbn [fst snd] in Gv |- *. unfold prgood.
      destruct r as [vr| | | |]; cbn [fst snd lift]; try exact Gv.
      - destruct Gv as (E3 & H3 & Hs3). rewrite L2 in H3.
        split; [rewrite E3, E2, E1; reflexivity|]. split; [lia|].
        pose proof (N.mul_le_mono_l (uoff c' + 1) (uoff (snd kr)) w' ltac:(lia)). nia.
      - rewrite L2 in Gv. pose proof (N.mul_le_mono_l (uoff c' + 1) (uoff (snd kr)) w' ltac:(lia)). nia. }
    pose proof (sub_loop_s_good (fun c' => udepth c' = udepth c + 1) one (w' + 1)
             (fun c' o' Hp => Hp) Hone (S (N.to_nat n)) s []
             ltac:(rewrite Ls, Es; cbn [uoff]; lia) ltac:(rewrite Es, Ec0; reflexivity)
             ltac:(rewrite Ls, Es; cbn [uoff]; lia)) as G2. cbv zeta in G2.
    assert (Hm : moved c0 c3) by (split; [rewrite Ec3; reflexivity|rewrite Ec3; cbn [set_off uoff]; lia]).
    destruct (leave_moved _ _ _ Een Hm) as [E1 E2].
    assert (Eo : uoff s = o) by (rewrite Es; reflexivity).
    assert (Eu : uoff (u_leave c3) = o + n) by (rewrite Ec3; reflexivity).
    assert (Eb : len (ubuf c0) = len (ubuf c) /\ uoff c0 = uoff c) by (rewrite Ec0; split; reflexivity). destruct Eb as [Eb1 Eb2].
    unfold bind_s. destruct (sub_loop_s one _ s []) as [r2 s2]. cbn [fst snd] in G2 |- *. rewrite Ls, Eo in G2. unfold prgood.
    destruct r2 as [vs| | | |]; cbn [fst snd lift]; try exact G2.
    + split; [exact E1|]. rewrite Eu. split; [lia|].
      pose proof (N.mul_le_mono_l (uoff c + 4 + n) (o + n) (w' + 2) ltac:(lia)). nia.
    + pose proof (N.mul_le_mono_l (uoff c + n) (len (ubuf c)) (w' + 2) ltac:(lia)). nia.
  - rewrite unmarshal_ps_variant_eq. apply pgood_tick.
    destruct (u_enter c) as [c0| | | |] eqn:Een; try (unfold u_enter in Een; destruct (_ <=? _); discriminate); [|perr].
    rewrite bind_s_lift_ok. pose proof (u_enter_ok _ _ Een) as [Hd Ec0].
    rewrite (step_weight_succ _ Hd) in *. pose proof (step_weight_pos (udepth c + 1)) as Hw'. set (w' := step_weight (udepth c + 1)) in *.
    unfold MAX_DEPTH in Hd.
    assert (Hc0 : uoff c0 <= len (ubuf c0)) by (rewrite Ec0; exact Hc).
    pose proof (u_read_sig_moved c0 Hc0) as G. destruct (u_read_sig c0) as [r| | | |]; try (exfalso; exact G); [|perr].
    rewrite bind_s_lift_ok. destruct G as [[E1 H1] H1'].
    pose proof (parse_description_total (fst r)) as Tp.
    destruct (parse_description (fst r)) as [tys| | | |] eqn:Ep; try (exfalso; exact Tp); [|perr]. rewrite bind_s_lift_ok.
    destruct tys as [|t' [|]]; try perr.
    destruct (parse_single _ _ Ep) as [_ Htok].
    assert (Hc1 : uoff (snd r) <= len (ubuf (snd r))) by (rewrite E1; cbn [set_off ubuf uoff]; lia).
    assert (D1 : udepth (snd r) = udepth c + 1) by (rewrite E1, Ec0; reflexivity).
    assert (L1 : len (ubuf (snd r)) = len (ubuf c)) by (rewrite E1, Ec0; reflexivity).
    assert (Eb : len (ubuf c0) = len (ubuf c) /\ uoff c0 = uoff c) by (rewrite Ec0; split; reflexivity). destruct Eb as [Eb1 Eb2].
    pose proof (IHvf t' (snd r) (type_ok_wf _ Htok) Hc1 ltac:(lia) ltac:(rewrite D1; lia)) as Gx.
    rewrite D1 in Gx. fold w' in Gx. unfold pgood in Gx.
    unfold bind_s. destruct (unmarshal_ps vf be t' (snd r)) as [r2 s2]. cbn [fst snd] in Gx |- *. unfold prgood.
    destruct r2 as [x| | | |]; cbn [fst snd lift]; try exact Gx.
    + destruct Gx as (E2 & H2 & Hs2).
      assert (Hm : moved c0 (snd x)).
      { apply (moved_trans _ (snd r)); split; try assumption. lia. }
      destruct (leave_moved _ _ _ Een Hm) as [E3 E4]. split; [exact E3|].
      change (uoff (u_leave (snd x))) with (uoff (snd x)) in *. rewrite L1 in H2. rewrite Eb2 in *.
      split; [lia|]. pose proof (N.mul_le_mono_l (uoff c) (uoff (snd r)) w' ltac:(lia)). nia.
    + rewrite L1 in Gx. rewrite Eb2 in *. pose proof (N.mul_le_mono_l (uoff c) (uoff (snd r)) w' ltac:(lia)).
      pose proof (N.mul_le_mono_l (uoff c) (len (ubuf c)) 2 Hc). nia.
Qed.

(** the bound in closed form, for every outcome *)
Corollary unmarshal_ps_bound be vf t c :
  wf t = true -> uoff c <= len (ubuf c) -> (1 <= vf)%nat -> 65 <= N.of_nat vf + udepth c ->
  let x := unmarshal_ps vf be t c in
  snd x <= step_weight (udepth c) * (len (ubuf c) - uoff c) + step_weight (udepth c)
  /\ (forall v c', fst x = Ok (v, c') ->
        snd x <= step_weight (udepth c) * (uoff c' - uoff c) /\ uoff c < uoff c' <= len (ubuf c)).
Proof.
  intros Hw Ho H1 H2 x. pose proof (unmarshal_ps_good be vf t c Hw Ho H1 H2) as G. fold x in G. unfold pgood in G.
  set (w := step_weight (udepth c)) in *.
  assert (E : w * len (ubuf c) = w * (len (ubuf c) - uoff c) + w * uoff c) by nia.
  split.
  - destruct (fst x) as [r| | | |]; try (exfalso; exact G).
    + destruct G as (_ & Hk & Hs). pose proof (N.mul_le_mono_l (uoff (snd r)) (len (ubuf c)) w ltac:(lia)). lia.
    + lia.
  - intros v c' En. rewrite En in G. cbn [snd] in G. destruct G as (_ & Hk & Hs). split; [|exact Hk].
    assert (E' : w * uoff c' = w * (uoff c' - uoff c) + w * uoff c) by nia. lia.
Qed.

Lemma step_weight_le d : step_weight d <= 129.
Proof. unfold step_weight, MAX_DEPTH. lia. Qed.

(** the decoder at the fuel the operations use (66), any context: at most 129 steps per byte left in the buffer, plus 129;
    a run that returns a value: at most 129 steps per byte consumed *)
Theorem unmarshal_ps_66_bound be t c : wf t = true -> uoff c <= len (ubuf c) ->
  snd (unmarshal_ps 66 be t c) <= 129 * (len (ubuf c) - uoff c) + 129
  /\ (forall v c', fst (unmarshal_ps 66 be t c) = Ok (v, c') ->
        snd (unmarshal_ps 66 be t c) <= 129 * (uoff c' - uoff c) /\ uoff c < uoff c' <= len (ubuf c)).
Proof.
  intros Hw Ho. pose proof (unmarshal_ps_bound be 66 t c Hw Ho ltac:(lia) ltac:(cbn; lia)) as [B1 B2]. cbv zeta in B1, B2.
  pose proof (step_weight_le (udepth c)) as Hl. split.
  - pose proof (N.mul_le_mono_r _ _ (len (ubuf c) - uoff c) Hl). lia.
  - intros v c' E. destruct (B2 v c' E) as [B3 B4]. split; [|exact B4].
    pose proof (N.mul_le_mono_r _ _ (uoff c' - uoff c) Hl). lia.
Qed.
