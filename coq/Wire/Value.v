(** D-Bus values (what an encoding denotes) and their typing. *)
From RB Require Import Base.Prelude Sig.Types.

Inductive val :=
| VBase (b : base) (n : N)        (* fixed-width types: raw bit pattern (booleans 0/1, fds: index) *)
| VText (b : base) (s : list N)   (* string, object path, signature: UTF-8 bytes *)
| VArray (t : ty) (vs : list val)
| VStruct (vs : list val)
| VDict (k : base) (vt : ty) (kvs : list (val * val))
| VVariant (t : ty) (v : val).

Definition is_text (b : base) : bool :=
  match b with BString | BObjectPath | BSignature => true | _ => false end.

(* size in bytes of the fixed-width types *)
Definition base_size (b : base) : nat :=
  match b with
  | BByte => 1 | BInt16 | BUint16 => 2 | BInt32 | BUint32 | BUnixFd | BBoolean => 4
  | BInt64 | BUint64 | BDouble => 8
  | BString | BObjectPath | BSignature => 0
  end.

Section val_ind'.
  Variable P : val -> Prop.
  Hypothesis Hbase : forall b n, P (VBase b n).
  Hypothesis Htext : forall b s, P (VText b s).
  Hypothesis Harr : forall t vs, Forall P vs -> P (VArray t vs).
  Hypothesis Hstruct : forall vs, Forall P vs -> P (VStruct vs).
  Hypothesis Hdict : forall k vt kvs, Forall (fun kv => P (fst kv) /\ P (snd kv)) kvs -> P (VDict k vt kvs).
  Hypothesis Hvar : forall t v, P v -> P (VVariant t v).
  Fixpoint val_ind' (v : val) : P v :=
    match v with
    | VBase b n => Hbase b n
    | VText b s => Htext b s
    | VArray t vs => Harr t vs ((fix go (l : list val) : Forall P l :=
                         match l with [] => Forall_nil P | x :: xs => Forall_cons x (val_ind' x) (go xs) end) vs)
    | VStruct vs => Hstruct vs ((fix go (l : list val) : Forall P l :=
                         match l with [] => Forall_nil P | x :: xs => Forall_cons x (val_ind' x) (go xs) end) vs)
    | VDict k vt kvs => Hdict k vt kvs ((fix go (l : list (val * val)) : Forall (fun kv => P (fst kv) /\ P (snd kv)) l :=
                         match l with
                         | [] => Forall_nil _
                         | (a, b) :: xs => Forall_cons (a, b) (conj (val_ind' a) (val_ind' b)) (go xs)
                         end) kvs)
    | VVariant t v => Hvar t v (val_ind' v)
    end.
End val_ind'.

(** typing *)
Fixpoint wt (v : val) (t : ty) {struct v} : bool :=
  match v, t with
  | VBase b n, TBase b' => base_eqb b b' && negb (is_text b)
                           && (n <? 256 ^ N.of_nat (base_size b))
                           && (match b with BBoolean => n <? 2 | _ => true end)
  | VText b s, TBase b' => base_eqb b b' && is_text b
  | VArray et vs, TArray et' => ty_eqb et et' && forallb (fun x => wt x et) vs
  | VStruct vs, TStruct ts =>
      (fix go (l : list val) (ts : list ty) : bool :=
         match l, ts with
         | [], [] => true
         | x :: l', t :: ts' => wt x t && go l' ts'
         | _, _ => false
         end) vs ts
  | VDict k vt kvs, TDict k' vt' =>
      base_eqb k k' && ty_eqb vt vt'
      && forallb (fun kv => wt (fst kv) (TBase k) && wt (snd kv) vt) kvs
  | VVariant t' x, TVariant => wt x t'
  | _, _ => false
  end.

(* the type a value has *)
Fixpoint ty_of (v : val) : ty :=
  match v with
  | VBase b _ => TBase b
  | VText b _ => TBase b
  | VArray t _ => TArray t
  | VStruct vs => TStruct (map ty_of vs)
  | VDict k vt _ => TDict k vt
  | VVariant _ _ => TVariant
  end.
