(** From the value handed to a marshal call (descriptor leaves are handles) to the value on
    the wire (descriptor leaves are indices into the message's descriptor list): the k-th
    handle met in marshalling order gets index [start + k]. *)
From RB Require Import Base.Prelude Sig.Types Wire.Value.

Definition relabel_list (rl : val -> N -> val * N) : list val -> N -> list val * N :=
  fix go (l : list val) (n : N) : list val * N :=
    match l with
    | [] => ([], n)
    | x :: r => let '(x', n1) := rl x n in let '(r', n2) := go r n1 in (x' :: r', n2)
    end.
Definition relabel_entries (rl : val -> N -> val * N) : list (val * val) -> N -> list (val * val) * N :=
  fix go (l : list (val * val)) (n : N) : list (val * val) * N :=
    match l with
    | [] => ([], n)
    | (a, b) :: r =>
        let '(a', n1) := rl a n in
        let '(b', n2) := rl b n1 in
        let '(r', n3) := go r n2 in ((a', b') :: r', n3)
    end.

Fixpoint relabel (v : val) (n : N) {struct v} : val * N :=
  match v with
  | VBase BUnixFd _ => (VBase BUnixFd n, n + 1)
  | VBase b k => (VBase b k, n)
  | VText b s => (VText b s, n)
  | VArray t vs => let '(vs', n') := relabel_list relabel vs n in (VArray t vs', n')
  | VStruct vs => let '(vs', n') := relabel_list relabel vs n in (VStruct vs', n')
  | VDict k vt kvs => let '(kvs', n') := relabel_entries relabel kvs n in (VDict k vt kvs', n')
  | VVariant t x => let '(x', n') := relabel x n in (VVariant t x', n')
  end.

(* all descriptor handles in the value are live *)
Fixpoint handles_live (v : val) : bool :=
  match v with
  | VBase BUnixFd k => k =? 0
  | VBase _ _ | VText _ _ => true
  | VArray _ vs | VStruct vs => forallb handles_live vs
  | VDict _ _ kvs => forallb (fun kv => handles_live (fst kv) && handles_live (snd kv)) kvs
  | VVariant _ x => handles_live x
  end.

Lemma relabel_list_cons rl x r n : relabel_list rl (x :: r) n =
  let '(x', n1) := rl x n in let '(r', n2) := relabel_list rl r n1 in (x' :: r', n2).
Proof. reflexivity. Qed.
Lemma relabel_entries_cons rl a b r n : relabel_entries rl ((a, b) :: r) n =
  let '(a', n1) := rl a n in let '(b', n2) := rl b n1 in
  let '(r', n3) := relabel_entries rl r n2 in ((a', b') :: r', n3).
Proof. reflexivity. Qed.
