(** A derived struct behaves as the tuple of its fields: signature, alignment, marshalling,
    unmarshalling (although the generated code does not call align_to between the fields: every
    Unmarshal impl aligns itself first) and has_sig. *)
From RB Require Import Base.Prelude Sig.Types Sig.Parser Sig.ParserProofs Sig.Validator Sig.Iter Wire.Bytes Wire.Align Wire.Text Wire.Value
  Wire.SpecEnc Wire.Marshal Wire.MarshalProofs Wire.Decode Wire.Unmarshal Wire.HasSig Wire.HasSigProofs Wire.Derive.

(** ** signature and alignment *)
Lemma sig_r_tup : forall r, sig_r r = erase (tup r).
Proof.
  induction r as [b|x IH|rs IH|k v IH|x IH|rs IH] using rty_ind'; cbn [sig_r tup erase]; try congruence.
  - f_equal. rewrite map_map. induction IH as [|y l Hy _ IHl]; cbn [map]; congruence.
  - f_equal. rewrite map_map. induction IH as [|y l Hy _ IHl]; cbn [map]; congruence.
Qed.
Lemma ralign_tup r : ralign r = ealign (tup r).
Proof. destruct r; reflexivity. Qed.

Theorem derived_signature rs : sig_r (RDerived rs) = sig_r (RTuple rs) /\ ralign (RDerived rs) = ralign (RTuple rs)
  /\ sig_str_r (RDerived rs) = sig_str_r (RTuple rs).
Proof. repeat split. Qed.

(** ** marshalling *)
Theorem derive_struct_marshal_tuple be : forall (fields : list (mctx -> mres)) (vs : list val),
  Forall2 (fun f v => forall c, f c = marshal_t be v c) fields vs ->
  forall c, derive_struct_marshal fields c = marshal_t be (VStruct vs) c.
Proof.
  intros fields vs H c. rewrite marshal_t_struct. unfold derive_struct_marshal.
  generalize {| mbuf := pad_to 8 (mbuf c); mfds := mfds c |}. clear c.
  induction H as [|f v fs vs' Hf _ IH]; intros c; [reflexivity|].
  rewrite marshal_seq_cons, Hf. destruct (marshal_t be v c) as [c' [|]]; cbn [mbind]; [apply IH|reflexivity].
Qed.

(** ** the context invariant and Cursor::align_to *)
Definition inv (c : uctx) : Prop := uoff c <= len (ubuf c).

Lemma set_off_same c : set_off c (uoff c) = c.
Proof. destruct c; reflexivity. Qed.

Lemma u_align_result a c c1 : u_align a c = Ok c1 ->
  exists p, c1 = set_off c (uoff c + p) /\ p = pad_amount a (uoff c) /\ uoff c + p <= len (ubuf c).
Proof.
  unfold u_align, align_offset. destruct (N.ltb_spec (len (ubuf c)) (uoff c)) as [H|H]; [discriminate|]. cbv zeta.
  destruct (len (ubuf c) - uoff c <? pad_amount a (uoff c)); [discriminate|].
  destruct (forallb _ _); [|discriminate]. cbn [bind].
  destruct (N.ltb_spec (len (ubuf c)) (uoff c + pad_amount a (uoff c))) as [H2|H2]; [discriminate|].
  intros E. injection E as <-. eauto.
Qed.
Lemma u_align_inv a c c1 : u_align a c = Ok c1 -> inv c1.
Proof. intros H. apply u_align_result in H. destruct H as (p & -> & _ & Hle). exact Hle. Qed.

Lemma slice_0 buf o : slice buf o 0 = [].
Proof. reflexivity. Qed.

Lemma u_align_noop a c : inv c -> pad_amount a (uoff c) = 0 -> u_align a c = Ok c.
Proof.
  intros Hi Hp. unfold inv in Hi. unfold u_align, align_offset.
  destruct (N.ltb_spec (len (ubuf c)) (uoff c)) as [H|_]; [lia|]. cbv zeta. rewrite Hp.
  destruct (N.ltb_spec (len (ubuf c) - uoff c) 0) as [H|_]; [lia|]. rewrite slice_0. cbn [forallb bind].
  rewrite N.add_0_r. destruct (N.ltb_spec (len (ubuf c)) (uoff c)) as [H|_]; [lia|]. now rewrite set_off_same.
Qed.
Lemma pad_amount_1 o : pad_amount 1 o = 0.
Proof. rewrite pad_amount_padlen by lia. apply padlen_1. Qed.
Lemma u_align_1 c : inv c -> u_align 1 c = Ok c.
Proof. intros H. apply u_align_noop; [exact H|apply pad_amount_1]. Qed.

Lemma u_align_idem a c c1 : 0 < a -> u_align a c = Ok c1 -> u_align a c1 = Ok c1.
Proof.
  intros Ha H. pose proof (u_align_inv _ _ _ H) as Hi. apply u_align_result in H. destruct H as (p & -> & -> & Hle).
  apply u_align_noop; [exact Hi|]. cbn [set_off uoff].
  rewrite !pad_amount_padlen by exact Ha. apply padlen_0; [exact Ha|]. apply padlen_aligned. exact Ha.
Qed.

(* align_to(a) directly before something that starts with align_to(a) changes nothing *)
Lemma u_align_absorb {A} a c (K : uctx -> outcome A) : 0 < a ->
  (do c1 <- u_align a c; do c2 <- u_align a c1; K c2) = (do c1 <- u_align a c; K c1).
Proof.
  intros Ha. destruct (u_align a c) as [c1| | | |] eqn:E; cbn [bind]; try reflexivity.
  now rewrite (u_align_idem _ _ _ Ha E).
Qed.
Lemma u_align_1_absorb {A} c (K : uctx -> outcome A) : inv c -> (do c1 <- u_align 1 c; K c1) = K c.
Proof. intros H. now rewrite u_align_1. Qed.

(** ** equations of the typed decoder in terms of the field loops *)
Lemma unmarshal_t_struct vf be es c : unmarshal_t (S vf) be (EStruct es) c =
  do c <- u_align 8 c; do r <- tfields ealign (unmarshal_t (S vf) be) es true c []; Ok (VStruct (fst r), snd r).
Proof. reflexivity. Qed.
Lemma unmarshal_t_base vf be b c : unmarshal_t (S vf) be (EBase b) c = u_base be b c.
Proof. reflexivity. Qed.
Lemma unmarshal_t_array vf be x c : unmarshal_t (S vf) be (EArray x) c =
  if valid_slice be (erase x) then
    do r <- u_read_fixed be 4 c;
    do n <- check_array_len (fst r);
    do c1 <- u_align (ealign x) (snd r);
    if negb (n mod ealign x =? 0) then Err else
    if remainder_len c1 <? n then Err else
    match erase x with
    | TBase b => Ok (VArray (erase x) (chunks b (base_size b) (S (N.to_nat n)) (slice (ubuf c1) (uoff c1) n)),
                     set_off c1 (uoff c1 + n))
    | _ => Err
    end
  else
    do c0 <- u_align 4 c;
    do r <- u_read_fixed be 4 c0;
    do n <- check_array_len (fst r);
    do c1 <- u_align (ealign x) (snd r);
    do s <- u_sub n c1;
    do vs <- sub_loop (fun c => do c <- u_align (ealign x) c; unmarshal_t (S vf) be x c) (S (N.to_nat n)) (fst s) [];
    Ok (VArray (erase x) vs, snd s).
Proof. reflexivity. Qed.
Lemma unmarshal_t_dict vf be k v c : unmarshal_t (S vf) be (EDict k v) c =
  do c0 <- u_align 4 c;
  do r <- u_read_fixed be 4 c0;
  do n <- check_array_len (fst r);
  do c1 <- u_align 8 (snd r);
  do s <- u_sub n c1;
  do kvs <- sub_loop (fun c => do c <- u_align 8 c;
                               do kr <- u_base be k c;
                               do c2 <- u_align (ealign v) (snd kr);
                               do vr <- unmarshal_t (S vf) be v c2;
                               Ok ((fst kr, fst vr), snd vr))
                     (S (N.to_nat n)) (fst s) [];
  Ok (VDict k (erase v) kvs, snd s).
Proof. reflexivity. Qed.
Lemma unmarshal_t_var vf be x c : unmarshal_t (S vf) be (EVar x) c =
  do r <- u_read_sig c;
  match parse_description (fst r) with
  | Ok [t'] =>
      do c1 <- u_align (align t') (snd r);
      do c2 <- u_enter c1;
      do n <- validate 66 be (udepth c2) (uoff c2) (ubuf c2) t';
      do s <- u_sub n c2;
      if ty_eqb t' (erase x) then
        do v <- unmarshal_t vf be x (fst s);
        Ok (VVariant t' (fst v), u_leave (snd s))
      else Err
  | _ => Err
  end.
Proof. reflexivity. Qed.

Lemma unmarshal_r_base vf be b c : unmarshal_r (S vf) be (RBase b) c = u_base be b c.
Proof. reflexivity. Qed.
Lemma unmarshal_r_tuple vf be rs c : unmarshal_r (S vf) be (RTuple rs) c =
  do c <- u_align 8 c; do r <- tfields ralign (unmarshal_r (S vf) be) rs true c []; Ok (VStruct (fst r), snd r).
Proof. reflexivity. Qed.
Lemma unmarshal_r_derived vf be rs c : unmarshal_r (S vf) be (RDerived rs) c =
  do c <- u_align 8 c; do r <- dfields (unmarshal_r (S vf) be) rs c []; Ok (VStruct (fst r), snd r).
Proof. reflexivity. Qed.
Lemma unmarshal_r_array vf be x c : unmarshal_r (S vf) be (RArray x) c =
  if valid_slice be (sig_r x) then
    do r <- u_read_fixed be 4 c;
    do n <- check_array_len (fst r);
    do c1 <- u_align (ralign x) (snd r);
    if negb (n mod ralign x =? 0) then Err else
    if remainder_len c1 <? n then Err else
    match sig_r x with
    | TBase b => Ok (VArray (sig_r x) (chunks b (base_size b) (S (N.to_nat n)) (slice (ubuf c1) (uoff c1) n)),
                     set_off c1 (uoff c1 + n))
    | _ => Err
    end
  else
    do c0 <- u_align 4 c;
    do r <- u_read_fixed be 4 c0;
    do n <- check_array_len (fst r);
    do c1 <- u_align (ralign x) (snd r);
    do s <- u_sub n c1;
    do vs <- sub_loop (fun c => do c <- u_align (ralign x) c; unmarshal_r (S vf) be x c) (S (N.to_nat n)) (fst s) [];
    Ok (VArray (sig_r x) vs, snd s).
Proof. reflexivity. Qed.
Lemma unmarshal_r_dict vf be k v c : unmarshal_r (S vf) be (RDict k v) c =
  do c0 <- u_align 4 c;
  do r <- u_read_fixed be 4 c0;
  do n <- check_array_len (fst r);
  do c1 <- u_align 8 (snd r);
  do s <- u_sub n c1;
  do kvs <- sub_loop (fun c => do c <- u_align 8 c;
                               do kr <- u_base be k c;
                               do c2 <- u_align (ralign v) (snd kr);
                               do vr <- unmarshal_r (S vf) be v c2;
                               Ok ((fst kr, fst vr), snd vr))
                     (S (N.to_nat n)) (fst s) [];
  Ok (VDict k (sig_r v) kvs, snd s).
Proof. reflexivity. Qed.
Lemma unmarshal_r_var vf be x c : unmarshal_r (S vf) be (RVar x) c =
  do r <- u_read_sig c;
  match parse_description (fst r) with
  | Ok [t'] =>
      do c1 <- u_align (align t') (snd r);
      do c2 <- u_enter c1;
      do n <- validate 66 be (udepth c2) (uoff c2) (ubuf c2) t';
      do s <- u_sub n c2;
      if ty_eqb t' (sig_r x) then
        do v <- unmarshal_r vf be x (fst s);
        Ok (VVariant t' (fst v), u_leave (snd s))
      else Err
  | _ => Err
  end.
Proof. reflexivity. Qed.

(** ** every typed decoder aligns itself first *)
Lemma bind_assoc {A B C} (o : outcome A) (f : A -> outcome B) (g : B -> outcome C) :
  bind (bind o f) g = bind o (fun x => bind (f x) g).
Proof. destruct o; reflexivity. Qed.
Lemma bind_ok {A B} (o : outcome A) (f : A -> outcome B) b : bind o f = Ok b -> exists a, o = Ok a /\ f a = Ok b.
Proof. destruct o; cbn; try discriminate. eauto. Qed.

Lemma selfalign_form {A} a (F G : uctx -> outcome A) : 0 < a ->
  (forall c, F c = do c1 <- u_align a c; G c1) -> forall c, (do c1 <- u_align a c; F c1) = F c.
Proof.
  intros Ha H c. rewrite H. destruct (u_align a c) as [c1| | | |] eqn:E; cbn [bind]; try reflexivity.
  rewrite H, (u_align_idem _ _ _ Ha E). reflexivity.
Qed.

Lemma u_align_fields a c c1 : u_align a c = Ok c1 -> ubuf c1 = ubuf c /\ unfds c1 = unfds c /\ udepth c1 = udepth c.
Proof. intros H. apply u_align_result in H. destruct H as (p & -> & _). auto. Qed.

Lemma u_base_selfalign be b c : inv c -> (do c1 <- u_align (base_align b) c; u_base be b c1) = u_base be b c.
Proof.
  intros Hi. destruct b; cbn [base_align]; try (now rewrite u_align_1 by exact Hi).
  all: try (eapply selfalign_form; [lia|]; clear c Hi; intros c;
            unfold u_base, u_read_str, u_read_fixed; cbn [base_size Nat.eqb N.of_nat Pos.of_succ_nat Pos.succ];
            rewrite !bind_assoc; reflexivity).
  (* descriptors: the table size is read from the context, which align_to does not change *)
  unfold u_base, u_read_fixed. cbn [base_size Nat.eqb N.of_nat Pos.of_succ_nat Pos.succ].
  destruct (u_align 4 c) as [c1| | | |] eqn:E; cbn [bind]; try reflexivity.
  rewrite (u_align_idem 4 _ _ ltac:(lia) E). cbn [bind].
  destruct (u_align_fields _ _ _ E) as (_ & -> & _). reflexivity.
Qed.

Lemma ut_selfalign vf be e c : inv c ->
  (do c1 <- u_align (ealign e) c; unmarshal_t (S vf) be e c1) = unmarshal_t (S vf) be e c.
Proof.
  intros Hi. destruct e as [b|x|es|k v|x]; unfold ealign; cbn [erase align].
  - apply u_base_selfalign. exact Hi.
  - rewrite !unmarshal_t_array.
    destruct (u_align 4 c) as [c1| | | |] eqn:E; cbn [bind]; rewrite ?unmarshal_t_array;
      destruct (valid_slice be (erase x)); unfold u_read_fixed; cbn [Nat.eqb N.of_nat Pos.of_succ_nat Pos.succ];
      rewrite ?E; cbn [bind]; rewrite ?E, ?(u_align_idem 4 _ _ ltac:(lia) E); cbn [bind]; rewrite ?(u_align_idem 4 _ _ ltac:(lia) E); reflexivity.
  - rewrite !unmarshal_t_struct.
    destruct (u_align 8 c) as [c1| | | |] eqn:E; cbn [bind]; rewrite ?unmarshal_t_struct;
      rewrite ?E; cbn [bind]; rewrite ?E, ?(u_align_idem 8 _ _ ltac:(lia) E); cbn [bind]; rewrite ?(u_align_idem 8 _ _ ltac:(lia) E); reflexivity.
  - rewrite !unmarshal_t_dict.
    destruct (u_align 4 c) as [c1| | | |] eqn:E; cbn [bind]; rewrite ?unmarshal_t_dict;
      rewrite ?E; cbn [bind]; rewrite ?E, ?(u_align_idem 4 _ _ ltac:(lia) E); cbn [bind]; rewrite ?(u_align_idem 4 _ _ ltac:(lia) E); reflexivity.
  - now rewrite u_align_1 by exact Hi.
Qed.

(** ** a successful decode leaves the cursor inside the buffer *)
Ltac inv_bind H := let a := fresh "a" in let E := fresh "E" in apply bind_ok in H; destruct H as (a & E & H).

Lemma u_read_fixed_inv be k c r : (0 < k)%nat -> u_read_fixed be k c = Ok r -> inv (snd r).
Proof.
  intros Hk H. unfold u_read_fixed in H. inv_bind H.
  destruct (N.ltb_spec (remainder_len a) (N.of_nat k)) as [|Hr]; [discriminate|]. injection H as <-.
  unfold inv, remainder_len in *. cbn [snd set_off uoff ubuf]. lia.
Qed.
Lemma unmarshal_str_bound be buf o r : unmarshal_str be buf o = Ok r -> o + fst r <= len buf.
Proof.
  unfold unmarshal_str. intros H. inv_bind H.
  destruct (N.ltb_spec (len buf - o) (a + 5)) as [|Hr]; [discriminate|].
  destruct (negb _); [discriminate|]. destruct (has_nul _); [discriminate|].
  destruct (nthN buf (o + 4 + a)) as [[|p]|]; try discriminate. injection H as <-. cbn [fst]. lia.
Qed.
Lemma unmarshal_signature_bound buf o r : unmarshal_signature buf o = Ok r -> o + fst r <= len buf.
Proof.
  unfold unmarshal_signature. destruct (len buf <? o); [discriminate|].
  destruct (nthN buf o) as [n|]; [|discriminate].
  destruct (N.ltb_spec (len buf - o) (n + 2)) as [|Hr]; [discriminate|].
  destruct (negb _); [discriminate|].
  destruct (nthN buf (o + n + 1)) as [[|p]|]; try discriminate. intros H. injection H as <-. cbn [fst]. lia.
Qed.
Lemma u_read_str_inv be c r : u_read_str be c = Ok r -> inv (snd r).
Proof.
  unfold u_read_str. intros H. inv_bind H. inv_bind H. injection H as <-.
  apply unmarshal_str_bound in E0. exact E0.
Qed.
Lemma u_read_sig_inv c r : u_read_sig c = Ok r -> inv (snd r).
Proof.
  unfold u_read_sig. intros H. inv_bind H. injection H as <-. apply unmarshal_signature_bound in E. exact E.
Qed.
Lemma u_base_inv be b c r : u_base be b c = Ok r -> inv (snd r).
Proof.
  destruct b; unfold u_base; intros H; inv_bind H;
    try (injection H as <-; eapply u_read_fixed_inv; [|eassumption]; cbn; lia).
  - (* fd *) destruct (unfds c <=? fst a); [discriminate|]. injection H as <-. eapply u_read_fixed_inv; [|eassumption]. lia.
  - injection H as <-. eapply u_read_str_inv; eassumption.
  - destruct (is_ok _); [|discriminate]. injection H as <-. eapply u_read_sig_inv; eassumption.
  - destruct (valid_path _); [|discriminate]. injection H as <-. eapply u_read_str_inv; eassumption.
  - destruct (fst a <? 2); [|discriminate]. injection H as <-. eapply u_read_fixed_inv; [|eassumption]. lia.
Qed.
Lemma u_sub_inv n c s : inv c -> u_sub n c = Ok s -> inv (fst s) /\ inv (snd s).
Proof.
  unfold u_sub, inv, remainder_len. intros Hi. destruct (N.ltb_spec (len (ubuf c) - uoff c) n) as [|Hr]; [discriminate|].
  intros H. injection H as <-. cbn [fst snd ubuf uoff set_off]. rewrite len_firstnN. lia.
Qed.

Lemma tfields_inv {T} (al : T -> N) (u : T -> uctx -> outcome (val * uctx)) : forall l,
  Forall (fun f => forall c r, u f c = Ok r -> inv (snd r)) l ->
  forall first c acc r, inv c -> tfields al u l first c acc = Ok r -> inv (snd r).
Proof.
  induction 1 as [|f l Hf _ IH]; intros first c acc r Hi H; cbn [tfields] in H.
  - injection H as <-. exact Hi.
  - inv_bind H. inv_bind H. apply IH in H; [exact H|]. eapply Hf. eassumption.
Qed.

Lemma ut_inv vf be : forall e c r, unmarshal_t (S vf) be e c = Ok r -> inv (snd r).
Proof.
  induction e as [b|x IHx|es IHes|k v IHv|x IHx] using ety_ind'; intros c r H.
  - eapply u_base_inv. exact H.
  - rewrite unmarshal_t_array in H. destruct (valid_slice be (erase x)).
    + inv_bind H. inv_bind H. inv_bind H. destruct (negb _); [discriminate|].
      destruct (N.ltb_spec (remainder_len a1) a0) as [|Hr]; [discriminate|].
      destruct (erase x); try discriminate. injection H as <-.
      apply u_align_inv in E1. unfold inv, remainder_len in *. cbn [snd set_off uoff ubuf]. lia.
    + do 6 inv_bind H. injection H as <-. apply u_align_inv in E2. apply (u_sub_inv _ _ _ E2 E3).
  - rewrite unmarshal_t_struct in H. inv_bind H. inv_bind H. injection H as <-. cbn [snd].
    eapply tfields_inv; [exact IHes|eapply u_align_inv; eassumption|eassumption].
  - rewrite unmarshal_t_dict in H. do 6 inv_bind H. injection H as <-. apply u_align_inv in E2. apply (u_sub_inv _ _ _ E2 E3).
  - rewrite unmarshal_t_var in H. inv_bind H.
    destruct (parse_description (fst a)) as [[|t' [|? ?]]| | | |]; try discriminate.
    do 4 inv_bind H. destruct (ty_eqb t' (erase x)); [|discriminate]. inv_bind H. injection H as <-.
    apply u_align_inv in E0.
    assert (E0' : inv a1) by (unfold u_enter in E1; destruct (_ <=? _); [discriminate|]; injection E1 as <-; exact E0).
    destruct (u_sub_inv _ _ _ E0' E3) as [_ Hs]. exact Hs.
Qed.

(** ** the derived struct decodes exactly as the tuple of its fields *)
Lemma sub_loop_ext {A} (f g : uctx -> outcome (A * uctx)) : (forall c, f c = g c) ->
  forall lf c acc, sub_loop f lf c acc = sub_loop g lf c acc.
Proof.
  intros H. induction lf as [|lf IH]; intros c acc; cbn [sub_loop]; [reflexivity|].
  destruct (remainder_len c =? 0); [reflexivity|]. rewrite H. destruct (g c) as [r| | | |]; cbn [bind]; [apply IH|..]; reflexivity.
Qed.

Lemma tfields_map (U : rty -> uctx -> outcome (val * uctx)) (V : ety -> uctx -> outcome (val * uctx)) : forall rs,
  Forall (fun r => forall c, U r c = V (tup r) c) rs ->
  forall first c acc, tfields ralign U rs first c acc = tfields ealign V (map tup rs) first c acc.
Proof.
  induction 1 as [|r rs Hr _ IH]; intros first c acc; cbn [tfields map]; [reflexivity|].
  rewrite ralign_tup. destruct (if first then Ok c else u_align (ealign (tup r)) c) as [c1| | | |]; cbn [bind]; try reflexivity.
  rewrite Hr. destruct (V (tup r) c1) as [x| | | |]; cbn [bind]; [apply IH|..]; reflexivity.
Qed.

Lemma dfields_tfields vf be (U : rty -> uctx -> outcome (val * uctx)) : forall rs,
  Forall (fun r => forall c, U r c = unmarshal_t (S vf) be (tup r) c) rs ->
  forall first c acc, inv c ->
    dfields U rs c acc = tfields ealign (unmarshal_t (S vf) be) (map tup rs) first c acc.
Proof.
  induction 1 as [|r rs Hr _ IH]; intros first c acc Hi; cbn [dfields tfields map]; [reflexivity|].
  rewrite Hr.
  assert (E : (do c0 <- (if first then Ok c else u_align (ealign (tup r)) c);
               do x <- unmarshal_t (S vf) be (tup r) c0;
               tfields ealign (unmarshal_t (S vf) be) (map tup rs) false (snd x) (fst x :: acc))
              = do x <- unmarshal_t (S vf) be (tup r) c;
                tfields ealign (unmarshal_t (S vf) be) (map tup rs) false (snd x) (fst x :: acc)).
  { destruct first; [reflexivity|]. rewrite <- (ut_selfalign vf be (tup r) c Hi). now rewrite bind_assoc. }
  rewrite E. destruct (unmarshal_t (S vf) be (tup r) c) as [x| | | |] eqn:Ex; cbn [bind]; try reflexivity.
  apply IH. eapply ut_inv. exact Ex.
Qed.

Theorem unmarshal_r_tup : forall vf be r c, unmarshal_r vf be r c = unmarshal_t vf be (tup r) c.
Proof.
  induction vf as [|vf IHvf]; intros be r; [reflexivity|].
  induction r as [b|x IHx|rs IHrs|k v IHv|x IHx|rs IHrs] using rty_ind'; intros c; cbn [tup].
  - reflexivity.
  - rewrite unmarshal_r_array, unmarshal_t_array, <- sig_r_tup, <- ralign_tup.
    destruct (valid_slice be (sig_r x)); [reflexivity|].
    destruct (u_align 4 c) as [c0| | | |]; cbn [bind]; try reflexivity.
    destruct (u_read_fixed be 4 c0) as [r0| | | |]; cbn [bind]; try reflexivity.
    destruct (check_array_len (fst r0)) as [n| | | |]; cbn [bind]; try reflexivity.
    destruct (u_align (ralign x) (snd r0)) as [c1| | | |]; cbn [bind]; try reflexivity.
    destruct (u_sub n c1) as [s| | | |]; cbn [bind]; try reflexivity.
    rewrite (sub_loop_ext _ (fun c2 => do c3 <- u_align (ralign x) c2; unmarshal_t (S vf) be (tup x) c3)); [reflexivity|].
    intros c2. destruct (u_align (ralign x) c2); cbn [bind]; try reflexivity. apply IHx.
  - rewrite unmarshal_r_tuple, unmarshal_t_struct.
    destruct (u_align 8 c) as [c0| | | |]; cbn [bind]; try reflexivity.
    now rewrite (tfields_map _ (unmarshal_t (S vf) be) rs IHrs).
  - rewrite unmarshal_r_dict, unmarshal_t_dict, <- sig_r_tup, <- ralign_tup.
    destruct (u_align 4 c) as [c0| | | |]; cbn [bind]; try reflexivity.
    destruct (u_read_fixed be 4 c0) as [r0| | | |]; cbn [bind]; try reflexivity.
    destruct (check_array_len (fst r0)) as [n| | | |]; cbn [bind]; try reflexivity.
    destruct (u_align 8 (snd r0)) as [c1| | | |]; cbn [bind]; try reflexivity.
    destruct (u_sub n c1) as [s| | | |]; cbn [bind]; try reflexivity.
    rewrite (sub_loop_ext _ (fun c => do c <- u_align 8 c;
                               do kr <- u_base be k c;
                               do c2 <- u_align (ralign v) (snd kr);
                               do vr <- unmarshal_t (S vf) be (tup v) c2;
                               Ok ((fst kr, fst vr), snd vr))); [reflexivity|].
    intros c2. destruct (u_align 8 c2); cbn [bind]; try reflexivity.
    destruct (u_base be k a); cbn [bind]; try reflexivity.
    destruct (u_align (ralign v) (snd a0)); cbn [bind]; try reflexivity. now rewrite IHv.
  - rewrite unmarshal_r_var, unmarshal_t_var, <- sig_r_tup.
    destruct (u_read_sig c) as [r0| | | |]; cbn [bind]; try reflexivity.
    destruct (parse_description (fst r0)) as [[|t' [|? ?]]| | | |]; try reflexivity.
    destruct (u_align (align t') (snd r0)) as [c1| | | |]; cbn [bind]; try reflexivity.
    destruct (u_enter c1) as [c2| | | |]; cbn [bind]; try reflexivity.
    destruct (validate 66 be (udepth c2) (uoff c2) (ubuf c2) t') as [n| | | |]; cbn [bind]; try reflexivity.
    destruct (u_sub n c2) as [s| | | |]; cbn [bind]; try reflexivity.
    destruct (ty_eqb t' (sig_r x)); [|reflexivity]. now rewrite IHvf.
  - rewrite unmarshal_r_derived, unmarshal_t_struct.
    destruct (u_align 8 c) as [c0| | | |] eqn:E; cbn [bind]; try reflexivity.
    now rewrite (dfields_tfields vf be _ rs IHrs true c0 [] (u_align_inv _ _ _ E)).
Qed.

(* the statement about the generated code alone *)
Corollary derived_unmarshal_tuple vf be rs c :
  unmarshal_r vf be (RDerived rs) c = unmarshal_r vf be (RTuple rs) c.
Proof. now rewrite !unmarshal_r_tup. Qed.

(** ** has_sig: exact on every complete type, for tuples and for derived structs *)
Definition tys_eqb : list ty -> list ty -> bool :=
  fix go (l1 l2 : list ty) : bool :=
    match l1, l2 with
    | [], [] => true
    | x :: l1', y :: l2' => ty_eqb x y && go l1' l2'
    | _, _ => false
    end.
Lemma ty_eqb_struct a b : ty_eqb (TStruct a) (TStruct b) = tys_eqb a b.
Proof. reflexivity. Qed.

Lemma ty_eqb_true : forall a b, ty_eqb a b = true -> a = b.
Proof.
  induction a as [x|e IHe|ts IHts|k v IHv|] using ty_ind'; intros b H; destruct b as [y|e'|ts'|k' v'|]; try discriminate.
  - cbn [ty_eqb] in H. destruct (base_eqb_spec x y); [congruence|discriminate].
  - cbn [ty_eqb] in H. f_equal. now apply IHe.
  - rewrite ty_eqb_struct in H. f_equal. revert ts' H.
    induction IHts as [|t ts Ht _ IH]; intros [|t' ts'] H; cbn [tys_eqb] in H; try discriminate; [reflexivity|].
    apply andb_prop in H. destruct H as [H1 H2]. f_equal; [now apply Ht|now apply IH].
  - cbn [ty_eqb] in H. apply andb_prop in H. destruct H as [H1 H2].
    destruct (base_eqb_spec k k'); [|discriminate]. f_equal; [assumption|now apply IHv].
  - reflexivity.
Qed.
Lemma ty_eqb_iff a b : ty_eqb a b = true <-> a = b.
Proof. split; [apply ty_eqb_true|intros ->; apply ty_eqb_refl]. Qed.

Lemma strip_parens_struct ts : strip_parens (to_str (TStruct ts)) = Some (to_str_list ts).
Proof.
  cbn [to_str strip_parens]. unfold c_lpar. change (40 =? 40) with true. cbv iota. fold (to_str_list ts).
  destruct (to_str_list ts ++ [c_rpar]) as [|y ys] eqn:Eapp; [destruct (to_str_list ts); discriminate|].
  rewrite <- Eapp. now rewrite last_app_single, removelast_app_single, N.eqb_refl.
Qed.
Lemma strip_parens_other t : (forall ts, t <> TStruct ts) -> strip_parens (to_str t) = None.
Proof.
  intros H. destruct t as [b|e|ts|k v|]; cbn [to_str strip_parens]; try reflexivity.
  - destruct b; reflexivity.
  - now elim (H ts).
Qed.

Lemma has_sig_r_entry_false x k v : has_sig_r x (c_lbrace :: base_char k :: to_str v ++ [c_rbrace]) = Ok false.
Proof. destruct x as [b|?|?|? ?|?|?]; cbn [has_sig_r starts_with strip_parens]; try reflexivity. destruct b; reflexivity. Qed.

(* the `&&` chain over the pieces of a struct signature *)
Lemma all_has_sig_types (h : rty -> list N -> outcome bool) : forall rs,
  Forall (fun r => forall t, h r (to_str t) = Ok (ty_eqb (sig_r r) t)) rs ->
  forall ts, length ts = length rs -> all_has_sig h rs (map to_str ts) = Ok (tys_eqb (map sig_r rs) ts).
Proof.
  induction 1 as [|r rs Hr _ IH]; intros [|t ts] Hl; try discriminate; [reflexivity|].
  cbn [all_has_sig map tys_eqb]. rewrite Hr. cbn [bind].
  destruct (ty_eqb (sig_r r) t); [|reflexivity]. cbn [andb]. apply IH. cbn in Hl. lia.
Qed.
Lemma tys_eqb_length a b : tys_eqb a b = true -> length a = length b.
Proof. revert b. induction a as [|x a IH]; intros [|y b] H; cbn [tys_eqb] in H; try discriminate; [reflexivity|].
  apply andb_prop in H. destruct H as [_ H]. cbn [length]. f_equal. now apply IH. Qed.
Lemma tys_eqb_length_ne a b : length a <> length b -> tys_eqb a b = false.
Proof. intros H. destruct (tys_eqb a b) eqn:E; [|reflexivity]. now elim H; apply tys_eqb_length. Qed.

(* the generated loop: next, has_sig, next, has_sig, ..., finally is_none *)
Lemma derived_fields_types (h : rty -> list N -> outcome bool) : forall rs,
  Forall (fun r => forall t, h r (to_str t) = Ok (ty_eqb (sig_r r) t)) rs ->
  forall ts, derived_fields_has_sig h rs (to_str_list ts) = Ok (tys_eqb (map sig_r rs) ts).
Proof.
  induction 1 as [|r rs Hr _ IH]; intros [|t ts]; cbn [derived_fields_has_sig map tys_eqb].
  - reflexivity.
  - unfold to_str_list. cbn [flat_map]. now rewrite sig_next_type.
  - reflexivity.
  - unfold to_str_list. cbn [flat_map]. rewrite sig_next_type. cbn [bind]. rewrite Hr. cbn [bind].
    destruct (ty_eqb (sig_r r) t); [|reflexivity]. cbn [andb]. apply IH.
Qed.

Theorem has_sig_r_exact : forall r t, has_sig_r r (to_str t) = Ok (ty_eqb (sig_r r) t).
Proof.
  induction r as [b|x IHx|rs IHrs|k v IHv|x IHx|rs IHrs] using rty_ind'; intros t; cbn [has_sig_r sig_r].
  - now rewrite base_char_first.
  - (* Vec *)
    destruct t as [b'|t1|ts|k' v'|]; cbn [to_str ty_eqb].
    + destruct (base_char_not_a b') as [-> _]. reflexivity.
    + unfold c_a. change (97 =? 97) with true. cbv iota. rewrite sig_next_type'. cbn [bind]. apply IHx.
    + reflexivity.
    + unfold c_a. change (97 =? 97) with true. cbv iota. rewrite sig_next_entry. cbn [bind]. apply has_sig_r_entry_false.
    + reflexivity.
  - (* tuple *)
    destruct t as [b'|t1|ts|k' v'|];
      try (rewrite strip_parens_other by (intros ? ?; discriminate); reflexivity).
    rewrite strip_parens_struct, ty_eqb_struct.
    destruct (Nat.le_gt_cases (length rs) (length ts)) as [Hle|Hgt].
    + rewrite <- (app_nil_r (to_str_list ts)). rewrite take_sigs_types by exact Hle. cbn [bind rev app]. rewrite app_nil_r.
      destruct (skipn (length rs) ts) as [|t' rest'] eqn:Esk.
      * cbn [to_str_list flat_map]. rewrite sig_next_nil. cbn [bind].
        assert (Hlen : length ts = length rs).
        { assert (length (skipn (length rs) ts) = 0%nat) by now rewrite Esk. rewrite skipn_length in H. lia. }
        rewrite <- Hlen, firstn_all. apply all_has_sig_types; assumption.
      * unfold to_str_list at 1. cbn [flat_map]. rewrite sig_next_type. cbn [bind].
        rewrite tys_eqb_length_ne; [reflexivity|]. rewrite map_length.
        assert (length (skipn (length rs) ts) <> 0%nat) by now rewrite Esk. rewrite skipn_length in H. lia.
    + rewrite take_sigs_short by exact Hgt. cbn [bind]. rewrite tys_eqb_length_ne; [reflexivity|]. rewrite map_length. lia.
  - (* HashMap *)
    destruct t as [b'|t1|ts|k' v'|]; cbn [to_str ty_eqb].
    + reflexivity.
    + unfold c_a. change (97 =? 97) with true. destruct (to_str_nonempty t1) as (c0 & r0 & E0). rewrite E0.
      pose proof (first_not_lbrace _ _ _ E0) as Hc. destruct (N.eqb_spec c0 c_lbrace) as [->|_]; [now elim Hc|]. reflexivity.
    + destruct (flat_map to_str ts ++ [c_rpar]); reflexivity.
    + unfold c_a, c_lbrace. change (97 =? 97) with true. change (123 =? 123) with true. cbn [andb]. cbv iota.
      destruct (to_str v' ++ [c_rbrace]) as [|y ys] eqn:Eapp; [destruct (to_str v'); discriminate|].
      change (base_char k' :: y :: ys) with (base_char k' :: (y :: ys)). rewrite <- Eapp.
      change (base_char k' :: to_str v' ++ [c_rbrace]) with ((base_char k' :: to_str v') ++ [c_rbrace]).
      rewrite removelast_app_single.
      change (base_char k' :: to_str v') with (to_str (TBase k') ++ to_str v'). rewrite sig_next_type. cbn [bind].
      cbn [to_str starts_with]. unfold base_eqb. rewrite N.eqb_sym.
      destruct (base_char k =? base_char k'); [|reflexivity]. cbn [andb].
      rewrite sig_next_type'. cbn [bind]. apply IHv.
    + reflexivity.
  - (* Variant *)
    destruct t as [b'|t1|ts|k' v'|]; cbn [to_str ty_eqb starts_with]; try reflexivity.
    destruct b'; reflexivity.
  - (* derived struct *)
    destruct t as [b'|t1|ts|k' v'|];
      try (rewrite strip_parens_other by (intros ? ?; discriminate); reflexivity).
    rewrite strip_parens_struct, ty_eqb_struct. apply derived_fields_types. exact IHrs.
Qed.

(* a derived struct answers has_sig exactly like the tuple of its fields, and only for its own signature *)
Corollary derived_has_sig_tuple rs t : has_sig_r (RDerived rs) (to_str t) = has_sig_r (RTuple rs) (to_str t).
Proof. now rewrite !has_sig_r_exact. Qed.
Corollary derived_has_sig_iff rs t :
  has_sig_r (RDerived rs) (to_str t) = Ok true <-> to_str t = to_str (TStruct (map sig_r rs)).
Proof.
  rewrite has_sig_r_exact. cbn [sig_r]. split.
  - intros H. assert (H' : ty_eqb (TStruct (map sig_r rs)) t = true) by congruence.
    apply ty_eqb_true in H'. now rewrite <- H'.
  - intros H. f_equal. apply ty_eqb_iff.
    (* printing is injective: has_sig of the matching tuple type tells the two types apart *)
    pose proof (has_sig_r_exact (RTuple rs) t) as H1. pose proof (has_sig_r_exact (RTuple rs) (TStruct (map sig_r rs))) as H2.
    rewrite H in H1. rewrite H1 in H2. cbn [sig_r] in H2. rewrite ty_eqb_refl in H2.
    assert (H' : ty_eqb (TStruct (map sig_r rs)) t = true) by congruence. now apply ty_eqb_true.
Qed.
