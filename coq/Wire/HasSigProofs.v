(** has_sig is exact: on the printed form of any type it answers whether that type is the Rust
    type's own D-Bus type, and it never panics there. *)
From RB Require Import Base.Prelude Sig.Types Sig.Parser Sig.ParserProofs Sig.Iter Wire.Value Wire.Unmarshal Wire.HasSig.

Section ety_ind'.
  Variable P : ety -> Prop.
  Hypothesis Hb : forall b, P (EBase b).
  Hypothesis Ha : forall x, P x -> P (EArray x).
  Hypothesis Hs : forall es, Forall P es -> P (EStruct es).
  Hypothesis Hd : forall k v, P v -> P (EDict k v).
  Hypothesis Hv : forall x, P x -> P (EVar x).
  Fixpoint ety_ind' (e : ety) : P e :=
    match e with
    | EBase b => Hb b
    | EArray x => Ha x (ety_ind' x)
    | EStruct es => Hs es ((fix go (l : list ety) : Forall P l :=
                              match l with [] => Forall_nil P | x :: xs => Forall_cons x (ety_ind' x) (go xs) end) es)
    | EDict k v => Hd k v (ety_ind' v)
    | EVar x => Hv x (ety_ind' x)
    end.
End ety_ind'.

Lemma sig_next_nil : sig_next [] = Ok None. Proof. reflexivity. Qed.

Lemma sig_next_type t rest : sig_next (to_str t ++ rest) = Ok (Some (to_str t, rest)).
Proof.
  unfold sig_next, iter_next. destruct (to_str_nonempty t) as (c0 & r0 & E0).
  destruct (to_str t ++ rest) as [|y ys] eqn:Eapp; [rewrite E0 in Eapp; discriminate|].
  rewrite <- Eapp. rewrite (scan_type t rest 0 0) by lia. cbn [Z.eqb bind].
  rewrite N.add_0_l, firstnN_app_len, skipnN_app_len. reflexivity.
Qed.
Lemma sig_next_type' t : sig_next (to_str t) = Ok (Some (to_str t, [])).
Proof. rewrite <- (app_nil_r (to_str t)) at 1. apply sig_next_type. Qed.

(* one step of the bracket scan *)
Lemma scan_open c r k cnt : c = 40 \/ c = 123 ->
  scan (c :: r) k cnt = if (k + 1 =? 0)%Z then Ok (cnt + 1) else scan r (k + 1)%Z (cnt + 1).
Proof. intros [-> | ->]; reflexivity. Qed.
Lemma scan_close c r k cnt : c = 41 \/ c = 125 ->
  scan (c :: r) k cnt = if (k - 1 =? 0)%Z then Ok (cnt + 1) else scan r (k - 1)%Z (cnt + 1).
Proof. intros [-> | ->]; reflexivity. Qed.
Lemma scan_base b r k cnt :
  scan (base_char b :: r) k cnt = if (k =? 0)%Z then Ok (cnt + 1) else scan r k (cnt + 1).
Proof. destruct b; reflexivity. Qed.

(* the dict-entry part "{kv}" of a dict signature is scanned as one piece *)
Lemma sig_next_entry k v : sig_next (c_lbrace :: base_char k :: to_str v ++ [c_rbrace]) =
  Ok (Some (c_lbrace :: base_char k :: to_str v ++ [c_rbrace], [])).
Proof.
  unfold sig_next, iter_next. unfold c_lbrace at 1.
  rewrite scan_open by (right; reflexivity). change (0 + 1 =? 0)%Z with false. cbv iota.
  rewrite scan_base. change (0 + 1 =? 0)%Z with false. cbv iota.
  rewrite (scan_type v [c_rbrace] (0 + 1)%Z _) by lia. change (0 + 1 =? 0)%Z with false. cbv iota.
  unfold c_rbrace at 1. rewrite scan_close by (right; reflexivity). change (0 + 1 - 1 =? 0)%Z with true. cbv iota.
  cbn [bind].
  set (l := c_lbrace :: base_char k :: to_str v ++ [c_rbrace]).
  assert (El : 0 + 1 + 1 + len (to_str v) + 1 = len l).
  { subst l. unfold len. cbn [length]. rewrite app_length. cbn [length]. lia. }
  rewrite El. unfold firstnN, skipnN, len. rewrite Nat2N.id, firstn_all, skipn_all. reflexivity.
Qed.

Lemma base_char_first b t : starts_with (base_char b) (to_str t) = ty_eqb (TBase b) t.
Proof.
  destruct t as [b'|e|ts|k v|]; cbn [to_str starts_with ty_eqb].
  - unfold base_eqb. apply N.eqb_sym.
  - destruct b; reflexivity.
  - destruct b; reflexivity.
  - destruct b; reflexivity.
  - destruct b; reflexivity.
Qed.

Lemma base_char_not_a b : (base_char b =? c_a) = false /\ (base_char b =? c_lpar) = false.
Proof. destruct b; split; reflexivity. Qed.

Lemma has_sig_entry_false x k v : has_sig x (c_lbrace :: base_char k :: to_str v ++ [c_rbrace]) = Ok false.
Proof. destruct x as [b|?|?|? ?|?]; cbn [has_sig starts_with]; try reflexivity. destruct b; reflexivity. Qed.

Lemma first_not_lbrace t : forall c r, to_str t = c :: r -> c <> c_lbrace.
Proof.
  intros c r H. destruct (first_tok _ _ _ H) as (tok & Et & Hne & _). intros ->. cbn in Et. injection Et as <-. now elim Hne.
Qed.

Lemma removelast_app_single {A} (l : list A) x : removelast (l ++ [x]) = l.
Proof. apply removelast_last. Qed.
Lemma last_app_single {A} (l : list A) x d : last (l ++ [x]) d = x.
Proof. apply last_last. Qed.

Lemma take_sigs_types : forall ts n rest acc, (n <= length ts)%nat ->
  take_sigs n (to_str_list ts ++ rest) acc =
  Ok (Some (rev acc ++ map to_str (firstn n ts), to_str_list (skipn n ts) ++ rest)).
Proof.
  induction ts as [|t ts IH]; intros n rest acc Hn.
  - destruct n; [|cbn in Hn; lia]. cbn. now rewrite app_nil_r.
  - destruct n as [|n]; [cbn; now rewrite app_nil_r|]. cbn [take_sigs].
    unfold to_str_list. cbn [flat_map]. fold (to_str_list ts). rewrite <- app_assoc, sig_next_type. cbn [bind].
    rewrite IH by (cbn in Hn; lia). cbn [rev firstn map skipn]. rewrite <- app_assoc. reflexivity.
Qed.

Lemma take_sigs_short : forall ts n acc, (length ts < n)%nat -> take_sigs n (to_str_list ts) acc = Ok None.
Proof.
  induction ts as [|t ts IH]; intros n acc Hn; (destruct n as [|n]; [cbn in Hn; lia|]); cbn [take_sigs].
  - reflexivity.
  - unfold to_str_list. cbn [flat_map]. fold (to_str_list ts). rewrite sig_next_type. cbn [bind].
    apply IH. cbn in Hn. lia.
Qed.

Theorem has_sig_exact : forall e t, has_sig e (to_str t) = Ok (ty_eqb (erase e) t).
Proof.
  induction e as [b|x IHx|es IHes|k v IHv|x IHx] using ety_ind'; intros t; cbn [has_sig erase].
  - now rewrite base_char_first.
  - (* array *)
    destruct t as [b'|t1|ts|k' v'|]; cbn [to_str ty_eqb].
    + destruct (base_char_not_a b') as [-> _]. reflexivity.
    + unfold c_a. change (97 =? 97) with true. cbv iota. rewrite sig_next_type'. cbn [bind]. apply IHx.
    + reflexivity.
    + unfold c_a. change (97 =? 97) with true. cbv iota. rewrite sig_next_entry. cbn [bind]. apply has_sig_entry_false.
    + reflexivity.
  - (* struct *)
    destruct t as [b'|t1|ts|k' v'|]; cbn [to_str ty_eqb]; try reflexivity.
    + destruct (base_char_not_a b') as [_ ->]. reflexivity.
    + unfold c_lpar. change (40 =? 40) with true. cbv iota.
      fold (to_str_list ts).
      destruct (to_str_list ts ++ [c_rpar]) as [|y ys] eqn:Eapp; [destruct (to_str_list ts); discriminate|].
      rewrite <- Eapp. clear Eapp y ys. rewrite last_app_single, removelast_app_single. rewrite N.eqb_refl.
      destruct (Nat.le_gt_cases (length (map erase es)) (length ts)) as [Hle|Hgt].
      * rewrite <- (app_nil_r (to_str_list ts)). rewrite map_length in Hle. rewrite take_sigs_types by exact Hle. cbn [bind rev app].
        rewrite app_nil_r.
        destruct (skipn (length es) ts) as [|t' rest'] eqn:Esk.
        -- cbn [to_str_list flat_map]. rewrite sig_next_nil. cbn [bind].
           assert (Hlen : length ts = length es).
           { assert (length (skipn (length es) ts) = 0%nat) by now rewrite Esk. rewrite skipn_length in H. lia. }
           rewrite <- Hlen, firstn_all. clear Esk Hle. revert ts Hlen.
           induction es as [|f es' IH]; intros ts Hlen; destruct ts as [|t0 ts']; try discriminate; [reflexivity|].
           apply Forall_cons_iff in IHes. destruct IHes as [Hf Hes]. cbn [map]. rewrite Hf. cbn [bind].
           destruct (ty_eqb (erase f) t0); [|reflexivity]. cbn [andb]. apply IH; [exact Hes|cbn in Hlen; lia].
        -- unfold to_str_list at 1. cbn [flat_map]. rewrite sig_next_type. cbn [bind].
           assert (Hlen : (length es < length ts)%nat).
           { assert (length (skipn (length es) ts) <> 0%nat) by now rewrite Esk. rewrite skipn_length in H. lia. }
           f_equal. symmetry. clear -Hlen. revert ts Hlen. induction es as [|f es' IH]; intros ts Hlen; destruct ts as [|t0 ts']; cbn in *; try lia; try reflexivity.
           rewrite IH by lia. apply andb_false_r.
      * rewrite map_length in Hgt. rewrite take_sigs_short by exact Hgt. cbn [bind]. f_equal. symmetry.
        clear -Hgt. revert ts Hgt. induction es as [|f es' IH]; intros ts Hgt; destruct ts as [|t0 ts']; cbn in *; try lia; try reflexivity.
        rewrite IH by lia. apply andb_false_r.
  - (* dict *)
    destruct t as [b'|t1|ts|k' v'|]; cbn [to_str ty_eqb].
    + reflexivity.
    + unfold c_a. change (97 =? 97) with true. destruct (to_str_nonempty t1) as (c0 & r0 & E0). rewrite E0.
      pose proof (first_not_lbrace _ _ _ E0) as Hc. destruct (N.eqb_spec c0 c_lbrace) as [->|_]; [now elim Hc|]. reflexivity.
    + destruct (flat_map to_str ts ++ [c_rpar]); reflexivity.
    + unfold c_a, c_lbrace. change (97 =? 97) with true. change (123 =? 123) with true. cbn [andb]. cbv iota.
      destruct (to_str v' ++ [c_rbrace]) as [|y ys] eqn:Eapp; [destruct (to_str v'); discriminate|].
      change (base_char k' :: y :: ys) with (base_char k' :: (y :: ys)). rewrite <- Eapp.
      change (base_char k' :: to_str v' ++ [c_rbrace]) with ((base_char k' :: to_str v') ++ [c_rbrace]).
      rewrite removelast_app_single.
      change (base_char k' :: to_str v') with (to_str (TBase k') ++ to_str v'). rewrite sig_next_type. cbn [bind].
      cbn [to_str starts_with]. unfold base_eqb. rewrite N.eqb_sym.
      destruct (base_char k =? base_char k'); [|reflexivity]. cbn [andb].
      rewrite sig_next_type'. cbn [bind]. apply IHv.
    + reflexivity.
  - (* variant *)
    destruct t as [b'|t1|ts|k' v'|]; cbn [to_str ty_eqb starts_with]; try reflexivity.
    destruct b'; reflexivity.
Qed.
