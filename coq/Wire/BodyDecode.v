(** C03 at the level of a whole body: MarshalledMessageBody::validate() accepts exactly the bodies that
    MarshalledMessage::unmarshall_all (wire::unmarshal::unmarshal_body) decodes when enough descriptors are attached
    (after fix 5de75d3 both demand that all bytes are used), and with nf descriptors unmarshall_all accepts exactly
    those whose descriptor indices are below nf, returning the same values.
    Models: Wire/Ops.v (body_validate, op_body_validate, unmarshal_p_seq, unmarshal_body, body_unmarshall_all). *)
From RB Require Import Base.Prelude Sig.Types Sig.Parser Sig.ParserProofs Sig.Validator Wire.Bytes Wire.Align Wire.Text
  Wire.Value Wire.SpecEnc Wire.Marshal Wire.Relabel Wire.Decode Wire.Unmarshal Wire.Ops
  Wire.DecodeLemmas Wire.DecodeComplete Wire.DecodeSoundLemmas Wire.DecodeTotal Wire.DecodeSound.

Notation ctx0 buf off nf := {| ubuf := buf; uoff := off; unfds := nf; udepth := 0 |}.

(* every type of a parsed signature may be decoded *)
Lemma parse_description_types_ok s ts : parse_description s = Ok ts -> Forall (fun t => type_ok t = true) ts.
Proof.
  intros H. apply parse_description_spec in H. destruct H as (Hl & Hw & Hd & ->).
  assert (G : forall ts pre, len (pre ++ to_str_list ts) <= 255 -> forallb wf ts = true -> forallb (depth_ok 0 0) ts = true ->
              Forall (fun t => type_ok t = true) ts).
  { clear. induction ts as [|t r IH]; intros pre Hl Hw Hd; [constructor|]. cbn [forallb to_str_list flat_map] in *.
    apply andb_prop in Hw, Hd. destruct Hw as [Hw1 Hw2], Hd as [Hd1 Hd2]. constructor.
    - unfold type_ok. rewrite Hw1, Hd1. cbn [andb]. apply N.leb_le. rewrite !len_app in Hl. lia.
    - apply (IH (pre ++ to_str t)); [|assumption|assumption]. fold (to_str_list r) in Hl. now rewrite <- app_assoc. }
  exact (G ts [] Hl Hw Hd).
Qed.

(* the fuel of the entry points *)
Lemma fuel66 : fuel_ok 66 0. Proof. apply fuel_ok_66. Qed.

(** the decoder loop without accumulator *)
Fixpoint dec_seq (be : bool) (tys : list ty) (c : uctx) : outcome (list val * uctx) :=
  match tys with
  | [] => Ok ([], c)
  | t :: r => do x <- unmarshal_p 66 be t c; do y <- dec_seq be r (snd x); Ok (fst x :: fst y, snd y)
  end.
Lemma unmarshal_p_seq_dec be : forall tys c acc,
  unmarshal_p_seq be tys c acc = do y <- dec_seq be tys c; Ok (rev acc ++ fst y, snd y).
Proof.
  induction tys as [|t r IH]; intros c acc; cbn [unmarshal_p_seq dec_seq bind fst snd]; [now rewrite app_nil_r|].
  destruct (unmarshal_p 66 be t c) as [[v c1]| | | |]; cbn [bind fst snd]; try reflexivity.
  rewrite IH. destruct (dec_seq be r c1) as [[vs c2]| | | |]; cbn [bind fst snd rev]; try reflexivity.
  now rewrite <- app_assoc.
Qed.

(** sequences: validation from [used] ends at n iff the decoder with 2^32 descriptors decodes every type in turn and
    stops at n *)
Lemma validate_seq_cons be buf t r used :
  validate_seq be buf (t :: r) used = do n <- validate 66 be 0 used buf t; validate_seq be buf r (used + n).
Proof. reflexivity. Qed.
Lemma dec_seq_cons be t r c :
  dec_seq be (t :: r) c = do x <- unmarshal_p 66 be t c; do y <- dec_seq be r (snd x); Ok (fst x :: fst y, snd y).
Proof. reflexivity. Qed.

Lemma seq_validate_dec be buf : bytes_ok buf -> forall tys, Forall (fun t => type_ok t = true) tys ->
  forall used n, used <= len buf -> validate_seq be buf tys used = Ok n ->
  n <= len buf /\ exists vs, dec_seq be tys (ctx0 buf used (2 ^ 32)) = Ok (vs, ctx0 buf n (2 ^ 32)).
Proof.
  intros Hb. induction 1 as [|t r Ht _ IH]; intros used n Hu E.
  - injection E as <-. split; [exact Hu|]. now exists [].
  - pose proof (type_ok_wf t Ht) as Hw. pose proof (type_ok_tys_ok t Ht) as Hk. rewrite validate_seq_cons in E.
    destruct (validate 66 be 0 used buf t) as [k| | | |] eqn:Ev; try discriminate E.
    change (validate_seq be buf r (used + k) = Ok n) in E.
    destruct (proj1 (validate_param_agree be 66 0 used buf t k Hw Hk Hb Hu fuel66) Ev) as (v & Ep).
    destruct (validate_sound_spec be 66 0 used buf t k Hw Hk Hb Hu Ev) as (_ & _ & _ & _ & Hle).
    destruct (IH (used + k) n Hle E) as (Hn & vs & Es). split; [exact Hn|].
    exists (v :: vs). rewrite dec_seq_cons, Ep. cbn [bind fst snd]. rewrite Es. reflexivity.
Qed.

Lemma seq_dec_validate be buf : bytes_ok buf -> forall tys, Forall (fun t => type_ok t = true) tys ->
  forall used nf vs c', used <= len buf -> dec_seq be tys (ctx0 buf used nf) = Ok (vs, c') ->
  exists n, c' = ctx0 buf n nf /\ n <= len buf /\ validate_seq be buf tys used = Ok n
            /\ forallb (fds_below nf) vs = true
            /\ dec_seq be tys (ctx0 buf used (2 ^ 32)) = Ok (vs, ctx0 buf n (2 ^ 32))
            /\ forall nf', forallb (fds_below nf') vs = true -> dec_seq be tys (ctx0 buf used nf') = Ok (vs, ctx0 buf n nf').
Proof.
  intros Hb. induction 1 as [|t r Ht _ IH]; intros used nf vs c' Hu E.
  - injection E as <- <-. exists used. repeat split; auto.
  - pose proof (type_ok_wf t Ht) as Hw. pose proof (type_ok_tys_ok t Ht) as Hk. rewrite dec_seq_cons in E.
    destruct (unmarshal_p 66 be t (ctx0 buf used nf)) as [[v c1]| | | |] eqn:Ep; try discriminate E.
    change ((do y <- dec_seq be r c1; Ok (v :: fst y, snd y)) = Ok (vs, c')) in E.
    destruct (dec_seq be r c1) as [[vs1 c2]| | | |] eqn:Es; try discriminate E.
    injection E as <- <-.
    destruct (proj1 (param_fds be 66 t buf used nf 0 v c1 Hw Hk Hb Hu fuel66) Ep) as (k & Ep' & Hf & ->).
    pose proof (proj2 (validate_param_agree be 66 0 used buf t k Hw Hk Hb Hu fuel66) (ex_intro _ v Ep')) as Ev.
    destruct (validate_sound_spec be 66 0 used buf t k Hw Hk Hb Hu Ev) as (_ & _ & _ & _ & Hle).
    destruct (IH (used + k) nf vs1 c2 Hle Es) as (n & -> & Hn & Evs & Hfs & Hbig & Hany).
    exists n. rewrite validate_seq_cons, Ev. split; [reflexivity|]. split; [exact Hn|]. split; [exact Evs|].
    split; [cbn [forallb]; now rewrite Hf, Hfs|]. split.
    { rewrite dec_seq_cons, Ep'. cbn [bind fst snd]. rewrite Hbig. reflexivity. }
    intros nf' Hf'. cbn [forallb] in Hf'. apply andb_prop in Hf'. destruct Hf' as [Hf1 Hf2].
    rewrite dec_seq_cons.
    rewrite (proj2 (param_fds be 66 t buf used nf' 0 v _ Hw Hk Hb Hu fuel66) (ex_intro _ k (conj Ep' (conj Hf1 eq_refl)))).
    cbn [bind fst snd]. rewrite (Hany nf' Hf2). reflexivity.
Qed.

(** ** whole bodies *)
Lemma unmarshal_body_dec be nf tys buf : unmarshal_body be nf tys buf =
  do y <- dec_seq be tys (ctx0 buf 0 nf); if remainder_len (snd y) =? 0 then Ok (fst y) else Err.
Proof.
  unfold unmarshal_body. rewrite unmarshal_p_seq_dec. destruct (dec_seq be tys _) as [[vs c]| | | |]; reflexivity.
Qed.

Lemma body_tys_agree be buf tys : bytes_ok buf -> Forall (fun t => type_ok t = true) tys ->
  (body_validate be buf tys = true <-> exists vs, unmarshal_body be (2 ^ 32) tys buf = Ok vs).
Proof.
  intros Hb Ht. unfold body_validate. rewrite unmarshal_body_dec. split.
  - destruct (validate_seq be buf tys 0) as [n| | | |] eqn:Ev; try discriminate. intros En. apply N.eqb_eq in En. subst n.
    destruct (seq_validate_dec be buf Hb tys Ht 0 _ ltac:(lia) Ev) as (_ & vs & Es). exists vs. rewrite Es.
    cbn [bind fst snd]. unfold remainder_len. cbn [ubuf uoff]. now rewrite N.sub_diag.
  - intros (vs & E). destruct (dec_seq be tys _) as [[vs1 c']| | | |] eqn:Es; cbn [bind fst snd] in E; try discriminate.
    destruct (seq_dec_validate be buf Hb tys Ht 0 _ vs1 c' ltac:(lia) Es) as (n & -> & Hn & Ev & _).
    rewrite Ev. unfold remainder_len in E. cbn [ubuf uoff] in E. destruct (N.eqb_spec (len buf - n) 0) as [E0|]; [|discriminate].
    apply N.eqb_eq. lia.
Qed.

Lemma body_tys_fds be buf tys nf vs : bytes_ok buf -> Forall (fun t => type_ok t = true) tys ->
  (unmarshal_body be nf tys buf = Ok vs <->
   unmarshal_body be (2 ^ 32) tys buf = Ok vs /\ forallb (fds_below nf) vs = true).
Proof.
  intros Hb Ht. rewrite !unmarshal_body_dec. split.
  - destruct (dec_seq be tys (ctx0 buf 0 nf)) as [[vs1 c']| | | |] eqn:Es; cbn [bind fst snd]; try discriminate. intros E.
    destruct (seq_dec_validate be buf Hb tys Ht 0 nf vs1 c' ltac:(lia) Es) as (n & -> & Hn & Ev & Hf & Hbig & _).
    rewrite Hbig. cbn [bind fst snd]. unfold remainder_len in *. cbn [ubuf uoff] in *.
    destruct (len buf - n =? 0); [|discriminate]. injection E as <-. auto.
  - intros [E Hf].
    destruct (dec_seq be tys (ctx0 buf 0 (2 ^ 32))) as [[vs1 c']| | | |] eqn:Es; cbn [bind fst snd] in E; try discriminate.
    destruct (seq_dec_validate be buf Hb tys Ht 0 _ vs1 c' ltac:(lia) Es) as (n & -> & Hn & Ev & _ & _ & Hany).
    unfold remainder_len in *. cbn [ubuf uoff] in *. destruct (len buf - n =? 0) eqn:E0; [|discriminate]. injection E as <-.
    rewrite (Hany nf Hf). cbn [bind fst snd]. unfold remainder_len. cbn [ubuf uoff]. now rewrite E0.
Qed.

(** ** the statements *)
Theorem body_agree be sigbytes buf : bytes_ok buf ->
  (op_body_validate be sigbytes buf = true <-> exists vs, body_unmarshall_all be (2 ^ 32) sigbytes buf = Ok vs).
Proof.
  intros Hb. unfold op_body_validate, body_unmarshall_all. destruct sigbytes as [|s0 sr].
  - destruct buf as [|b0 br]; [split; [now exists []|reflexivity]|].
    (* the empty signature parses to no types (Ok [] since /repo f8eb89e); a non-empty body is refused *)
    change (parse_description []) with (Ok (@nil ty)). cbv iota.
    split; [|intros [vs E]; discriminate].
    unfold body_validate. cbn [validate_seq]. rewrite len_cons.
    destruct (N.eqb_spec 0 (1 + len br)) as [E0|_]; [lia|discriminate].
  - destruct (parse_description (s0 :: sr)) as [tys| | | |] eqn:Ep; cbn [bind];
      try (split; [discriminate|intros [vs E]; discriminate]).
    apply body_tys_agree; [exact Hb|exact (parse_description_types_ok _ _ Ep)].
Qed.

Theorem body_agree_fds be nf sigbytes buf vs : bytes_ok buf ->
  (body_unmarshall_all be nf sigbytes buf = Ok vs <->
   body_unmarshall_all be (2 ^ 32) sigbytes buf = Ok vs /\ forallb (fds_below nf) vs = true).
Proof.
  intros Hb. unfold body_unmarshall_all. destruct sigbytes as [|s0 sr].
  - destruct buf as [|b0 br]; [|split; [discriminate|intros [E _]; discriminate]].
    split; [intros E; injection E as <-; auto|intros [E _]; exact E].
  - destruct (parse_description (s0 :: sr)) as [tys| | | |] eqn:Ep; cbn [bind];
      try (split; [discriminate|intros [E _]; discriminate]).
    apply body_tys_fds; [exact Hb|exact (parse_description_types_ok _ _ Ep)].
Qed.

(* the values are those of the dynamic decoder on each type of the signature in turn, and all bytes are used *)
Theorem body_values be nf sigbytes buf vs : body_unmarshall_all be nf sigbytes buf = Ok vs ->
  (sigbytes = [] /\ buf = [] /\ vs = [])
  \/ exists tys c', parse_description sigbytes = Ok tys
                   /\ dec_seq be tys (ctx0 buf 0 nf) = Ok (vs, c') /\ len (ubuf c') - uoff c' = 0.
Proof.
  unfold body_unmarshall_all. destruct sigbytes as [|s0 sr].
  - destruct buf; [|discriminate]. intros E. injection E as <-. now left.
  - destruct (parse_description (s0 :: sr)) as [tys| | | |] eqn:Ep; cbn [bind]; try discriminate.
    rewrite unmarshal_body_dec. destruct (dec_seq be tys _) as [[vs1 c']| | | |] eqn:Es; cbn [bind fst snd]; try discriminate.
    unfold remainder_len. destruct (N.eqb_spec (len (ubuf c') - uoff c') 0) as [E0|]; [|discriminate].
    intros E. injection E as <-. right. exists tys, c'. split; [reflexivity|]. split; [exact Es|exact E0].
Qed.
