(** C04, step counting: the instrumented validator computes, the hypotheses of the bound are satisfiable, and the
    constants of [validate_marshalled_s_bound] cannot be lowered (exactly reached with one byte and with no byte). *)
From RB Require Import Base.Prelude Sig.Types Sig.Parser Sig.Validator Wire.Bytes Wire.Align Wire.Text Wire.Value
  Wire.SpecEnc Wire.Decode Wire.Steps Wire.StepsProofs.

(** ( a{s v} , [u16] , fd ) at offset 3, little endian: the message body fragment of Wire/DecodeExamples.v *)
Definition sx_ty : ty := TStruct [TDict BString TVariant; TArray (TBase BUint16); TBase BUnixFd].
Definition sx_val : val :=
  VStruct [ VDict BString TVariant [(VText BString [97; 98], VVariant (TBase BUint32) (VBase BUint32 5))];
            VArray (TBase BUint16) [VBase BUint16 1; VBase BUint16 513];
            VBase BUnixFd 1 ].
Definition sx_buf : list N := [9; 9; 9] ++ spec_enc false 3 sx_val ++ [7; 7].

Example sx_hyps : wf sx_ty = true /\ 3 <= len sx_buf /\ len sx_buf - 3 = 43.
Proof. vm_compute. repeat split; discriminate. Qed.
(* a succeeding run: 41 bytes consumed in 11 steps (struct, 3 field rounds, dict, 1 round, key, variant, u32 inside, array on the
   fast path, fd: the u16 elements cost nothing) *)
Example sx_ok : validate_marshalled_s false 3 sx_buf sx_ty = (Ok 41, 11).
Proof. vm_compute. reflexivity. Qed.
(* the same bytes cut in the middle of the u16 array: a failing run, 9 steps *)
Example sx_cut : validate_marshalled_s false 3 (firstnN 36 sx_buf) sx_ty = (Err, 9).
Proof. vm_compute. reflexivity. Qed.
(* a bad boolean in the third of four (y b) structs of an array: a failing run after two good elements *)
Definition sx_arr_ty : ty := TArray (TStruct [TBase BByte; TBase BBoolean]).
Definition sx_arr_buf (third : N) : list N :=
  [32; 0; 0; 0; 0; 0; 0; 0] ++ [1; 0; 0; 0; 1; 0; 0; 0] ++ [2; 0; 0; 0; 0; 0; 0; 0] ++ [3; 0; 0; 0; third; 0; 0; 0] ++ [4; 0; 0; 0; 1; 0; 0; 0].
Example sx_arr_ok : validate_marshalled_s false 0 (sx_arr_buf 1) sx_arr_ty = (Ok 40, 25).
Proof. vm_compute. reflexivity. Qed.
Example sx_arr_bad : validate_marshalled_s false 0 (sx_arr_buf 2) sx_arr_ty = (Err, 19).
Proof. vm_compute. reflexivity. Qed.
(* the projection on the examples *)
Example sx_proj : fst (validate_marshalled_s false 3 sx_buf sx_ty) = validate_marshalled false 3 sx_buf sx_ty
  /\ fst (validate_marshalled_s false 0 (sx_arr_buf 2) sx_arr_ty) = validate_marshalled false 0 (sx_arr_buf 2) sx_arr_ty.
Proof. vm_compute. auto. Qed.

(** the constants are reached: 64 structs around one byte (a [Type] value that no signature describes - signatures stop at
    32 struct levels - but that validate_marshalled accepts as its `sig` argument) *)
Fixpoint nest (k : nat) (t : ty) : ty := match k with O => t | S k' => TStruct [nest k' t] end.
Example sx_nest_wf : wf (nest 64 (TBase BByte)) = true. Proof. vm_compute. reflexivity. Qed.
(* one byte, accepted: 129 steps = 129 * 1 *)
Example sx_tight_ok : validate_marshalled_s false 0 [7] (nest 64 (TBase BByte)) = (Ok 1, 129).
Proof. vm_compute. reflexivity. Qed.
(* no byte, refused: 129 steps = 129 * 0 + 129 *)
Example sx_tight_err : validate_marshalled_s false 0 [] (nest 64 (TBase BByte)) = (Err, 129).
Proof. vm_compute. reflexivity. Qed.
(* one level more is refused by the depth limit at once: the recursion goes down 64 levels and no further *)
Example sx_too_deep : validate_marshalled_s false 0 [7] (nest 65 (TBase BByte)) = (Err, 129).
Proof. vm_compute. reflexivity. Qed.
(* the deepest type a signature can describe (32 arrays, 32 structs) over an empty buffer: the run fails at the first length field *)
Fixpoint arrs (k : nat) (t : ty) : ty := match k with O => t | S k' => TArray (arrs k' t) end.
Example sx_sig_deep : validate_marshalled_s false 0 [] (arrs 32 (nest 32 (TBase BByte))) = (Err, 1).
Proof. vm_compute. reflexivity. Qed.
(* long inputs: every element of an array of 63-fold nested structs starts on a multiple of 8, so the run makes 128 steps for
   8 bytes - 16 per byte, not 129 (the bound does not use the alignment of structs) *)
Definition sx_deep_arr : list N := [25; 0; 0; 0; 0; 0; 0; 0] ++ [1; 0; 0; 0; 0; 0; 0; 0] ++ [1; 0; 0; 0; 0; 0; 0; 0] ++ [1; 0; 0; 0; 0; 0; 0; 0] ++ [1].
Example sx_deep_arr_ok : validate_marshalled_s false 0 sx_deep_arr (TArray (nest 63 (TBase BByte))) = (Ok 33, 513).
Proof. vm_compute. reflexivity. Qed.
(* variants: every level is paid for by its signature bytes - v holding v holding a byte: 3 calls, 7 bytes *)
Example sx_variants : validate_marshalled_s false 0 [1; 118; 0; 1; 121; 0; 7] TVariant = (Ok 7, 3).
Proof. vm_compute. reflexivity. Qed.

(** ** the Param decoder (Wire/StepsParam.v) on the same inputs *)
From RB Require Import Wire.Marshal Wire.Unmarshal Wire.StepsParam Wire.StepsParamProofs.
Definition sx_ctx (buf : list N) (off nf : N) : uctx := {| ubuf := buf; uoff := off; unfds := nf; udepth := 0 |}.
Definition sx_res (x : counted (val * uctx)) : outcome (val * N) * N := (do r <- fst x; Ok (fst r, uoff (snd r)), snd x).
(* the accepted body fragment: 41 bytes (offset 3 to 44) in 15 steps - 4 more than the validator, two for each u16 element *)
Example sx_p_ok : sx_res (unmarshal_ps 66 false sx_ty (sx_ctx sx_buf 3 2)) = (Ok (sx_val, 44), 15).
Proof. vm_compute. reflexivity. Qed.
Example sx_p_cut : sx_res (unmarshal_ps 66 false sx_ty (sx_ctx (firstnN 36 sx_buf) 3 2)) = (Err, 9).
Proof. vm_compute. reflexivity. Qed.
(* the bad boolean in the third struct: a failing run after two decoded elements *)
Example sx_p_arr_bad : sx_res (unmarshal_ps 66 false sx_arr_ty (sx_ctx (sx_arr_buf 2) 0 0)) = (Err, 19).
Proof. vm_compute. reflexivity. Qed.
(* no fast path in this decoder: a byte array costs two steps per byte *)
Example sx_p_bytes : sx_res (unmarshal_ps 66 false (TArray (TBase BByte)) (sx_ctx [3; 0; 0; 0; 1; 2; 3] 0 0))
  = (Ok (VArray (TBase BByte) [VBase BByte 1; VBase BByte 2; VBase BByte 3], 7), 7).
Proof. vm_compute. reflexivity. Qed.
(* the constants are reached here too *)
Example sx_p_tight_ok : snd (unmarshal_ps 66 false (nest 64 (TBase BByte)) (sx_ctx [7] 0 0)) = 129
  /\ is_ok (fst (unmarshal_ps 66 false (nest 64 (TBase BByte)) (sx_ctx [7] 0 0))) = true.
Proof. vm_compute. auto. Qed.
Example sx_p_tight_err : sx_res (unmarshal_ps 66 false (nest 64 (TBase BByte)) (sx_ctx [] 0 0)) = (Err, 129).
Proof. vm_compute. reflexivity. Qed.
Example sx_p_proj : fst (unmarshal_ps 66 false sx_ty (sx_ctx sx_buf 3 2)) = unmarshal_p 66 false sx_ty (sx_ctx sx_buf 3 2).
Proof. vm_compute. reflexivity. Qed.

(** ** the typed decoder (Wire/StepsTyped.v) *)
From RB Require Import Wire.DecodeSoundLemmas Wire.StepsTyped Wire.StepsTypedProofs.
Definition sx_ety : ety := EStruct [EDict BString (EVar (EBase BUint32)); EArray (EBase BUint16); EBase BUnixFd].
Example sx_t_hyps : erase sx_ety = sx_ty /\ ewf sx_ety = true /\ (evars sx_ety <= 65)%nat /\ tweight sx_ety = 134
  /\ edepth sx_ety = 3 /\ evars sx_ety = 1%nat.
Proof. vm_compute. repeat split. lia. Qed.
(* the accepted body fragment: 41 bytes in 12 steps (struct, 3 field rounds, dict, 1 round, key, variant, 1 validator step, u32,
   array on the slice fast path, fd); big endian the u16 array has no fast path: 16 steps *)
Example sx_t_ok : sx_res (unmarshal_ts 66 false sx_ety (sx_ctx sx_buf 3 2)) = (Ok (sx_val, 44), 12).
Proof. vm_compute. reflexivity. Qed.
Example sx_t_ok_be : sx_res (unmarshal_ts 66 true sx_ety (sx_ctx ([9; 9; 9] ++ spec_enc true 3 sx_val) 3 2)) = (Ok (sx_val, 44), 16).
Proof. vm_compute. reflexivity. Qed.
Example sx_t_cut : sx_res (unmarshal_ts 66 false sx_ety (sx_ctx (firstnN 36 sx_buf) 3 2)) = (Err, 10).
Proof. vm_compute. reflexivity. Qed.
Example sx_t_proj : fst (unmarshal_ts 66 false sx_ety (sx_ctx sx_buf 3 2)) = unmarshal_t 66 false sx_ety (sx_ctx sx_buf 3 2).
Proof. vm_compute. reflexivity. Qed.
(* this decoder has no nesting limit outside variants: the weight of a byte grows with the Rust type, and is reached -
   200 tuples around one byte: 401 = tweight steps for 1 byte, 401 steps for no byte *)
Fixpoint enest (k : nat) (e : ety) : ety := match k with O => e | S k' => EStruct [enest k' e] end.
Example sx_t_tight : tweight (enest 200 (EBase BByte)) = 401
  /\ snd (unmarshal_ts 66 false (enest 200 (EBase BByte)) (sx_ctx [7] 0 0)) = 401
  /\ is_ok (fst (unmarshal_ts 66 false (enest 200 (EBase BByte)) (sx_ctx [7] 0 0))) = true
  /\ sx_res (unmarshal_ts 66 false (enest 200 (EBase BByte)) (sx_ctx [] 0 0)) = (Err, 401).
Proof. vm_compute. auto. Qed.
(* a variant: the validator walks the value, then the decoder walks it again - Variant<((..(u8,)..),)> with 32 levels, signature
   of 65 characters, 73 bytes: 1 + 65 + 65 steps; the last byte missing: the validator fails after 65 steps, nothing is decoded *)
Definition sx_vbuf : list N := [65] ++ repeat 40 32 ++ [121] ++ repeat 41 32 ++ [0] ++ [0; 0; 0; 0; 0] ++ [7].
Example sx_t_var : len sx_vbuf = 73 /\ tweight (EVar (enest 32 (EBase BByte))) = 194
  /\ snd (unmarshal_ts 66 false (EVar (enest 32 (EBase BByte))) (sx_ctx sx_vbuf 0 0)) = 131
  /\ is_ok (fst (unmarshal_ts 66 false (EVar (enest 32 (EBase BByte))) (sx_ctx sx_vbuf 0 0))) = true
  /\ sx_res (unmarshal_ts 66 false (EVar (enest 32 (EBase BByte))) (sx_ctx (firstnN 72 sx_vbuf) 0 0)) = (Err, 66).
Proof. vm_compute. auto. Qed.
