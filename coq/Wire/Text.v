(** Text validity on the wire: UTF-8 well-formedness (what std::str::from_utf8 accepts: Unicode
    table 3-7), absence of NUL, and object-path validity on UTF-8 bytes (model of
    params::validation::validate_object_path; '/' '_' and alphanumerics are ASCII, so working
    on bytes of a UTF-8 string gives the same verdict as working on chars). *)
From RB Require Import Base.Prelude.

Definition in_range (lo hi b : N) : bool := (lo <=? b) && (b <=? hi).
Definition cont (b : N) : bool := in_range 128 191 b.

Fixpoint utf8_valid (l : list N) : bool :=
  match l with
  | [] => true
  | b0 :: r =>
      if b0 <? 128 then utf8_valid r
      else if in_range 194 223 b0 then
        match r with b1 :: r1 => cont b1 && utf8_valid r1 | _ => false end
      else if b0 =? 224 then
        match r with b1 :: b2 :: r2 => in_range 160 191 b1 && cont b2 && utf8_valid r2 | _ => false end
      else if in_range 225 236 b0 || in_range 238 239 b0 then
        match r with b1 :: b2 :: r2 => cont b1 && cont b2 && utf8_valid r2 | _ => false end
      else if b0 =? 237 then
        match r with b1 :: b2 :: r2 => in_range 128 159 b1 && cont b2 && utf8_valid r2 | _ => false end
      else if b0 =? 240 then
        match r with b1 :: b2 :: b3 :: r3 => in_range 144 191 b1 && cont b2 && cont b3 && utf8_valid r3 | _ => false end
      else if in_range 241 243 b0 then
        match r with b1 :: b2 :: b3 :: r3 => cont b1 && cont b2 && cont b3 && utf8_valid r3 | _ => false end
      else if b0 =? 244 then
        match r with b1 :: b2 :: b3 :: r3 => in_range 128 143 b1 && cont b2 && cont b3 && utf8_valid r3 | _ => false end
      else false
  end.

Definition has_nul (l : list N) : bool := existsb (N.eqb 0) l.

(* c.is_ascii_alphanumeric() || c == '_' *)
Definition path_char (c : N) : bool :=
  in_range 48 57 c || in_range 65 90 c || in_range 97 122 c || (c =? 95).

(* one element of the path and the rest after the next '/':  split('/') *)
Fixpoint path_elems (cur : list N) (l : list N) : list (list N) :=
  match l with
  | [] => [rev cur]
  | c :: r => if c =? 47 then rev cur :: path_elems [] r else path_elems (c :: cur) r
  end.

(* fn validate_object_path *)
Definition valid_path (s : list N) : bool :=
  match s with
  | c :: op =>
      if c =? 47 then                                    (* split_once('/') with empty left part *)
        match op with
        | [] => true                                     (* "/" *)
        | _ => forallb (fun e => negb (match e with [] => true | _ => false end) && forallb path_char e)
                       (path_elems [] op)
        end
      else false
  | [] => false
  end.
