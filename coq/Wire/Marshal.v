(** Model of the marshalling code (after the fix: commits):
    - typed API: rustbus/src/wire/marshal/traits/{base,container}.rs, traits.rs (marshal_as_variant),
      util.rs (pad_to_align, write_*, insert_u32, marshal_unixfd, check_marshalled_array_len)
    - dynamic API: rustbus/src/wire/marshal/param/{base,container}.rs, params/types.rs (Variant),
      params/validation.rs (validate_array, validate_dict)
    The Param tree is a [val] as well: Param::sig() is [ty_of]; a [VBase b n] with a text [b] or a [VText b s]
    with a fixed-width [b] has no Rust counterpart (the Base enum carries the payload of its own kind).
    The context is the output buffer and the number of descriptors already attached; both are
    returned on error too (what a failed call leaves behind matters for the body builder).
    In the INPUT value of a marshal call a [VBase BUnixFd n] leaf is a descriptor handle:
    n = 0 is a live handle, anything else a handle whose descriptor was taken. *)
From RB Require Import Base.Prelude Sig.Types Sig.Parser Sig.Validator Wire.Bytes Wire.Align Wire.Text Wire.Value Wire.SpecEnc.

Record mctx := { mbuf : list N; mfds : N }.
Definition mres := (mctx * bool)%type.                 (* true = Ok(()) *)

(* util::pad_to_align *)
Definition pad_to (a : N) (buf : list N) : list N := buf ++ zeros (pad_amount a (len buf)).
(* util::insert_u32: overwrite 4 bytes at position p *)
Definition insert4 (be : bool) (n : N) (p : N) (buf : list N) : list N :=
  firstnN p buf ++ enc be 4 (n mod 2 ^ 32) ++ skipnN (p + 4) buf.

Definition mbind (r : mres) (f : mctx -> mres) : mres :=
  let '(c, ok) := r in if ok then f c else (c, false).

(* E::valid_slice(byteorder): u8 always; the other fixed-width numbers when the byte order is native (little endian here) *)
Definition valid_slice (be : bool) (t : ty) : bool :=
  match t with
  | TBase BByte => true
  | TBase (BInt16 | BUint16 | BInt32 | BUint32 | BInt64 | BUint64 | BDouble) => negb be
  | _ => false
  end.

(* writing a text value; [check] says which validation the API performs *)
Definition write_string (be : bool) (s : list N) (buf : list N) : list N :=
  buf ++ enc be 4 (len s mod 2 ^ 32) ++ s ++ [0].
Definition write_signature (s : list N) (buf : list N) : list N :=
  buf ++ [len s mod 256] ++ s ++ [0].

Definition marshal_base (be : bool) (b : base) (n : N) (c : mctx) : mres :=
  match b with
  | BByte => ({| mbuf := mbuf c ++ [n]; mfds := mfds c |}, true)
  | BUnixFd =>
      (* util::marshal_unixfd: dup, fds.push, idx = len - 1, align, write_u32 *)
      if n =? 0 then
        ({| mbuf := pad_to 4 (mbuf c) ++ enc be 4 (mfds c mod 2 ^ 32); mfds := mfds c + 1 |}, true)
      else (c, false)
  | _ => ({| mbuf := pad_to (base_align b) (mbuf c) ++ enc be (base_size b) n; mfds := mfds c |}, true)
  end.

(* loops over elements (the recursive marshal function is a parameter outside the fix, so that
   the inline loops in marshal_t / marshal_p below are convertible with these) *)
Definition marshal_seq (m : val -> mctx -> mres) : list val -> mctx -> mres :=
  fix go (l : list val) (c : mctx) : mres :=
    match l with
    | [] => (c, true)
    | x :: r => mbind (m x c) (go r)
    end.
Definition marshal_entries (m : val -> mctx -> mres) : list (val * val) -> mctx -> mres :=
  fix go (l : list (val * val)) (c : mctx) : mres :=
    match l with
    | [] => (c, true)
    | (a, b) :: r =>
        let c1 := {| mbuf := pad_to 8 (mbuf c); mfds := mfds c |} in
        mbind (m a c1) (fun c2 => mbind (m b c2) (go r))
    end.

(** *** typed API *)
Fixpoint marshal_t (be : bool) (v : val) (c : mctx) {struct v} : mres :=
  match v with
  | VBase b n => marshal_base be b n c
  | VText BSignature s =>
      (* SignatureWrapper::new validated it; write_signature *)
      if is_ok (validate_signature s) then ({| mbuf := write_signature s (mbuf c); mfds := mfds c |}, true) else (c, false)
  | VText b s =>
      (* ObjectPath::new validated the path; impl Marshal for &str: NUL check, align, write_string *)
      if (match b with BObjectPath => valid_path s | _ => true end) && negb (has_nul s) then
        ({| mbuf := write_string be s (pad_to 4 (mbuf c)); mfds := mfds c |}, true)
      else (c, false)
  | VArray t vs =>
      (* impl Marshal for &[E] *)
      let b1 := pad_to 4 (mbuf c) in
      if valid_slice be t then
        let n := align t * len vs in
        if MAX_ARRAY <? n then ({| mbuf := b1; mfds := mfds c |}, false) else
        let b2 := pad_to (align t) (b1 ++ enc be 4 n) in
        (* the elements' memory, which is their little endian / single byte representation *)
        ({| mbuf := b2 ++ flat_map (fun x => match x with VBase b k => enc false (base_size b) k | _ => [] end) vs;
            mfds := mfds c |}, true)
      else
        let size_pos := len b1 in
        let b3 := pad_to (align t) (b1 ++ [0; 0; 0; 0]) in
        match vs with
        | [] => ({| mbuf := b3; mfds := mfds c |}, true)
        | _ =>
            let size_before := len b3 in
            mbind ((fix go (l : list val) (c : mctx) : mres :=
               match l with
               | [] => (c, true)
               | x :: r => mbind (marshal_t be x c) (go r)
               end) vs {| mbuf := b3; mfds := mfds c |})
              (fun c' =>
                 let n := len (mbuf c') - size_before in
                 if MAX_ARRAY <? n then (c', false)
                 else ({| mbuf := insert4 be n size_pos (mbuf c'); mfds := mfds c' |}, true))
        end
  | VStruct vs =>
      (fix go (l : list val) (c : mctx) : mres :=
               match l with
               | [] => (c, true)
               | x :: r => mbind (marshal_t be x c) (go r)
               end) vs {| mbuf := pad_to 8 (mbuf c); mfds := mfds c |}
  | VDict k vt kvs =>
      (* impl Marshal for HashMap<K, V> *)
      let b1 := pad_to 4 (mbuf c) in
      let size_pos := len b1 in
      let b3 := pad_to 8 (b1 ++ [0; 0; 0; 0]) in
      match kvs with
      | [] => ({| mbuf := b3; mfds := mfds c |}, true)
      | _ =>
          let size_before := len b3 in
          mbind ((fix go (l : list (val * val)) (c : mctx) : mres :=
                    match l with
                    | [] => (c, true)
                    | (a, b) :: r =>
                        let c1 := {| mbuf := pad_to 8 (mbuf c); mfds := mfds c |} in
                        mbind (marshal_t be a c1) (fun c2 => mbind (marshal_t be b c2) (go r))
                    end) kvs {| mbuf := b3; mfds := mfds c |})
            (fun c' =>
               let n := len (mbuf c') - size_before in
               if MAX_ARRAY <? n then (c', false)
               else ({| mbuf := insert4 be n size_pos (mbuf c'); mfds := mfds c' |}, true))
      end
  | VVariant t x =>
      (* Marshal::marshal_as_variant: len > 255 -> SignatureTooLong; validate_signature(&sig)? (fix ef1b771);
         write_signature; self.marshal *)
      let sg := to_str t in
      if 255 <? len sg then (c, false)
      else if is_ok (validate_signature sg) then marshal_t be x {| mbuf := write_signature sg (mbuf c); mfds := mfds c |}
      else (c, false)
  end.

(** *** dynamic (Param) API; [depth] = number of containers entered *)
Fixpoint marshal_p (be : bool) (depth : N) (v : val) (c : mctx) {struct v} : mres :=
  match v with
  | VBase b n =>
      (* marshal_base_param: pad_to_align first, then the value *)
      marshal_base be b n {| mbuf := pad_to (base_align b) (mbuf c); mfds := mfds c |}
  | VText b s =>
      let c0 := {| mbuf := pad_to (base_align b) (mbuf c); mfds := mfds c |} in
      match b with
      | BSignature => if is_ok (validate_signature s) then ({| mbuf := write_signature s (mbuf c0); mfds := mfds c |}, true) else (c0, false)
      | BObjectPath => if valid_path s then ({| mbuf := write_string be s (mbuf c0); mfds := mfds c |}, true) else (c0, false)
      | _ => if has_nul s then (c0, false) else ({| mbuf := write_string be s (mbuf c0); mfds := mfds c |}, true)
      end
  | VArray t vs =>
      if MAX_DEPTH <=? depth then (c, false) else
      (* validate_array: every element has the element signature *)
      if negb (forallb (fun x => ty_eqb (ty_of x) t) vs) then (c, false) else
      let b1 := pad_to 4 (mbuf c) in
      let len_pos := len b1 in
      let b3 := pad_to (align t) (b1 ++ [0; 0; 0; 0]) in
      let content_pos := len b3 in
      mbind ((fix go (l : list val) (c : mctx) : mres :=
               match l with
               | [] => (c, true)
               | x :: r => mbind (marshal_p be (depth + 1) x c) (go r)
               end) vs {| mbuf := b3; mfds := mfds c |})
        (fun c' =>
           let n := len (mbuf c') - content_pos in
           if MAX_ARRAY <? n then (c', false)
           else ({| mbuf := insert4 be n len_pos (mbuf c'); mfds := mfds c' |}, true))
  | VStruct vs =>
      if MAX_DEPTH <=? depth then (c, false) else
      (fix go (l : list val) (c : mctx) : mres :=
               match l with
               | [] => (c, true)
               | x :: r => mbind (marshal_p be (depth + 1) x c) (go r)
               end) vs {| mbuf := pad_to 8 (mbuf c); mfds := mfds c |}
  | VDict k vt kvs =>
      if MAX_DEPTH <=? depth then (c, false) else
      (* validate_dict *)
      if negb (forallb (fun kv => ty_eqb (ty_of (fst kv)) (TBase k) && ty_eqb (ty_of (snd kv)) vt) kvs) then (c, false) else
      let b1 := pad_to 4 (mbuf c) in
      let len_pos := len b1 in
      let b3 := pad_to 8 (b1 ++ [0; 0; 0; 0]) in
      let content_pos := len b3 in
      mbind ((fix go (l : list (val * val)) (c : mctx) : mres :=
                match l with
                | [] => (c, true)
                | (a, b) :: r =>
                    let c1 := {| mbuf := pad_to 8 (mbuf c); mfds := mfds c |} in
                    mbind (marshal_p be (depth + 1) a c1) (fun c2 => mbind (marshal_p be (depth + 1) b c2) (go r))
                end) kvs {| mbuf := b3; mfds := mfds c |})
        (fun c' =>
           let n := len (mbuf c') - content_pos in
           if MAX_ARRAY <? n then (c', false)
           else ({| mbuf := insert4 be n len_pos (mbuf c'); mfds := mfds c' |}, true))
  | VVariant t x =>
      if MAX_DEPTH <=? depth then (c, false) else
      (* marshal_variant: var.sig != var.value.sig() is refused before anything is written (fix 35497e7);
         Param::sig() is [ty_of]: declared element / key / value types of arrays and dicts, computed for structs *)
      if negb (ty_eqb (ty_of x) t) then (c, false) else
      (* marshal_signature(var.sig) validates the printed signature *)
      let sg := to_str t in
      if is_ok (validate_signature sg) then
        marshal_p be (depth + 1) x {| mbuf := write_signature sg (mbuf c); mfds := mfds c |}
      else (c, false)
  end.

(* check_param_shape / check_container_shape (fix 5849d4e): containers at depth >= 64 and structs without
   fields are refused; the walk goes through array elements, struct fields, dict VALUES (keys are Base) and
   variant values *)
Fixpoint shape_ok (depth : N) (v : val) {struct v} : bool :=
  match v with
  | VBase _ _ | VText _ _ => true
  | VArray _ vs => if MAX_DEPTH <=? depth then false else forallb (shape_ok (depth + 1)) vs
  | VStruct vs =>
      if MAX_DEPTH <=? depth then false else
      match vs with [] => false | _ => forallb (shape_ok (depth + 1)) vs end
  | VDict _ _ kvs => if MAX_DEPTH <=? depth then false else forallb (fun kv => shape_ok (depth + 1) (snd kv)) kvs
  | VVariant _ x => if MAX_DEPTH <=? depth then false else shape_ok (depth + 1) x
  end.

(* the public entry points marshal_param / marshal_container_param: the shape check, then the marshaller at
   depth 0; a failed shape check has written nothing *)
Definition marshal_param_top (be : bool) (v : val) (c : mctx) : mres :=
  if shape_ok 0 v then marshal_p be 0 v c else (c, false).

Lemma marshal_param_top_ok be v c c' : marshal_param_top be v c = (c', true) ->
  shape_ok 0 v = true /\ marshal_p be 0 v c = (c', true).
Proof. unfold marshal_param_top. destruct (shape_ok 0 v); [auto|discriminate]. Qed.
Lemma marshal_param_top_shape be v c : shape_ok 0 v = true -> marshal_param_top be v c = marshal_p be 0 v c.
Proof. unfold marshal_param_top. now intros ->. Qed.
Lemma marshal_param_top_refused be v c : shape_ok 0 v = false -> marshal_param_top be v c = (c, false).
Proof. unfold marshal_param_top. now intros ->. Qed.

(** equation lemmas: the inner loops are [marshal_seq] / [marshal_entries] (by conversion) *)
Lemma marshal_seq_cons m x r c : marshal_seq m (x :: r) c = mbind (m x c) (marshal_seq m r).
Proof. reflexivity. Qed.
Lemma marshal_entries_cons m a b r c : marshal_entries m ((a, b) :: r) c =
  mbind (m a {| mbuf := pad_to 8 (mbuf c); mfds := mfds c |}) (fun c2 => mbind (m b c2) (marshal_entries m r)).
Proof. reflexivity. Qed.

Lemma marshal_t_struct be vs c : marshal_t be (VStruct vs) c =
  marshal_seq (marshal_t be) vs {| mbuf := pad_to 8 (mbuf c); mfds := mfds c |}.
Proof. reflexivity. Qed.

Lemma marshal_t_array be t vs c : marshal_t be (VArray t vs) c =
  let b1 := pad_to 4 (mbuf c) in
  if valid_slice be t then
    let n := align t * len vs in
    if MAX_ARRAY <? n then ({| mbuf := b1; mfds := mfds c |}, false) else
    let b2 := pad_to (align t) (b1 ++ enc be 4 n) in
    ({| mbuf := b2 ++ flat_map (fun x => match x with VBase b k => enc false (base_size b) k | _ => [] end) vs;
        mfds := mfds c |}, true)
  else
    let size_pos := len b1 in
    let b3 := pad_to (align t) (b1 ++ [0; 0; 0; 0]) in
    match vs with
    | [] => ({| mbuf := b3; mfds := mfds c |}, true)
    | _ =>
        let size_before := len b3 in
        mbind (marshal_seq (marshal_t be) vs {| mbuf := b3; mfds := mfds c |})
          (fun c' =>
             let n := len (mbuf c') - size_before in
             if MAX_ARRAY <? n then (c', false)
             else ({| mbuf := insert4 be n size_pos (mbuf c'); mfds := mfds c' |}, true))
    end.
Proof. reflexivity. Qed.

Lemma marshal_t_dict be k vt kvs c : marshal_t be (VDict k vt kvs) c =
  let b1 := pad_to 4 (mbuf c) in
  let size_pos := len b1 in
  let b3 := pad_to 8 (b1 ++ [0; 0; 0; 0]) in
  match kvs with
  | [] => ({| mbuf := b3; mfds := mfds c |}, true)
  | _ =>
      let size_before := len b3 in
      mbind (marshal_entries (marshal_t be) kvs {| mbuf := b3; mfds := mfds c |})
        (fun c' =>
           let n := len (mbuf c') - size_before in
           if MAX_ARRAY <? n then (c', false)
           else ({| mbuf := insert4 be n size_pos (mbuf c'); mfds := mfds c' |}, true))
  end.
Proof. reflexivity. Qed.

Lemma marshal_p_struct be depth vs c : marshal_p be depth (VStruct vs) c =
  if MAX_DEPTH <=? depth then (c, false) else
  marshal_seq (marshal_p be (depth + 1)) vs {| mbuf := pad_to 8 (mbuf c); mfds := mfds c |}.
Proof. reflexivity. Qed.

Lemma marshal_p_array be depth t vs c : marshal_p be depth (VArray t vs) c =
  if MAX_DEPTH <=? depth then (c, false) else
  if negb (forallb (fun x => ty_eqb (ty_of x) t) vs) then (c, false) else
  let b1 := pad_to 4 (mbuf c) in
  let len_pos := len b1 in
  let b3 := pad_to (align t) (b1 ++ [0; 0; 0; 0]) in
  let content_pos := len b3 in
  mbind (marshal_seq (marshal_p be (depth + 1)) vs {| mbuf := b3; mfds := mfds c |})
    (fun c' =>
       let n := len (mbuf c') - content_pos in
       if MAX_ARRAY <? n then (c', false)
       else ({| mbuf := insert4 be n len_pos (mbuf c'); mfds := mfds c' |}, true)).
Proof. reflexivity. Qed.

Lemma marshal_p_dict be depth k vt kvs c : marshal_p be depth (VDict k vt kvs) c =
  if MAX_DEPTH <=? depth then (c, false) else
  if negb (forallb (fun kv => ty_eqb (ty_of (fst kv)) (TBase k) && ty_eqb (ty_of (snd kv)) vt) kvs) then (c, false) else
  let b1 := pad_to 4 (mbuf c) in
  let len_pos := len b1 in
  let b3 := pad_to 8 (b1 ++ [0; 0; 0; 0]) in
  let content_pos := len b3 in
  mbind (marshal_entries (marshal_p be (depth + 1)) kvs {| mbuf := b3; mfds := mfds c |})
    (fun c' =>
       let n := len (mbuf c') - content_pos in
       if MAX_ARRAY <? n then (c', false)
       else ({| mbuf := insert4 be n len_pos (mbuf c'); mfds := mfds c' |}, true)).
Proof. reflexivity. Qed.
