(** C03, part 1: raw validation is sound: whenever [validate] returns [Ok n], the [n] bytes at the
    offset are the specification's encoding of a well-typed, encodable value. *)
From RB Require Import Base.Prelude Sig.Types Sig.Parser Sig.ParserProofs Sig.Validator Sig.ValidatorProofs
  Wire.Bytes Wire.Align Wire.Text Wire.Value Wire.SpecEnc Wire.Marshal Wire.MarshalProofs Wire.Decode Wire.Unmarshal.
From RB Require Import Wire.DecodeSoundLemmas.

(** ** the element loop collects a chain of items *)
Lemma elem_loop_chain {X} (R : N -> N -> X -> Prop) one L offset n :
  (forall p k, p <= L -> one p = Ok k -> p + k <= L /\ exists x, R p k x) ->
  forall lf used u, offset + used <= L -> elem_loop one lf offset n used = Ok u ->
    n <= u /\ used <= u /\ offset + u <= L /\ exists xs, chain R (offset + used) (offset + u) xs.
Proof.
  intros Hone. induction lf as [|lf IH]; intros used u Hu; cbn [elem_loop]; destruct (N.ltb_spec used n) as [Hlt|Hge];
    try discriminate.
  - intros H. injection H as <-. repeat split; try lia. exists []. constructor.
  - destruct (one (offset + used)) as [k| | | |] eqn:E; cbn [bind]; try discriminate. intros H.
    destruct (Hone _ _ Hu E) as [Hb [x Hx]].
    destruct (IH (used + k) u ltac:(lia) H) as (H1 & H2 & H3 & xs & Hxs).
    repeat split; try lia. exists (x :: xs). econstructor; [exact Hx|]. now rewrite <- N.add_assoc.
  - intros H. injection H as <-. repeat split; try lia. exists []. constructor.
Qed.

Lemma v_fields_chain (R : N -> N -> val * ty -> Prop) one L offset :
  forall ts, (forall f p k, In f ts -> p <= L -> one f p = Ok k -> p + k <= L /\ exists x, R p k (x, f)) ->
  forall used u, offset + used <= L -> v_fields one offset ts used = Ok u ->
    used <= u /\ offset + u <= L /\ exists xs, chain R (offset + used) (offset + u) xs /\ map snd xs = ts.
Proof.
  induction ts as [|f r IH]; intros Hone used u Hu; cbn [v_fields].
  - intros H. injection H as <-. repeat split; try lia. exists []. split; [constructor|reflexivity].
  - destruct (one f (offset + used)) as [k| | | |] eqn:E; cbn [bind]; try discriminate. intros H.
    destruct (Hone f _ _ (or_introl eq_refl) Hu E) as [Hb [x Hx]].
    destruct (IH (fun f' p k Hin => Hone f' p k (or_intror Hin)) (used + k) u ltac:(lia) H) as (H2 & H3 & xs & Hxs & Em).
    repeat split; try lia. exists ((x, f) :: xs). split; [|cbn [map snd]; now rewrite Em].
    econstructor; [exact Hx|]. now rewrite <- N.add_assoc.
Qed.

(** ** arrays of fixed-width elements whose bytes are always valid *)
Lemma bytes_always_valid_inv t : bytes_always_valid t = true ->
  exists b, t = TBase b /\ is_text b = false /\ b <> BBoolean /\ base_align b = N.of_nat (base_size b).
Proof.
  destruct t as [b|?|?|? ?|]; cbn [bytes_always_valid]; try discriminate.
  destruct b; try discriminate; intros _; eexists; repeat split; try reflexivity; discriminate.
Qed.

Lemma fixed_chain be d buf b : is_text b = false -> b <> BBoolean -> base_align b = N.of_nat (base_size b) ->
  bytes_ok buf -> forall cnt a, a mod base_align b = 0 -> a + N.of_nat cnt * base_align b <= len buf ->
  exists vs, chain (fun p k x => denotes be d buf p k x (TBase b)) a (a + N.of_nat cnt * base_align b) vs.
Proof.
  intros Ht Hnb Hsz Hb. pose proof (base_align_pos b) as Hap.
  induction cnt as [|cnt IH]; intros a Ha Hl.
  - exists []. replace (a + N.of_nat 0 * base_align b) with a by lia. constructor.
  - assert (Ha' : (a + base_align b) mod base_align b = 0).
    { apply N.mod_divide in Ha; [|lia]. destruct Ha as [q ->].
      replace (q * base_align b + base_align b) with ((q + 1) * base_align b) by lia. apply N.mod_mul. lia. }
    destruct (IH (a + base_align b) Ha' ltac:(lia)) as [vs Hvs].
    pose proof (denotes_fixed be d buf a b Ht Hb) as Hd. cbv zeta in Hd.
    rewrite (padlen_0 _ _ Hap Ha) in Hd. rewrite N.add_0_r in Hd. cbn [N.add] in Hd.
    eexists (_ :: vs). econstructor.
    + apply Hd; [reflexivity|lia|intros ->; now elim Hnb].
    + rewrite <- Hsz. replace (a + base_align b + N.of_nat cnt * base_align b) with (a + N.of_nat (S cnt) * base_align b) in Hvs by lia.
      exact Hvs.
Qed.

(** ** the theorem *)
Theorem validate_sound be : forall vf t d off buf n,
  wf t = true -> tys_ok t = true -> bytes_ok buf -> off <= len buf ->
  validate vf be d off buf t = Ok n -> exists v, denotes be d buf off n v t.
Proof.
  induction vf as [|vf IHvf]; [discriminate|].
  induction t as [b|e IHe|ts IHts|kt vt IHv|] using ty_ind'; intros d off buf n Hwf Hok Hb Hoff H.
  - (* base *) rewrite validate_base_eq in H. now apply validate_base_sound.
  - (* array *)
    rewrite validate_array_eq in H. cbn [wf tys_ok] in Hwf, Hok. apply andb_prop in Hok. destruct Hok as [Hte Hoke].
    destruct (N.leb_spec MAX_DEPTH d) as [|Hd]; [discriminate|].
    destruct (align_offset 4 buf off) as [p1| | | |] eqn:E1; cbn [bind] in H; try discriminate.
    destruct (align_offset_ok 4 _ _ _ eq_refl E1) as (-> & Hl1 & Hz1).
    destruct (parse_u32_at be buf (off + padlen 4 off)) as [n0| | | |] eqn:E2; cbn [bind] in H; try discriminate.
    destruct (parse_u32_at_ok _ _ _ _ Hb E2) as (Hl2 & En & _).
    destruct (check_array_len n0) as [n1| | | |] eqn:E3; cbn [bind] in H; try discriminate.
    destruct (check_array_len_ok _ _ E3) as [-> Hmax].
    set (p1 := padlen 4 off) in *. set (start := off + p1 + 4) in *.
    destruct (N.ltb_spec (len buf - start) n0) as [|Hn1]; [discriminate|].
    destruct (align_offset (align e) buf start) as [p2| | | |] eqn:E4; cbn [bind] in H; try discriminate.
    destruct (align_offset_ok _ _ _ _ (align_pos e) E4) as (-> & Hl3 & Hz2).
    set (p2 := padlen (align e) start) in *.
    destruct (N.ltb_spec (len buf - (start + p2)) n0) as [|Hn2]; [discriminate|].
    assert (Hchain : Ok (p1 + 4 + p2 + n0) = Ok n /\
              exists vs, chain (fun p k x => denotes be (d + 1) buf p k x e) (start + p2) (start + p2 + n0) vs).
    { destruct (bytes_always_valid e) eqn:Ebv.
      - destruct (N.eqb_spec (n0 mod align e) 0) as [Hm|]; [|discriminate]. split; [exact H|].
        destruct (bytes_always_valid_inv _ Ebv) as (b & -> & Ht & Hnb & Hsz). cbn [align] in *.
        pose proof (base_align_pos b) as Hap. apply N.mod_divide in Hm; [|lia]. destruct Hm as [q Hq].
        replace n0 with (N.of_nat (N.to_nat q) * base_align b) by lia.
        apply fixed_chain; try assumption; [apply padlen_aligned; lia|lia].
      - set (cl := firstnN (start + p2 + n0) buf) in *.
        destruct (elem_loop _ _ _ _ _) as [used| | | |] eqn:El; cbn [bind] in H; try discriminate. split; [exact H|].
        assert (Lcl : len cl = start + p2 + n0) by (apply len_firstnN_le; lia).
        assert (Hone : forall p k, p <= len cl -> validate (S vf) be (d + 1) p cl e = Ok k ->
                   p + k <= len cl /\ exists x, denotes be (d + 1) cl p k x e).
        { intros p k Hp Hk. destruct (IHe (d + 1) p cl k Hwf Hoke (bytes_ok_firstnN _ _ Hb) Hp Hk) as [v Hv].
          split; [apply Hv|eauto]. }
        assert (H0 : start + p2 + 0 <= len cl) by lia.
        destruct (elem_loop_chain _ _ (len cl) (start + p2) n0 Hone _ 0 used H0 El) as (H1 & _ & H3 & vs & Hvs).
        assert (used = n0) by lia. subst used. rewrite N.add_0_r in Hvs. exists vs.
        eapply chain_impl; [|exact Hvs]. intros p k x. apply denotes_clip. }
    destruct Hchain as [Hn [vs Hvs]]. injection Hn as <-. exists (VArray e vs).
    apply denotes_array; try assumption; fold p1; fold start; fold p2; lia.
  - (* struct *)
    rewrite validate_struct_eq in H. cbn [wf tys_ok] in Hwf, Hok. apply andb_prop in Hwf. destruct Hwf as [Hne Hwf].
    destruct (N.leb_spec MAX_DEPTH d) as [|Hd]; [discriminate|].
    destruct (align_offset 8 buf off) as [p| | | |] eqn:E1; cbn [bind] in H; try discriminate.
    destruct (align_offset_ok 8 _ _ _ eq_refl E1) as (-> & Hl1 & Hz1). set (p := padlen 8 off) in *.
    destruct (v_fields _ _ _ _) as [used| | | |] eqn:Ef; cbn [bind] in H; try discriminate. injection H as <-.
    rewrite forallb_forall in Hwf, Hok. rewrite Forall_forall in IHts.
    assert (Hone : forall f q k, In f ts -> q <= len buf -> validate (S vf) be (d + 1) q buf f = Ok k ->
               q + k <= len buf /\ exists x, denotes be (d + 1) buf q k (fst (x, f)) (snd (x, f))).
    { intros f q k Hin Hq Hk. destruct (IHts f Hin (d + 1) q buf k (Hwf f Hin) (Hok f Hin) Hb Hq Hk) as [v Hv].
      split; [apply Hv|eauto]. }
    assert (H0 : off + p + 0 <= len buf) by lia.
    destruct (v_fields_chain (fun q k x => denotes be (d + 1) buf q k (fst x) (snd x)) _ (len buf) (off + p) ts Hone
                0 used H0 Ef) as (_ & H3 & xs & Hxs & Em).
    rewrite N.add_0_r in Hxs. exists (VStruct (map fst xs)). rewrite <- Em.
    apply denotes_struct; try assumption; fold p; try lia.
    intros ->. cbn in Em. subst ts. discriminate.
  - (* dict *)
    rewrite validate_dict_eq in H. cbn [wf tys_ok] in Hwf, Hok. apply andb_prop in Hok. destruct Hok as [Hte Hoke].
    destruct (N.leb_spec MAX_DEPTH d) as [|Hd]; [discriminate|].
    destruct (align_offset 4 buf off) as [p1| | | |] eqn:E1; cbn [bind] in H; try discriminate.
    destruct (align_offset_ok 4 _ _ _ eq_refl E1) as (-> & Hl1 & Hz1).
    destruct (parse_u32_at be buf (off + padlen 4 off)) as [n0| | | |] eqn:E2; cbn [bind] in H; try discriminate.
    destruct (parse_u32_at_ok _ _ _ _ Hb E2) as (Hl2 & En & _).
    destruct (check_array_len n0) as [n1| | | |] eqn:E3; cbn [bind] in H; try discriminate.
    destruct (check_array_len_ok _ _ E3) as [-> Hmax].
    set (p1 := padlen 4 off) in *. set (start := off + p1 + 4) in *.
    destruct (N.ltb_spec (len buf - start) n0) as [|Hn1]; [discriminate|].
    destruct (align_offset 8 buf start) as [p2| | | |] eqn:E4; cbn [bind] in H; try discriminate.
    destruct (align_offset_ok 8 _ _ _ eq_refl E4) as (-> & Hl3 & Hz2).
    set (p2 := padlen 8 start) in *.
    destruct (N.ltb_spec (len buf - (start + p2)) n0) as [|Hn2]; [discriminate|]. cbv zeta in H.
    set (cl := firstnN (start + p2 + n0) buf) in *.
    destruct (elem_loop _ _ _ _ _) as [used| | | |] eqn:El; cbn [bind] in H; try discriminate. injection H as <-.
    assert (Lcl : len cl = start + p2 + n0) by (apply len_firstnN_le; lia).
    assert (Hbcl : bytes_ok cl) by (now apply bytes_ok_firstnN).
    assert (Hone : forall q k, q <= len cl ->
       (do ep <- align_offset 8 cl q; do kb <- validate_base be (q + ep) cl kt;
        do vb <- validate (S vf) be (d + 1) (q + ep + kb) cl vt; Ok (ep + kb + vb)) = Ok k ->
       q + k <= len cl /\ exists kv, denotes_entry be (d + 1) cl kt vt q k kv).
    { intros q k Hq Hk.
      destruct (align_offset 8 cl q) as [ep| | | |] eqn:Ea; cbn [bind] in Hk; try discriminate.
      destruct (align_offset_ok 8 _ _ _ eq_refl Ea) as (-> & Hle & Hze).
      destruct (validate_base be (q + padlen 8 q) cl kt) as [kb| | | |] eqn:Ek; cbn [bind] in Hk; try discriminate.
      destruct (validate_base_sound be (d + 1) _ _ _ _ Hbcl Ek) as [kv Hkv].
      destruct (validate (S vf) be (d + 1) (q + padlen 8 q + kb) cl vt) as [vb| | | |] eqn:Ev; cbn [bind] in Hk; try discriminate.
      injection Hk as <-.
      assert (Hkb : q + padlen 8 q + kb <= len cl) by (destruct Hkv as (_ & _ & _ & Hx); exact Hx).
      destruct (IHv (d + 1) _ cl vb Hwf Hoke Hbcl Hkb Ev) as [vv Hvv].
      split; [destruct Hvv as (_ & _ & _ & Hx); lia|].
      exists (kv, vv). exists kb, vb. cbn [fst snd]. auto. }
    assert (H0 : start + p2 + 0 <= len cl) by lia.
    destruct (elem_loop_chain (denotes_entry be (d + 1) cl kt vt) _ (len cl) _ _ Hone _ 0 used H0 El)
      as (H1 & _ & H3 & kvs & Hkvs).
    assert (used = n0) by lia. subst used. rewrite N.add_0_r in Hkvs. exists (VDict kt vt kvs).
    replace (p1 + p2 + 4 + n0) with (p1 + 4 + p2 + n0) by lia.
    apply denotes_dict; try assumption; fold p1; fold start; fold p2; try lia.
    eapply chain_impl; [|exact Hkvs]. intros q k [a b] (k1 & k2 & Ek & Hz & Ha & Hbv).
    exists k1, k2. split; [exact Ek|]. split; [|split; eapply denotes_clip; eassumption].
    rewrite <- Hz. symmetry. apply slice_firstnN.
    destruct Ha as (_ & _ & _ & Hx). rewrite Lcl in Hx. lia.
  - (* variant *)
    rewrite validate_variant_eq in H.
    destruct (N.leb_spec MAX_DEPTH d) as [|Hd]; [discriminate|].
    destruct (unmarshal_signature buf off) as [[k s]| | | |] eqn:Es; cbn [bind fst snd] in H; try discriminate.
    destruct (parse_description s) as [tys| | | |] eqn:Ep; cbn [bind] in H; try discriminate.
    destruct tys as [|t' [|]]; try discriminate.
    destruct (validate vf be (d + 1) (off + k) buf t') as [pb| | | |] eqn:Ev; cbn [bind] in H; try discriminate.
    injection H as <-.
    destruct (unmarshal_signature_ok _ _ _ _ Es) as (_ & Hlk & _).
    destruct (parse_single _ _ Ep) as [_ Htok].
    destruct (IHvf t' (d + 1) (off + k) buf pb (type_ok_wf _ Htok) (type_ok_tys_ok _ Htok) Hb Hlk Ev) as [x Hx].
    exists (VVariant t' x). eapply denotes_variant; eassumption.
Qed.
