(** C18, send clause with its known exception (finding D21s: the typed marshaller counts no nesting). *)
From RB Require Import Base.Prelude Sig.Types Sig.Parser Sig.Validator Wire.Bytes Wire.Align Wire.Text Wire.Value Wire.SpecEnc
  Wire.Marshal Wire.Relabel Wire.MarshalProofs Wire.Decode Wire.Unmarshal Wire.DecodeSoundLemmas
  Wire.Limits Wire.LimitsProofs Wire.LimitsSend.

(** * The send clause of C18 with its known exception (finding D21s)
    The typed marshaller counts no nesting (LimitsProofs.marshal_t_counts_no_nesting). The class of inputs on which the
    send clause therefore fails: values nested deeper than 64 levels handed to the TYPED API - possible only for a Rust
    type that contains itself or is written more than 64 containers deep. *)
Definition KnownClass_D21s (v : val) : bool := MAX_DEPTH <? vdepth v.

(* [vfits e v]: v is a value of the Rust type e (what the type checker guarantees for a typed marshal call) *)
Fixpoint vfits (e : ety) (v : val) {struct e} : bool :=
  match e, v with
  | EBase b, VBase b' _ => base_eqb b b'
  | EBase b, VText b' _ => base_eqb b b'
  | EArray x, VArray _ vs => forallb (vfits x) vs
  | EStruct es, VStruct vs =>
      (fix go (es : list ety) (vs : list val) : bool :=
         match es, vs with
         | [], [] => true
         | e :: es', v :: vs' => vfits e v && go es' vs'
         | _, _ => false
         end) es vs
  | EDict _ x, VDict _ _ kvs =>
      forallb (fun kv => match fst kv with VBase _ _ | VText _ _ => vfits x (snd kv) | _ => false end) kvs
  | EVar x, VVariant _ y => vfits x y
  | _, _ => false
  end.

(* the nesting of a value is bounded by the nesting of its Rust type *)
Lemma vfits_depth : forall e v, vfits e v = true -> vdepth v <= edepth e.
Proof.
  induction e as [b|x IH|es IH|k x IH|x IH] using ety_ind'; intros v H; destruct v as [b' n|b' s|t vs|vs|k' vt kvs|t y];
    try discriminate H; cbn [vfits] in H; cbn [vdepth edepth].
  - lia.
  - lia.
  - fold (vdepth_list vs). rewrite forallb_forall in H.
    assert (vdepth_list vs <= edepth x); [|lia].
    apply vdepth_list_le. apply Forall_forall. intros y Hin. apply IH. now apply H.
  - fold (vdepth_list vs).
    assert (vdepth_list vs <= fold_right (fun x m => N.max (edepth x) m) 0 es); [|lia].
    revert vs H. induction es as [|e es IHes]; intros [|v vs] H; try discriminate H; [cbn; lia|].
    apply andb_prop in H. destruct H as [H1 H2]. apply Forall_cons_iff in IH. destruct IH as [IHe IHr].
    cbn [vdepth_list fold_right]. fold (vdepth_list vs). specialize (IHe v H1). specialize (IHes IHr vs H2). lia.
  - fold (vdepth_entries kvs). rewrite forallb_forall in H.
    assert (vdepth_entries kvs <= edepth x); [|lia].
    apply vdepth_entries_le. apply Forall_forall. intros kv Hin. specialize (H kv Hin).
    destruct (fst kv) as [? ?|? ?|? ?|?|? ? ?|? ?] eqn:Ek; try discriminate H; cbn [vdepth]; (split; [lia|now apply IH]).
  - specialize (IH y H). lia.
Qed.

Theorem typed_class_by_type : forall e v, vfits e v = true -> edepth e <= MAX_DEPTH -> KnownClass_D21s v = false.
Proof. intros e v H Hd. unfold KnownClass_D21s. apply N.ltb_ge. pose proof (vfits_depth e v H). lia. Qed.

(* the Param API: the full send clause - whatever the public entry point accepts respects the nesting limit and the array
   limit everywhere inside the value *)
Theorem send_limits_param : forall be v, typed v -> strings_small v = true -> forall c c',
  marshal_param_top be v c = (c', true) -> snd (relabel v (mfds c)) <= 2 ^ 32 ->
  vdepth v <= MAX_DEPTH /\ arrays_within be (len (mbuf c)) (fst (relabel v (mfds c))) = true.
Proof.
  intros be v Ht Hs c c' H Hb. apply marshal_param_top_ok in H. destruct H as [_ H]. split.
  - exact (marshal_p_depth_top be v c c' H).
  - exact (marshal_p_arrays be v Ht Hs 0 c c' H Hb).
Qed.

(* the typed API: the send clause outside the known class *)
Theorem send_limits_typed : forall be v, KnownClass_D21s v = false -> typed v -> strings_small v = true -> forall c c',
  marshal_t be v c = (c', true) -> snd (relabel v (mfds c)) <= 2 ^ 32 ->
  vdepth v <= MAX_DEPTH /\ arrays_within be (len (mbuf c)) (fst (relabel v (mfds c))) = true.
Proof.
  intros be v Hk Ht Hs c c' H Hb. split.
  - unfold KnownClass_D21s in Hk. now apply N.ltb_ge in Hk.
  - exact (marshal_t_arrays be v Ht Hs c c' H Hb).
Qed.

(* ... and inside it the clause fails: what a self-referential derived enum (Leaf(u8) | Node(Vec<Self>)) nested 65 containers
   deep looks like as a value - the typed marshaller accepts it, the Param marshaller refuses the same value *)
Fixpoint drec (n : nat) : val :=
  match n with
  | O => VVariant (TBase BByte) (VBase BByte 7)
  | S k => VVariant (TArray TVariant) (VArray TVariant [drec k])
  end.
Theorem send_typed_nesting_refuted :
  KnownClass_D21s (drec 32) = true /\ vdepth (drec 32) = 65 /\ typed (drec 32) /\ strings_small (drec 32) = true
  /\ snd (marshal_t false (drec 32) {| mbuf := []; mfds := 0 |}) = true
  /\ snd (marshal_param_top false (drec 32) {| mbuf := []; mfds := 0 |}) = false.
Proof.
  split; [vm_compute; reflexivity|]. split; [vm_compute; reflexivity|]. split; [exists TVariant; vm_compute; reflexivity|].
  repeat split; vm_compute; reflexivity.
Qed.
