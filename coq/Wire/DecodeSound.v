(** C03: the decoder theorems in one place.
    - soundness of raw validation, of the dynamic (Param) decoder and of the typed decoder w.r.t. the
      specification encoder [spec_enc]/[encodable] (proved in DecodeSoundV/P/T), restated without the
      auxiliary predicates;
    - together with completeness (Wire/DecodeComplete.v): exact characterisations ([<->]) and the agreement of
      the three decoders;
    - the classes of malformed input named in the property are rejected. *)
From RB Require Import Base.Prelude Sig.Types Sig.Parser Sig.ParserProofs Sig.Validator Sig.ValidatorProofs
  Wire.Bytes Wire.Align Wire.Text Wire.Value Wire.SpecEnc Wire.Marshal Wire.MarshalProofs Wire.Decode Wire.Unmarshal.
From RB Require Import Wire.DecodeLemmas.
From RB Require Import Wire.DecodeComplete.
From RB Require Import Wire.DecodeSoundLemmas.
From RB Require Import Wire.DecodeTotal.
From RB Require Import Wire.DecodeSoundV.
From RB Require Import Wire.DecodeSoundP.
From RB Require Import Wire.DecodeSoundT.

(** ** 1. raw validation *)
Theorem validate_sound_spec : forall be vf depth off buf t n,
  wf t = true -> tys_ok t = true -> bytes_ok buf -> off <= len buf ->
  validate vf be depth off buf t = Ok n ->
  exists v, wt v t = true /\ encodable be off depth v = true /\ slice buf off n = spec_enc be off v /\ off + n <= len buf.
Proof. intros be vf depth off buf t n Hw Ht Hb Ho H. exact (validate_sound be vf t depth off buf n Hw Ht Hb Ho H). Qed.

(* validation succeeds exactly on the specification's encodings and reports their length *)
Theorem validate_exact : forall be vf depth off buf t n,
  wf t = true -> tys_ok t = true -> bytes_ok buf -> off <= len buf -> fuel_ok vf depth ->
  (validate vf be depth off buf t = Ok n <->
   exists v, wt v t = true /\ encodable be off depth v = true /\ slice buf off n = spec_enc be off v /\ off + n <= len buf).
Proof.
  intros be vf depth off buf t n Hw Ht Hb Ho Hf. split; [now apply validate_sound_spec|].
  intros (v & Hwt & He & Es & Hbd).
  assert (Hl : len (spec_enc be off v) = n) by (rewrite <- Es; now apply len_slice).
  rewrite <- Hl. apply validate_complete_gen; try assumption.
  apply has_at_of_slice; rewrite Hl; assumption.
Qed.

(** ** 2. the dynamic decoder *)
Theorem unmarshal_p_sound_spec : forall be vf t c v c',
  wf t = true -> tys_ok t = true -> bytes_ok (ubuf c) -> uoff c <= len (ubuf c) ->
  unmarshal_p vf be t c = Ok (v, c') ->
  wt v t = true /\ encodable be (uoff c) (udepth c) v = true
  /\ slice (ubuf c) (uoff c) (uoff c' - uoff c) = spec_enc be (uoff c) v
  /\ ubuf c' = ubuf c /\ uoff c <= uoff c' <= len (ubuf c) /\ unfds c' = unfds c /\ udepth c' = udepth c
  /\ fds_below (unfds c) v = true.
Proof.
  intros be vf t c v c' Hw Ht Hb Ho H.
  destruct (unmarshal_p_sound be vf t c v c' Hw Ht Hb Ho H) as ((H1 & H2 & H3 & H4) & Ec & Hle & Hf).
  rewrite Ec. cbn [set_off ubuf uoff unfds udepth]. repeat split; try assumption. lia.
Qed.

(** ** 3. the typed decoder *)
Theorem unmarshal_t_sound_spec : forall be vf e c v c',
  wf (erase e) = true -> tys_ok (erase e) = true -> typed_depth_ok c e ->
  bytes_ok (ubuf c) -> uoff c <= len (ubuf c) ->
  unmarshal_t vf be e c = Ok (v, c') ->
  wt v (erase e) = true /\ encodable be (uoff c) (udepth c) v = true
  /\ slice (ubuf c) (uoff c) (uoff c' - uoff c) = spec_enc be (uoff c) v
  /\ ubuf c' = ubuf c /\ uoff c <= uoff c' <= len (ubuf c) /\ unfds c' = unfds c /\ udepth c' = udepth c
  /\ fds_below (unfds c) v = true /\ ety_matches e v = true.
Proof.
  intros be vf e c v c' Hw Ht Hd Hb Ho H.
  destruct (unmarshal_t_sound_at_depth be vf e c v c' Hw Ht Hd Hb Ho H) as ((H1 & H2 & H3 & H4) & Ec & Hle & Hf & Hm).
  rewrite Ec. cbn [set_off ubuf uoff unfds udepth]. repeat split; try assumption. lia.
Qed.

(** ** 4. the decoders agree *)
(* raw validation accepts exactly what the dynamic decoder accepts when enough descriptors are attached
   (2^32: every index fits), with the same length *)
Theorem validate_param_agree : forall be vf depth off buf t n,
  wf t = true -> tys_ok t = true -> bytes_ok buf -> off <= len buf -> fuel_ok vf depth ->
  (validate vf be depth off buf t = Ok n <->
   exists v, unmarshal_p vf be t {| ubuf := buf; uoff := off; unfds := 2 ^ 32; udepth := depth |}
             = Ok (v, {| ubuf := buf; uoff := off + n; unfds := 2 ^ 32; udepth := depth |})).
Proof.
  intros be vf depth off buf t n Hw Ht Hb Ho Hf. split.
  - intros H. destruct (validate_sound be vf t depth off buf n Hw Ht Hb Ho H) as [v Hv]. exists v.
    pose proof (denotes_len _ _ _ _ _ _ _ Hv) as Hl. pose proof (denotes_has_at _ _ _ _ _ _ _ Hv) as Ha.
    destruct Hv as (Hwt & He & _ & _). rewrite <- Hl.
    exact (unmarshal_p_complete_gen be v t buf off (2 ^ 32) depth vf Hwt He (wt_fds_u32 _ _ Hwt) Ha Hf).
  - intros [v H]. apply unmarshal_p_sound in H; [|exact Hw|exact Ht|exact Hb|exact Ho]. destruct H as (Hv & _). cbn [ubuf uoff udepth] in Hv.
    replace (off + n - off) with n in Hv by lia.
    pose proof (denotes_len _ _ _ _ _ _ _ Hv) as Hl. pose proof (denotes_has_at _ _ _ _ _ _ _ Hv) as Ha.
    destruct Hv as (Hwt & He & _ & _). rewrite <- Hl. now apply validate_complete_gen.
Qed.

(* with [nf] descriptors attached the dynamic decoder accepts exactly when it accepts with enough descriptors
   and every index in the value is below [nf]; the value and the position are the same *)
Theorem param_fds : forall be vf t buf off nf depth v c',
  wf t = true -> tys_ok t = true -> bytes_ok buf -> off <= len buf -> fuel_ok vf depth ->
  (unmarshal_p vf be t {| ubuf := buf; uoff := off; unfds := nf; udepth := depth |} = Ok (v, c') <->
   exists n, unmarshal_p vf be t {| ubuf := buf; uoff := off; unfds := 2 ^ 32; udepth := depth |}
             = Ok (v, {| ubuf := buf; uoff := off + n; unfds := 2 ^ 32; udepth := depth |})
             /\ fds_below nf v = true /\ c' = {| ubuf := buf; uoff := off + n; unfds := nf; udepth := depth |}).
Proof.
  intros be vf t buf off nf depth v c' Hw Ht Hb Ho Hf. split.
  - intros H. apply unmarshal_p_sound in H; [|exact Hw|exact Ht|exact Hb|exact Ho]. destruct H as (Hv & Ec & Hle & Hfd).
    cbn [ubuf uoff unfds udepth] in *. exists (uoff c' - off).
    pose proof (denotes_len _ _ _ _ _ _ _ Hv) as Hl. pose proof (denotes_has_at _ _ _ _ _ _ _ Hv) as Ha.
    destruct Hv as (Hwt & He & _ & _). split; [|split; [exact Hfd|]].
    + rewrite <- Hl. exact (unmarshal_p_complete_gen be v t buf off (2 ^ 32) depth vf Hwt He (wt_fds_u32 _ _ Hwt) Ha Hf).
    + rewrite Ec. unfold set_off. cbn [ubuf uoff unfds udepth]. f_equal. lia.
  - intros (n & H & Hfd & ->). apply unmarshal_p_sound in H; [|exact Hw|exact Ht|exact Hb|exact Ho]. destruct H as (Hv & _). cbn [ubuf uoff udepth] in Hv.
    replace (off + n - off) with n in Hv by lia.
    pose proof (denotes_len _ _ _ _ _ _ _ Hv) as Hl. pose proof (denotes_has_at _ _ _ _ _ _ _ Hv) as Ha.
    destruct Hv as (Hwt & He & _ & _). rewrite <- Hl.
    exact (unmarshal_p_complete_gen be v t buf off nf depth vf Hwt He Hfd Ha Hf).
Qed.

(* whatever the typed decoder accepts, the dynamic decoder accepts, with the same value and position *)
Theorem typed_accepts_param : forall be vf vf' e c v c',
  wf (erase e) = true -> tys_ok (erase e) = true -> typed_depth_ok c e ->
  bytes_ok (ubuf c) -> uoff c <= len (ubuf c) -> fuel_ok vf' (udepth c) ->
  unmarshal_t vf be e c = Ok (v, c') ->
  unmarshal_p vf' be (erase e) c = Ok (v, c') /\ ety_matches e v = true.
Proof.
  intros be vf vf' e c v c' Hw Ht Hd Hb Ho Hf H.
  destruct (unmarshal_t_sound_at_depth be vf e c v c' Hw Ht Hd Hb Ho H) as (Hden & Ec & Hle & Hfd & Hm).
  split; [|exact Hm].
  pose proof (denotes_len _ _ _ _ _ _ _ Hden) as Hl. pose proof (denotes_has_at _ _ _ _ _ _ _ Hden) as Ha.
  destruct Hden as (Hwt & He & _ & _). destruct c as [buf off nf d]. cbn [ubuf uoff unfds udepth] in *.
  rewrite (unmarshal_p_complete_gen be v (erase e) buf off nf d vf' Hwt He Hfd Ha Hf). rewrite Ec.
  unfold set_off. cbn [ubuf uoff unfds udepth]. do 3 f_equal. lia.
Qed.

(* and the typed decoder accepts what the dynamic decoder accepts, provided every variant holds the
   content type the Rust type asks for ([ety_matches]): the only way in which it is stricter *)
Theorem param_accepts_typed : forall be vf vf' e c v c',
  wf (erase e) = true -> tys_ok (erase e) = true -> bytes_ok (ubuf c) -> uoff c <= len (ubuf c) ->
  fuel_ok vf' (udepth c) ->
  unmarshal_p vf be (erase e) c = Ok (v, c') -> ety_matches e v = true ->
  unmarshal_t vf' be e c = Ok (v, c').
Proof.
  intros be vf vf' e c v c' Hw Ht Hb Ho Hf H Hm.
  destruct (unmarshal_p_sound be vf (erase e) c v c' Hw Ht Hb Ho H) as (Hden & Ec & Hle & Hfd).
  pose proof (denotes_len _ _ _ _ _ _ _ Hden) as Hl. pose proof (denotes_has_at _ _ _ _ _ _ _ Hden) as Ha.
  destruct Hden as (Hwt & He & _ & _). destruct c as [buf off nf d]. cbn [ubuf uoff unfds udepth] in *.
  rewrite (unmarshal_t_complete_gen be v e buf off nf d d vf' Hwt Hm He (N.le_refl d) Hfd Ha Hf). rewrite Ec.
  unfold set_off. cbn [ubuf uoff unfds udepth]. do 3 f_equal. lia.
Qed.

(* for Rust types without Variant-then-get the shape condition is implied by typing: the typed and the dynamic
   decoder then accept exactly the same inputs *)
Fixpoint no_evar (e : ety) : bool :=
  match e with
  | EBase _ => true
  | EArray x => no_evar x
  | EStruct es => forallb no_evar es
  | EDict _ v => no_evar v
  | EVar _ => false
  end.

Lemma ety_matches_no_evar : forall v e, no_evar e = true -> wt v (erase e) = true -> ety_matches e v = true.
Proof.
  induction v as [b k|b s|t vs IH|vs IH|kb vt kvs IH|t x IH] using val_ind'; intros e Hn Hwt;
    destruct e as [b'|x'|es|k' v'|x']; cbn [erase] in Hwt; try discriminate Hwt; try discriminate Hn.
  - destruct (wt_base_ty _ _ _ Hwt) as (E & _). injection E as <-. cbn [ety_matches]. apply base_eqb_refl.
  - destruct (wt_text_ty _ _ _ Hwt) as (E & _). injection E as <-. cbn [ety_matches]. apply base_eqb_refl.
  - pose proof (wt_array_ty _ _ _ Hwt) as E. injection E as <-. cbn [ety_matches no_evar] in *. rewrite ty_eqb_refl. cbn [andb].
    apply forallb_forall. intros y Hin. pose proof (wt_array_inv _ _ _ Hwt) as Hel. rewrite Forall_forall in IH, Hel.
    apply IH; auto.
  - cbn [no_evar] in Hn. cbn [ety_matches]. rewrite wt_struct_eq in Hwt. revert es Hn Hwt.
    induction IH as [|y ys Hy _ IHys]; intros [|e0 es] Hn Hwt; cbn [map wt_fields] in Hwt; try discriminate; [reflexivity|].
    cbn [forallb] in Hn. apply andb_prop in Hn, Hwt. destruct Hn as [Hn0 Hn], Hwt as [Hw0 Hwt].
    rewrite (Hy e0 Hn0 Hw0). cbn [andb]. now apply IHys.
  - pose proof (wt_dict_ty _ _ _ _ Hwt) as E. injection E as <- <-. cbn [ety_matches no_evar] in *.
    rewrite base_eqb_refl, ty_eqb_refl. cbn [andb].
    apply forallb_forall. intros kv Hin. pose proof (wt_dict_inv _ _ _ _ Hwt) as Hel. rewrite Forall_forall in IH, Hel.
    destruct (IH kv Hin) as [_ IHb]. destruct (Hel kv Hin) as [_ Hb]. now apply IHb.
Qed.

Theorem typed_param_agree_no_variant : forall be vf e c v c',
  no_evar e = true -> wf (erase e) = true -> tys_ok (erase e) = true -> udepth c + edepth e <= MAX_DEPTH ->
  bytes_ok (ubuf c) -> uoff c <= len (ubuf c) -> fuel_ok vf (udepth c) ->
  (unmarshal_t vf be e c = Ok (v, c') <-> unmarshal_p vf be (erase e) c = Ok (v, c')).
Proof.
  intros be vf e c v c' Hn Hw Ht Hd Hb Ho Hf. split.
  - intros H. now destruct (typed_accepts_param be vf vf e c v c' Hw Ht (typed_depth_ok_sum c e Hd) Hb Ho Hf H).
  - intros H. apply (param_accepts_typed be vf vf e c v c' Hw Ht Hb Ho Hf H).
    apply ety_matches_no_evar; [exact Hn|].
    now destruct (unmarshal_p_sound be vf (erase e) c v c' Hw Ht Hb Ho H) as ((Hwt & _) & _).
Qed.

(** ** 5. totality at the entry points (fuel 66): never Panic, UB or OutOfFuel *)
Theorem decoders_total : forall be,
  (forall off buf t, wf t = true -> off <= len buf -> ok_or_err (validate_marshalled be off buf t))
  /\ (forall t c, wf t = true -> uoff c <= len (ubuf c) -> ok_or_err (unmarshal_p 66 be t c))
  /\ (forall e c, ewf e = true -> (evars e <= 65)%nat -> uoff c <= len (ubuf c) -> ok_or_err (unmarshal_t 66 be e c)).
Proof.
  intros be. split; [|split].
  - intros. now apply validate_marshalled_total.
  - intros. now apply unmarshal_p_total_66.
  - intros. now apply unmarshal_t_total_66.
Qed.

(** ** 6. the malformed inputs named in the property are rejected
    All three decoders accept a region only if it denotes a value ([accepted]); what follows lists what
    every accepted region satisfies, i.e. which inputs can not be accepted. *)
Definition accepted (be : bool) (d : N) (buf : list N) (off n : N) (t : ty) : Prop := exists v, denotes be d buf off n v t.

Theorem validate_accepted be vf d off buf t n : wf t = true -> tys_ok t = true -> bytes_ok buf -> off <= len buf ->
  validate vf be d off buf t = Ok n -> accepted be d buf off n t.
Proof. intros. eapply validate_sound; eassumption. Qed.
Theorem param_accepted be vf t c v c' : wf t = true -> tys_ok t = true -> bytes_ok (ubuf c) -> uoff c <= len (ubuf c) ->
  unmarshal_p vf be t c = Ok (v, c') -> accepted be (udepth c) (ubuf c) (uoff c) (uoff c' - uoff c) t.
Proof. intros Hw Ht Hb Ho H. exists v. now destruct (unmarshal_p_sound be vf t c v c' Hw Ht Hb Ho H). Qed.
Theorem typed_accepted be vf e c v c' : wf (erase e) = true -> tys_ok (erase e) = true -> typed_depth_ok c e ->
  bytes_ok (ubuf c) -> uoff c <= len (ubuf c) ->
  unmarshal_t vf be e c = Ok (v, c') -> accepted be (udepth c) (ubuf c) (uoff c) (uoff c' - uoff c) (erase e).
Proof.
  intros Hw Ht Hd Hb Ho H. exists v. now destruct (unmarshal_t_sound_at_depth be vf e c v c' Hw Ht Hd Hb Ho H).
Qed.

Lemma slice_split buf off a b m : off + (len a + m) <= len buf -> slice buf off (len a + m) = a ++ b ->
  slice buf off (len a) = a /\ slice buf (off + len a) m = b.
Proof.
  intros Hb H. rewrite slice_add in H. apply app_inj_len in H; [exact H|].
  assert (L : len (slice buf off (len a)) = len a) by (apply len_slice; lia). apply Nat2N.inj. exact L.
Qed.

(* padding bytes are zero *)
Theorem accepted_padding be d buf off n t : accepted be d buf off n t ->
  slice buf off (padlen (align t) off) = zeros (padlen (align t) off) /\ padlen (align t) off <= n.
Proof.
  intros (v & Hw & _ & Es & Hb). rewrite (spec_enc_align be v t off Hw) in Es.
  set (p := padlen (align t) off) in *. set (rest := spec_enc be (off + p) v) in *.
  assert (Hn : n = len (zeros p) + len rest) by (rewrite <- len_app, <- Es; symmetry; now apply len_slice).
  rewrite len_zeros in Hn. split; [|lia]. subst n.
  rewrite <- (len_zeros p) in Es at 1. apply slice_split in Es; [|rewrite len_zeros; lia].
  rewrite len_zeros in Es. apply Es.
Qed.

(* a boolean is 0 or 1 *)
Theorem accepted_bool be d buf off n : accepted be d buf off n (TBase BBoolean) ->
  dec be (slice buf (off + padlen 4 off) 4) < 2.
Proof.
  intros (v & Hw & _ & Es & Hb). destruct (wt_base_inv _ _ Hw) as [(k & -> & _ & Hk)|(s & -> & Ht)]; [|discriminate Ht].
  cbn [wt] in Hw. apply andb_prop in Hw. destruct Hw as [_ Hk2]. apply N.ltb_lt in Hk2.
  cbn [spec_enc base_align base_size] in Es. set (p := padlen 4 off) in *.
  assert (Hn : n = len (zeros p) + 4) by (rewrite <- (len_slice buf off n Hb), Es, !len_app, len_enc; reflexivity).
  subst n. apply slice_split in Es; [|exact Hb]. destruct Es as [_ Es]. rewrite len_zeros in Es. rewrite Es.
  rewrite dec_enc by exact Hk. exact Hk2.
Qed.

(* strings: length, valid UTF-8 without NUL, NUL terminator; object paths are valid; signatures are valid *)
Theorem accepted_string be d buf off n : accepted be d buf off n (TBase BString) ->
  exists s, n = padlen 4 off + (len s + 5)
            /\ slice buf (off + padlen 4 off) (len s + 5) = enc be 4 (len s) ++ s ++ [0]
            /\ utf8_valid s = true /\ has_nul s = false /\ len s < 2 ^ 32.
Proof.
  intros (v & Hw & He & Es & Hb). destruct (wt_base_inv _ _ Hw) as [(k & -> & Ht & _)|(s & -> & _)]; [discriminate Ht|].
  exists s. cbn [spec_enc encodable] in *. apply andb_prop in He. destruct He as [He Hl]. apply andb_prop in He. destruct He as [Hu Hn].
  apply N.ltb_lt in Hl. set (p := padlen 4 off) in *.
  assert (Ll : len (enc be 4 (len s) ++ s ++ [0]) = len s + 5) by (rewrite !len_app, len_enc; change (len [0]) with 1; change (N.of_nat 4) with 4; lia).
  assert (En : n = len (zeros p) + (len s + 5)) by (rewrite <- Ll, <- len_app, <- Es; symmetry; now apply len_slice).
  subst n. apply slice_split in Es; [|exact Hb]. destruct Es as [_ Es]. rewrite len_zeros in *.
  repeat split; try assumption. now destruct (has_nul s).
Qed.
Theorem accepted_path be d buf off n : accepted be d buf off n (TBase BObjectPath) ->
  exists s, n = padlen 4 off + (len s + 5)
            /\ slice buf (off + padlen 4 off) (len s + 5) = enc be 4 (len s) ++ s ++ [0]
            /\ utf8_valid s = true /\ valid_path s = true.
Proof.
  intros (v & Hw & He & Es & Hb). destruct (wt_base_inv _ _ Hw) as [(k & -> & Ht & _)|(s & -> & _)]; [discriminate Ht|].
  exists s. cbn [spec_enc encodable] in *. apply andb_prop in He. destruct He as [He Hl]. apply andb_prop in He. destruct He as [Hu Hp].
  set (p := padlen 4 off) in *.
  assert (Ll : len (enc be 4 (len s) ++ s ++ [0]) = len s + 5) by (rewrite !len_app, len_enc; change (len [0]) with 1; change (N.of_nat 4) with 4; lia).
  assert (En : n = len (zeros p) + (len s + 5)) by (rewrite <- Ll, <- len_app, <- Es; symmetry; now apply len_slice).
  subst n. apply slice_split in Es; [|exact Hb]. destruct Es as [_ Es]. rewrite len_zeros in *. auto.
Qed.
Theorem accepted_signature be d buf off n : accepted be d buf off n (TBase BSignature) ->
  exists s, n = len s + 2 /\ slice buf off n = sig_bytes s /\ validate_signature s = Ok tt.
Proof.
  intros (v & Hw & He & Es & Hb). destruct (wt_base_inv _ _ Hw) as [(k & -> & Ht & _)|(s & -> & _)]; [discriminate Ht|].
  exists s. cbn [spec_enc encodable] in *. split; [|split; [exact Es|now apply is_ok_validate_signature]].
  rewrite <- len_sig_bytes, <- Es. symmetry. now apply len_slice.
Qed.

(* arrays: the length field is at most 2^26, the elements lie inside the buffer, the nesting limit holds, and
   an array of fixed-width elements holds a whole number of them *)
Theorem accepted_array be d buf off n e : accepted be d buf off n (TArray e) ->
  let p1 := padlen 4 off in
  let p2 := padlen (align e) (off + p1 + 4) in
  exists m, slice buf (off + p1) 4 = enc be 4 m /\ m <= MAX_ARRAY /\ n = p1 + 4 + p2 + m /\ off + p1 + 4 + p2 + m <= len buf
            /\ d < MAX_DEPTH
            /\ (forall b, e = TBase b -> is_text b = false -> m mod base_align b = 0).
Proof.
  intros (v & Hw & He & Es & Hb) p1 p2. destruct v as [| |t vs| | |]; try discriminate Hw.
  pose proof (wt_array_ty _ _ _ Hw) as E. injection E as <-. pose proof (wt_array_inv _ _ _ Hw) as Hel.
  rewrite encodable_array in He. rewrite spec_enc_array in Es. cbv zeta in *. fold p1 in He, Es. fold p2 in He, Es.
  apply andb_prop in He. destruct He as [He _]. apply andb_prop in He. destruct He as [He Hmax].
  apply andb_prop in He. destruct He as [Hd _]. apply N.ltb_lt in Hd. apply N.leb_le in Hmax.
  set (body := spec_enc_list be (off + p1 + 4 + p2) vs) in *. exists (len body).
  assert (En : n = len (zeros p1) + (4 + p2 + len body)).
  { rewrite <- (len_slice buf off n Hb), Es, !len_app, len_enc, !len_zeros. change (N.of_nat 4) with 4. lia. }
  rewrite len_zeros in En. split.
  - subst n. rewrite <- (len_zeros p1) in Es at 1. apply slice_split in Es; [|rewrite len_zeros; lia]. destruct Es as [_ Es].
    rewrite len_zeros in Es.
    replace (4 + p2 + len body) with (len (enc be 4 (len body)) + (p2 + len body)) in Es by (rewrite len_enc; change (N.of_nat 4) with 4; lia).
    apply slice_split in Es; [|rewrite len_enc; change (N.of_nat 4) with 4; lia]. destruct Es as [Es _].
    rewrite len_enc in Es. exact Es.
  - repeat split; try assumption; try lia.
    intros b -> Ht. unfold body. rewrite (fixed_list_len be b vs Ht Hel); [rewrite N.mul_comm; apply N.mod_mul; pose proof (base_align_pos b); lia|].
    cbn [align] in p2. apply padlen_aligned, base_align_pos.
Qed.

(* no container deeper than 64 *)
Theorem accepted_depth be d buf off n t : accepted be d buf off n t ->
  match t with TBase _ => True | _ => d < MAX_DEPTH end.
Proof.
  intros (v & Hw & He & _). destruct t as [b|e|ts|k e|]; [exact I| | | |]; destruct v; try discriminate Hw.
  - rewrite encodable_array in He. cbv zeta in He. apply andb_prop in He. destruct He as [He _]. apply andb_prop in He. destruct He as [He _].
    apply andb_prop in He. destruct He as [He _]. now apply N.ltb_lt.
  - rewrite encodable_struct in He. apply andb_prop in He. destruct He as [He _]. apply andb_prop in He. destruct He as [He _]. now apply N.ltb_lt.
  - rewrite encodable_dict in He. cbv zeta in He. apply andb_prop in He. destruct He as [He _]. apply andb_prop in He. destruct He as [He _].
    apply andb_prop in He. destruct He as [He _]. now apply N.ltb_lt.
  - cbn [encodable] in He. apply andb_prop in He. destruct He as [He _]. apply andb_prop in He. destruct He as [He _]. now apply N.ltb_lt.
Qed.

(** ** 7. exact characterisations of the value decoders (soundness + completeness) *)
Theorem param_exact : forall be vf t buf off nf depth v c',
  wf t = true -> tys_ok t = true -> bytes_ok buf -> off <= len buf -> fuel_ok vf depth ->
  (unmarshal_p vf be t {| ubuf := buf; uoff := off; unfds := nf; udepth := depth |} = Ok (v, c') <->
   wt v t = true /\ encodable be off depth v = true /\ fds_below nf v = true
   /\ slice buf off (len (spec_enc be off v)) = spec_enc be off v /\ off + len (spec_enc be off v) <= len buf
   /\ c' = {| ubuf := buf; uoff := off + len (spec_enc be off v); unfds := nf; udepth := depth |}).
Proof.
  intros be vf t buf off nf depth v c' Hw Ht Hb Ho Hf. split.
  - intros H. apply unmarshal_p_sound in H; [|exact Hw|exact Ht|exact Hb|exact Ho]. destruct H as (Hv & Ec & Hle & Hfd).
    cbn [ubuf uoff unfds udepth] in *. pose proof (denotes_len _ _ _ _ _ _ _ Hv) as Hl. destruct Hv as (Hwt & He & Es & Hbd).
    rewrite Hl. repeat split; try assumption. rewrite Ec. unfold set_off. cbn [ubuf uoff unfds udepth]. f_equal. lia.
  - intros (Hwt & He & Hfd & Es & Hbd & ->).
    apply unmarshal_p_complete_gen; try assumption. now apply has_at_of_slice.
Qed.

Theorem typed_exact : forall be vf e buf off nf depth v c',
  wf (erase e) = true -> tys_ok (erase e) = true ->
  typed_depth_ok {| ubuf := buf; uoff := off; unfds := nf; udepth := depth |} e ->
  bytes_ok buf -> off <= len buf -> fuel_ok vf depth ->
  (unmarshal_t vf be e {| ubuf := buf; uoff := off; unfds := nf; udepth := depth |} = Ok (v, c') <->
   wt v (erase e) = true /\ ety_matches e v = true /\ encodable be off depth v = true /\ fds_below nf v = true
   /\ slice buf off (len (spec_enc be off v)) = spec_enc be off v /\ off + len (spec_enc be off v) <= len buf
   /\ c' = {| ubuf := buf; uoff := off + len (spec_enc be off v); unfds := nf; udepth := depth |}).
Proof.
  intros be vf e buf off nf depth v c' Hw Ht Hd Hb Ho Hf. split.
  - intros H. apply unmarshal_t_sound_at_depth in H; [|exact Hw|exact Ht|exact Hd|exact Hb|exact Ho].
    destruct H as (Hden & Ec & Hle & Hfd & Hm).
    cbn [ubuf uoff unfds udepth] in *. pose proof (denotes_len _ _ _ _ _ _ _ Hden) as Hl. destruct Hden as (Hwt & He & Es & Hbd).
    rewrite Hl. repeat split; try assumption. rewrite Ec. unfold set_off. cbn [ubuf uoff unfds udepth]. f_equal. lia.
  - intros (Hwt & Hm & He & Hfd & Es & Hbd & ->).
    apply (unmarshal_t_complete_gen be v e buf off nf depth depth vf Hwt Hm He (N.le_refl depth) Hfd); [|exact Hf].
    now apply has_at_of_slice.
Qed.
