(** Alignment padding: the formula the Rust code uses (util::pad_to_align, util::align_offset)
    and the specification's formula, with the lemmas that relate them. *)
From RB Require Import Base.Prelude.

(* specification: number of zero bytes needed at absolute position pos to reach a multiple of a *)
Definition padlen (a pos : N) : N := (a - pos mod a) mod a.

(* the code: let p = align_to - (len % align_to); if p == align_to { 0 } else { p } *)
Definition pad_amount (a l : N) : N :=
  let p := a - (l mod a) in if p =? a then 0 else p.

Lemma pad_amount_padlen a l : 0 < a -> pad_amount a l = padlen a l.
Proof.
  intros Ha. unfold pad_amount, padlen. pose proof (N.mod_lt l a ltac:(lia)) as Hm.
  remember (l mod a) as m. destruct (N.eqb_spec (a - m) a) as [E|E].
  - assert (m = 0) by lia. subst m. rewrite H, N.sub_0_r, N.mod_same by lia. reflexivity.
  - symmetry. apply N.mod_small. lia.
Qed.

Lemma padlen_lt a pos : 0 < a -> padlen a pos < a.
Proof. intros. unfold padlen. apply N.mod_lt. lia. Qed.

Lemma padlen_aligned a pos : 0 < a -> (pos + padlen a pos) mod a = 0.
Proof.
  intros Ha. unfold padlen. pose proof (N.div_mod pos a ltac:(lia)) as Hd.
  pose proof (N.mod_lt pos a ltac:(lia)) as Hm.
  remember (pos mod a) as m. remember (pos / a) as q.
  destruct (N.eq_dec m 0) as [->|Hne].
  - rewrite N.sub_0_r, N.mod_same by lia. rewrite N.add_0_r, Hd, N.add_0_r, N.mul_comm. apply N.mod_mul. lia.
  - rewrite (N.mod_small (a - m) a) by lia.
    replace (pos + (a - m)) with ((q + 1) * a) by nia. apply N.mod_mul. lia.
Qed.

Lemma padlen_0 a pos : 0 < a -> pos mod a = 0 -> padlen a pos = 0.
Proof. intros Ha H. unfold padlen. rewrite H, N.sub_0_r. apply N.mod_same. lia. Qed.

Lemma padlen_1 pos : padlen 1 pos = 0.
Proof. unfold padlen. apply N.mod_1_r. Qed.

(* after padding to a, no further padding to a divisor b of a is needed *)
Lemma mod_divides a b x : 0 < b -> (exists k, 0 < k /\ a = k * b) -> x mod a = 0 -> x mod b = 0.
Proof.
  intros Hb (k & Hk & ->) H.
  apply N.mod_divide in H; [|nia]. destruct H as [c ->]. rewrite N.mul_assoc. apply N.mod_mul. lia.
Qed.
