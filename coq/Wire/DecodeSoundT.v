(** C03, part 3: the typed decoder is sound. [e : ety] is the Rust type asked for. Whenever [unmarshal_t] returns
    [Ok (v, c')], the bytes consumed are the specification's encoding of [v], [v] has type [erase e] and the shape
    of [e] (variants hold exactly the asked-for content type), descriptor indices are in range and only the offset
    moved. The typed decoder does not count nesting itself (the Rust type bounds it): [v] is encodable at every
    depth [d] with [d + edepth e <= 64]. *)
From RB Require Import Base.Prelude Sig.Types Sig.Parser Sig.ParserProofs Sig.Validator Sig.ValidatorProofs
  Wire.Bytes Wire.Align Wire.Text Wire.Value Wire.SpecEnc Wire.Marshal Wire.MarshalProofs Wire.Decode Wire.Unmarshal.
From RB Require Import Wire.DecodeLemmas.
From RB Require Import Wire.DecodeComplete.
From RB Require Import Wire.DecodeSoundLemmas.
From RB Require Import Wire.DecodeSoundV.
From RB Require Import Wire.DecodeSoundP.

Lemma fds_lt_below nf v : fds_lt nf v = fds_below nf v.
Proof. reflexivity. Qed.

(** ** a region denotes at most one value of a type (from completeness of the dynamic decoder) *)
Lemma wt_fds_u32 : forall v t, wt v t = true -> fds_below (2 ^ 32) v = true.
Proof.
  induction v as [b k|b s|t vs IH|vs IH|kb vt kvs IH|t x IH] using val_ind'; intros T Hwt; cbn [fds_below]; try reflexivity.
  - destruct (wt_base_ty _ _ _ Hwt) as (_ & _ & Hk & _). destruct b; try reflexivity. apply N.ltb_lt. exact Hk.
  - apply forallb_forall. intros x Hin. pose proof (wt_array_inv _ _ _ Hwt) as Hel. rewrite Forall_forall in IH, Hel.
    eapply IH; eauto.
  - apply forallb_forall. intros x Hin. pose proof (wt_struct_inv _ _ Hwt) as Hel. rewrite Forall_forall in IH, Hel.
    destruct (Hel x Hin) as [tx Hx]. eapply IH; eauto.
  - apply forallb_forall. intros kv Hin. pose proof (wt_dict_inv _ _ _ _ Hwt) as Hel. rewrite Forall_forall in IH, Hel.
    destruct (Hel kv Hin) as [Ha Hb]. destruct (IH kv Hin) as [IHa IHb]. rewrite (IHa _ Ha), (IHb _ Hb). reflexivity.
  - eapply IH. eapply wt_variant_inv; eauto.
Qed.

Lemma denotes_has_at be d buf off n v t : denotes be d buf off n v t -> has_at buf off (spec_enc be off v).
Proof.
  intros Hd. pose proof (denotes_len _ _ _ _ _ _ _ Hd) as Hl. destruct Hd as (_ & _ & Es & Hb).
  apply has_at_of_slice; rewrite Hl; [exact Es|exact Hb].
Qed.

Lemma denotes_unique be d d' buf off n m v v' t :
  denotes be d buf off n v t -> denotes be d' buf off m v' t -> v = v' /\ n = m.
Proof.
  intros H1 H2.
  pose proof (denotes_has_at _ _ _ _ _ _ _ H1) as A1. pose proof (denotes_has_at _ _ _ _ _ _ _ H2) as A2.
  pose proof (denotes_len _ _ _ _ _ _ _ H1) as L1. pose proof (denotes_len _ _ _ _ _ _ _ H2) as L2.
  destruct H1 as (W1 & E1 & _ & _). destruct H2 as (W2 & E2 & _ & _).
  apply (encodable_mono be v off d 0 ltac:(lia)) in E1. apply (encodable_mono be v' off d' 0 ltac:(lia)) in E2.
  pose proof (unmarshal_p_complete_gen be v t buf off (2 ^ 32) 0 66%nat W1 E1 (wt_fds_u32 _ _ W1) A1 (fuel_ok_66 0)) as P1.
  pose proof (unmarshal_p_complete_gen be v' t buf off (2 ^ 32) 0 66%nat W2 E2 (wt_fds_u32 _ _ W2) A2 (fuel_ok_66 0)) as P2.
  rewrite P1 in P2. injection P2 as Ev Eo. split; [exact Ev|]. lia.
Qed.

(** ** explicit alignment before a value: the padding belongs to the value's encoding *)
Lemma denotes_pad be d buf off k v t :
  slice buf off (padlen (align t) off) = zeros (padlen (align t) off) ->
  denotes be d buf (off + padlen (align t) off) k v t ->
  denotes be d buf off (padlen (align t) off + k) v t.
Proof.
  intros Hz (Hw & He & Es & Hb). unfold denotes. split; [exact Hw|]. split; [now rewrite <- (encodable_align be v t off d Hw)|].
  split; [|lia]. rewrite (spec_enc_align be v t off Hw), slice_add, Hz, Es. reflexivity.
Qed.

(** ** the memcpy fast path *)
Lemma fixed_chain_len be d buf b : is_text b = false -> b <> BBoolean -> base_align b = N.of_nat (base_size b) ->
  bytes_ok buf -> forall cnt a, a mod base_align b = 0 -> a + N.of_nat cnt * base_align b <= len buf ->
  exists vs, length vs = cnt /\ Forall (fun x => exists k, x = VBase b k) vs
             /\ chain (fun p k x => denotes be d buf p k x (TBase b)) a (a + N.of_nat cnt * base_align b) vs.
Proof.
  intros Ht Hnb Hsz Hb. pose proof (base_align_pos b) as Hap.
  induction cnt as [|cnt IH]; intros a Ha Hl.
  - exists []. replace (a + N.of_nat 0 * base_align b) with a by lia. repeat split; constructor.
  - assert (Ha' : (a + base_align b) mod base_align b = 0).
    { apply N.mod_divide in Ha; [|lia]. destruct Ha as [q ->].
      replace (q * base_align b + base_align b) with ((q + 1) * base_align b) by lia. apply N.mod_mul. lia. }
    destruct (IH (a + base_align b) Ha' ltac:(lia)) as (vs & Hlen & Hall & Hvs).
    pose proof (denotes_fixed be d buf a b Ht Hb) as Hd. cbv zeta in Hd.
    rewrite (padlen_0 _ _ Hap Ha) in Hd. rewrite N.add_0_r in Hd. cbn [N.add] in Hd.
    eexists (_ :: vs). split; [cbn [length]; now rewrite Hlen|]. split; [constructor; [eexists; reflexivity|exact Hall]|].
    econstructor.
    + apply Hd; [reflexivity|lia|intros ->; now elim Hnb].
    + rewrite <- Hsz. replace (a + base_align b + N.of_nat cnt * base_align b) with (a + N.of_nat (S cnt) * base_align b) in Hvs by lia.
      exact Hvs.
Qed.

Lemma valid_slice_inv' be t : valid_slice be t = true ->
  exists b, t = TBase b /\ is_text b = false /\ b <> BUnixFd /\ b <> BBoolean /\ base_align b = N.of_nat (base_size b) /\ (be = false \/ b = BByte).
Proof.
  intros H. destruct (valid_slice_inv _ _ H) as (b & -> & H1 & H2 & H3 & H4). exists b. repeat split; try assumption.
  intros ->. discriminate H.
Qed.

Lemma erase_base x b : erase x = TBase b -> x = EBase b.
Proof. destruct x; cbn [erase]; try discriminate. intros H. now injection H as ->. Qed.

(** ** what an [Ok] result of the typed decoder means *)
Definition tdecoded0 (be : bool) (c : uctx) (v : val) (c' : uctx) (e : ety) : Prop :=
  (forall d, d + edepth e <= MAX_DEPTH -> denotes be d (ubuf c) (uoff c) (uoff c' - uoff c) v (erase e))
  /\ c' = set_off c (uoff c') /\ uoff c <= uoff c' /\ fds_lt (unfds c) v = true /\ ety_matches e v = true.
(* What the typed decoder counts: only Variant enters a container (enter_container in sub_context_for_value), so
   the context's depth is the number of variants the cursor is inside of; arrays, tuple structs and dicts of the
   Rust type are not counted. The content of a variant is validated at the context's depth + 1, so a value decoded
   through a Variant type is encodable at the context's depth outright; everything else is encodable at every
   depth that leaves room for the nesting of the Rust type. *)
Definition tdecoded (be : bool) (c : uctx) (v : val) (c' : uctx) (e : ety) : Prop :=
  tdecoded0 be c v c' e
  /\ (forall x, e = EVar x -> denotes be (udepth c) (ubuf c) (uoff c) (uoff c' - uoff c) v TVariant).

Lemma u_base_tsound be b c v c' : bytes_ok (ubuf c) -> u_base be b c = Ok (v, c') -> tdecoded be c v c' (EBase b).
Proof.
  intros Hb H. destruct (u_base_sound_d be b c v c' 0 Hb H) as ((Hw & _) & Ec & Hl & Hf).
  assert (Hv : ety_matches (EBase b) v = true).
  { destruct v; try discriminate Hw; cbn [wt ety_matches] in *.
    - apply andb_prop in Hw. destruct Hw as [Hw _]. apply andb_prop in Hw. destruct Hw as [Hw _]. now apply andb_prop in Hw.
    - now apply andb_prop in Hw. }
  split; [|intros x E; discriminate E]. split; [|auto]. intros d _. now destruct (u_base_sound_d be b c v c' d Hb H).
Qed.

(** ** the field loop of tuple structs *)
Lemma t_fields_chain (R : N -> N -> val * ety -> Prop) (one : ety -> uctx -> outcome (val * uctx)) (c0 : uctx) :
  forall es, (forall (first : bool) f c x, In f es -> c = set_off c0 (uoff c) -> uoff c <= len (ubuf c0) ->
      (do c1 <- (if first then Ok c else u_align (ealign f) c); one f c1) = Ok x ->
      snd x = set_off c0 (uoff (snd x)) /\ uoff c <= uoff (snd x) <= len (ubuf c0)
      /\ R (uoff c) (uoff (snd x) - uoff c) (fst x, f)) ->
  forall first c acc r, c = set_off c0 (uoff c) -> uoff c <= len (ubuf c0) -> t_fields one es first c acc = Ok r ->
    snd r = set_off c0 (uoff (snd r)) /\ uoff c <= uoff (snd r) <= len (ubuf c0)
    /\ exists xs, fst r = rev acc ++ map fst xs /\ map snd xs = es /\ chain R (uoff c) (uoff (snd r)) xs.
Proof.
  induction es as [|f es IH]; intros Hone first c acc r Ec Hc; cbn [t_fields].
  - intros H. injection H as <-. cbn [fst snd]. split; [exact Ec|]. split; [lia|].
    exists []. rewrite app_nil_r. repeat split. constructor.
  - intros H.
    assert (Hx : exists x, (do c1 <- (if first then Ok c else u_align (ealign f) c); one f c1) = Ok x
                           /\ t_fields one es false (snd x) (fst x :: acc) = Ok r).
    { destruct (if first then Ok c else u_align (ealign f) c) as [c1| | | |]; cbn [bind] in H |- *; try discriminate.
      destruct (one f c1) as [x| | | |]; cbn [bind] in H |- *; try discriminate. eauto. }
    destruct Hx as (x & E & H'). clear H.
    destruct (Hone first f c x (or_introl eq_refl) Ec Hc E) as (E1 & H1 & HR).
    destruct (IH (fun fi f' c' x' (Hin : In f' es) => Hone fi f' c' x' (or_intror Hin)) false (snd x) (fst x :: acc) r E1 ltac:(lia) H')
      as (E2 & H2 & xs & Ef & Em & Hxs).
    split; [exact E2|]. split; [lia|]. exists ((fst x, f) :: xs). cbn [map fst snd]. rewrite Em.
    split; [rewrite Ef; cbn [rev]; now rewrite <- app_assoc|]. split; [reflexivity|].
    econstructor; [exact HR|]. replace (uoff c + (uoff (snd x) - uoff c)) with (uoff (snd x)) by lia. exact Hxs.
Qed.

Lemma chain_map {X Y} (f : X -> Y) (R : N -> N -> X -> Prop) (R' : N -> N -> Y -> Prop) a b xs :
  (forall p k x, R p k x -> R' p k (f x)) -> chain R a b xs -> chain R' a b (map f xs).
Proof. intros H. induction 1; cbn [map]; econstructor; eauto. Qed.

Lemma ety_matches_struct (xs : list (val * ety)) :
  Forall (fun x => ety_matches (snd x) (fst x) = true) xs -> ety_matches (EStruct (map snd xs)) (VStruct (map fst xs)) = true.
Proof.
  cbn [ety_matches]. induction 1 as [|x xs Hx _ IH]; [reflexivity|]. cbn [map]. rewrite Hx. cbn [andb]. exact IH.
Qed.

Lemma edepth_struct_le es : 1 <= edepth (EStruct es). Proof. cbn [edepth]. lia. Qed.

(** ** the theorem *)
Theorem unmarshal_t_sound be : forall vf e c v c',
  wf (erase e) = true -> tys_ok (erase e) = true -> edepth e <= MAX_DEPTH ->
  bytes_ok (ubuf c) -> uoff c <= len (ubuf c) ->
  unmarshal_t vf be e c = Ok (v, c') -> tdecoded be c v c' e.
Proof.
  induction vf as [|vf IHvf]; [discriminate|].
  induction e as [b|x IHx|es IHes|kt ve IHv|x _] using ety_ind'; intros c v c' Hwf Hok Hed Hb Hc H.
  - rewrite unmarshal_t_base_eq in H. now apply u_base_tsound.
  - (* array *)
    cbn [erase wf tys_ok edepth] in Hwf, Hok, Hed. apply andb_prop in Hok. destruct Hok as [Hte Hoke].
    destruct (valid_slice be (erase x)) eqn:Evs.
    + (* memcpy fast path *)
      rewrite unmarshal_t_array_eq, Evs in H.
      destruct (valid_slice_inv' _ _ Evs) as (b & Eb & Ht & Hnfd & Hnb & Hsz & Hbe).
      destruct c as [buf off nf d0]. cbn [ubuf uoff unfds udepth] in *.
      destruct (u_read_fixed be 4 _) as [[n0 c1]| | | |] eqn:E1; cbn [bind fst snd] in H; try discriminate.
      destruct (u_read_fixed_ok be 4 _ _ _ (Nat.lt_0_succ 3) E1) as (-> & Hl1 & Hz1 & En).
      cbv zeta in *. change (N.of_nat 4) with 4 in *. unfold set_off in *; cbn [ubuf uoff unfds udepth] in *.
      destruct (check_array_len n0) as [n1| | | |] eqn:E2; cbn [bind] in H; try discriminate.
      destruct (check_array_len_ok _ _ E2) as [-> Hmax].
      unfold ealign in H. rewrite Eb in H. cbn [align] in H. set (CH := chunks b (base_size b)) in H.
      destruct (u_align (base_align b) _) as [c2| | | |] eqn:E3; cbn [bind] in H; try discriminate.
      destruct (u_align_ok _ _ _ (base_align_pos b) E3) as (-> & Hl2 & Hz2). unfold set_off in *; cbn [ubuf uoff unfds udepth] in *.
      set (p1 := padlen 4 off) in *. set (start := off + p1 + 4) in *. set (p2 := padlen (base_align b) start) in *.
      destruct (N.eqb_spec (n0 mod base_align b) 0) as [Hm|]; cbn [negb] in H; [|discriminate].
      unfold remainder_len in H. cbn [ubuf uoff] in H.
      destruct (N.ltb_spec (len buf - (start + p2)) n0) as [|Hn]; [discriminate|].
      injection H as <- <-. cbn [uoff]. subst CH.
      pose proof (base_align_pos b) as Hap. apply N.mod_divide in Hm; [|lia]. destruct Hm as [q Hq].
      assert (Enq : n0 = N.of_nat (N.to_nat q) * base_align b) by lia.
      assert (Hal : (start + p2) mod base_align b = 0) by (apply padlen_aligned; lia).
      assert (Henc : enc be 4 n0 = slice buf (off + p1) 4).
      { subst n0. destruct (enc_dec_slice be buf (off + p1) 4 Hb ltac:(change (N.of_nat 4) with 4; lia)) as [E _].
        change (N.of_nat 4) with 4 in E. exact E. }
      (* the elements, at any depth *)
      assert (Hvals : forall d, exists vs, length vs = N.to_nat q /\ Forall (fun y => exists k, y = VBase b k) vs
                 /\ chain (fun p k y => denotes be d buf p k y (TBase b)) (start + p2) (start + p2 + n0) vs).
      { intros d. rewrite Enq. apply fixed_chain_len; try assumption. lia. }
      (* they are the chunks *)
      assert (Hch : forall d vs, length vs = N.to_nat q -> chain (fun p k y => denotes be d buf p k y (TBase b)) (start + p2) (start + p2 + n0) vs ->
                 chunks b (base_size b) (S (N.to_nat n0)) (slice buf (start + p2) n0) = vs).
      { intros d vs Hlen Hc'. assert (Hle : start + p2 + n0 <= len buf) by lia.
        destruct (chain_values _ _ _ _ _ _ _ Hle Hc') as (Hw & _ & Es).
        replace (start + p2 + n0 - (start + p2)) with n0 in Es by lia. rewrite Es.
        apply chunks_ok; try assumption.
        - apply Forall_forall. intros y Hin. rewrite forallb_forall in Hw. now apply Hw.
        - nia. }
      destruct (Hvals 0) as (vs0 & Hlen0 & Hall0 & Hc0). rewrite (Hch 0 vs0 Hlen0 Hc0).
      unfold tdecoded, tdecoded0, set_off; cbn [ubuf uoff unfds udepth]. split; [|intros x0 E0; discriminate E0].
      split; [|split; [reflexivity|split; [subst start; lia|split]]].
      * intros d Hd. destruct (Hvals (d + 1)) as (vs & Hlen & Hall & Hc').
        assert (vs = vs0) by (rewrite <- (Hch _ vs Hlen Hc'); now apply (Hch 0)). subst vs.
        cbn [erase]. rewrite Eb. replace (start + p2 + n0 - off) with (p1 + 4 + p2 + n0) by (subst start; lia).
        apply denotes_array; try assumption; fold p1; fold start; cbn [align]; fold p2; try lia.
        -- cbn [edepth] in Hd. unfold MAX_DEPTH in *. lia.
        -- now rewrite <- Eb.
        -- now symmetry.
      * cbn [fds_lt]. apply forallb_forall. intros y Hin. rewrite Forall_forall in Hall0. destruct (Hall0 y Hin) as [k ->].
        destruct b; try reflexivity. now elim Hnfd.
      * cbn [ety_matches]. rewrite Eb, ty_eqb_refl. cbn [andb]. apply forallb_forall. intros y Hin.
        rewrite Forall_forall in Hall0. destruct (Hall0 y Hin) as [k ->]. rewrite (erase_base _ _ Eb). cbn [ety_matches].
        apply base_eqb_refl.
    + (* element loop *)
      rewrite (unmarshal_t_array_slow_eq _ _ _ _ Evs) in H.
      destruct c as [buf off nf d0]. cbn [ubuf uoff unfds udepth] in *.
      destruct (u_align 4 _) as [c0| | | |] eqn:Ea; cbn [bind] in H; try discriminate.
      destruct (u_align_ok 4 _ _ eq_refl Ea) as (-> & Hl0 & Hz0). unfold set_off in *; cbn [ubuf uoff unfds udepth] in *.
      destruct (u_header be (ealign x) _) as [[n [s c3]]| | | |] eqn:Eh; cbn [bind fst snd] in H; try discriminate.
      apply u_header_ok in Eh; [|apply align_pos|exact Hb]. destruct Eh as (Hmax & _ & En & Hz2 & Hl & Es & Ec3).
      cbv zeta in *. unfold set_off in *; cbn [ubuf uoff unfds udepth] in *.
      rewrite (padlen_after 4 off eq_refl) in *. rewrite N.add_0_r in *.
      set (p1 := padlen 4 off) in *. set (start := off + p1 + 4) in *. unfold ealign in *. set (p2 := padlen (align (erase x)) start) in *.
      destruct (sub_loop _ _ s []) as [vs| | | |] eqn:El; cbn [bind fst snd] in H; try discriminate.
      injection H as <- <-. set (cl := firstnN (start + p2 + n) buf) in *.
      assert (Lcl : len cl = start + p2 + n) by (apply len_firstnN_le; lia).
      assert (Hbcl : bytes_ok cl) by (now apply bytes_ok_firstnN).
      match type of El with sub_loop ?f _ _ _ = _ => set (one := f) in * end.
      assert (Hone : forall c r, c = set_off s (uoff c) -> uoff c <= len (ubuf s) -> one c = Ok r ->
                snd r = set_off s (uoff (snd r)) /\ uoff c <= uoff (snd r) <= len (ubuf s)
                /\ (fun p k y => (forall d, d + edepth x <= MAX_DEPTH -> denotes be d cl p k y (erase x))
                                 /\ fds_lt nf y = true /\ ety_matches x y = true) (uoff c) (uoff (snd r) - uoff c) (fst r)).
      { intros c r Ec Hcc Er. unfold one in Er. destruct c as [bufc offc nfc dc]. subst s. unfold set_off in *; cbn [ubuf uoff unfds udepth] in *.
        injection Ec as -> -> ->. fold cl in Er, Hcc |- *.
        destruct (u_align (align (erase x)) _) as [c1| | | |] eqn:Ea1; cbn [bind] in Er; try discriminate.
        destruct (u_align_ok _ _ _ (align_pos (erase x)) Ea1) as (-> & Hla & Hza). unfold set_off in *; cbn [ubuf uoff unfds udepth] in *.
        destruct r as [y cy]. apply IHx in Er; [|exact Hwf|exact Hoke|unfold MAX_DEPTH in *; lia|exact Hbcl|exact Hla].
        destruct Er as ((Hden & Ecy & Hly & Hfy & Hmy) & _). unfold set_off in *; cbn [ubuf uoff unfds udepth fst snd] in *.
        assert (Hend : uoff cy <= len cl) by (destruct (Hden 0 ltac:(unfold MAX_DEPTH in *; lia)) as (_ & _ & _ & Hx); lia).
        split; [exact Ecy|]. split; [lia|]. split; [|auto]. intros d Hd.
        replace (uoff cy - offc) with (padlen (align (erase x)) offc + (uoff cy - (offc + padlen (align (erase x)) offc))) by lia.
        apply denotes_pad; [exact Hza|]. now apply Hden. }
      destruct (sub_loop_chain _ _ s Hone (S (N.to_nat n)) s [] vs ltac:(subst s; reflexivity) ltac:(subst s; cbn [ubuf uoff]; lia) El)
        as (xs & Exs & Hxs). clear Hone.
      cbn [app rev] in Exs. subst xs. subst s c3. cbn [ubuf uoff] in Hxs. fold cl in Hxs. rewrite Lcl in Hxs. cbn [uoff].
      unfold tdecoded, tdecoded0, set_off; cbn [ubuf uoff unfds udepth]. split; [|intros x0 E0; discriminate E0].
      split; [|split; [reflexivity|split; [subst start; lia|split]]].
      * intros d Hd. cbn [edepth] in Hd. replace (start + p2 + n - off) with (p1 + 4 + p2 + n) by (subst start; lia).
        apply denotes_array; try assumption; fold p1; fold start; fold p2; try (unfold MAX_DEPTH in *; lia).
        eapply chain_impl; [|exact Hxs]. intros p k y [Hy _]. eapply denotes_clip. apply Hy. lia.
      * cbn [fds_lt]. apply forallb_forall. apply Forall_forall.
        eapply chain_forall; [|exact Hxs]. intros p k y (_ & Hy & _); exact Hy.
      * cbn [ety_matches]. rewrite ty_eqb_refl. cbn [andb]. apply forallb_forall. apply Forall_forall.
        eapply chain_forall; [|exact Hxs]. intros p k y (_ & _ & Hy); exact Hy.
  - (* struct *)
    rewrite unmarshal_t_struct_eq in H. cbn [erase wf tys_ok] in Hwf, Hok. apply andb_prop in Hwf. destruct Hwf as [Hne Hwf].
    destruct c as [buf off nf d0]. cbn [ubuf uoff unfds udepth] in *.
    destruct (u_align 8 _) as [c1| | | |] eqn:Ea; cbn [bind] in H; try discriminate.
    destruct (u_align_ok 8 _ _ eq_refl Ea) as (-> & Hl & Hz). unfold set_off in *; cbn [ubuf uoff unfds udepth] in *.
    set (p := padlen 8 off) in *. set (c1 := {| ubuf := buf; uoff := off + p; unfds := nf; udepth := d0 |}) in *.
    destruct (t_fields (unmarshal_t (S vf) be) es true c1 []) as [r| | | |] eqn:Ef; cbn [bind fst snd] in H; try discriminate.
    injection H as <- <-. rewrite forallb_forall in Hwf, Hok. rewrite Forall_forall in IHes.
    assert (Hone : forall (first : bool) f c y, In f es -> c = set_off c1 (uoff c) -> uoff c <= len (ubuf c1) ->
              (do c2 <- (if first then Ok c else u_align (ealign f) c); unmarshal_t (S vf) be f c2) = Ok y ->
              snd y = set_off c1 (uoff (snd y)) /\ uoff c <= uoff (snd y) <= len (ubuf c1)
              /\ (fun q k (z : val * ety) => (forall d, d + edepth (snd z) <= MAX_DEPTH -> denotes be d buf q k (fst z) (erase (snd z)))
                               /\ fds_lt nf (fst z) = true /\ ety_matches (snd z) (fst z) = true /\ In (snd z) es) (uoff c) (uoff (snd y) - uoff c) (fst y, f)).
    { intros first f c y Hin Ec Hcc Ey. destruct c as [bufc offc nfc dc]. subst c1. unfold set_off in *; cbn [ubuf uoff unfds udepth] in *.
      injection Ec as -> -> ->.
      assert (Hwf' : wf (erase f) = true) by (apply Hwf, in_map; exact Hin).
      assert (Hok' : tys_ok (erase f) = true) by (apply Hok, in_map; exact Hin).
      assert (Hed' : edepth f <= MAX_DEPTH) by (pose proof (edepth_in es f Hin); lia).
      destruct y as [y cy]. cbn [fst snd]. destruct first; cbn [bind] in Ey.
      - apply (IHes f Hin) in Ey; [|exact Hwf'|exact Hok'|exact Hed'|exact Hb|exact Hcc].
        destruct Ey as ((Hden & Ecy & Hly & Hfy & Hmy) & _). unfold set_off in *; cbn [ubuf uoff unfds udepth] in *.
        assert (Hend : uoff cy <= len buf) by (destruct (Hden 0 ltac:(lia)) as (_ & _ & _ & Hx); lia).
        split; [exact Ecy|]. split; [lia|]. auto.
      - destruct (u_align (ealign f) _) as [c2| | | |] eqn:Ea2; cbn [bind] in Ey; try discriminate.
        destruct (u_align_ok _ _ _ (align_pos (erase f)) Ea2) as (-> & Hla & Hza). unfold set_off in *; cbn [ubuf uoff unfds udepth] in *.
        apply (IHes f Hin) in Ey; [|exact Hwf'|exact Hok'|exact Hed'|exact Hb|exact Hla].
        destruct Ey as ((Hden & Ecy & Hly & Hfy & Hmy) & _). unfold set_off in *; cbn [ubuf uoff unfds udepth] in *.
        assert (Hend : uoff cy <= len buf) by (destruct (Hden 0 ltac:(lia)) as (_ & _ & _ & Hx); lia).
        split; [exact Ecy|]. split; [lia|]. split; [|auto]. intros d Hd.
        replace (uoff cy - offc) with (padlen (align (erase f)) offc + (uoff cy - (offc + padlen (align (erase f)) offc))) by lia.
        apply denotes_pad; [exact Hza|]. now apply Hden. }
    destruct (t_fields_chain _ _ c1 es Hone true c1 [] r eq_refl ltac:(cbn [ubuf uoff c1]; lia) Ef) as (Er & Hr & xs & Exs & Em & Hxs).
    clear Hone. cbn [app rev ubuf uoff c1] in *. rewrite Exs. rewrite Er. subst c1. subst es. unfold set_off; cbn [ubuf uoff unfds udepth].
    unfold tdecoded, tdecoded0, set_off; cbn [ubuf uoff unfds udepth]. split; [|intros x0 E0; discriminate E0].
    split; [|split; [reflexivity|split; [lia|split]]].
    + intros d Hd. replace (uoff (snd r) - off) with (p + (uoff (snd r) - (off + p))) by lia.
      cbn [erase]. rewrite map_map.
      replace (map (fun z => erase (snd z)) xs) with (map snd (map (fun z : val * ety => (fst z, erase (snd z))) xs))
        by (rewrite map_map; reflexivity).
      replace (map fst xs) with (map fst (map (fun z : val * ety => (fst z, erase (snd z))) xs)) by (rewrite map_map; reflexivity).
      apply denotes_struct; fold p.
      * pose proof (edepth_struct_le (map snd xs)). unfold MAX_DEPTH in *. lia.
      * intros E. apply map_eq_nil in E. subst xs. discriminate.
      * exact Hz.
      * lia.
      * replace (off + p + (uoff (snd r) - (off + p))) with (uoff (snd r)) by lia.
        eapply chain_map; [|exact Hxs]. intros q k z (Hz' & _ & _ & Hin). cbn [fst snd]. apply Hz'.
        pose proof (edepth_in _ (snd z) Hin). lia.
    + cbn [fds_lt]. apply forallb_forall. intros y Hin. apply in_map_iff in Hin. destruct Hin as (z & <- & Hin).
      assert (HF : Forall (fun z => fds_lt nf (fst z) = true) xs) by (eapply chain_forall; [|exact Hxs]; intros q k w (_ & Hw & _); exact Hw).
      rewrite Forall_forall in HF. now apply HF.
    + apply ety_matches_struct. eapply chain_forall; [|exact Hxs]. intros q k w (_ & _ & Hw & _); exact Hw.
  - (* dict *)
    rewrite unmarshal_t_dict_eq' in H. cbn [erase wf tys_ok edepth] in Hwf, Hok, Hed. apply andb_prop in Hok. destruct Hok as [Hte Hoke].
    destruct c as [buf off nf d0]. cbn [ubuf uoff unfds udepth] in *.
    destruct (u_align 4 _) as [c0| | | |] eqn:Ea; cbn [bind] in H; try discriminate.
    destruct (u_align_ok 4 _ _ eq_refl Ea) as (-> & Hl0 & Hz0). unfold set_off in *; cbn [ubuf uoff unfds udepth] in *.
    destruct (u_header be 8 _) as [[n [s c3]]| | | |] eqn:Eh; cbn [bind fst snd] in H; try discriminate.
    apply u_header_ok in Eh; [|reflexivity|exact Hb]. destruct Eh as (Hmax & _ & En & Hz2 & Hl & Es & Ec3).
    cbv zeta in *. unfold set_off in *; cbn [ubuf uoff unfds udepth] in *.
    rewrite (padlen_after 4 off eq_refl) in *. rewrite N.add_0_r in *.
    set (p1 := padlen 4 off) in *. set (start := off + p1 + 4) in *. set (p2 := padlen 8 start) in *.
    destruct (sub_loop _ _ s []) as [kvs| | | |] eqn:El; cbn [bind fst snd] in H; try discriminate.
    injection H as <- <-. set (cl := firstnN (start + p2 + n) buf) in *.
    assert (Lcl : len cl = start + p2 + n) by (apply len_firstnN_le; lia).
    assert (Hbcl : bytes_ok cl) by (now apply bytes_ok_firstnN).
    match type of El with sub_loop ?f _ _ _ = _ => set (one := f) in * end.
    assert (Hone : forall c r, c = set_off s (uoff c) -> uoff c <= len (ubuf s) -> one c = Ok r ->
              snd r = set_off s (uoff (snd r)) /\ uoff c <= uoff (snd r) <= len (ubuf s)
              /\ (fun p k kv => (forall d, d + edepth ve <= MAX_DEPTH -> denotes_entry be d cl kt (erase ve) p k kv)
                               /\ fds_lt nf (fst kv) && fds_lt nf (snd kv) = true /\ ety_matches ve (snd kv) = true)
                   (uoff c) (uoff (snd r) - uoff c) (fst r)).
    { intros c r Ec Hcc Er. unfold one in Er. destruct c as [bufc offc nfc dc]. subst s. unfold set_off in *; cbn [ubuf uoff unfds udepth] in *.
      injection Ec as -> -> ->. fold cl in Er, Hcc |- *.
      destruct (u_align 8 _) as [c1| | | |] eqn:Ea1; cbn [bind] in Er; try discriminate.
      destruct (u_align_ok 8 _ _ eq_refl Ea1) as (-> & Hla & Hza). unfold set_off in *; cbn [ubuf uoff unfds udepth] in *.
      destruct (u_base be kt _) as [[kv ck]| | | |] eqn:Ek; cbn [bind fst snd] in Er; try discriminate.
      pose proof (fun d => u_base_sound_d be kt (Build_uctx cl (offc + padlen 8 offc) nf d0) kv ck d Hbcl Ek) as Gk. cbn [ubuf uoff unfds udepth] in Gk.
      destruct (Gk 0) as ((_ & _ & _ & Hkend) & Eck & Hlk & Hfk). unfold set_off in *; cbn [ubuf uoff unfds udepth] in *.
      assert (Hck : uoff ck <= len cl) by lia.
      destruct (u_align (ealign ve) ck) as [c2| | | |] eqn:Ea2; cbn [bind] in Er; try discriminate.
      rewrite Eck in Ea2.
      destruct (u_align_ok _ _ _ (align_pos (erase ve)) Ea2) as (-> & Hla2 & Hza2). unfold set_off in *; cbn [ubuf uoff unfds udepth] in *.
      destruct (unmarshal_t (S vf) be ve _) as [[vv cv]| | | |] eqn:Ev; cbn [bind fst snd] in Er; try discriminate.
      injection Er as <-. cbn [fst snd].
      apply IHv in Ev; [|exact Hwf|exact Hoke|unfold MAX_DEPTH in *; lia|exact Hbcl|exact Hla2].
      destruct Ev as ((Hdv & Ecv & Hlv & Hfv & Hmv) & _). unfold set_off in *; cbn [ubuf uoff unfds udepth] in *.
      assert (Hend : uoff cv <= len cl) by (destruct (Hdv 0 ltac:(unfold MAX_DEPTH in *; lia)) as (_ & _ & _ & Hx); lia).
      split; [exact Ecv|]. split; [lia|]. split; [|split; [now rewrite Hfk, Hfv|exact Hmv]].
      intros d Hd.
      exists (uoff ck - (offc + padlen 8 offc)), (uoff cv - uoff ck). cbn [fst snd]. split; [lia|]. split; [exact Hza|].
      split; [destruct (Gk d) as (Hx & _); exact Hx|].
      replace (offc + padlen 8 offc + (uoff ck - (offc + padlen 8 offc))) with (uoff ck) by lia.
      replace (uoff cv - uoff ck) with (padlen (align (erase ve)) (uoff ck) + (uoff cv - (uoff ck + padlen (align (erase ve)) (uoff ck)))) by lia.
      apply denotes_pad; [exact Hza2|]. now apply Hdv. }
    destruct (sub_loop_chain _ _ s Hone (S (N.to_nat n)) s [] kvs ltac:(subst s; reflexivity) ltac:(subst s; cbn [ubuf uoff]; lia) El)
      as (xs & Exs & Hxs). clear Hone.
    cbn [app rev] in Exs. subst xs. subst s c3. cbn [ubuf uoff] in Hxs. fold cl in Hxs. rewrite Lcl in Hxs.
    unfold tdecoded, tdecoded0, set_off; cbn [ubuf uoff unfds udepth]. split; [|intros x0 E0; discriminate E0].
    split; [|split; [reflexivity|split; [subst start; lia|split]]].
    + intros d Hd. cbn [edepth] in Hd. cbn [erase]. replace (start + p2 + n - off) with (p1 + 4 + p2 + n) by (subst start; lia).
      apply denotes_dict; try assumption; fold p1; fold start; fold p2; try (unfold MAX_DEPTH in *; lia).
      eapply chain_impl; [|exact Hxs]. intros q k [a b] (Hen & _).
      destruct (Hen (d + 1) ltac:(lia)) as (k1 & k2 & Ek & Hz & Ha & Hbv).
      exists k1, k2. split; [exact Ek|]. split; [|split; eapply denotes_clip; eassumption].
      rewrite <- Hz. symmetry. apply slice_firstnN. destruct Ha as (_ & _ & _ & Hx). rewrite Lcl in Hx. lia.
    + cbn [fds_lt]. apply forallb_forall. apply Forall_forall.
      eapply chain_forall; [|exact Hxs]. intros q k y (_ & Hy & _); exact Hy.
    + cbn [ety_matches]. rewrite base_eqb_refl, ty_eqb_refl. cbn [andb]. apply forallb_forall. apply Forall_forall.
      eapply chain_forall; [|exact Hxs]. intros q k y (_ & _ & Hy); exact Hy.
  - (* variant with a typed get: enter, validate at the raised depth, sub-context carrying the raised depth, leave *)
    rewrite unmarshal_t_var_eq' in H. cbn [edepth] in Hed.
    destruct c as [buf off nf d0]. cbn [ubuf uoff unfds udepth] in *. unfold u_read_sig in H. cbn [ubuf uoff] in H.
    destruct (unmarshal_signature buf off) as [[k s]| | | |] eqn:Es; cbn [bind fst snd] in H; try discriminate.
    destruct (parse_description s) as [tys| | | |] eqn:Ep; try discriminate.
    destruct tys as [|t' [|]]; try discriminate.
    destruct (unmarshal_signature_ok _ _ _ _ Es) as (_ & Hlk & _). destruct (parse_single _ _ Ep) as [_ Htok].
    destruct (u_align (align t') _) as [c1| | | |] eqn:Ea; cbn [bind] in H; try discriminate.
    destruct (u_align_ok _ _ _ (align_pos t') Ea) as (-> & Hla & Hza). unfold set_off in *; cbn [ubuf uoff unfds udepth] in *.
    set (off1 := off + k + padlen (align t') (off + k)) in *.
    destruct (N.leb_spec MAX_DEPTH d0) as [|Hd0]; [discriminate|].
    destruct (validate 66 be (d0 + 1) off1 buf t') as [n| | | |] eqn:Ev; cbn [bind] in H; try discriminate.
    destruct (validate_sound be 66 t' (d0 + 1) off1 buf n (type_ok_wf _ Htok) (type_ok_tys_ok _ Htok) Hb Hla Ev) as [v' Hv'].
    assert (Hn : off1 + n <= len buf) by (destruct Hv' as (_ & _ & _ & Hx); exact Hx).
    unfold u_sub, remainder_len in H. cbn [ubuf uoff unfds udepth] in H.
    destruct (N.ltb_spec (len buf - off1) n) as [|_]; [lia|]. cbn [bind fst snd] in H. unfold set_off in H; cbn [ubuf uoff unfds udepth] in H.
    destruct (ty_eqb t' (erase x)) eqn:Ety; [|discriminate]. apply ty_eqb_eq in Ety. subst t'.
    set (cl := firstnN (off1 + n) buf) in *.
    destruct (unmarshal_t vf be x _) as [[y cy]| | | |] eqn:Ey; cbn [bind fst snd] in H; try discriminate.
    injection H as <- <-.
    assert (Lcl : len cl = off1 + n) by (apply len_firstnN_le; lia).
    apply IHvf in Ey; [|exact (type_ok_wf _ Htok)|exact (type_ok_tys_ok _ Htok)|unfold MAX_DEPTH in *; lia
                       |now apply bytes_ok_firstnN|cbn [ubuf uoff]; lia].
    destruct Ey as ((Hdy & Ecy & Hly & Hfy & Hmy) & _). cbn [ubuf uoff unfds udepth] in *.
    (* the typed decoder consumed exactly what validation measured, and returned the value validation saw *)
    assert (Hm : y = v' /\ uoff cy - off1 = n).
    { pose proof (denotes_clip _ _ _ _ _ _ _ _ (Hdy 0 ltac:(unfold MAX_DEPTH in *; lia))) as Hy0.
      exact (denotes_unique _ _ _ _ _ _ _ _ _ _ Hy0 Hv'). }
    destruct Hm as [Eyv Hm]. subst v'.
    unfold tdecoded, tdecoded0, u_leave, set_off; cbn [ubuf uoff unfds udepth].
    assert (Hvar : denotes be d0 buf off (off1 + n - off) (VVariant (erase x) y) TVariant).
    { replace (off1 + n - off) with (k + (padlen (align (erase x)) (off + k) + n)) by (subst off1; lia).
      eapply denotes_variant; try eassumption. apply denotes_pad; [exact Hza|]. exact Hv'. }
    split; [|intros x0 _; exact Hvar].
    split; [|split; [f_equal; lia|split; [subst off1; lia|split; [exact Hfy|]]]].
    + intros d Hd. cbn [edepth] in Hd. cbn [erase].
      replace (off1 + n - off) with (k + (padlen (align (erase x)) (off + k) + n)) by (subst off1; lia).
      eapply denotes_variant; try eassumption; [unfold MAX_DEPTH in *; lia|].
      apply denotes_pad; [exact Hza|]. fold off1. rewrite <- Hm. eapply denotes_clip. apply Hdy. lia.
    + cbn [ety_matches]. rewrite ty_eqb_refl. exact Hmy.
Qed.

(** ** the nesting hypothesis of the typed theorems
    The typed decoder counts variants only (see [tdecoded]). For a Variant type nothing has to be assumed about the
    context's depth: entering checks it and the content is validated one level deeper; the Rust type only has to
    fit in the protocol limit by itself (which makes the decoded content comparable with the validated one). For
    every other type the nesting of the Rust type has to fit on top of the context's depth, because its arrays,
    structs and dicts are not counted while decoding. *)
Definition typed_depth_ok (c : uctx) (e : ety) : Prop :=
  match e with
  | EVar _ => edepth e <= MAX_DEPTH
  | _ => udepth c + edepth e <= MAX_DEPTH
  end.
Lemma typed_depth_ok_sum c e : udepth c + edepth e <= MAX_DEPTH -> typed_depth_ok c e.
Proof. destruct e; cbn [typed_depth_ok]; intros; lia. Qed.
Lemma typed_depth_ok_edepth c e : typed_depth_ok c e -> edepth e <= MAX_DEPTH.
Proof. destruct e; cbn [typed_depth_ok]; intros; lia. Qed.

Theorem unmarshal_t_sound_at_depth be vf e c v c' :
  wf (erase e) = true -> tys_ok (erase e) = true -> typed_depth_ok c e ->
  bytes_ok (ubuf c) -> uoff c <= len (ubuf c) ->
  unmarshal_t vf be e c = Ok (v, c') ->
  denotes be (udepth c) (ubuf c) (uoff c) (uoff c' - uoff c) v (erase e)
  /\ c' = set_off c (uoff c') /\ uoff c <= uoff c' /\ fds_lt (unfds c) v = true /\ ety_matches e v = true.
Proof.
  intros Hw Ht Hd Hb Ho H.
  destruct (unmarshal_t_sound be vf e c v c' Hw Ht (typed_depth_ok_edepth c e Hd) Hb Ho H) as ((Hden & Hrest) & Hvar).
  split; [|exact Hrest]. destruct e as [b|x|es|k x|x]; try (apply Hden; exact Hd). exact (Hvar x eq_refl).
Qed.
