(** C18, receive path: the sizes a header announces are checked against the protocol's limits before
    IncomingBuffer::reserve is called, so the receive buffer never exceeds 128 MiB - whatever the peer sends.
    Model: Conn/Recv.v (builder-recv): needed_of / bytes_needed = RecvConn::bytes_needed_for_current_message,
    reserve, refill_buffer, read_whole_message, read_once, get_next_message, run (any schedule of peer writes and
    client calls, any kernel choice per recvmsg). Specification: [announced] in Wire/Limits.v. *)
From RB Require Import Base.Prelude Wire.Align Wire.SpecEnc Wire.Limits Conn.Recv Conn.RecvLists Conn.RecvProofs.

Lemma MAX_ARRAY_LEN_eq : MAX_ARRAY_LEN = MAX_ARRAY. Proof. reflexivity. Qed.
Lemma MAX_MESSAGE_LEN_eq : MAX_MESSAGE_LEN = MAX_MESSAGE. Proof. reflexivity. Qed.
Lemma MAX_MESSAGE_val : MAX_MESSAGE = 134217728. Proof. reflexivity. Qed.

(* the padding formula written out in bytes_needed_for_current_message is the specification's *)
Lemma pad8_padlen n : pad8 n = padlen 8 n.
Proof. unfold pad8. change (let p := 8 - n mod 8 in if p =? 8 then 0 else p) with (pad_amount 8 n). apply pad_amount_padlen. lia. Qed.

(** ** what bytes_needed_for_current_message answers, in terms of the announced sizes *)
Theorem needed_of_spec p h hfl :
  unmarshal_header p = ROk h -> parse_u32 (skipnN HEADER_LEN p) (h_bo h) = ROk hfl ->
  if (MAX_ARRAY <? hfl) || (MAX_MESSAGE <? announced hfl (h_body_len h))
  then exists e, needed_of p = RErr e
  else needed_of p = ROk (announced hfl (h_body_len h)).
Proof.
  intros Hh Hf. unfold needed_of. rewrite Hh, Hf. unfold check_array_len. rewrite MAX_ARRAY_LEN_eq, MAX_MESSAGE_LEN_eq.
  destruct (MAX_ARRAY <? hfl); cbn [orb]; [eauto|].
  rewrite pad8_padlen. unfold announced, HEADER_LEN.
  replace (12 + hfl + 4) with (12 + 4 + hfl) by lia. cbv zeta.
  destruct (MAX_MESSAGE <? _); [eauto|reflexivity].
Qed.

(* an accepted announcement is within the limits, and it is exactly the size the specification computes *)
Theorem needed_of_ok p n : needed_of p = ROk n ->
  exists h hfl, unmarshal_header p = ROk h /\ parse_u32 (skipnN HEADER_LEN p) (h_bo h) = ROk hfl
    /\ hfl <= MAX_ARRAY /\ n = announced hfl (h_body_len h) /\ n <= MAX_MESSAGE.
Proof.
  intros H. pose proof H as H0. unfold needed_of in H0.
  destruct (unmarshal_header p) as [h|e] eqn:Hh; [|discriminate].
  destruct (parse_u32 (skipnN HEADER_LEN p) (h_bo h)) as [hfl|e] eqn:Hf; [|discriminate]. clear H0.
  pose proof (needed_of_spec p h hfl Hh Hf) as S.
  exists h, hfl. split; [reflexivity|]. split; [exact Hf|].
  destruct ((MAX_ARRAY <? hfl) || (MAX_MESSAGE <? announced hfl (h_body_len h))) eqn:Ec.
  - destruct S as [e S]. rewrite S in H. discriminate.
  - rewrite S in H. injection H as <-. apply Bool.orb_false_elim in Ec. destruct Ec as [E1 E2].
    apply N.ltb_ge in E1, E2. auto.
Qed.

Corollary bytes_needed_le st n : bytes_needed st = ROk n -> n <= MAX_MESSAGE.
Proof.
  unfold bytes_needed. destruct (filled st <? 16).
  - intros E. injection E as <-. rewrite MAX_MESSAGE_val. lia.
  - intros E. apply needed_of_ok in E. destruct E as (h & hfl & _ & _ & _ & _ & E). exact E.
Qed.

(** ** a refused announcement: nothing is reserved or read; the state is what it was *)
Lemma whole_err_of_needed st e : bytes_needed st = RErr e ->
  buffer_contains_whole_message st = ROk false \/ exists e', buffer_contains_whole_message st = RErr e'.
Proof.
  intros H. unfold buffer_contains_whole_message. destruct (filled st <? 16); [now left|]. rewrite H.
  destruct e; eauto.
Qed.

Theorem read_whole_message_refused st e : bytes_needed st = RErr e ->
  forall cs q, exists e' q' cs', read_whole_message cs st q = (RErr e', st, q', cs').
Proof.
  intros H. induction cs as [|c cs IH]; intros q; cbn [read_whole_message];
    destruct (whole_err_of_needed st e H) as [-> | [e' ->]]; eauto.
  destruct c; try (rewrite H; eauto). apply IH.
Qed.
Theorem read_once_refused st e : bytes_needed st = RErr e ->
  forall cs q, exists e' q' cs', read_once cs st q = (RErr e', st, q', cs').
Proof.
  intros H. induction cs as [|c cs IH]; intros q; cbn [read_once];
    destruct (whole_err_of_needed st e H) as [-> | [e' ->]]; eauto.
  destruct c; try (rewrite H; eauto). apply IH.
Qed.

(** ** the receive buffer never exceeds the largest message *)
Definition buf_inv (st : rstate) : Prop := filled st <= len (buf st) /\ len (buf st) <= MAX_MESSAGE.

Lemma buf_inv0 : buf_inv rstate0.
Proof. unfold buf_inv, rstate0. cbn. lia. Qed.

Lemma refill_buffer_inv st q n c r st' q' :
  buf_inv st -> segs_ok q -> n <= MAX_MESSAGE -> refill_buffer st q n c = (r, st', q') ->
  buf_inv st' /\ segs_ok q' /\ len (buf st') = N.max (len (buf st)) n.
Proof.
  intros [Hf Hl] Hq Hn. unfold refill_buffer.
  set (b := reserve (buf st) n). assert (Lb : len b = N.max (len (buf st)) n) by apply len_reserve.
  assert (I1 : buf_inv {| buf := b; filled := filled st; fds_in := fds_in st |}) by (unfold buf_inv; cbn [buf filled]; lia).
  destruct c as [k| | |]; try (intros E; injection E as <- <- <-; cbn [buf]; auto).
  destruct (kavail q =? 0) eqn:Ea; [intros E; injection E as <- <- <-; cbn [buf]; auto|].
  destruct (len b - filled st =? 0) eqn:Er.
  { destruct (krecv0 q) as [f q0] eqn:E0. intros E. injection E as <- <- <-. cbn [buf]. split; [exact I1|]. split; [|exact Lb].
    unfold krecv0 in E0. destruct q as [|[bs fds] q1]; injection E0 as <- <-; [constructor|].
    inversion Hq as [|? ? Hne Hq1]; subst. constructor; assumption. }
  set (k' := N.max 1 (N.min k (N.min (len b - filled st) (kavail q)))).
  destruct (krecv q k') as [[data rights] q1] eqn:Ek.
  apply N.eqb_neq in Ea, Er.
  assert (Hk' : k' <= kavail q) by (unfold k'; lia).
  destruct (krecv_spec q Hq k' data rights q1 Hk' Ek) as (Hd & _ & _ & Hq1).
  assert (Ld : len data = k').
  { rewrite Hd, len_bytes_of, len_firstnN, <- kavail_flat. lia. }
  destruct (len data =? 0); intros E; injection E as <- <- <-; cbn [buf filled]; (split; [|split; [exact Hq1|]]).
  - exact I1.
  - exact Lb.
  - assert (filled st + len data <= len b) by (rewrite Ld; unfold k'; lia).
    unfold buf_inv. cbn [buf filled]. rewrite len_buf_write by assumption. lia.
  - assert (filled st + len data <= len b) by (rewrite Ld; unfold k'; lia).
    rewrite len_buf_write by assumption. exact Lb.
Qed.

Lemma read_whole_message_inv : forall cs st q r st' q' cs',
  buf_inv st -> segs_ok q -> read_whole_message cs st q = (r, st', q', cs') -> buf_inv st' /\ segs_ok q'.
Proof.
  induction cs as [|c cs IH]; intros st q r st' q' cs' Hi Hq; cbn [read_whole_message];
    destruct (buffer_contains_whole_message st) as [[|]|e].
  all: try (intros E; injection E as <- <- <- <-; now auto).
  assert (Hrefill : forall c0 n, bytes_needed st = ROk n ->
            match refill_buffer st q n c0 with
            | (ROk _, st1, q1) => read_whole_message cs st1 q1
            | (RErr e, st1, q1) => (RErr e, st1, q1, cs)
            end = (r, st', q', cs') -> buf_inv st' /\ segs_ok q').
  { intros c0 n En. apply bytes_needed_le in En.
    destruct (refill_buffer st q n c0) as [[[u|e] st1] q1] eqn:Er;
      destruct (refill_buffer_inv _ _ _ _ _ _ _ Hi Hq En Er) as (I1 & Q1 & _).
    - apply IH; assumption.
    - intros E. injection E as <- <- <- <-. auto. }
  destruct c as [k| | |bs fds].
  - destruct (bytes_needed st) as [n|e] eqn:En; [now apply Hrefill|intros E; injection E as <- <- <- <-; auto].
  - destruct (bytes_needed st) as [n|e] eqn:En; [now apply Hrefill|intros E; injection E as <- <- <- <-; auto].
  - destruct (bytes_needed st) as [n|e] eqn:En; intros E; injection E as <- <- <- <-; auto.
  - apply IH; [exact Hi|now apply segs_ok_kwrite].
Qed.

Lemma read_once_inv : forall cs st q r st' q' cs',
  buf_inv st -> segs_ok q -> read_once cs st q = (r, st', q', cs') -> buf_inv st' /\ segs_ok q'.
Proof.
  induction cs as [|c cs IH]; intros st q r st' q' cs' Hi Hq; cbn [read_once];
    destruct (buffer_contains_whole_message st) as [[|]|e].
  all: try (intros E; injection E as <- <- <- <-; now auto).
  assert (Hrefill : forall c0 n, bytes_needed st = ROk n ->
            (let '(r0, st1, q1) := refill_buffer st q n c0 in (r0, st1, q1, cs)) = (r, st', q', cs') -> buf_inv st' /\ segs_ok q').
  { intros c0 n En. apply bytes_needed_le in En.
    destruct (refill_buffer st q n c0) as [[u st1] q1] eqn:Er;
      destruct (refill_buffer_inv _ _ _ _ _ _ _ Hi Hq En Er) as (I1 & Q1 & _).
    intros E. injection E as <- <- <- <-. auto. }
  destruct c as [k| | |bs fds].
  - destruct (bytes_needed st) as [n|e] eqn:En; [now apply Hrefill|intros E; injection E as <- <- <- <-; auto].
  - destruct (bytes_needed st) as [n|e] eqn:En; [now apply Hrefill|intros E; injection E as <- <- <- <-; auto].
  - destruct (bytes_needed st) as [n|e] eqn:En; [now apply Hrefill|intros E; injection E as <- <- <- <-; auto].
  - apply IH; [exact Hi|now apply segs_ok_kwrite].
Qed.

Lemma arrivals_segs_ok cs : forall q, segs_ok q -> segs_ok (arrivals q cs).
Proof.
  induction cs as [|c cs IH]; intros q Hq; cbn [arrivals]; [exact Hq|].
  destruct c; try (now apply IH). apply IH. now apply segs_ok_kwrite.
Qed.

Section Run.
  Variable D : Type.
  Variable decode_fields : header -> list N -> option D.

  Lemma get_next_message_inv cs st q r st' q' cs' :
    buf_inv st -> segs_ok q -> get_next_message D decode_fields cs st q = (r, st', q', cs') -> buf_inv st' /\ segs_ok q'.
  Proof.
    intros Hi Hq. unfold get_next_message.
    destruct (read_whole_message cs st q) as [[[[u|e] st1] q1] cs1] eqn:Er;
      destruct (read_whole_message_inv _ _ _ _ _ _ _ Hi Hq Er) as [I1 Q1].
    - destruct (finish D decode_fields (peek st1) (fds_in st1)) as [r0 [|]]; intros E; injection E as <- <- <- <-;
        split; try exact Q1; [exact buf_inv0|exact I1].
    - intros E. injection E as <- <- <- <-. auto.
  Qed.

  Lemma step_inv e st q st' q' os : buf_inv st -> segs_ok q -> step D decode_fields e st q = (st', q', os) ->
    buf_inv st' /\ segs_ok q'.
  Proof.
    intros Hi Hq. destruct e as [bs fds|t cs|t cs]; cbn [step].
    - intros E. injection E as <- <- <-. split; [exact Hi|now apply segs_ok_kwrite].
    - destruct (get_next_message D decode_fields cs st q) as [[[r st1] q1] cs1] eqn:Eg.
      destruct (get_next_message_inv _ _ _ _ _ _ _ Hi Hq Eg) as [I1 Q1].
      intros E. injection E as <- <- <-. split; [exact I1|now apply arrivals_segs_ok].
    - destruct (read_once cs st q) as [[[r st1] q1] cs1] eqn:Eg.
      destruct (read_once_inv _ _ _ _ _ _ _ Hi Hq Eg) as [I1 Q1].
      intros E. injection E as <- <- <-. split; [exact I1|now apply arrivals_segs_ok].
  Qed.

  Lemma run_from_inv : forall sched st q st' q' os, buf_inv st -> segs_ok q ->
    run_from D decode_fields sched st q = (st', q', os) -> buf_inv st'.
  Proof.
    induction sched as [|e sched IH]; intros st q st' q' os Hi Hq; cbn [run_from].
    - intros E. injection E as <- <- <-. exact Hi.
    - destruct (step D decode_fields e st q) as [[st1 q1] o1] eqn:Es.
      destruct (step_inv _ _ _ _ _ _ Hi Hq Es) as [I1 Q1].
      destruct (run_from D decode_fields sched st1 q1) as [[st2 q2] o2] eqn:Er.
      intros E. injection E as <- <- <-. eapply IH; eassumption.
  Qed.

  (* whatever the peer writes (any bytes, any chunking), whatever calls the client makes and whatever the kernel
     delivers per recvmsg: after any number of events the receive buffer holds at most 2^27 bytes *)
  Theorem recv_buffer_bounded sched st q os : run D decode_fields sched = (st, q, os) ->
    filled st <= len (buf st) /\ len (buf st) <= MAX_MESSAGE.
  Proof. intros H. exact (run_from_inv sched rstate0 [] st q os buf_inv0 (Forall_nil _) H). Qed.
End Run.

(* one refill: the buffer grows to exactly max(current, bytes_needed) - the only place where it grows *)
Theorem refill_reserves_announced st q n c r st' q' :
  filled st <= len (buf st) -> len (buf st) <= MAX_MESSAGE -> segs_ok q -> bytes_needed st = ROk n ->
  refill_buffer st q n c = (r, st', q') -> len (buf st') = N.max (len (buf st)) n /\ n <= MAX_MESSAGE.
Proof.
  intros Hf Hl Hq Hn E. pose proof (bytes_needed_le _ _ Hn) as Hle.
  destruct (refill_buffer_inv st q n c r st' q' (conj Hf Hl) Hq Hle E) as (_ & _ & L). auto.
Qed.

Theorem recv_refused : forall st e, bytes_needed st = RErr e -> forall cs q,
  (exists e' q' cs', read_whole_message cs st q = (RErr e', st, q', cs'))
  /\ (exists e' q' cs', read_once cs st q = (RErr e', st, q', cs')).
Proof. intros st e H cs q. split; [now apply (read_whole_message_refused st e)|now apply (read_once_refused st e)]. Qed.
