(** C04, step counting for the typed decoder: [unmarshal_ts] (Wire/StepsTyped.v) projects to [unmarshal_t] and makes at
    most [tweight e] steps per byte left in the buffer, plus [tweight e], on EVERY input; a run that returns a value at
    most [tweight e] steps per byte consumed. *)
From RB Require Import Base.Prelude Sig.Types Sig.Parser Sig.ParserProofs Sig.Validator Sig.ValidatorProofs
  Wire.Bytes Wire.Align Wire.Text Wire.Value Wire.SpecEnc Wire.Marshal Wire.MarshalProofs Wire.Decode Wire.Unmarshal.
From RB Require Import Wire.DecodeSoundLemmas Wire.DecodeTotal Wire.Steps Wire.StepsProofs Wire.StepsParam Wire.StepsParamProofs
  Wire.StepsTyped.

(** ** one equation per type constructor *)
Section TFieldLoopS.
  Variable one : ety -> uctx -> counted (val * uctx).
  Fixpoint t_fields_s (l : list ety) (first : bool) (c : uctx) (acc : list val) : counted (list val * uctx) :=
    match l with
    | [] => lift (Ok (rev acc, c))
    | f :: r =>
        tick (
        dos c <- lift (if first then Ok c else u_align (ealign f) c);
        dos x <- one f c; t_fields_s r false (snd x) (fst x :: acc))
    end.
End TFieldLoopS.

Lemma unmarshal_ts_base_eq vf be b c : unmarshal_ts (S vf) be (EBase b) c = tick (lift (u_base be b c)).
Proof. reflexivity. Qed.
Lemma unmarshal_ts_array_eq vf be x c : unmarshal_ts (S vf) be (EArray x) c =
  tick (
  if valid_slice be (erase x) then
    dos r <- lift (u_read_fixed be 4 c);
    dos n <- lift (check_array_len (fst r));
    dos c1 <- lift (u_align (ealign x) (snd r));
    if negb (n mod ealign x =? 0) then lift Err else
    if remainder_len c1 <? n then lift Err else
    match erase x with
    | TBase b => lift (Ok (VArray (erase x) (chunks b (base_size b) (S (N.to_nat n)) (slice (ubuf c1) (uoff c1) n)),
                           set_off c1 (uoff c1 + n)))
    | _ => lift Err
    end
  else
    dos c0 <- lift (u_align 4 c);
    dos r <- lift (u_read_fixed be 4 c0);
    dos n <- lift (check_array_len (fst r));
    dos c1 <- lift (u_align (ealign x) (snd r));
    dos s <- lift (u_sub n c1);
    dos vs <- sub_loop_s (fun c => dos c <- lift (u_align (ealign x) c); unmarshal_ts (S vf) be x c) (S (N.to_nat n)) (fst s) [];
    lift (Ok (VArray (erase x) vs, snd s))).
Proof. reflexivity. Qed.
Lemma unmarshal_ts_dict_eq vf be k v c : unmarshal_ts (S vf) be (EDict k v) c =
  tick (
  dos c0 <- lift (u_align 4 c);
  dos r <- lift (u_read_fixed be 4 c0);
  dos n <- lift (check_array_len (fst r));
  dos c1 <- lift (u_align 8 (snd r));
  dos s <- lift (u_sub n c1);
  dos kvs <- sub_loop_s (fun c => dos c <- lift (u_align 8 c);
                               dos kr <- tick (lift (u_base be k c));
                               dos c2 <- lift (u_align (ealign v) (snd kr));
                               dos vr <- unmarshal_ts (S vf) be v c2;
                               lift (Ok ((fst kr, fst vr), snd vr)))
                     (S (N.to_nat n)) (fst s) [];
  lift (Ok (VDict k (erase v) kvs, snd s))).
Proof. reflexivity. Qed.
Lemma unmarshal_ts_struct_eq vf be es c : unmarshal_ts (S vf) be (EStruct es) c =
  tick (
  dos c <- lift (u_align 8 c);
  dos r <- t_fields_s (unmarshal_ts (S vf) be) es true c [];
  lift (Ok (VStruct (fst r), snd r))).
Proof. reflexivity. Qed.
Lemma unmarshal_ts_var_eq vf be x c : unmarshal_ts (S vf) be (EVar x) c =
  tick (
  dos r <- lift (u_read_sig c);
  match parse_description (fst r) with
  | Ok [t'] =>
      dos c1 <- lift (u_align (align t') (snd r));
      dos c2 <- lift (u_enter c1);
      dos n <- validate_s 66 be (udepth c2) (uoff c2) (ubuf c2) t';
      dos s <- lift (u_sub n c2);
      if ty_eqb t' (erase x) then
        dos v <- unmarshal_ts vf be x (fst s);
        lift (Ok (VVariant t' (fst v), u_leave (snd s)))
      else lift Err
  | _ => lift Err
  end).
Proof. reflexivity. Qed.

(** ** projection *)
Lemma t_fields_s_proj one_s one : forall es, (forall f c, In f es -> fst (one_s f c) = one f c) ->
  forall first c acc, fst (t_fields_s one_s es first c acc) = t_fields one es first c acc.
Proof.
  induction es as [|f r IH]; intros H first c acc; cbn [t_fields_s t_fields]; [reflexivity|].
  rewrite fst_tick, fst_bind_s, fst_lift. apply bind_ext. intros c0 _.
  rewrite fst_bind_s, (H f _ (or_introl eq_refl)). apply bind_ext. intros x _. apply IH.
  intros f' c' Hin. apply H. now right.
Qed.

Theorem unmarshal_ts_proj be : forall vf e c, fst (unmarshal_ts vf be e c) = unmarshal_t vf be e c.
Proof.
  induction vf as [|vf IHvf]; [reflexivity|].
  induction e as [b|x IHx|es IHes|kt v IHv|x _] using ety_ind'; intros c.
  - reflexivity.
  - rewrite unmarshal_ts_array_eq, unmarshal_t_array_eq, fst_tick. destruct (valid_slice be (erase x)).
    + rewrite fst_bind_s, fst_lift. apply bind_ext. intros r _.
      rewrite fst_bind_s, fst_lift. apply bind_ext. intros n _.
      rewrite fst_bind_s, fst_lift. apply bind_ext. intros c1 _.
      destruct (negb _); [reflexivity|]. destruct (_ <? n); [reflexivity|]. destruct (erase x); reflexivity.
    + rewrite fst_bind_s, fst_lift. apply bind_ext. intros c0 _.
      rewrite fst_bind_s, fst_lift. apply bind_ext. intros r _.
      rewrite fst_bind_s, fst_lift. apply bind_ext. intros n _.
      rewrite fst_bind_s, fst_lift. apply bind_ext. intros c1 _.
      rewrite fst_bind_s, fst_lift. apply bind_ext. intros s _.
      rewrite fst_bind_s. erewrite sub_loop_s_proj; [reflexivity|].
      intros c'. cbv beta. rewrite fst_bind_s, fst_lift. apply bind_ext. intros c2 _. apply IHx.
  - rewrite unmarshal_ts_struct_eq, unmarshal_t_struct_eq, fst_tick.
    rewrite fst_bind_s, fst_lift. apply bind_ext. intros c0 _.
    rewrite fst_bind_s. rewrite (t_fields_s_proj _ (unmarshal_t (S vf) be)); [reflexivity|].
    rewrite Forall_forall in IHes. intros f c' Hin. now apply IHes.
  - rewrite unmarshal_ts_dict_eq, unmarshal_t_dict_eq, fst_tick.
    rewrite fst_bind_s, fst_lift. apply bind_ext. intros c0 _.
    rewrite fst_bind_s, fst_lift. apply bind_ext. intros r _.
    rewrite fst_bind_s, fst_lift. apply bind_ext. intros n _.
    rewrite fst_bind_s, fst_lift. apply bind_ext. intros c1 _.
    rewrite fst_bind_s, fst_lift. apply bind_ext. intros s _.
    rewrite fst_bind_s. erewrite sub_loop_s_proj; [reflexivity|].
    intros c'. cbv beta. rewrite fst_bind_s, fst_lift. apply bind_ext. intros c2 _.
    rewrite fst_bind_s, fst_tick, fst_lift. apply bind_ext. intros kr _.
    rewrite fst_bind_s, fst_lift. apply bind_ext. intros c3 _.
    rewrite fst_bind_s, IHv. reflexivity.
  - rewrite unmarshal_ts_var_eq, unmarshal_t_var_eq, fst_tick.
    rewrite fst_bind_s, fst_lift. apply bind_ext. intros r _.
    destruct (parse_description (fst r)) as [[|t' [|]]| | | |]; try reflexivity.
    rewrite fst_bind_s, fst_lift. apply bind_ext. intros c1 _.
    rewrite fst_bind_s, fst_lift. apply bind_ext. intros c2 _.
    rewrite fst_bind_s, validate_s_proj. apply bind_ext. intros n _.
    rewrite fst_bind_s, fst_lift. apply bind_ext. intros s _.
    destruct (ty_eqb t' (erase x)); [|reflexivity].
    rewrite fst_bind_s, IHvf. reflexivity.
Qed.

(** ** the bound *)
Lemma unmarshal_ts_array_fast_eq vf be x c : valid_slice be (erase x) = true ->
  unmarshal_ts (S vf) be (EArray x) c = tick (lift (unmarshal_t (S vf) be (EArray x) c)).
Proof.
  intros Hvs. rewrite unmarshal_ts_array_eq, unmarshal_t_array_eq, Hvs. f_equal.
  destruct (u_read_fixed be 4 c) as [r| | | |]; cbn [bind]; [rewrite bind_s_lift_ok|reflexivity..].
  destruct (check_array_len (fst r)) as [n| | | |]; cbn [bind]; [rewrite bind_s_lift_ok|reflexivity..].
  destruct (u_align (ealign x) (snd r)) as [c1| | | |]; cbn [bind]; [rewrite bind_s_lift_ok|reflexivity..].
  destruct (negb _); [reflexivity|]. destruct (_ <? n); [reflexivity|]. destruct (erase x); reflexivity.
Qed.
Lemma unmarshal_ts_array_slow_eq vf be x c : valid_slice be (erase x) = false -> unmarshal_ts (S vf) be (EArray x) c =
  tick (
  dos c0 <- lift (u_align 4 c);
  dos h <- lift (u_header be (ealign x) c0);
  dos vs <- sub_loop_s (fun c => dos c <- lift (u_align (ealign x) c); unmarshal_ts (S vf) be x c) (S (N.to_nat (fst h))) (fst (snd h)) [];
  lift (Ok (VArray (erase x) vs, snd (snd h)))).
Proof.
  intros Hvs. rewrite unmarshal_ts_array_eq, Hvs. unfold u_header. f_equal.
  destruct (u_align 4 c) as [c0| | | |]; [rewrite !bind_s_lift_ok|reflexivity..].
  destruct (u_read_fixed be 4 c0) as [r| | | |]; cbn [bind]; [rewrite bind_s_lift_ok|reflexivity..].
  destruct (check_array_len (fst r)) as [n| | | |]; cbn [bind]; [rewrite bind_s_lift_ok|reflexivity..].
  destruct (u_align (ealign x) (snd r)) as [c1| | | |]; cbn [bind]; [rewrite bind_s_lift_ok|reflexivity..].
  destruct (u_sub n c1) as [s| | | |]; cbn [bind]; [rewrite !bind_s_lift_ok|reflexivity..]. reflexivity.
Qed.
Lemma unmarshal_ts_dict_eq' vf be k v c : unmarshal_ts (S vf) be (EDict k v) c =
  tick (
  dos c0 <- lift (u_align 4 c);
  dos h <- lift (u_header be 8 c0);
  dos kvs <- sub_loop_s (fun c => dos c <- lift (u_align 8 c);
                               dos kr <- tick (lift (u_base be k c));
                               dos c2 <- lift (u_align (ealign v) (snd kr));
                               dos vr <- unmarshal_ts (S vf) be v c2;
                               lift (Ok ((fst kr, fst vr), snd vr)))
                     (S (N.to_nat (fst h))) (fst (snd h)) [];
  lift (Ok (VDict k (erase v) kvs, snd (snd h)))).
Proof.
  rewrite unmarshal_ts_dict_eq. unfold u_header. f_equal.
  destruct (u_align 4 c) as [c0| | | |]; [rewrite !bind_s_lift_ok|reflexivity..].
  destruct (u_read_fixed be 4 c0) as [r| | | |]; cbn [bind]; [rewrite bind_s_lift_ok|reflexivity..].
  destruct (check_array_len (fst r)) as [n| | | |]; cbn [bind]; [rewrite bind_s_lift_ok|reflexivity..].
  destruct (u_align 8 (snd r)) as [c1| | | |]; cbn [bind]; [rewrite bind_s_lift_ok|reflexivity..].
  destruct (u_sub n c1) as [s| | | |]; cbn [bind]; [rewrite !bind_s_lift_ok|reflexivity..]. reflexivity.
Qed.

Lemma bind_s_ok {A B} (a : A) s (f : A -> counted B) : bind_s (Ok a, s) f = (fst (f a), s + snd (f a)).
Proof. reflexivity. Qed.

Lemma tweight_pos e : 1 <= tweight e.
Proof. destruct e; cbn [tweight]; lia. Qed.
Lemma tweight_in es f : In f es -> tweight f <= fold_right (fun x m => N.max (tweight x) m) 0 es.
Proof. induction es as [|y es IH]; intros Hin; [destruct Hin|]. cbn [fold_right]. destruct Hin as [->|Hin]; [lia|]. specialize (IH Hin). lia. Qed.

Lemma pgood_mono {A} w w' c (x : counted (A * uctx)) : w <= w' -> uoff c <= len (ubuf c) -> pgood w c x -> pgood w' c x.
Proof.
  intros Hw Hc. assert (Hd : exists d, w' = w + d) by (exists (w' - w); lia). destruct Hd as [d ->].
  unfold pgood. destruct (fst x) as [r| | | |]; auto.
  - intros (E & Hr & Hs). repeat split; try assumption; try lia.
    pose proof (N.mul_le_mono_l (uoff c) (uoff (snd r)) d ltac:(lia)). lia.
  - intros Hs. pose proof (N.mul_le_mono_l (uoff c) (len (ubuf c)) d Hc). lia.
Qed.
Lemma sgood_mono w w' off buf x : w <= w' -> off <= len buf -> sgood w off buf x -> sgood w' off buf x.
Proof.
  intros Hw Hc. assert (Hd : exists d, w' = w + d) by (exists (w' - w); lia). destruct Hd as [d ->].
  unfold sgood. destruct (fst x) as [k| | | |]; auto.
  - intros (H1 & H2 & Hs). repeat split; try assumption. lia.
  - intros Hs. pose proof (N.mul_le_mono_l off (len buf) d Hc). lia.
Qed.

Lemma prgood_moved {A} v c c1 (x : counted (A * uctx)) : moved c c1 -> prgood v c1 x -> prgood v c x.
Proof.
  intros [E H]. unfold prgood. pose proof (N.mul_le_mono_l (uoff c) (uoff c1) v ltac:(lia)) as Hm.
  assert (L : len (ubuf c1) = len (ubuf c)) by (rewrite E; reflexivity).
  destruct (fst x) as [r| | | |]; auto.
  - intros (E2 & Hr & Hs). rewrite L in Hr. repeat split; try lia. rewrite E2. rewrite E. reflexivity.
  - rewrite L. lia.
Qed.
Lemma prgood_align {A} v a c (F : uctx -> counted (A * uctx)) : 1 <= v -> uoff c <= len (ubuf c) ->
  (forall c1, moved c c1 -> uoff c1 <= len (ubuf c1) -> prgood v c1 (F c1)) ->
  prgood v c (dos c1 <- lift (u_align a c); F c1).
Proof.
  intros Hv Hc HF. pose proof (u_align_moved a c Hc) as G.
  destruct (u_align a c) as [c1| | | |]; try (exfalso; exact G).
  - rewrite bind_s_lift_ok. apply (prgood_moved _ _ c1); [exact G|]. apply HF; [exact G|].
    destruct G as [E H]. rewrite E. cbn [set_off ubuf uoff]. lia.
  - apply prgood_err0; assumption.
Qed.

Lemma t_fields_s_good (one : ety -> uctx -> counted (val * uctx)) v : 1 <= v ->
  forall es, (forall f c, In f es -> uoff c <= len (ubuf c) -> prgood v c (one f c)) ->
  forall first c acc, uoff c <= len (ubuf c) ->
    let x := t_fields_s one es first c acc in
    match fst x with
    | Ok r => moved c (snd r) /\ uoff c + len es <= uoff (snd r) /\ snd x + v * uoff c <= v * uoff (snd r)
    | Err => snd x + v * uoff c <= v * len (ubuf c) + v
    | _ => False
    end.
Proof.
  intros Hv. induction es as [|f r IH]; intros Hone first c acc Hc; cbn [t_fields_s]; cbv zeta.
  - cbn [lift fst snd]. change (len (@nil ety)) with 0. split; [split; [now destruct c|lia]|lia].
  - rewrite fst_tick, snd_tick.
    assert (G0 : match (if first then Ok c else u_align (ealign f) c) with Ok c' => moved c c' | Err => True | _ => False end).
    { destruct first; [|now apply u_align_moved]. split; [now destruct c|lia]. }
    destruct (if first then Ok c else u_align (ealign f) c) as [c0| | | |]; try (exfalso; exact G0).
    2:{ cbn [bind_s lift fst snd]. pose proof (N.mul_le_mono_l _ _ v Hc). lia. }
    rewrite bind_s_lift_ok.
    assert (Hc0 : uoff c0 <= len (ubuf c0)) by (destruct G0 as [E ?]; rewrite E; cbn [set_off ubuf uoff]; lia).
    assert (L0 : len (ubuf c0) = len (ubuf c)) by (destruct G0 as [E ?]; rewrite E; reflexivity).
    pose proof (N.mul_le_mono_l (uoff c) (uoff c0) v ltac:(destruct G0; lia)) as M0.
    unfold bind_s. pose proof (Hone f c0 (or_introl eq_refl) Hc0) as G. unfold prgood in G.
    destruct (one f c0) as [r1 s1]. cbn [fst snd] in *. destruct r1 as [x| | | |]; cbn [fst snd]; try (exfalso; exact G).
    2:{ rewrite L0 in G. lia. }
    destruct G as (E & Hr & Hs). destruct x as [a c']. cbn [fst snd] in *.
    assert (H1 : uoff c' <= len (ubuf c')) by (rewrite E; cbn [set_off ubuf uoff]; lia).
    specialize (IH (fun f' c'' Hin => Hone f' c'' (or_intror Hin)) false c' (a :: acc) H1). cbv zeta in IH.
    assert (Lb : len (ubuf c') = len (ubuf c)) by (rewrite E; exact L0).
    assert (Hm0 : moved c0 c') by (split; [exact E|lia]).
    destruct (t_fields_s one r false c' (a :: acc)) as [r2 s2]. cbn [fst snd] in *. rewrite Lb in IH. rewrite len_cons.
    destruct r2 as [y| | | |]; try exact IH; [|lia].
    destruct IH as (Hm & Hl & Hs2). split; [eapply moved_trans; [exact G0|]; eapply moved_trans; eassumption|].
    destruct G0 as [_ G0]. lia.
Qed.

(* arrays and dicts behind the aligned length field: header, element loop *)
Lemma coll_good {A} be a v c0 (one : uctx -> counted (A * uctx)) (mk : list A -> val) : 1 <= v ->
  uoff c0 <= len (ubuf c0) -> (forall c', uoff c' <= len (ubuf c') -> prgood v c' (one c')) ->
  prgood (v + 1) c0 (dos h <- lift (u_header be a c0);
                     dos vs <- sub_loop_s one (S (N.to_nat (fst h))) (fst (snd h)) [];
                     lift (Ok (mk vs, snd (snd h)))).
Proof.
  intros Hv Hc0 Hone. pose proof (u_header_good be a c0 Hc0) as G.
  destruct (u_header be a c0) as [[n [s c3]]| | | |]; try (exfalso; exact G); [|apply prgood_err0; [lia|assumption]].
  rewrite bind_s_lift_ok. cbn [fst snd]. destruct G as (o & Es & Ec3 & Ho & Hon).
  assert (Ls : len (ubuf s) = o + n) by (rewrite Es; cbn [ubuf]; apply len_firstnN_le; lia).
  assert (Eo : uoff s = o) by (rewrite Es; reflexivity).
  pose proof (sub_loop_s_good (fun _ => True) one v (fun _ _ _ => I) (fun c' H _ => Hone c' H) (S (N.to_nat n)) s []
                ltac:(rewrite Ls, Eo; lia) I ltac:(rewrite Ls, Eo; lia)) as G2. cbv zeta in G2.
  unfold bind_s. destruct (sub_loop_s one _ s []) as [r2 s2]. cbn [fst snd] in G2 |- *. rewrite Ls, Eo in G2. unfold prgood.
  destruct r2 as [vs| | | |]; cbn [fst snd lift]; try exact G2.
  - rewrite Ec3. cbn [set_off uoff]. split; [reflexivity|]. split; [lia|].
    pose proof (N.mul_le_mono_l (uoff c0 + 4 + n) (o + n) (v + 1) ltac:(lia)). nia.
  - pose proof (N.mul_le_mono_l (uoff c0 + n) (len (ubuf c0)) (v + 1) ltac:(lia)). nia.
Qed.

(* the variant arm behind the signature and the alignment: validation (any counted result [X] that is good at weight
   129), sub-context, signature comparison, decoding of the content *)
Lemma var_arm_good be vf x t' c c1 a :
  (forall s, uoff s <= len (ubuf s) -> pgood a s (unmarshal_ts vf be x s)) ->
  1 <= a -> c1 = set_off c (uoff c1) -> uoff c + 2 <= uoff c1 -> uoff c1 <= len (ubuf c) -> udepth c1 < MAX_DEPTH ->
  forall X : counted N, sgood 129 (uoff c1) (ubuf c1) X ->
  prgood (a + 129) c
    (dos n <- X;
     dos s <- lift (u_sub n {| ubuf := ubuf c1; uoff := uoff c1; unfds := unfds c1; udepth := udepth c1 + 1 |});
     if ty_eqb t' (erase x) then
       dos v <- unmarshal_ts vf be x (fst s);
       lift (Ok (VVariant t' (fst v), u_leave (snd s)))
     else lift Err).
Proof.
  intros IH Ha E1 Ho1 Ho2 Hd1 X Gv. unfold sgood in Gv.
  assert (L2 : len (ubuf c1) = len (ubuf c)) by (rewrite E1; reflexivity).
  assert (Hc : uoff c <= len (ubuf c)) by lia.
  destruct X as [rv sv]. cbn [fst snd] in Gv.
  destruct rv as [n| | | |]; try (exfalso; exact Gv).
  2:{ unfold bind_s, prgood. cbn [fst snd]. rewrite L2 in Gv.
      pose proof (N.mul_le_mono_l (uoff c) (len (ubuf c)) a Hc). lia. }
  destruct Gv as (Hn1 & Hn2 & Hsv). rewrite bind_s_ok. rewrite L2 in Hn2.
  unfold u_sub, remainder_len. cbn [ubuf uoff unfds udepth].
  destruct (N.ltb_spec (len (ubuf c1) - uoff c1) n) as [Hlt|_]; [rewrite L2 in Hlt; lia|].
  rewrite bind_s_lift_ok. cbn [fst snd].
  pose proof (N.mul_le_mono_l (uoff c + n) (len (ubuf c)) (a + 129) ltac:(lia)) as M1.
  destruct (ty_eqb t' (erase x)).
  2:{ unfold prgood. cbn [fst snd lift]. nia. }
  set (s := {| ubuf := firstnN (uoff c1 + n) (ubuf c1); uoff := uoff c1; unfds := unfds c1; udepth := udepth c1 + 1 |}).
  assert (Ls : len (ubuf s) = uoff c1 + n) by (unfold s; cbn [ubuf]; rewrite len_firstnN_le; lia).
  assert (Hs : uoff s <= len (ubuf s)) by (rewrite Ls; unfold s; cbn [uoff]; lia).
  pose proof (IH s Hs) as Gy. unfold pgood in Gy. rewrite Ls in Gy.
  unfold bind_s. destruct (unmarshal_ts vf be x s) as [ry sy]. cbn [fst snd] in Gy |- *. unfold prgood.
  change (uoff s) with (uoff c1) in Gy.
  destruct ry as [y| | | |]; cbn [fst snd lift]; try exact Gy.
  - destruct Gy as (_ & Hy & Hsy).
    assert (Eu : u_leave (set_off {| ubuf := ubuf c1; uoff := uoff c1; unfds := unfds c1; udepth := udepth c1 + 1 |} (uoff c1 + n))
                 = set_off c (uoff c1 + n)).
    { rewrite E1. unfold u_leave, set_off. cbn [ubuf uoff unfds udepth]. f_equal. lia. }
    rewrite Eu. cbn [set_off uoff]. split; [reflexivity|]. split; [lia|].
    pose proof (N.mul_le_mono_l (uoff (snd y)) (uoff c1 + n) a ltac:(lia)). nia.
  - nia.
Qed.

Ltac terr := unfold bind_s; cbn [fst snd lift]; apply prgood_err0; [lia|assumption].

Theorem unmarshal_ts_good be : forall vf e c,
  ewf e = true -> uoff c <= len (ubuf c) -> (evars e < vf)%nat -> pgood (tweight e) c (unmarshal_ts vf be e c).
Proof.
  induction vf as [|vf IHvf]; [intros; lia|].
  induction e as [b|x IHx|es IHes|kt v IHv|x _] using ety_ind'; intros c Hwf Hc Hvf.
  - rewrite unmarshal_ts_base_eq. apply pgood_tick, prgood_leaf; try assumption; [cbn [tweight]; lia|]. now apply u_base_good.
  - destruct (valid_slice be (erase x)) eqn:Evs.
    + rewrite (unmarshal_ts_array_fast_eq _ _ _ _ Evs). apply pgood_tick, prgood_leaf; try assumption; [apply tweight_pos|].
      now apply unmarshal_t_good.
    + rewrite (unmarshal_ts_array_slow_eq _ _ _ _ Evs). apply pgood_tick. cbn [ewf evars tweight] in *.
      pose proof (tweight_pos x) as Ha. replace (tweight x + 2) with (tweight x + 1 + 1) by lia.
      apply prgood_align; [lia|assumption|]. intros c0 Hm0 Hc0.
      apply coll_good; [lia|assumption|]. intros c' Hc'.
      apply prgood_align; [lia|assumption|]. intros c1 Hm1 Hc1.
      apply pgood_prgood; [assumption|]. now apply IHx.
  - rewrite unmarshal_ts_struct_eq. apply pgood_tick. cbn [ewf tweight] in *. apply andb_prop in Hwf. destruct Hwf as [Hne Hwf].
    set (m := fold_right (fun x m => N.max (tweight x) m) 0 es).
    replace (m + 2) with (m + 1 + 1) by lia.
    apply prgood_align; [lia|assumption|]. intros c0 Hm0 Hc0.
    rewrite forallb_forall in Hwf. rewrite Forall_forall in IHes.
    assert (Hone : forall f c', In f es -> uoff c' <= len (ubuf c') -> prgood (m + 1) c' (unmarshal_ts (S vf) be f c')).
    { intros f c' Hin Hc'. apply pgood_prgood; [assumption|]. apply (pgood_mono (tweight f)); [now apply tweight_in|assumption|].
      apply IHes; auto. pose proof (evars_in es f Hin). lia. }
    pose proof (t_fields_s_good (unmarshal_ts (S vf) be) (m + 1) ltac:(lia) es Hone true c0 [] Hc0) as G. cbv zeta in G.
    unfold bind_s. destruct (t_fields_s _ es true c0 []) as [r2 s2]. cbn [fst snd] in G |- *. unfold prgood.
    destruct r2 as [r| | | |]; cbn [fst snd lift]; try exact G.
    + destruct G as ([E Hb] & Hl & Hs). destruct es as [|e0 es']; [discriminate|]. rewrite len_cons in Hl.
      split; [exact E|]. split; [lia|]. nia.
    + nia.
  - rewrite unmarshal_ts_dict_eq'. apply pgood_tick. cbn [ewf evars tweight] in *.
    pose proof (tweight_pos v) as Ha. set (a := tweight v) in *. replace (a + 2) with (a + 1 + 1) by lia.
    apply prgood_align; [lia|assumption|]. intros c0 Hm0 Hc0.
    apply coll_good; [lia|assumption|]. intros c' Hc'.
    apply prgood_align; [lia|assumption|]. intros c1 Hm1 Hc1.
    pose proof (u_base_good be kt c1 Hc1) as Gk. unfold bind_s at 1. rewrite fst_tick, snd_tick, fst_lift, snd_lift.
    destruct (u_base be kt c1) as [kr| | | |]; cbn [good] in Gk; try (exfalso; exact Gk).
    2:{ unfold prgood. cbn [fst snd]. pose proof (N.mul_le_mono_l _ _ a Hc1). nia. }
    destruct Gk as [E2 H2].
    assert (Hc2 : uoff (snd kr) <= len (ubuf (snd kr))) by (rewrite E2; cbn [set_off ubuf uoff]; lia).
    assert (Hmk : moved c1 (snd kr)) by (split; [exact E2|lia]).
    assert (L2 : len (ubuf (snd kr)) = len (ubuf c1)) by (rewrite E2; reflexivity).
    pose proof (u_align_moved (ealign v) (snd kr) Hc2) as G3.
    destruct (u_align (ealign v) (snd kr)) as [c2| | | |]; try (exfalso; exact G3).
    2:{ cbn [bind_s lift fst snd]. unfold prgood. cbn [fst snd]. pose proof (N.mul_le_mono_l _ _ a Hc1). nia. }
    rewrite bind_s_lift_ok.
    pose proof (moved_trans _ _ _ Hmk G3) as [E3 H3]. destruct G3 as [_ H3'].
    assert (Hc3 : uoff c2 <= len (ubuf c2)) by (rewrite E3; cbn [set_off ubuf uoff]; lia).
    assert (L3 : len (ubuf c2) = len (ubuf c1)) by (rewrite E3; reflexivity).
    pose proof (IHv c2 Hwf Hc3 Hvf) as Gv. fold a in Gv. unfold pgood in Gv.
    unfold bind_s. destruct (unmarshal_ts (S vf) be v c2) as [r s']. cbn [fst snd] in Gv |- *. unfold prgood.
    destruct r as [vr| | | |]; cbn [fst snd lift]; try exact Gv.
    + destruct Gv as (E4 & H4 & Hs4). rewrite L3 in H4.
      split; [rewrite E4, E3; reflexivity|]. split; [lia|].
      pose proof (N.mul_le_mono_l (uoff c1 + 1) (uoff c2) a ltac:(lia)). nia.
    + rewrite L3 in Gv. pose proof (N.mul_le_mono_l (uoff c1 + 1) (uoff c2) a ltac:(lia)). nia.
  - rewrite unmarshal_ts_var_eq. apply pgood_tick. cbn [ewf evars tweight] in *.
    pose proof (tweight_pos x) as Ha. set (a := tweight x) in *.
    pose proof (u_read_sig_moved c Hc) as G. destruct (u_read_sig c) as [r| | | |]; try (exfalso; exact G); [|terr].
    rewrite bind_s_lift_ok. destruct G as [[E1 H1] H1'].
    destruct (parse_description (fst r)) as [tys| | | |] eqn:Ep; try terr.
    destruct tys as [|t' [|]]; try terr. destruct (parse_single _ _ Ep) as [_ Htok].
    assert (Hc1 : uoff (snd r) <= len (ubuf (snd r))) by (rewrite E1; cbn [set_off ubuf uoff]; lia).
    pose proof (u_align_moved (align t') (snd r) Hc1) as G2.
    destruct (u_align (align t') (snd r)) as [c1| | | |]; try (exfalso; exact G2); [|terr].
    rewrite bind_s_lift_ok. destruct G2 as [E2 H2].
    assert (Hc2 : uoff c1 <= len (ubuf c1)) by (rewrite E2; cbn [set_off ubuf uoff]; lia).
    assert (L2 : len (ubuf c1) = len (ubuf c)) by (rewrite E2, E1; reflexivity).
    unfold u_enter. destruct (N.leb_spec MAX_DEPTH (udepth c1)) as [|Hd1]; [terr|].
    rewrite bind_s_lift_ok.
    assert (E12 : c1 = set_off c (uoff c1)) by (rewrite E2, E1; reflexivity).
    assert (Ho1 : uoff c + 2 <= uoff c1) by (rewrite E1 in H2; cbn [set_off uoff] in H2; lia).
    apply (var_arm_good be vf x t' c c1 a); try assumption; try lia.
    + intros s Hs. apply IHvf; [assumption|assumption|lia].
    + apply (sgood_mono (step_weight (udepth c1 + 1))); [apply step_weight_le|assumption|].
      exact (validate_s_good be 66 t' (udepth c1 + 1) (uoff c1) (ubuf c1) (type_ok_wf _ Htok) Hc2 ltac:(lia) ltac:(cbn; lia)).
Qed.

(** the bound in closed form, for every outcome *)
Corollary unmarshal_ts_bound be vf e c : ewf e = true -> uoff c <= len (ubuf c) -> (evars e < vf)%nat ->
  let x := unmarshal_ts vf be e c in
  snd x <= tweight e * (len (ubuf c) - uoff c) + tweight e
  /\ (forall v c', fst x = Ok (v, c') -> snd x <= tweight e * (uoff c' - uoff c) /\ uoff c < uoff c' <= len (ubuf c)).
Proof.
  intros Hw Ho H1 x. pose proof (unmarshal_ts_good be vf e c Hw Ho H1) as G. fold x in G. unfold pgood in G.
  set (w := tweight e) in *.
  assert (E : w * len (ubuf c) = w * (len (ubuf c) - uoff c) + w * uoff c) by nia.
  split.
  - destruct (fst x) as [r| | | |]; try (exfalso; exact G).
    + destruct G as (_ & Hk & Hs). pose proof (N.mul_le_mono_l (uoff (snd r)) (len (ubuf c)) w ltac:(lia)). lia.
    + lia.
  - intros v c' En. rewrite En in G. cbn [snd] in G. destruct G as (_ & Hk & Hs). split; [|exact Hk].
    assert (E' : w * uoff c' = w * (uoff c' - uoff c) + w * uoff c) by nia. lia.
Qed.

(** the weight in terms of the two measures of the Rust type that the other theorems use: container nesting [edepth]
    (a Variant<..> level counts as one) and Variant<..> nesting [evars] *)
Lemma tweight_le e : tweight e <= 2 * edepth e + 127 * N.of_nat (evars e) + 1.
Proof.
  induction e as [b|x IH|es IH|k v IH|x IH] using ety_ind'; cbn [tweight edepth evars]; try lia.
  set (mw := fold_right (fun x m => N.max (tweight x) m) 0 es).
  set (md := fold_right (fun x m => N.max (edepth x) m) 0 es).
  set (mv := fold_right (fun x m => Nat.max (evars x) m) 0%nat es).
  assert (H : mw <= 2 * md + 127 * N.of_nat mv + 1).
  { unfold mw, md, mv. induction IH as [|y l Hy Hl IHl]; cbn [fold_right]; [lia|]. rewrite Nat2N.inj_max. cbv zeta in IHl. lia. }
  lia.
Qed.

(** the decoder at the fuel the operations use (66), hypotheses of [unmarshal_t_total_66] *)
Theorem unmarshal_ts_66_bound be e c : ewf e = true -> uoff c <= len (ubuf c) -> (evars e <= 65)%nat ->
  snd (unmarshal_ts 66 be e c) <= tweight e * (len (ubuf c) - uoff c) + tweight e
  /\ (forall v c', fst (unmarshal_ts 66 be e c) = Ok (v, c') ->
        snd (unmarshal_ts 66 be e c) <= tweight e * (uoff c' - uoff c) /\ uoff c < uoff c' <= len (ubuf c))
  /\ tweight e <= 2 * edepth e + 127 * N.of_nat (evars e) + 1 <= 2 * edepth e + 8256.
Proof.
  intros Hw Ho He. destruct (unmarshal_ts_bound be 66 e c Hw Ho ltac:(lia)) as [B1 B2]. cbv zeta in B1, B2.
  split; [exact B1|]. split; [exact B2|]. pose proof (tweight_le e). lia.
Qed.
