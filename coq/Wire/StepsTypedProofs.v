(** C04, step counting for the typed decoder: [unmarshal_ts] (Wire/StepsTyped.v) projects to [unmarshal_t] and makes at
    most [tweight e] steps per byte left in the buffer, plus [tweight e], on EVERY input; a run that returns a value at
    most [tweight e] steps per byte consumed. *)
From RB Require Import Base.Prelude Sig.Types Sig.Parser Sig.ParserProofs Sig.Validator Sig.ValidatorProofs
  Wire.Bytes Wire.Align Wire.Text Wire.Value Wire.SpecEnc Wire.Marshal Wire.MarshalProofs Wire.Decode Wire.Unmarshal.
From RB Require Import Wire.DecodeSoundLemmas Wire.DecodeTotal Wire.Steps Wire.StepsProofs Wire.StepsParam Wire.StepsParamProofs
  Wire.StepsTyped.

(** ** one equation per type constructor *)
Section TFieldLoopS.
  Variable one : ety -> uctx -> counted (val * uctx).
  Fixpoint t_fields_s (l : list ety) (first : bool) (c : uctx) (acc : list val) : counted (list val * uctx) :=
    match l with
    | [] => lift (Ok (rev acc, c))
    | f :: r =>
        tick (
        dos c <- lift (if first then Ok c else u_align (ealign f) c);
        dos x <- one f c; t_fields_s r false (snd x) (fst x :: acc))
    end.
End TFieldLoopS.

Lemma unmarshal_ts_base_eq vf be b c : unmarshal_ts (S vf) be (EBase b) c = tick (lift (u_base be b c)).
Proof. reflexivity. Qed.
Lemma unmarshal_ts_array_eq vf be x c : unmarshal_ts (S vf) be (EArray x) c =
  tick (
  if valid_slice be (erase x) then
    dos r <- lift (u_read_fixed be 4 c);
    dos n <- lift (check_array_len (fst r));
    dos c1 <- lift (u_align (ealign x) (snd r));
    if negb (n mod ealign x =? 0) then lift Err else
    if remainder_len c1 <? n then lift Err else
    match erase x with
    | TBase b => lift (Ok (VArray (erase x) (chunks b (base_size b) (S (N.to_nat n)) (slice (ubuf c1) (uoff c1) n)),
                           set_off c1 (uoff c1 + n)))
    | _ => lift Err
    end
  else
    dos c0 <- lift (u_align 4 c);
    dos r <- lift (u_read_fixed be 4 c0);
    dos n <- lift (check_array_len (fst r));
    dos c1 <- lift (u_align (ealign x) (snd r));
    dos s <- lift (u_sub n c1);
    dos vs <- sub_loop_s (fun c => dos c <- lift (u_align (ealign x) c); unmarshal_ts (S vf) be x c) (S (N.to_nat n)) (fst s) [];
    lift (Ok (VArray (erase x) vs, snd s))).
Proof. reflexivity. Qed.
Lemma unmarshal_ts_dict_eq vf be k v c : unmarshal_ts (S vf) be (EDict k v) c =
  tick (
  dos c0 <- lift (u_align 4 c);
  dos r <- lift (u_read_fixed be 4 c0);
  dos n <- lift (check_array_len (fst r));
  dos c1 <- lift (u_align 8 (snd r));
  dos s <- lift (u_sub n c1);
  dos kvs <- sub_loop_s (fun c => dos c <- lift (u_align 8 c);
                               dos kr <- tick (lift (u_base be k c));
                               dos c2 <- lift (u_align (ealign v) (snd kr));
                               dos vr <- unmarshal_ts (S vf) be v c2;
                               lift (Ok ((fst kr, fst vr), snd vr)))
                     (S (N.to_nat n)) (fst s) [];
  lift (Ok (VDict k (erase v) kvs, snd s))).
Proof. reflexivity. Qed.
Lemma unmarshal_ts_struct_eq vf be es c : unmarshal_ts (S vf) be (EStruct es) c =
  tick (
  dos c <- lift (u_align 8 c);
  dos r <- t_fields_s (unmarshal_ts (S vf) be) es true c [];
  lift (Ok (VStruct (fst r), snd r))).
Proof. reflexivity. Qed.
Lemma unmarshal_ts_var_eq vf be x c : unmarshal_ts (S vf) be (EVar x) c =
  tick (
  dos r <- lift (u_read_sig c);
  match parse_description (fst r) with
  | Ok [t'] =>
      dos c1 <- lift (u_align (align t') (snd r));
      dos c2 <- lift (u_enter c1);
      dos n <- validate_s 66 be (udepth c2) (uoff c2) (ubuf c2) t';
      dos s <- lift (u_sub n c2);
      if ty_eqb t' (erase x) then
        dos v <- unmarshal_ts vf be x (fst s);
        lift (Ok (VVariant t' (fst v), u_leave (snd s)))
      else lift Err
  | _ => lift Err
  end).
Proof. reflexivity. Qed.

(** ** projection *)
Lemma t_fields_s_proj one_s one : forall es, (forall f c, In f es -> fst (one_s f c) = one f c) ->
  forall first c acc, fst (t_fields_s one_s es first c acc) = t_fields one es first c acc.
Proof.
  induction es as [|f r IH]; intros H first c acc; cbn [t_fields_s t_fields]; [reflexivity|].
  rewrite fst_tick, fst_bind_s, fst_lift. apply bind_ext. intros c0 _.
  rewrite fst_bind_s, (H f _ (or_introl eq_refl)). apply bind_ext. intros x _. apply IH.
  intros f' c' Hin. apply H. now right.
Qed.

Theorem unmarshal_ts_proj be : forall vf e c, fst (unmarshal_ts vf be e c) = unmarshal_t vf be e c.
Proof.
  induction vf as [|vf IHvf]; [reflexivity|].
  induction e as [b|x IHx|es IHes|kt v IHv|x _] using ety_ind'; intros c.
  - reflexivity.
  - rewrite unmarshal_ts_array_eq, unmarshal_t_array_eq, fst_tick. destruct (valid_slice be (erase x)).
    + rewrite fst_bind_s, fst_lift. apply bind_ext. intros r _.
      rewrite fst_bind_s, fst_lift. apply bind_ext. intros n _.
      rewrite fst_bind_s, fst_lift. apply bind_ext. intros c1 _.
      destruct (negb _); [reflexivity|]. destruct (_ <? n); [reflexivity|]. destruct (erase x); reflexivity.
    + rewrite fst_bind_s, fst_lift. apply bind_ext. intros c0 _.
      rewrite fst_bind_s, fst_lift. apply bind_ext. intros r _.
      rewrite fst_bind_s, fst_lift. apply bind_ext. intros n _.
      rewrite fst_bind_s, fst_lift. apply bind_ext. intros c1 _.
      rewrite fst_bind_s, fst_lift. apply bind_ext. intros s _.
      rewrite fst_bind_s. erewrite sub_loop_s_proj; [reflexivity|].
      intros c'. cbv beta. rewrite fst_bind_s, fst_lift. apply bind_ext. intros c2 _. apply IHx.
  - rewrite unmarshal_ts_struct_eq, unmarshal_t_struct_eq, fst_tick.
    rewrite fst_bind_s, fst_lift. apply bind_ext. intros c0 _.
    rewrite fst_bind_s. rewrite (t_fields_s_proj _ (unmarshal_t (S vf) be)); [reflexivity|].
    rewrite Forall_forall in IHes. intros f c' Hin. now apply IHes.
  - rewrite unmarshal_ts_dict_eq, unmarshal_t_dict_eq, fst_tick.
    rewrite fst_bind_s, fst_lift. apply bind_ext. intros c0 _.
    rewrite fst_bind_s, fst_lift. apply bind_ext. intros r _.
    rewrite fst_bind_s, fst_lift. apply bind_ext. intros n _.
    rewrite fst_bind_s, fst_lift. apply bind_ext. intros c1 _.
    rewrite fst_bind_s, fst_lift. apply bind_ext. intros s _.
    rewrite fst_bind_s. erewrite sub_loop_s_proj; [reflexivity|].
    intros c'. cbv beta. rewrite fst_bind_s, fst_lift. apply bind_ext. intros c2 _.
    rewrite fst_bind_s, fst_tick, fst_lift. apply bind_ext. intros kr _.
    rewrite fst_bind_s, fst_lift. apply bind_ext. intros c3 _.
    rewrite fst_bind_s, IHv. reflexivity.
  - rewrite unmarshal_ts_var_eq, unmarshal_t_var_eq, fst_tick.
    rewrite fst_bind_s, fst_lift. apply bind_ext. intros r _.
    destruct (parse_description (fst r)) as [[|t' [|]]| | | |]; try reflexivity.
    rewrite fst_bind_s, fst_lift. apply bind_ext. intros c1 _.
    rewrite fst_bind_s, fst_lift. apply bind_ext. intros c2 _.
    rewrite fst_bind_s, validate_s_proj. apply bind_ext. intros n _.
    rewrite fst_bind_s, fst_lift. apply bind_ext. intros s _.
    destruct (ty_eqb t' (erase x)); [|reflexivity].
    rewrite fst_bind_s, IHvf. reflexivity.
Qed.
