(** Non-vacuity for C03: the decoder models compute, the hypotheses of the theorems are satisfiable, and one
    concrete input for every class of malformed data named in the property (each next to its well-formed twin). *)
From RB Require Import Base.Prelude Sig.Types Sig.Parser Sig.ParserProofs Sig.Validator
  Wire.Bytes Wire.Align Wire.Text Wire.Value Wire.SpecEnc Wire.Marshal Wire.Decode Wire.Unmarshal.
From RB Require Import Wire.DecodeLemmas.
From RB Require Import Wire.DecodeComplete.
From RB Require Import Wire.DecodeSoundLemmas.
From RB Require Import Wire.DecodeTotal.
From RB Require Import Wire.DecodeSoundV.
From RB Require Import Wire.DecodeSoundP.
From RB Require Import Wire.DecodeSoundT.
From RB Require Import Wire.DecodeSound.

Definition ctx (buf : list N) (off nf : N) : uctx := {| ubuf := buf; uoff := off; unfds := nf; udepth := 0 |}.
Definition res_p (o : outcome (val * uctx)) : outcome (val * N) := do r <- o; Ok (fst r, uoff (snd r)).

(** a valid message body fragment: ( a{s v} , [u16] , fd ) at offset 3, little endian *)
Definition ex_val : val :=
  VStruct [ VDict BString TVariant [(VText BString [97; 98], VVariant (TBase BUint32) (VBase BUint32 5))];
            VArray (TBase BUint16) [VBase BUint16 1; VBase BUint16 513];
            VBase BUnixFd 1 ].
Definition ex_ty : ty := TStruct [TDict BString TVariant; TArray (TBase BUint16); TBase BUnixFd].
Definition ex_ety : ety := EStruct [EDict BString (EVar (EBase BUint32)); EArray (EBase BUint16); EBase BUnixFd].
Definition ex_buf : list N := [9; 9; 9] ++ spec_enc false 3 ex_val ++ [7; 7].
Definition ex_n : N := len (spec_enc false 3 ex_val).

Example ex_hyps : wf ex_ty = true /\ tys_ok ex_ty = true /\ type_ok ex_ty = true /\ erase ex_ety = ex_ty /\ ewf ex_ety = true
  /\ edepth ex_ety = 3 /\ wt ex_val ex_ty = true /\ encodable false 3 0 ex_val = true /\ ety_matches ex_ety ex_val = true.
Proof. vm_compute. repeat split. Qed.
Example ex_bytes_ok : bytes_ok ex_buf.
Proof. unfold bytes_ok. vm_compute. repeat constructor. Qed.
Example ex_validate : validate_marshalled false 3 ex_buf ex_ty = Ok ex_n /\ ex_n = 41.
Proof. vm_compute. auto. Qed.
Example ex_param : res_p (unmarshal_p 66 false ex_ty (ctx ex_buf 3 2)) = Ok (ex_val, 3 + ex_n).
Proof. vm_compute. reflexivity. Qed.
Example ex_typed : res_p (unmarshal_t 66 false ex_ety (ctx ex_buf 3 2)) = Ok (ex_val, 3 + ex_n).
Proof. vm_compute. reflexivity. Qed.
(* big endian too *)
Example ex_be : validate_marshalled true 3 ([9; 9; 9] ++ spec_enc true 3 ex_val) ex_ty = Ok ex_n
  /\ res_p (unmarshal_p 66 true ex_ty (ctx ([9; 9; 9] ++ spec_enc true 3 ex_val) 3 2)) = Ok (ex_val, 3 + ex_n)
  /\ res_p (unmarshal_t 66 true ex_ety (ctx ([9; 9; 9] ++ spec_enc true 3 ex_val) 3 2)) = Ok (ex_val, 3 + ex_n).
Proof. vm_compute. auto. Qed.
(* too few descriptors attached: the value-producing decoders refuse, validation does not look *)
Example ex_fds : res_p (unmarshal_p 66 false ex_ty (ctx ex_buf 3 1)) = Err /\ res_p (unmarshal_t 66 false ex_ety (ctx ex_buf 3 1)) = Err.
Proof. vm_compute. auto. Qed.
(* the typed decoder is stricter only through the content type of a variant *)
Example ex_typed_stricter :
  res_p (unmarshal_t 66 false (EStruct [EDict BString (EVar (EBase BInt32)); EArray (EBase BUint16); EBase BUnixFd]) (ctx ex_buf 3 2)) = Err.
Proof. vm_compute. reflexivity. Qed.

(** the three decoders on one input: (accepted by validate, by unmarshal_p, by unmarshal_t) *)
Definition verdicts (be : bool) (e : ety) (buf : list N) (off : N) : bool * bool * bool :=
  (is_ok (validate_marshalled be off buf (erase e)), is_ok (unmarshal_p 66 be (erase e) (ctx buf off 4)),
   is_ok (unmarshal_t 66 be e (ctx buf off 4))).
Definition all_accept := (true, true, true).
Definition all_reject := (false, false, false).

(* non-zero padding: a u32 at offset 1 needs three zero bytes first *)
Example rej_padding : verdicts false (EBase BUint32) [9; 0; 0; 0; 5; 0; 0; 0] 1 = all_accept
                   /\ verdicts false (EBase BUint32) [9; 0; 1; 0; 5; 0; 0; 0] 1 = all_reject.
Proof. vm_compute. auto. Qed.
(* padding inside containers: between the length of an array of u64 and its first element *)
Example rej_padding_array : verdicts false (EArray (EBase BUint64)) [8; 0; 0; 0; 0; 0; 0; 0; 1; 0; 0; 0; 0; 0; 0; 0] 0 = all_accept
                         /\ verdicts false (EArray (EBase BUint64)) [8; 0; 0; 0; 0; 0; 3; 0; 1; 0; 0; 0; 0; 0; 0; 0] 0 = all_reject.
Proof. vm_compute. auto. Qed.
(* booleans other than 0/1 *)
Example rej_bool : verdicts false (EBase BBoolean) [1; 0; 0; 0] 0 = all_accept /\ verdicts false (EBase BBoolean) [2; 0; 0; 0] 0 = all_reject
                /\ verdicts true (EBase BBoolean) [1; 0; 0; 0] 0 = all_reject.
Proof. vm_compute. auto. Qed.
(* invalid UTF-8 (a lone continuation byte, an overlong form, a surrogate) *)
Example rej_utf8 : verdicts false (EBase BString) [2; 0; 0; 0; 195; 169; 0] 0 = all_accept
                /\ verdicts false (EBase BString) [1; 0; 0; 0; 169; 0] 0 = all_reject
                /\ verdicts false (EBase BString) [2; 0; 0; 0; 192; 128; 0] 0 = all_reject
                /\ verdicts false (EBase BString) [3; 0; 0; 0; 237; 160; 128; 0] 0 = all_reject.
Proof. vm_compute. auto. Qed.
(* embedded NUL *)
Example rej_nul : verdicts false (EBase BString) [3; 0; 0; 0; 97; 0; 98; 0] 0 = all_reject.
Proof. vm_compute. auto. Qed.
(* missing terminator *)
Example rej_terminator : verdicts false (EBase BString) [1; 0; 0; 0; 97; 0] 0 = all_accept
                      /\ verdicts false (EBase BString) [1; 0; 0; 0; 97; 7] 0 = all_reject
                      /\ verdicts false (EBase BString) [1; 0; 0; 0; 97] 0 = all_reject
                      /\ verdicts false (EBase BSignature) [1; 121; 7] 0 = all_reject.
Proof. vm_compute. auto. Qed.
(* invalid object path *)
Example rej_path : verdicts false (EBase BObjectPath) [2; 0; 0; 0; 47; 97; 0] 0 = all_accept
                /\ verdicts false (EBase BObjectPath) [2; 0; 0; 0; 47; 47; 0] 0 = all_reject
                /\ verdicts false (EBase BObjectPath) [2; 0; 0; 0; 97; 47; 0] 0 = all_reject.
Proof. vm_compute. auto. Qed.
(* invalid signature *)
Example rej_signature : verdicts false (EBase BSignature) [2; 97; 121; 0] 0 = all_accept
                     /\ verdicts false (EBase BSignature) [1; 40; 0] 0 = all_reject
                     /\ verdicts false (EBase BSignature) [2; 40; 41; 0] 0 = all_reject
                     /\ verdicts false (EBase BSignature) [1; 97; 0] 0 = all_reject.
Proof. vm_compute. auto. Qed.
(* a variant whose signature is not a single complete type *)
Example rej_variant_sig : verdicts false (EVar (EBase BByte)) [1; 121; 0; 5] 0 = all_accept
                       /\ is_ok (validate_marshalled false 0 [2; 121; 121; 0; 5; 5] TVariant) = false
                       /\ is_ok (unmarshal_p 66 false TVariant (ctx [2; 121; 121; 0; 5; 5] 0 0)) = false
                       /\ is_ok (unmarshal_p 66 false TVariant (ctx [0; 0] 0 0)) = false.
Proof. vm_compute. auto. Qed.
(* array length reaching past the buffer, and past the enclosing container *)
Example rej_length_buffer : verdicts false (EArray (EBase BByte)) [2; 0; 0; 0; 1; 2] 0 = all_accept
                         /\ verdicts false (EArray (EBase BByte)) [5; 0; 0; 0; 1; 2] 0 = all_reject.
Proof. vm_compute. auto. Qed.
Example rej_length_container :
  (* outer array of 8 bytes holding one inner array of bytes; inner length 4 fits, 5 reaches past the outer array *)
  verdicts false (EArray (EArray (EBase BByte))) [8; 0; 0; 0; 4; 0; 0; 0; 1; 2; 3; 4; 9] 0 = all_accept
  /\ verdicts false (EArray (EArray (EBase BByte))) [8; 0; 0; 0; 5; 0; 0; 0; 1; 2; 3; 4; 9] 0 = all_reject
  /\ verdicts false (EArray (EBase BString)) [8; 0; 0; 0; 4; 0; 0; 0; 97; 98; 99; 100; 0] 0 = all_reject.
Proof. vm_compute. auto. Qed.
(* array length that is not a whole number of elements *)
Example rej_whole_elements : verdicts false (EArray (EBase BUint32)) [8; 0; 0; 0; 1; 0; 0; 0; 2; 0; 0; 0] 0 = all_accept
                          /\ verdicts false (EArray (EBase BUint32)) [6; 0; 0; 0; 1; 0; 0; 0; 2; 0; 0; 0] 0 = all_reject
                          /\ verdicts true (EArray (EBase BUint32)) [0; 0; 0; 6; 1; 0; 0; 0; 2; 0; 0; 0] 0 = all_reject.
Proof. vm_compute. auto. Qed.
(* array longer than 2^26 bytes: refused from the length field alone *)
Example rej_max_array : verdicts false (EArray (EBase BByte)) [1; 0; 0; 4; 1] 0 = all_reject
                     /\ check_array_len (2 ^ 26) = Ok (2 ^ 26) /\ check_array_len (2 ^ 26 + 1) = Err.
Proof. vm_compute. auto. Qed.
(* nesting deeper than 64: [k] variants inside each other around a byte *)
Definition nested_variants (k : nat) : list N := flat_map (fun _ => [1; 118; 0]) (seq 0 k) ++ [1; 121; 0; 5].
Example rej_depth :
  is_ok (validate_marshalled false 0 (nested_variants 63) TVariant) = true
  /\ is_ok (unmarshal_p 66 false TVariant (ctx (nested_variants 63) 0 0)) = true
  /\ is_ok (validate_marshalled false 0 (nested_variants 64) TVariant) = false
  /\ is_ok (unmarshal_p 66 false TVariant (ctx (nested_variants 64) 0 0)) = false
  /\ validate 66 false 63 0 [0; 0; 0; 0] (TArray (TBase BByte)) = Ok 4
  /\ validate 66 false 64 0 [0; 0; 0; 0] (TArray (TBase BByte)) = Err.
Proof. vm_compute. repeat split. Qed.
(* never a panic: offsets at the very end of the buffer, empty buffers *)
Example ex_total : validate_marshalled false 4 [0; 0; 0; 0] (TArray (TBase BUint64)) = Err
                /\ validate_marshalled false 0 [] TVariant = Err
                /\ res_p (unmarshal_p 66 false (TStruct [TBase BByte]) (ctx [1] 1 0)) = Err
                /\ res_p (unmarshal_t 66 false (EVar (EBase BByte)) (ctx [1; 121] 0 0)) = Err.
Proof. vm_compute. auto. Qed.

(** the typed decoder counts variants (and nothing else): [k] typed variants inside each other *)
Fixpoint evar_nest (k : nat) : ety := match k with O => EBase BByte | S k' => EVar (evar_nest k') end.
Example typed_counts_variants :
  is_ok (unmarshal_t 66 false (evar_nest 64) (ctx (nested_variants 63) 0 0)) = true
  /\ is_ok (unmarshal_t 66 false (evar_nest 65) (ctx (nested_variants 64) 0 0)) = false
  /\ edepth (evar_nest 64) = 64 /\ (evars (evar_nest 64) = 64)%nat.
Proof. vm_compute. repeat split. Qed.
(* the sub-context of a variant's content carries the raised depth: with the context already at depth 63 a variant can
   still be entered, its content (validated at depth 64) can then not be a container, and a variant inside it is refused *)
Example typed_variant_depth :
  is_ok (unmarshal_t 66 false (EVar (EBase BByte)) {| ubuf := [1; 121; 0; 5]; uoff := 0; unfds := 0; udepth := 63 |}) = true
  /\ is_ok (unmarshal_t 66 false (EVar (EBase BByte)) {| ubuf := [1; 121; 0; 5]; uoff := 0; unfds := 0; udepth := 64 |}) = false
  /\ is_ok (unmarshal_t 66 false (EVar (EVar (EBase BByte))) {| ubuf := nested_variants 1; uoff := 0; unfds := 0; udepth := 63 |}) = false
  /\ is_ok (unmarshal_t 66 false (EVar (EVar (EBase BByte))) {| ubuf := nested_variants 1; uoff := 0; unfds := 0; udepth := 62 |}) = true
  /\ typed_depth_ok {| ubuf := []; uoff := 0; unfds := 0; udepth := 63 |} (EVar (EArray (EBase BByte))).
Proof. vm_compute. repeat split; discriminate. Qed.
