(** Non-vacuity for the acceptance theorems of C02 (Wire/MarshalAccept.v): the nested value of
    Wire/MarshalExamples.v (struct of a dict of variants, an array and a descriptor, written at a
    misaligned position) satisfies every hypothesis, and values on either side of each condition
    behave as the iff says. *)
From RB Require Import Base.Prelude Sig.Types Sig.Validator Wire.Bytes Wire.Align Wire.Text Wire.Value Wire.SpecEnc
  Wire.Marshal Wire.Relabel Wire.MarshalProofs Wire.MarshalExamples Wire.Limits Wire.LimitsProofs
  Wire.MarshalEncodable Wire.MarshalAccept.

(* hypotheses of C02_typed_accepts / marshal_t_accepts hold for the nested example value ... *)
Example ex_accept_hyps_t : typed ex_val /\ leaves_ok ex_val = true /\ variant_sigs_ok ex_val = true
                           /\ arrays_within false (len (mbuf ex_ctx)) ex_val = true
                           /\ arrays_within true (len (mbuf ex_ctx)) ex_val = true.
Proof. split; [exists ex_ty; reflexivity|]. vm_compute. auto. Qed.
(* ... so the theorem applies, and the model indeed computes Ok *)
Example ex_accept_t : forall be, snd (marshal_t be ex_val ex_ctx) = true.
Proof.
  intros be. destruct ex_accept_hyps_t as (Ht & Hl & Hv & Hle & Hbe).
  apply marshal_t_accepts; [exact Ht|exact Hl|exact Hv|]. destruct be; assumption.
Qed.
Example ex_accept_t_computed : snd (marshal_t false ex_val ex_ctx) = true /\ snd (marshal_t true ex_val ex_ctx) = true.
Proof. vm_compute. auto. Qed.

(* C02_typed_exactly, both directions on concrete values: a NUL deep inside a dict value flips leaves_ok and the result *)
Definition ex_bad : val :=
  VStruct [ VDict BString TVariant [(VText BString [97], VVariant (TBase BString) (VText BString [98; 0]))];
            VArray (TBase BUint64) [VBase BUint64 1]; VBase BUnixFd 0 ].
Example ex_exactly_t :
  typed ex_bad /\ leaves_ok ex_bad = false /\ arrays_within false 3 ex_bad = true /\ snd (marshal_t false ex_bad ex_ctx) = false
  /\ (snd (marshal_t false ex_val ex_ctx) = true
      <-> leaves_ok ex_val = true /\ variant_sigs_ok ex_val = true /\ arrays_within false (len (mbuf ex_ctx)) ex_val = true).
Proof.
  split; [exists ex_ty; reflexivity|]. split; [reflexivity|]. split; [reflexivity|]. split; [reflexivity|].
  apply marshal_t_exactly. exists ex_ty. reflexivity.
Qed.

(* hypotheses of C02_param_accepts / marshal_p_accepts *)
Example ex_accept_hyps_p : typed ex_val /\ leaves_ok ex_val = true /\ variant_sigs_ok ex_val = true /\ nest_ok 0 ex_val = true
                           /\ nest_ok 61 ex_val = true /\ nest_ok 62 ex_val = false
                           /\ arrays_within false (len (mbuf ex_ctx)) ex_val = true.
Proof. split; [exists ex_ty; reflexivity|]. vm_compute. repeat split. Qed.
Example ex_accept_p : snd (marshal_p false 0 ex_val ex_ctx) = true.
Proof.
  destruct ex_accept_hyps_p as (Ht & Hl & Hv & Hn & _ & _ & Hw). now apply marshal_p_accepts.
Qed.
(* the depth counter: the same value (3 levels: struct, dict, variant) is accepted when 61 containers were
   already entered and refused at 62 *)
Example ex_depth_counter : snd (marshal_p false 61 ex_val ex_ctx) = true /\ snd (marshal_p false 62 ex_val ex_ctx) = false.
Proof. vm_compute. auto. Qed.

(* the variant signature condition, now common to both APIs (typed: since fix ef1b771; the old typed arm is
   History/TypedVariantOld.v): a variant whose printed signature does not validate - "()" - is refused by both.
   The nesting counter is the one condition only the Param API has: 65 nested structs *)
Definition ex_unit_variant : val := VVariant (TStruct []) (VStruct []).
Example ex_exactly_sig :
  typed ex_unit_variant /\ leaves_ok ex_unit_variant = true /\ variant_sigs_ok ex_unit_variant = false
  /\ nest_ok 0 ex_unit_variant = true /\ arrays_within false 3 ex_unit_variant = true
  /\ marshal_t false ex_unit_variant ex_ctx = (ex_ctx, false) /\ marshal_p false 0 ex_unit_variant ex_ctx = (ex_ctx, false).
Proof. split; [exists TVariant; reflexivity|]. vm_compute. repeat split. Qed.
Example ex_exactly_p_depth :
  let v := nest_struct 65 (VBase BByte 7) in
  typed v /\ leaves_ok v = true /\ variant_sigs_ok v = true /\ arrays_within false 3 v = true
  /\ nest_ok 0 v = false /\ nest_ok 0 (nest_struct 64 (VBase BByte 7)) = true
  /\ snd (marshal_t false v ex_ctx) = true /\ snd (marshal_p false 0 v ex_ctx) = false
  /\ snd (marshal_p false 0 (nest_struct 64 (VBase BByte 7)) ex_ctx) = true.
Proof. split; [exists (ty_of (nest_struct 65 (VBase BByte 7))); vm_compute; reflexivity|]. vm_compute. repeat split. Qed.
Example ex_exactly_p : snd (marshal_p true 0 ex_val ex_ctx) = true
  <-> leaves_ok ex_val = true /\ variant_sigs_ok ex_val = true /\ nest_ok 0 ex_val = true
      /\ arrays_within true (len (mbuf ex_ctx)) ex_val = true.
Proof. apply marshal_p_exactly. exists ex_ty. reflexivity. Qed.

(* strings of 2^32 bytes or 2^32 descriptors are NOT conditions of success: the descriptor counter is not looked at *)
Example ex_many_fds : snd (marshal_t false ex_val {| mbuf := []; mfds := 2 ^ 32 + 5 |}) = true
  /\ snd (marshal_p false 0 ex_val {| mbuf := []; mfds := 2 ^ 32 + 5 |}) = true.
Proof. vm_compute. auto. Qed.
