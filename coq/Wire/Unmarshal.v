(** Models of the value-producing decoders.
    Context = UnmarshalContext { byteorder, fds (only their number matters), cursor { buf, offset }, depth }.
    A sub-context is the parent's buffer clipped at the end of the region, with the parent's offset. *)
From RB Require Import Base.Prelude Sig.Types Sig.Parser Sig.Validator Wire.Bytes Wire.Align Wire.Text Wire.Value Wire.SpecEnc Wire.Marshal Wire.Decode.

Record uctx := { ubuf : list N; uoff : N; unfds : N; udepth : N }.
Definition set_off (c : uctx) (o : N) : uctx := {| ubuf := ubuf c; uoff := o; unfds := unfds c; udepth := udepth c |}.
Definition remainder_len (c : uctx) : N := len (ubuf c) - uoff c.

(* Cursor::align_to *)
Definition u_align (a : N) (c : uctx) : outcome uctx :=
  do p <- align_offset a (ubuf c) (uoff c);
  if len (ubuf c) <? uoff c + p then Err else Ok (set_off c (uoff c + p)).

(* Cursor::read_u8 / read_u16 / read_u32 / read_u64: align, parse, advance *)
Definition u_read_fixed (be : bool) (k : nat) (c : uctx) : outcome (N * uctx) :=
  do c <- (if Nat.eqb k 1 then Ok c else u_align (N.of_nat k) c);
  if remainder_len c <? N.of_nat k then Err
  else Ok (dec be (slice (ubuf c) (uoff c) (N.of_nat k)), set_off c (uoff c + N.of_nat k)).

(* Cursor::read_str *)
Definition u_read_str (be : bool) (c : uctx) : outcome (list N * uctx) :=
  do c <- u_align 4 c;
  do r <- unmarshal_str be (ubuf c) (uoff c);
  Ok (snd r, set_off c (uoff c + fst r)).
(* Cursor::read_signature *)
Definition u_read_sig (c : uctx) : outcome (list N * uctx) :=
  do r <- unmarshal_signature (ubuf c) (uoff c);
  Ok (snd r, set_off c (uoff c + fst r)).
(* Cursor::read_raw + UnmarshalContext::sub_context: (sub context, parent after the region) *)
Definition u_sub (n : N) (c : uctx) : outcome (uctx * uctx) :=
  if remainder_len c <? n then Err
  else Ok ({| ubuf := firstnN (uoff c + n) (ubuf c); uoff := uoff c; unfds := unfds c; udepth := udepth c |},
           set_off c (uoff c + n)).
(* enter_container *)
Definition u_enter (c : uctx) : outcome uctx :=
  if MAX_DEPTH <=? udepth c then Err
  else Ok {| ubuf := ubuf c; uoff := uoff c; unfds := unfds c; udepth := udepth c + 1 |}.
Definition u_leave (c : uctx) : uctx :=
  {| ubuf := ubuf c; uoff := uoff c; unfds := unfds c; udepth := udepth c - 1 |}.

(* decoding a base value, shared by both APIs (each read aligns itself) *)
Definition u_base (be : bool) (b : base) (c : uctx) : outcome (val * uctx) :=
  match b with
  | BString => do r <- u_read_str be c; Ok (VText BString (fst r), snd r)
  | BObjectPath =>
      do r <- u_read_str be c;
      if valid_path (fst r) then Ok (VText BObjectPath (fst r), snd r) else Err
  | BSignature =>
      do r <- u_read_sig c;
      if is_ok (validate_signature (fst r)) then Ok (VText BSignature (fst r), snd r) else Err
  | BBoolean =>
      do r <- u_read_fixed be 4 c;
      if fst r <? 2 then Ok (VBase BBoolean (fst r), snd r) else Err
  | BUnixFd =>
      do r <- u_read_fixed be 4 c;
      if unfds c <=? fst r then Err else Ok (VBase BUnixFd (fst r), snd r)
  | _ => do r <- u_read_fixed be (base_size b) c; Ok (VBase b (fst r), snd r)
  end.

(* `while !ctx.remainder().is_empty()` loops in a sub-context; [one] decodes one element *)
Fixpoint sub_loop {A} (one : uctx -> outcome (A * uctx)) (lf : nat) (c : uctx) (acc : list A) : outcome (list A) :=
  if remainder_len c =? 0 then Ok (rev acc)
  else match lf with
       | O => OutOfFuel
       | S lf' => do r <- one c; sub_loop one lf' (snd r) (fst r :: acc)
       end.

(** ** dynamic (Param) decoder: unmarshal_with_sig / unmarshal_container / unmarshal_variant *)
Fixpoint unmarshal_p (vf : nat) (be : bool) (t : ty) (c : uctx) {struct vf} : outcome (val * uctx) :=
  match vf with
  | O => OutOfFuel
  | S vf' =>
      (fix up (t : ty) (c : uctx) {struct t} : outcome (val * uctx) :=
         match t with
         | TBase b => u_base be b c
         | _ =>
             do c <- u_enter c;
             do r <-
               match t with
               | TBase _ => Err
               | TArray e =>
                   do r <- u_read_fixed be 4 c;
                   do n <- check_array_len (fst r);
                   do c1 <- u_align (align e) (snd r);
                   do s <- u_sub n c1;
                   do vs <- sub_loop (up e) (S (N.to_nat n)) (fst s) [];
                   Ok (VArray e vs, snd s)
               | TDict k v =>
                   do r <- u_read_fixed be 4 c;
                   do n <- check_array_len (fst r);
                   do c1 <- u_align 8 (snd r);
                   do s <- u_sub n c1;
                   do kvs <- sub_loop (fun c => do c <- u_align 8 c;
                                                do kr <- u_base be k c;
                                                do vr <- up v (snd kr);
                                                Ok ((fst kr, fst vr), snd vr))
                                      (S (N.to_nat n)) (fst s) [];
                   Ok (VDict k v kvs, snd s)
               | TStruct ts =>
                   do c <- u_align 8 c;
                   match ts with
                   | [] => Err                                     (* EmptyStruct *)
                   | _ =>
                       do r <- (fix fields (l : list ty) (c : uctx) (acc : list val) : outcome (list val * uctx) :=
                                  match l with
                                  | [] => Ok (rev acc, c)
                                  | f :: r => do x <- up f c; fields r (snd x) (fst x :: acc)
                                  end) ts c [];
                       Ok (VStruct (fst r), snd r)
                   end
               | TVariant =>
                   do r <- u_read_sig c;
                   do tys <- parse_description (fst r);
                   match tys with
                   | [t'] => do x <- unmarshal_p vf' be t' (snd r); Ok (VVariant t' (fst x), snd x)
                   | _ => Err
                   end
               end;
             Ok (fst r, u_leave (snd r))
         end) t c
  end.

(** ** typed decoder. The Rust type fixes what is inside a variant, so the expected type is an
    extended type. *)
Inductive ety :=
| EBase (b : base)
| EArray (e : ety)
| EStruct (es : list ety)
| EDict (k : base) (v : ety)
| EVar (e : ety).                      (* unmarshal::traits::Variant + get::<T>() *)
Fixpoint erase (e : ety) : ty :=
  match e with
  | EBase b => TBase b
  | EArray x => TArray (erase x)
  | EStruct es => TStruct (map erase es)
  | EDict k v => TDict k (erase v)
  | EVar _ => TVariant
  end.

(* E::alignment() *)
Definition ealign (e : ety) : N := align (erase e).

(* the fast path of Vec<E>: chunks of the raw bytes, native (little endian) order *)
Fixpoint chunks (b : base) (k : nat) (fuel : nat) (l : list N) : list val :=
  match fuel with
  | O => []
  | S f => match l with
           | [] => []
           | _ => VBase b (dec false (firstn k l)) :: chunks b k f (skipn k l)
           end
  end.

Fixpoint unmarshal_t (vf : nat) (be : bool) (e : ety) (c : uctx) {struct vf} : outcome (val * uctx) :=
  match vf with
  | O => OutOfFuel
  | S vf' =>
      (fix ut (e : ety) (c : uctx) {struct e} : outcome (val * uctx) :=
         match e with
         | EBase b => u_base be b c
         | EArray x =>
             if valid_slice be (erase x) then
               (* unmarshal_slice_bytes + copy_slice_bytes *)
               do r <- u_read_fixed be 4 c;
               do n <- check_array_len (fst r);
               do c1 <- u_align (ealign x) (snd r);
               if negb (n mod ealign x =? 0) then Err else
               if remainder_len c1 <? n then Err else
               match erase x with
               | TBase b => Ok (VArray (erase x) (chunks b (base_size b) (S (N.to_nat n)) (slice (ubuf c1) (uoff c1) n)),
                                set_off c1 (uoff c1 + n))
               | _ => Err
               end
             else
               do c0 <- u_align 4 c;
               do r <- u_read_fixed be 4 c0;
               do n <- check_array_len (fst r);
               do c1 <- u_align (ealign x) (snd r);
               do s <- u_sub n c1;
               do vs <- sub_loop (fun c => do c <- u_align (ealign x) c; ut x c) (S (N.to_nat n)) (fst s) [];
               Ok (VArray (erase x) vs, snd s)
         | EDict k v =>
             do c0 <- u_align 4 c;
             do r <- u_read_fixed be 4 c0;
             do n <- check_array_len (fst r);
             do c1 <- u_align 8 (snd r);
             do s <- u_sub n c1;
             do kvs <- sub_loop (fun c => do c <- u_align 8 c;
                                          do kr <- u_base be k c;
                                          do c2 <- u_align (ealign v) (snd kr);
                                          do vr <- ut v c2;
                                          Ok ((fst kr, fst vr), snd vr))
                                (S (N.to_nat n)) (fst s) [];
             Ok (VDict k (erase v) kvs, snd s)
         | EStruct es =>
             do c <- u_align 8 c;
             do r <- (fix fields (l : list ety) (first : bool) (c : uctx) (acc : list val) : outcome (list val * uctx) :=
                        match l with
                        | [] => Ok (rev acc, c)
                        | f :: r =>
                            do c <- (if first then Ok c else u_align (ealign f) c);
                            do x <- ut f c; fields r false (snd x) (fst x :: acc)
                        end) es true c [];
             Ok (VStruct (fst r), snd r)
         | EVar x =>
             (* Variant::unmarshal: read_signature; parse_description (error or len != 1 -> WrongSignature);
                Variant::unmarshal_with_sig: align_to(sig.get_alignment()), then
                UnmarshalContext::sub_context_for_value: enter_container (depth + 1, fails at 64),
                validate_marshalled_at_depth at the cursor with the raised depth, sub_context(val_bytes) (advances the
                cursor; the sub-context is split off WHILE the depth is raised, so it carries depth + 1),
                leave_container on the outer context (also when validation failed; the error is returned either way);
                then Variant::get::<T>(): sig != T::signature() -> WrongSignature, T::unmarshal on a copy of the sub-context *)
             do r <- u_read_sig c;
             match parse_description (fst r) with
             | Ok [t'] =>
                 do c1 <- u_align (align t') (snd r);
                 do c2 <- u_enter c1;
                 do n <- validate 66 be (udepth c2) (uoff c2) (ubuf c2) t';
                 do s <- u_sub n c2;
                 if ty_eqb t' (erase x) then
                   do v <- unmarshal_t vf' be x (fst s);
                   Ok (VVariant t' (fst v), u_leave (snd s))
                 else Err
             | _ => Err
             end
         end) e c
  end.
