(** Non-vacuity for DecodeComplete / MarshalEncodable / RoundTrip: concrete values satisfy the
    hypotheses of the theorems and the models compute the stated results (vm_compute). *)
From RB Require Import Base.Prelude Sig.Types Wire.Bytes Wire.Align Wire.Text Wire.Value Wire.SpecEnc
  Wire.Marshal Wire.Relabel Wire.MarshalProofs Wire.Decode Wire.Unmarshal
  Wire.DecodeLemmas Wire.DecodeComplete Wire.MarshalEncodable Wire.RoundTrip.

(** Vec<Vec<u64>> [[1,2]] written after 4 bytes: the witness of the former defect D1 (the inner
    array's elements are 8-aligned relative to the body, not to the outer array's content) *)
Definition vv : val := VArray (TArray (TBase BUint64)) [VArray (TBase BUint64) [VBase BUint64 1; VBase BUint64 2]].
Definition ee : ety := EArray (EArray (EBase BUint64)).
Definition c4 : mctx := {| mbuf := [9; 9; 9; 9]; mfds := 0 |}.

Example vv_hyps : typed vv /\ wt vv (erase ee) = true /\ ety_matches ee vv = true /\ sendable vv
                  /\ snd (relabel vv (mfds c4)) <= 2 ^ 32.
Proof.
  split; [exists (erase ee); reflexivity|]. split; [reflexivity|]. split; [reflexivity|]. split.
  - repeat split; try reflexivity. vm_compute. discriminate.
  - vm_compute. discriminate.
Qed.

Example vv_le_bytes : marshal_t false vv c4 =
  ({| mbuf := [9; 9; 9; 9] ++ [24; 0; 0; 0] ++ [16; 0; 0; 0] ++ [0; 0; 0; 0]
              ++ [1; 0; 0; 0; 0; 0; 0; 0] ++ [2; 0; 0; 0; 0; 0; 0; 0]; mfds := 0 |}, true).
Proof. vm_compute. reflexivity. Qed.

Example vv_roundtrip_le :
  let c' := fst (marshal_t false vv c4) in
  snd (marshal_t false vv c4) = true
  /\ unmarshal_t 66 false ee {| ubuf := mbuf c' ++ [7]; uoff := 4; unfds := 0; udepth := 0 |}
     = Ok (vv, {| ubuf := mbuf c' ++ [7]; uoff := len (mbuf c'); unfds := 0; udepth := 0 |})
  /\ unmarshal_p 66 false (erase ee) {| ubuf := mbuf c' ++ [7]; uoff := 4; unfds := 0; udepth := 0 |}
     = Ok (vv, {| ubuf := mbuf c' ++ [7]; uoff := len (mbuf c'); unfds := 0; udepth := 0 |})
  /\ validate_marshalled false 4 (mbuf c' ++ [7]) (erase ee) = Ok 28.
Proof. vm_compute. repeat split; reflexivity. Qed.

Example vv_roundtrip_be :
  let c' := fst (marshal_t true vv c4) in
  snd (marshal_t true vv c4) = true
  /\ unmarshal_t 66 true ee {| ubuf := mbuf c' ++ [7]; uoff := 4; unfds := 0; udepth := 0 |}
     = Ok (vv, {| ubuf := mbuf c' ++ [7]; uoff := len (mbuf c'); unfds := 0; udepth := 0 |})
  /\ unmarshal_p 66 true (erase ee) {| ubuf := mbuf c' ++ [7]; uoff := 4; unfds := 0; udepth := 0 |}
     = Ok (vv, {| ubuf := mbuf c' ++ [7]; uoff := len (mbuf c'); unfds := 0; udepth := 0 |})
  /\ validate_marshalled true 4 (mbuf c' ++ [7]) (erase ee) = Ok 28.
Proof. vm_compute. repeat split; reflexivity. Qed.

(* the theorem applied to the witness *)
Example vv_by_theorem : forall be c' suf, marshal_t be vv c4 = (c', true) ->
  unmarshal_t 66 be ee {| ubuf := mbuf c' ++ suf; uoff := 4; unfds := mfds c'; udepth := 0 |}
  = Ok (vv, {| ubuf := mbuf c' ++ suf; uoff := len (mbuf c'); unfds := mfds c'; udepth := 0 |}).
Proof.
  intros be c' suf H. destruct vv_hyps as (Hty & _ & Hm & Hs & Hb).
  exact (roundtrip_typed be vv ee c4 c' suf Hty Hm Hs Hb H).
Qed.

(** a dict of variants (HashMap<String, Variant>), read back typed as variants of u64 and dynamically *)
Definition dv : val :=
  VDict BString TVariant
    [(VText BString [97], VVariant (TBase BUint64) (VBase BUint64 1));
     (VText BString [98; 99], VVariant (TBase BUint64) (VBase BUint64 (2 ^ 63)))].
Definition de : ety := EDict BString (EVar (EBase BUint64)).
Definition c1 : mctx := {| mbuf := [9]; mfds := 0 |}.

Example dv_hyps : typed dv /\ ety_matches de dv = true /\ sendable dv /\ snd (relabel dv (mfds c1)) <= 2 ^ 32.
Proof.
  split; [exists (erase de); reflexivity|]. split; [reflexivity|]. split.
  - repeat split; try reflexivity. vm_compute. discriminate.
  - vm_compute. discriminate.
Qed.

Example dv_roundtrip : forall be, be = true \/ be = false ->
  let c' := fst (marshal_t be dv c1) in
  snd (marshal_t be dv c1) = true
  /\ unmarshal_t 66 be de {| ubuf := mbuf c' ++ [7; 7]; uoff := 1; unfds := 0; udepth := 0 |}
     = Ok (dv, {| ubuf := mbuf c' ++ [7; 7]; uoff := len (mbuf c'); unfds := 0; udepth := 0 |})
  /\ marshal_p be 0 dv c1 = marshal_t be dv c1
  /\ unmarshal_p 66 be (erase de) {| ubuf := mbuf c' ++ [7; 7]; uoff := 1; unfds := 0; udepth := 0 |}
     = Ok (dv, {| ubuf := mbuf c' ++ [7; 7]; uoff := len (mbuf c'); unfds := 0; udepth := 0 |}).
Proof. intros be [-> | ->]; vm_compute; repeat split; reflexivity. Qed.

(* heterogeneous variants, dynamic API *)
Definition dh : val :=
  VDict BString TVariant
    [(VText BString [97], VVariant (TArray (TBase BByte)) (VArray (TBase BByte) [VBase BByte 1; VBase BByte 2; VBase BByte 3]));
     (VText BString [98], VVariant (TStruct [TBase BInt16; TBase BDouble]) (VStruct [VBase BInt16 65535; VBase BDouble 0]))].

Example dh_hyps : wt dh (TDict BString TVariant) = true /\ sendable dh /\ snd (relabel dh 0) <= 2 ^ 32.
Proof.
  split; [reflexivity|]. split.
  - repeat split; try reflexivity. vm_compute. discriminate.
  - vm_compute. discriminate.
Qed.

Example dh_roundtrip : forall be, be = true \/ be = false ->
  let c' := fst (marshal_p be 0 dh c1) in
  snd (marshal_p be 0 dh c1) = true
  /\ unmarshal_p 66 be (TDict BString TVariant) {| ubuf := mbuf c'; uoff := 1; unfds := 0; udepth := 0 |}
     = Ok (dh, {| ubuf := mbuf c'; uoff := len (mbuf c'); unfds := 0; udepth := 0 |}).
Proof. intros be [-> | ->]; vm_compute; repeat split; reflexivity. Qed.

(** a struct with a string and a descriptor: the handle (0 = live) is read back as its index in
    the message's descriptor list (here 3 descriptors were attached before) *)
Definition sv : val := VStruct [VText BString [104; 105]; VBase BUnixFd 0].
Definition se : ety := EStruct [EBase BString; EBase BUnixFd].
Definition c3 : mctx := {| mbuf := [1; 2; 3]; mfds := 3 |}.

Example sv_hyps : typed sv /\ ety_matches se sv = true /\ sendable sv /\ snd (relabel sv (mfds c3)) <= 2 ^ 32.
Proof.
  split; [exists (erase se); reflexivity|]. split; [reflexivity|]. split.
  - repeat split; try reflexivity. vm_compute. discriminate.
  - vm_compute. discriminate.
Qed.

Example sv_roundtrip : forall be, be = true \/ be = false ->
  let c' := fst (marshal_t be sv c3) in
  snd (marshal_t be sv c3) = true /\ mfds c' = 4
  /\ fst (relabel sv (mfds c3)) = VStruct [VText BString [104; 105]; VBase BUnixFd 3]
  /\ unmarshal_t 66 be se {| ubuf := mbuf c' ++ [5]; uoff := 3; unfds := 4; udepth := 0 |}
     = Ok (VStruct [VText BString [104; 105]; VBase BUnixFd 3],
           {| ubuf := mbuf c' ++ [5]; uoff := len (mbuf c'); unfds := 4; udepth := 0 |}).
Proof. intros be [-> | ->]; vm_compute; repeat split; reflexivity. Qed.

(** two values pushed one after the other are read back one after the other *)
Example seq_example : forall be, be = true \/ be = false ->
  let c' := fst (marshal_seq (marshal_t be) [vv; sv] c1) in
  snd (marshal_seq (marshal_t be) [vv; sv] c1) = true
  /\ dec_all ety (unmarshal_t 66 be) [ee; se] {| ubuf := mbuf c'; uoff := 1; unfds := mfds c'; udepth := 0 |}
     = Ok ([vv; VStruct [VText BString [104; 105]; VBase BUnixFd 0]],
           {| ubuf := mbuf c'; uoff := len (mbuf c'); unfds := mfds c'; udepth := 0 |}).
Proof. intros be [-> | ->]; vm_compute; repeat split; reflexivity. Qed.

(** the hypotheses of the completeness theorems on a specification encoding directly *)
Example complete_hyps : wt dh (TDict BString TVariant) = true /\ encodable true 5 0 dh = true /\ fds_below 0 dh = true.
Proof. vm_compute. repeat split; reflexivity. Qed.
