(** C04, body parser: on a body whose signature passed validation, with ANY requested Rust type and ANY
    bytes in the buffer, MessageBodyParser::{get, get2..5, get_param, get_next_sig, sigs_left} return a
    value or an error - the unwraps in has_sig, SignatureIter and get_param are never reached - and leave
    the parser in a state of the same kind.
    Models: Wire/Body.v (parser), Wire/HasSig.v (has_sig of the typed impls), Sig/Iter.v (SignatureIter),
    all by the lead; totality of the decoders: Wire/DecodeTotal.v (prover-c03). Only the composition is here. *)
From RB Require Import Base.Prelude Sig.Types Sig.Parser Sig.ParserProofs Sig.Validator Sig.ValidatorProofs Sig.Iter
  Wire.Bytes Wire.Align Wire.Text Wire.Value Wire.SpecEnc Wire.Marshal Wire.Decode Wire.Unmarshal
  Wire.Relabel Wire.Ops Wire.DecodeSoundLemmas Wire.DecodeLemmas Wire.DecodeTotal Wire.HasSig Wire.HasSigProofs Wire.Body Wire.BodyProofs.

(** the parser stands after the first types of a valid body signature, its buffer index inside the buffer *)
Definition parser_ok (p : parser) : Prop :=
  exists before after,
    sig_of_types (bsig (pbody p)) (before ++ after)
    /\ psig_idx p = len (to_str_list before)
    /\ pbuf_idx p <= len (bbuf (pbody p)).

(* MarshalledMessageBody::from_parts(buf, offset, fds, sig, byteorder).parser() with a signature that passed
   validate_signature (the empty signature included): get_buf() = buf[offset..] is the model's buffer *)
Lemma parser_ok_new be sig buf nfds : ValidSig sig ->
  parser_ok (new_parser {| bbe := be; bsig := sig; bbuf := buf; bfds := nfds |}).
Proof.
  intros [ts H]. exists [], ts. cbn [new_parser pbody psig_idx pbuf_idx bsig bbuf app to_str_list flat_map].
  split; [exact H|]. split; [reflexivity|]. lia.
Qed.

Lemma forallb_app_inv {A} (f : A -> bool) a b : forallb f (a ++ b) = true -> forallb f a = true /\ forallb f b = true.
Proof. rewrite forallb_app. apply andb_prop. Qed.

Lemma len_to_str_list_le ts t : In t ts -> len (to_str t) <= len (to_str_list ts).
Proof.
  induction ts as [|x ts IH]; intros Hin; [destruct Hin|]. unfold to_str_list. cbn [flat_map]. fold (to_str_list ts).
  rewrite len_app. destruct Hin as [->|Hin]; [lia|]. specialize (IH Hin). lia.
Qed.

(* every type of a valid signature can stand alone in a variant signature *)
Lemma sig_type_ok s ts t : sig_of_types s ts -> In t ts -> type_ok t = true.
Proof.
  intros (Hl & Hw & Hd & ->) Hin. rewrite forallb_forall in Hw, Hd. unfold type_ok.
  rewrite (Hw t Hin), (Hd t Hin). cbn [andb]. apply N.leb_le. pose proof (len_to_str_list_le ts t Hin). lia.
Qed.

Lemma parser_at_of_ok p before t after :
  sig_of_types (bsig (pbody p)) (before ++ t :: after) -> psig_idx p = len (to_str_list before) ->
  parser_at p before t after.
Proof. intros (_ & _ & _ & E) Hi. split; assumption. Qed.

(** ** get_next_sig and sigs_left *)
Theorem get_next_sig_total p : parser_ok p -> exists o, get_next_sig p = Ok o.
Proof.
  intros (before & after & Hs & Hi & _). destruct after as [|t after].
  - unfold get_next_sig. destruct Hs as (_ & _ & _ & E). rewrite app_nil_r in E. rewrite E, Hi.
    rewrite N.leb_refl. eauto.
  - rewrite (get_next_sig_at p before t after (parser_at_of_ok _ _ _ _ Hs Hi)). eauto.
Qed.

Theorem sigs_left_total p : parser_ok p -> exists n, sigs_left p = Ok n.
Proof.
  intros (before & after & Hs & Hi & _). destruct Hs as (_ & _ & _ & E). unfold sigs_left. rewrite E, Hi.
  rewrite to_str_list_app, len_app.
  destruct (N.leb_spec (len (to_str_list before) + len (to_str_list after)) (len (to_str_list before))); [eauto|].
  rewrite skipnN_app_len. rewrite iter_all_types; [cbn [bind]; eauto|].
  pose proof (length_flat_ge after). rewrite app_length. lia.
Qed.

(** ** get::<T>() for an arbitrary requested type *)
Theorem get_total p e : parser_ok p -> ewf e = true -> (evars e <= 65)%nat ->
  exists p' r, get p e = Ok (p', r) /\ parser_ok p'.
Proof.
  intros Hok Hw Hv. pose proof Hok as (before & after & Hs & Hi & Hb). destruct after as [|t after].
  - unfold get. destruct Hs as (_ & _ & _ & E). rewrite app_nil_r in E. unfold get_next_sig. rewrite E, Hi, N.leb_refl.
    cbn [bind]. eauto.
  - pose proof (parser_at_of_ok _ _ _ _ Hs Hi) as Hat. unfold get. rewrite (get_next_sig_at _ _ _ _ Hat). cbn [bind].
    rewrite has_sig_exact. cbn [bind]. destruct (ty_eqb (erase e) t); cbn [negb]; [|eauto].
    set (c0 := {| ubuf := bbuf (pbody p); uoff := pbuf_idx p; unfds := bfds (pbody p); udepth := 0 |}).
    pose proof (unmarshal_t_good (bbe (pbody p)) 66 e c0 Hw Hb ltac:(lia)) as G.
    destruct (unmarshal_t 66 (bbe (pbody p)) e c0) as [[v c]| | | |]; try contradiction; [|eauto].
    eexists _, _. split; [reflexivity|]. destruct G as [_ G]. cbn [snd ubuf uoff c0] in G.
    exists (before ++ [t]), after. cbn [pbody psig_idx pbuf_idx]. rewrite <- app_assoc. cbn [app].
    split; [exact Hs|]. split; [rewrite to_str_list_app, len_app, Hi; unfold to_str_list; cbn [flat_map]; now rewrite app_nil_r|lia].
Qed.

(** ** get_param *)
Theorem get_param_total p : parser_ok p -> exists p' r, get_param p = Ok (p', r) /\ parser_ok p'.
Proof.
  intros Hok. pose proof Hok as (before & after & Hs & Hi & Hb). destruct after as [|t after].
  - unfold get_param. destruct Hs as (_ & _ & _ & E). rewrite app_nil_r in E. unfold get_next_sig. rewrite E, Hi, N.leb_refl.
    cbn [bind]. eauto.
  - pose proof (parser_at_of_ok _ _ _ _ Hs Hi) as Hat. unfold get_param. rewrite (get_next_sig_at _ _ _ _ Hat). cbn [bind].
    assert (Htok : type_ok t = true) by (eapply sig_type_ok; [exact Hs|apply in_or_app; right; now left]).
    rewrite (parse_description_single t Htok).
    set (c0 := {| ubuf := bbuf (pbody p); uoff := pbuf_idx p; unfds := bfds (pbody p); udepth := 0 |}).
    pose proof (unmarshal_p_good (bbe (pbody p)) 66 t c0 (type_ok_wf _ Htok) Hb ltac:(lia) ltac:(cbn; lia)) as G.
    destruct (unmarshal_p 66 (bbe (pbody p)) t c0) as [[v c]| | | |]; try contradiction; [|eauto].
    eexists _, _. split; [reflexivity|]. destruct G as [_ G]. cbn [snd ubuf uoff c0] in G.
    exists (before ++ [t]), after. cbn [pbody psig_idx pbuf_idx]. rewrite <- app_assoc. cbn [app].
    split; [exact Hs|]. split; [rewrite to_str_list_app, len_app, Hi; unfold to_str_list; cbn [flat_map]; now rewrite app_nil_r|lia].
Qed.

(** ** get2 .. get5 (any number of requested types) *)
Lemma get_all_total : forall es p acc, parser_ok p -> Forall (fun e => ewf e = true /\ (evars e <= 65)%nat) es ->
  exists p' r, get_all p es acc = Ok (p', r) /\ parser_ok p'.
Proof.
  induction es as [|e es IH]; intros p acc Hok Hall; cbn [get_all]; [eauto|].
  apply Forall_cons_iff in Hall. destruct Hall as [[Hw Hv] Hall].
  destruct (get_total p e Hok Hw Hv) as (p1 & r1 & -> & Hok1). cbn [bind].
  destruct r1; eauto.
Qed.

Theorem get_n_total p es : parser_ok p -> Forall (fun e => ewf e = true /\ (evars e <= 65)%nat) es ->
  exists p' r, get_n p es = Ok (p', r) /\ parser_ok p'.
Proof.
  intros Hok Hall. unfold get_n. destruct (sigs_left_total p Hok) as [n ->]. cbn [bind].
  destruct (n <? len es); [eauto|].
  destruct (get_all_total es p [] Hok Hall) as (p1 & r1 & -> & Hok1). cbn [bind]. destruct r1; eauto.
Qed.

(** ** MarshalledMessageBody::validate and MarshalledMessage::unmarshall_all: every type of the parsed signature in turn *)
Lemma validate_marshalled_good be off buf t : wf t = true -> off <= len buf -> vgood off buf (validate_marshalled be off buf t).
Proof. intros Hw Ho. unfold validate_marshalled. apply validate_good; [exact Hw|exact Ho|lia|cbn; lia]. Qed.

Theorem validate_seq_total be buf : forall tys used, forallb wf tys = true -> used <= len buf ->
  ok_or_err (validate_seq be buf tys used).
Proof.
  induction tys as [|t tys IH]; intros used Hw Hu; cbn [validate_seq]; [exact I|].
  cbn [forallb] in Hw. apply andb_prop in Hw. destruct Hw as [Ht Hts].
  pose proof (validate_marshalled_good be used buf t Ht Hu) as G.
  destruct (validate_marshalled be used buf t) as [n| | | |]; cbn [bind vgood] in *; try contradiction; [|exact I].
  apply IH; [exact Hts|lia].
Qed.

Lemma unmarshal_p_good_66 be t c : wf t = true -> uoff c <= len (ubuf c) -> udepth c = 0 -> good c (unmarshal_p 66 be t c).
Proof. intros Hw Ho Hd. apply unmarshal_p_good; [exact Hw|exact Ho|lia|rewrite Hd; cbn; lia]. Qed.

(* the depth counter is back at its start after every value (unmarshal_body starts at 0) *)
Theorem unmarshal_p_seq_total be : forall tys c acc, forallb wf tys = true -> uoff c <= len (ubuf c) -> udepth c = 0 ->
  ok_or_err (unmarshal_p_seq be tys c acc).
Proof.
  induction tys as [|t tys IH]; intros c acc Hw Hu Hd; cbn [unmarshal_p_seq]; [exact I|].
  cbn [forallb] in Hw. apply andb_prop in Hw. destruct Hw as [Ht Hts].
  pose proof (unmarshal_p_good_66 be t c Ht Hu Hd) as G.
  destruct (unmarshal_p 66 be t c) as [x| | | |]; cbn [bind good] in *; try contradiction; [|exact I].
  destruct G as [E G]. apply IH; [exact Hts| |]; rewrite E; cbn [set_off ubuf uoff udepth]; [lia|exact Hd].
Qed.
