(** C04, step counting: instrumented copy of the raw validator model of Wire/Decode.v
    (rustbus/src/wire/validate_raw.rs: validate_marshalled, validate_marshalled_at_depth,
    validate_marshalled_container_at_depth).

    [validate_s] is [validate] clause by clause; every result is paired with a counter of the STEPS made:
      - 1 for every call of validate_marshalled_at_depth (every entry of [vt], the call for the content of a
        variant included),
      - 1 for every round of an element loop (`while bytes_used_counter < bytes_in_array`, arrays and dicts),
      - 1 for every round of the field loop of a struct (`for field_sig in sigs`),
      - 1 for the direct call of validate_marshalled_base for a dict key.
    The helpers of wire/util.rs (align_offset, parse_u32, check_array_len, unmarshal_str, unmarshal_signature),
    validate_signature / parse_description (Sig/, property C07) and validate_marshalled_base are not
    recursive; a call of one of them is part of the step that makes it and is not counted again (each of them
    reads the bytes it consumes once: at most 7 padding bytes, the 4 length bytes, the string / signature).
    The projection theorem (Wire/StepsProofs.v: [validate_s_proj]) says the first component IS [validate]. *)
From RB Require Import Base.Prelude Sig.Types Sig.Parser Sig.Validator Wire.Bytes Wire.Align Wire.Text Wire.Value
  Wire.SpecEnc Wire.Decode.

(** a result with the number of steps made to get it *)
Definition counted (A : Type) : Type := (outcome A * N)%type.
(* an uncounted helper call *)
Definition lift {A} (o : outcome A) : counted A := (o, 0).
(* one step *)
Definition tick {A} (x : counted A) : counted A := (fst x, 1 + snd x).
(* `?` / sequencing: the steps of both parts when the first returns, the steps so far when it fails *)
Definition bind_s {A B} (x : counted A) (f : A -> counted B) : counted B :=
  match fst x with
  | Ok a => let y := f a in (fst y, snd x + snd y)
  | Err => (Err, snd x)
  | Panic => (Panic, snd x)
  | UB => (UB, snd x)
  | OutOfFuel => (OutOfFuel, snd x)
  end.
Notation "'dos' x <- o ; k" := (bind_s o (fun x => k)) (at level 200, x pattern, o at level 100, k at level 200, right associativity).

(* [elem_loop] with one step per round *)
Fixpoint elem_loop_s (one : N -> counted N) (lf : nat) (offset n used : N) : counted N :=
  if used <? n then
    match lf with
    | O => (OutOfFuel, 0)
    | S lf' => tick (dos k <- one (offset + used); elem_loop_s one lf' offset n (used + k))
    end
  else (Ok used, 0).

(* [validate] (Wire/Decode.v) with the counter *)
Fixpoint validate_s (vf : nat) (be : bool) (depth : N) (offset : N) (buf : list N) (t : ty) {struct vf} : counted N :=
  match vf with
  | O => (OutOfFuel, 0)
  | S vf' =>
      (fix vt (t : ty) (depth offset : N) (buf : list N) {struct t} : counted N :=
         tick                                               (* one call of validate_marshalled_at_depth *)
         match t with
         | TBase b => lift (validate_base be offset buf b)
         | _ =>
             if MAX_DEPTH <=? depth then lift Err else
             let depth := depth + 1 in
             match t with
             | TBase _ => lift Err
             | TArray e =>
                 dos padding <- lift (align_offset 4 buf offset);
                 let offset := offset + padding in
                 dos n <- lift (parse_u32_at be buf offset);
                 dos n <- lift (check_array_len n);
                 let offset := offset + 4 in
                 if len buf - offset <? n then lift Err else
                 dos fp <- lift (align_offset (align e) buf offset);
                 let offset := offset + fp in
                 if len buf - offset <? n then lift Err else
                 if bytes_always_valid e then
                   lift (if n mod align e =? 0 then Ok (padding + 4 + fp + n) else Err)
                 else
                   let clipped := firstnN (offset + n) buf in
                   dos used <- elem_loop_s (fun p => vt e depth p clipped) (S (N.to_nat n)) offset n 0;
                   lift (Ok (padding + 4 + fp + n))
             | TDict k v =>
                 dos padding <- lift (align_offset 4 buf offset);
                 let offset := offset + padding in
                 dos n <- lift (parse_u32_at be buf offset);
                 dos n <- lift (check_array_len n);
                 let offset := offset + 4 in
                 if len buf - offset <? n then lift Err else
                 dos bp <- lift (align_offset 8 buf offset);
                 let offset := offset + bp in
                 if len buf - offset <? n then lift Err else
                 let clipped := firstnN (offset + n) buf in
                 dos used <- elem_loop_s (fun p =>
                                         dos ep <- lift (align_offset 8 clipped p);
                                         dos kb <- tick (lift (validate_base be (p + ep) clipped k));   (* the key call *)
                                         dos vb <- vt v depth (p + ep + kb) clipped;
                                         lift (Ok (ep + kb + vb)))
                                      (S (N.to_nat n)) offset n 0;
                 lift (Ok (padding + bp + 4 + used))
             | TStruct ts =>
                 dos padding <- lift (align_offset 8 buf offset);
                 let offset := offset + padding in
                 dos used <- (fix fields (l : list ty) (used : N) : counted N :=
                               match l with
                               | [] => lift (Ok used)
                               | f :: r => tick (dos k <- vt f depth (offset + used) buf; fields r (used + k))
                               end) ts 0;
                 lift (Ok (padding + used))
             | TVariant =>
                 dos r <- lift (unmarshal_signature buf offset);
                 let '(sb, sg) := r in
                 dos tys <- lift (parse_description sg);
                 match tys with
                 | [t'] => dos pb <- validate_s vf' be depth (offset + sb) buf t'; lift (Ok (sb + pb))
                 | _ => lift Err
                 end
             end
         end) t depth offset buf
  end.

(* validate_marshalled(byteorder, offset, raw, sig) with its step count; same fuel as [validate_marshalled] *)
Definition validate_marshalled_s (be : bool) (offset : N) (buf : list N) (t : ty) : counted N :=
  validate_s 66 be 0 offset buf t.

(** the weight of one byte at nesting depth [d]: two steps for each container level that may still be
    entered (its call and the loop round that made the call) and one for the value itself *)
Definition step_weight (d : N) : N := 2 * (MAX_DEPTH - d) + 1.
