(** C18, send path: the two entry points the earlier theorems did not reach.
    (1) The message limit over the model of the header marshaller (Msg/Header.v, builder-header): wire::marshal::marshal
        refuses when the header AS marshal_header PRODUCES IT, padded to 8, plus the body exceeds 2^27 bytes.
    (2) impl Marshal for params::Variant (params/types.rs) = marshal::container::marshal_variant_param: the typed push of a
        Param variant is the public Param entry point applied to the variant, so C18_send_limits_param covers it. *)
From RB Require Import Base.Prelude Sig.Types Sig.Parser Sig.Validator Wire.Bytes Wire.Align Wire.Text Wire.Value Wire.SpecEnc
  Wire.Marshal Wire.Relabel Wire.MarshalProofs Wire.Limits Wire.LimitsSend Wire.LimitsKnown Msg.Header Msg.HeaderProofs.

Lemma MAX_MESSAGE_LEN_is : Header.MAX_MESSAGE_LEN = MAX_MESSAGE. Proof. reflexivity. Qed.

Theorem send_message_limit : forall m serial,
  match marshal_msg m serial with
  | Ok hb => exists h, marshal_header m serial = Ok h
             /\ hb = insert4 (m_be m) (len (m_body m)) 4 (pad_to 8 h)
             /\ len (pad_to 8 h) + len (m_body m) <= MAX_MESSAGE
             /\ len (m_body m) mod 2 ^ 32 = len (m_body m)
  | Err => marshal_header m serial = Err
           \/ exists h, marshal_header m serial = Ok h /\ MAX_MESSAGE < len (pad_to 8 h) + len (m_body m)
  | _ => False
  end.
Proof.
  intros m serial. pose proof (marshal_msg_total m serial) as T. unfold marshal_msg in *.
  destruct (marshal_header m serial) as [h| | | |]; cbn [bind] in *; try contradiction; [|now left].
  rewrite MAX_MESSAGE_LEN_is. destruct (N.ltb_spec MAX_MESSAGE (len (pad_to 8 h) + len (m_body m))) as [H|H].
  - right. exists h. auto.
  - exists h. repeat split; try assumption. apply N.mod_small. unfold MAX_MESSAGE in H.
    assert (2 ^ 27 < 2 ^ 32) by (cbn; lia). lia.
Qed.

(* marshal/param/container.rs:
     pub fn marshal_variant_param(var, ctx) { check_param_shape(&var.value, 1)?; marshal_variant(var, ctx, 1) }
     fn marshal_variant(var, ctx, depth) { if var.sig != var.value.sig() { Err }; marshal_signature(sig)?; marshal_param_at_depth(&var.value, ctx, depth) }
   (the variant itself is the container at depth 0; [t] = var.sig, [x] = var.value) *)
Definition marshal_variant_param (be : bool) (t : ty) (x : val) (c : mctx) : mres :=
  if shape_ok 1 x then
    if negb (ty_eqb (ty_of x) t) then (c, false) else
    if is_ok (validate_signature (to_str t)) then
      marshal_p be 1 x {| mbuf := write_signature (to_str t) (mbuf c); mfds := mfds c |}
    else (c, false)
  else (c, false).

Theorem marshal_variant_param_top be t x c :
  marshal_variant_param be t x c = marshal_param_top be (VVariant t x) c.
Proof.
  unfold marshal_variant_param, marshal_param_top. cbn [shape_ok marshal_p].
  change (MAX_DEPTH <=? 0) with false. cbv iota. change (0 + 1) with 1. reflexivity.
Qed.

(* ... hence what the typed push of a params::Variant accepts respects the limits like every Param tree *)
Corollary send_limits_variant_entry : forall be t x, typed (VVariant t x) -> strings_small (VVariant t x) = true -> forall c c',
  marshal_variant_param be t x c = (c', true) -> snd (relabel (VVariant t x) (mfds c)) <= 2 ^ 32 ->
  vdepth (VVariant t x) <= MAX_DEPTH
  /\ arrays_within be (len (mbuf c)) (fst (relabel (VVariant t x) (mfds c))) = true.
Proof.
  intros be t x Ht Hs c c' H Hb. rewrite marshal_variant_param_top in H. exact (send_limits_param be (VVariant t x) Ht Hs c c' H Hb).
Qed.
