(** Model of Signature::has_sig for the typed impls (rustbus/src/wire/marshal/traits/{base,container}.rs,
    wire/unmarshal/traits/container.rs) and for #[derive(Signature)] structs (rustbus_derive/src/structs.rs,
    which after the fix mirrors the tuple impl). [s] is the signature the body parser hands over: one
    complete type taken from the body signature by SignatureIter. *)
From RB Require Import Base.Prelude Sig.Types Sig.Parser Sig.ParserProofs Sig.Iter Wire.Value Wire.Unmarshal.

Definition starts_with (c : N) (s : list N) : bool := match s with x :: _ => x =? c | [] => false end.

(* iter.next() of SignatureIter::new(s): Ok None at the end, Panic when the bracket scan runs off the end *)
Definition sig_next (s : list N) : outcome (option (list N * list N)) := iter_next s.

(* n times iter.next(): Ok None when the iterator ends early ("else { return false }") *)
Fixpoint take_sigs (n : nat) (s : list N) (acc : list (list N)) : outcome (option (list (list N) * list N)) :=
  match n with
  | O => Ok (Some (rev acc, s))
  | S n' =>
      do r <- sig_next s;
      match r with
      | None => Ok None
      | Some (x, rest) => take_sigs n' rest (x :: acc)
      end
  end.

Fixpoint has_sig (e : ety) (s : list N) {struct e} : outcome bool :=
  match e with
  | EBase b => Ok (starts_with (base_char b) s)
  | EVar _ => Ok (starts_with c_v s)
  | EArray x =>
      (* strip_prefix('a'); SignatureIter::new(&sig[1..]).next().unwrap() *)
      match s with
      | c :: rest =>
          if c =? c_a then
            do r <- sig_next rest;
            match r with
            | Some (first, _) => has_sig x first
            | None => Panic
            end
          else Ok false
      | [] => Ok false
      end
  | EDict k v =>
      (* sig.starts_with("a{"); SignatureIter::new(&sig[2..sig.len() - 1]) *)
      match s with
      | c1 :: c2 :: rest =>
          if (c1 =? c_a) && (c2 =? c_lbrace) then
            match rest with
            | [] => Panic                                        (* &sig[2..1] *)
            | _ =>
                let inner := removelast rest in
                do r1 <- sig_next inner;
                match r1 with
                | None => Panic
                | Some (ks, rest1) =>
                    if starts_with (base_char k) ks then
                      do r2 <- sig_next rest1;
                      match r2 with
                      | None => Panic
                      | Some (vs, _) => has_sig v vs
                      end
                    else Ok false
                end
            end
          else Ok false
      | _ => Ok false
      end
  | EStruct es =>
      (* strip_prefix('('), strip_suffix(')'), one iter.next() per field (else return false),
         iter.next().is_none() && E1::has_sig(s1) && ... *)
      match s with
      | c :: rest =>
          if c =? c_lpar then
            match rest with
            | [] => Ok false
            | _ =>
                if last rest 0 =? c_rpar then
                  do r <- take_sigs (length es) (removelast rest) [];
                  match r with
                  | None => Ok false
                  | Some (pieces, leftover) =>
                      do more <- sig_next leftover;
                      match more with
                      | Some _ => Ok false
                      | None =>
                          (fix all (l : list ety) (ps : list (list N)) : outcome bool :=
                             match l, ps with
                             | f :: l', fs :: ps' => do b <- has_sig f fs; if b then all l' ps' else Ok false
                             | _, _ => Ok true
                             end) es pieces
                      end
                  end
                else Ok false
            end
          else Ok false
      | [] => Ok false
      end
  end.
