(** C02: whenever the typed or the dynamic marshaller returns Ok, what it appended to the buffer
    is exactly the specification's encoding (at the position given by the buffer length) of the
    value with its descriptor handles replaced by their indices. *)
From RB Require Import Base.Prelude Sig.Types Sig.Parser Sig.Validator Wire.Bytes Wire.Align Wire.Text
  Wire.Value Wire.SpecEnc Wire.Marshal Wire.Relabel.

(** ** small facts *)
Lemma pad_to_spec a buf : 0 < a -> pad_to a buf = buf ++ zeros (padlen a (len buf)).
Proof. intros Ha. unfold pad_to. now rewrite pad_amount_padlen. Qed.

Lemma base_align_pos b : 0 < base_align b. Proof. destruct b; cbn; lia. Qed.
Lemma align_pos t : 0 < align t. Proof. destruct t; cbn; try lia. apply base_align_pos. Qed.

Lemma len_zeros4 : len [0; 0; 0; 0] = 4. Proof. reflexivity. Qed.
Lemma enc4_0 be : enc be 4 0 = [0; 0; 0; 0]. Proof. destruct be; reflexivity. Qed.

Lemma insert4_spec be n pre rest : n < 2 ^ 32 ->
  insert4 be n (len pre) (pre ++ [0; 0; 0; 0] ++ rest) = pre ++ enc be 4 n ++ rest.
Proof.
  intros Hn. unfold insert4. rewrite N.mod_small by exact Hn. rewrite firstnN_app_len.
  f_equal. f_equal. rewrite app_assoc.
  replace (len pre + 4) with (len (pre ++ [0; 0; 0; 0])) by (rewrite len_app; reflexivity).
  apply skipnN_app_len.
Qed.

Lemma ty_eqb_refl t : ty_eqb t t = true.
Proof.
  induction t as [b|e IHe|ts IHts|k v IHv|] using ty_ind'; cbn [ty_eqb].
  - unfold base_eqb. apply N.eqb_refl.
  - exact IHe.
  - induction ts as [|x xs IH]; [reflexivity|]. apply Forall_cons_iff in IHts. destruct IHts as [Hx Hxs].
    rewrite Hx. cbn [andb]. now apply IH.
  - unfold base_eqb. rewrite N.eqb_refl. exact IHv.
  - reflexivity.
Qed.

(** hypotheses of the theorem: well-typed values (what Rust's types guarantee), strings shorter
    than 4 GiB (the length is written with `as u32`) *)
Definition wtv (v : val) : bool := wt v (ty_of v).

Fixpoint strings_small (v : val) : bool :=
  match v with
  | VBase _ _ => true
  | VText _ s => len s <? 2 ^ 32
  | VArray _ vs | VStruct vs => forallb strings_small vs
  | VDict _ _ kvs => forallb (fun kv => strings_small (fst kv) && strings_small (snd kv)) kvs
  | VVariant _ x => strings_small x
  end.

(** ** the statement, for one value *)
Definition marshal_ok (m : val -> mctx -> mres) (be : bool) (v : val) : Prop :=
  forall c c', m v c = (c', true) ->
    snd (relabel v (mfds c)) <= 2 ^ 32 ->
    mbuf c' = mbuf c ++ spec_enc be (len (mbuf c)) (fst (relabel v (mfds c)))
    /\ mfds c' = snd (relabel v (mfds c)).

Lemma relabel_mono v n : n <= snd (relabel v n).
Proof.
  revert n. induction v as [b k|b s|t vs IH|vs IH|k vt kvs IH|t x IH] using val_ind'; intros n; cbn [relabel].
  - destruct b; cbn; lia.
  - cbn; lia.
  - assert (H : forall l m, Forall (fun v => forall n, n <= snd (relabel v n)) l -> m <= snd (relabel_list relabel l m)).
    { induction l as [|y l IHl]; intros m Hall; [cbn; lia|]. rewrite relabel_list_cons.
      apply Forall_cons_iff in Hall. destruct Hall as [Hy Hl]. specialize (Hy m).
      destruct (relabel y m) as [y' n1]. specialize (IHl n1 Hl). destruct (relabel_list relabel l n1). cbn in *. lia. }
    specialize (H vs n IH). destruct (relabel_list relabel vs n). cbn in *. exact H.
  - assert (H : forall l m, Forall (fun v => forall n, n <= snd (relabel v n)) l -> m <= snd (relabel_list relabel l m)).
    { induction l as [|y l IHl]; intros m Hall; [cbn; lia|]. rewrite relabel_list_cons.
      apply Forall_cons_iff in Hall. destruct Hall as [Hy Hl]. specialize (Hy m).
      destruct (relabel y m) as [y' n1]. specialize (IHl n1 Hl). destruct (relabel_list relabel l n1). cbn in *. lia. }
    specialize (H vs n IH). destruct (relabel_list relabel vs n). cbn in *. exact H.
  - assert (H : forall l m, Forall (fun kv => (forall n, n <= snd (relabel (fst kv) n)) /\ (forall n, n <= snd (relabel (snd kv) n))) l ->
                     m <= snd (relabel_entries relabel l m)).
    { induction l as [|[a b] l IHl]; intros m Hall; [cbn; lia|]. rewrite relabel_entries_cons.
      apply Forall_cons_iff in Hall. destruct Hall as [[Ha Hb] Hl]. cbn [fst snd] in Ha, Hb. specialize (Ha m).
      destruct (relabel a m) as [a' n1]. specialize (Hb n1). destruct (relabel b n1) as [b' n2].
      specialize (IHl n2 Hl). destruct (relabel_entries relabel l n2). cbn in *. lia. }
    specialize (H kvs n IH). destruct (relabel_entries relabel kvs n). cbn in *. exact H.
  - specialize (IH n). destruct (relabel x n). cbn in *. exact IH.
Qed.

(** sequences *)
Lemma marshal_seq_ok m be vs :
  Forall (marshal_ok m be) vs ->
  forall c c', marshal_seq m vs c = (c', true) ->
    snd (relabel_list relabel vs (mfds c)) <= 2 ^ 32 ->
    mbuf c' = mbuf c ++ spec_enc_list be (len (mbuf c)) (fst (relabel_list relabel vs (mfds c)))
    /\ mfds c' = snd (relabel_list relabel vs (mfds c)).
Proof.
  induction vs as [|x r IH]; intros Hall c c' H Hb.
  - cbn in H. injection H as <-. cbn. rewrite app_nil_r. auto.
  - apply Forall_cons_iff in Hall. destruct Hall as [Hx Hr].
    rewrite marshal_seq_cons in H. destruct (m x c) as [c1 ok1] eqn:E1. destruct ok1; cbn [mbind] in H; [|discriminate].
    rewrite relabel_list_cons in Hb |- *.
    pose proof (relabel_mono x (mfds c)) as Hm1.
    destruct (relabel x (mfds c)) as [x' n1] eqn:Ex.
    assert (Hm2 := fun l => relabel_mono (VStruct l) n1). 
    destruct (relabel_list relabel r n1) as [r' n2] eqn:Er. cbn [fst snd] in *.
    assert (Hn12 : n1 <= n2).
    { specialize (Hm2 r). cbn [relabel] in Hm2. rewrite Er in Hm2. exact Hm2. }
    destruct (Hx c c1 E1) as [Hb1 Hf1]; [rewrite Ex; cbn; lia|]. rewrite Ex in Hb1, Hf1. cbn [fst snd] in Hb1, Hf1.
    destruct (IH Hr c1 c' H) as [Hb2 Hf2]; [rewrite Hf1, Er; exact Hb|].
    rewrite Hf1, Er in Hb2, Hf2. cbn [fst snd] in Hb2, Hf2.
    split; [|exact Hf2]. cbn [spec_enc_list]. rewrite Hb2, Hb1, len_app, <- app_assoc. reflexivity.
Qed.

(** dict entries *)
Lemma marshal_entries_ok m be kvs :
  Forall (fun kv => marshal_ok m be (fst kv) /\ marshal_ok m be (snd kv)) kvs ->
  forall c c', marshal_entries m kvs c = (c', true) ->
    snd (relabel_entries relabel kvs (mfds c)) <= 2 ^ 32 ->
    mbuf c' = mbuf c ++ spec_enc_entries be (len (mbuf c)) (fst (relabel_entries relabel kvs (mfds c)))
    /\ mfds c' = snd (relabel_entries relabel kvs (mfds c)).
Proof.
  induction kvs as [|[a b] r IH]; intros Hall c c' H Hb.
  - cbn in H. injection H as <-. cbn. rewrite app_nil_r. auto.
  - apply Forall_cons_iff in Hall. destruct Hall as [[Ha Hbb] Hr]. cbn [fst snd] in Ha, Hbb.
    rewrite marshal_entries_cons in H.
    set (c0 := {| mbuf := pad_to 8 (mbuf c); mfds := mfds c |}) in *.
    destruct (m a c0) as [c1 ok1] eqn:E1. destruct ok1; cbn [mbind] in H; [|discriminate].
    destruct (m b c1) as [c2 ok2] eqn:E2. destruct ok2; cbn [mbind] in H; [|discriminate].
    rewrite relabel_entries_cons in Hb |- *.
    pose proof (relabel_mono a (mfds c)) as Hm1.
    destruct (relabel a (mfds c)) as [a' n1] eqn:Ea.
    pose proof (relabel_mono b n1) as Hm2.
    destruct (relabel b n1) as [b' n2] eqn:Eb.
    assert (Hm3 := relabel_mono (VDict BByte TVariant r) n2). cbn [relabel] in Hm3.
    destruct (relabel_entries relabel r n2) as [r' n3] eqn:Er. cbn [fst snd] in *.
    destruct (Ha c0 c1 E1) as [Hb1 Hf1]; [subst c0; cbn [mfds]; rewrite Ea; cbn; lia|].
    subst c0. cbn [mfds mbuf] in Hb1, Hf1. rewrite Ea in Hb1, Hf1. cbn [fst snd] in Hb1, Hf1.
    destruct (Hbb c1 c2 E2) as [Hb2 Hf2]; [rewrite Hf1, Eb; cbn; lia|]. rewrite Hf1, Eb in Hb2, Hf2. cbn [fst snd] in Hb2, Hf2.
    destruct (IH Hr c2 c' H) as [Hb3 Hf3]; [rewrite Hf2, Er; exact Hb|]. rewrite Hf2, Er in Hb3, Hf3. cbn [fst snd] in Hb3, Hf3.
    split; [|exact Hf3]. cbn [spec_enc_entries]. unfold spec_enc_entry. cbn [fst snd]. cbv zeta.
    rewrite len_zeros.
    set (pos := len (mbuf c)) in *. set (p := padlen 8 pos) in *.
    assert (L0 : len (pad_to 8 (mbuf c)) = pos + p).
    { rewrite pad_to_spec by lia. rewrite len_app, len_zeros. reflexivity. }
    rewrite L0 in Hb1.
    set (ea := spec_enc be (pos + p) a') in *.
    assert (L1 : len (mbuf c1) = pos + p + len ea) by (rewrite Hb1, len_app, L0; reflexivity).
    rewrite L1 in Hb2.
    set (eb := spec_enc be (pos + p + len ea) b') in *.
    assert (L2 : len (mbuf c2) = pos + len (zeros p ++ ea ++ eb)).
    { rewrite Hb2, len_app, L1, !len_app, len_zeros. lia. }
    rewrite L2 in Hb3. rewrite Hb3, Hb2, Hb1. rewrite pad_to_spec by lia. fold pos. fold p.
    rewrite <- !app_assoc. reflexivity.
Qed.

(** ** what typing gives *)
Lemma wt_base_inv x b : wt x (TBase b) = true ->
  (exists k, x = VBase b k /\ is_text b = false /\ k < 256 ^ N.of_nat (base_size b)) \/ (exists s, x = VText b s /\ is_text b = true).
Proof.
  destruct x as [b0 k|b0 s|?|?|?|?]; cbn [wt]; try discriminate.
  - intros H. apply andb_prop in H. destruct H as [H _]. apply andb_prop in H. destruct H as [H Hk].
    apply andb_prop in H. destruct H as [Hb Ht]. destruct (base_eqb_spec b0 b) as [->|]; [|discriminate].
    left. exists k. apply N.ltb_lt in Hk. split; [reflexivity|]. split; [now destruct (is_text b)|exact Hk].
  - intros H. apply andb_prop in H. destruct H as [Hb Ht]. destruct (base_eqb_spec b0 b) as [->|]; [|discriminate].
    right. eauto.
Qed.

(** the memcpy fast path: elements of fixed width, already aligned, native byte order *)
Lemma fast_body be b vs : (be = false \/ b = BByte) -> is_text b = false ->
  base_align b = N.of_nat (base_size b) ->
  Forall (fun x => exists k, x = VBase b k /\ k < 256 ^ N.of_nat (base_size b)) vs ->
  forall pos, pos mod base_align b = 0 ->
    spec_enc_list be pos vs = flat_map (fun x => match x with VBase b0 k => enc false (base_size b0) k | _ => [] end) vs
    /\ len (spec_enc_list be pos vs) = base_align b * len vs.
Proof.
  intros Hbe Ht Hsz Hall. induction Hall as [|x r (k & -> & Hk) Hr IH]; intros pos Hpos.
  - cbn. split; [reflexivity|]. change (len (@nil val)) with 0. lia.
  - cbn [spec_enc_list flat_map spec_enc]. rewrite padlen_0 by (try apply base_align_pos; exact Hpos).
    cbn [zeros N.to_nat repeat app].
    assert (Ee : enc be (base_size b) k = enc false (base_size b) k).
    { destruct Hbe as [->| ->]; [reflexivity|]. destruct be; reflexivity. }
    rewrite Ee. rewrite len_enc.
    assert (Hp' : (pos + N.of_nat (base_size b)) mod base_align b = 0).
    { rewrite <- Hsz. pose proof (base_align_pos b) as Hap.
      apply N.mod_divide in Hpos; [|lia]. destruct Hpos as [q ->].
      replace (q * base_align b + base_align b) with ((q + 1) * base_align b) by lia. apply N.mod_mul. lia. }
    destruct (IH _ Hp') as [E1 E2]. rewrite E1. split; [reflexivity|].
    rewrite len_app, len_enc, <- E1, E2, len_cons, Hsz. lia.
Qed.

Lemma relabel_list_nofd vs n : Forall (fun x => exists b k, x = VBase b k /\ b <> BUnixFd) vs ->
  relabel_list relabel vs n = (vs, n).
Proof.
  induction 1 as [|x r (b & k & -> & Hb) Hr IH]; [reflexivity|]. rewrite relabel_list_cons.
  assert (E : relabel (VBase b k) n = (VBase b k, n)) by (destruct b; try reflexivity; now elim Hb).
  rewrite E, IH. reflexivity.
Qed.

(** ** typing inversion for containers *)
Definition typed (x : val) : Prop := exists t, wt x t = true.

Lemma wt_array_inv t vs T : wt (VArray t vs) T = true -> Forall (fun x => wt x t = true) vs.
Proof. destruct T; cbn [wt]; try discriminate. intros H. apply andb_prop in H. destruct H as [_ H].
  apply Forall_forall. now apply forallb_forall. Qed.
Lemma wt_struct_inv vs T : wt (VStruct vs) T = true -> Forall typed vs.
Proof.
  destruct T as [|?|ts|? ?|]; cbn [wt]; try discriminate. revert ts.
  induction vs as [|x r IH]; intros ts H; [constructor|]. destruct ts as [|t ts]; [discriminate|].
  apply andb_prop in H. destruct H as [Hx Hr]. constructor; [now exists t|now apply (IH ts)].
Qed.
Lemma wt_dict_inv k vt kvs T : wt (VDict k vt kvs) T = true ->
  Forall (fun kv => wt (fst kv) (TBase k) = true /\ wt (snd kv) vt = true) kvs.
Proof. destruct T; cbn [wt]; try discriminate. intros H. apply andb_prop in H. destruct H as [_ H].
  apply Forall_forall. intros kv Hin. rewrite forallb_forall in H. specialize (H kv Hin). now apply andb_prop in H. Qed.
Lemma wt_variant_inv t x T : wt (VVariant t x) T = true -> wt x t = true.
Proof. destruct T; cbn [wt]; try discriminate. auto. Qed.

Lemma valid_slice_inv be t : valid_slice be t = true ->
  exists b, t = TBase b /\ is_text b = false /\ b <> BUnixFd /\ base_align b = N.of_nat (base_size b) /\ (be = false \/ b = BByte).
Proof.
  destruct t as [b|?|?|? ?|]; cbn [valid_slice]; try discriminate.
  destruct b; try discriminate; intros H; eexists; (split; [reflexivity|]); (split; [reflexivity|]);
    (split; [discriminate|]); (split; [reflexivity|]); try (right; reflexivity); left; now destruct be.
Qed.

Lemma validate_signature_len s : is_ok (validate_signature s) = true -> len s <= 255.
Proof. unfold validate_signature. destruct (N.ltb_spec 255 (len s)); [discriminate|]. intros _. lia. Qed.

(** ** the typed marshaller *)
Lemma marshal_base_ok be b k : is_text b = false -> k < 256 ^ N.of_nat (base_size b) ->
  marshal_ok (fun v c => match v with VBase b k => marshal_base be b k c | _ => (c, false) end) be (VBase b k).
Proof.
  intros Ht Hk c c' H Hb. unfold marshal_base in H.
  destruct b; try discriminate Ht;
    try (injection H as <-; cbn [mbuf mfds relabel fst snd spec_enc]; rewrite pad_to_spec by (cbn; lia);
         rewrite <- app_assoc; split; reflexivity).
  - (* byte *) injection H as <-. cbn [mbuf mfds relabel fst snd spec_enc base_align]. rewrite padlen_1.
    cbn [zeros N.to_nat repeat app base_size enc]. split; [|reflexivity]. f_equal.
    unfold enc. cbn in Hk. destruct be; cbn; rewrite N.mod_small by lia; reflexivity.
  - (* fd *) cbn [relabel snd] in Hb. destruct (k =? 0); [|discriminate]. injection H as <-.
    cbn [mbuf mfds relabel fst snd spec_enc base_align base_size]. rewrite pad_to_spec by lia.
    rewrite N.mod_small by lia. rewrite <- app_assoc. split; reflexivity.
Qed.

Lemma Forall_typed_of_wt t vs : Forall (fun x => wt x t = true) vs -> Forall typed vs.
Proof. intros H. eapply Forall_impl; [|exact H]. intros x Hx. now exists t. Qed.

Lemma Forall_combine (P Q R : val -> Prop) l :
  Forall (fun x => P x -> Q x -> R x) l -> Forall P l -> Forall Q l -> Forall R l.
Proof. induction l as [|x l IH]; intros H1 H2 H3; [constructor|].
  apply Forall_cons_iff in H1, H2, H3. destruct H1, H2, H3. constructor; auto. Qed.

Theorem marshal_t_spec be : forall v, typed v -> strings_small v = true -> marshal_ok (marshal_t be) be v.
Proof.
  induction v as [b k|b s|t vs IH|vs IH|kb vt kvs IH|t x IH] using val_ind'; intros [T Hwt] Hss.
  - (* base *)
    destruct T as [b'|?|?|? ?|]; try discriminate Hwt.
    destruct (wt_base_inv _ _ Hwt) as [(k0 & E & Ht & Hk)|(s & E & _)]; [|discriminate].
    injection E as <- <-.
    intros c c' H Hb. apply (marshal_base_ok be b k Ht Hk c c' H Hb).
  - (* text *)
    destruct T as [b'|?|?|? ?|]; try discriminate Hwt. cbn [wt] in Hwt. apply andb_prop in Hwt. destruct Hwt as [_ Ht].
    cbn [strings_small] in Hss. apply N.ltb_lt in Hss.
    intros c c' H _. cbn [relabel fst snd]. destruct b; try discriminate Ht; cbn [marshal_t] in H.
    + (* string *)
      destruct (negb (has_nul s)); cbn [andb] in H; [|discriminate]. injection H as <-.
      cbn [mbuf mfds spec_enc]. unfold write_string. rewrite pad_to_spec by lia. rewrite N.mod_small by exact Hss.
      rewrite <- !app_assoc. split; reflexivity.
    + (* signature *)
      destruct (is_ok (validate_signature s)) eqn:Ev; [|discriminate]. injection H as <-.
      cbn [mbuf mfds spec_enc]. unfold write_signature, sig_bytes. apply validate_signature_len in Ev.
      rewrite N.mod_small by lia. split; reflexivity.
    + (* object path *)
      destruct (valid_path s && negb (has_nul s)); [|discriminate]. injection H as <-.
      cbn [mbuf mfds spec_enc]. unfold write_string. rewrite pad_to_spec by lia. rewrite N.mod_small by exact Hss.
      rewrite <- !app_assoc. split; reflexivity.
  - (* array *)
    pose proof (wt_array_inv _ _ _ Hwt) as Hel.
    cbn [strings_small] in Hss. rewrite forallb_forall in Hss. apply Forall_forall in Hss.
    assert (Hok : Forall (marshal_ok (marshal_t be) be) vs).
    { apply (Forall_combine typed (fun x => strings_small x = true)); [exact IH|now apply (Forall_typed_of_wt t)|exact Hss]. }
    intros c c' H Hb. rewrite marshal_t_array in H. cbv zeta in H. cbn [relabel] in Hb |- *.
    rewrite (pad_to_spec 4 (mbuf c)) in H by lia.
    set (pos := len (mbuf c)) in *. set (p1 := padlen 4 pos) in *.
    destruct (valid_slice be t) eqn:Evs.
    + (* memcpy fast path *)
      destruct (valid_slice_inv _ _ Evs) as (b & -> & Htx & Hnfd & Hsz & Hbe).
      assert (Hvs : Forall (fun x => exists k, x = VBase b k /\ k < 256 ^ N.of_nat (base_size b)) vs).
      { eapply Forall_impl; [|exact Hel]. intros x Hx. destruct (wt_base_inv _ _ Hx) as [(k & -> & _ & Hk)|(s & -> & Hts)]; [eauto|congruence]. }
      rewrite relabel_list_nofd in Hb |- * by (eapply Forall_impl; [|exact Hvs]; intros x (k & -> & _); eauto).
      cbn [fst snd] in *. cbn [align] in H.
      destruct (MAX_ARRAY <? base_align b * len vs); [discriminate|]. injection H as <-. cbn [mbuf mfds].
      rewrite spec_enc_array. cbv zeta. cbn [align]. fold pos. fold p1.
      rewrite pad_to_spec by apply base_align_pos. rewrite !len_app, len_zeros, len_enc.
      change (N.of_nat 4) with 4. fold pos. fold p1.
      set (p2 := padlen (base_align b) (pos + p1 + 4)).
      assert (Hal : (pos + p1 + 4 + p2) mod base_align b = 0) by (apply padlen_aligned, base_align_pos).
      destruct (fast_body be b vs Hbe Htx Hsz Hvs _ Hal) as [E1 E2].
      rewrite E2, E1. rewrite <- !app_assoc. split; reflexivity.
    + (* element loop *)
      set (b3 := pad_to (align t) ((mbuf c ++ zeros p1) ++ [0; 0; 0; 0])) in *.
      assert (Eb3 : b3 = mbuf c ++ zeros p1 ++ [0; 0; 0; 0] ++ zeros (padlen (align t) (pos + p1 + 4))).
      { subst b3. rewrite pad_to_spec by apply align_pos. rewrite !len_app, len_zeros, len_zeros4. fold pos. fold p1.
        rewrite <- !app_assoc. reflexivity. }
      set (p2 := padlen (align t) (pos + p1 + 4)) in *.
      assert (Lb3 : len b3 = pos + p1 + 4 + p2).
      { rewrite Eb3, !len_app, !len_zeros, len_zeros4. fold pos. lia. }
      destruct (relabel_list relabel vs (mfds c)) as [vs' n'] eqn:Er. cbn [fst snd] in *.
      rewrite spec_enc_array. cbv zeta. fold pos. fold p1. fold p2.
      destruct vs as [|x0 vs0].
      { injection H as <-. cbn in Er. injection Er as <- <-. cbn [mbuf mfds spec_enc_list].
        change (len (@nil N)) with 0. rewrite enc4_0, app_nil_r, Eb3. split; reflexivity. }
      set (vs := x0 :: vs0) in *.
      destruct (marshal_seq (marshal_t be) vs {| mbuf := b3; mfds := mfds c |}) as [c1 ok1] eqn:Es.
      destruct ok1; cbn [mbind] in H; [|discriminate].
      destruct (marshal_seq_ok _ be vs Hok _ _ Es) as [Hb1 Hf1]; [cbn [mfds]; rewrite Er; exact Hb|].
      cbn [mbuf mfds] in Hb1, Hf1. rewrite Er in Hb1, Hf1. cbn [fst snd] in Hb1, Hf1. rewrite Lb3 in Hb1.
      set (body := spec_enc_list be (pos + p1 + 4 + p2) vs') in *.
      assert (Ln : len (mbuf c1) - len b3 = len body) by (rewrite Hb1, len_app; lia).
      rewrite Ln in H. destruct (N.ltb_spec MAX_ARRAY (len body)) as [|Hmax]; [discriminate|]. injection H as <-.
      cbn [mbuf mfds]. split; [|exact Hf1].
      rewrite Hb1, Eb3. unfold MAX_ARRAY in Hmax.
      replace (mbuf c ++ zeros p1 ++ [0; 0; 0; 0] ++ zeros p2) with ((mbuf c ++ zeros p1) ++ [0; 0; 0; 0] ++ zeros p2)
        by (now rewrite <- app_assoc).
      rewrite <- (app_assoc (mbuf c ++ zeros p1)). rewrite <- (app_assoc [0; 0; 0; 0]).
      rewrite insert4_spec by (assert (2 ^ 26 < 2 ^ 32) by (apply N.pow_lt_mono_r; lia); lia).
      rewrite <- !app_assoc. reflexivity.
  - (* struct *)
    pose proof (wt_struct_inv _ _ Hwt) as Hel.
    cbn [strings_small] in Hss. rewrite forallb_forall in Hss. apply Forall_forall in Hss.
    assert (Hok : Forall (marshal_ok (marshal_t be) be) vs)
      by (apply (Forall_combine typed (fun x => strings_small x = true)); assumption).
    intros c c' H Hb. rewrite marshal_t_struct in H. cbn [relabel] in Hb |- *.
    destruct (relabel_list relabel vs (mfds c)) as [vs' n'] eqn:Er. cbn [fst snd] in *.
    destruct (marshal_seq_ok _ be vs Hok _ _ H) as [Hb1 Hf1]; [cbn [mfds]; rewrite Er; exact Hb|].
    cbn [mbuf mfds] in Hb1, Hf1. rewrite Er in Hb1, Hf1. cbn [fst snd] in Hb1, Hf1.
    rewrite pad_to_spec in Hb1 by lia. rewrite len_app, len_zeros in Hb1.
    rewrite spec_enc_struct. rewrite Hb1, <- app_assoc. split; [reflexivity|exact Hf1].
  - (* dict *)
    pose proof (wt_dict_inv _ _ _ _ Hwt) as Hel.
    cbn [strings_small] in Hss. rewrite forallb_forall in Hss.
    assert (Hok : Forall (fun kv => marshal_ok (marshal_t be) be (fst kv) /\ marshal_ok (marshal_t be) be (snd kv)) kvs).
    { apply Forall_forall. intros kv Hin. rewrite Forall_forall in IH, Hel.
      destruct (IH kv Hin) as [IHa IHb]. destruct (Hel kv Hin) as [Hwa Hwb].
      specialize (Hss kv Hin). apply andb_prop in Hss. destruct Hss as [Hsa Hsb].
      split; [apply IHa; [now exists (TBase kb)|exact Hsa]|apply IHb; [now exists vt|exact Hsb]]. }
    intros c c' H Hb. rewrite marshal_t_dict in H. cbv zeta in H. cbn [relabel] in Hb |- *.
    rewrite (pad_to_spec 4 (mbuf c)) in H by lia.
    set (pos := len (mbuf c)) in *. set (p1 := padlen 4 pos) in *.
    set (b3 := pad_to 8 ((mbuf c ++ zeros p1) ++ [0; 0; 0; 0])) in *.
    assert (Eb3 : b3 = mbuf c ++ zeros p1 ++ [0; 0; 0; 0] ++ zeros (padlen 8 (pos + p1 + 4))).
    { subst b3. rewrite pad_to_spec by lia. rewrite !len_app, len_zeros, len_zeros4. fold pos. fold p1.
      rewrite <- !app_assoc. reflexivity. }
    set (p2 := padlen 8 (pos + p1 + 4)) in *.
    assert (Lb3 : len b3 = pos + p1 + 4 + p2).
    { rewrite Eb3, !len_app, !len_zeros, len_zeros4. fold pos. lia. }
    destruct (relabel_entries relabel kvs (mfds c)) as [kvs' n'] eqn:Er. cbn [fst snd] in *.
    rewrite spec_enc_dict. cbv zeta. fold pos. fold p1. fold p2.
    destruct kvs as [|kv0 kvs0].
    { injection H as <-. cbn in Er. injection Er as <- <-. cbn [mbuf mfds spec_enc_entries].
      change (len (@nil N)) with 0. rewrite enc4_0, app_nil_r, Eb3. split; reflexivity. }
    set (kvs := kv0 :: kvs0) in *.
    destruct (marshal_entries (marshal_t be) kvs {| mbuf := b3; mfds := mfds c |}) as [c1 ok1] eqn:Es.
    destruct ok1; cbn [mbind] in H; [|discriminate].
    destruct (marshal_entries_ok _ be kvs Hok _ _ Es) as [Hb1 Hf1]; [cbn [mfds]; rewrite Er; exact Hb|].
    cbn [mbuf mfds] in Hb1, Hf1. rewrite Er in Hb1, Hf1. cbn [fst snd] in Hb1, Hf1. rewrite Lb3 in Hb1.
    set (body := spec_enc_entries be (pos + p1 + 4 + p2) kvs') in *.
    assert (Ln : len (mbuf c1) - len b3 = len body) by (rewrite Hb1, len_app; lia).
    rewrite Ln in H. destruct (N.ltb_spec MAX_ARRAY (len body)) as [|Hmax]; [discriminate|]. injection H as <-.
    cbn [mbuf mfds]. split; [|exact Hf1].
    rewrite Hb1, Eb3. unfold MAX_ARRAY in Hmax.
    replace (mbuf c ++ zeros p1 ++ [0; 0; 0; 0] ++ zeros p2) with ((mbuf c ++ zeros p1) ++ [0; 0; 0; 0] ++ zeros p2)
      by (now rewrite <- app_assoc).
    rewrite <- (app_assoc (mbuf c ++ zeros p1)). rewrite <- (app_assoc [0; 0; 0; 0]).
    rewrite insert4_spec by (assert (2 ^ 26 < 2 ^ 32) by (apply N.pow_lt_mono_r; lia); lia).
    rewrite <- !app_assoc. reflexivity.
  - (* variant *)
    pose proof (wt_variant_inv _ _ _ Hwt) as Hx. cbn [strings_small] in Hss.
    specialize (IH (ex_intro _ t Hx) Hss).
    intros c c' H Hb. cbn [marshal_t] in H. cbv zeta in H. cbn [relabel] in Hb |- *.
    destruct (N.ltb_spec 255 (len (to_str t))) as [|Hl]; [discriminate|].
    destruct (is_ok (validate_signature (to_str t))) eqn:Evs; [|discriminate].
    destruct (relabel x (mfds c)) as [x' n'] eqn:Er. cbn [fst snd] in *.
    destruct (IH _ _ H) as [Hb1 Hf1]; [cbn [mfds]; rewrite Er; exact Hb|].
    cbn [mbuf mfds] in Hb1, Hf1. rewrite Er in Hb1, Hf1. cbn [fst snd] in Hb1, Hf1.
    cbn [spec_enc]. cbv zeta. unfold write_signature in Hb1. rewrite N.mod_small in Hb1 by lia.
    unfold sig_bytes. rewrite Hb1. split; [|exact Hf1].
    change ([len (to_str t)] ++ to_str t ++ [0]) with (len (to_str t) :: to_str t ++ [0]).
    rewrite len_app, <- app_assoc. reflexivity.
Qed.

(** ** the dynamic (Param) marshaller *)
Lemma pad_to_idem a buf : 0 < a -> pad_to a (pad_to a buf) = pad_to a buf.
Proof.
  intros Ha. rewrite (pad_to_spec a (pad_to a buf)) by exact Ha. rewrite pad_to_spec by exact Ha.
  rewrite len_app, len_zeros.
  rewrite (padlen_0 a (len buf + padlen a (len buf)) Ha (padlen_aligned a (len buf) Ha)).
  cbn. now rewrite app_nil_r.
Qed.

Lemma marshal_base_padded_ok be b k c c' :
  marshal_base be b k {| mbuf := pad_to (base_align b) (mbuf c); mfds := mfds c |} = (c', true) ->
  marshal_base be b k c = (c', true).
Proof.
  unfold marshal_base. destruct b; cbn [mbuf mfds base_align];
    try (rewrite pad_to_idem by lia; intros H; exact H).
  - unfold pad_to, pad_amount. rewrite N.mod_1_r. cbn. now rewrite app_nil_r.
  - destruct (k =? 0); [|discriminate]. rewrite pad_to_idem by lia. intros H; exact H.
Qed.

Theorem marshal_p_spec be : forall v, typed v -> strings_small v = true -> forall d, marshal_ok (marshal_p be d) be v.
Proof.
  induction v as [b k|b s|t vs IH|vs IH|kb vt kvs IH|t x IH] using val_ind'; intros [T Hwt] Hss d.
  - (* base *)
    destruct T as [b'|?|?|? ?|]; try discriminate Hwt.
    destruct (wt_base_inv _ _ Hwt) as [(k0 & E & Ht & Hk)|(s & E & _)]; [|discriminate].
    injection E as <- <-.
    intros c c' H Hb. cbn [marshal_p] in H. apply marshal_base_padded_ok in H.
    apply (marshal_base_ok be b k Ht Hk c c' H Hb).
  - (* text *)
    destruct T as [b'|?|?|? ?|]; try discriminate Hwt. cbn [wt] in Hwt. apply andb_prop in Hwt. destruct Hwt as [_ Ht].
    cbn [strings_small] in Hss. apply N.ltb_lt in Hss.
    intros c c' H _. cbn [relabel fst snd]. destruct b; try discriminate Ht; cbn [marshal_p base_align mbuf mfds] in H.
    + destruct (has_nul s); [discriminate|]. injection H as <-.
      cbn [mbuf mfds spec_enc]. unfold write_string. rewrite pad_to_spec by lia. rewrite N.mod_small by exact Hss.
      rewrite <- !app_assoc. split; reflexivity.
    + destruct (is_ok (validate_signature s)) eqn:Ev; [|discriminate]. injection H as <-.
      cbn [mbuf mfds spec_enc]. unfold write_signature, sig_bytes. apply validate_signature_len in Ev.
      rewrite N.mod_small by lia. unfold pad_to, pad_amount. rewrite N.mod_1_r. cbn [N.sub N.eqb zeros N.to_nat repeat].
      change (1 - 0 =? 1) with true. cbv iota. cbn [zeros N.to_nat repeat]. rewrite app_nil_r. split; reflexivity.
    + destruct (valid_path s); [|discriminate]. injection H as <-.
      cbn [mbuf mfds spec_enc]. unfold write_string. rewrite pad_to_spec by lia. rewrite N.mod_small by exact Hss.
      rewrite <- !app_assoc. split; reflexivity.
  - (* array *)
    pose proof (wt_array_inv _ _ _ Hwt) as Hel.
    cbn [strings_small] in Hss. rewrite forallb_forall in Hss. apply Forall_forall in Hss.
    assert (Hok : Forall (marshal_ok (marshal_p be (d + 1)) be) vs).
    { apply (Forall_combine typed (fun x => strings_small x = true) _ vs); [|now apply (Forall_typed_of_wt t)|exact Hss].
      eapply Forall_impl; [|exact IH]. intros x Hx H1 H2. now apply Hx. }
    intros c c' H Hb. rewrite marshal_p_array in H. cbv zeta in H. cbn [relabel] in Hb |- *.
    destruct (MAX_DEPTH <=? d); [discriminate|]. destruct (negb _); [discriminate|].
    rewrite (pad_to_spec 4 (mbuf c)) in H by lia.
    set (pos := len (mbuf c)) in *. set (p1 := padlen 4 pos) in *.
    set (b3 := pad_to (align t) ((mbuf c ++ zeros p1) ++ [0; 0; 0; 0])) in *.
    assert (Eb3 : b3 = mbuf c ++ zeros p1 ++ [0; 0; 0; 0] ++ zeros (padlen (align t) (pos + p1 + 4))).
    { subst b3. rewrite pad_to_spec by apply align_pos. rewrite !len_app, len_zeros, len_zeros4. fold pos. fold p1.
      rewrite <- !app_assoc. reflexivity. }
    set (p2 := padlen (align t) (pos + p1 + 4)) in *.
    assert (Lb3 : len b3 = pos + p1 + 4 + p2).
    { rewrite Eb3, !len_app, !len_zeros, len_zeros4. fold pos. lia. }
    destruct (relabel_list relabel vs (mfds c)) as [vs' n'] eqn:Er. cbn [fst snd] in *.
    rewrite spec_enc_array. cbv zeta. fold pos. fold p1. fold p2.
    destruct (marshal_seq (marshal_p be (d + 1)) vs {| mbuf := b3; mfds := mfds c |}) as [c1 ok1] eqn:Es.
    destruct ok1; cbn [mbind] in H; [|discriminate].
    destruct (marshal_seq_ok _ be vs Hok _ _ Es) as [Hb1 Hf1]; [cbn [mfds]; rewrite Er; exact Hb|].
    cbn [mbuf mfds] in Hb1, Hf1. rewrite Er in Hb1, Hf1. cbn [fst snd] in Hb1, Hf1. rewrite Lb3 in Hb1.
    set (body := spec_enc_list be (pos + p1 + 4 + p2) vs') in *.
    assert (Ln : len (mbuf c1) - len b3 = len body) by (rewrite Hb1, len_app; lia).
    rewrite Ln in H. destruct (N.ltb_spec MAX_ARRAY (len body)) as [|Hmax]; [discriminate|]. injection H as <-.
    cbn [mbuf mfds]. split; [|exact Hf1].
    rewrite Hb1, Eb3. unfold MAX_ARRAY in Hmax.
    replace (mbuf c ++ zeros p1 ++ [0; 0; 0; 0] ++ zeros p2) with ((mbuf c ++ zeros p1) ++ [0; 0; 0; 0] ++ zeros p2)
      by (now rewrite <- app_assoc).
    rewrite <- (app_assoc (mbuf c ++ zeros p1)). rewrite <- (app_assoc [0; 0; 0; 0]).
    rewrite insert4_spec by (assert (2 ^ 26 < 2 ^ 32) by (apply N.pow_lt_mono_r; lia); lia).
    rewrite <- !app_assoc. reflexivity.
  - (* struct *)
    pose proof (wt_struct_inv _ _ Hwt) as Hel.
    cbn [strings_small] in Hss. rewrite forallb_forall in Hss. apply Forall_forall in Hss.
    assert (Hok : Forall (marshal_ok (marshal_p be (d + 1)) be) vs).
    { apply (Forall_combine typed (fun x => strings_small x = true) _ vs); [|assumption|assumption].
      eapply Forall_impl; [|exact IH]. intros x Hx H1 H2. now apply Hx. }
    intros c c' H Hb. rewrite marshal_p_struct in H. cbn [relabel] in Hb |- *.
    destruct (MAX_DEPTH <=? d); [discriminate|].
    destruct (relabel_list relabel vs (mfds c)) as [vs' n'] eqn:Er. cbn [fst snd] in *.
    destruct (marshal_seq_ok _ be vs Hok _ _ H) as [Hb1 Hf1]; [cbn [mfds]; rewrite Er; exact Hb|].
    cbn [mbuf mfds] in Hb1, Hf1. rewrite Er in Hb1, Hf1. cbn [fst snd] in Hb1, Hf1.
    rewrite pad_to_spec in Hb1 by lia. rewrite len_app, len_zeros in Hb1.
    rewrite spec_enc_struct. rewrite Hb1, <- app_assoc. split; [reflexivity|exact Hf1].
  - (* dict *)
    pose proof (wt_dict_inv _ _ _ _ Hwt) as Hel.
    cbn [strings_small] in Hss. rewrite forallb_forall in Hss.
    assert (Hok : Forall (fun kv => marshal_ok (marshal_p be (d + 1)) be (fst kv) /\ marshal_ok (marshal_p be (d + 1)) be (snd kv)) kvs).
    { apply Forall_forall. intros kv Hin. rewrite Forall_forall in IH, Hel.
      destruct (IH kv Hin) as [IHa IHb]. destruct (Hel kv Hin) as [Hwa Hwb].
      specialize (Hss kv Hin). apply andb_prop in Hss. destruct Hss as [Hsa Hsb].
      split; [apply IHa; [now exists (TBase kb)|exact Hsa]|apply IHb; [now exists vt|exact Hsb]]. }
    intros c c' H Hb. rewrite marshal_p_dict in H. cbv zeta in H. cbn [relabel] in Hb |- *.
    destruct (MAX_DEPTH <=? d); [discriminate|]. destruct (negb _); [discriminate|].
    rewrite (pad_to_spec 4 (mbuf c)) in H by lia.
    set (pos := len (mbuf c)) in *. set (p1 := padlen 4 pos) in *.
    set (b3 := pad_to 8 ((mbuf c ++ zeros p1) ++ [0; 0; 0; 0])) in *.
    assert (Eb3 : b3 = mbuf c ++ zeros p1 ++ [0; 0; 0; 0] ++ zeros (padlen 8 (pos + p1 + 4))).
    { subst b3. rewrite pad_to_spec by lia. rewrite !len_app, len_zeros, len_zeros4. fold pos. fold p1.
      rewrite <- !app_assoc. reflexivity. }
    set (p2 := padlen 8 (pos + p1 + 4)) in *.
    assert (Lb3 : len b3 = pos + p1 + 4 + p2).
    { rewrite Eb3, !len_app, !len_zeros, len_zeros4. fold pos. lia. }
    destruct (relabel_entries relabel kvs (mfds c)) as [kvs' n'] eqn:Er. cbn [fst snd] in *.
    rewrite spec_enc_dict. cbv zeta. fold pos. fold p1. fold p2.
    destruct (marshal_entries (marshal_p be (d + 1)) kvs {| mbuf := b3; mfds := mfds c |}) as [c1 ok1] eqn:Es.
    destruct ok1; cbn [mbind] in H; [|discriminate].
    destruct (marshal_entries_ok _ be kvs Hok _ _ Es) as [Hb1 Hf1]; [cbn [mfds]; rewrite Er; exact Hb|].
    cbn [mbuf mfds] in Hb1, Hf1. rewrite Er in Hb1, Hf1. cbn [fst snd] in Hb1, Hf1. rewrite Lb3 in Hb1.
    set (body := spec_enc_entries be (pos + p1 + 4 + p2) kvs') in *.
    assert (Ln : len (mbuf c1) - len b3 = len body) by (rewrite Hb1, len_app; lia).
    rewrite Ln in H. destruct (N.ltb_spec MAX_ARRAY (len body)) as [|Hmax]; [discriminate|]. injection H as <-.
    cbn [mbuf mfds]. split; [|exact Hf1].
    rewrite Hb1, Eb3. unfold MAX_ARRAY in Hmax.
    replace (mbuf c ++ zeros p1 ++ [0; 0; 0; 0] ++ zeros p2) with ((mbuf c ++ zeros p1) ++ [0; 0; 0; 0] ++ zeros p2)
      by (now rewrite <- app_assoc).
    rewrite <- (app_assoc (mbuf c ++ zeros p1)). rewrite <- (app_assoc [0; 0; 0; 0]).
    rewrite insert4_spec by (assert (2 ^ 26 < 2 ^ 32) by (apply N.pow_lt_mono_r; lia); lia).
    rewrite <- !app_assoc. reflexivity.
  - (* variant *)
    pose proof (wt_variant_inv _ _ _ Hwt) as Hx. cbn [strings_small] in Hss.
    specialize (IH (ex_intro _ t Hx) Hss (d + 1)).
    intros c c' H Hb. cbn [marshal_p] in H. cbv zeta in H. cbn [relabel] in Hb |- *.
    destruct (MAX_DEPTH <=? d); [discriminate|]. destruct (negb (ty_eqb (ty_of x) t)); [discriminate|].
    destruct (is_ok (validate_signature (to_str t))) eqn:Ev; [|discriminate]. apply validate_signature_len in Ev.
    destruct (relabel x (mfds c)) as [x' n'] eqn:Er. cbn [fst snd] in *.
    destruct (IH _ _ H) as [Hb1 Hf1]; [cbn [mfds]; rewrite Er; exact Hb|].
    cbn [mbuf mfds] in Hb1, Hf1. rewrite Er in Hb1, Hf1. cbn [fst snd] in Hb1, Hf1.
    cbn [spec_enc]. cbv zeta. unfold write_signature in Hb1. rewrite N.mod_small in Hb1 by lia.
    unfold sig_bytes. rewrite Hb1. split; [|exact Hf1].
    change ([len (to_str t)] ++ to_str t ++ [0]) with (len (to_str t) :: to_str t ++ [0]).
    rewrite len_app, <- app_assoc. reflexivity.
Qed.

(** ** refusal: whatever has no valid encoding is rejected *)
Fixpoint leaves_ok (v : val) : bool :=
  match v with
  | VBase BUnixFd k => k =? 0                           (* the descriptor has not been taken *)
  | VBase _ _ => true
  | VText BString s => negb (has_nul s)
  | VText BObjectPath s => valid_path s
  | VText BSignature s => is_ok (validate_signature s)
  | VText _ _ => false
  | VArray _ vs | VStruct vs => forallb leaves_ok vs
  | VDict _ _ kvs => forallb (fun kv => leaves_ok (fst kv) && leaves_ok (snd kv)) kvs
  | VVariant t x => (len (to_str t) <=? 255) && leaves_ok x
  end.

Definition accepts_only_ok (m : val -> mctx -> mres) (v : val) : Prop :=
  forall c c', m v c = (c', true) -> leaves_ok v = true.

Lemma marshal_seq_leaves m vs : Forall (accepts_only_ok m) vs ->
  forall c c', marshal_seq m vs c = (c', true) -> forallb leaves_ok vs = true.
Proof.
  induction vs as [|x r IH]; intros Hall c c' H; [reflexivity|].
  apply Forall_cons_iff in Hall. destruct Hall as [Hx Hr]. rewrite marshal_seq_cons in H.
  destruct (m x c) as [c1 [|]] eqn:E1; cbn [mbind] in H; [|discriminate].
  cbn [forallb]. rewrite (Hx _ _ E1). exact (IH Hr _ _ H).
Qed.
Lemma marshal_entries_leaves m kvs :
  Forall (fun kv => accepts_only_ok m (fst kv) /\ accepts_only_ok m (snd kv)) kvs ->
  forall c c', marshal_entries m kvs c = (c', true) ->
  forallb (fun kv => leaves_ok (fst kv) && leaves_ok (snd kv)) kvs = true.
Proof.
  induction kvs as [|[a b] r IH]; intros Hall c c' H; [reflexivity|].
  apply Forall_cons_iff in Hall. destruct Hall as [[Ha Hb] Hr]. cbn [fst snd] in Ha, Hb.
  rewrite marshal_entries_cons in H.
  destruct (m a _) as [c1 [|]] eqn:E1; cbn [mbind] in H; [|discriminate].
  destruct (m b c1) as [c2 [|]] eqn:E2; cbn [mbind] in H; [|discriminate].
  cbn [forallb fst snd]. rewrite (Ha _ _ E1), (Hb _ _ E2). exact (IH Hr _ _ H).
Qed.

Lemma marshal_base_leaves be b k c c' : marshal_base be b k c = (c', true) -> leaves_ok (VBase b k) = true.
Proof. unfold marshal_base. destruct b; try reflexivity. cbn [leaves_ok]. destruct (k =? 0); [reflexivity|discriminate]. Qed.

Theorem marshal_t_refuses be : forall v, typed v -> accepts_only_ok (marshal_t be) v.
Proof.
  induction v as [b k|b s|t vs IH|vs IH|kb vt kvs IH|t x IH] using val_ind'; intros [T Hwt] c c' H.
  - cbn [marshal_t] in H. now apply marshal_base_leaves in H.
  - destruct T as [b'|?|?|? ?|]; try discriminate Hwt. cbn [wt] in Hwt. apply andb_prop in Hwt. destruct Hwt as [_ Ht].
    destruct b; try discriminate Ht; cbn [marshal_t leaves_ok] in *.
    + destruct (negb (has_nul s)); [reflexivity|discriminate].
    + destruct (is_ok (validate_signature s)); [reflexivity|discriminate].
    + destruct (valid_path s); [reflexivity|discriminate].
  - pose proof (Forall_typed_of_wt _ _ (wt_array_inv _ _ _ Hwt)) as Hty.
    assert (Hok : Forall (accepts_only_ok (marshal_t be)) vs).
    { apply Forall_forall. intros x Hin. rewrite Forall_forall in IH, Hty. apply IH; auto. }
    rewrite marshal_t_array in H. cbv zeta in H. cbn [leaves_ok].
    destruct (valid_slice be t) eqn:Evs.
    + destruct (valid_slice_inv _ _ Evs) as (b & -> & Htx & Hnfd & _).
      pose proof (wt_array_inv _ _ _ Hwt) as Hel. apply forallb_forall. intros x Hin. rewrite Forall_forall in Hel.
      destruct (wt_base_inv _ _ (Hel x Hin)) as [(k & -> & _)|(s & -> & Hts)]; [|congruence].
      destruct b; try reflexivity. now elim Hnfd.
    + destruct vs as [|x0 vs0]; [reflexivity|].
      destruct (marshal_seq (marshal_t be) (x0 :: vs0) _) as [c1 [|]] eqn:Es; cbn [mbind] in H; [|discriminate].
      exact (marshal_seq_leaves _ _ Hok _ _ Es).
  - pose proof (wt_struct_inv _ _ Hwt) as Hty.
    assert (Hok : Forall (accepts_only_ok (marshal_t be)) vs).
    { apply Forall_forall. intros x Hin. rewrite Forall_forall in IH, Hty. apply IH; auto. }
    rewrite marshal_t_struct in H. cbn [leaves_ok]. exact (marshal_seq_leaves _ _ Hok _ _ H).
  - pose proof (wt_dict_inv _ _ _ _ Hwt) as Hel.
    assert (Hok : Forall (fun kv => accepts_only_ok (marshal_t be) (fst kv) /\ accepts_only_ok (marshal_t be) (snd kv)) kvs).
    { apply Forall_forall. intros kv Hin. rewrite Forall_forall in IH, Hel. destruct (IH kv Hin) as [IHa IHb].
      destruct (Hel kv Hin) as [Hwa Hwb]. split; [apply IHa; now exists (TBase kb)|apply IHb; now exists vt]. }
    rewrite marshal_t_dict in H. cbv zeta in H. cbn [leaves_ok].
    destruct kvs as [|kv0 kvs0]; [reflexivity|].
    destruct (marshal_entries (marshal_t be) (kv0 :: kvs0) _) as [c1 [|]] eqn:Es; cbn [mbind] in H; [|discriminate].
    exact (marshal_entries_leaves _ _ Hok _ _ Es).
  - cbn [marshal_t] in H. cbv zeta in H. cbn [leaves_ok].
    destruct (N.ltb_spec 255 (len (to_str t))) as [|Hl]; [discriminate|].
    destruct (is_ok (validate_signature (to_str t))) eqn:Evs; [|discriminate].
    apply N.leb_le in Hl. rewrite Hl. cbn [andb].
    apply (IH (ex_intro _ t (wt_variant_inv _ _ _ Hwt)) _ _ H).
Qed.

Theorem marshal_p_refuses be : forall v, typed v -> forall d, accepts_only_ok (marshal_p be d) v.
Proof.
  induction v as [b k|b s|t vs IH|vs IH|kb vt kvs IH|t x IH] using val_ind'; intros [T Hwt] d c c' H.
  - cbn [marshal_p] in H. now apply marshal_base_leaves in H.
  - destruct T as [b'|?|?|? ?|]; try discriminate Hwt. cbn [wt] in Hwt. apply andb_prop in Hwt. destruct Hwt as [_ Ht].
    destruct b; try discriminate Ht; cbn [marshal_p leaves_ok] in *.
    + destruct (has_nul s); [discriminate|reflexivity].
    + destruct (is_ok (validate_signature s)); [reflexivity|discriminate].
    + destruct (valid_path s); [reflexivity|discriminate].
  - pose proof (Forall_typed_of_wt _ _ (wt_array_inv _ _ _ Hwt)) as Hty.
    rewrite marshal_p_array in H. cbv zeta in H. cbn [leaves_ok].
    destruct (MAX_DEPTH <=? d); [discriminate|]. destruct (negb _); [discriminate|].
    destruct (marshal_seq _ vs _) as [c1 [|]] eqn:Es; cbn [mbind] in H; [|discriminate].
    refine (marshal_seq_leaves _ _ _ _ _ Es). apply Forall_forall. intros x Hin. rewrite Forall_forall in IH, Hty.
    apply IH; auto.
  - pose proof (wt_struct_inv _ _ Hwt) as Hty.
    rewrite marshal_p_struct in H. cbn [leaves_ok]. destruct (MAX_DEPTH <=? d); [discriminate|].
    refine (marshal_seq_leaves _ _ _ _ _ H). apply Forall_forall. intros x Hin. rewrite Forall_forall in IH, Hty.
    apply IH; auto.
  - pose proof (wt_dict_inv _ _ _ _ Hwt) as Hel.
    rewrite marshal_p_dict in H. cbv zeta in H. cbn [leaves_ok].
    destruct (MAX_DEPTH <=? d); [discriminate|]. destruct (negb _); [discriminate|].
    destruct (marshal_entries _ kvs _) as [c1 [|]] eqn:Es; cbn [mbind] in H; [|discriminate].
    refine (marshal_entries_leaves _ _ _ _ _ Es). apply Forall_forall. intros kv Hin. rewrite Forall_forall in IH, Hel.
    destruct (IH kv Hin) as [IHa IHb]. destruct (Hel kv Hin) as [Hwa Hwb].
    split; [apply IHa; now exists (TBase kb)|apply IHb; now exists vt].
  - cbn [marshal_p] in H. cbv zeta in H. cbn [leaves_ok]. destruct (MAX_DEPTH <=? d); [discriminate|].
    destruct (negb (ty_eqb (ty_of x) t)); [discriminate|].
    destruct (is_ok (validate_signature (to_str t))) eqn:Ev; [|discriminate].
    apply validate_signature_len in Ev. apply N.leb_le in Ev. rewrite Ev. cbn [andb].
    exact (IH (ex_intro _ t (wt_variant_inv _ _ _ Hwt)) _ _ _ H).
Qed.
