(** C01: marshal then unmarshal gives the value back, consuming exactly what was written.
    Composition of: marshal = specification encoder (MarshalProofs), a successful marshal wrote
    an encodable value (MarshalEncodable), decoders are complete on specification encodings
    (DecodeComplete). *)
From RB Require Import Base.Prelude Sig.Types Sig.Parser Sig.Validator Wire.Bytes Wire.Align Wire.Text
  Wire.Value Wire.SpecEnc Wire.Marshal Wire.Relabel Wire.MarshalProofs Wire.Decode Wire.Unmarshal
  Wire.DecodeLemmas Wire.DecodeComplete Wire.MarshalEncodable.

(** what the Rust types guarantee about a value handed to the marshaller, plus the limits the
    encoding imposes: well-typed, strings shorter than 4 GiB and valid UTF-8, embedded types valid
    (at most 255 signature bytes, 32+32 type nesting, no empty structs), at most 64 container levels *)
Definition sendable (v : val) : Prop :=
  strings_small v = true /\ text_utf8 v = true /\ types_ok v = true /\ nesting v <= MAX_DEPTH.

Lemma sendable_good v : typed v -> sendable v -> good 0 v.
Proof.
  intros Hty (H1 & H2 & H3 & H4). unfold good. repeat split; try assumption.
  apply nesting_nest_ok. lia.
Qed.

(* a well-typed value that has the shape of the requested Rust type has its wire type *)
Lemma typed_matches_wt : forall v e, typed v -> ety_matches e v = true -> wt v (erase e) = true.
Proof.
  induction v as [b k|b s|t vs IH|vs IH|kb vt kvs IH|t x IH] using val_ind'; intros e [T Hw] Hm.
  - destruct e as [b'|?|?|? ?|?]; try discriminate Hm. cbn [ety_matches] in Hm.
    destruct (base_eqb_spec b b') as [E|]; [subst b'|discriminate].
    destruct (wt_base_ty _ _ _ Hw) as (-> & _). exact Hw.
  - destruct e as [b'|?|?|? ?|?]; try discriminate Hm. cbn [ety_matches] in Hm.
    destruct (base_eqb_spec b b') as [E|]; [subst b'|discriminate].
    destruct (wt_text_ty _ _ _ Hw) as (-> & _). exact Hw.
  - destruct e as [?|x|?|? ?|?]; try discriminate Hm. cbn [ety_matches] in Hm. apply andb_prop in Hm. destruct Hm as [Het _].
    apply ty_eqb_eq in Het. subst t. pose proof (wt_array_ty _ _ _ Hw) as ET. subst T. exact Hw.
  - destruct e as [?|?|es|? ?|?]; try discriminate Hm. pose proof (wt_struct_inv _ _ Hw) as Hty. clear Hw T.
    cbn [erase]. revert es Hm. induction vs as [|y r IHr]; intros [|e es] Hm; cbn [ety_matches map wt] in *; try discriminate;
      [reflexivity|].
    apply andb_prop in Hm. destruct Hm as [Hm1 Hm2]. apply Forall_cons_iff in IH, Hty. destruct IH as [IHy IHrest], Hty as [Hy Hr].
    rewrite (IHy e Hy Hm1). cbn [andb]. exact (IHr IHrest Hr es Hm2).
  - destruct e as [?|?|?|k' x|?]; try discriminate Hm. cbn [ety_matches] in Hm. apply andb3 in Hm. destruct Hm as (Hk & Het & _).
    apply ty_eqb_eq in Het. subst vt. destruct (base_eqb_spec kb k') as [E|]; [subst k'|discriminate].
    pose proof (wt_dict_ty _ _ _ _ Hw) as ET. subst T. exact Hw.
  - destruct e as [?|?|?|? ?|x']; try discriminate Hm. pose proof (wt_variant_ty _ _ _ Hw) as ET. subst T. exact Hw.
Qed.

(** ** one value, typed API *)
Theorem roundtrip_typed_gen be v e c c' suf nf :
  wt v (erase e) = true -> ety_matches e v = true -> sendable v ->
  snd (relabel v (mfds c)) <= 2 ^ 32 ->
  marshal_t be v c = (c', true) -> mfds c' <= nf ->
  unmarshal_t 66 be e {| ubuf := mbuf c' ++ suf; uoff := len (mbuf c); unfds := nf; udepth := 0 |}
  = Ok (fst (relabel v (mfds c)), {| ubuf := mbuf c' ++ suf; uoff := len (mbuf c'); unfds := nf; udepth := 0 |}).
Proof.
  intros Hw Hm Hs Hb H Hnf.
  assert (Hty : typed v) by (now exists (erase e)).
  pose proof (sendable_good v Hty Hs) as Hg. destruct Hs as (Hss & _).
  destruct (marshal_t_spec be v Hty Hss c c' H Hb) as [Eb Ef].
  pose proof (marshal_t_encodable be v 0 Hg c c' H Hb) as He.
  pose proof (relabel_wt v _ (mfds c) Hw Hb) as Hw'.
  pose proof (relabel_ety v e (mfds c) Hm) as Hm'.
  pose proof (relabel_fds v (mfds c) nf ltac:(lia)) as Hfd.
  set (v' := fst (relabel v (mfds c))) in *.
  rewrite Eb, <- app_assoc, len_app.
  exact (unmarshal_t_complete be v' e 0 nf (mbuf c) suf Hw' Hm' He Hfd).
Qed.

Theorem roundtrip_typed be v e c c' suf :
  typed v -> ety_matches e v = true -> sendable v ->
  snd (relabel v (mfds c)) <= 2 ^ 32 ->
  marshal_t be v c = (c', true) ->
  unmarshal_t 66 be e {| ubuf := mbuf c' ++ suf; uoff := len (mbuf c); unfds := mfds c'; udepth := 0 |}
  = Ok (fst (relabel v (mfds c)), {| ubuf := mbuf c' ++ suf; uoff := len (mbuf c'); unfds := mfds c'; udepth := 0 |}).
Proof.
  intros Hty Hm Hs Hb H. apply roundtrip_typed_gen; try assumption; [now apply typed_matches_wt|lia].
Qed.

(** ** one value, dynamic (Param) API *)
Theorem roundtrip_param_gen be v t c c' suf nf :
  wt v t = true -> sendable v ->
  snd (relabel v (mfds c)) <= 2 ^ 32 ->
  marshal_p be 0 v c = (c', true) -> mfds c' <= nf ->
  unmarshal_p 66 be t {| ubuf := mbuf c' ++ suf; uoff := len (mbuf c); unfds := nf; udepth := 0 |}
  = Ok (fst (relabel v (mfds c)), {| ubuf := mbuf c' ++ suf; uoff := len (mbuf c'); unfds := nf; udepth := 0 |}).
Proof.
  intros Hw Hs Hb H Hnf.
  assert (Hty : typed v) by (now exists t).
  pose proof (sendable_good v Hty Hs) as Hg. destruct Hs as (Hss & _).
  destruct (marshal_p_spec be v Hty Hss 0 c c' H Hb) as [Eb Ef].
  pose proof (marshal_p_encodable be v 0 Hg c c' H Hb) as He.
  pose proof (relabel_wt v _ (mfds c) Hw Hb) as Hw'.
  pose proof (relabel_fds v (mfds c) nf ltac:(lia)) as Hfd.
  set (v' := fst (relabel v (mfds c))) in *.
  rewrite Eb, <- app_assoc, len_app.
  exact (unmarshal_p_complete be v' t 0 nf (mbuf c) suf Hw' He Hfd).
Qed.

Theorem roundtrip_param be v t c c' suf :
  wt v t = true -> sendable v ->
  snd (relabel v (mfds c)) <= 2 ^ 32 ->
  marshal_p be 0 v c = (c', true) ->
  unmarshal_p 66 be t {| ubuf := mbuf c' ++ suf; uoff := len (mbuf c); unfds := mfds c'; udepth := 0 |}
  = Ok (fst (relabel v (mfds c)), {| ubuf := mbuf c' ++ suf; uoff := len (mbuf c'); unfds := mfds c'; udepth := 0 |}).
Proof. intros Hw Hs Hb H. apply roundtrip_param_gen; try assumption. lia. Qed.

(** ** raw validation accepts what either API wrote, with the same length *)
Theorem marshalled_validates (m : val -> mctx -> mres) be v t c c' suf :
  (m = marshal_t be \/ m = marshal_p be 0) ->
  wt v t = true -> sendable v -> snd (relabel v (mfds c)) <= 2 ^ 32 ->
  m v c = (c', true) ->
  exists n, validate_marshalled be (len (mbuf c)) (mbuf c' ++ suf) t = Ok n /\ len (mbuf c) + n = len (mbuf c').
Proof.
  intros Hm Hw Hs Hb H.
  assert (Hty : typed v) by (now exists t).
  pose proof (sendable_good v Hty Hs) as Hg. destruct Hs as (Hss & _).
  pose proof (relabel_wt v _ (mfds c) Hw Hb) as Hw'.
  assert (E : mbuf c' = mbuf c ++ spec_enc be (len (mbuf c)) (fst (relabel v (mfds c)))
              /\ encodable be (len (mbuf c)) 0 (fst (relabel v (mfds c))) = true).
  { destruct Hm as [-> | ->].
    - split; [exact (proj1 (marshal_t_spec be v Hty Hss c c' H Hb))|exact (marshal_t_encodable be v 0 Hg c c' H Hb)].
    - split; [exact (proj1 (marshal_p_spec be v Hty Hss 0 c c' H Hb))|exact (marshal_p_encodable be v 0 Hg c c' H Hb)]. }
  destruct E as [Eb He]. set (v' := fst (relabel v (mfds c))) in *.
  exists (len (spec_enc be (len (mbuf c)) v')). split.
  - rewrite Eb, <- app_assoc. unfold validate_marshalled. exact (validate_complete be v' t 0 (mbuf c) suf Hw' He).
  - rewrite Eb, len_app. reflexivity.
Qed.

(** ** sequences: values pushed one after another are read back one after another *)
Section Seq.
  Variable A : Type.
  Variable m : val -> mctx -> mres.
  Variable dec : A -> uctx -> outcome (val * uctx).
  Variable be : bool.
  Variable ok : val -> A -> Prop.
  Hypothesis Hmok : forall v a, ok v a -> marshal_ok m be v.
  Hypothesis Hrt : forall v a c c1 suf nf, ok v a -> m v c = (c1, true) -> snd (relabel v (mfds c)) <= 2 ^ 32 ->
    mfds c1 <= nf ->
    dec a {| ubuf := mbuf c1 ++ suf; uoff := len (mbuf c); unfds := nf; udepth := 0 |}
    = Ok (fst (relabel v (mfds c)), {| ubuf := mbuf c1 ++ suf; uoff := len (mbuf c1); unfds := nf; udepth := 0 |}).

  (* MessageBodyParser::get called once per expected type *)
  Fixpoint dec_all (l : list A) (c : uctx) : outcome (list val * uctx) :=
    match l with
    | [] => Ok ([], c)
    | a :: r => do x <- dec a c; do xs <- dec_all r (snd x); Ok (fst x :: fst xs, snd xs)
    end.

  Lemma seq_roundtrip : forall vs l, Forall2 ok vs l ->
    forall c c' suf nf, marshal_seq m vs c = (c', true) -> snd (relabel_list relabel vs (mfds c)) <= 2 ^ 32 ->
      mfds c' <= nf ->
      dec_all l {| ubuf := mbuf c' ++ suf; uoff := len (mbuf c); unfds := nf; udepth := 0 |}
      = Ok (fst (relabel_list relabel vs (mfds c)),
            {| ubuf := mbuf c' ++ suf; uoff := len (mbuf c'); unfds := nf; udepth := 0 |}).
  Proof.
    induction 1 as [|v a vs l Hva Hrest IH]; intros c c' suf nf H Hb Hnf.
    - cbn in H. injection H as <-. reflexivity.
    - rewrite marshal_seq_cons in H. destruct (m v c) as [c1 ok1] eqn:E1. destruct ok1; cbn [mbind] in H; [|discriminate].
      rewrite relabel_list_cons in Hb |- *.
      pose proof (Hmok v a Hva c c1 E1) as Hspec. pose proof (Hrt v a c c1) as Hone.
      destruct (relabel v (mfds c)) as [v' n1] eqn:Ev.
      pose proof (relabel_list_mono vs n1) as Hmono.
      assert (Hoks : Forall (marshal_ok m be) vs).
      { clear - Hrest Hmok. induction Hrest as [|? ? ? ? Hxa _ IHr]; constructor; eauto. }
      pose proof (marshal_seq_ok m be vs Hoks c1 c' H) as Hrestspec.
      specialize (IH c1 c' suf nf H).
      destruct (relabel_list relabel vs n1) as [vs' n2] eqn:Evs. cbn [fst snd] in *.
      destruct Hspec as [Eb1 Ef1]; [lia|]. rewrite Ef1, Evs in IH, Hrestspec. cbn [fst snd] in IH, Hrestspec.
      destruct (Hrestspec Hb) as [Eb2 Ef2].
      cbn [dec_all].
      assert (Ebuf : mbuf c' ++ suf = mbuf c1 ++ (spec_enc_list be (len (mbuf c1)) vs' ++ suf)).
      { rewrite Eb2, <- app_assoc. reflexivity. }
      rewrite Ebuf at 1. rewrite (Hone _ nf Hva E1 ltac:(lia) ltac:(lia)). cbn [bind fst snd].
      rewrite <- Ebuf. rewrite (IH Hb Hnf). reflexivity.
  Qed.
End Seq.

Definition ok_typed (v : val) (e : ety) : Prop := wt v (erase e) = true /\ ety_matches e v = true /\ sendable v.
Definition ok_param (v : val) (t : ty) : Prop := wt v t = true /\ sendable v.

Theorem sequence_typed be vs es c c' suf :
  Forall2 ok_typed vs es ->
  marshal_seq (marshal_t be) vs c = (c', true) -> snd (relabel_list relabel vs (mfds c)) <= 2 ^ 32 ->
  dec_all ety (unmarshal_t 66 be) es {| ubuf := mbuf c' ++ suf; uoff := len (mbuf c); unfds := mfds c'; udepth := 0 |}
  = Ok (fst (relabel_list relabel vs (mfds c)),
        {| ubuf := mbuf c' ++ suf; uoff := len (mbuf c'); unfds := mfds c'; udepth := 0 |}).
Proof.
  intros Hall H Hb. apply (seq_roundtrip ety (marshal_t be) (unmarshal_t 66 be) be ok_typed); try assumption; [| |lia].
  - intros v a (Hw & _ & Hs & _). apply marshal_t_spec; [now exists (erase a)|exact Hs].
  - intros v a c0 c1 suf0 nf (Hw & Hm & Hs) Hmar Hb0 Hnf. now apply roundtrip_typed_gen.
Qed.

Theorem sequence_param be vs ts c c' suf :
  Forall2 ok_param vs ts ->
  marshal_seq (marshal_p be 0) vs c = (c', true) -> snd (relabel_list relabel vs (mfds c)) <= 2 ^ 32 ->
  dec_all ty (unmarshal_p 66 be) ts {| ubuf := mbuf c' ++ suf; uoff := len (mbuf c); unfds := mfds c'; udepth := 0 |}
  = Ok (fst (relabel_list relabel vs (mfds c)),
        {| ubuf := mbuf c' ++ suf; uoff := len (mbuf c'); unfds := mfds c'; udepth := 0 |}).
Proof.
  intros Hall H Hb. apply (seq_roundtrip ty (marshal_p be 0) (unmarshal_p 66 be) be ok_param); try assumption; [| |lia].
  - intros v a (Hw & Hs & _). apply marshal_p_spec; [now exists a|exact Hs].
  - intros v a c0 c1 suf0 nf (Hw & Hs) Hmar Hb0 Hnf. now apply roundtrip_param_gen.
Qed.
