(** The scenarios harness/src/bin/c16.rs runs, composed from the model functions, so that the extracted
    driver (ocaml/c16/driver.ml) has no logic of its own beyond parsing and printing.
    A body is built as: [prefix] u8 parameters, the value under test, (for some scenarios a u32 after
    it,) a trailing u8 0xA5. It is then read back with MessageBodyParser::get::<T>() / get_param(). *)
From RB Require Import Base.Prelude Sig.Types Sig.Parser Sig.Validator Sig.Iter Wire.Bytes Wire.Align Wire.Text Wire.Value
  Wire.SpecEnc Wire.Marshal Wire.Decode Wire.Unmarshal Wire.HasSig Wire.Ops Wire.Derive Wire.Enums Wire.EnumsIn.

(* the tuple type with the same fields, as a type of the extended algebra *)
Fixpoint detup (r : rty) : rty :=
  match r with
  | RBase b => RBase b
  | RArray x => RArray (detup x)
  | RTuple rs => RTuple (map detup rs)
  | RDict k v => RDict k (detup v)
  | RVar x => RVar (detup x)
  | RDerived rs => RTuple (map detup rs)
  end.

Definition c_y : N := 121.
Definition TRAILER : N := 165.
Definition AFTER : N := 3237998097.    (* 0xC0FFEE11 *)

(** ** building *)
Record enc := { e_ok : bool; e_sig : list N; e_buf : list N }.

(* push_param / push_old_param after [prefix] u8 parameters: on failure the body is left as it was *)
Definition push_after_prefix (prefix : nat) (tsig : list N) (m : mctx -> mres) : enc :=
  let pre := prefix_bytes prefix 0 in
  let psig := repeat c_y prefix in
  let '(c, ok) := m {| mbuf := pre; mfds := 0 |} in
  if ok then {| e_ok := true; e_sig := psig ++ tsig; e_buf := mbuf c |}
  else {| e_ok := false; e_sig := psig; e_buf := pre |}.

(* a further typed parameter *)
Definition push_more (e : enc) (be : bool) (t : ty) (v : val) : enc :=
  let '(c, ok) := marshal_t be v {| mbuf := e_buf e; mfds := 0 |} in
  if ok then {| e_ok := e_ok e; e_sig := e_sig e ++ to_str t; e_buf := mbuf c |}
  else {| e_ok := false; e_sig := e_sig e; e_buf := e_buf e |}.
Definition push_trailer (e : enc) : enc := push_more e false (TBase BByte) (VBase BByte TRAILER).

(** ** reading back *)
(* MessageBodyParser::get::<T>() for any Signature + Unmarshal impl given by its has_sig and unmarshal *)
Inductive got (A : Type) := GVal (sig_idx buf_idx : N) (a : A) | GWrongSig | GEnd | GErr.
Arguments GVal {A}. Arguments GWrongSig {A}. Arguments GEnd {A}. Arguments GErr {A}.

Definition next_sig (bsig : list N) (sig_idx : N) : outcome (option (list N)) :=
  if len bsig <=? sig_idx then Ok None
  else do r <- iter_next (skipnN sig_idx bsig); Ok (match r with Some (s, _) => Some s | None => None end).

Definition get_gen {A} (hs : list N -> outcome bool) (dec : uctx -> outcome (A * uctx))
  (bsig buf : list N) (sig_idx buf_idx : N) : outcome (got A) :=
  do ns <- next_sig bsig sig_idx;
  match ns with
  | None => Ok GEnd
  | Some s =>
      do h <- hs s;
      if negb h then Ok GWrongSig
      else match dec {| ubuf := buf; uoff := buf_idx; unfds := 0; udepth := 0 |} with
           | Ok (a, c) => Ok (GVal (sig_idx + len s) (uoff c) a)
           | Err => Ok GErr
           | Panic => Panic | UB => UB | OutOfFuel => OutOfFuel
           end
  end.

Definition get_ty (be : bool) (r : rty) := get_gen (has_sig_r r) (unmarshal_r 66 be r).

(* get_param: the next complete type of the signature is parsed and decoded dynamically *)
Definition get_dyn (be : bool) (bsig buf : list N) (sig_idx buf_idx : N) : outcome (got val) :=
  do ns <- next_sig bsig sig_idx;
  match ns with
  | None => Ok GEnd
  | Some s =>
      match parse_description s with
      | Ok (t :: _) =>
          match unmarshal_p 66 be t {| ubuf := buf; uoff := buf_idx; unfds := 0; udepth := 0 |} with
          | Ok (v, c) => Ok (GVal (sig_idx + len s) (uoff c) v)
          | Err => Ok GErr
          | Panic => Panic | UB => UB | OutOfFuel => OutOfFuel
          end
      | Ok [] => Panic
      | Err => Ok GErr
      | _ => Panic
      end
  end.

(* the next parameter is the u8 0xA5 and it is the last one *)
Definition trailer_next (be : bool) (bsig buf : list N) (sig_idx buf_idx : N) : bool :=
  match get_ty be (RBase BByte) bsig buf sig_idx buf_idx with
  | Ok (GVal si bi (VBase BByte n)) => (n =? TRAILER) && (len bsig <=? si) && (len buf <=? bi)
  | _ => false
  end.
(* the next parameters are the u32 AFTER and then the trailer *)
Definition after_next (be : bool) (bsig buf : list N) (sig_idx buf_idx : N) : bool :=
  match get_ty be (RBase BUint32) bsig buf sig_idx buf_idx with
  | Ok (GVal si bi (VBase BUint32 n)) => (n =? AFTER) && trailer_next be bsig buf si bi
  | _ => false
  end.

(* result of one read: what came out and whether the trailer follows *)
Inductive dres := DVal (v : val) (trailer : bool) | DWrongSig | DEnd | DErr | DBad.   (* DBad: panic / UB / fuel *)
Definition dres_of (be : bool) (bsig buf : list N) (g : outcome (got val)) : dres :=
  match g with
  | Ok (GVal si bi v) => DVal v (trailer_next be bsig buf si bi)
  | Ok GWrongSig => DWrongSig
  | Ok GEnd => DEnd
  | Ok GErr => DErr
  | _ => DBad
  end.

(** ** ST: a struct value through tuple (T), derived struct (D) and Param (P); every encoding read by every API *)
Inductive sapi := ApiT | ApiD | ApiP.

Definition st_enc (api : sapi) (be : bool) (prefix : nat) (r : rty) (v : val) : enc :=
  match api with
  | ApiT => push_after_prefix prefix (to_str (sig_r (detup r))) (marshal_t be v)
  | ApiD =>
      (* the generated marshal: align_to(8), the fields' marshal calls *)
      match v with
      | VStruct vs => push_after_prefix prefix (to_str (sig_r r)) (derive_struct_marshal (map (marshal_t be) vs))
      | _ => {| e_ok := false; e_sig := []; e_buf := [] |}
      end
  | ApiP => push_after_prefix prefix (to_str (ty_of v)) (marshal_param_top be v)
  end.

Definition st_dec (api : sapi) (be : bool) (prefix : nat) (r : rty) (e : enc) : dres :=
  let e := push_trailer e in
  let p := N.of_nat prefix in
  match api with
  | ApiT => dres_of be (e_sig e) (e_buf e) (get_ty be (detup r) (e_sig e) (e_buf e) p p)
  | ApiD => dres_of be (e_sig e) (e_buf e) (get_ty be r (e_sig e) (e_buf e) p p)
  | ApiP => dres_of be (e_sig e) (e_buf e) (get_dyn be (e_sig e) (e_buf e) p p)
  end.

Definition op_struct (be : bool) (prefix : nat) (r : rty) (v : val) : list (sapi * enc * list (sapi * dres)) :=
  map (fun a => let e := st_enc a be prefix r v in
                (a, e, if e_ok e then map (fun d => (d, st_dec d be prefix r e)) [ApiT; ApiD; ApiP] else []))
      [ApiT; ApiD; ApiP].

(** ** HS: a body holding a value of some other type, asked for as the derived struct / the tuple / its own type *)
Definition op_hassig (be : bool) (r other : rty) (v : val) : enc * dres * dres * dres :=
  let e := push_trailer (push_after_prefix 0 (to_str (sig_r other)) (marshal_t be v)) in
  let rd x := dres_of be (e_sig e) (e_buf e) (get_ty be x (e_sig e) (e_buf e) 0 0) in
  (e, rd r, rd (detup r), rd other).

(** ** EN: an enum value through the typed Variant (V), the derived enum (D), dbus_variant_sig! (S),
    dbus_variant_var! (M) and a Param variant (P); every encoding read by every API *)
Inductive eapi := ApiV | ApiED | ApiS | ApiM | ApiEP.

Definition en_enc (api : eapi) (be : bool) (prefix : nat) (k : ecase) (p : epay) : enc :=
  let t := case_ty k in
  let v := payload_val p in
  match api with
  | ApiV => push_after_prefix prefix [c_v] (marshal_t be (VVariant t v))
  | ApiED => push_after_prefix prefix [c_v] (derive_case_marshal be k p)
  | ApiS => push_after_prefix prefix [c_v] (sig_macro_marshal be (macro_case k) v)
  | ApiM => push_after_prefix prefix [c_v] (var_macro_marshal be (macro_case k) v)
  | ApiEP => push_after_prefix prefix [c_v] (marshal_param_top be (VVariant t v))
  end.

(* what a read of an enum gives: the case (None for the APIs without cases) and the variant value, or Catchall *)
Inductive edres :=
| EDCase (i : option nat) (v : val) (trailer : bool)
| EDCatchSig (t : ty) (trailer : bool)
| EDCatchVar (t : ty) (inner : outcome val) (trailer : bool)
| EDWrongSig | EDEnd | EDErr | EDBad.

Definition edres_of (be : bool) (bsig buf : list N) (cs : list ecase) (out : option rty) (g : outcome (got eres)) : edres :=
  match g with
  | Ok (GVal si bi (ECase i v)) =>
      EDCase (Some i) (VVariant (match nth_error cs i with Some k => case_ty k | None => TVariant end) v)
             (trailer_next be bsig buf si bi)
  | Ok (GVal si bi (ECatchSig t)) => EDCatchSig t (trailer_next be bsig buf si bi)
  | Ok (GVal si bi (ECatchVar t sub)) =>
      EDCatchVar t (match out with Some r => catch_var_get 66 be t sub r | None => Err end) (trailer_next be bsig buf si bi)
  | Ok GWrongSig => EDWrongSig
  | Ok GEnd => EDEnd
  | Ok GErr => EDErr
  | _ => EDBad
  end.
Definition edres_of_val (d : dres) : edres :=
  match d with
  | DVal v tr => EDCase None v tr
  | DWrongSig => EDWrongSig | DEnd => EDEnd | DErr => EDErr | DBad => EDBad
  end.

Definition en_dec (api : eapi) (be : bool) (prefix : nat) (cs : list ecase) (k : ecase) (e : enc) : edres :=
  let e := push_trailer e in
  let p := N.of_nat prefix in
  let bs := e_sig e in let bf := e_buf e in
  match api with
  | ApiV => edres_of_val (dres_of be bs bf (get_ty be (RVar (macro_case k)) bs bf p p))
  | ApiED => edres_of be bs bf cs None (get_gen enum_has_sig (derive_enum_unmarshal 66 be cs) bs bf p p)
  | ApiS => edres_of be bs bf cs None (get_gen enum_has_sig (sig_macro_unmarshal 66 be (map macro_case cs)) bs bf p p)
  | ApiM => edres_of be bs bf cs None (get_gen enum_has_sig (var_macro_unmarshal 66 be (map macro_case cs)) bs bf p p)
  | ApiEP => edres_of_val (dres_of be bs bf (get_dyn be bs bf p p))
  end.

Definition op_enum (be : bool) (prefix : nat) (cs : list ecase) (i : nat) (p : epay) : list (eapi * enc * list (eapi * edres)) :=
  match nth_error cs i with
  | None => []
  | Some k =>
      map (fun a => let e := en_enc a be prefix k p in
                    (a, e, if e_ok e then map (fun d => (d, en_dec d be prefix cs k e)) [ApiV; ApiED; ApiS; ApiM; ApiEP] else []))
          [ApiV; ApiED; ApiS; ApiM; ApiEP]
  end.

(** ** EO: a variant whose content type [out] is none of the cases, between other parameters:
    prefix u8s, the variant, the u32 AFTER, the trailer *)
Record eo_result := {
  eo_body : enc;
  (* derived enum: the read; then from the SAME position the typed Variant of the right type, AFTER, trailer *)
  eo_d : edres; eo_d_after : bool; eo_d_next : dres; eo_d_next_after : bool;
  (* macro enums: the read; AFTER and trailer follow the position it left *)
  eo_s : edres; eo_s_after : bool;
  eo_m : edres; eo_m_after : bool
}.

Definition follow {A} (be : bool) (bs bf : list N) (g : outcome (got A)) : bool :=
  match g with Ok (GVal si bi _) => after_next be bs bf si bi | _ => false end.

Definition op_outside (be : bool) (prefix : nat) (cs : list ecase) (out : rty) (v : val) : eo_result :=
  let t := sig_r out in
  let e := push_trailer (push_more (push_after_prefix prefix [c_v] (marshal_t be (VVariant t v))) be (TBase BUint32) (VBase BUint32 AFTER)) in
  let p := N.of_nat prefix in
  let bs := e_sig e in let bf := e_buf e in
  let gd := get_gen enum_has_sig (derive_enum_unmarshal 66 be cs) bs bf p p in
  let gn := get_ty be (RVar out) bs bf p p in
  let gs := get_gen enum_has_sig (sig_macro_unmarshal 66 be (map macro_case cs)) bs bf p p in
  let gm := get_gen enum_has_sig (var_macro_unmarshal 66 be (map macro_case cs)) bs bf p p in
  {| eo_body := e;
     eo_d := edres_of be bs bf cs (Some out) gd; eo_d_after := follow be bs bf gd;
     eo_d_next := dres_of be bs bf gn; eo_d_next_after := follow be bs bf gn;
     eo_s := edres_of be bs bf cs (Some out) gs; eo_s_after := follow be bs bf gs;
     eo_m := edres_of be bs bf cs (Some out) gm; eo_m_after := follow be bs bf gm |}.

(** ** EC: enums (and params::Variant) in element position. The container type is given with the derived enum at its
    enum leaves; [retarget] puts another generator, or params::Variant, there. The value is given as the D-Bus value
    (variants at the enum leaves); [to_cval] finds the case of each variant: the first one of that type. *)
Fixpoint retarget (g : option egen) (x : cty) : cty :=
  match x with
  | CPlain r => CPlain r
  | CEnum _ cs => match g with Some g' => CEnum g' cs | None => CPVar end
  | CPVar => CPVar
  | CVec y => CVec (retarget g y)
  | CMap k y => CMap k (retarget g y)
  | CTuple ys => CTuple (map (retarget g) ys)
  | CDerived ys => CDerived (map (retarget g) ys)
  end.

Fixpoint find_case (cs : list ecase) (i : nat) (t : ty) : option (nat * ecase) :=
  match cs with
  | [] => None
  | k :: r => if ty_eqb (case_ty k) t then Some (i, k) else find_case r (S i) t
  end.

Fixpoint to_cval (x : cty) (v : val) {struct x} : cval :=
  match x, v with
  | CEnum _ cs, VVariant t w =>
      match find_case cs 0 t with
      | Some (i, CSingle _) => XEnum i (PSingle w)
      | Some (i, CFields _ _) => XEnum i (PFields (match w with VStruct ws => ws | _ => [] end))
      | None => XPlain v
      end
  | CPVar, VVariant t w => XPVar t w
  | CVec y, VArray _ l => XList (map (to_cval y) l)
  | CMap _ y, VDict _ _ l => XMap (map (fun kv => (fst kv, to_cval y (snd kv))) l)
  | CTuple ys, VStruct l => XList (zipwith (fun y w => to_cval y w) ys l)
  | CDerived ys, VStruct l => XList (zipwith (fun y w => to_cval y w) ys l)
  | _, _ => XPlain v
  end.

(* has_sig: every enum's Signature::has_sig is starts_with('v'), like the Variant wrapper's *)
Fixpoint cty_rty (x : cty) : rty :=
  match x with
  | CPlain r => r
  | CEnum _ _ => RVar (RBase BByte)
  | CPVar => RVar (RBase BByte)
  | CVec y => RArray (cty_rty y)
  | CMap k y => RDict k (cty_rty y)
  | CTuple ys => RTuple (map cty_rty ys)
  | CDerived ys => RDerived (map cty_rty ys)
  end.

(* a decoded tree as a D-Bus value (None: it holds a Catchall) *)
Definition omap {A B} (f : A -> B) (o : option A) : option B := match o with Some a => Some (f a) | None => None end.
Definition ocons {A} (a : option A) (r : option (list A)) : option (list A) :=
  match a, r with Some v, Some vs => Some (v :: vs) | _, _ => None end.
Fixpoint cres_val (x : cty) (r : cres) {struct x} : option val :=
  match x, r with
  | CPlain _, RPlain v => Some v
  | CPVar, RPlain v => Some v
  | CEnum _ cs, REnum (ECase i v) => match nth_error cs i with Some k => Some (VVariant (case_ty k) v) | None => None end
  | CVec y, RList l =>
      omap (VArray (csig y))
           ((fix all (l : list cres) : option (list val) :=
               match l with [] => Some [] | a :: r => ocons (cres_val y a) (all r) end) l)
  | CMap k y, RMap l =>
      omap (VDict k (csig y))
           ((fix all (l : list (val * cres)) : option (list (val * val)) :=
               match l with
               | [] => Some []
               | (kv, a) :: r => ocons (omap (fun v => (kv, v)) (cres_val y a)) (all r)
               end) l)
  | CTuple ys, RList l =>
      omap VStruct
           ((fix all (ys : list cty) (l : list cres) : option (list val) :=
               match ys, l with
               | [], [] => Some []
               | y :: ys', a :: r => ocons (cres_val y a) (all ys' r)
               | _, _ => None
               end) ys l)
  | CDerived ys, RList l =>
      omap VStruct
           ((fix all (ys : list cty) (l : list cres) : option (list val) :=
               match ys, l with
               | [], [] => Some []
               | y :: ys', a :: r => ocons (cres_val y a) (all ys' r)
               | _, _ => None
               end) ys l)
  | _, _ => None
  end.

Inductive capi := CApiD | CApiS | CApiM | CApiPV | CApiP.
Definition capi_gen (a : capi) : option egen :=
  match a with CApiD => Some GDerive | CApiS => Some GSigMacro | CApiM => Some GVarMacro | _ => None end.

Definition ec_enc (a : capi) (be : bool) (prefix : nat) (x : cty) (v : val) : enc :=
  match a with
  | CApiP => push_after_prefix prefix (to_str (ty_of v)) (marshal_param_top be v)
  | _ => let x' := retarget (capi_gen a) x in push_after_prefix prefix (to_str (csig x')) (marshal_c be x' (to_cval x' v))
  end.

(* result of reading a container: the value (None = a Catchall inside), trailer follows *)
Inductive cdres := CDVal (v : option val) (trailer : bool) | CDWrongSig | CDEnd | CDErr | CDBad.

Definition ec_dec (a : capi) (be : bool) (prefix : nat) (x : cty) (e : enc) : cdres :=
  let e := push_trailer e in
  let p := N.of_nat prefix in
  let bs := e_sig e in let bf := e_buf e in
  match a with
  | CApiP => match dres_of be bs bf (get_dyn be bs bf p p) with
             | DVal v t => CDVal (Some v) t | DWrongSig => CDWrongSig | DEnd => CDEnd | DErr => CDErr | DBad => CDBad
             end
  | _ =>
      let x' := retarget (capi_gen a) x in
      match get_gen (has_sig_r (cty_rty x')) (unmarshal_c be x') bs bf p p with
      | Ok (GVal si bi r) => CDVal (cres_val x' r) (trailer_next be bs bf si bi)
      | Ok GWrongSig => CDWrongSig
      | Ok GEnd => CDEnd
      | Ok GErr => CDErr
      | _ => CDBad
      end
  end.

Definition op_container (be : bool) (prefix : nat) (x : cty) (v : val) : list (capi * enc * list (capi * cdres)) :=
  let apis := [CApiD; CApiS; CApiM; CApiPV; CApiP] in
  map (fun a => let e := ec_enc a be prefix x v in
                (a, e, if e_ok e then map (fun d => (d, ec_dec d be prefix x e)) apis else []))
      apis.
