(** Non-vacuity for C16: the models compute, the hypotheses of the theorems are satisfiable, and the
    completeness premise of C16_enum_hit / C16_cross_decode_typed holds at least for all base types. *)
From RB Require Import Base.Prelude Sig.Types Sig.Validator Wire.Bytes Wire.Align Wire.Text Wire.Value Wire.SpecEnc
  Wire.Marshal Wire.Relabel Wire.MarshalProofs Wire.Decode Wire.Unmarshal Wire.DecodeLemmas Wire.DecodeComplete
  Wire.HasSig Wire.Derive Wire.DeriveProofs Wire.Enums Wire.EnumsProofs Wire.C16Cross Wire.C16Final Wire.EnumsIn Wire.EnumsInProofs Wire.C16Ops.

Definition c_u : N := 117. Definition c_s : N := 115. Definition c_t : N := 116.

(** ** derived structs *)
(* struct S { a: u8, b: u64 } after three bytes: 4 bytes padding to 8, the u8, 7 bytes padding, the u64 *)
Definition ex_rs : list rty := [RBase BByte; RBase BUint64].
Definition ex_sv : val := VStruct [VBase BByte 7; VBase BUint64 258].
Definition ex_buf : list N := [1; 2; 3] ++ spec_enc false 3 ex_sv ++ [165].
Definition ex_ctx : uctx := {| ubuf := ex_buf; uoff := 3; unfds := 0; udepth := 0 |}.

Example ex_derived_decodes :
  unmarshal_r 66 false (RDerived ex_rs) ex_ctx = Ok (ex_sv, set_off ex_ctx 24)
  /\ unmarshal_r 66 false (RTuple ex_rs) ex_ctx = Ok (ex_sv, set_off ex_ctx 24)
  /\ unmarshal_t 66 false (tup (RDerived ex_rs)) ex_ctx = Ok (ex_sv, set_off ex_ctx 24).
Proof. vm_compute. repeat split. Qed.
(* the fields u8, String, u8: the String aligns itself although the generated code does not align before it *)
Example ex_derived_selfaligned :
  let v := VStruct [VBase BByte 1; VText BString [97; 98]; VBase BByte 9] in
  let rs := [RBase BByte; RBase BString; RBase BByte] in
  let c := {| ubuf := [5] ++ spec_enc true 1 v; uoff := 1; unfds := 0; udepth := 0 |} in
  unmarshal_r 66 true (RDerived rs) c = unmarshal_r 66 true (RTuple rs) c /\ is_ok (unmarshal_r 66 true (RDerived rs) c) = true.
Proof. vm_compute. split; reflexivity. Qed.
Example ex_derived_marshal :
  let c := {| mbuf := [1; 2; 3]; mfds := 0 |} in
  derive_struct_marshal (map (marshal_t false) [VBase BByte 7; VBase BUint64 258]) c = marshal_t false ex_sv c
  /\ mbuf (fst (marshal_t false ex_sv c)) = [1; 2; 3] ++ spec_enc false 3 ex_sv.
Proof. vm_compute. split; reflexivity. Qed.
(* has_sig of struct S { a: u32, b: u32 }: its own signature only; "(uus)" was accepted and "(u)" panicked before the fix *)
Example ex_has_sig :
  let d := RDerived [RBase BUint32; RBase BUint32] in
  has_sig_r d [40; c_u; c_u; 41] = Ok true /\ has_sig_r d [40; c_u; c_u; c_s; 41] = Ok false
  /\ has_sig_r d [40; c_u; 41] = Ok false /\ has_sig_r d [40; c_u; c_t; 41] = Ok false /\ has_sig_r d [c_u] = Ok false
  /\ has_sig_r (RArray d) [97; 40; c_u; c_u; 41] = Ok true.
Proof. vm_compute. repeat split. Qed.
(* get::<S>() on a body of another struct signature: WrongSignature; on its own: the value *)
Example ex_get :
  get_r false [121; 121; 121; 40; 121; c_t; 41; 121] ex_buf 0 3 3 (RDerived ex_rs) = Ok (GotVal 7 24 ex_sv)
  /\ get_r false [121; 121; 121; 40; 121; c_t; 121; 41; 121] ex_buf 0 3 3 (RDerived ex_rs) = Ok GotWrongSig.
Proof. vm_compute. split; reflexivity. Qed.

(** ** enums *)
(* enum E { A(u32), B(String), C(u8, u64), D { x: Vec<u64>, y: u8 } } *)
Definition ex_cases : list ecase :=
  [CSingle (RBase BUint32); CSingle (RBase BString); CFields false ex_rs; CFields true [RArray (RBase BUint64); RBase BByte]].
Definition ex_macro_cases : list rty := map macro_case ex_cases.

Example ex_enum_marshal :
  let c := {| mbuf := [9]; mfds := 0 |} in
  let k := CFields true [RArray (RBase BUint64); RBase BByte] in
  let vs := [VArray (TBase BUint64) [VBase BUint64 1]; VBase BByte 2] in
  pay_matches k (PFields vs) = true /\ type_ok (case_ty k) = true
  /\ snd (derive_case_marshal false k (PFields vs) c) = true
  /\ derive_case_marshal false k (PFields vs) c = marshal_t false (VVariant (case_ty k) (VStruct vs)) c
  /\ sig_macro_marshal false (macro_case k) (VStruct vs) c = marshal_t false (VVariant (case_ty k) (VStruct vs)) c
  /\ marshal_p false 0 (VVariant (case_ty k) (VStruct vs)) c = marshal_t false (VVariant (case_ty k) (VStruct vs)) c.
Proof. vm_compute. repeat split. Qed.

(* a variant holding (u32, u32) - none of the cases - after one byte, followed by other data *)
Definition ex_out_t : ty := TStruct [TBase BUint32; TBase BUint32].
Definition ex_out_v : val := VStruct [VBase BUint32 1; VBase BUint32 2].
Definition ex_octx : uctx :=
  {| ubuf := [1] ++ spec_enc false 1 (VVariant ex_out_t ex_out_v) ++ [17; 238; 255; 192; 165]; uoff := 1; unfds := 0; udepth := 0 |}.
Example ex_at_variant : at_variant false ex_octx ex_out_t ex_out_v.
Proof. constructor; try (vm_compute; reflexivity). apply (has_at_intro [1]). Qed.
Example ex_outside_cases : Forall (fun k => case_ty k <> ex_out_t) ex_cases /\ Forall (fun r => sig_r r <> ex_out_t) ex_macro_cases.
Proof. split; repeat constructor; discriminate. Qed.
Example ex_enum_miss :
  derive_enum_unmarshal 66 false ex_cases ex_octx = Err
  /\ sig_macro_unmarshal 66 false ex_macro_cases ex_octx = Ok (ECatchSig ex_out_t, after_variant false ex_octx ex_out_t ex_out_v)
  /\ uoff (after_variant false ex_octx ex_out_t ex_out_v) = 16
  /\ (exists sub, var_macro_unmarshal 66 false ex_macro_cases ex_octx = Ok (ECatchVar ex_out_t sub, after_variant false ex_octx ex_out_t ex_out_v)
        /\ catch_var_get 66 false ex_out_t sub (RTuple [RBase BUint32; RBase BUint32]) = Ok ex_out_v).
Proof. vm_compute. repeat split. eexists. split; reflexivity. Qed.

(* the completeness premise is satisfiable: it holds for every base type (u_base_ok) *)
Definition matches_base (e : ety) (v : val) : Prop := exists b, e = EBase b /\ wt v (TBase b) = true.
Lemma complete_base : forall be e v buf off nf d vf,
  matches_base e v -> encodable be off d v = true -> fds_below nf v = true ->
  has_at buf off (spec_enc be off v) -> fuel_ok vf d ->
  unmarshal_t vf be e (Build_uctx buf off nf d) = Ok (v, Build_uctx buf (off + len (spec_enc be off v)) nf d).
Proof.
  intros be e v buf off nf d vf (b & -> & Hwt) He Hf Hb [Hvf _]. destruct vf as [|vf]; [lia|].
  rewrite unmarshal_t_base. exact (u_base_ok be b v d (Build_uctx buf off nf d) Hwt He Hf Hb).
Qed.
(* a variant holding the u32 99, read by the three enums: case 0 *)
Definition ex_hctx : uctx :=
  {| ubuf := [1; 38] ++ spec_enc true 2 (VVariant (TBase BUint32) (VBase BUint32 99)) ++ [165]; uoff := 2; unfds := 0; udepth := 0 |}.
Example ex_enum_hit :
  derive_enum_unmarshal 66 true ex_cases ex_hctx = Ok (ECase 0 (VBase BUint32 99), after_variant true ex_hctx (TBase BUint32) (VBase BUint32 99))
  /\ sig_macro_unmarshal 66 true ex_macro_cases ex_hctx = Ok (ECase 0 (VBase BUint32 99), after_variant true ex_hctx (TBase BUint32) (VBase BUint32 99)).
Proof.
  assert (Hav : at_variant true ex_hctx (TBase BUint32) (VBase BUint32 99)).
  { constructor; try (vm_compute; reflexivity). apply (has_at_intro [1; 38]). }
  split.
  - apply (derive_enum_hit matches_base complete_base 66 true ex_hctx _ _ [] (CSingle (RBase BUint32)) (tl ex_cases) Hav (fuel_ok_66 _));
      [constructor|reflexivity|exists BUint32; split; reflexivity].
  - apply (sig_macro_hit matches_base complete_base 66 true ex_hctx _ _ [] (RBase BUint32) (tl ex_macro_cases) Hav (fuel_ok_66 _));
      [constructor|reflexivity|exists BUint32; split; reflexivity].
Qed.

(* with the completeness theorem of Wire/DecodeComplete.v: case C(u8, u64) of the derived enum and the tuple case of
   the macro enums, from a variant "(yt)" marshalled by the derived enum itself at an odd position *)
Example ex_enum_hit_struct :
  let k := CFields false ex_rs in
  let c := {| mbuf := [9; 9; 9]; mfds := 0 |} in
  let c' := fst (derive_case_marshal false k (PFields [VBase BByte 7; VBase BUint64 258]) c) in
  let u := ctx_at (mbuf c' ++ [165]) 3 0 in
  derive_enum_unmarshal 66 false ex_cases u = Ok (ECase 2 ex_sv, ctx_at (mbuf c' ++ [165]) (len (mbuf c')) 0)
  /\ var_macro_unmarshal 66 false ex_macro_cases u = Ok (ECase 2 ex_sv, ctx_at (mbuf c' ++ [165]) (len (mbuf c')) 0).
Proof.
  cbv zeta.
  set (k := CFields false ex_rs). set (c := {| mbuf := [9; 9; 9]; mfds := 0 |}).
  assert (Em : derive_case_marshal false k (PFields [VBase BByte 7; VBase BUint64 258]) c
               = marshal_t false (VVariant (case_ty k) ex_sv) c)
    by (apply derive_enum_marshal_variant; reflexivity).
  rewrite Em.
  destruct (marshalled_variant_at false (case_ty k) ex_sv c (fst (marshal_t false (VVariant (case_ty k) ex_sv) c)) [165] 0) as [Hav Haft].
  - exists TVariant. reflexivity.
  - reflexivity.
  - vm_compute. discriminate.
  - left. vm_compute. reflexivity.
  - reflexivity.
  - vm_compute. reflexivity.
  - reflexivity.
  - change (wire_val ex_sv c) with ex_sv in *. rewrite <- Haft. split.
    + apply (derive_enum_hit' 66 false _ _ _ (firstn 2 ex_cases) k (skipn 3 ex_cases) Hav (fuel_ok_66 _));
        [repeat constructor; discriminate|reflexivity|split; reflexivity].
    + apply (var_macro_hit' 66 false _ _ _ (firstn 2 ex_macro_cases) (macro_case k) (skipn 3 ex_macro_cases) Hav (fuel_ok_66 _));
        [repeat constructor; discriminate|reflexivity|split; reflexivity].
Qed.

(** ** enums in element position *)
(* Vec<E> = [A(5), C(7, 258)] after three bytes: the array length is followed by NO padding (alignment 1) *)
Definition ex_tvs : list (ty * val) := [(TBase BUint32, VBase BUint32 5); (TStruct [TBase BByte; TBase BUint64], ex_sv)].
Definition ex_arr : val := VArray TVariant (variants ex_tvs).
Definition ex_xl : cval := XList [XEnum 0 (PSingle (VBase BUint32 5)); XEnum 2 (PFields [VBase BByte 7; VBase BUint64 258])].
Example ex_enum_vec_marshal :
  let c := {| mbuf := [9; 9; 9]; mfds := 0 |} in
  cshape false (CVec (CEnum GDerive ex_cases)) ex_xl = true /\ cval_val (CVec (CEnum GDerive ex_cases)) ex_xl = ex_arr
  /\ snd (marshal_c false (CVec (CEnum GDerive ex_cases)) ex_xl c) = true
  /\ marshal_c false (CVec (CEnum GDerive ex_cases)) ex_xl c = marshal_t false ex_arr c
  /\ marshal_c false (CVec (CEnum GSigMacro ex_cases)) ex_xl c = marshal_t false ex_arr c
  /\ mbuf (fst (marshal_t false ex_arr c)) = [9; 9; 9] ++ spec_enc false 3 ex_arr
  (* length field at 4..8, first element's signature directly at 8 *)
  /\ nthN (mbuf (fst (marshal_t false ex_arr c))) 8 = Some 1 /\ nthN (mbuf (fst (marshal_t false ex_arr c))) 9 = Some c_u.
Proof. vm_compute. repeat split. Qed.
Example ex_enum_vec_hits : Forall2 (hits ex_cases) ex_tvs [0%nat; 2%nat] /\ Forall2 (hits_macro ex_cases) ex_tvs [0%nat; 2%nat].
Proof.
  split; (constructor; [|constructor; [|constructor]]).
  - exists [], (CSingle (RBase BUint32)), (tl ex_cases). repeat split; try reflexivity. constructor.
  - exists (firstn 2 ex_cases), (CFields false ex_rs), (skipn 3 ex_cases). repeat split; try reflexivity. repeat constructor; discriminate.
  - exists [], (CSingle (RBase BUint32)), (tl ex_cases). repeat split; try reflexivity. constructor.
  - exists (firstn 2 ex_cases), (CFields false ex_rs), (skipn 3 ex_cases). repeat split; try reflexivity. repeat constructor; discriminate.
Qed.
Example ex_enum_vec_unmarshal :
  let buf := [9; 9; 9] ++ spec_enc true 3 ex_arr ++ [165] in
  encodable true 3 0 ex_arr = true /\ fds_below 0 ex_arr = true
  /\ unmarshal_c true (CVec (CEnum GDerive ex_cases)) (Build_uctx buf 3 0 0)
     = Ok (RList [REnum (ECase 0 (VBase BUint32 5)); REnum (ECase 2 ex_sv)], Build_uctx buf (3 + len (spec_enc true 3 ex_arr)) 0 0)
  /\ unmarshal_c true (CVec (CEnum GVarMacro ex_cases)) (Build_uctx buf 3 0 0)
     = Ok (RList [REnum (ECase 0 (VBase BUint32 5)); REnum (ECase 2 ex_sv)], Build_uctx buf (3 + len (spec_enc true 3 ex_arr)) 0 0)
  (* a tuple (u8, E, u64) and the derived struct with the same fields read alike *)
  /\ (let f := [CPlain (RBase BByte); CEnum GDerive ex_cases; CPlain (RBase BUint64)] in
      let b2 := spec_enc false 0 (VStruct [VBase BByte 1; VVariant (TBase BUint32) (VBase BUint32 5); VBase BUint64 2]) in
      unmarshal_c false (CTuple f) (Build_uctx b2 0 0 0) = unmarshal_c false (CDerived f) (Build_uctx b2 0 0 0)
      /\ is_ok (unmarshal_c false (CTuple f) (Build_uctx b2 0 0 0)) = true).
Proof. vm_compute. repeat split. Qed.

(** ** cross-decoding *)
Example ex_cross :
  let v := VStruct [VBase BByte 7; VText BString [97; 98]; VArray (TBase BUint16) [VBase BUint16 513]] in
  let t := TStruct [TBase BByte; TBase BString; TArray (TBase BUint16)] in
  let c := {| mbuf := [1; 2; 3]; mfds := 0 |} in
  wt v t = true /\ strings_small v = true /\ snd (marshal_t true v c) = true /\ snd (relabel v (mfds c)) <= 2 ^ 32
  /\ wt (wire_val v c) t = true /\ encodable true (len (mbuf c)) 0 (wire_val v c) = true /\ fds_below 0 (wire_val v c) = true
  /\ unmarshal_p 66 true t (ctx_at (mbuf (fst (marshal_t true v c)) ++ [165]) 3 0)
     = Ok (v, ctx_at (mbuf (fst (marshal_t true v c)) ++ [165]) (len (mbuf (fst (marshal_t true v c)))) 0).
Proof. vm_compute. repeat split; discriminate. Qed.

(** ** the scenario functions compute *)
Example ex_ops :
  (match op_struct false 3 (RDerived ex_rs) ex_sv with
   | (_, e1, d1) :: (_, e2, d2) :: (_, e3, d3) :: nil =>
       e_ok e1 && e_ok e2 && e_ok e3 && (len (e_buf e1) =? 24)
       && forallb (fun x => match snd x with DVal v true => true | _ => false end) (d1 ++ d2 ++ d3)
   | _ => false
   end) = true
  /\ (let r := op_outside false 1 ex_cases (RTuple [RBase BUint32; RBase BUint32]) ex_out_v in
      match eo_d r, eo_s r, eo_m r with
      | EDErr, EDCatchSig _ _, EDCatchVar _ (Ok _) _ => eo_d_next_after r && eo_s_after r && eo_m_after r
      | _, _, _ => false
      end) = true.
Proof. vm_compute. split; reflexivity. Qed.
