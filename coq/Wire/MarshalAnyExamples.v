(** Non-vacuity for Wire/MarshalAny.v (C02 for every Param tree, the entry point, the signature). *)
From RB Require Import Base.Prelude Sig.Types Sig.Validator Wire.Bytes Wire.Align Wire.Text Wire.Value Wire.SpecEnc
  Wire.Marshal Wire.Relabel Wire.MarshalProofs Wire.MarshalExamples Wire.Limits Wire.MarshalEncodable Wire.MarshalAccept
  Wire.HasSig Wire.Body Wire.MarshalAny.

(* ill-typed trees that the Param API can express (public fields, free element lists): an array declared "au"
   holding a string; a dict whose value is not of the declared type; a variant whose signature is not its value's type,
   nested inside a struct *)
Definition ill_array : val := VArray (TBase BUint32) [VBase BUint32 1; VText BString [97]].
Definition ill_dict : val := VDict BString (TBase BByte) [(VText BString [97], VBase BUint16 7)].
Definition ill_variant : val := VStruct [VBase BByte 1; VVariant (TBase BUint32) (VText BString [97; 98; 99])].

(* marshal_p_typed / C02_param_typed: they satisfy the leaf guarantees, are not well-typed, and are refused;
   the well-typed nested example is accepted *)
Example ex_ill_refused :
  payloads_ok ill_array = true /\ payloads_ok ill_dict = true /\ payloads_ok ill_variant = true
  /\ wt ill_array (ty_of ill_array) = false /\ wt ill_dict (ty_of ill_dict) = false /\ wt ill_variant (ty_of ill_variant) = false
  /\ snd (marshal_p false 0 ill_array ex_ctx) = false /\ snd (marshal_p true 0 ill_dict ex_ctx) = false
  /\ snd (marshal_p false 0 ill_variant ex_ctx) = false.
Proof. vm_compute. repeat split. Qed.
Example ex_any_typed : forall c', marshal_p false 0 ex_val ex_ctx = (c', true) -> wt ex_val (ty_of ex_val) = true.
Proof. intros c'. apply marshal_p_typed. reflexivity. Qed.
Example ex_any_hyps : payloads_ok ex_val = true /\ strings_small ex_val = true /\ snd (marshal_p false 0 ex_val ex_ctx) = true
  /\ snd (relabel ex_val (mfds ex_ctx)) <= 2 ^ 32.
Proof. vm_compute. repeat split; discriminate. Qed.

(* marshal_p_bytes_any applied *)
Example ex_any_bytes : forall be c', marshal_p be 0 ex_val ex_ctx = (c', true) ->
  mbuf c' = mbuf ex_ctx ++ spec_enc be 3 (fst (relabel ex_val 2)) /\ mfds c' = 3.
Proof.
  intros be c' H. destruct ex_any_hyps as (Hp & Hs & _ & Hb).
  exact (marshal_p_bytes_any be ex_val 0 ex_ctx c' Hp Hs H Hb).
Qed.

(* marshal_p_exactly_any: both sides false on an ill-typed tree, both true on the example *)
Example ex_any_exactly :
  (snd (marshal_p false 0 ill_variant ex_ctx) = true
   <-> typed ill_variant /\ leaves_ok ill_variant = true /\ variant_sigs_ok ill_variant = true /\ nest_ok 0 ill_variant = true
       /\ arrays_within false (len (mbuf ex_ctx)) ill_variant = true)
  /\ ~ typed ill_variant
  /\ leaves_ok ill_variant = true /\ variant_sigs_ok ill_variant = true /\ nest_ok 0 ill_variant = true
  /\ arrays_within false 3 ill_variant = true.
Proof.
  split; [exact (marshal_p_exactly_any false 0 ill_variant ex_ctx eq_refl)|]. split.
  - intros Ht. apply typed_ty_of in Ht. vm_compute in Ht. discriminate.
  - vm_compute. repeat split.
Qed.

(* the entry point: an empty struct two levels down in an array (the tree that made Param::sig() panic) *)
Definition deep_empty : val := VArray (TStruct [TStruct []]) [VStruct [VStruct []]].
Example ex_empty_struct :
  payloads_ok deep_empty = true /\ typed deep_empty /\ no_empty_struct deep_empty = false /\ shape_ok 0 deep_empty = false
  /\ leaves_ok deep_empty = true /\ nest_ok 0 deep_empty = true /\ arrays_within false 3 deep_empty = true
  /\ marshal_param_top false deep_empty ex_ctx = (ex_ctx, false)
  /\ marshal_param_top true (VStruct []) ex_ctx = (ex_ctx, false)
  /\ marshal_param_top false (VDict BByte (TStruct []) [(VBase BByte 1, VStruct [])]) ex_ctx = (ex_ctx, false).
Proof. split; [reflexivity|]. split; [exists (ty_of deep_empty); reflexivity|]. vm_compute. repeat split. Qed.
Example ex_empty_struct_by_theorem : forall be c, marshal_param_top be deep_empty c = (c, false).
Proof. intros be c. apply param_empty_struct_refused. reflexivity. Qed.

(* marshal_param_top_exactly on the example: all six conditions hold, and it is accepted with the same result as marshal_p *)
Example ex_top_exactly :
  typed ex_val /\ no_empty_struct ex_val = true /\ leaves_ok ex_val = true /\ variant_sigs_ok ex_val = true
  /\ nest_ok 0 ex_val = true /\ arrays_within true (len (mbuf ex_ctx)) ex_val = true
  /\ marshal_param_top true ex_val ex_ctx = marshal_p true 0 ex_val ex_ctx /\ snd (marshal_param_top true ex_val ex_ctx) = true.
Proof. split; [exists ex_ty; reflexivity|]. vm_compute. repeat split. Qed.
Example ex_top_by_theorem : snd (marshal_param_top true ex_val ex_ctx) = true.
Proof.
  apply (proj2 (marshal_param_top_exactly true ex_val ex_ctx eq_refl)).
  destruct ex_top_exactly as (H1 & H2 & H3 & H4 & H5 & H6 & _). repeat split; assumption.
Qed.
(* nesting: 64 structs pass the entry check, 65 do not (nothing written) *)
Example ex_top_depth :
  shape_ok 0 (Wire.LimitsProofs.nest_struct 64 (VBase BByte 7)) = true
  /\ marshal_param_top false (Wire.LimitsProofs.nest_struct 65 (VBase BByte 7)) ex_ctx = (ex_ctx, false).
Proof. vm_compute. auto. Qed.

(* typing alone never excluded empty structs; the specification's [encodable] does, in agreement with the entry check *)
Example ex_typed_not_encodable : typed (VStruct []) /\ encodable false 0 0 (VStruct []) = false /\ no_empty_struct (VStruct []) = false.
Proof. split; [exact typed_empty_struct|]. vm_compute. auto. Qed.

(* the signature: push_old_param and push_param append the type of the value *)
Example ex_signature :
  let b := new_body false in
  let r1 := push_old_param b ex_val in
  let r2 := push_param (fst r1) (TArray (TBase BUint64), VArray (TBase BUint64) [VBase BUint64 9]) in
  snd r1 = true /\ bsig (fst r1) = to_str (ty_of ex_val) /\ bsig (fst r1) = [40; 97; 123; 115; 118; 125; 97; 116; 104; 41]
  /\ snd r2 = true /\ bsig (fst r2) = bsig (fst r1) ++ [97; 116]
  /\ push_old_param b ill_variant = (b, false) /\ push_old_param b deep_empty = (b, false).
Proof. vm_compute. repeat split. Qed.
