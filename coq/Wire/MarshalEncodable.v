(** What a successful marshal call says about the value: its wire form (descriptor handles
    replaced by indices) is encodable at the position where it was written - sizes within the
    64 MiB limit (checked by the marshalling code), leaves valid (checked by the code or guaranteed
    by the Rust types), embedded types valid - and relabelling keeps typing and shape. *)
From RB Require Import Base.Prelude Sig.Types Sig.Parser Sig.Validator Wire.Bytes Wire.Align Wire.Text
  Wire.Value Wire.SpecEnc Wire.Marshal Wire.Relabel Wire.MarshalProofs Wire.Decode Wire.Unmarshal
  Wire.DecodeLemmas Wire.DecodeComplete.

(** ** hypotheses about the value handed to the marshaller *)
(* every text leaf is valid UTF-8 (Rust's String / &str guarantee it) *)
Fixpoint text_utf8 (v : val) : bool :=
  match v with
  | VBase _ _ => true
  | VText _ s => utf8_valid s
  | VArray _ vs | VStruct vs => forallb text_utf8 vs
  | VDict _ _ kvs => forallb (fun kv => text_utf8 (fst kv) && text_utf8 (snd kv)) kvs
  | VVariant _ x => text_utf8 x
  end.

(* every embedded type (array element, dict value, variant content) is a valid single complete
   type; no empty structs *)
Fixpoint types_ok (v : val) : bool :=
  match v with
  | VBase _ _ | VText _ _ => true
  | VArray t vs => type_ok t && forallb types_ok vs
  | VStruct vs => negb (match vs with [] => true | _ => false end) && forallb types_ok vs
  | VDict _ vt kvs => type_ok vt && forallb (fun kv => types_ok (fst kv) && types_ok (snd kv)) kvs
  | VVariant t x => type_ok t && types_ok x
  end.

(* a value nested in [depth] containers stays within the 64 levels *)
Fixpoint nest_ok (depth : N) (v : val) : bool :=
  match v with
  | VBase _ _ | VText _ _ => true
  | VArray _ vs | VStruct vs => (depth <? MAX_DEPTH) && forallb (nest_ok (depth + 1)) vs
  | VDict _ _ kvs => (depth <? MAX_DEPTH) && forallb (fun kv => nest_ok (depth + 1) (fst kv) && nest_ok (depth + 1) (snd kv)) kvs
  | VVariant _ x => (depth <? MAX_DEPTH) && nest_ok (depth + 1) x
  end.

(* number of container levels of a value *)
Fixpoint nesting (v : val) : N :=
  match v with
  | VBase _ _ | VText _ _ => 0
  | VArray _ vs | VStruct vs => 1 + fold_right (fun x m => N.max (nesting x) m) 0 vs
  | VDict _ _ kvs => 1 + fold_right (fun kv m => N.max (N.max (nesting (fst kv)) (nesting (snd kv))) m) 0 kvs
  | VVariant _ x => 1 + nesting x
  end.

Lemma nesting_nest_ok : forall v depth, depth + nesting v <= MAX_DEPTH -> nest_ok depth v = true.
Proof.
  induction v as [b k|b s|t vs IH|vs IH|k vt kvs IH|t x IH] using val_ind'; intros depth H; cbn [nest_ok nesting] in *;
    try reflexivity.
  - apply andb_true_intro. split; [apply N.ltb_lt; lia|]. apply forallb_forall. intros x Hin.
    rewrite Forall_forall in IH. apply (IH x Hin).
    assert (nesting x <= fold_right (fun x m => N.max (nesting x) m) 0 vs).
    { clear - Hin. induction vs as [|y r IHr]; [destruct Hin|]. cbn [fold_right]. destruct Hin as [->|Hin]; [lia|].
      specialize (IHr Hin). lia. }
    lia.
  - apply andb_true_intro. split; [apply N.ltb_lt; lia|]. apply forallb_forall. intros x Hin.
    rewrite Forall_forall in IH. apply (IH x Hin).
    assert (nesting x <= fold_right (fun x m => N.max (nesting x) m) 0 vs).
    { clear - Hin. induction vs as [|y r IHr]; [destruct Hin|]. cbn [fold_right]. destruct Hin as [->|Hin]; [lia|].
      specialize (IHr Hin). lia. }
    lia.
  - apply andb_true_intro. split; [apply N.ltb_lt; lia|]. apply forallb_forall. intros kv Hin.
    rewrite Forall_forall in IH. destruct (IH kv Hin) as [IHa IHb].
    assert (N.max (nesting (fst kv)) (nesting (snd kv))
            <= fold_right (fun kv m => N.max (N.max (nesting (fst kv)) (nesting (snd kv))) m) 0 kvs).
    { clear - Hin. induction kvs as [|y r IHr]; [destruct Hin|]. cbn [fold_right]. destruct Hin as [->|Hin]; [lia|].
      specialize (IHr Hin). lia. }
    apply andb_true_intro. split; [apply IHa|apply IHb]; lia.
  - apply andb_true_intro. split; [apply N.ltb_lt; lia|]. apply IH. lia.
Qed.

(** ** relabelling keeps typing, shape, and produces indices below the final count *)
Lemma relabel_list_mono vs n : n <= snd (relabel_list relabel vs n).
Proof. pose proof (relabel_mono (VStruct vs) n) as H. cbn [relabel] in H. now destruct (relabel_list relabel vs n). Qed.
Lemma relabel_entries_mono kvs n : n <= snd (relabel_entries relabel kvs n).
Proof. pose proof (relabel_mono (VDict BByte TVariant kvs) n) as H. cbn [relabel] in H. now destruct (relabel_entries relabel kvs n). Qed.

Lemma fds_below_mono : forall v n m, n <= m -> fds_below n v = true -> fds_below m v = true.
Proof.
  induction v as [b k|b s|t vs IH|vs IH|k vt kvs IH|t x IH] using val_ind'; intros n m Hnm H; cbn [fds_below] in *;
    try reflexivity.
  - destruct b; try reflexivity. apply N.ltb_lt in H. apply N.ltb_lt. lia.
  - apply forallb_forall. intros x Hin. rewrite forallb_forall in H. rewrite Forall_forall in IH. exact (IH x Hin n m Hnm (H x Hin)).
  - apply forallb_forall. intros x Hin. rewrite forallb_forall in H. rewrite Forall_forall in IH. exact (IH x Hin n m Hnm (H x Hin)).
  - apply forallb_forall. intros kv Hin. rewrite forallb_forall in H. rewrite Forall_forall in IH.
    destruct (IH kv Hin) as [IHa IHb]. specialize (H kv Hin). apply andb_prop in H. destruct H as [Ha Hb].
    rewrite (IHa n m Hnm Ha), (IHb n m Hnm Hb). reflexivity.
  - exact (IH n m Hnm H).
Qed.

Definition rl_fds (v : val) : Prop := forall n m, snd (relabel v n) <= m -> fds_below m (fst (relabel v n)) = true.

Lemma relabel_list_fds vs : Forall rl_fds vs ->
  forall n m, snd (relabel_list relabel vs n) <= m -> forallb (fds_below m) (fst (relabel_list relabel vs n)) = true.
Proof.
  induction 1 as [|x r Hx _ IH]; intros n m Hm; [reflexivity|]. rewrite relabel_list_cons in *.
  specialize (Hx n). destruct (relabel x n) as [x' n1] eqn:Ex. pose proof (relabel_list_mono r n1) as Hmono.
  specialize (IH n1). destruct (relabel_list relabel r n1) as [r' n2] eqn:Er. cbn [fst snd] in *.
  cbn [forallb]. rewrite (Hx m) by lia. rewrite (IH m Hm). reflexivity.
Qed.
Lemma relabel_entries_fds kvs : Forall (fun kv => rl_fds (fst kv) /\ rl_fds (snd kv)) kvs ->
  forall n m, snd (relabel_entries relabel kvs n) <= m ->
    forallb (fun kv => fds_below m (fst kv) && fds_below m (snd kv)) (fst (relabel_entries relabel kvs n)) = true.
Proof.
  induction 1 as [|[a b] r [Ha Hb] _ IH]; intros n m Hm; [reflexivity|]. rewrite relabel_entries_cons in *. cbn [fst snd] in *.
  specialize (Ha n). destruct (relabel a n) as [a' n1] eqn:Ea.
  specialize (Hb n1). pose proof (relabel_mono b n1) as Hmb. destruct (relabel b n1) as [b' n2] eqn:Eb.
  pose proof (relabel_entries_mono r n2) as Hmono.
  specialize (IH n2). destruct (relabel_entries relabel r n2) as [r' n3] eqn:Er. cbn [fst snd] in *.
  cbn [forallb fst snd]. rewrite (Ha m) by lia. rewrite (Hb m) by lia. rewrite (IH m Hm). reflexivity.
Qed.

Lemma relabel_fds : forall v, rl_fds v.
Proof.
  induction v as [b k|b s|t vs IH|vs IH|k vt kvs IH|t x IH] using val_ind'; intros n m Hm; cbn [relabel] in *.
  - destruct b; cbn [fst snd fds_below] in *; try reflexivity. apply N.ltb_lt. lia.
  - reflexivity.
  - pose proof (relabel_list_fds vs IH n m) as Hl. destruct (relabel_list relabel vs n). cbn [fst snd fds_below] in *. auto.
  - pose proof (relabel_list_fds vs IH n m) as Hl. destruct (relabel_list relabel vs n). cbn [fst snd fds_below] in *. auto.
  - pose proof (relabel_entries_fds kvs IH n m) as Hl. destruct (relabel_entries relabel kvs n). cbn [fst snd fds_below] in *. auto.
  - specialize (IH n m). destruct (relabel x n). cbn [fst snd fds_below] in *. auto.
Qed.

Definition rl_wt (v : val) : Prop := forall t n, wt v t = true -> snd (relabel v n) <= 2 ^ 32 -> wt (fst (relabel v n)) t = true.

Lemma relabel_list_wt vs : Forall rl_wt vs ->
  forall t n, forallb (fun x => wt x t) vs = true -> snd (relabel_list relabel vs n) <= 2 ^ 32 ->
    forallb (fun x => wt x t) (fst (relabel_list relabel vs n)) = true.
Proof.
  induction 1 as [|x r Hx _ IH]; intros t n Hw Hb; [reflexivity|]. rewrite relabel_list_cons in *.
  cbn [forallb] in Hw. apply andb_prop in Hw. destruct Hw as [Hwx Hwr].
  specialize (Hx t n Hwx). destruct (relabel x n) as [x' n1] eqn:Ex. pose proof (relabel_list_mono r n1) as Hmono.
  specialize (IH t n1 Hwr). destruct (relabel_list relabel r n1) as [r' n2] eqn:Er. cbn [fst snd] in *.
  cbn [forallb]. rewrite Hx by lia. rewrite (IH Hb). reflexivity.
Qed.
Lemma relabel_list_wt_struct vs : Forall rl_wt vs ->
  forall ts n, wt (VStruct vs) (TStruct ts) = true -> snd (relabel_list relabel vs n) <= 2 ^ 32 ->
    wt (VStruct (fst (relabel_list relabel vs n))) (TStruct ts) = true.
Proof.
  induction 1 as [|x r Hx _ IH]; intros ts n Hw Hb; [exact Hw|]. rewrite relabel_list_cons in *.
  destruct ts as [|t ts]; [discriminate|]. cbn [wt] in Hw. apply andb_prop in Hw. destruct Hw as [Hwx Hwr].
  specialize (Hx t n Hwx). destruct (relabel x n) as [x' n1] eqn:Ex. pose proof (relabel_list_mono r n1) as Hmono.
  specialize (IH ts n1 Hwr). destruct (relabel_list relabel r n1) as [r' n2] eqn:Er. cbn [fst snd] in *.
  cbn [wt]. rewrite Hx by lia. cbn [andb]. exact (IH Hb).
Qed.
Lemma relabel_entries_wt kvs : Forall (fun kv => rl_wt (fst kv) /\ rl_wt (snd kv)) kvs ->
  forall k vt n, forallb (fun kv => wt (fst kv) (TBase k) && wt (snd kv) vt) kvs = true ->
    snd (relabel_entries relabel kvs n) <= 2 ^ 32 ->
    forallb (fun kv => wt (fst kv) (TBase k) && wt (snd kv) vt) (fst (relabel_entries relabel kvs n)) = true.
Proof.
  induction 1 as [|[a b] r [Ha Hb] _ IH]; intros k vt n Hw Hbd; [reflexivity|]. rewrite relabel_entries_cons in *. cbn [fst snd] in *.
  cbn [forallb fst snd] in Hw. apply andb3 in Hw. destruct Hw as (Hwa & Hwb & Hwr).
  specialize (Ha (TBase k) n Hwa). destruct (relabel a n) as [a' n1] eqn:Ea.
  specialize (Hb vt n1 Hwb). pose proof (relabel_mono b n1) as Hmb. destruct (relabel b n1) as [b' n2] eqn:Eb.
  pose proof (relabel_entries_mono r n2) as Hmono.
  specialize (IH k vt n2 Hwr). destruct (relabel_entries relabel r n2) as [r' n3] eqn:Er. cbn [fst snd] in *.
  cbn [forallb fst snd]. rewrite Ha by lia. rewrite Hb by lia. rewrite (IH Hbd). reflexivity.
Qed.

Lemma relabel_wt : forall v, rl_wt v.
Proof.
  induction v as [b k|b s|et vs IH|vs IH|kb vt kvs IH|vt x IH] using val_ind'; intros T n Hw Hb; cbn [relabel] in *.
  - destruct (wt_base_ty _ _ _ Hw) as (-> & Ht & Hk & Hbool).
    destruct b; cbn [fst snd] in *; try exact Hw.
    cbn [wt base_size]. unfold base_eqb. rewrite N.eqb_refl. cbn [is_text negb andb].
    apply andb_true_intro. split; [|reflexivity]. apply N.ltb_lt. change (256 ^ N.of_nat 4) with (2 ^ 32). lia.
  - exact Hw.
  - pose proof (wt_array_ty _ _ _ Hw) as ET. subst T. pose proof (relabel_list_wt vs IH et n) as Hl.
    destruct (relabel_list relabel vs n). cbn [fst snd wt] in *. apply andb_prop in Hw. destruct Hw as [H1 H2].
    rewrite H1. cbn [andb]. auto.
  - destruct (wt_struct_ty _ _ Hw) as (ts & -> & _). pose proof (relabel_list_wt_struct vs IH ts n Hw) as Hl.
    destruct (relabel_list relabel vs n). cbn [fst snd] in *. auto.
  - pose proof (wt_dict_ty _ _ _ _ Hw) as ET. subst T. pose proof (relabel_entries_wt kvs IH kb vt n) as Hl.
    destruct (relabel_entries relabel kvs n). cbn [fst snd wt] in *. apply andb_prop in Hw. destruct Hw as [H1 H2].
    rewrite H1. cbn [andb]. auto.
  - pose proof (wt_variant_ty _ _ _ Hw) as ET. subst T. specialize (IH vt n). destruct (relabel x n). cbn [fst snd wt] in *. auto.
Qed.

Definition rl_ety (v : val) : Prop := forall e n, ety_matches e v = true -> ety_matches e (fst (relabel v n)) = true.

Lemma relabel_list_ety vs : Forall rl_ety vs ->
  forall e n, forallb (ety_matches e) vs = true -> forallb (ety_matches e) (fst (relabel_list relabel vs n)) = true.
Proof.
  induction 1 as [|x r Hx _ IH]; intros e n Hw; [reflexivity|]. rewrite relabel_list_cons.
  cbn [forallb] in Hw. apply andb_prop in Hw. destruct Hw as [Hwx Hwr].
  specialize (Hx e n Hwx). destruct (relabel x n) as [x' n1] eqn:Ex.
  specialize (IH e n1 Hwr). destruct (relabel_list relabel r n1) as [r' n2] eqn:Er. cbn [fst snd] in *.
  cbn [forallb]. now rewrite Hx, IH.
Qed.
Lemma relabel_list_ety_struct vs : Forall rl_ety vs ->
  forall es n, ety_matches (EStruct es) (VStruct vs) = true ->
    ety_matches (EStruct es) (VStruct (fst (relabel_list relabel vs n))) = true.
Proof.
  induction 1 as [|x r Hx _ IH]; intros es n Hw; [exact Hw|]. rewrite relabel_list_cons.
  destruct es as [|e es]; [discriminate|]. cbn [ety_matches] in Hw. apply andb_prop in Hw. destruct Hw as [Hwx Hwr].
  specialize (Hx e n Hwx). destruct (relabel x n) as [x' n1] eqn:Ex.
  specialize (IH es n1 Hwr). destruct (relabel_list relabel r n1) as [r' n2] eqn:Er. cbn [fst snd] in *.
  cbn [ety_matches]. rewrite Hx. cbn [andb]. exact IH.
Qed.
Lemma relabel_entries_ety kvs : Forall (fun kv => rl_ety (fst kv) /\ rl_ety (snd kv)) kvs ->
  forall e n, forallb (fun kv => ety_matches e (snd kv)) kvs = true ->
    forallb (fun kv => ety_matches e (snd kv)) (fst (relabel_entries relabel kvs n)) = true.
Proof.
  induction 1 as [|[a b] r [Ha Hb] _ IH]; intros e n Hw; [reflexivity|]. rewrite relabel_entries_cons. cbn [fst snd] in *.
  cbn [forallb fst snd] in Hw. apply andb_prop in Hw. destruct Hw as [Hwb Hwr].
  destruct (relabel a n) as [a' n1] eqn:Ea.
  specialize (Hb e n1 Hwb). destruct (relabel b n1) as [b' n2] eqn:Eb.
  specialize (IH e n2 Hwr). destruct (relabel_entries relabel r n2) as [r' n3] eqn:Er. cbn [fst snd] in *.
  cbn [forallb fst snd]. now rewrite Hb, IH.
Qed.

Lemma relabel_ety : forall v, rl_ety v.
Proof.
  induction v as [b k|b s|et vs IH|vs IH|kb vt kvs IH|vt x IH] using val_ind'; intros e n Hm; cbn [relabel] in *.
  - destruct b; exact Hm.
  - exact Hm.
  - destruct e as [?|x|?|? ?|?]; try discriminate Hm. pose proof (relabel_list_ety vs IH x n) as Hl.
    destruct (relabel_list relabel vs n). cbn [fst snd ety_matches] in *. apply andb_prop in Hm. destruct Hm as [H1 H2].
    rewrite H1. cbn [andb]. auto.
  - destruct e as [?|?|es|? ?|?]; try discriminate Hm. pose proof (relabel_list_ety_struct vs IH es n Hm) as Hl.
    destruct (relabel_list relabel vs n). cbn [fst snd] in *. exact Hl.
  - destruct e as [?|?|?|k' x|?]; try discriminate Hm. pose proof (relabel_entries_ety kvs IH x n) as Hl.
    destruct (relabel_entries relabel kvs n). cbn [fst snd ety_matches] in *. apply andb_prop in Hm. destruct Hm as [H1 H2].
    rewrite H1. cbn [andb]. auto.
  - destruct e as [?|?|?|? ?|x']; try discriminate Hm. specialize (IH x' n). destruct (relabel x n).
    cbn [fst snd ety_matches] in *. apply andb_prop in Hm. destruct Hm as [H1 H2]. rewrite H1. cbn [andb]. auto.
Qed.

(** ** a successful marshal call wrote an encodable value *)
Definition good (depth : N) (v : val) : Prop :=
  typed v /\ strings_small v = true /\ text_utf8 v = true /\ types_ok v = true /\ nest_ok depth v = true.

Lemma forallb_Forall {A} (f : A -> bool) l : forallb f l = true -> Forall (fun x => f x = true) l.
Proof. intros H. apply Forall_forall. now apply forallb_forall. Qed.

Lemma Forall_mp {A} (P Q : A -> Prop) l : Forall (fun x => P x -> Q x) l -> Forall P l -> Forall Q l.
Proof. induction 1 as [|x l Hx _ IH]; intros H; [constructor|]. apply Forall_cons_iff in H. destruct H. constructor; auto. Qed.
Lemma Forall_and {A} (P Q : A -> Prop) l : Forall P l -> Forall Q l -> Forall (fun x => P x /\ Q x) l.
Proof. induction 1 as [|x l Hx _ IH]; intros H; [constructor|]. apply Forall_cons_iff in H. destruct H. constructor; auto. Qed.

Lemma good_list d vs : Forall typed vs -> forallb strings_small vs = true -> forallb text_utf8 vs = true ->
  forallb types_ok vs = true -> forallb (nest_ok d) vs = true -> Forall (good d) vs.
Proof.
  intros H1 H2 H3 H4 H5. apply forallb_Forall in H2, H3, H4, H5. unfold good.
  repeat apply Forall_and; assumption.
Qed.

Lemma good_array d t vs : good d (VArray t vs) ->
  d < MAX_DEPTH /\ type_ok t = true /\ Forall (fun x => wt x t = true) vs /\ Forall (good (d + 1)) vs.
Proof.
  intros ([T Hw] & H2 & H3 & H4 & H5). cbn [strings_small text_utf8 types_ok nest_ok] in *.
  apply andb_prop in H4, H5. destruct H4 as [H4 H4'], H5 as [H5 H5']. apply N.ltb_lt in H5.
  pose proof (wt_array_inv _ _ _ Hw) as Hel. repeat split; try assumption.
  apply good_list; try assumption. now apply (Forall_typed_of_wt t).
Qed.
Lemma good_struct d vs : good d (VStruct vs) ->
  d < MAX_DEPTH /\ negb (match vs with [] => true | _ => false end) = true /\ Forall (good (d + 1)) vs.
Proof.
  intros ([T Hw] & H2 & H3 & H4 & H5). cbn [strings_small text_utf8 types_ok nest_ok] in *.
  apply andb_prop in H4, H5. destruct H4 as [H4 H4'], H5 as [H5 H5']. apply N.ltb_lt in H5.
  repeat split; try assumption. apply good_list; try assumption. exact (wt_struct_inv _ _ Hw).
Qed.
Lemma good_dict d k vt kvs : good d (VDict k vt kvs) ->
  d < MAX_DEPTH /\ type_ok vt = true
  /\ Forall (fun kv => good (d + 1) (fst kv) /\ good (d + 1) (snd kv)) kvs.
Proof.
  intros ([T Hw] & H2 & H3 & H4 & H5). cbn [strings_small text_utf8 types_ok nest_ok] in *.
  apply andb_prop in H4, H5. destruct H4 as [H4 H4'], H5 as [H5 H5']. apply N.ltb_lt in H5.
  pose proof (wt_dict_inv _ _ _ _ Hw) as Hel. repeat split; try assumption.
  apply Forall_forall. intros kv Hin. rewrite Forall_forall in Hel. destruct (Hel kv Hin) as [Hwa Hwb].
  rewrite forallb_forall in H2, H3, H4', H5'.
  specialize (H2 kv Hin). specialize (H3 kv Hin). specialize (H4' kv Hin). specialize (H5' kv Hin).
  apply andb_prop in H2, H3, H4', H5'. destruct H2, H3, H4', H5'. unfold good, typed. repeat split; eauto.
Qed.
Lemma good_variant d t x : good d (VVariant t x) -> d < MAX_DEPTH /\ type_ok t = true /\ good (d + 1) x.
Proof.
  intros ([T Hw] & H2 & H3 & H4 & H5). cbn [strings_small text_utf8 types_ok nest_ok] in *.
  apply andb_prop in H4, H5. destruct H4 as [H4 H4'], H5 as [H5 H5']. apply N.ltb_lt in H5.
  pose proof (wt_variant_inv _ _ _ Hw) as Hx. unfold good, typed. repeat split; eauto.
Qed.

Definition menc (m : val -> mctx -> mres) (be : bool) (depth : N) (v : val) : Prop :=
  forall c c', m v c = (c', true) -> snd (relabel v (mfds c)) <= 2 ^ 32 ->
    encodable be (len (mbuf c)) depth (fst (relabel v (mfds c))) = true.

Lemma marshal_seq_enc m be depth vs :
  Forall (marshal_ok m be) vs -> Forall (menc m be depth) vs ->
  forall c c', marshal_seq m vs c = (c', true) -> snd (relabel_list relabel vs (mfds c)) <= 2 ^ 32 ->
    encodable_list be (len (mbuf c)) depth (fst (relabel_list relabel vs (mfds c))) = true.
Proof.
  induction vs as [|x r IH]; intros Hok Hen c c' H Hb; [reflexivity|].
  apply Forall_cons_iff in Hok, Hen. destruct Hok as [Hx Hr], Hen as [Hex Her].
  rewrite marshal_seq_cons in H. destruct (m x c) as [c1 ok1] eqn:E1. destruct ok1; cbn [mbind] in H; [|discriminate].
  rewrite relabel_list_cons in Hb |- *.
  specialize (Hex c c1 E1). specialize (Hx c c1 E1).
  destruct (relabel x (mfds c)) as [x' n1] eqn:Ex.
  pose proof (relabel_list_mono r n1) as Hmono.
  specialize (IH Hr Her c1 c' H).
  destruct (relabel_list relabel r n1) as [r' n2] eqn:Er. cbn [fst snd] in *.
  destruct Hx as [Hb1 Hf1]; [lia|]. rewrite Hf1, Er in IH. cbn [fst snd] in IH.
  cbn [encodable_list]. rewrite Hex by lia. cbn [andb].
  rewrite Hb1, len_app in IH. exact (IH Hb).
Qed.

Lemma marshal_entries_enc m be depth kvs :
  Forall (fun kv => marshal_ok m be (fst kv) /\ marshal_ok m be (snd kv)) kvs ->
  Forall (fun kv => menc m be depth (fst kv) /\ menc m be depth (snd kv)) kvs ->
  forall c c', marshal_entries m kvs c = (c', true) -> snd (relabel_entries relabel kvs (mfds c)) <= 2 ^ 32 ->
    encodable_entries be (len (mbuf c)) depth (fst (relabel_entries relabel kvs (mfds c))) = true.
Proof.
  induction kvs as [|[a b] r IH]; intros Hok Hen c c' H Hb; [reflexivity|].
  apply Forall_cons_iff in Hok, Hen. destruct Hok as [[Ha Hbb] Hr], Hen as [[Hea Heb] Her]. cbn [fst snd] in *.
  rewrite marshal_entries_cons in H.
  set (c0 := {| mbuf := pad_to 8 (mbuf c); mfds := mfds c |}) in *.
  destruct (m a c0) as [c1 ok1] eqn:E1. destruct ok1; cbn [mbind] in H; [|discriminate].
  destruct (m b c1) as [c2 ok2] eqn:E2. destruct ok2; cbn [mbind] in H; [|discriminate].
  rewrite relabel_entries_cons in Hb |- *.
  pose proof (relabel_mono a (mfds c)) as Hm1.
  destruct (relabel a (mfds c)) as [a' n1] eqn:Ea.
  pose proof (relabel_mono b n1) as Hm2.
  destruct (relabel b n1) as [b' n2] eqn:Eb.
  pose proof (relabel_entries_mono r n2) as Hm3.
  destruct (relabel_entries relabel r n2) as [r' n3] eqn:Er. cbn [fst snd] in *.
  destruct (Ha c0 c1 E1) as [Hb1 Hf1]; [subst c0; cbn [mfds]; rewrite Ea; cbn; lia|].
  specialize (Hea c0 c1 E1). subst c0. cbn [mbuf mfds] in *. rewrite Ea in Hb1, Hf1, Hea. cbn [fst snd] in *.
  destruct (Hbb c1 c2 E2) as [Hb2 Hf2]; [rewrite Hf1, Eb; cbn; lia|].
  specialize (Heb c1 c2 E2). rewrite Hf1, Eb in Hb2, Hf2, Heb. cbn [fst snd] in *.
  specialize (IH Hr Her c2 c' H). rewrite Hf2, Er in IH. cbn [fst snd] in IH.
  assert (L0 : len (pad_to 8 (mbuf c)) = len (mbuf c) + padlen 8 (len (mbuf c))).
  { rewrite pad_to_spec by lia. now rewrite len_app, len_zeros. }
  rewrite L0 in *.
  cbn [encodable_entries]. cbv zeta. rewrite Hea by lia.
  assert (L1 : len (mbuf c1) = len (mbuf c) + padlen 8 (len (mbuf c)) + len (spec_enc be (len (mbuf c) + padlen 8 (len (mbuf c))) a')).
  { rewrite Hb1, len_app, L0. reflexivity. }
  rewrite L1 in *. rewrite Heb by lia. cbn [andb].
  unfold spec_enc_entry. cbn [fst snd]. cbv zeta. rewrite len_zeros.
  rewrite Hb2, len_app, L1 in IH. rewrite !len_app, len_zeros, !N.add_assoc. exact (IH Hb).
Qed.

Lemma encodable_list_base be b vs pos d : Forall (fun x => exists k, x = VBase b k) vs -> encodable_list be pos d vs = true.
Proof. intros H. revert pos. induction H as [|x r (k & ->) _ IH]; intros pos; [reflexivity|]. cbn [encodable_list encodable andb]. apply IH. Qed.

Lemma leaf_encodable be pos d b s : typed (VText b s) -> leaves_ok (VText b s) = true ->
  strings_small (VText b s) = true -> text_utf8 (VText b s) = true -> encodable be pos d (VText b s) = true.
Proof.
  intros [T Hw] Hl Hs Hu. destruct (wt_text_ty _ _ _ Hw) as [_ Ht]. cbn [leaves_ok strings_small text_utf8] in *.
  destruct b; try discriminate Ht; cbn [encodable]; rewrite ?Hu, ?Hl, ?Hs; reflexivity.
Qed.

Theorem marshal_t_encodable be : forall v depth, good depth v -> menc (marshal_t be) be depth v.
Proof.
  induction v as [b k|b s|t vs IH|vs IH|kb vt kvs IH|t x IH] using val_ind'; intros depth Hg c c' H Hb.
  - cbn [relabel]. destruct b; reflexivity.
  - destruct Hg as (Hty & Hss & Hu & _). cbn [relabel fst].
    apply leaf_encodable; try assumption. exact (marshal_t_refuses be _ Hty c c' H).
  - (* array *)
    destruct (good_array _ _ _ Hg) as (Hd & Htok & Hel & Hgs).
    assert (Hok : Forall (marshal_ok (marshal_t be) be) vs).
    { eapply Forall_impl; [|exact Hgs]. intros x (Hx1 & Hx2 & _). now apply marshal_t_spec. }
    assert (Hen : Forall (menc (marshal_t be) be (depth + 1)) vs).
    { apply (Forall_mp (good (depth + 1))); [|exact Hgs]. eapply Forall_impl; [|exact IH]. intros x Hx. apply Hx. }
    rewrite marshal_t_array in H. cbv zeta in H. cbn [relabel] in Hb |- *.
    rewrite (pad_to_spec 4 (mbuf c)) in H by lia.
    set (pos := len (mbuf c)) in *. set (p1 := padlen 4 pos) in *.
    apply N.ltb_lt in Hd.
    destruct (valid_slice be t) eqn:Evs.
    + destruct (valid_slice_inv _ _ Evs) as (b & -> & Htx & Hnfd & Hsz & Hbe).
      assert (Hvs : Forall (fun x => exists k, x = VBase b k /\ k < 256 ^ N.of_nat (base_size b)) vs).
      { eapply Forall_impl; [|exact Hel]. intros x Hx. destruct (wt_base_inv _ _ Hx) as [(k & -> & _ & Hk)|(s & -> & Hts)]; [eauto|congruence]. }
      rewrite relabel_list_nofd in Hb |- * by (eapply Forall_impl; [|exact Hvs]; intros x (k & -> & _); eauto).
      cbn [fst snd] in *. cbn [align] in H.
      destruct (N.ltb_spec MAX_ARRAY (base_align b * len vs)) as [|Hmax]; [discriminate|].
      rewrite encodable_array. cbn [align]. fold p1.
      set (p2 := padlen (base_align b) (pos + p1 + 4)).
      assert (Hal : (pos + p1 + 4 + p2) mod base_align b = 0) by (apply padlen_aligned, base_align_pos).
      destruct (fast_body be b vs Hbe Htx Hsz Hvs _ Hal) as [_ E2]. rewrite E2.
      apply N.leb_le in Hmax. rewrite Hd, Htok, Hmax. cbn [andb].
      apply (encodable_list_base be b). eapply Forall_impl; [|exact Hvs]. intros x (k & -> & _). eauto.
    + set (b3 := pad_to (align t) ((mbuf c ++ zeros p1) ++ [0; 0; 0; 0])) in *.
      assert (Lb3 : len b3 = pos + p1 + 4 + padlen (align t) (pos + p1 + 4)).
      { subst b3. rewrite pad_to_spec by apply align_pos. rewrite !len_app, !len_zeros, len_zeros4. fold pos. lia. }
      set (p2 := padlen (align t) (pos + p1 + 4)) in *.
      destruct (relabel_list relabel vs (mfds c)) as [vs' n'] eqn:Er. cbn [fst snd] in *.
      rewrite encodable_array. fold p1. fold p2. rewrite Hd, Htok. cbn [andb].
      destruct vs as [|x0 vs0].
      { cbn in Er. injection Er as <- <-. reflexivity. }
      set (vs := x0 :: vs0) in *.
      destruct (marshal_seq (marshal_t be) vs {| mbuf := b3; mfds := mfds c |}) as [c1 ok1] eqn:Es.
      destruct ok1; cbn [mbind] in H; [|discriminate].
      destruct (marshal_seq_ok _ be vs Hok _ _ Es) as [Hb1 Hf1]; [cbn [mfds]; rewrite Er; exact Hb|].
      pose proof (marshal_seq_enc _ be (depth + 1) vs Hok Hen _ _ Es) as Hse.
      cbn [mbuf mfds] in Hb1, Hf1, Hse. rewrite Er in Hb1, Hf1, Hse. cbn [fst snd] in Hb1, Hf1, Hse. rewrite Lb3 in Hb1, Hse.
      set (body := spec_enc_list be (pos + p1 + 4 + p2) vs') in *.
      assert (Ln : len (mbuf c1) - len b3 = len body) by (rewrite Hb1, len_app; lia).
      rewrite Ln in H. destruct (N.ltb_spec MAX_ARRAY (len body)) as [|Hmax]; [discriminate|].
      apply N.leb_le in Hmax. rewrite Hmax. cbn [andb]. exact (Hse Hb).
  - (* struct *)
    destruct (good_struct _ _ Hg) as (Hd & Hne & Hgs).
    assert (Hok : Forall (marshal_ok (marshal_t be) be) vs).
    { eapply Forall_impl; [|exact Hgs]. intros x (Hx1 & Hx2 & _). now apply marshal_t_spec. }
    assert (Hen : Forall (menc (marshal_t be) be (depth + 1)) vs).
    { apply (Forall_mp (good (depth + 1))); [|exact Hgs]. eapply Forall_impl; [|exact IH]. intros x Hx. apply Hx. }
    rewrite marshal_t_struct in H. cbn [relabel] in Hb |- *.
    pose proof (marshal_seq_enc _ be (depth + 1) vs Hok Hen _ _ H) as Hse. cbn [mbuf mfds] in Hse.
    destruct (relabel_list relabel vs (mfds c)) as [vs' n'] eqn:Er. cbn [fst snd] in *.
    rewrite encodable_struct. apply N.ltb_lt in Hd. rewrite Hd.
    assert (Hne' : negb (match vs' with [] => true | _ => false end) = true).
    { destruct vs as [|x0 r0]; [discriminate|]. rewrite relabel_list_cons in Er.
      destruct (relabel x0 (mfds c)). destruct (relabel_list relabel r0 n). injection Er as <- _. reflexivity. }
    rewrite Hne'. cbn [andb].
    rewrite pad_to_spec in Hse by lia. rewrite len_app, len_zeros in Hse. exact (Hse Hb).
  - (* dict *)
    destruct (good_dict _ _ _ _ Hg) as (Hd & Htok & Hgs).
    assert (Hok : Forall (fun kv => marshal_ok (marshal_t be) be (fst kv) /\ marshal_ok (marshal_t be) be (snd kv)) kvs).
    { eapply Forall_impl; [|exact Hgs]. intros kv [(Ha1 & Ha2 & _) (Hb1 & Hb2 & _)]. split; now apply marshal_t_spec. }
    assert (Hen : Forall (fun kv => menc (marshal_t be) be (depth + 1) (fst kv) /\ menc (marshal_t be) be (depth + 1) (snd kv)) kvs).
    { apply Forall_forall. intros kv Hin. rewrite Forall_forall in IH, Hgs. destruct (IH kv Hin) as [IHa IHb].
      destruct (Hgs kv Hin) as [Hga Hgb]. split; [now apply IHa|now apply IHb]. }
    rewrite marshal_t_dict in H. cbv zeta in H. cbn [relabel] in Hb |- *.
    rewrite (pad_to_spec 4 (mbuf c)) in H by lia.
    set (pos := len (mbuf c)) in *. set (p1 := padlen 4 pos) in *.
    apply N.ltb_lt in Hd.
    set (b3 := pad_to 8 ((mbuf c ++ zeros p1) ++ [0; 0; 0; 0])) in *.
    assert (Lb3 : len b3 = pos + p1 + 4 + padlen 8 (pos + p1 + 4)).
    { subst b3. rewrite pad_to_spec by lia. rewrite !len_app, !len_zeros, len_zeros4. fold pos. lia. }
    set (p2 := padlen 8 (pos + p1 + 4)) in *.
    destruct (relabel_entries relabel kvs (mfds c)) as [kvs' n'] eqn:Er. cbn [fst snd] in *.
    rewrite encodable_dict. fold p1. fold p2. rewrite Hd, Htok. cbn [andb].
    destruct kvs as [|kv0 kvs0].
    { cbn in Er. injection Er as <- <-. reflexivity. }
    set (kvs := kv0 :: kvs0) in *.
    destruct (marshal_entries (marshal_t be) kvs {| mbuf := b3; mfds := mfds c |}) as [c1 ok1] eqn:Es.
    destruct ok1; cbn [mbind] in H; [|discriminate].
    destruct (marshal_entries_ok _ be kvs Hok _ _ Es) as [Hb1 Hf1]; [cbn [mfds]; rewrite Er; exact Hb|].
    pose proof (marshal_entries_enc _ be (depth + 1) kvs Hok Hen _ _ Es) as Hse.
    cbn [mbuf mfds] in Hb1, Hf1, Hse. rewrite Er in Hb1, Hf1, Hse. cbn [fst snd] in Hb1, Hf1, Hse. rewrite Lb3 in Hb1, Hse.
    set (body := spec_enc_entries be (pos + p1 + 4 + p2) kvs') in *.
    assert (Ln : len (mbuf c1) - len b3 = len body) by (rewrite Hb1, len_app; lia).
    rewrite Ln in H. destruct (N.ltb_spec MAX_ARRAY (len body)) as [|Hmax]; [discriminate|].
    apply N.leb_le in Hmax. rewrite Hmax. cbn [andb]. exact (Hse Hb).
  - (* variant *)
    destruct (good_variant _ _ _ Hg) as (Hd & Htok & Hgx).
    cbn [marshal_t] in H. cbv zeta in H. cbn [relabel] in Hb |- *.
    destruct (N.ltb_spec 255 (len (to_str t))) as [|Hl]; [discriminate|].
    destruct (is_ok (validate_signature (to_str t))) eqn:Evs; [|discriminate].
    specialize (IH (depth + 1) Hgx _ _ H). cbn [mbuf mfds] in IH.
    destruct (relabel x (mfds c)) as [x' n'] eqn:Er. cbn [fst snd] in *.
    cbn [encodable]. apply N.ltb_lt in Hd. rewrite Hd, Htok. cbn [andb].
    unfold write_signature in IH. rewrite !len_app, len_1 in IH. rewrite len_sig_bytes.
    replace (len (mbuf c) + (len (to_str t) + 2)) with (len (mbuf c) + (1 + (len (to_str t) + len [0])))
      by (change (len [0]) with 1; lia).
    exact (IH Hb).
Qed.

Theorem marshal_p_encodable be : forall v depth, good depth v -> menc (marshal_p be depth) be depth v.
Proof.
  induction v as [b k|b s|t vs IH|vs IH|kb vt kvs IH|t x IH] using val_ind'; intros depth Hg c c' H Hb.
  - cbn [relabel]. destruct b; reflexivity.
  - destruct Hg as (Hty & Hss & Hu & _). cbn [relabel fst].
    apply leaf_encodable; try assumption. exact (marshal_p_refuses be _ Hty depth c c' H).
  - (* array *)
    destruct (good_array _ _ _ Hg) as (Hd & Htok & Hel & Hgs).
    assert (Hok : Forall (marshal_ok (marshal_p be (depth + 1)) be) vs).
    { eapply Forall_impl; [|exact Hgs]. intros x (Hx1 & Hx2 & _). now apply marshal_p_spec. }
    assert (Hen : Forall (menc (marshal_p be (depth + 1)) be (depth + 1)) vs).
    { apply (Forall_mp (good (depth + 1))); [|exact Hgs]. eapply Forall_impl; [|exact IH]. intros x Hx. apply Hx. }
    rewrite marshal_p_array in H. cbv zeta in H. cbn [relabel] in Hb |- *.
    destruct (MAX_DEPTH <=? depth); [discriminate|]. destruct (negb _); [discriminate|].
    rewrite (pad_to_spec 4 (mbuf c)) in H by lia.
    set (pos := len (mbuf c)) in *. set (p1 := padlen 4 pos) in *.
    apply N.ltb_lt in Hd.
    set (b3 := pad_to (align t) ((mbuf c ++ zeros p1) ++ [0; 0; 0; 0])) in *.
    assert (Lb3 : len b3 = pos + p1 + 4 + padlen (align t) (pos + p1 + 4)).
    { subst b3. rewrite pad_to_spec by apply align_pos. rewrite !len_app, !len_zeros, len_zeros4. fold pos. lia. }
    set (p2 := padlen (align t) (pos + p1 + 4)) in *.
    destruct (relabel_list relabel vs (mfds c)) as [vs' n'] eqn:Er. cbn [fst snd] in *.
    rewrite encodable_array. fold p1. fold p2. rewrite Hd, Htok. cbn [andb].
    destruct (marshal_seq (marshal_p be (depth + 1)) vs {| mbuf := b3; mfds := mfds c |}) as [c1 ok1] eqn:Es.
    destruct ok1; cbn [mbind] in H; [|discriminate].
    destruct (marshal_seq_ok _ be vs Hok _ _ Es) as [Hb1 Hf1]; [cbn [mfds]; rewrite Er; exact Hb|].
    pose proof (marshal_seq_enc _ be (depth + 1) vs Hok Hen _ _ Es) as Hse.
    cbn [mbuf mfds] in Hb1, Hf1, Hse. rewrite Er in Hb1, Hf1, Hse. cbn [fst snd] in Hb1, Hf1, Hse. rewrite Lb3 in Hb1, Hse.
    set (body := spec_enc_list be (pos + p1 + 4 + p2) vs') in *.
    assert (Ln : len (mbuf c1) - len b3 = len body) by (rewrite Hb1, len_app; lia).
    rewrite Ln in H. destruct (N.ltb_spec MAX_ARRAY (len body)) as [|Hmax]; [discriminate|].
    apply N.leb_le in Hmax. rewrite Hmax. cbn [andb]. exact (Hse Hb).
  - (* struct *)
    destruct (good_struct _ _ Hg) as (Hd & Hne & Hgs).
    assert (Hok : Forall (marshal_ok (marshal_p be (depth + 1)) be) vs).
    { eapply Forall_impl; [|exact Hgs]. intros x (Hx1 & Hx2 & _). now apply marshal_p_spec. }
    assert (Hen : Forall (menc (marshal_p be (depth + 1)) be (depth + 1)) vs).
    { apply (Forall_mp (good (depth + 1))); [|exact Hgs]. eapply Forall_impl; [|exact IH]. intros x Hx. apply Hx. }
    rewrite marshal_p_struct in H. cbn [relabel] in Hb |- *.
    destruct (MAX_DEPTH <=? depth); [discriminate|].
    pose proof (marshal_seq_enc _ be (depth + 1) vs Hok Hen _ _ H) as Hse. cbn [mbuf mfds] in Hse.
    destruct (relabel_list relabel vs (mfds c)) as [vs' n'] eqn:Er. cbn [fst snd] in *.
    rewrite encodable_struct. apply N.ltb_lt in Hd. rewrite Hd.
    assert (Hne' : negb (match vs' with [] => true | _ => false end) = true).
    { destruct vs as [|x0 r0]; [discriminate|]. rewrite relabel_list_cons in Er.
      destruct (relabel x0 (mfds c)). destruct (relabel_list relabel r0 n). injection Er as <- _. reflexivity. }
    rewrite Hne'. cbn [andb].
    rewrite pad_to_spec in Hse by lia. rewrite len_app, len_zeros in Hse. exact (Hse Hb).
  - (* dict *)
    destruct (good_dict _ _ _ _ Hg) as (Hd & Htok & Hgs).
    assert (Hok : Forall (fun kv => marshal_ok (marshal_p be (depth + 1)) be (fst kv) /\ marshal_ok (marshal_p be (depth + 1)) be (snd kv)) kvs).
    { eapply Forall_impl; [|exact Hgs]. intros kv [(Ha1 & Ha2 & _) (Hb1 & Hb2 & _)]. split; now apply marshal_p_spec. }
    assert (Hen : Forall (fun kv => menc (marshal_p be (depth + 1)) be (depth + 1) (fst kv)
                                    /\ menc (marshal_p be (depth + 1)) be (depth + 1) (snd kv)) kvs).
    { apply Forall_forall. intros kv Hin. rewrite Forall_forall in IH, Hgs. destruct (IH kv Hin) as [IHa IHb].
      destruct (Hgs kv Hin) as [Hga Hgb]. split; [now apply IHa|now apply IHb]. }
    rewrite marshal_p_dict in H. cbv zeta in H. cbn [relabel] in Hb |- *.
    destruct (MAX_DEPTH <=? depth); [discriminate|]. destruct (negb _); [discriminate|].
    rewrite (pad_to_spec 4 (mbuf c)) in H by lia.
    set (pos := len (mbuf c)) in *. set (p1 := padlen 4 pos) in *.
    apply N.ltb_lt in Hd.
    set (b3 := pad_to 8 ((mbuf c ++ zeros p1) ++ [0; 0; 0; 0])) in *.
    assert (Lb3 : len b3 = pos + p1 + 4 + padlen 8 (pos + p1 + 4)).
    { subst b3. rewrite pad_to_spec by lia. rewrite !len_app, !len_zeros, len_zeros4. fold pos. lia. }
    set (p2 := padlen 8 (pos + p1 + 4)) in *.
    destruct (relabel_entries relabel kvs (mfds c)) as [kvs' n'] eqn:Er. cbn [fst snd] in *.
    rewrite encodable_dict. fold p1. fold p2. rewrite Hd, Htok. cbn [andb].
    destruct (marshal_entries (marshal_p be (depth + 1)) kvs {| mbuf := b3; mfds := mfds c |}) as [c1 ok1] eqn:Es.
    destruct ok1; cbn [mbind] in H; [|discriminate].
    destruct (marshal_entries_ok _ be kvs Hok _ _ Es) as [Hb1 Hf1]; [cbn [mfds]; rewrite Er; exact Hb|].
    pose proof (marshal_entries_enc _ be (depth + 1) kvs Hok Hen _ _ Es) as Hse.
    cbn [mbuf mfds] in Hb1, Hf1, Hse. rewrite Er in Hb1, Hf1, Hse. cbn [fst snd] in Hb1, Hf1, Hse. rewrite Lb3 in Hb1, Hse.
    set (body := spec_enc_entries be (pos + p1 + 4 + p2) kvs') in *.
    assert (Ln : len (mbuf c1) - len b3 = len body) by (rewrite Hb1, len_app; lia).
    rewrite Ln in H. destruct (N.ltb_spec MAX_ARRAY (len body)) as [|Hmax]; [discriminate|].
    apply N.leb_le in Hmax. rewrite Hmax. cbn [andb]. exact (Hse Hb).
  - (* variant *)
    destruct (good_variant _ _ _ Hg) as (Hd & Htok & Hgx).
    cbn [marshal_p] in H. cbv zeta in H. cbn [relabel] in Hb |- *.
    destruct (MAX_DEPTH <=? depth); [discriminate|]. destruct (negb (ty_eqb (ty_of x) t)); [discriminate|].
    destruct (is_ok (validate_signature (to_str t))); [|discriminate].
    specialize (IH (depth + 1) Hgx _ _ H). cbn [mbuf mfds] in IH.
    destruct (relabel x (mfds c)) as [x' n'] eqn:Er. cbn [fst snd] in *.
    cbn [encodable]. apply N.ltb_lt in Hd. rewrite Hd, Htok. cbn [andb].
    unfold write_signature in IH. rewrite !len_app, len_1 in IH. rewrite len_sig_bytes.
    replace (len (mbuf c) + (len (to_str t) + 2)) with (len (mbuf c) + (1 + (len (to_str t) + len [0])))
      by (change (len [0]) with 1; lia).
    exact (IH Hb).
Qed.

Lemma leaves_ok_handles_live : forall v, leaves_ok v = true -> handles_live v = true.
Proof.
  induction v as [b k|b s|t vs IH|vs IH|kb vt kvs IH|t x IH] using val_ind'; intros H; cbn [leaves_ok handles_live] in *.
  - destruct b; auto.
  - reflexivity.
  - apply forallb_forall. intros x Hin. rewrite forallb_forall in H. rewrite Forall_forall in IH. auto.
  - apply forallb_forall. intros x Hin. rewrite forallb_forall in H. rewrite Forall_forall in IH. auto.
  - apply forallb_forall. intros kv Hin. rewrite forallb_forall in H. rewrite Forall_forall in IH.
    destruct (IH kv Hin) as [IHa IHb]. specialize (H kv Hin). apply andb_prop in H. destruct H as [Ha Hb].
    now rewrite (IHa Ha), (IHb Hb).
  - apply andb_prop in H. destruct H as [_ H]. auto.
Qed.

(** the statement asked for: success + the Rust-side guarantees give live handles and an encodable wire value *)
Theorem marshal_t_encodable' be v depth c c' : good depth v -> marshal_t be v c = (c', true) ->
  snd (relabel v (mfds c)) <= 2 ^ 32 ->
  handles_live v = true /\ encodable be (len (mbuf c)) depth (fst (relabel v (mfds c))) = true.
Proof.
  intros Hg H Hb. split; [|exact (marshal_t_encodable be v depth Hg c c' H Hb)].
  destruct Hg as (Hty & _). exact (leaves_ok_handles_live _ (marshal_t_refuses be v Hty c c' H)).
Qed.
Theorem marshal_p_encodable' be v depth c c' : good depth v -> marshal_p be depth v c = (c', true) ->
  snd (relabel v (mfds c)) <= 2 ^ 32 ->
  handles_live v = true /\ encodable be (len (mbuf c)) depth (fst (relabel v (mfds c))) = true.
Proof.
  intros Hg H Hb. split; [|exact (marshal_p_encodable be v depth Hg c c' H Hb)].
  destruct Hg as (Hty & _). exact (leaves_ok_handles_live _ (marshal_p_refuses be v Hty depth c c' H)).
Qed.
