(** C02, acceptance: exactly WHEN the two marshallers succeed.
    For a well-typed value, [marshal_t] returns Ok iff the leaves are acceptable ([leaves_ok]), the printed signature
    of every variant validates ([variant_sigs_ok]; marshal_as_variant checks it since fix ef1b771, the Param API's
    marshal_signature always did) and every array / dict body is within 64 MiB ([arrays_within], measured as the code
    measures it: from the first element after the padding that follows the length field, at the position where the
    value is written). [marshal_p] returns Ok iff additionally the nesting counter stays below 64 ([nest_ok]) - the
    only difference left between the two APIs on well-typed values.
    Neither API checks string lengths against 2^32 or the number of descriptors ('as u32' truncates silently), so
    these are NOT conditions of success.
    Model: Wire/Marshal.v. *)
From RB Require Import Base.Prelude Sig.Types Sig.Parser Sig.ParserProofs Sig.Validator Sig.ValidatorProofs
  Wire.Bytes Wire.Align Wire.Text Wire.Value Wire.SpecEnc Wire.Marshal Wire.Relabel Wire.MarshalProofs
  Wire.Limits Wire.Decode Wire.Unmarshal Wire.DecodeLemmas Wire.DecodeComplete Wire.MarshalEncodable.

(** ** the conditions *)
(* leaves as the Param API checks them: like [leaves_ok], but a variant's printed signature goes
   through validate_signature (marshal_signature), not only the 255 byte limit *)
Fixpoint leaves_ok_p (v : val) : bool :=
  match v with
  | VBase BUnixFd k => k =? 0
  | VBase _ _ => true
  | VText BString s => negb (has_nul s)
  | VText BObjectPath s => valid_path s
  | VText BSignature s => is_ok (validate_signature s)
  | VText _ _ => false
  | VArray _ vs | VStruct vs => forallb leaves_ok_p vs
  | VDict _ _ kvs => forallb (fun kv => leaves_ok_p (fst kv) && leaves_ok_p (snd kv)) kvs
  | VVariant t x => is_ok (validate_signature (to_str t)) && leaves_ok_p x
  end.

(* loops over element positions *)
Fixpoint cond_list (be : bool) (cond : N -> val -> bool) (pos : N) (l : list val) : bool :=
  match l with
  | [] => true
  | x :: r => cond pos x && cond_list be cond (pos + len (spec_enc be pos x)) r
  end.
Fixpoint cond_entries (be : bool) (cond : N -> val -> bool) (pos : N) (l : list (val * val)) : bool :=
  match l with
  | [] => true
  | (a, b) :: r =>
      let p := pos + padlen 8 pos in
      cond p a && cond (p + len (spec_enc be p a)) b
      && cond_entries be cond (pos + len (spec_enc_entry be pos (a, b))) r
  end.

Lemma arrays_within_array be pos t vs : arrays_within be pos (VArray t vs) =
  (len (spec_enc_list be (pos + padlen 4 pos + 4 + padlen (align t) (pos + padlen 4 pos + 4)) vs) <=? MAX_ARRAY)
  && cond_list be (arrays_within be) (pos + padlen 4 pos + 4 + padlen (align t) (pos + padlen 4 pos + 4)) vs.
Proof.
  cbn [arrays_within]. cbv zeta.
  match goal with |- context [(fix go (p : N) (l : list val) {struct l} : bool := _)] =>
    set (go := (fix go (p : N) (l : list val) {struct l} : bool := _)) end.
  assert (E : forall l p, go p l = cond_list be (arrays_within be) p l)
    by (induction l as [|x l IH]; intros p; cbn; [reflexivity|now rewrite IH]).
  now rewrite E.
Qed.
Lemma arrays_within_struct be pos vs : arrays_within be pos (VStruct vs) =
  cond_list be (arrays_within be) (pos + padlen 8 pos) vs.
Proof.
  cbn [arrays_within].
  match goal with |- context [(fix go (p : N) (l : list val) {struct l} : bool := _)] =>
    set (go := (fix go (p : N) (l : list val) {struct l} : bool := _)) end.
  assert (E : forall l p, go p l = cond_list be (arrays_within be) p l)
    by (induction l as [|x l IH]; intros p; cbn; [reflexivity|now rewrite IH]).
  now rewrite E.
Qed.
Lemma arrays_within_dict be pos k vt kvs : arrays_within be pos (VDict k vt kvs) =
  (len (spec_enc_entries be (pos + padlen 4 pos + 4 + padlen 8 (pos + padlen 4 pos + 4)) kvs) <=? MAX_ARRAY)
  && cond_entries be (arrays_within be) (pos + padlen 4 pos + 4 + padlen 8 (pos + padlen 4 pos + 4)) kvs.
Proof.
  cbn [arrays_within]. cbv zeta.
  match goal with |- context [(fix go (p : N) (l : list (val * val)) {struct l} : bool := _)] =>
    set (go := (fix go (p : N) (l : list (val * val)) {struct l} : bool := _)) end.
  assert (E : forall l p, go p l = cond_entries be (arrays_within be) p l).
  { induction l as [|[a b] l IH]; intros p; cbn [cond_entries]; [reflexivity|]. cbv zeta. cbn. now rewrite IH. }
  now rewrite E.
Qed.

Lemma cond_list_and be (f : val -> bool) (g : N -> val -> bool) l : forall pos,
  cond_list be (fun p x => f x && g p x) pos l = forallb f l && cond_list be g pos l.
Proof.
  induction l as [|x r IH]; intros pos; cbn [cond_list forallb]; [reflexivity|]. rewrite IH.
  destruct (f x), (g pos x), (forallb f r); reflexivity.
Qed.
Lemma cond_entries_and be (f : val -> bool) (g : N -> val -> bool) l : forall pos,
  cond_entries be (fun p x => f x && g p x) pos l
  = forallb (fun kv => f (fst kv) && f (snd kv)) l && cond_entries be g pos l.
Proof.
  induction l as [|[a b] r IH]; intros pos; cbn [cond_entries forallb fst snd]; [reflexivity|]. cbv zeta. rewrite IH.
  destruct (f a), (f b), (g (pos + padlen 8 pos) a), (g (pos + padlen 8 pos + len (spec_enc be (pos + padlen 8 pos) a)) b),
    (forallb (fun kv => f (fst kv) && f (snd kv)) r); reflexivity.
Qed.
Lemma forallb_andb {A} (f g : A -> bool) l : forallb (fun x => f x && g x) l = forallb f l && forallb g l.
Proof. induction l as [|x r IH]; cbn [forallb]; [reflexivity|]. rewrite IH. destruct (f x), (g x), (forallb f r); reflexivity. Qed.
Lemma forallb_andb2 {A} (f g : A -> bool) (l : list (A * A)) :
  forallb (fun kv => (f (fst kv) && g (fst kv)) && (f (snd kv) && g (snd kv))) l
  = forallb (fun kv => f (fst kv) && f (snd kv)) l && forallb (fun kv => g (fst kv) && g (snd kv)) l.
Proof.
  induction l as [|[a b] r IH]; cbn [forallb fst snd]; [reflexivity|]. rewrite IH.
  destruct (f a), (g a), (f b), (g b), (forallb (fun kv => f (fst kv) && f (snd kv)) r); reflexivity.
Qed.

(** ** a marshaller decides a condition: Ok (and the length written) when it holds, Err otherwise *)
Definition decides (m : val -> mctx -> mres) (be : bool) (cond : N -> val -> bool) (v : val) : Prop :=
  forall c, if cond (len (mbuf c)) v
            then exists c', m v c = (c', true) /\ len (mbuf c') = len (mbuf c) + len (spec_enc be (len (mbuf c)) v)
            else snd (m v c) = false.

Lemma seq_decides m be cond vs : Forall (decides m be cond) vs ->
  forall c, if cond_list be cond (len (mbuf c)) vs
            then exists c', marshal_seq m vs c = (c', true)
                            /\ len (mbuf c') = len (mbuf c) + len (spec_enc_list be (len (mbuf c)) vs)
            else snd (marshal_seq m vs c) = false.
Proof.
  induction 1 as [|x r Hx _ IH]; intros c.
  - cbn [cond_list]. exists c. split; [reflexivity|]. cbn [spec_enc_list]. rewrite len_nil. lia.
  - cbn [cond_list spec_enc_list]. rewrite marshal_seq_cons. specialize (Hx c).
    destruct (cond (len (mbuf c)) x).
    + destruct Hx as (c1 & E1 & L1). rewrite E1. cbn [mbind andb]. specialize (IH c1). rewrite L1 in IH.
      destruct (cond_list be cond (len (mbuf c) + len (spec_enc be (len (mbuf c)) x)) r).
      * destruct IH as (c' & E2 & L2). exists c'. split; [exact E2|]. rewrite L2, len_app. lia.
      * exact IH.
    + cbn [andb]. destruct (m x c) as [c1 ok]. cbn [snd] in Hx. subst ok. reflexivity.
Qed.

Lemma entries_decides m be cond kvs : Forall (fun kv => decides m be cond (fst kv) /\ decides m be cond (snd kv)) kvs ->
  forall c, if cond_entries be cond (len (mbuf c)) kvs
            then exists c', marshal_entries m kvs c = (c', true)
                            /\ len (mbuf c') = len (mbuf c) + len (spec_enc_entries be (len (mbuf c)) kvs)
            else snd (marshal_entries m kvs c) = false.
Proof.
  induction 1 as [|[a b] r [Ha Hb] _ IH]; intros c; cbn [fst snd] in *.
  - cbn [cond_entries]. exists c. split; [reflexivity|]. cbn [spec_enc_entries]. rewrite len_nil. lia.
  - cbn [cond_entries spec_enc_entries]. cbv zeta. rewrite marshal_entries_cons.
    unfold spec_enc_entry. cbn [fst snd]. cbv zeta. rewrite len_zeros.
    set (pos := len (mbuf c)). set (p := padlen 8 pos).
    set (c0 := {| mbuf := pad_to 8 (mbuf c); mfds := mfds c |}).
    assert (L0 : len (mbuf c0) = pos + p).
    { subst c0. cbn [mbuf]. rewrite pad_to_spec by lia. now rewrite len_app, len_zeros. }
    specialize (Ha c0). rewrite L0 in Ha.
    destruct (cond (pos + p) a).
    + destruct Ha as (c1 & E1 & L1). rewrite E1. cbn [mbind andb]. specialize (Hb c1). rewrite L1 in Hb.
      set (ea := spec_enc be (pos + p) a) in *.
      destruct (cond (pos + p + len ea) b).
      * destruct Hb as (c2 & E2 & L2). rewrite E2. cbn [mbind andb]. specialize (IH c2). rewrite L2 in IH.
        set (eb := spec_enc be (pos + p + len ea) b) in *.
        replace (pos + len (zeros p ++ ea ++ eb)) with (pos + p + len ea + len eb)
          by (rewrite !len_app, len_zeros; lia).
        destruct (cond_entries be cond (pos + p + len ea + len eb) r).
        -- destruct IH as (c' & E3 & L3). exists c'. split; [exact E3|]. rewrite L3, !len_app, len_zeros. lia.
        -- exact IH.
      * cbn [andb]. destruct (m b c1) as [c2 ok]. cbn [snd] in Hb. subst ok. reflexivity.
    + cbn [andb]. destruct (m a c0) as [c1 ok]. cbn [snd] in Ha. subst ok. reflexivity.
Qed.

(** ** small facts *)
Lemma insert4_len be n p buf : p + 4 <= len buf -> len (insert4 be n p buf) = len buf.
Proof. intros H. unfold insert4. rewrite !len_app, len_firstnN, len_skipnN, len_enc4. lia. Qed.

Lemma wt_ty_of : forall v t, wt v t = true -> ty_of v = t.
Proof.
  induction v as [b k|b s|et vs IH|vs IH|kb vt kvs IH|vt x IH] using val_ind'; intros T Hw; cbn [ty_of].
  - now destruct (wt_base_ty _ _ _ Hw) as (-> & _).
  - now destruct (wt_text_ty _ _ _ Hw) as (-> & _).
  - now rewrite (wt_array_ty _ _ _ Hw).
  - destruct (wt_struct_ty _ _ Hw) as (ts & -> & Hf). f_equal. clear Hw.
    induction Hf as [|x t r ts Hx _ IHr]; [reflexivity|]. apply Forall_cons_iff in IH. destruct IH as [IHx IHrest].
    cbn [map]. rewrite (IHx _ Hx). f_equal. exact (IHr IHrest).
  - now rewrite (wt_dict_ty _ _ _ _ Hw).
  - now rewrite (wt_variant_ty _ _ _ Hw).
Qed.

Lemma base_list_conds be b vs : is_text b = false -> b <> BUnixFd ->
  Forall (fun x => wt x (TBase b) = true) vs ->
  forallb leaves_ok_p vs = true /\ forall pos, cond_list be (arrays_within be) pos vs = true.
Proof.
  intros Ht Hnfd. induction 1 as [|x r Hx _ [IH1 IH2]]; [split; reflexivity|].
  destruct (wt_base_inv _ _ Hx) as [(k & -> & _ & Hk)|(s & -> & Hts)]; [|congruence]. split.
  - cbn [forallb]. rewrite IH1. destruct b; try reflexivity. now elim Hnfd.
  - intros pos. cbn [cond_list arrays_within andb]. apply IH2.
Qed.

Lemma marshal_base_decides be b k c : is_text b = false ->
  if leaves_ok (VBase b k)
  then exists c', marshal_base be b k c = (c', true)
                  /\ len (mbuf c') = len (mbuf c) + len (spec_enc be (len (mbuf c)) (VBase b k))
  else snd (marshal_base be b k c) = false.
Proof.
  intros Ht. cbn [spec_enc]. rewrite len_app, len_zeros, len_enc.
  destruct b; try discriminate Ht; cbn [leaves_ok marshal_base base_align base_size];
    try (eexists; split; [reflexivity|]; cbn [mbuf]; rewrite pad_to_spec by lia;
         rewrite !len_app, len_zeros, len_enc; lia).
  - eexists. split; [reflexivity|]. cbn [mbuf]. rewrite padlen_1, len_app, len_1. lia.
  - destruct (k =? 0); [|reflexivity]. eexists. split; [reflexivity|]. cbn [mbuf]. rewrite pad_to_spec by lia.
    rewrite !len_app, len_zeros, len_enc. lia.
Qed.

Lemma len_write_string be s buf : len (write_string be s buf) = len buf + 4 + len s + 1.
Proof. unfold write_string. rewrite !len_app, len_enc4, len_1. lia. Qed.
Lemma len_write_signature s buf : len (write_signature s buf) = len buf + (len s + 2).
Proof. unfold write_signature. rewrite !len_app, !len_1. lia. Qed.
Lemma len_spec_string be pos b s : b <> BSignature ->
  len (spec_enc be pos (VText b s)) = padlen 4 pos + 4 + len s + 1.
Proof. intros Hb. destruct b; try (now elim Hb); cbn [spec_enc]; rewrite !len_app, len_zeros, len_enc4, len_1; lia. Qed.
Lemma len_pad_to a buf : 0 < a -> len (pad_to a buf) = len buf + padlen a (len buf).
Proof. intros Ha. rewrite pad_to_spec by exact Ha. now rewrite len_app, len_zeros. Qed.

(** ** the typed API *)
(* since fix ef1b771 marshal_as_variant validates the signature it writes, like the Param API: the leaf condition of
   both APIs is [leaves_ok_p] *)
Definition cond_t (be : bool) (pos : N) (v : val) : bool := leaves_ok_p v && arrays_within be pos v.

Theorem marshal_t_decides be : forall v, typed v -> decides (marshal_t be) be (cond_t be) v.
Proof.
  induction v as [b k|b s|t vs IH|vs IH|kb vt kvs IH|t x IH] using val_ind'; intros [T Hw] c; unfold cond_t.
  - destruct (wt_base_ty _ _ _ Hw) as (_ & Ht & _). cbn [arrays_within marshal_t]. rewrite andb_true_r.
    replace (leaves_ok_p (VBase b k)) with (leaves_ok (VBase b k)) by reflexivity.
    exact (marshal_base_decides be b k c Ht).
  - destruct (wt_text_ty _ _ _ Hw) as (_ & Ht). cbn [arrays_within]. rewrite andb_true_r.
    destruct b; try discriminate Ht; cbn [leaves_ok_p marshal_t andb].
    + destruct (has_nul s); cbn [negb]; [reflexivity|]. eexists. split; [reflexivity|]. cbn [mbuf].
      rewrite len_write_string, len_pad_to, len_spec_string by (try lia; discriminate). lia.
    + destruct (is_ok (validate_signature s)); [|reflexivity]. eexists. split; [reflexivity|]. cbn [mbuf spec_enc].
      now rewrite len_write_signature, len_sig_bytes.
    + destruct (valid_path s) eqn:Ep; [|reflexivity]. rewrite (valid_path_no_nul _ Ep). cbn [negb andb].
      eexists. split; [reflexivity|]. cbn [mbuf].
      rewrite len_write_string, len_pad_to, len_spec_string by (try lia; discriminate). lia.
  - (* array *)
    pose proof (wt_array_inv _ _ _ Hw) as Hel.
    assert (Hdec : Forall (decides (marshal_t be) be (cond_t be)) vs).
    { apply Forall_forall. intros x Hin. rewrite Forall_forall in IH, Hel. apply IH; [exact Hin|]. exists t. now apply Hel. }
    rewrite marshal_t_array. cbv zeta. cbn [leaves_ok_p]. rewrite arrays_within_array, spec_enc_array'.
    set (pos := len (mbuf c)). set (p1 := padlen 4 pos). set (p2 := padlen (align t) (pos + p1 + 4)).
    set (body := spec_enc_list be (pos + p1 + 4 + p2) vs).
    assert (Lb1 : len (pad_to 4 (mbuf c)) = pos + p1) by (apply len_pad_to; lia).
    destruct (valid_slice be t) eqn:Evs.
    + (* memcpy fast path: the size checked is alignment * count *)
      destruct (valid_slice_inv _ _ Evs) as (b & Et & Htx & Hnfd & Hsz & Hbe). subst t. cbn [align] in *.
      assert (Hvs : Forall (fun x => exists k, x = VBase b k /\ k < 256 ^ N.of_nat (base_size b)) vs).
      { eapply Forall_impl; [|exact Hel]. intros x Hx. destruct (wt_base_inv _ _ Hx) as [(k & -> & _ & Hk)|(s & -> & Hts)]; [eauto|congruence]. }
      assert (Hal : (pos + p1 + 4 + p2) mod base_align b = 0) by (apply padlen_aligned, base_align_pos).
      destruct (fast_body be b vs Hbe Htx Hsz Hvs _ Hal) as [E1 E2]. fold body in E1, E2.
      destruct (base_list_conds be b vs Htx Hnfd Hel) as [Hl Hwi]. rewrite Hl, Hwi, andb_true_r. cbn [andb].
      rewrite E2.
      destruct (N.ltb_spec MAX_ARRAY (base_align b * len vs)) as [Hgt|Hle].
      * destruct (N.leb_spec (base_align b * len vs) MAX_ARRAY) as [|_]; [lia|]. reflexivity.
      * destruct (N.leb_spec (base_align b * len vs) MAX_ARRAY) as [_|]; [|lia].
        eexists. split; [reflexivity|]. cbn [mbuf]. rewrite len_app, len_pad_to by apply base_align_pos.
        rewrite !len_app, Lb1, len_enc4, <- E1, !len_zeros, E2. fold p2. lia.
    + (* element loop: the size checked is what the elements occupied *)
      set (b3 := pad_to (align t) (pad_to 4 (mbuf c) ++ [0; 0; 0; 0])).
      assert (Lb3 : len b3 = pos + p1 + 4 + p2).
      { subst b3. rewrite len_pad_to by apply align_pos. rewrite !len_app, Lb1, len_zeros4. reflexivity. }
      pose proof (seq_decides _ be _ vs Hdec {| mbuf := b3; mfds := mfds c |}) as Hs. cbn [mbuf] in Hs. rewrite Lb3 in Hs.
      unfold cond_t in Hs. rewrite cond_list_and in Hs. fold body in Hs.
      destruct vs as [|x0 vs0].
      { cbn [forallb cond_list andb]. subst body. cbn [spec_enc_list]. rewrite len_nil. cbn [N.leb andb].
        change (0 <=? MAX_ARRAY) with true. cbn [andb]. eexists. split; [reflexivity|]. cbn [mbuf]. fold b3.
        rewrite Lb3, !len_app, !len_zeros, len_enc4, len_nil. lia. }
      set (vs := x0 :: vs0) in *.
      destruct (forallb leaves_ok_p vs); cbn [andb] in Hs |- *.
      2:{ destruct (marshal_seq (marshal_t be) vs _) as [c1 ok]. cbn [snd] in Hs. subst ok. reflexivity. }
      destruct (cond_list be (arrays_within be) (pos + p1 + 4 + p2) vs).
      2:{ rewrite andb_false_r. destruct (marshal_seq (marshal_t be) vs _) as [c1 ok]. cbn [snd] in Hs. subst ok. reflexivity. }
      rewrite andb_true_r. destruct Hs as (c1 & Es & L1). fold b3. rewrite Es. cbn [mbind].
      rewrite Lb3, L1. replace (pos + p1 + 4 + p2 + len body - (pos + p1 + 4 + p2)) with (len body) by lia.
      destruct (N.ltb_spec MAX_ARRAY (len body)) as [Hgt|Hle].
      * destruct (N.leb_spec (len body) MAX_ARRAY) as [|_]; [lia|]. reflexivity.
      * destruct (N.leb_spec (len body) MAX_ARRAY) as [_|]; [|lia].
        eexists. split; [reflexivity|]. cbn [mbuf]. rewrite insert4_len by (rewrite Lb1, L1; lia).
        rewrite L1, !len_app, !len_zeros, len_enc4. lia.
  - (* struct *)
    pose proof (wt_struct_inv _ _ Hw) as Hel.
    assert (Hdec : Forall (decides (marshal_t be) be (cond_t be)) vs).
    { apply Forall_forall. intros x Hin. rewrite Forall_forall in IH, Hel. apply IH; [exact Hin|]. now apply Hel. }
    rewrite marshal_t_struct. cbn [leaves_ok_p]. rewrite arrays_within_struct, spec_enc_struct.
    set (pos := len (mbuf c)). set (p := padlen 8 pos).
    pose proof (seq_decides _ be _ vs Hdec {| mbuf := pad_to 8 (mbuf c); mfds := mfds c |}) as Hs. cbn [mbuf] in Hs.
    rewrite len_pad_to in Hs by lia. fold pos in Hs. fold p in Hs.
    unfold cond_t in Hs. rewrite cond_list_and in Hs.
    destruct (forallb leaves_ok_p vs && cond_list be (arrays_within be) (pos + p) vs); [|exact Hs].
    destruct Hs as (c1 & Es & L1). exists c1. split; [exact Es|]. rewrite L1, len_app, len_zeros. lia.
  - (* dict *)
    pose proof (wt_dict_inv _ _ _ _ Hw) as Hel.
    assert (Hdec : Forall (fun kv => decides (marshal_t be) be (cond_t be) (fst kv) /\ decides (marshal_t be) be (cond_t be) (snd kv)) kvs).
    { apply Forall_forall. intros kv Hin. rewrite Forall_forall in IH, Hel. destruct (IH kv Hin) as [IHa IHb].
      destruct (Hel kv Hin) as [Hwa Hwb]. split; [apply IHa; now exists (TBase kb)|apply IHb; now exists vt]. }
    rewrite marshal_t_dict. cbv zeta. cbn [leaves_ok_p]. rewrite arrays_within_dict, spec_enc_dict'.
    set (pos := len (mbuf c)). set (p1 := padlen 4 pos). set (p2 := padlen 8 (pos + p1 + 4)).
    set (body := spec_enc_entries be (pos + p1 + 4 + p2) kvs).
    assert (Lb1 : len (pad_to 4 (mbuf c)) = pos + p1) by (apply len_pad_to; lia).
    set (b3 := pad_to 8 (pad_to 4 (mbuf c) ++ [0; 0; 0; 0])).
    assert (Lb3 : len b3 = pos + p1 + 4 + p2).
    { subst b3. rewrite len_pad_to by lia. rewrite !len_app, Lb1, len_zeros4. reflexivity. }
    pose proof (entries_decides _ be _ kvs Hdec {| mbuf := b3; mfds := mfds c |}) as Hs. cbn [mbuf] in Hs. rewrite Lb3 in Hs.
    unfold cond_t in Hs. rewrite cond_entries_and in Hs. fold body in Hs.
    destruct kvs as [|kv0 kvs0].
    { cbn [forallb cond_entries andb]. subst body. cbn [spec_enc_entries]. rewrite len_nil.
      change (0 <=? MAX_ARRAY) with true. cbn [andb]. eexists. split; [reflexivity|]. cbn [mbuf]. fold b3.
      rewrite Lb3, !len_app, !len_zeros, len_enc4, len_nil. lia. }
    set (kvs := kv0 :: kvs0) in *.
    destruct (forallb (fun kv => leaves_ok_p (fst kv) && leaves_ok_p (snd kv)) kvs); cbn [andb] in Hs |- *.
    2:{ destruct (marshal_entries (marshal_t be) kvs _) as [c1 ok]. cbn [snd] in Hs. subst ok. reflexivity. }
    destruct (cond_entries be (arrays_within be) (pos + p1 + 4 + p2) kvs).
    2:{ rewrite andb_false_r. destruct (marshal_entries (marshal_t be) kvs _) as [c1 ok]. cbn [snd] in Hs. subst ok. reflexivity. }
    rewrite andb_true_r. destruct Hs as (c1 & Es & L1). fold b3. rewrite Es. cbn [mbind].
    rewrite Lb3, L1. replace (pos + p1 + 4 + p2 + len body - (pos + p1 + 4 + p2)) with (len body) by lia.
    destruct (N.ltb_spec MAX_ARRAY (len body)) as [Hgt|Hle].
    + destruct (N.leb_spec (len body) MAX_ARRAY) as [|_]; [lia|]. reflexivity.
    + destruct (N.leb_spec (len body) MAX_ARRAY) as [_|]; [|lia].
      eexists. split; [reflexivity|]. cbn [mbuf]. rewrite insert4_len by (rewrite Lb1, L1; lia).
      rewrite L1, !len_app, !len_zeros, len_enc4. lia.
  - (* variant *)
    pose proof (wt_variant_inv _ _ _ Hw) as Hwx.
    cbn [marshal_t leaves_ok_p arrays_within]. cbv zeta. rewrite spec_enc_variant, len_sig_bytes.
    destruct (is_ok (validate_signature (to_str t))) eqn:Ev; cbn [andb].
    2:{ destruct (255 <? len (to_str t)); reflexivity. }
    pose proof (validate_signature_len _ Ev) as Hle.
    destruct (N.ltb_spec 255 (len (to_str t))) as [Hgt|_]; [lia|].
    specialize (IH (ex_intro _ t Hwx) {| mbuf := write_signature (to_str t) (mbuf c); mfds := mfds c |}).
    cbn [mbuf] in IH. rewrite len_write_signature in IH. unfold cond_t in IH.
    destruct (leaves_ok_p x && arrays_within be (len (mbuf c) + (len (to_str t) + 2)) x); [|exact IH].
    destruct IH as (c1 & E1 & L1). exists c1. split; [exact E1|]. rewrite L1, len_app, len_sig_bytes. lia.
Qed.

(** ** the dynamic (Param) API *)
Definition cond_p (be : bool) (depth : N) (pos : N) (v : val) : bool :=
  (leaves_ok_p v && nest_ok depth v) && arrays_within be pos v.

Lemma typed_elems_sig t vs : Forall (fun x => wt x t = true) vs -> forallb (fun x => ty_eqb (ty_of x) t) vs = true.
Proof. intros H. apply forallb_forall. intros x Hin. rewrite Forall_forall in H. rewrite (wt_ty_of _ _ (H x Hin)). apply ty_eqb_refl. Qed.
Lemma typed_entries_sig k vt kvs : Forall (fun kv => wt (fst kv) (TBase k) = true /\ wt (snd kv) vt = true) kvs ->
  forallb (fun kv => ty_eqb (ty_of (fst kv)) (TBase k) && ty_eqb (ty_of (snd kv)) vt) kvs = true.
Proof.
  intros H. apply forallb_forall. intros kv Hin. rewrite Forall_forall in H. destruct (H kv Hin) as [Ha Hb].
  rewrite (wt_ty_of _ _ Ha), (wt_ty_of _ _ Hb), !ty_eqb_refl. reflexivity.
Qed.

Theorem marshal_p_decides be : forall v, typed v -> forall depth, decides (marshal_p be depth) be (cond_p be depth) v.
Proof.
  induction v as [b k|b s|t vs IH|vs IH|kb vt kvs IH|t x IH] using val_ind'; intros [T Hw] depth c; unfold cond_p.
  - destruct (wt_base_ty _ _ _ Hw) as (_ & Ht & _). cbn [arrays_within nest_ok marshal_p]. rewrite !andb_true_r.
    pose proof (marshal_base_decides be b k {| mbuf := pad_to (base_align b) (mbuf c); mfds := mfds c |} Ht) as H.
    cbn [mbuf] in H. rewrite len_pad_to in H by apply base_align_pos.
    replace (leaves_ok_p (VBase b k)) with (leaves_ok (VBase b k)) by reflexivity.
    destruct (leaves_ok (VBase b k)); [|exact H]. destruct H as (c' & E & L). exists c'. split; [exact E|].
    rewrite L. cbn [spec_enc]. rewrite !len_app, !len_zeros, padlen_at_aligned by apply base_align_pos. lia.
  - destruct (wt_text_ty _ _ _ Hw) as (_ & Ht). cbn [arrays_within nest_ok]. rewrite !andb_true_r.
    destruct b; try discriminate Ht; cbn [leaves_ok_p marshal_p base_align mbuf mfds].
    + destruct (has_nul s); cbn [negb]; [reflexivity|]. eexists. split; [reflexivity|]. cbn [mbuf].
      rewrite len_write_string, len_pad_to, len_spec_string by (try lia; discriminate). lia.
    + destruct (is_ok (validate_signature s)); [|reflexivity]. eexists. split; [reflexivity|]. cbn [mbuf spec_enc].
      rewrite len_write_signature, len_sig_bytes, len_pad_to, padlen_1 by lia. lia.
    + destruct (valid_path s); [|reflexivity]. eexists. split; [reflexivity|]. cbn [mbuf].
      rewrite len_write_string, len_pad_to, len_spec_string by (try lia; discriminate). lia.
  - (* array *)
    pose proof (wt_array_inv _ _ _ Hw) as Hel.
    assert (Hdec : Forall (decides (marshal_p be (depth + 1)) be (cond_p be (depth + 1))) vs).
    { apply Forall_forall. intros x Hin. rewrite Forall_forall in IH, Hel. apply IH; [exact Hin|]. exists t. now apply Hel. }
    rewrite marshal_p_array. cbv zeta. cbn [leaves_ok_p nest_ok]. rewrite arrays_within_array, spec_enc_array'.
    rewrite (typed_elems_sig t vs Hel). cbn [negb].
    destruct (N.leb_spec MAX_DEPTH depth) as [Hdp|Hdp].
    { destruct (N.ltb_spec depth MAX_DEPTH) as [|_]; [lia|]. cbn [andb]. now rewrite andb_false_r. }
    destruct (N.ltb_spec depth MAX_DEPTH) as [_|]; [|lia]. cbn [andb].
    set (pos := len (mbuf c)). set (p1 := padlen 4 pos). set (p2 := padlen (align t) (pos + p1 + 4)).
    set (body := spec_enc_list be (pos + p1 + 4 + p2) vs).
    assert (Lb1 : len (pad_to 4 (mbuf c)) = pos + p1) by (apply len_pad_to; lia).
    set (b3 := pad_to (align t) (pad_to 4 (mbuf c) ++ [0; 0; 0; 0])).
    assert (Lb3 : len b3 = pos + p1 + 4 + p2).
    { subst b3. rewrite len_pad_to by apply align_pos. rewrite !len_app, Lb1, len_zeros4. reflexivity. }
    pose proof (seq_decides _ be _ vs Hdec {| mbuf := b3; mfds := mfds c |}) as Hs. cbn [mbuf] in Hs. rewrite Lb3 in Hs.
    unfold cond_p in Hs. rewrite cond_list_and, forallb_andb in Hs. fold body in Hs.
    destruct (forallb leaves_ok_p vs); cbn [andb] in Hs |- *.
    2:{ destruct (marshal_seq (marshal_p be (depth + 1)) vs _) as [c1 ok]. cbn [snd] in Hs. subst ok. reflexivity. }
    destruct (forallb (nest_ok (depth + 1)) vs); cbn [andb] in Hs |- *.
    2:{ destruct (marshal_seq (marshal_p be (depth + 1)) vs _) as [c1 ok]. cbn [snd] in Hs. subst ok. reflexivity. }
    destruct (cond_list be (arrays_within be) (pos + p1 + 4 + p2) vs).
    2:{ rewrite andb_false_r. destruct (marshal_seq (marshal_p be (depth + 1)) vs _) as [c1 ok]. cbn [snd] in Hs. subst ok. reflexivity. }
    rewrite andb_true_r. destruct Hs as (c1 & Es & L1). rewrite Es. cbn [mbind].
    rewrite Lb3, L1. replace (pos + p1 + 4 + p2 + len body - (pos + p1 + 4 + p2)) with (len body) by lia.
    destruct (N.ltb_spec MAX_ARRAY (len body)) as [Hgt|Hle].
    + destruct (N.leb_spec (len body) MAX_ARRAY) as [|_]; [lia|]. reflexivity.
    + destruct (N.leb_spec (len body) MAX_ARRAY) as [_|]; [|lia].
      eexists. split; [reflexivity|]. cbn [mbuf]. rewrite insert4_len by (rewrite Lb1, L1; lia).
      rewrite L1, !len_app, !len_zeros, len_enc4. lia.
  - (* struct *)
    pose proof (wt_struct_inv _ _ Hw) as Hel.
    assert (Hdec : Forall (decides (marshal_p be (depth + 1)) be (cond_p be (depth + 1))) vs).
    { apply Forall_forall. intros x Hin. rewrite Forall_forall in IH, Hel. apply IH; [exact Hin|]. now apply Hel. }
    rewrite marshal_p_struct. cbn [leaves_ok_p nest_ok]. rewrite arrays_within_struct, spec_enc_struct.
    destruct (N.leb_spec MAX_DEPTH depth) as [Hdp|Hdp].
    { destruct (N.ltb_spec depth MAX_DEPTH) as [|_]; [lia|]. cbn [andb]. now rewrite andb_false_r. }
    destruct (N.ltb_spec depth MAX_DEPTH) as [_|]; [|lia]. cbn [andb].
    set (pos := len (mbuf c)). set (p := padlen 8 pos).
    pose proof (seq_decides _ be _ vs Hdec {| mbuf := pad_to 8 (mbuf c); mfds := mfds c |}) as Hs. cbn [mbuf] in Hs.
    rewrite len_pad_to in Hs by lia. fold pos in Hs. fold p in Hs.
    unfold cond_p in Hs. rewrite cond_list_and, forallb_andb in Hs.
    destruct ((forallb leaves_ok_p vs && forallb (nest_ok (depth + 1)) vs) && cond_list be (arrays_within be) (pos + p) vs); [|exact Hs].
    destruct Hs as (c1 & Es & L1). exists c1. split; [exact Es|]. rewrite L1, len_app, len_zeros. lia.
  - (* dict *)
    pose proof (wt_dict_inv _ _ _ _ Hw) as Hel.
    assert (Hdec : Forall (fun kv => decides (marshal_p be (depth + 1)) be (cond_p be (depth + 1)) (fst kv)
                                     /\ decides (marshal_p be (depth + 1)) be (cond_p be (depth + 1)) (snd kv)) kvs).
    { apply Forall_forall. intros kv Hin. rewrite Forall_forall in IH, Hel. destruct (IH kv Hin) as [IHa IHb].
      destruct (Hel kv Hin) as [Hwa Hwb]. split; [apply IHa; now exists (TBase kb)|apply IHb; now exists vt]. }
    rewrite marshal_p_dict. cbv zeta. cbn [leaves_ok_p nest_ok]. rewrite arrays_within_dict, spec_enc_dict'.
    rewrite (typed_entries_sig kb vt kvs Hel). cbn [negb].
    destruct (N.leb_spec MAX_DEPTH depth) as [Hdp|Hdp].
    { destruct (N.ltb_spec depth MAX_DEPTH) as [|_]; [lia|]. cbn [andb]. now rewrite andb_false_r. }
    destruct (N.ltb_spec depth MAX_DEPTH) as [_|]; [|lia]. cbn [andb].
    set (pos := len (mbuf c)). set (p1 := padlen 4 pos). set (p2 := padlen 8 (pos + p1 + 4)).
    set (body := spec_enc_entries be (pos + p1 + 4 + p2) kvs).
    assert (Lb1 : len (pad_to 4 (mbuf c)) = pos + p1) by (apply len_pad_to; lia).
    set (b3 := pad_to 8 (pad_to 4 (mbuf c) ++ [0; 0; 0; 0])).
    assert (Lb3 : len b3 = pos + p1 + 4 + p2).
    { subst b3. rewrite len_pad_to by lia. rewrite !len_app, Lb1, len_zeros4. reflexivity. }
    pose proof (entries_decides _ be _ kvs Hdec {| mbuf := b3; mfds := mfds c |}) as Hs. cbn [mbuf] in Hs. rewrite Lb3 in Hs.
    unfold cond_p in Hs. rewrite cond_entries_and, forallb_andb2 in Hs. fold body in Hs.
    destruct (forallb (fun kv => leaves_ok_p (fst kv) && leaves_ok_p (snd kv)) kvs); cbn [andb] in Hs |- *.
    2:{ destruct (marshal_entries (marshal_p be (depth + 1)) kvs _) as [c1 ok]. cbn [snd] in Hs. subst ok. reflexivity. }
    destruct (forallb (fun kv => nest_ok (depth + 1) (fst kv) && nest_ok (depth + 1) (snd kv)) kvs); cbn [andb] in Hs |- *.
    2:{ destruct (marshal_entries (marshal_p be (depth + 1)) kvs _) as [c1 ok]. cbn [snd] in Hs. subst ok. reflexivity. }
    destruct (cond_entries be (arrays_within be) (pos + p1 + 4 + p2) kvs).
    2:{ rewrite andb_false_r. destruct (marshal_entries (marshal_p be (depth + 1)) kvs _) as [c1 ok]. cbn [snd] in Hs. subst ok. reflexivity. }
    rewrite andb_true_r. destruct Hs as (c1 & Es & L1). rewrite Es. cbn [mbind].
    rewrite Lb3, L1. replace (pos + p1 + 4 + p2 + len body - (pos + p1 + 4 + p2)) with (len body) by lia.
    destruct (N.ltb_spec MAX_ARRAY (len body)) as [Hgt|Hle].
    + destruct (N.leb_spec (len body) MAX_ARRAY) as [|_]; [lia|]. reflexivity.
    + destruct (N.leb_spec (len body) MAX_ARRAY) as [_|]; [|lia].
      eexists. split; [reflexivity|]. cbn [mbuf]. rewrite insert4_len by (rewrite Lb1, L1; lia).
      rewrite L1, !len_app, !len_zeros, len_enc4. lia.
  - (* variant *)
    pose proof (wt_variant_inv _ _ _ Hw) as Hwx.
    cbn [marshal_p leaves_ok_p nest_ok arrays_within]. cbv zeta. rewrite spec_enc_variant, len_sig_bytes.
    destruct (N.leb_spec MAX_DEPTH depth) as [Hdp|Hdp].
    { destruct (N.ltb_spec depth MAX_DEPTH) as [|_]; [lia|]. cbn [andb]. now rewrite andb_false_r. }
    destruct (N.ltb_spec depth MAX_DEPTH) as [_|]; [|lia]. cbn [andb].
    rewrite (wt_ty_of _ _ Hwx), ty_eqb_refl. cbn [negb].
    destruct (is_ok (validate_signature (to_str t))); cbn [andb]; [|reflexivity].
    specialize (IH (ex_intro _ t Hwx) (depth + 1) {| mbuf := write_signature (to_str t) (mbuf c); mfds := mfds c |}).
    cbn [mbuf] in IH. rewrite len_write_signature in IH. unfold cond_p in IH.
    destruct ((leaves_ok_p x && nest_ok (depth + 1) x) && arrays_within be (len (mbuf c) + (len (to_str t) + 2)) x); [|exact IH].
    destruct IH as (c1 & E1 & L1). exists c1. split; [exact E1|]. rewrite L1, len_app, len_sig_bytes. lia.
Qed.

(** ** the statements *)
Lemma decides_iff m be cond v c : decides m be cond v -> (snd (m v c) = true <-> cond (len (mbuf c)) v = true).
Proof.
  intros H. specialize (H c). destruct (cond (len (mbuf c)) v).
  - destruct H as (c' & E & _). rewrite E. split; reflexivity.
  - rewrite H. split; discriminate.
Qed.

(* dynamic API: additionally every variant's signature validates and the depth counter stays below 64 *)
Theorem marshal_p_exactly_p be depth v c : typed v ->
  (snd (marshal_p be depth v c) = true
   <-> leaves_ok_p v = true /\ nest_ok depth v = true /\ arrays_within be (len (mbuf c)) v = true).
Proof.
  intros Ht. rewrite (decides_iff _ be _ v c (marshal_p_decides be v Ht depth)). unfold cond_p.
  rewrite !andb_true_iff. tauto.
Qed.

(* the variant signatures the Param API validates, as a condition of its own *)
Fixpoint variant_sigs_ok (v : val) : bool :=
  match v with
  | VBase _ _ | VText _ _ => true
  | VArray _ vs | VStruct vs => forallb variant_sigs_ok vs
  | VDict _ _ kvs => forallb (fun kv => variant_sigs_ok (fst kv) && variant_sigs_ok (snd kv)) kvs
  | VVariant t x => is_ok (validate_signature (to_str t)) && variant_sigs_ok x
  end.

Lemma forallb_ext_In {A} (f g : A -> bool) l : (forall x, In x l -> f x = g x) -> forallb f l = forallb g l.
Proof. induction l as [|x r IH]; intros H; cbn [forallb]; [reflexivity|]. rewrite (H x (or_introl eq_refl)), IH; [reflexivity|].
  intros y Hy. apply H. now right. Qed.

Lemma leaves_ok_p_split : forall v, leaves_ok_p v = leaves_ok v && variant_sigs_ok v.
Proof.
  induction v as [b k|b s|t vs IH|vs IH|kb vt kvs IH|t x IH] using val_ind'; cbn [leaves_ok_p leaves_ok variant_sigs_ok].
  - now rewrite andb_true_r.
  - now rewrite andb_true_r.
  - rewrite <- forallb_andb. apply forallb_ext_In. intros x Hin. rewrite Forall_forall in IH. now apply IH.
  - rewrite <- forallb_andb. apply forallb_ext_In. intros x Hin. rewrite Forall_forall in IH. now apply IH.
  - rewrite <- forallb_andb2. apply forallb_ext_In. intros kv Hin. rewrite Forall_forall in IH.
    destruct (IH kv Hin) as [-> ->]. reflexivity.
  - rewrite IH. destruct (is_ok (validate_signature (to_str t))) eqn:Ev.
    + apply validate_signature_len in Ev. apply N.leb_le in Ev. rewrite Ev. reflexivity.
    + cbn [andb]. now rewrite andb_false_r.
Qed.

Theorem marshal_p_exactly be depth v c : typed v ->
  (snd (marshal_p be depth v c) = true
   <-> leaves_ok v = true /\ variant_sigs_ok v = true /\ nest_ok depth v = true
       /\ arrays_within be (len (mbuf c)) v = true).
Proof.
  intros Ht. rewrite (marshal_p_exactly_p be depth v c Ht), leaves_ok_p_split, andb_true_iff. tauto.
Qed.

Theorem marshal_p_accepts be depth v c : typed v -> leaves_ok v = true -> variant_sigs_ok v = true ->
  nest_ok depth v = true -> arrays_within be (len (mbuf c)) v = true ->
  snd (marshal_p be depth v c) = true.
Proof. intros Ht H1 H2 H3 H4. apply (marshal_p_exactly be depth v c Ht). auto. Qed.

(* typed API: success exactly when the leaves are acceptable, every variant's printed signature validates (since fix
   ef1b771) and every array / dict body, as laid out from the position where the value is written, is within 64 MiB *)
Theorem marshal_t_exactly_p be v c : typed v ->
  (snd (marshal_t be v c) = true <-> leaves_ok_p v = true /\ arrays_within be (len (mbuf c)) v = true).
Proof.
  intros Ht. rewrite (decides_iff _ be _ v c (marshal_t_decides be v Ht)). unfold cond_t. apply andb_true_iff.
Qed.

Theorem marshal_t_exactly be v c : typed v ->
  (snd (marshal_t be v c) = true
   <-> leaves_ok v = true /\ variant_sigs_ok v = true /\ arrays_within be (len (mbuf c)) v = true).
Proof. intros Ht. rewrite (marshal_t_exactly_p be v c Ht), leaves_ok_p_split, andb_true_iff. tauto. Qed.

Theorem marshal_t_accepts be v c : typed v -> leaves_ok v = true -> variant_sigs_ok v = true ->
  arrays_within be (len (mbuf c)) v = true -> snd (marshal_t be v c) = true.
Proof. intros Ht H1 H2 H3. apply (marshal_t_exactly be v c Ht). auto. Qed.

(* refusal, the contrapositive: an unacceptable leaf or a variant signature that does not validate, anywhere *)
Theorem marshal_t_refuses_any be v c : typed v -> (leaves_ok v = false \/ variant_sigs_ok v = false) ->
  snd (marshal_t be v c) = false.
Proof.
  intros Ht H. destruct (snd (marshal_t be v c)) eqn:E; [|reflexivity].
  apply (marshal_t_exactly be v c Ht) in E. destruct E as (H1 & H2 & _). destruct H as [H|H]; congruence.
Qed.
Theorem marshal_p_refuses_any be d v c : typed v -> (leaves_ok v = false \/ variant_sigs_ok v = false) ->
  snd (marshal_p be d v c) = false.
Proof.
  intros Ht H. destruct (snd (marshal_p be d v c)) eqn:E; [|reflexivity].
  apply (marshal_p_exactly be d v c Ht) in E. destruct E as (H1 & H2 & _). destruct H as [H|H]; congruence.
Qed.

(* a valid single complete type prints to a valid signature, so [types_ok] is enough for the variants *)
Lemma type_ok_sig_valid t : type_ok t = true -> is_ok (validate_signature (to_str t)) = true.
Proof.
  intros H. destruct (type_ok_parts _ H) as (Hw & Hd & Hl).
  assert (E : validate_signature (to_str t) = Ok tt).
  { apply validate_signature_spec. exists [t]. unfold sig_of_types. cbn [forallb]. rewrite Hw, Hd.
    cbn [to_str_list flat_map]. rewrite app_nil_r. auto. }
  now rewrite E.
Qed.
Lemma types_ok_variant_sigs : forall v, types_ok v = true -> variant_sigs_ok v = true.
Proof.
  induction v as [b k|b s|t vs IH|vs IH|kb vt kvs IH|t x IH] using val_ind'; cbn [types_ok variant_sigs_ok]; intros H;
    try reflexivity.
  - apply andb_prop in H. destruct H as [_ H]. apply forallb_forall. intros x Hin. rewrite forallb_forall in H.
    rewrite Forall_forall in IH. auto.
  - apply andb_prop in H. destruct H as [_ H]. apply forallb_forall. intros x Hin. rewrite forallb_forall in H.
    rewrite Forall_forall in IH. auto.
  - apply andb_prop in H. destruct H as [_ H]. apply forallb_forall. intros kv Hin. rewrite forallb_forall in H.
    rewrite Forall_forall in IH. destruct (IH kv Hin) as [IHa IHb]. specialize (H kv Hin). apply andb_prop in H.
    destruct H as [Ha Hb]. now rewrite (IHa Ha), (IHb Hb).
  - apply andb_prop in H. destruct H as [Ht Hx]. now rewrite (type_ok_sig_valid _ Ht), (IH Hx).
Qed.

(* what a successful call appended has the length of the specification's encoding - with no
   assumption on string lengths or the number of descriptors *)
Theorem marshal_t_len be v c c' : typed v -> marshal_t be v c = (c', true) ->
  len (mbuf c') = len (mbuf c) + len (spec_enc be (len (mbuf c)) v).
Proof.
  intros Ht H. pose proof (marshal_t_decides be v Ht c) as D. destruct (cond_t be (len (mbuf c)) v).
  - destruct D as (c1 & E & L). rewrite H in E. injection E as <-. exact L.
  - rewrite H in D. discriminate.
Qed.
Theorem marshal_p_len be depth v c c' : typed v -> marshal_p be depth v c = (c', true) ->
  len (mbuf c') = len (mbuf c) + len (spec_enc be (len (mbuf c)) v).
Proof.
  intros Ht H. pose proof (marshal_p_decides be v Ht depth c) as D. destruct (cond_p be depth (len (mbuf c)) v).
  - destruct D as (c1 & E & L). rewrite H in E. injection E as <-. exact L.
  - rewrite H in D. discriminate.
Qed.

(* the two APIs accept the same values except for the nesting limit, which only the Param API counts *)
Theorem accept_t_of_p be depth v c : typed v -> snd (marshal_p be depth v c) = true -> snd (marshal_t be v c) = true.
Proof.
  intros Ht H. apply (marshal_p_exactly be depth v c Ht) in H. destruct H as (H1 & H2 & _ & H4).
  now apply marshal_t_accepts.
Qed.
Theorem accept_p_of_t be depth v c : typed v -> nest_ok depth v = true -> snd (marshal_t be v c) = true ->
  snd (marshal_p be depth v c) = true.
Proof.
  intros Ht Hn H. apply (marshal_t_exactly be v c Ht) in H. destruct H as (H1 & H2 & H3). now apply marshal_p_accepts.
Qed.
