(** Non-vacuity for Wire/BodyRollback.v: pushes that fail half way, on a body that already holds a value. *)
From RB Require Import Base.Prelude Sig.Types Wire.Bytes Wire.Align Wire.Text Wire.Value Wire.SpecEnc
  Wire.Marshal Wire.HasSig Wire.Body Wire.BodyRollback.

(* a body holding the byte 7 and one descriptor *)
Definition b0 : body := {| bbe := false; bsig := [121; 104]; bbuf := [7; 0; 0; 0; 0; 0; 0; 0]; bfds := 1 |}.
(* an array of strings whose second element contains NUL, after a descriptor: the marshaller has already written the
   struct padding, the descriptor index, the array header and the first string when it fails *)
Definition bad_item : item :=
  (TStruct [TBase BUnixFd; TArray (TBase BString)],
   VStruct [VBase BUnixFd 0; VArray (TBase BString) [VText BString [97]; VText BString [98; 0]]]).

Example ex_partial_output :
  let r := push_inner b0 bad_item in
  snd r = false /\ bbuf (fst r) = bbuf b0 ++ [1; 0; 0; 0] ++ [0; 0; 0; 0] ++ [1; 0; 0; 0; 97; 0] /\ bfds (fst r) = 2
  /\ push_param_mech b0 bad_item = (b0, false) /\ push_param b0 bad_item = (b0, false).
Proof. vm_compute. repeat split. Qed.

(* push_variant has appended "v" to the signature before the marshaller fails *)
Example ex_variant_sig_rolled_back :
  let i := (TBase BString, VText BString [0]) in
  push_variant_mech b0 i = (b0, false)
  /\ bsig (fst (let '(c, ok) := marshal_t (bbe b0) (VVariant (fst i) (snd i)) {| mbuf := bbuf b0; mfds := bfds b0 |} in
                ({| bbe := bbe b0; bsig := bsig b0 ++ [c_v]; bbuf := mbuf c; bfds := mfds c |}, ok))) = bsig b0 ++ [118].
Proof. vm_compute. repeat split. Qed.

(* a multi push: the first item is committed by its own helper, the second fails, the outer helper truncates both *)
Example ex_multi :
  step_body_mech b0 (PushN [(TBase BUint32, VBase BUint32 5); bad_item]) = (b0, false)
  /\ fst (push_all push_param_mech b0 [(TBase BUint32, VBase BUint32 5); bad_item])
     = {| bbe := false; bsig := [121; 104; 117]; bbuf := bbuf b0 ++ [5; 0; 0; 0]; bfds := 1 |}
  /\ step_body_mech b0 (PushOlds [VBase BUint32 5; VStruct []]) = (b0, false)
  /\ run_body_mech b0 [Push bad_item; Push (TBase BByte, VBase BByte 9); Reset]
     = ({| bbe := false; bsig := []; bbuf := []; bfds := 0 |}, [false; true; true]).
Proof. vm_compute. repeat split. Qed.

(* the theorems applied *)
Example ex_by_theorem : step_body_mech b0 (Push bad_item) = step_body b0 (Push bad_item)
  /\ extends {| mbuf := bbuf b0; mfds := bfds b0 |} (fst (marshal_t false (snd bad_item) {| mbuf := bbuf b0; mfds := bfds b0 |})).
Proof. split; [apply step_body_mech_eq|apply marshal_t_appends]. Qed.
