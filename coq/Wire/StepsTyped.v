(** C04, step counting: instrumented copy of the typed decoder model of Wire/Unmarshal.v
    (rustbus/src/wire/unmarshal/traits/{base,container}.rs, wire/unmarshal_context.rs, Variant::unmarshal / get).
    [unmarshal_ts] is [unmarshal_t] clause by clause; steps counted (as in Wire/Steps.v, Wire/StepsParam.v):
      - 1 for every call of T::unmarshal (every entry of [ut], the call for the content of a variant included),
      - 1 for every round of an element loop (arrays, dicts) and of the field sequence of a struct / tuple,
      - 1 for the direct call for a dict key,
      - all steps of the raw validator ([validate_s], Wire/Steps.v) that the variant arm runs over the value before it
        decodes the same bytes.
    Cursor operations, check_array_len, parse_description, the signature comparison and the copy of the slice fast path
    (copy_slice_bytes: one pass over the bytes it returns) are not recursive and belong to the step that calls them. *)
From RB Require Import Base.Prelude Sig.Types Sig.Parser Sig.Validator Wire.Bytes Wire.Align Wire.Text Wire.Value
  Wire.SpecEnc Wire.Marshal Wire.Decode Wire.Unmarshal Wire.Steps Wire.StepsParam.

(* [unmarshal_t] (Wire/Unmarshal.v) with the counter *)
Fixpoint unmarshal_ts (vf : nat) (be : bool) (e : ety) (c : uctx) {struct vf} : counted (val * uctx) :=
  match vf with
  | O => (OutOfFuel, 0)
  | S vf' =>
      (fix ut (e : ety) (c : uctx) {struct e} : counted (val * uctx) :=
         tick                                               (* one call of T::unmarshal *)
         match e with
         | EBase b => lift (u_base be b c)
         | EArray x =>
             if valid_slice be (erase x) then
               dos r <- lift (u_read_fixed be 4 c);
               dos n <- lift (check_array_len (fst r));
               dos c1 <- lift (u_align (ealign x) (snd r));
               if negb (n mod ealign x =? 0) then lift Err else
               if remainder_len c1 <? n then lift Err else
               match erase x with
               | TBase b => lift (Ok (VArray (erase x) (chunks b (base_size b) (S (N.to_nat n)) (slice (ubuf c1) (uoff c1) n)),
                                      set_off c1 (uoff c1 + n)))
               | _ => lift Err
               end
             else
               dos c0 <- lift (u_align 4 c);
               dos r <- lift (u_read_fixed be 4 c0);
               dos n <- lift (check_array_len (fst r));
               dos c1 <- lift (u_align (ealign x) (snd r));
               dos s <- lift (u_sub n c1);
               dos vs <- sub_loop_s (fun c => dos c <- lift (u_align (ealign x) c); ut x c) (S (N.to_nat n)) (fst s) [];
               lift (Ok (VArray (erase x) vs, snd s))
         | EDict k v =>
             dos c0 <- lift (u_align 4 c);
             dos r <- lift (u_read_fixed be 4 c0);
             dos n <- lift (check_array_len (fst r));
             dos c1 <- lift (u_align 8 (snd r));
             dos s <- lift (u_sub n c1);
             dos kvs <- sub_loop_s (fun c => dos c <- lift (u_align 8 c);
                                          dos kr <- tick (lift (u_base be k c));           (* the key call *)
                                          dos c2 <- lift (u_align (ealign v) (snd kr));
                                          dos vr <- ut v c2;
                                          lift (Ok ((fst kr, fst vr), snd vr)))
                                (S (N.to_nat n)) (fst s) [];
             lift (Ok (VDict k (erase v) kvs, snd s))
         | EStruct es =>
             dos c <- lift (u_align 8 c);
             dos r <- (fix fields (l : list ety) (first : bool) (c : uctx) (acc : list val) : counted (list val * uctx) :=
                        match l with
                        | [] => lift (Ok (rev acc, c))
                        | f :: r =>
                            tick (
                            dos c <- lift (if first then Ok c else u_align (ealign f) c);
                            dos x <- ut f c; fields r false (snd x) (fst x :: acc))
                        end) es true c [];
             lift (Ok (VStruct (fst r), snd r))
         | EVar x =>
             dos r <- lift (u_read_sig c);
             match parse_description (fst r) with
             | Ok [t'] =>
                 dos c1 <- lift (u_align (align t') (snd r));
                 dos c2 <- lift (u_enter c1);
                 dos n <- validate_s 66 be (udepth c2) (uoff c2) (ubuf c2) t';      (* every step of the validator *)
                 dos s <- lift (u_sub n c2);
                 if ty_eqb t' (erase x) then
                   dos v <- unmarshal_ts vf' be x (fst s);
                   lift (Ok (VVariant t' (fst v), u_leave (snd s)))
                 else lift Err
             | _ => lift Err
             end
         end) e c
  end.

(** the weight of one byte for the Rust type [e]: 1 for the value itself, 2 for every container level of the type around it
    (its call and the loop round that made the call), 129 = [step_weight 0] for every Variant<..> level (the validator's
    pass over the bytes; the decoding pass is paid by the weight of the content type) *)
Fixpoint tweight (e : ety) : N :=
  match e with
  | EBase _ => 1
  | EArray x => tweight x + 2
  | EStruct es => fold_right (fun x m => N.max (tweight x) m) 0 es + 2
  | EDict _ v => tweight v + 2
  | EVar x => tweight x + 129
  end.
