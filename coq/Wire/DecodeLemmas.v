(** Lemma library for decoder completeness (C01/C03): "the buffer contains these bytes at this
    offset" ([has_at]), what the cursor helpers of wire/util.rs and unmarshal_context.rs do on
    such buffers, facts about the specification encoder (alignment, non-emptiness, monotonicity
    of [encodable] in the depth), and printed signatures as text. *)
From RB Require Import Base.Prelude Sig.Types Sig.Parser Sig.ParserProofs Sig.Validator Sig.ValidatorProofs
  Wire.Bytes Wire.Align Wire.Text Wire.Value Wire.SpecEnc Wire.Marshal Wire.MarshalProofs Wire.Decode Wire.Unmarshal.

(** ** [has_at buf off x]: the bytes [x] sit in [buf] at offset [off] *)
Definition has_at (buf : list N) (off : N) (x : list N) : Prop :=
  exists pre suf, buf = pre ++ x ++ suf /\ len pre = off.

Lemma has_at_intro pre x suf : has_at (pre ++ x ++ suf) (len pre) x.
Proof. exists pre, suf. auto. Qed.

Lemma has_at_app buf off x y : has_at buf off (x ++ y) -> has_at buf off x /\ has_at buf (off + len x) y.
Proof.
  intros (pre & suf & -> & <-). split.
  - exists pre, (y ++ suf). now rewrite <- app_assoc.
  - exists (pre ++ x), suf. rewrite len_app, <- !app_assoc. auto.
Qed.
Lemma has_at_app_l buf off x y : has_at buf off (x ++ y) -> has_at buf off x.
Proof. intros H. now apply has_at_app in H. Qed.
Lemma has_at_app_r buf off x y : has_at buf off (x ++ y) -> has_at buf (off + len x) y.
Proof. intros H. now apply has_at_app in H. Qed.

Lemma has_at_bound buf off x : has_at buf off x -> off + len x <= len buf.
Proof. intros (pre & suf & -> & <-). rewrite !len_app. lia. Qed.

Lemma firstnN_app_ge {A} (a b : list A) m : len a <= m -> firstnN m (a ++ b) = a ++ firstnN (m - len a) b.
Proof.
  intros H. unfold firstnN, len in *. rewrite firstn_app. rewrite firstn_all2 by lia. f_equal. f_equal. lia.
Qed.

Lemma has_at_clip buf off x m : has_at buf off x -> off + len x <= m -> has_at (firstnN m buf) off x.
Proof.
  intros (pre & suf & -> & <-) H. exists pre, (firstnN (m - len pre - len x) suf). split; [|reflexivity].
  rewrite firstnN_app_ge by lia. f_equal. rewrite firstnN_app_ge by lia. reflexivity.
Qed.

Lemma len_clip {A} (buf : list A) m : m <= len buf -> len (firstnN m buf) = m.
Proof. intros H. rewrite len_firstnN. lia. Qed.

Lemma has_at_nil buf off : off <= len buf -> has_at buf off [].
Proof.
  intros H. exists (firstnN off buf), (skipnN off buf). split.
  - cbn [app]. now rewrite firstnN_skipnN.
  - rewrite len_firstnN. lia.
Qed.

(** ** slices *)
Lemma slice_has_at buf off x : has_at buf off x -> slice buf off (len x) = x.
Proof. intros (pre & suf & -> & <-). unfold slice. rewrite skipnN_app_len. apply firstnN_app_len. Qed.

Lemma nthN_has_at buf off c : has_at buf off [c] -> nthN buf off = Some c.
Proof.
  intros (pre & suf & -> & <-). replace (len pre) with (len pre + 0) by lia. rewrite nthN_app_r. reflexivity.
Qed.

Lemma forallb_zeros n : forallb (N.eqb 0) (zeros n) = true.
Proof. unfold zeros. induction (N.to_nat n) as [|k IH]; [reflexivity|]. cbn. exact IH. Qed.

(** ** util.rs helpers on such buffers *)
Lemma align_offset_ok a buf off : 0 < a -> has_at buf off (zeros (padlen a off)) ->
  align_offset a buf off = Ok (padlen a off).
Proof.
  intros Ha H. pose proof (has_at_bound _ _ _ H) as Hb. rewrite len_zeros in Hb.
  unfold align_offset. rewrite pad_amount_padlen by exact Ha.
  destruct (N.ltb_spec (len buf) off) as [|_]; [lia|].
  destruct (N.ltb_spec (len buf - off) (padlen a off)) as [|_]; [lia|].
  rewrite <- (len_zeros (padlen a off)) at 1. rewrite (slice_has_at _ _ _ H). now rewrite forallb_zeros.
Qed.

Lemma padlen_at_aligned a pos : 0 < a -> padlen a (pos + padlen a pos) = 0.
Proof. intros Ha. apply padlen_0; [exact Ha|]. now apply padlen_aligned. Qed.

Lemma align_offset_aligned a buf off : 0 < a -> off mod a = 0 -> off <= len buf -> align_offset a buf off = Ok 0.
Proof.
  intros Ha Hm Hb. rewrite <- (padlen_0 a off Ha Hm). apply align_offset_ok; [exact Ha|].
  rewrite (padlen_0 a off Ha Hm). now apply has_at_nil.
Qed.

Lemma parse_u32_ok be buf off n : n < 2 ^ 32 -> has_at buf off (enc be 4 n) -> parse_u32_at be buf off = Ok n.
Proof.
  intros Hn H. pose proof (has_at_bound _ _ _ H) as Hb. rewrite len_enc in Hb. change (N.of_nat 4) with 4 in Hb.
  unfold parse_u32_at.
  destruct (N.ltb_spec (len buf) off) as [|_]; [lia|].
  destruct (N.ltb_spec (len buf - off) 4) as [|_]; [lia|].
  replace 4 with (len (enc be 4 n)) at 1 by (now rewrite len_enc).
  rewrite (slice_has_at _ _ _ H). f_equal. apply dec_enc. exact Hn.
Qed.

Lemma unmarshal_str_ok be buf off s : len s < 2 ^ 32 -> utf8_valid s = true -> has_nul s = false ->
  has_at buf off (enc be 4 (len s) ++ s ++ [0]) -> unmarshal_str be buf off = Ok (len s + 5, s).
Proof.
  intros Hl Hu Hn H. pose proof (has_at_bound _ _ _ H) as Hb. rewrite !len_app, len_enc in Hb.
  change (N.of_nat 4) with 4 in Hb. change (len [0]) with 1 in Hb.
  destruct (has_at_app _ _ _ _ H) as [H1 H2]. rewrite len_enc in H2. change (N.of_nat 4) with 4 in H2.
  destruct (has_at_app _ _ _ _ H2) as [H3 H4].
  unfold unmarshal_str. rewrite (parse_u32_ok be buf off (len s) Hl H1). cbn [bind].
  destruct (N.ltb_spec (len buf - off) (len s + 5)) as [|_]; [lia|].
  rewrite (slice_has_at _ _ _ H3), Hu, Hn. cbn [negb]. now rewrite (nthN_has_at _ _ _ H4).
Qed.

Lemma unmarshal_signature_ok buf off s : utf8_valid s = true -> has_at buf off (sig_bytes s) ->
  unmarshal_signature buf off = Ok (len s + 2, s).
Proof.
  intros Hu H. pose proof (has_at_bound _ _ _ H) as Hb. unfold sig_bytes in *. rewrite len_cons, len_app in Hb.
  change (len [0]) with 1 in Hb.
  change (len s :: s ++ [0]) with ([len s] ++ s ++ [0]) in H.
  destruct (has_at_app _ _ _ _ H) as [H1 H2]. change (len [len s]) with 1 in H2.
  destruct (has_at_app _ _ _ _ H2) as [H3 H4].
  unfold unmarshal_signature.
  destruct (N.ltb_spec (len buf) off) as [|_]; [lia|].
  rewrite (nthN_has_at _ _ _ H1).
  destruct (N.ltb_spec (len buf - off) (len s + 2)) as [|_]; [lia|].
  rewrite (slice_has_at _ _ _ H3), Hu. cbn [negb].
  replace (off + len s + 1) with (off + 1 + len s) by lia. now rewrite (nthN_has_at _ _ _ H4).
Qed.

(** ** printed signatures are ASCII, hence valid UTF-8; a printed single type parses back *)
Lemma utf8_valid_ascii l : Forall (fun c => c < 128) l -> utf8_valid l = true.
Proof.
  induction 1 as [|c l Hc _ IH]; [reflexivity|]. cbn [utf8_valid].
  destruct (N.ltb_spec c 128) as [_|]; [exact IH|lia].
Qed.

Lemma base_char_ascii b : base_char b < 128.
Proof. destruct b; cbn; lia. Qed.

Lemma to_str_ascii t : Forall (fun c => c < 128) (to_str t).
Proof.
  induction t as [b|e IHe|ts IHts|k v IHv|] using ty_ind'; cbn [to_str].
  - constructor; [apply base_char_ascii|constructor].
  - constructor; [unfold c_a; lia|exact IHe].
  - constructor; [unfold c_lpar; lia|]. apply Forall_app. split.
    + induction IHts as [|x xs Hx _ IH]; cbn [flat_map]; [constructor|]. apply Forall_app. auto.
    + constructor; [unfold c_rpar; lia|constructor].
  - constructor; [unfold c_a; lia|]. constructor; [unfold c_lbrace; lia|]. constructor; [apply base_char_ascii|].
    apply Forall_app. split; [exact IHv|]. constructor; [unfold c_rbrace; lia|constructor].
  - constructor; [unfold c_v; lia|constructor].
Qed.

Lemma to_str_list_ascii ts : Forall (fun c => c < 128) (to_str_list ts).
Proof. induction ts as [|t ts IH]; cbn; [constructor|]. apply Forall_app. split; [apply to_str_ascii|exact IH]. Qed.

Lemma is_ok_validate_signature s : is_ok (validate_signature s) = true -> validate_signature s = Ok tt.
Proof. destruct (validate_signature s) as [[]| | | |]; try discriminate. reflexivity. Qed.

Lemma valid_signature_utf8 s : is_ok (validate_signature s) = true -> utf8_valid s = true.
Proof.
  intros H. apply is_ok_validate_signature in H. apply validate_signature_spec in H.
  destruct H as (ts & _ & _ & _ & ->). apply utf8_valid_ascii, to_str_list_ascii.
Qed.

Lemma type_ok_parts t : type_ok t = true -> wf t = true /\ depth_ok 0 0 t = true /\ len (to_str t) <= 255.
Proof.
  unfold type_ok. intros H. apply andb_prop in H. destruct H as [H H3]. apply andb_prop in H. destruct H as [H1 H2].
  apply N.leb_le in H3. auto.
Qed.

Lemma parse_description_single t : type_ok t = true -> parse_description (to_str t) = Ok [t].
Proof.
  intros H. destruct (type_ok_parts _ H) as (Hw & Hd & Hl). apply parse_description_spec.
  unfold sig_of_types. cbn [forallb]. rewrite Hw, Hd. cbn [to_str_list flat_map]. rewrite app_nil_r. auto.
Qed.

Lemma has_at_of_slice buf off x : slice buf off (len x) = x -> off + len x <= len buf -> has_at buf off x.
Proof.
  intros Hs Hb. exists (firstnN off buf), (skipnN (len x) (skipnN off buf)). split.
  - rewrite <- Hs at 1. unfold slice. now rewrite firstnN_skipnN, firstnN_skipnN.
  - rewrite len_firstnN. lia.
Qed.

(** ** typing inversion with the type *)
Lemma ty_eqb_eq a : forall b, ty_eqb a b = true -> a = b.
Proof.
  induction a as [x|e IHe|ts IHts|k v IHv|] using ty_ind'; intros b H; destruct b as [y|e'|ts'|k' v'|]; cbn [ty_eqb] in H;
    try discriminate.
  - destruct (base_eqb_spec x y) as [->|]; [reflexivity|discriminate].
  - f_equal. now apply IHe.
  - f_equal. revert ts' H. induction IHts as [|x xs Hx _ IH]; intros [|y ys] H; try discriminate; [reflexivity|].
    apply andb_prop in H. destruct H as [H1 H2]. f_equal; [now apply Hx|now apply IH].
  - apply andb_prop in H. destruct H as [H1 H2]. destruct (base_eqb_spec k k') as [->|]; [|discriminate].
    f_equal. now apply IHv.
  - reflexivity.
Qed.

Lemma wt_base_ty b n T : wt (VBase b n) T = true ->
  T = TBase b /\ is_text b = false /\ n < 256 ^ N.of_nat (base_size b) /\ (b = BBoolean -> n < 2).
Proof.
  destruct T as [b'|?|?|? ?|]; cbn [wt]; try discriminate. intros H.
  apply andb_prop in H. destruct H as [H Hbool]. apply andb_prop in H. destruct H as [H Hk].
  apply andb_prop in H. destruct H as [Hb Ht]. destruct (base_eqb_spec b b') as [E|]; [subst b'|discriminate].
  apply N.ltb_lt in Hk. split; [reflexivity|]. split; [now destruct (is_text b)|]. split; [exact Hk|].
  intros ->. now apply N.ltb_lt in Hbool.
Qed.
Lemma wt_text_ty b s T : wt (VText b s) T = true -> T = TBase b /\ is_text b = true.
Proof.
  destruct T as [b'|?|?|? ?|]; cbn [wt]; try discriminate. intros H. apply andb_prop in H. destruct H as [Hb Ht].
  destruct (base_eqb_spec b b') as [E|]; [subst b'|discriminate]. auto.
Qed.
Lemma wt_array_ty t vs T : wt (VArray t vs) T = true -> T = TArray t.
Proof. destruct T; cbn [wt]; try discriminate. intros H. apply andb_prop in H. destruct H as [H _].
  apply ty_eqb_eq in H. now subst. Qed.
Lemma wt_dict_ty k vt kvs T : wt (VDict k vt kvs) T = true -> T = TDict k vt.
Proof. destruct T; cbn [wt]; try discriminate. intros H. apply andb_prop in H. destruct H as [H _].
  apply andb_prop in H. destruct H as [H1 H2]. apply ty_eqb_eq in H2.
  destruct (base_eqb_spec k k0) as [->|]; [|discriminate]. now subst. Qed.
Lemma wt_variant_ty t x T : wt (VVariant t x) T = true -> T = TVariant.
Proof. destruct T; cbn [wt]; try discriminate. reflexivity. Qed.
Lemma wt_struct_ty vs T : wt (VStruct vs) T = true -> exists ts, T = TStruct ts /\ Forall2 (fun x t => wt x t = true) vs ts.
Proof.
  destruct T as [|?|ts|? ?|]; cbn [wt]; try discriminate. intros H. exists ts. split; [reflexivity|].
  revert ts H. induction vs as [|x r IH]; intros [|t ts] H; try discriminate; [constructor|].
  apply andb_prop in H. destruct H as [Hx Hr]. constructor; [exact Hx|now apply IH].
Qed.

(** ** named inner loops of [encodable] *)
Fixpoint encodable_list (be : bool) (pos depth : N) (l : list val) : bool :=
  match l with
  | [] => true
  | x :: r => encodable be pos depth x && encodable_list be (pos + len (spec_enc be pos x)) depth r
  end.
Fixpoint encodable_entries (be : bool) (pos depth : N) (l : list (val * val)) : bool :=
  match l with
  | [] => true
  | (a, b) :: r =>
      let p := pos + padlen 8 pos in
      encodable be p depth a && encodable be (p + len (spec_enc be p a)) depth b
      && encodable_entries be (pos + len (spec_enc_entry be pos (a, b))) depth r
  end.

Lemma encodable_array be pos depth t vs : encodable be pos depth (VArray t vs) =
  (depth <? MAX_DEPTH) && type_ok t
  && (len (spec_enc_list be (pos + padlen 4 pos + 4 + padlen (align t) (pos + padlen 4 pos + 4)) vs) <=? MAX_ARRAY)
  && encodable_list be (pos + padlen 4 pos + 4 + padlen (align t) (pos + padlen 4 pos + 4)) (depth + 1) vs.
Proof.
  cbn [encodable].
  match goal with |- context [(fix go (p : N) (l : list val) {struct l} : bool := _)] =>
    set (go := (fix go (p : N) (l : list val) {struct l} : bool := _)) end.
  assert (E : forall l p, go p l = encodable_list be p (depth + 1) l)
    by (induction l as [|x l IH]; intros p; cbn; [reflexivity|now rewrite IH]).
  now rewrite E.
Qed.
Lemma encodable_struct be pos depth vs : encodable be pos depth (VStruct vs) =
  (depth <? MAX_DEPTH) && negb (match vs with [] => true | _ => false end)
  && encodable_list be (pos + padlen 8 pos) (depth + 1) vs.
Proof.
  cbn [encodable].
  match goal with |- context [(fix go (p : N) (l : list val) {struct l} : bool := _)] =>
    set (go := (fix go (p : N) (l : list val) {struct l} : bool := _)) end.
  assert (E : forall l p, go p l = encodable_list be p (depth + 1) l)
    by (induction l as [|x l IH]; intros p; cbn; [reflexivity|now rewrite IH]).
  now rewrite E.
Qed.
Lemma encodable_dict be pos depth k vt kvs : encodable be pos depth (VDict k vt kvs) =
  (depth <? MAX_DEPTH) && type_ok vt
  && (len (spec_enc_entries be (pos + padlen 4 pos + 4 + padlen 8 (pos + padlen 4 pos + 4)) kvs) <=? MAX_ARRAY)
  && encodable_entries be (pos + padlen 4 pos + 4 + padlen 8 (pos + padlen 4 pos + 4)) (depth + 1) kvs.
Proof.
  cbn [encodable].
  match goal with |- context [(fix go (p : N) (l : list (val * val)) {struct l} : bool := _)] =>
    set (go := (fix go (p : N) (l : list (val * val)) {struct l} : bool := _)) end.
  assert (E : forall l p, go p l = encodable_entries be p (depth + 1) l).
  { induction l as [|[a b] l IH]; intros p; cbn [encodable_entries]; [reflexivity|]. cbv zeta. cbn. now rewrite IH. }
  now rewrite E.
Qed.

(* the flat forms of the specification encoder's container clauses *)
Lemma spec_enc_array' be pos t vs : spec_enc be pos (VArray t vs) =
  zeros (padlen 4 pos)
  ++ enc be 4 (len (spec_enc_list be (pos + padlen 4 pos + 4 + padlen (align t) (pos + padlen 4 pos + 4)) vs))
  ++ zeros (padlen (align t) (pos + padlen 4 pos + 4))
  ++ spec_enc_list be (pos + padlen 4 pos + 4 + padlen (align t) (pos + padlen 4 pos + 4)) vs.
Proof. apply spec_enc_array. Qed.
Lemma spec_enc_dict' be pos k vt kvs : spec_enc be pos (VDict k vt kvs) =
  zeros (padlen 4 pos)
  ++ enc be 4 (len (spec_enc_entries be (pos + padlen 4 pos + 4 + padlen 8 (pos + padlen 4 pos + 4)) kvs))
  ++ zeros (padlen 8 (pos + padlen 4 pos + 4))
  ++ spec_enc_entries be (pos + padlen 4 pos + 4 + padlen 8 (pos + padlen 4 pos + 4)) kvs.
Proof. apply spec_enc_dict. Qed.
Lemma spec_enc_variant be pos t x : spec_enc be pos (VVariant t x) =
  sig_bytes (to_str t) ++ spec_enc be (pos + len (sig_bytes (to_str t))) x.
Proof. reflexivity. Qed.

Lemma len_sig_bytes s : len (sig_bytes s) = len s + 2.
Proof. unfold sig_bytes. rewrite len_cons, len_app. change (len [0]) with 1. lia. Qed.

(** ** facts about the specification encoder *)
Lemma andb3 a b c : a && b && c = true -> a = true /\ b = true /\ c = true.
Proof. destruct a, b, c; cbn; auto. Qed.
Lemma andb4 a b c d : a && b && c && d = true -> a = true /\ b = true /\ c = true /\ d = true.
Proof. destruct a, b, c, d; cbn; auto. Qed.

Lemma base_size_pos b : is_text b = false -> (1 <= base_size b)%nat.
Proof. destruct b; cbn; try discriminate; lia. Qed.
Lemma base_size_align b : is_text b = false -> N.of_nat (base_size b) = base_align b.
Proof. destruct b; cbn; try discriminate; reflexivity. Qed.

Lemma len_1 {A} (x : A) : len [x] = 1. Proof. reflexivity. Qed.

Lemma spec_enc_nonempty be : forall v t pos d, wt v t = true -> encodable be pos d v = true -> 0 < len (spec_enc be pos v).
Proof.
  induction v as [b k|b s|t vs IH|vs IH|kb vt kvs IH|t x IH] using val_ind'; intros T pos d Hwt He.
  - destruct (wt_base_ty _ _ _ Hwt) as (_ & Ht & _). cbn [spec_enc]. rewrite len_app, len_enc.
    pose proof (base_size_pos b Ht). lia.
  - destruct (wt_text_ty _ _ _ Hwt) as [_ Ht].
    destruct b; try discriminate Ht; cbn [spec_enc]; rewrite ?len_sig_bytes, ?len_app, ?len_enc; lia.
  - rewrite spec_enc_array'. rewrite !len_app, len_enc. lia.
  - rewrite spec_enc_struct. rewrite encodable_struct in He. apply andb3 in He. destruct He as (_ & Hne & Hl).
    destruct vs as [|x r]; [discriminate|]. destruct (wt_struct_ty _ _ Hwt) as (ts & -> & Hf).
    inversion Hf as [|? t0 ? ts0 Hx Hr]; subst. apply Forall_cons_iff in IH. destruct IH as [IHx _].
    cbn [encodable_list] in Hl. apply andb_prop in Hl. destruct Hl as [Hex _].
    cbn [spec_enc_list]. rewrite !len_app. specialize (IHx _ _ _ Hx Hex). lia.
  - rewrite spec_enc_dict'. rewrite !len_app, len_enc. lia.
  - rewrite spec_enc_variant, len_app, len_sig_bytes. lia.
Qed.

Lemma encodable_list_mono be vs :
  Forall (fun x => forall pos d d', d' <= d -> encodable be pos d x = true -> encodable be pos d' x = true) vs ->
  forall pos d d', d' <= d -> encodable_list be pos d vs = true -> encodable_list be pos d' vs = true.
Proof.
  induction 1 as [|x r Hx _ IH]; intros pos d d' Hd H; [reflexivity|]. cbn [encodable_list] in *.
  apply andb_prop in H. destruct H as [H1 H2]. rewrite (Hx _ _ _ Hd H1). cbn [andb]. exact (IH _ _ _ Hd H2).
Qed.
Lemma encodable_entries_mono be kvs :
  Forall (fun kv => (forall pos d d', d' <= d -> encodable be pos d (fst kv) = true -> encodable be pos d' (fst kv) = true)
                    /\ (forall pos d d', d' <= d -> encodable be pos d (snd kv) = true -> encodable be pos d' (snd kv) = true)) kvs ->
  forall pos d d', d' <= d -> encodable_entries be pos d kvs = true -> encodable_entries be pos d' kvs = true.
Proof.
  induction 1 as [|[a b] r [Ha Hb] _ IH]; intros pos d d' Hd H; [reflexivity|]. cbn [encodable_entries fst snd] in *.
  cbv zeta in *. apply andb3 in H. destruct H as (H1 & H2 & H3).
  rewrite (Ha _ _ _ Hd H1), (Hb _ _ _ Hd H2). cbn [andb]. exact (IH _ _ _ Hd H3).
Qed.

Lemma encodable_mono be : forall v pos d d', d' <= d -> encodable be pos d v = true -> encodable be pos d' v = true.
Proof.
  induction v as [b k|b s|t vs IH|vs IH|kb vt kvs IH|t x IH] using val_ind'; intros pos d d' Hd He.
  - reflexivity.
  - exact He.
  - rewrite encodable_array in *. apply andb4 in He. destruct He as (H1 & H2 & H3 & H4).
    apply N.ltb_lt in H1. assert (H1' : (d' <? MAX_DEPTH) = true) by (apply N.ltb_lt; lia).
    rewrite H1', H2, H3. cbn [andb]. apply (encodable_list_mono be vs IH _ (d + 1)); [lia|exact H4].
  - rewrite encodable_struct in *. apply andb3 in He. destruct He as (H1 & H2 & H3).
    apply N.ltb_lt in H1. assert (H1' : (d' <? MAX_DEPTH) = true) by (apply N.ltb_lt; lia).
    rewrite H1', H2. cbn [andb]. apply (encodable_list_mono be vs IH _ (d + 1)); [lia|exact H3].
  - rewrite encodable_dict in *. apply andb4 in He. destruct He as (H1 & H2 & H3 & H4).
    apply N.ltb_lt in H1. assert (H1' : (d' <? MAX_DEPTH) = true) by (apply N.ltb_lt; lia).
    rewrite H1', H2, H3. cbn [andb]. apply (encodable_entries_mono be kvs IH _ (d + 1)); [lia|exact H4].
  - cbn [encodable] in *. apply andb3 in He. destruct He as (H1 & H2 & H3).
    apply N.ltb_lt in H1. assert (H1' : (d' <? MAX_DEPTH) = true) by (apply N.ltb_lt; lia).
    rewrite H1', H2. cbn [andb]. apply (IH _ (d + 1)); [lia|exact H3].
Qed.

(* every encoding starts with the padding to the alignment of its type; the rest is the encoding
   at the aligned position *)
Lemma spec_enc_align be v t pos : wt v t = true ->
  spec_enc be pos v = zeros (padlen (align t) pos) ++ spec_enc be (pos + padlen (align t) pos) v.
Proof.
  intros Hwt. destruct v as [b k|b s|et vs|vs|kb vt kvs|vt x].
  - destruct (wt_base_ty _ _ _ Hwt) as (-> & _). cbn [align spec_enc].
    rewrite padlen_at_aligned by apply base_align_pos. reflexivity.
  - destruct (wt_text_ty _ _ _ Hwt) as [-> Ht]. destruct b; try discriminate Ht; cbn [align base_align spec_enc].
    + rewrite padlen_at_aligned by lia. reflexivity.
    + rewrite padlen_1. reflexivity.
    + rewrite padlen_at_aligned by lia. reflexivity.
  - rewrite (wt_array_ty _ _ _ Hwt). cbn [align]. rewrite !spec_enc_array'.
    rewrite padlen_at_aligned by lia. rewrite N.add_0_r. reflexivity.
  - destruct (wt_struct_ty _ _ Hwt) as (ts & -> & _). cbn [align]. rewrite !spec_enc_struct.
    rewrite padlen_at_aligned by lia. rewrite N.add_0_r. reflexivity.
  - rewrite (wt_dict_ty _ _ _ _ Hwt). cbn [align]. rewrite !spec_enc_dict'.
    rewrite padlen_at_aligned by lia. rewrite N.add_0_r. reflexivity.
  - rewrite (wt_variant_ty _ _ _ Hwt). cbn [align]. rewrite padlen_1, N.add_0_r. reflexivity.
Qed.

Lemma encodable_align be v t pos d : wt v t = true ->
  encodable be (pos + padlen (align t) pos) d v = encodable be pos d v.
Proof.
  intros Hwt. destruct v as [b k|b s|et vs|vs|kb vt kvs|vt x].
  - reflexivity.
  - reflexivity.
  - rewrite (wt_array_ty _ _ _ Hwt). cbn [align]. rewrite !encodable_array.
    rewrite padlen_at_aligned by lia. rewrite N.add_0_r. reflexivity.
  - destruct (wt_struct_ty _ _ Hwt) as (ts & -> & _). cbn [align]. rewrite !encodable_struct.
    rewrite padlen_at_aligned by lia. rewrite N.add_0_r. reflexivity.
  - rewrite (wt_dict_ty _ _ _ _ Hwt). cbn [align]. rewrite !encodable_dict.
    rewrite padlen_at_aligned by lia. rewrite N.add_0_r. reflexivity.
  - rewrite (wt_variant_ty _ _ _ Hwt). cbn [align]. rewrite padlen_1, N.add_0_r. reflexivity.
Qed.

(** ** the decoders' clauses with named loops (all by conversion) *)
Definition vfields (one : ty -> N -> outcome N) (offset : N) : list ty -> N -> outcome N :=
  fix fields (l : list ty) (used : N) : outcome N :=
    match l with
    | [] => Ok used
    | f :: r => do k <- one f (offset + used); fields r (used + k)
    end.

Lemma validate_S_base vf be depth offset buf b :
  validate (S vf) be depth offset buf (TBase b) = validate_base be offset buf b.
Proof. reflexivity. Qed.

Lemma validate_S_array vf be depth offset buf e :
  validate (S vf) be depth offset buf (TArray e) =
  if MAX_DEPTH <=? depth then Err else
  do padding <- align_offset 4 buf offset;
  do n <- parse_u32_at be buf (offset + padding);
  do n <- check_array_len n;
  if len buf - (offset + padding + 4) <? n then Err else
  do fp <- align_offset (align e) buf (offset + padding + 4);
  if len buf - (offset + padding + 4 + fp) <? n then Err else
  if bytes_always_valid e then
    (if n mod align e =? 0 then Ok (padding + 4 + fp + n) else Err)
  else
    do used <- elem_loop (fun p => validate (S vf) be (depth + 1) p (firstnN (offset + padding + 4 + fp + n) buf) e)
                 (S (N.to_nat n)) (offset + padding + 4 + fp) n 0;
    Ok (padding + 4 + fp + n).
Proof. reflexivity. Qed.

Lemma validate_S_dict vf be depth offset buf k v :
  validate (S vf) be depth offset buf (TDict k v) =
  if MAX_DEPTH <=? depth then Err else
  do padding <- align_offset 4 buf offset;
  do n <- parse_u32_at be buf (offset + padding);
  do n <- check_array_len n;
  if len buf - (offset + padding + 4) <? n then Err else
  do bp <- align_offset 8 buf (offset + padding + 4);
  if len buf - (offset + padding + 4 + bp) <? n then Err else
  do used <- elem_loop (fun p =>
                          let clipped := firstnN (offset + padding + 4 + bp + n) buf in
                          do ep <- align_offset 8 clipped p;
                          do kb <- validate_base be (p + ep) clipped k;
                          do vb <- validate (S vf) be (depth + 1) (p + ep + kb) clipped v;
                          Ok (ep + kb + vb))
               (S (N.to_nat n)) (offset + padding + 4 + bp) n 0;
  Ok (padding + bp + 4 + used).
Proof. reflexivity. Qed.

Lemma validate_S_struct vf be depth offset buf ts :
  validate (S vf) be depth offset buf (TStruct ts) =
  if MAX_DEPTH <=? depth then Err else
  do padding <- align_offset 8 buf offset;
  do used <- vfields (fun f p => validate (S vf) be (depth + 1) p buf f) (offset + padding) ts 0;
  Ok (padding + used).
Proof. reflexivity. Qed.

Lemma validate_S_variant vf be depth offset buf :
  validate (S vf) be depth offset buf TVariant =
  if MAX_DEPTH <=? depth then Err else
  do r <- unmarshal_signature buf offset;
  do tys <- parse_description (snd r);
  match tys with
  | [t'] => do pb <- validate vf be (depth + 1) (offset + fst r) buf t'; Ok (fst r + pb)
  | _ => Err
  end.
Proof.
  cbn [validate]. destruct (MAX_DEPTH <=? depth); [reflexivity|].
  destruct (unmarshal_signature buf offset) as [[sb sg]| | | |]; reflexivity.
Qed.

Definition pfields (one : ty -> uctx -> outcome (val * uctx)) : list ty -> uctx -> list val -> outcome (list val * uctx) :=
  fix fields (l : list ty) (c : uctx) (acc : list val) : outcome (list val * uctx) :=
    match l with
    | [] => Ok (rev acc, c)
    | f :: r => do x <- one f c; fields r (snd x) (fst x :: acc)
    end.

Definition leave_res (o : outcome (val * uctx)) : outcome (val * uctx) := do r <- o; Ok (fst r, u_leave (snd r)).

Lemma unmarshal_p_S_base vf be b c : unmarshal_p (S vf) be (TBase b) c = u_base be b c.
Proof. reflexivity. Qed.

Lemma unmarshal_p_S_array vf be e c : unmarshal_p (S vf) be (TArray e) c =
  do c <- u_enter c;
  leave_res (do r <- u_read_fixed be 4 c;
             do n <- check_array_len (fst r);
             do c1 <- u_align (align e) (snd r);
             do s <- u_sub n c1;
             do vs <- sub_loop (unmarshal_p (S vf) be e) (S (N.to_nat n)) (fst s) [];
             Ok (VArray e vs, snd s)).
Proof. reflexivity. Qed.

Lemma unmarshal_p_S_dict vf be k v c : unmarshal_p (S vf) be (TDict k v) c =
  do c <- u_enter c;
  leave_res (do r <- u_read_fixed be 4 c;
             do n <- check_array_len (fst r);
             do c1 <- u_align 8 (snd r);
             do s <- u_sub n c1;
             do kvs <- sub_loop (fun c => do c <- u_align 8 c;
                                          do kr <- u_base be k c;
                                          do vr <- unmarshal_p (S vf) be v (snd kr);
                                          Ok ((fst kr, fst vr), snd vr))
                                (S (N.to_nat n)) (fst s) [];
             Ok (VDict k v kvs, snd s)).
Proof. reflexivity. Qed.

Lemma unmarshal_p_S_struct vf be ts c : unmarshal_p (S vf) be (TStruct ts) c =
  do c <- u_enter c;
  leave_res (do c <- u_align 8 c;
             match ts with
             | [] => Err
             | _ => do r <- pfields (unmarshal_p (S vf) be) ts c []; Ok (VStruct (fst r), snd r)
             end).
Proof. reflexivity. Qed.

Lemma unmarshal_p_S_variant vf be c : unmarshal_p (S vf) be TVariant c =
  do c <- u_enter c;
  leave_res (do r <- u_read_sig c;
             do tys <- parse_description (fst r);
             match tys with
             | [t'] => do x <- unmarshal_p vf be t' (snd r); Ok (VVariant t' (fst x), snd x)
             | _ => Err
             end).
Proof. reflexivity. Qed.

Definition tfields (one : ety -> uctx -> outcome (val * uctx))
  : list ety -> bool -> uctx -> list val -> outcome (list val * uctx) :=
  fix fields (l : list ety) (first : bool) (c : uctx) (acc : list val) : outcome (list val * uctx) :=
    match l with
    | [] => Ok (rev acc, c)
    | f :: r =>
        do c <- (if first then Ok c else u_align (ealign f) c);
        do x <- one f c; fields r false (snd x) (fst x :: acc)
    end.

Lemma unmarshal_t_S_base vf be b c : unmarshal_t (S vf) be (EBase b) c = u_base be b c.
Proof. reflexivity. Qed.

Lemma unmarshal_t_S_array vf be x c : unmarshal_t (S vf) be (EArray x) c =
  if valid_slice be (erase x) then
    do r <- u_read_fixed be 4 c;
    do n <- check_array_len (fst r);
    do c1 <- u_align (ealign x) (snd r);
    if negb (n mod ealign x =? 0) then Err else
    if remainder_len c1 <? n then Err else
    match erase x with
    | TBase b => Ok (VArray (erase x) (chunks b (base_size b) (S (N.to_nat n)) (slice (ubuf c1) (uoff c1) n)),
                     set_off c1 (uoff c1 + n))
    | _ => Err
    end
  else
    do c0 <- u_align 4 c;
    do r <- u_read_fixed be 4 c0;
    do n <- check_array_len (fst r);
    do c1 <- u_align (ealign x) (snd r);
    do s <- u_sub n c1;
    do vs <- sub_loop (fun c => do c <- u_align (ealign x) c; unmarshal_t (S vf) be x c) (S (N.to_nat n)) (fst s) [];
    Ok (VArray (erase x) vs, snd s).
Proof. reflexivity. Qed.

Lemma unmarshal_t_S_dict vf be k v c : unmarshal_t (S vf) be (EDict k v) c =
  do c0 <- u_align 4 c;
  do r <- u_read_fixed be 4 c0;
  do n <- check_array_len (fst r);
  do c1 <- u_align 8 (snd r);
  do s <- u_sub n c1;
  do kvs <- sub_loop (fun c => do c <- u_align 8 c;
                               do kr <- u_base be k c;
                               do c2 <- u_align (ealign v) (snd kr);
                               do vr <- unmarshal_t (S vf) be v c2;
                               Ok ((fst kr, fst vr), snd vr))
                     (S (N.to_nat n)) (fst s) [];
  Ok (VDict k (erase v) kvs, snd s).
Proof. reflexivity. Qed.

Lemma unmarshal_t_S_struct vf be es c : unmarshal_t (S vf) be (EStruct es) c =
  do c <- u_align 8 c;
  do r <- tfields (unmarshal_t (S vf) be) es true c [];
  Ok (VStruct (fst r), snd r).
Proof. reflexivity. Qed.

Lemma unmarshal_t_S_var vf be x c : unmarshal_t (S vf) be (EVar x) c =
  do r <- u_read_sig c;
  match parse_description (fst r) with
  | Ok [t'] =>
      do c1 <- u_align (align t') (snd r);
      do c2 <- u_enter c1;
      do n <- validate 66 be (udepth c2) (uoff c2) (ubuf c2) t';
      do s <- u_sub n c2;
      if ty_eqb t' (erase x) then
        do v <- unmarshal_t vf be x (fst s);
        Ok (VVariant t' (fst v), u_leave (snd s))
      else Err
  | _ => Err
  end.
Proof. reflexivity. Qed.

(** ** the cursor operations of unmarshal_context.rs on such buffers *)
Lemma u_align_ok a c : 0 < a -> has_at (ubuf c) (uoff c) (zeros (padlen a (uoff c))) ->
  u_align a c = Ok (set_off c (uoff c + padlen a (uoff c))).
Proof.
  intros Ha H. unfold u_align. rewrite (align_offset_ok a _ _ Ha H). cbn [bind].
  pose proof (has_at_bound _ _ _ H) as Hb. rewrite len_zeros in Hb.
  destruct (N.ltb_spec (len (ubuf c)) (uoff c + padlen a (uoff c))) as [|_]; [lia|reflexivity].
Qed.

Lemma u_read_fixed_ok be k c n : (k = 1 \/ k = 2 \/ k = 4 \/ k = 8)%nat -> n < 256 ^ N.of_nat k ->
  has_at (ubuf c) (uoff c) (zeros (padlen (N.of_nat k) (uoff c)) ++ enc be k n) ->
  u_read_fixed be k c = Ok (n, set_off c (uoff c + padlen (N.of_nat k) (uoff c) + N.of_nat k)).
Proof.
  intros Hk Hn H. destruct c as [buf off nf d]. cbn [ubuf uoff] in *.
  destruct (has_at_app _ _ _ _ H) as [H1 H2]. rewrite len_zeros in H2.
  pose proof (has_at_bound _ _ _ H2) as Hb. rewrite len_enc in Hb.
  unfold u_read_fixed.
  set (c := {| ubuf := buf; uoff := off; unfds := nf; udepth := d |}).
  assert (E : (if Nat.eqb k 1 then Ok c else u_align (N.of_nat k) c)
              = Ok {| ubuf := buf; uoff := off + padlen (N.of_nat k) off; unfds := nf; udepth := d |}).
  { destruct Hk as [->|Hk].
    - cbn [Nat.eqb]. change (N.of_nat 1) with 1. rewrite padlen_1, N.add_0_r. reflexivity.
    - assert (Ek : Nat.eqb k 1 = false) by (destruct Hk as [->|[->| ->]]; reflexivity). rewrite Ek.
      rewrite u_align_ok; [reflexivity|lia|exact H1]. }
  rewrite E. cbn [bind]. unfold remainder_len. cbn [ubuf uoff set_off unfds udepth].
  destruct (N.ltb_spec (len buf - (off + padlen (N.of_nat k) off)) (N.of_nat k)) as [|_]; [lia|].
  pose proof (slice_has_at _ _ _ H2) as Es. rewrite len_enc in Es. rewrite Es.
  rewrite dec_enc by exact Hn. reflexivity.
Qed.

Lemma u_read_str_ok be c s : len s < 2 ^ 32 -> utf8_valid s = true -> has_nul s = false ->
  has_at (ubuf c) (uoff c) (zeros (padlen 4 (uoff c)) ++ enc be 4 (len s) ++ s ++ [0]) ->
  u_read_str be c = Ok (s, set_off c (uoff c + padlen 4 (uoff c) + (len s + 5))).
Proof.
  intros Hl Hu Hn H. destruct (has_at_app _ _ _ _ H) as [H1 H2]. rewrite len_zeros in H2.
  unfold u_read_str. rewrite (u_align_ok 4 c) by (try lia; exact H1). cbn [bind].
  cbn [set_off ubuf uoff]. rewrite (unmarshal_str_ok be _ _ s Hl Hu Hn H2). reflexivity.
Qed.

Lemma u_read_sig_ok c s : utf8_valid s = true -> has_at (ubuf c) (uoff c) (sig_bytes s) ->
  u_read_sig c = Ok (s, set_off c (uoff c + (len s + 2))).
Proof. intros Hu H. unfold u_read_sig. rewrite (unmarshal_signature_ok _ _ s Hu H). reflexivity. Qed.

Lemma u_sub_ok n c : uoff c + n <= len (ubuf c) ->
  u_sub n c = Ok ({| ubuf := firstnN (uoff c + n) (ubuf c); uoff := uoff c; unfds := unfds c; udepth := udepth c |},
                  set_off c (uoff c + n)).
Proof. intros H. unfold u_sub, remainder_len. destruct (N.ltb_spec (len (ubuf c) - uoff c) n) as [|_]; [lia|reflexivity]. Qed.

Lemma u_enter_ok c : udepth c < MAX_DEPTH ->
  u_enter c = Ok {| ubuf := ubuf c; uoff := uoff c; unfds := unfds c; udepth := udepth c + 1 |}.
Proof. intros H. unfold u_enter. destruct (N.leb_spec MAX_DEPTH (udepth c)) as [|_]; [lia|reflexivity]. Qed.

(** descriptor indices are below the number of descriptors that came with the message *)
Fixpoint fds_below (nf : N) (v : val) : bool :=
  match v with
  | VBase BUnixFd k => k <? nf
  | VBase _ _ | VText _ _ => true
  | VArray _ vs | VStruct vs => forallb (fds_below nf) vs
  | VDict _ _ kvs => forallb (fun kv => fds_below nf (fst kv) && fds_below nf (snd kv)) kvs
  | VVariant _ x => fds_below nf x
  end.

Lemma path_elems_nul l : forall cur, In 0 cur \/ In 0 l ->
  forallb (fun e => negb (match e with [] => true | _ => false end) && forallb path_char e) (path_elems cur l) = false.
Proof.
  assert (Hcur : forall cur, In 0 cur -> forallb path_char (rev cur) = false).
  { intros cur Hi. destruct (forallb path_char (rev cur)) eqn:Ef; [|reflexivity]. rewrite forallb_forall in Ef.
    specialize (Ef 0 (proj1 (in_rev _ _) Hi)). discriminate. }
  induction l as [|y l IHl]; intros cur Hi.
  - cbn [path_elems forallb]. destruct Hi as [Hi|[]]. rewrite (Hcur _ Hi). now rewrite andb_false_r.
  - cbn [path_elems]. destruct (N.eqb_spec y 47) as [->|Hy].
    + cbn [forallb]. destruct Hi as [Hc|[Hy|Hl]].
      * rewrite (Hcur _ Hc). now rewrite andb_false_r.
      * discriminate.
      * rewrite (IHl [] (or_intror Hl)). apply andb_false_r.
    + apply IHl. destruct Hi as [Hc|[Hy0|Hl]]; [left; now right|left; now left|now right].
Qed.

Lemma valid_path_no_nul s : valid_path s = true -> has_nul s = false.
Proof.
  intros H. destruct (has_nul s) eqn:En; [|reflexivity]. exfalso.
  unfold has_nul in En. apply existsb_exists in En. destruct En as (z & Hin & Hz). apply N.eqb_eq in Hz. subst z.
  unfold valid_path in H. destruct s as [|c op]; [discriminate|].
  destruct (N.eqb_spec c 47) as [->|]; [|discriminate].
  destruct Hin as [Hin|Hin]; [discriminate|].
  destruct op as [|c1 op1]; [destruct Hin|].
  rewrite (path_elems_nul (c1 :: op1) [] (or_intror Hin)) in H. discriminate.
Qed.

Lemma encodable_text be pos d b s : is_text b = true -> encodable be pos d (VText b s) = true ->
  match b with
  | BSignature => is_ok (validate_signature s) = true
  | _ => utf8_valid s = true /\ has_nul s = false /\ len s < 2 ^ 32 /\ (b = BObjectPath -> valid_path s = true)
  end.
Proof.
  intros Ht H. destruct b; try discriminate Ht; cbn [encodable] in H.
  - apply andb3 in H. destruct H as (H1 & H2 & H3). apply N.ltb_lt in H3.
    split; [exact H1|]. split; [now destruct (has_nul s)|]. split; [exact H3|discriminate].
  - exact H.
  - apply andb3 in H. destruct H as (H1 & H2 & H3). apply N.ltb_lt in H3.
    split; [exact H1|]. split; [now apply valid_path_no_nul|split; [exact H3|auto]].
Qed.

(** ** values of base type *)
Lemma validate_base_ok be b v d off buf : wt v (TBase b) = true -> encodable be off d v = true ->
  has_at buf off (spec_enc be off v) -> validate_base be off buf b = Ok (len (spec_enc be off v)).
Proof.
  intros Hwt He H. destruct (wt_base_inv _ _ Hwt) as [(k & -> & Ht & Hk)|(s & -> & Ht)].
  - (* fixed width *)
    destruct (wt_base_ty _ _ _ Hwt) as (_ & _ & _ & Hbool).
    cbn [spec_enc] in *. destruct (has_at_app _ _ _ _ H) as [H1 H2]. rewrite len_zeros in H2.
    pose proof (has_at_bound _ _ _ H2) as Hb. rewrite len_enc in Hb.
    pose proof (slice_has_at _ _ _ H2) as Es. rewrite len_enc in Es.
    rewrite len_app, len_zeros, len_enc.
    unfold validate_base. rewrite (align_offset_ok _ _ _ (base_align_pos b) H1). cbn [bind].
    destruct b; try discriminate Ht; cbn [base_size] in *;
      try (match goal with |- context [?a <? N.of_nat ?b] => destruct (N.ltb_spec a (N.of_nat b)) as [|_]; [lia|f_equal; lia] end).
    change (N.of_nat 4) with 4 in *.
    destruct (N.ltb_spec (len buf - (off + padlen (base_align BBoolean) off)) 4) as [|_]; [lia|].
    rewrite Es, dec_enc by exact Hk. specialize (Hbool eq_refl).
    destruct (N.ltb_spec k 2) as [_|]; [f_equal; lia|lia].
  - (* text *)
    pose proof (encodable_text _ _ _ _ _ Ht He) as Hs.
    destruct b; try discriminate Ht; cbn [spec_enc] in *.
    + destruct Hs as (Hu & Hn & Hl & _). destruct (has_at_app _ _ _ _ H) as [H1 H2]. rewrite len_zeros in H2.
      unfold validate_base. rewrite (align_offset_ok _ _ _ (base_align_pos BString) H1). cbn [bind].
      cbn [base_align] in *. rewrite (unmarshal_str_ok be _ _ s Hl Hu Hn H2). cbn [bind fst].
      f_equal. rewrite !len_app, len_zeros, len_enc, len_1. lia.
    + unfold validate_base. cbn [base_align]. rewrite align_offset_ok; [|lia|rewrite padlen_1; apply has_at_nil].
      2:{ pose proof (has_at_bound _ _ _ H). lia. }
      cbn [bind]. rewrite (unmarshal_signature_ok _ _ s (valid_signature_utf8 _ Hs) H). cbn [bind fst snd].
      rewrite Hs. f_equal. rewrite padlen_1, len_sig_bytes. lia.
    + destruct Hs as (Hu & Hn & Hl & Hp). destruct (has_at_app _ _ _ _ H) as [H1 H2]. rewrite len_zeros in H2.
      unfold validate_base. rewrite (align_offset_ok _ _ _ (base_align_pos BObjectPath) H1). cbn [bind].
      cbn [base_align] in *. rewrite (unmarshal_str_ok be _ _ s Hl Hu Hn H2). cbn [bind fst snd].
      rewrite (Hp eq_refl). f_equal. rewrite !len_app, len_zeros, len_enc, len_1. lia.
Qed.

Lemma u_base_ok be b v d c : wt v (TBase b) = true -> encodable be (uoff c) d v = true ->
  fds_below (unfds c) v = true ->
  has_at (ubuf c) (uoff c) (spec_enc be (uoff c) v) ->
  u_base be b c = Ok (v, set_off c (uoff c + len (spec_enc be (uoff c) v))).
Proof.
  intros Hwt He Hf H. destruct (wt_base_inv _ _ Hwt) as [(k & -> & Ht & Hk)|(s & -> & Ht)].
  - destruct (wt_base_ty _ _ _ Hwt) as (_ & _ & _ & Hbool).
    cbn [spec_enc] in *. rewrite len_app, len_zeros, len_enc, N.add_assoc.
    assert (E : u_read_fixed be (base_size b) c
                = Ok (k, set_off c (uoff c + padlen (base_align b) (uoff c) + N.of_nat (base_size b)))).
    { rewrite <- (base_size_align b Ht). apply u_read_fixed_ok; [destruct b; try discriminate Ht; cbn; auto|exact Hk|].
      rewrite (base_size_align b Ht). exact H. }
    destruct b; try discriminate Ht; unfold u_base; cbn [base_size] in *; rewrite E; cbn [bind fst snd]; try reflexivity.
    + (* fd *) cbn [fds_below] in Hf. apply N.ltb_lt in Hf.
      destruct (N.leb_spec (unfds c) k) as [|_]; [lia|reflexivity].
    + (* bool *) specialize (Hbool eq_refl). destruct (N.ltb_spec k 2) as [_|]; [reflexivity|lia].
  - pose proof (encodable_text _ _ _ _ _ Ht He) as Hs.
    destruct b; try discriminate Ht; cbn [spec_enc] in *; unfold u_base.
    + destruct Hs as (Hu & Hn & Hl & _). rewrite (u_read_str_ok be c s Hl Hu Hn H). cbn [bind fst snd].
      do 3 f_equal. rewrite !len_app, len_zeros, len_enc, len_1. lia.
    + rewrite (u_read_sig_ok c s (valid_signature_utf8 _ Hs) H). cbn [bind fst snd]. rewrite Hs.
      do 3 f_equal. rewrite len_sig_bytes. reflexivity.
    + destruct Hs as (Hu & Hn & Hl & Hp). rewrite (u_read_str_ok be c s Hl Hu Hn H). cbn [bind fst snd].
      rewrite (Hp eq_refl). do 3 f_equal. rewrite !len_app, len_zeros, len_enc, len_1. lia.
Qed.

(** ** bookkeeping tactics *)
Lemma has_at_app3 buf off x y z : has_at buf off (x ++ y ++ z) ->
  has_at buf off x /\ has_at buf (off + len x) y /\ has_at buf (off + len x + len y) z.
Proof. intros H. destruct (has_at_app _ _ _ _ H) as [H1 H2]. destruct (has_at_app _ _ _ _ H2) as [H3 H4]. auto. Qed.
Lemma has_at_app4 buf off x y z w : has_at buf off (x ++ y ++ z ++ w) ->
  has_at buf off x /\ has_at buf (off + len x) y /\ has_at buf (off + len x + len y) z
  /\ has_at buf (off + len x + len y + len z) w.
Proof. intros H. destruct (has_at_app3 _ _ _ _ _ H) as (H1 & H2 & H3). destruct (has_at_app _ _ _ _ H3) as [H4 H5]. auto. Qed.

Lemma len_enc4 be n : len (enc be 4 n) = 4. Proof. apply len_enc. Qed.
Global Hint Rewrite @len_app len_zeros len_enc4 len_sig_bytes N.add_assoc : lens.
Ltac lens := autorewrite with lens in *.
