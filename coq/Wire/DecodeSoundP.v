(** C03, part 2: the dynamic (Param) decoder is sound: whenever [unmarshal_p] returns [Ok (v, c')], the bytes it
    consumed are the specification's encoding of [v], [v] is well typed and encodable, every descriptor index in [v]
    is below the number of attached descriptors, and only the offset of the context moved. *)
From RB Require Import Base.Prelude Sig.Types Sig.Parser Sig.ParserProofs Sig.Validator Sig.ValidatorProofs
  Wire.Bytes Wire.Align Wire.Text Wire.Value Wire.SpecEnc Wire.Marshal Wire.MarshalProofs Wire.Decode Wire.Unmarshal.
From RB Require Import Wire.DecodeSoundLemmas.

(** every descriptor index in the value is below [nf] *)
Fixpoint fds_lt (nf : N) (v : val) : bool :=
  match v with
  | VBase BUnixFd k => k <? nf
  | VBase _ _ | VText _ _ => true
  | VArray _ vs | VStruct vs => forallb (fds_lt nf) vs
  | VDict _ _ kvs => forallb (fun kv => fds_lt nf (fst kv) && fds_lt nf (snd kv)) kvs
  | VVariant _ x => fds_lt nf x
  end.

(** what an [Ok] result of a value decoder started in [c] means *)
Definition decoded (be : bool) (c : uctx) (v : val) (c' : uctx) (t : ty) : Prop :=
  denotes be (udepth c) (ubuf c) (uoff c) (uoff c' - uoff c) v t
  /\ c' = set_off c (uoff c') /\ uoff c <= uoff c' /\ fds_lt (unfds c) v = true.

Lemma chain_forall {X} (R : N -> N -> X -> Prop) (Q : X -> Prop) a b xs :
  (forall p k x, R p k x -> Q x) -> chain R a b xs -> Forall Q xs.
Proof. intros H. induction 1; constructor; eauto. Qed.

(** ** base values *)
Lemma base_align_size b : is_text b = false -> base_align b = N.of_nat (base_size b).
Proof. destruct b; cbn; intros; try reflexivity; discriminate. Qed.
Lemma base_size_pos' b : is_text b = false -> (0 < base_size b)%nat.
Proof. destruct b; cbn; intros; try lia; discriminate. Qed.

Lemma u_fixed_sound be b buf off nf d0 d n c1 : bytes_ok buf ->
  u_read_fixed be (base_size b) {| ubuf := buf; uoff := off; unfds := nf; udepth := d0 |} = Ok (n, c1) ->
  is_text b = false -> (b = BBoolean -> n < 2) ->
  denotes be d buf off (uoff c1 - off) (VBase b n) (TBase b)
  /\ c1 = set_off {| ubuf := buf; uoff := off; unfds := nf; udepth := d0 |} (uoff c1) /\ off <= uoff c1.
Proof.
  intros Hb E Ht Hbool. destruct (u_read_fixed_ok _ _ _ _ _ (base_size_pos' b Ht) E) as (-> & Hl & Hz & ->).
  cbv zeta in *. cbn [ubuf uoff set_off] in *. rewrite <- (base_align_size b Ht) in *.
  split; [|split; [reflexivity|lia]].
  replace (off + padlen (base_align b) off + base_align b - off) with (padlen (base_align b) off + base_align b) by lia.
  pose proof (denotes_fixed be d buf off b Ht Hb) as Hd. cbv zeta in Hd. rewrite <- (base_align_size b Ht) in Hd.
  apply Hd; try assumption.
Qed.
Lemma u_str_sound be b buf off nf d0 d s c1 : bytes_ok buf ->
  u_read_str be {| ubuf := buf; uoff := off; unfds := nf; udepth := d0 |} = Ok (s, c1) ->
  (b = BString \/ b = BObjectPath /\ valid_path s = true) ->
  denotes be d buf off (uoff c1 - off) (VText b s) (TBase b)
  /\ c1 = set_off {| ubuf := buf; uoff := off; unfds := nf; udepth := d0 |} (uoff c1) /\ off <= uoff c1.
Proof.
  intros Hb E Hbs. unfold u_read_str in E.
  destruct (u_align 4 _) as [c0| | | |] eqn:Ea; cbn [bind] in E; try discriminate.
  destruct (u_align_ok 4 _ _ eq_refl Ea) as (-> & Hl & Hz). cbn [ubuf uoff set_off] in *.
  destruct (unmarshal_str be buf (off + padlen 4 off)) as [[k s0]| | | |] eqn:Es; cbn [bind fst snd] in E; try discriminate.
  injection E as <- <-. cbn [uoff set_off]. split; [|split; [reflexivity|lia]].
  replace (off + padlen 4 off + k - off) with (padlen 4 off + k) by lia.
  apply denotes_string; assumption.
Qed.

Lemma u_base_sound_d be b c v c' d : bytes_ok (ubuf c) -> u_base be b c = Ok (v, c') ->
  denotes be d (ubuf c) (uoff c) (uoff c' - uoff c) v (TBase b)
  /\ c' = set_off c (uoff c') /\ uoff c <= uoff c' /\ fds_lt (unfds c) v = true.
Proof.
  intros Hb. destruct c as [buf off nf d0]. cbn [ubuf] in Hb. cbn [ubuf uoff unfds udepth].
  destruct b; cbn [u_base] in *;
    try (intros H; destruct (u_read_fixed be _ _) as [[n c1]| | | |] eqn:E; cbn [bind fst snd] in H; try discriminate;
         injection H as <- <-; destruct (u_fixed_sound _ _ _ _ _ _ d _ _ Hb E eq_refl ltac:(discriminate)) as (H1 & H2 & H3); auto).
  - (* fd *)
    intros H. destruct (u_read_fixed be _ _) as [[n c1]| | | |] eqn:E; cbn [bind fst snd] in H; try discriminate.
    cbn [unfds] in H. destruct (N.leb_spec nf n) as [|Hn]; [discriminate|]. injection H as <- <-.
    destruct (u_fixed_sound _ BUnixFd _ _ _ _ d _ _ Hb E eq_refl ltac:(discriminate)) as (H1 & H2 & H3). cbn [fds_lt]. apply N.ltb_lt in Hn. auto.
  - (* string *)
    intros H. destruct (u_read_str be _) as [[s c1]| | | |] eqn:E; cbn [bind fst snd] in H; try discriminate.
    injection H as <- <-. destruct (u_str_sound _ BString _ _ _ _ d _ _ Hb E (or_introl eq_refl)) as (H1 & H2 & H3). auto.
  - (* signature *)
    intros H. unfold u_read_sig in H. cbn [ubuf uoff] in H.
    destruct (unmarshal_signature buf off) as [[k s]| | | |] eqn:Es; cbn [bind fst snd] in H; try discriminate.
    destruct (is_ok (validate_signature s)) eqn:Ev; [|discriminate]. injection H as <- <-. cbn [set_off uoff].
    destruct (unmarshal_signature_ok _ _ _ _ Es) as (_ & Hl & _).
    replace (off + k - off) with k by lia. split; [now apply denotes_signature|]. split; [reflexivity|]. split; [lia|reflexivity].
  - (* object path *)
    intros H. destruct (u_read_str be _) as [[s c1]| | | |] eqn:E; cbn [bind fst snd] in H; try discriminate.
    destruct (valid_path s) eqn:Ev; [|discriminate].
    injection H as <- <-. destruct (u_str_sound _ BObjectPath _ _ _ _ d _ _ Hb E (or_intror (conj eq_refl Ev))) as (H1 & H2 & H3). auto.
  - (* boolean *)
    intros H. destruct (u_read_fixed be _ _) as [[n c1]| | | |] eqn:E; cbn [bind fst snd] in H; try discriminate.
    destruct (N.ltb_spec n 2) as [Hn|]; [|discriminate]. injection H as <- <-.
    destruct (u_fixed_sound _ BBoolean _ _ _ _ d _ _ Hb E eq_refl (fun _ => Hn)) as (H1 & H2 & H3). auto.
Qed.
Lemma u_base_sound be b c v c' : bytes_ok (ubuf c) -> u_base be b c = Ok (v, c') -> decoded be c v c' (TBase b).
Proof. intros Hb H. exact (u_base_sound_d be b c v c' (udepth c) Hb H). Qed.

(** ** the loops *)
Lemma sub_loop_chain {A} (R : N -> N -> A -> Prop) (one : uctx -> outcome (A * uctx)) (c0 : uctx) :
  (forall c r, c = set_off c0 (uoff c) -> uoff c <= len (ubuf c0) -> one c = Ok r ->
      snd r = set_off c0 (uoff (snd r)) /\ uoff c <= uoff (snd r) <= len (ubuf c0)
      /\ R (uoff c) (uoff (snd r) - uoff c) (fst r)) ->
  forall lf c acc l, c = set_off c0 (uoff c) -> uoff c <= len (ubuf c0) -> sub_loop one lf c acc = Ok l ->
    exists xs, l = rev acc ++ xs /\ chain R (uoff c) (len (ubuf c0)) xs.
Proof.
  intros Hone. induction lf as [|lf IH]; intros c acc l Ec Hc; cbn [sub_loop]; unfold remainder_len;
    (assert (Eb : ubuf c = ubuf c0) by (rewrite Ec; reflexivity)); rewrite Eb;
    destruct (N.eqb_spec (len (ubuf c0) - uoff c) 0) as [Hz|Hnz]; try discriminate.
  - intros H. injection H as <-. exists []. rewrite app_nil_r. split; [reflexivity|].
    replace (len (ubuf c0)) with (uoff c) by lia. constructor.
  - intros H. injection H as <-. exists []. rewrite app_nil_r. split; [reflexivity|].
    replace (len (ubuf c0)) with (uoff c) by lia. constructor.
  - destruct (one c) as [r| | | |] eqn:E; cbn [bind]; try discriminate. intros H.
    destruct (Hone c r Ec Hc E) as (E1 & H1 & HR).
    destruct (IH (snd r) (fst r :: acc) l E1 ltac:(lia) H) as (xs & El & Hxs).
    exists (fst r :: xs). split; [rewrite El; cbn [rev]; now rewrite <- app_assoc|].
    econstructor; [exact HR|]. replace (uoff c + (uoff (snd r) - uoff c)) with (uoff (snd r)) by lia. exact Hxs.
Qed.

Lemma p_fields_chain (R : N -> N -> val * ty -> Prop) (one : ty -> uctx -> outcome (val * uctx)) (c0 : uctx) :
  forall ts, (forall f c x, In f ts -> c = set_off c0 (uoff c) -> uoff c <= len (ubuf c0) -> one f c = Ok x ->
      snd x = set_off c0 (uoff (snd x)) /\ uoff c <= uoff (snd x) <= len (ubuf c0)
      /\ R (uoff c) (uoff (snd x) - uoff c) (fst x, f)) ->
  forall c acc r, c = set_off c0 (uoff c) -> uoff c <= len (ubuf c0) -> p_fields one ts c acc = Ok r ->
    snd r = set_off c0 (uoff (snd r)) /\ uoff c <= uoff (snd r) <= len (ubuf c0)
    /\ exists xs, fst r = rev acc ++ map fst xs /\ map snd xs = ts /\ chain R (uoff c) (uoff (snd r)) xs.
Proof.
  induction ts as [|f ts IH]; intros Hone c acc r Ec Hc; cbn [p_fields].
  - intros H. injection H as <-. cbn [fst snd]. split; [exact Ec|]. split; [lia|].
    exists []. rewrite app_nil_r. repeat split. constructor.
  - destruct (one f c) as [x| | | |] eqn:E; cbn [bind]; try discriminate. intros H.
    destruct (Hone f c x (or_introl eq_refl) Ec Hc E) as (E1 & H1 & HR).
    destruct (IH (fun f' c' x' Hin => Hone f' c' x' (or_intror Hin)) (snd x) (fst x :: acc) r E1 ltac:(lia) H)
      as (E2 & H2 & xs & Ef & Em & Hxs).
    split; [exact E2|]. split; [lia|]. exists ((fst x, f) :: xs). cbn [map fst snd]. rewrite Em.
    split; [rewrite Ef; cbn [rev]; now rewrite <- app_assoc|]. split; [reflexivity|].
    econstructor; [exact HR|]. replace (uoff c + (uoff (snd x) - uoff c)) with (uoff (snd x)) by lia. exact Hxs.
Qed.

(** ** the theorem *)
Theorem unmarshal_p_sound be : forall vf t c v c',
  wf t = true -> tys_ok t = true -> bytes_ok (ubuf c) -> uoff c <= len (ubuf c) ->
  unmarshal_p vf be t c = Ok (v, c') -> decoded be c v c' t.
Proof.
  induction vf as [|vf IHvf]; [discriminate|].
  induction t as [b|e IHe|ts IHts|kt vt IHv|] using ty_ind'; intros c v c' Hwf Hok Hb Hc H.
  - rewrite unmarshal_p_base_eq in H. now apply u_base_sound.
  - (* array *)
    rewrite unmarshal_p_array_eq' in H. cbn [wf tys_ok] in Hwf, Hok. apply andb_prop in Hok. destruct Hok as [Hte Hoke].
    destruct (u_enter c) as [c0| | | |] eqn:Een; cbn [bind] in H; try discriminate.
    destruct (u_enter_ok _ _ Een) as [Hd ->]. destruct c as [buf off nf d]. cbn [ubuf uoff unfds udepth] in *.
    destruct (u_header be (align e) _) as [[n [s c3]]| | | |] eqn:Eh; cbn [bind fst snd] in H; try discriminate.
    apply u_header_ok in Eh; [|apply align_pos|exact Hb]. destruct Eh as (Hmax & Hz1 & En & Hz2 & Hl & Es & Ec3).
    cbv zeta in *. unfold set_off in *; cbn [ubuf uoff unfds udepth] in *.
    set (p1 := padlen 4 off) in *. set (start := off + p1 + 4) in *. set (p2 := padlen (align e) start) in *.
    destruct (sub_loop _ _ s []) as [vs| | | |] eqn:El; cbn [bind fst snd] in H; try discriminate.
    injection H as <- <-. set (cl := firstnN (start + p2 + n) buf) in *.
    assert (Lcl : len cl = start + p2 + n) by (apply len_firstnN_le; lia).
    assert (Hone : forall c r, c = set_off s (uoff c) -> uoff c <= len (ubuf s) -> unmarshal_p (S vf) be e c = Ok r ->
              snd r = set_off s (uoff (snd r)) /\ uoff c <= uoff (snd r) <= len (ubuf s)
              /\ (fun p k x => denotes be (d + 1) cl p k x e /\ fds_lt nf x = true) (uoff c) (uoff (snd r) - uoff c) (fst r)).
    { intros c r Ec Hcc Er. destruct r as [x cx]. cbn [fst snd].
      assert (Hbc : bytes_ok (ubuf c)) by (rewrite Ec; subst s; cbn [set_off ubuf]; now apply bytes_ok_firstnN).
      assert (Hcc' : uoff c <= len (ubuf c)) by (rewrite Ec at 2; subst s; cbn [set_off ubuf] in *; exact Hcc).
      destruct (IHe c x cx Hwf Hoke Hbc Hcc' Er) as (Hden & Ecx & Hle & Hfd).
      rewrite Ec in Hden, Ecx, Hfd. subst s. unfold set_off in *; cbn [ubuf uoff unfds udepth] in *.
      split; [exact Ecx|]. split; [|auto]. destruct Hden as (_ & _ & _ & Hx). lia. }
    destruct (sub_loop_chain _ _ s Hone (S (N.to_nat n)) s [] vs ltac:(subst s; reflexivity) ltac:(subst s; cbn [ubuf uoff]; lia) El)
      as (xs & Exs & Hxs). clear Hone.
    cbn [app rev] in Exs. subst xs. subst s c3. cbn [ubuf uoff] in Hxs. fold cl in Hxs. rewrite Lcl in Hxs.
    unfold decoded, u_leave. cbn [ubuf uoff unfds udepth set_off].
    replace (start + p2 + n - off) with (p1 + 4 + p2 + n) by (subst start; lia).
    split; [|split; [unfold set_off; cbn [ubuf unfds udepth]; f_equal; lia|split; [subst start; lia|]]].
    + apply denotes_array; try assumption; fold p1; fold start; fold p2.
      eapply chain_impl; [|exact Hxs]. intros p k x [Hx _]. eapply denotes_clip; exact Hx.
    + cbn [fds_lt]. apply forallb_forall. apply Forall_forall.
      eapply chain_forall; [|exact Hxs]. intros p k x [_ Hx]; exact Hx.
  - (* struct *)
    rewrite unmarshal_p_struct_eq in H. cbn [wf tys_ok] in Hwf, Hok. apply andb_prop in Hwf. destruct Hwf as [Hne Hwf].
    destruct (u_enter c) as [c0| | | |] eqn:Een; cbn [bind] in H; try discriminate.
    destruct (u_enter_ok _ _ Een) as [Hd ->]. destruct c as [buf off nf d]. cbn [ubuf uoff unfds udepth] in *.
    destruct (u_align 8 _) as [c1| | | |] eqn:Ea; cbn [bind] in H; try discriminate.
    destruct (u_align_ok 8 _ _ eq_refl Ea) as (-> & Hl & Hz). unfold set_off in *. cbn [ubuf uoff unfds udepth] in *.
    set (p := padlen 8 off) in *.
    destruct ts as [|t0 ts']; [discriminate|]. cbn [bind] in H. set (ts := t0 :: ts') in *.
    set (c1 := {| ubuf := buf; uoff := off + p; unfds := nf; udepth := d + 1 |}) in *.
    destruct (p_fields (unmarshal_p (S vf) be) ts c1 []) as [r| | | |] eqn:Ef; cbn [bind fst snd] in H; try discriminate.
    injection H as <- <-. rewrite forallb_forall in Hwf, Hok. rewrite Forall_forall in IHts.
    assert (Hone : forall f c x, In f ts -> c = set_off c1 (uoff c) -> uoff c <= len (ubuf c1) -> unmarshal_p (S vf) be f c = Ok x ->
              snd x = set_off c1 (uoff (snd x)) /\ uoff c <= uoff (snd x) <= len (ubuf c1)
              /\ (fun q k x => denotes be (d + 1) buf q k (fst x) (snd x) /\ fds_lt nf (fst x) = true) (uoff c) (uoff (snd x) - uoff c) (fst x, f)).
    { intros f c x Hin Ec Hcc Ex. destruct x as [x cx]. cbn [fst snd].
      assert (Hbc : bytes_ok (ubuf c)) by (rewrite Ec; exact Hb).
      assert (Hcc' : uoff c <= len (ubuf c)) by (rewrite Ec at 2; exact Hcc).
      destruct (IHts f Hin c x cx (Hwf f Hin) (Hok f Hin) Hbc Hcc' Ex) as (Hden & Ecx & Hle & Hfd).
      rewrite Ec in Hden, Ecx, Hfd. cbn [set_off ubuf uoff unfds udepth c1] in *.
      split; [exact Ecx|]. split; [|auto]. destruct Hden as (_ & _ & _ & Hx). lia. }
    destruct (p_fields_chain _ _ c1 ts Hone c1 [] r eq_refl ltac:(cbn [ubuf uoff c1]; lia) Ef) as (Er & Hr & xs & Exs & Em & Hxs).
    clear Hone. cbn [app rev ubuf uoff c1] in *. rewrite Exs, <- Em.
    unfold decoded, u_leave. rewrite Er. subst c1. cbn [ubuf uoff unfds udepth set_off].
    replace (uoff (snd r) - off) with (p + (uoff (snd r) - (off + p))) by lia.
    split; [|split; [unfold set_off; cbn [ubuf unfds udepth]; f_equal; lia|split; [lia|]]].
    + apply denotes_struct; try assumption; fold p.
      * intros ->. cbn in Em. discriminate.
      * lia.
      * replace (off + p + (uoff (snd r) - (off + p))) with (uoff (snd r)) by lia.
        eapply chain_impl; [|exact Hxs]. intros q k x [Hx _]. exact Hx.
    + cbn [fds_lt]. apply forallb_forall. intros x Hin. apply in_map_iff in Hin. destruct Hin as (y & <- & Hin).
      assert (HF : Forall (fun y => fds_lt nf (fst y) = true) xs) by (eapply chain_forall; [|exact Hxs]; intros q k z [_ Hz']; exact Hz').
      rewrite Forall_forall in HF. now apply HF.
  - (* dict *)
    rewrite unmarshal_p_dict_eq' in H. cbn [wf tys_ok] in Hwf, Hok. apply andb_prop in Hok. destruct Hok as [Hte Hoke].
    destruct (u_enter c) as [c0| | | |] eqn:Een; cbn [bind] in H; try discriminate.
    destruct (u_enter_ok _ _ Een) as [Hd ->]. destruct c as [buf off nf d]. cbn [ubuf uoff unfds udepth] in *.
    destruct (u_header be 8 _) as [[n [s c3]]| | | |] eqn:Eh; cbn [bind fst snd] in H; try discriminate.
    apply u_header_ok in Eh; [|reflexivity|exact Hb]. destruct Eh as (Hmax & Hz1 & En & Hz2 & Hl & Es & Ec3).
    cbv zeta in *. unfold set_off in *; cbn [ubuf uoff unfds udepth] in *.
    set (p1 := padlen 4 off) in *. set (start := off + p1 + 4) in *. set (p2 := padlen 8 start) in *.
    destruct (sub_loop _ _ s []) as [kvs| | | |] eqn:El; cbn [bind fst snd] in H; try discriminate.
    injection H as <- <-. set (cl := firstnN (start + p2 + n) buf) in *.
    assert (Lcl : len cl = start + p2 + n) by (apply len_firstnN_le; lia).
    assert (Hbcl : bytes_ok cl) by (now apply bytes_ok_firstnN).
    match type of El with sub_loop ?f _ _ _ = _ => set (one := f) in * end.
    assert (Hone : forall c r, c = set_off s (uoff c) -> uoff c <= len (ubuf s) -> one c = Ok r ->
              snd r = set_off s (uoff (snd r)) /\ uoff c <= uoff (snd r) <= len (ubuf s)
              /\ (fun p k kv => denotes_entry be (d + 1) cl kt vt p k kv /\ fds_lt nf (fst kv) && fds_lt nf (snd kv) = true)
                   (uoff c) (uoff (snd r) - uoff c) (fst r)).
    { intros c r Ec Hcc Er. unfold one in Er. destruct c as [bufc offc nfc dc]. subst s. unfold set_off in *; cbn [ubuf uoff unfds udepth] in *.
      injection Ec as -> -> ->. fold cl in Er, Hcc |- *.
      destruct (u_align 8 _) as [c1| | | |] eqn:Ea; cbn [bind] in Er; try discriminate.
      destruct (u_align_ok 8 _ _ eq_refl Ea) as (-> & Hla & Hza). unfold set_off in *; cbn [ubuf uoff unfds udepth] in *.
      destruct (u_base be kt _) as [[kv ck]| | | |] eqn:Ek; cbn [bind fst snd] in Er; try discriminate.
      apply u_base_sound in Ek; [|exact Hbcl]. destruct Ek as (Hdk & Eck & Hlk & Hfk). unfold set_off in *; cbn [ubuf uoff unfds udepth] in *.
      assert (Hck : uoff ck <= len cl) by (destruct Hdk as (_ & _ & _ & Hx); lia).
      destruct (unmarshal_p (S vf) be vt ck) as [[vv cv]| | | |] eqn:Ev; cbn [bind fst snd] in Er; try discriminate.
      injection Er as <-. cbn [fst snd]. rewrite Eck in Ev.
      apply IHv in Ev; [|exact Hwf|exact Hoke|exact Hbcl|exact Hck]. destruct Ev as (Hdv & Ecv & Hlv & Hfv).
      unfold set_off in *; cbn [ubuf uoff unfds udepth] in *.
      split; [exact Ecv|]. split; [destruct Hdv as (_ & _ & _ & Hx); lia|]. split; [|now rewrite Hfk, Hfv].
      exists (uoff ck - (offc + padlen 8 offc)), (uoff cv - uoff ck). cbn [fst snd]. split; [lia|]. split; [exact Hza|]. split; [exact Hdk|].
      replace (offc + padlen 8 offc + (uoff ck - (offc + padlen 8 offc))) with (uoff ck) by lia. exact Hdv. }
    destruct (sub_loop_chain _ _ s Hone (S (N.to_nat n)) s [] kvs ltac:(subst s; reflexivity) ltac:(subst s; cbn [ubuf uoff]; lia) El)
      as (xs & Exs & Hxs). clear Hone.
    cbn [app rev] in Exs. subst xs. subst s c3. cbn [ubuf uoff] in Hxs. fold cl in Hxs. rewrite Lcl in Hxs.
    unfold decoded, u_leave. cbn [ubuf uoff unfds udepth set_off].
    replace (start + p2 + n - off) with (p1 + 4 + p2 + n) by (subst start; lia).
    split; [|split; [unfold set_off; cbn [ubuf unfds udepth]; f_equal; lia|split; [subst start; lia|]]].
    + apply denotes_dict; try assumption; fold p1; fold start; fold p2.
      eapply chain_impl; [|exact Hxs]. intros q k [a b] [(k1 & k2 & Ek & Hz & Ha & Hbv) _].
      exists k1, k2. split; [exact Ek|]. split; [|split; eapply denotes_clip; eassumption].
      rewrite <- Hz. symmetry. apply slice_firstnN. destruct Ha as (_ & _ & _ & Hx). rewrite Lcl in Hx. lia.
    + cbn [fds_lt]. apply forallb_forall. apply Forall_forall.
      eapply chain_forall; [|exact Hxs]. intros q k x [_ Hx]; exact Hx.
  - (* variant *)
    rewrite unmarshal_p_variant_eq in H.
    destruct (u_enter c) as [c0| | | |] eqn:Een; cbn [bind] in H; try discriminate.
    destruct (u_enter_ok _ _ Een) as [Hd ->]. destruct c as [buf off nf d]. cbn [ubuf uoff unfds udepth] in *.
    unfold u_read_sig in H. cbn [ubuf uoff] in H.
    destruct (unmarshal_signature buf off) as [[k s]| | | |] eqn:Es; cbn [bind fst snd] in H; try discriminate.
    destruct (parse_description s) as [tys| | | |] eqn:Ep; cbn [bind] in H; try discriminate.
    destruct tys as [|t' [|]]; try discriminate.
    destruct (unmarshal_p vf be t' _) as [[x cx]| | | |] eqn:Ex; cbn [bind fst snd] in H; try discriminate.
    injection H as <- <-.
    destruct (unmarshal_signature_ok _ _ _ _ Es) as (_ & Hlk & _). destruct (parse_single _ _ Ep) as [_ Htok].
    apply IHvf in Ex; [|exact (type_ok_wf _ Htok)|exact (type_ok_tys_ok _ Htok)|exact Hb|exact Hlk].
    destruct Ex as (Hdx & Ecx & Hlx & Hfx). unfold set_off in *; cbn [ubuf uoff unfds udepth] in *.
    unfold decoded, u_leave. rewrite Ecx. cbn [ubuf uoff unfds udepth set_off].
    replace (uoff cx - off) with (k + (uoff cx - (off + k))) by lia.
    split; [eapply denotes_variant; eassumption|]. split; [unfold set_off; cbn [ubuf unfds udepth]; f_equal; lia|]. split; [lia|exact Hfx].
Qed.
