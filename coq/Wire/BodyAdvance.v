(** C15, the "advances by exactly the values returned" half of the parser property, with the BYTE cursor.

    Wire/BodyProofs.v shows that a failed get / getN / get_param returns the parser unchanged and that a
    successful [get] moves the signature index by the type read.  Here:
    - a successful [get], [get_n] (get2..5) or [get_param] moves BOTH cursors by exactly what it returned:
      psig_idx by the signature characters of the types, pbuf_idx by the length of the specification's
      encoding ([spec_enc], alignment padding included) of the values at that position, and the bytes it
      stepped over ARE that encoding (composition of the parser model with the decoder theorems
      unmarshal_t_sound_spec / unmarshal_p_sound_spec = C03_typed_sound / C03_param_sound);
    - a request whose i-th type differs from the i-th remaining signature (ANY slot of a multi-get) never
      yields values and leaves both cursors where they were;
    - the signature a typed push appends is the type of the value pushed once the value has the Rust type's
      D-Bus type ([wt v t]), which is what Rust's type system guarantees for push_param::<T>(v : T).
    Models: Wire/Body.v (MessageBodyParser::{get, get_mult_helper, get_param}; MarshalledMessageBody, every push).
    Specification: Wire/SpecEnc.v ([spec_enc]); position of the parser: [parser_pos] below (written from the
    property text: "the values already returned" = the types before the cursor). *)
From RB Require Import Base.Prelude Sig.Types Sig.Parser Sig.ParserProofs Sig.Validator Sig.Iter Wire.Bytes Wire.Align
  Wire.Text Wire.Value Wire.SpecEnc Wire.Marshal Wire.Relabel Wire.MarshalProofs Wire.Decode Wire.Unmarshal
  Wire.HasSig Wire.HasSigProofs Wire.Body Wire.BodyProofs.
From RB Require Import Wire.DecodeLemmas Wire.DecodeComplete Wire.DecodeSoundLemmas Wire.DecodeSound Wire.MarshalAccept.

(** ** where a parser stands *)
(* the body signature is the types [before] (already returned) followed by the types [rest] (still to come), and
   the signature index is just after [before].  [parser_at p before t after] of BodyProofs.v is
   [parser_pos p before (t :: after)]. *)
Definition parser_pos (p : parser) (before rest : list ty) : Prop :=
  bsig (pbody p) = to_str_list (before ++ rest) /\ psig_idx p = len (to_str_list before).

Lemma parser_pos_at p before t after : parser_pos p before (t :: after) <-> parser_at p before t after.
Proof. unfold parser_pos, parser_at. tauto. Qed.

(* the byte side: the buffer holds bytes and the byte index is inside it *)
Definition bytes_pos (p : parser) : Prop := bytes_ok (bbuf (pbody p)) /\ pbuf_idx p <= len (bbuf (pbody p)).

(* what a Rust type must satisfy for the decoder theorems: no unit struct, element types that can stand in a
   signature, at most 64 nested containers (variant contents included).  Every type of a validated signature has
   the first two; the third concerns what is statically inside Variant<..> *)
Definition ety_ok (e : ety) : Prop := wf (erase e) = true /\ tys_ok (erase e) = true /\ edepth e <= MAX_DEPTH.

(* the specification's encoding of values one after the other, each at the offset the previous one ended *)
Fixpoint enc_seq (be : bool) (off : N) (vs : list val) : list N :=
  match vs with
  | [] => []
  | v :: r => spec_enc be off v ++ enc_seq be (off + len (spec_enc be off v)) r
  end.

Lemma to_str_list_one t : to_str_list [t] = to_str t.
Proof. unfold to_str_list. cbn [flat_map]. apply app_nil_r. Qed.
Lemma to_str_list_cons t ts : to_str_list (t :: ts) = to_str t ++ to_str_list ts.
Proof. reflexivity. Qed.

(* at the end of the signature there is no next type *)
Lemma get_next_sig_end p before : parser_pos p before [] -> get_next_sig p = Ok None.
Proof.
  intros [Hs Hi]. unfold get_next_sig. rewrite app_nil_r in Hs. now rewrite Hs, Hi, N.leb_refl.
Qed.

(** ** get: what a successful call returns and where it leaves the parser (signature side only) *)
Lemma get_success_pos p e before rest p' v : parser_pos p before rest -> get p e = Ok (p', GVal v) ->
  exists after, rest = erase e :: after
    /\ pbody p' = pbody p /\ psig_idx p' = psig_idx p + len (to_str (erase e))
    /\ parser_pos p' (before ++ [erase e]) after
    /\ exists c, unmarshal_t 66 (bbe (pbody p)) e
                   {| ubuf := bbuf (pbody p); uoff := pbuf_idx p; unfds := bfds (pbody p); udepth := 0 |} = Ok (v, c)
                 /\ pbuf_idx p' = uoff c.
Proof.
  intros Hpos H. destruct rest as [|t after].
  - unfold get in H. rewrite (get_next_sig_end _ _ Hpos) in H. cbn [bind] in H. discriminate.
  - pose proof (proj1 (parser_pos_at _ _ _ _) Hpos) as Hat.
    unfold get in H. rewrite (get_next_sig_at _ _ _ _ Hat) in H. cbn [bind] in H.
    rewrite has_sig_exact in H. cbn [bind] in H.
    destruct (ty_eqb (erase e) t) eqn:E; cbn [negb] in H; [|discriminate].
    apply ty_eqb_eq in E. subst t.
    destruct (unmarshal_t _ _ _ _) as [[v0 c]| | | |] eqn:Eu; try discriminate.
    injection H as <- <-. exists after. cbn [pbody psig_idx pbuf_idx].
    destruct Hpos as [Hs Hi]. split; [reflexivity|]. split; [reflexivity|]. split; [reflexivity|].
    split; [split; cbn [pbody psig_idx]|exists c; split; reflexivity].
    + rewrite Hs, <- app_assoc. reflexivity.
    + rewrite to_str_list_app, len_app, to_str_list_one, Hi. reflexivity.
Qed.

(** ** (a) get: both cursors *)
Theorem get_success_advances p e before t after p' v :
  parser_at p before t after -> bytes_pos p -> ety_ok e ->
  get p e = Ok (p', GVal v) ->
  erase e = t /\ wt v t = true /\ ety_matches e v = true
  /\ pbody p' = pbody p
  /\ psig_idx p' = psig_idx p + len (to_str t)
  /\ pbuf_idx p' = pbuf_idx p + len (spec_enc (bbe (pbody p)) (pbuf_idx p) v)
  /\ slice (bbuf (pbody p)) (pbuf_idx p) (len (spec_enc (bbe (pbody p)) (pbuf_idx p) v)) = spec_enc (bbe (pbody p)) (pbuf_idx p) v
  /\ parser_pos p' (before ++ [t]) after /\ bytes_pos p'.
Proof.
  intros Hat [Hb Hoff] (Hwf & Hto & Hd) H.
  destruct (get_success_pos p e before (t :: after) p' v (proj2 (parser_pos_at _ _ _ _) Hat) H)
    as (after' & Er & Hbody & Hsig & Hpos' & c & Eu & Hbuf).
  injection Er as -> ->.
  set (c0 := {| ubuf := bbuf (pbody p); uoff := pbuf_idx p; unfds := bfds (pbody p); udepth := 0 |}) in *.
  assert (Hd0 : udepth c0 + edepth e <= MAX_DEPTH) by (cbn [udepth c0]; lia).
  destruct (unmarshal_t_sound_spec (bbe (pbody p)) 66 e c0 v c Hwf Hto (DecodeSoundT.typed_depth_ok_sum c0 e Hd0) Hb Hoff Eu)
    as (Hw & _ & Hsl & _ & Hrange & _ & _ & _ & Hm).
  cbn [ubuf uoff c0] in Hsl, Hrange.
  assert (Hlen : len (spec_enc (bbe (pbody p)) (pbuf_idx p) v) = uoff c - pbuf_idx p).
  { rewrite <- Hsl. apply len_slice. lia. }
  split; [reflexivity|]. split; [exact Hw|]. split; [exact Hm|]. split; [exact Hbody|]. split; [exact Hsig|].
  split; [rewrite Hbuf, Hlen; lia|]. split; [rewrite Hlen; exact Hsl|]. split; [exact Hpos'|].
  split; [rewrite Hbody; exact Hb|rewrite Hbody, Hbuf; lia].
Qed.

(** ** get_param: both cursors *)
Theorem get_param_success_advances p before t after p' v :
  parser_at p before t after -> bytes_pos p -> type_ok t = true ->
  get_param p = Ok (p', GVal v) ->
  wt v t = true
  /\ pbody p' = pbody p
  /\ psig_idx p' = psig_idx p + len (to_str t)
  /\ pbuf_idx p' = pbuf_idx p + len (spec_enc (bbe (pbody p)) (pbuf_idx p) v)
  /\ slice (bbuf (pbody p)) (pbuf_idx p) (len (spec_enc (bbe (pbody p)) (pbuf_idx p) v)) = spec_enc (bbe (pbody p)) (pbuf_idx p) v
  /\ parser_pos p' (before ++ [t]) after /\ bytes_pos p'.
Proof.
  intros Hat [Hb Hoff] Htok H. unfold get_param in H. rewrite (get_next_sig_at _ _ _ _ Hat) in H. cbn [bind] in H.
  rewrite (parse_description_single t Htok) in H.
  set (c0 := {| ubuf := bbuf (pbody p); uoff := pbuf_idx p; unfds := bfds (pbody p); udepth := 0 |}) in *.
  destruct (unmarshal_p 66 (bbe (pbody p)) t c0) as [[v0 c]| | | |] eqn:Eu; try discriminate.
  injection H as <- <-.
  destruct (unmarshal_p_sound_spec (bbe (pbody p)) 66 t c0 v0 c (type_ok_wf _ Htok) (type_ok_tys_ok _ Htok) Hb Hoff Eu)
    as (Hw & _ & Hsl & _ & Hrange & _).
  cbn [ubuf uoff c0] in Hsl, Hrange.
  assert (Hlen : len (spec_enc (bbe (pbody p)) (pbuf_idx p) v0) = uoff c - pbuf_idx p).
  { rewrite <- Hsl. apply len_slice. lia. }
  destruct Hat as [Hs Hi]. cbn [pbody psig_idx pbuf_idx].
  split; [exact Hw|]. split; [reflexivity|]. split; [reflexivity|].
  split; [rewrite Hlen; lia|]. split; [rewrite Hlen; exact Hsl|].
  split; [split; cbn [pbody psig_idx]|split; cbn [pbody pbuf_idx]; [exact Hb|lia]].
  - rewrite Hs, <- app_assoc. reflexivity.
  - rewrite to_str_list_app, len_app, to_str_list_one, Hi. reflexivity.
Qed.

(** ** get_n (get2 .. get5): the signature side *)
Lemma get_all_success_pos : forall es p before rest acc p' vs, parser_pos p before rest ->
  get_all p es acc = Ok (p', Some vs) ->
  exists after, rest = map erase es ++ after
    /\ pbody p' = pbody p /\ psig_idx p' = psig_idx p + len (to_str_list (map erase es))
    /\ parser_pos p' (before ++ map erase es) after.
Proof.
  induction es as [|e es IH]; intros p before rest acc p' vs Hpos H; cbn [get_all] in H.
  - injection H as <- _. exists rest. cbn [map app to_str_list flat_map]. rewrite app_nil_r.
    split; [reflexivity|]. split; [reflexivity|]. split; [now rewrite N.add_0_r|exact Hpos].
  - destruct (get p e) as [[p1 g]| | | |] eqn:Eg; cbn [bind] in H; try discriminate.
    destruct g as [v| | |]; try discriminate.
    destruct (get_success_pos p e before rest p1 v Hpos Eg) as (after1 & -> & Hb1 & Hs1 & Hpos1 & _).
    destruct (IH p1 (before ++ [erase e]) after1 (v :: acc) p' vs Hpos1 H) as (after & -> & Hb & Hs & Hpos').
    exists after. cbn [map app]. rewrite <- app_assoc in Hpos'. cbn [app] in Hpos'.
    split; [reflexivity|]. split; [now rewrite Hb, Hb1|].
    split; [rewrite Hs, Hs1, to_str_list_cons, len_app; lia|exact Hpos'].
Qed.

Lemma get_n_some p es p' vs : get_n p es = Ok (p', Some vs) -> get_all p es [] = Ok (p', Some vs).
Proof.
  unfold get_n. destruct (sigs_left p) as [n| | | |]; cbn [bind]; try discriminate.
  destruct (n <? len es); [discriminate|].
  destruct (get_all p es []) as [[p1 [vs1|]]| | | |]; cbn [bind]; try discriminate. intros H. now injection H as <- <-.
Qed.

(** ** (b) a mismatch in ANY slot of a multi-get: no values, both cursors unchanged *)
Theorem get_n_mismatch_unchanged p es before rest i e t p' r :
  parser_pos p before rest -> nth_error es i = Some e -> nth_error rest i = Some t -> erase e <> t ->
  get_n p es = Ok (p', r) -> r = None /\ p' = p.
Proof.
  intros Hpos He Ht Hne H. destruct r as [vs|].
  - exfalso. apply get_n_some in H.
    destruct (get_all_success_pos es p before rest [] p' vs Hpos H) as (after & -> & _).
    assert (Hi : (i < length (map erase es))%nat).
    { rewrite map_length. apply nth_error_Some. now rewrite He. }
    rewrite (nth_error_app1 _ _ Hi), (map_nth_error erase _ _ He) in Ht. injection Ht as <-. now elim Hne.
  - split; [reflexivity|]. exact (get_n_fail_unchanged _ _ _ H).
Qed.

(* the same for the single get, stated with the position predicate used here *)
Corollary get_mismatch_pos p e before t after : parser_pos p before (t :: after) -> erase e <> t ->
  get p e = Ok (p, GWrongSig).
Proof. intros H. apply get_mismatch with (before := before) (after := after). now apply parser_pos_at. Qed.

(** ** (a) get_n: both cursors, all k values *)
Lemma get_all_success_advances : forall es p before rest acc p' vs,
  parser_pos p before rest -> bytes_pos p -> Forall ety_ok es ->
  get_all p es acc = Ok (p', Some vs) ->
  exists vs' after, vs = rev acc ++ vs' /\ rest = map erase es ++ after
    /\ Forall2 (fun v e => wt v (erase e) = true /\ ety_matches e v = true) vs' es
    /\ pbody p' = pbody p
    /\ psig_idx p' = psig_idx p + len (to_str_list (map erase es))
    /\ pbuf_idx p' = pbuf_idx p + len (enc_seq (bbe (pbody p)) (pbuf_idx p) vs')
    /\ slice (bbuf (pbody p)) (pbuf_idx p) (len (enc_seq (bbe (pbody p)) (pbuf_idx p) vs')) = enc_seq (bbe (pbody p)) (pbuf_idx p) vs'
    /\ parser_pos p' (before ++ map erase es) after /\ bytes_pos p'.
Proof.
  induction es as [|e es IH]; intros p before rest acc p' vs Hpos Hbp Hall H; cbn [get_all] in H.
  - injection H as <- <-. exists [], rest. cbn [map app to_str_list flat_map enc_seq]. rewrite !app_nil_r.
    split; [reflexivity|]. split; [reflexivity|]. split; [constructor|]. split; [reflexivity|].
    split; [now rewrite N.add_0_r|]. split; [now rewrite N.add_0_r|]. split; [reflexivity|]. split; [exact Hpos|exact Hbp].
  - apply Forall_cons_iff in Hall. destruct Hall as [He Hall].
    destruct (get p e) as [[p1 g]| | | |] eqn:Eg; cbn [bind] in H; try discriminate.
    destruct g as [v| | |]; try discriminate.
    destruct (get_success_pos p e before rest p1 v Hpos Eg) as (after1 & -> & _).
    destruct (get_success_advances p e before (erase e) after1 p1 v (proj1 (parser_pos_at _ _ _ _) Hpos) Hbp He Eg)
      as (_ & Hw & Hm & Hb1 & Hs1 & Hbuf1 & Hsl1 & Hpos1 & Hbp1).
    destruct (IH p1 (before ++ [erase e]) after1 (v :: acc) p' vs Hpos1 Hbp1 Hall H)
      as (vs' & after & -> & -> & Hf & Hb & Hs & Hbuf & Hsl & Hpos' & Hbp').
    exists (v :: vs'), after. cbn [map app rev enc_seq]. rewrite <- app_assoc in Hpos'. cbn [app] in Hpos'.
    rewrite Hb1, Hbuf1 in Hbuf, Hsl.
    split; [rewrite <- app_assoc; reflexivity|]. split; [reflexivity|].
    split; [constructor; [split; assumption|exact Hf]|]. split; [now rewrite Hb, Hb1|].
    split; [rewrite Hs, Hs1, to_str_list_cons, len_app; lia|].
    split; [rewrite Hbuf, len_app; lia|].
    split; [rewrite len_app, slice_add, Hsl1, Hsl; reflexivity|]. split; [exact Hpos'|exact Hbp'].
Qed.

Theorem get_n_success_advances p es before rest p' vs :
  parser_pos p before rest -> bytes_pos p -> Forall ety_ok es ->
  get_n p es = Ok (p', Some vs) ->
  exists after, rest = map erase es ++ after
    /\ Forall2 (fun v e => wt v (erase e) = true /\ ety_matches e v = true) vs es
    /\ pbody p' = pbody p
    /\ psig_idx p' = psig_idx p + len (to_str_list (map erase es))
    /\ pbuf_idx p' = pbuf_idx p + len (enc_seq (bbe (pbody p)) (pbuf_idx p) vs)
    /\ slice (bbuf (pbody p)) (pbuf_idx p) (len (enc_seq (bbe (pbody p)) (pbuf_idx p) vs)) = enc_seq (bbe (pbody p)) (pbuf_idx p) vs
    /\ parser_pos p' (before ++ map erase es) after /\ bytes_pos p'.
Proof.
  intros Hpos Hbp Hall H. apply get_n_some in H.
  destruct (get_all_success_advances es p before rest [] p' vs Hpos Hbp Hall H)
    as (vs' & after & -> & Hr & Hf & Hrest). cbn [rev app]. exists after. split; [exact Hr|]. split; [exact Hf|exact Hrest].
Qed.

(** ** (c) the type named in a typed push and the value pushed *)
(* [Push (t, v)] carries the signature [t] of the Rust type T and the value; the model appends [to_str t].  In Rust
   the two cannot disagree: push_param::<T>(v : T) and T::sig_str() belong to the same T.  In the model that is the
   hypothesis [wt v t = true]; under it the signature appended is the type of the value ([ty_of v]), exactly as
   for push_old_param, so the rendering of C15_builder is the signature OF THE VALUES.  C15_builder itself does not
   need the hypothesis: it is stated for the declared [t] (what the code appends), and says that whatever type
   name a Marshal impl reports is appended unchanged and never left behind by a failing push. *)
Definition item_wt (i : item) : Prop := wt (snd i) (fst i) = true.
Definition op_wt (o : bop) : Prop :=
  match o with
  | Push i | PushVariant i => item_wt i
  | PushN l | PushParams l => Forall item_wt l
  | PushOld _ | PushOlds _ | Reset => True
  end.

(* the items an operation commits, with the signature computed from the VALUE instead of the declared type *)
Definition items_by_value (o : bop) : list citem :=
  match o with
  | Push i => [(to_str (ty_of (snd i)), snd i)]
  | PushN l | PushParams l => map (fun i => (to_str (ty_of (snd i)), snd i)) l
  | o => items_of o
  end.

Lemma items_by_value_eq o : op_wt o -> items_by_value o = items_of o.
Proof.
  destruct o as [i|l|l|i|v|l|]; cbn [op_wt items_by_value items_of]; try reflexivity.
  - intros H. unfold item_wt in H. now rewrite (wt_ty_of _ _ H).
  - intros H. apply map_ext_in. intros i Hin. rewrite Forall_forall in H. now rewrite (wt_ty_of _ _ (H i Hin)).
  - intros H. apply map_ext_in. intros i Hin. rewrite Forall_forall in H. now rewrite (wt_ty_of _ _ (H i Hin)).
Qed.

Fixpoint committed_by_value (ops : list bop) (oks : list bool) (acc : list citem) : list citem :=
  match ops, oks with
  | o :: r, ok :: oks' =>
      match o with
      | Reset => committed_by_value r oks' []
      | _ => committed_by_value r oks' (if ok then acc ++ items_by_value o else acc)
      end
  | _, _ => acc
  end.

Lemma committed_by_value_eq : forall ops oks acc, Forall op_wt ops -> committed_by_value ops oks acc = committed ops oks acc.
Proof.
  induction ops as [|o ops IH]; intros oks acc Hall; [reflexivity|]. destruct oks as [|ok oks]; [reflexivity|].
  apply Forall_cons_iff in Hall. destruct Hall as [Ho Hall]. cbn [committed_by_value committed].
  rewrite (items_by_value_eq o Ho). destruct o; apply IH; exact Hall.
Qed.

Theorem body_history_by_value be ops b oks :
  Forall op_ok ops -> Forall op_wt ops -> total_fds ops <= 2 ^ 32 ->
  run_body (new_body be) ops = (b, oks) ->
  (bsig b, bbuf b, bfds b) = render be (committed_by_value ops oks []).
Proof.
  intros Hok Hwt Hb H. rewrite (committed_by_value_eq ops oks [] Hwt). exact (body_from_new be ops b oks Hok Hb H).
Qed.

(* every committed item then carries the signature of its own value *)
Lemma committed_by_value_sigs : forall ops oks acc,
  Forall (fun it : citem => fst it = to_str (ty_of (snd it)) \/ exists t x, it = ([c_v], VVariant t x)) acc ->
  Forall (fun it : citem => fst it = to_str (ty_of (snd it)) \/ exists t x, it = ([c_v], VVariant t x)) (committed_by_value ops oks acc).
Proof.
  induction ops as [|o ops IH]; intros oks acc Hacc; [exact Hacc|]. destruct oks as [|ok oks]; [exact Hacc|].
  cbn [committed_by_value].
  assert (Hit : Forall (fun it : citem => fst it = to_str (ty_of (snd it)) \/ exists t x, it = ([c_v], VVariant t x)) (items_by_value o)).
  { destruct o as [i|l|l|i|v|l|]; cbn [items_by_value items_of].
    - constructor; [left; reflexivity|constructor].
    - apply Forall_forall. intros it Hin. apply in_map_iff in Hin. destruct Hin as (i & <- & _). left. reflexivity.
    - apply Forall_forall. intros it Hin. apply in_map_iff in Hin. destruct Hin as (i & <- & _). left. reflexivity.
    - constructor; [right; eauto|constructor].
    - constructor; [left; reflexivity|constructor].
    - apply Forall_forall. intros it Hin. apply in_map_iff in Hin. destruct Hin as (x & <- & _). left. reflexivity.
    - constructor. }
  destruct o; try (apply IH; destruct ok; [apply Forall_app; split; assumption|assumption]).
  apply IH. constructor.
Qed.
