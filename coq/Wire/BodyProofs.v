(** C15: the body builder is transactional and its content is exactly the committed pushes;
    the parser only advances on success and refuses mismatching types. *)
From RB Require Import Base.Prelude Sig.Types Sig.Parser Sig.ParserProofs Sig.Validator Sig.Iter Wire.Bytes Wire.Align Wire.Text Wire.Value
  Wire.SpecEnc Wire.Marshal Wire.Relabel Wire.MarshalProofs Wire.Decode Wire.Unmarshal Wire.HasSig Wire.HasSigProofs Wire.Body.

(** ** number of descriptor leaves *)
Fixpoint fdcount (v : val) : N :=
  match v with
  | VBase BUnixFd _ => 1
  | VBase _ _ | VText _ _ => 0
  | VArray _ vs | VStruct vs => fold_right (fun x acc => fdcount x + acc) 0 vs
  | VDict _ _ kvs => fold_right (fun kv acc => fdcount (fst kv) + fdcount (snd kv) + acc) 0 kvs
  | VVariant _ x => fdcount x
  end.

Lemma relabel_count v : forall n, snd (relabel v n) = n + fdcount v.
Proof.
  induction v as [b k|b s|t vs IH|vs IH|k vt kvs IH|t x IH] using val_ind'; intros n; cbn [relabel fdcount].
  - destruct b; cbn; lia.
  - cbn; lia.
  - assert (H : forall l m, Forall (fun v => forall n, snd (relabel v n) = n + fdcount v) l ->
                  snd (relabel_list relabel l m) = m + fold_right (fun x acc => fdcount x + acc) 0 l).
    { induction l as [|y l IHl]; intros m Hall; [cbn; lia|]. rewrite relabel_list_cons.
      apply Forall_cons_iff in Hall. destruct Hall as [Hy Hl]. specialize (Hy m).
      destruct (relabel y m) as [y' n1]. specialize (IHl n1 Hl). destruct (relabel_list relabel l n1). cbn in *. lia. }
    specialize (H vs n IH). destruct (relabel_list relabel vs n). cbn in *. exact H.
  - assert (H : forall l m, Forall (fun v => forall n, snd (relabel v n) = n + fdcount v) l ->
                  snd (relabel_list relabel l m) = m + fold_right (fun x acc => fdcount x + acc) 0 l).
    { induction l as [|y l IHl]; intros m Hall; [cbn; lia|]. rewrite relabel_list_cons.
      apply Forall_cons_iff in Hall. destruct Hall as [Hy Hl]. specialize (Hy m).
      destruct (relabel y m) as [y' n1]. specialize (IHl n1 Hl). destruct (relabel_list relabel l n1). cbn in *. lia. }
    specialize (H vs n IH). destruct (relabel_list relabel vs n). cbn in *. exact H.
  - assert (H : forall l m, Forall (fun kv => (forall n, snd (relabel (fst kv) n) = n + fdcount (fst kv))
                                              /\ (forall n, snd (relabel (snd kv) n) = n + fdcount (snd kv))) l ->
                  snd (relabel_entries relabel l m) = m + fold_right (fun kv acc => fdcount (fst kv) + fdcount (snd kv) + acc) 0 l).
    { induction l as [|[a b] l IHl]; intros m Hall; [cbn; lia|]. rewrite relabel_entries_cons.
      apply Forall_cons_iff in Hall. destruct Hall as [[Ha Hb] Hl]. cbn [fst snd] in Ha, Hb. specialize (Ha m).
      destruct (relabel a m) as [a' n1]. specialize (Hb n1). destruct (relabel b n1) as [b' n2].
      specialize (IHl n2 Hl). destruct (relabel_entries relabel l n2). cbn in *. lia. }
    specialize (H kvs n IH). destruct (relabel_entries relabel kvs n). cbn in *. exact H.
  - specialize (IH n). destruct (relabel x n). cbn in *. exact IH.
Qed.

(** ** what a body must contain: the committed items rendered by the specification *)
Definition citem := (list N * val)%type.            (* signature characters, value as handed to push *)

Definition render_step (be : bool) (st : list N * list N * N) (it : citem) : list N * list N * N :=
  let '(sg, buf, n) := st in
  let '(v', n') := relabel (snd it) n in
  (sg ++ fst it, buf ++ spec_enc be (len buf) v', n').
Definition render (be : bool) (items : list citem) : list N * list N * N :=
  fold_left (render_step be) items ([], [], 0).

Definition items_of (o : bop) : list citem :=
  match o with
  | Push i => [(to_str (fst i), snd i)]
  | PushN l | PushParams l => map (fun i => (to_str (fst i), snd i)) l
  | PushVariant i => [([c_v], VVariant (fst i) (snd i))]
  | PushOld v => [(to_str (ty_of v), v)]
  | PushOlds l => map (fun v => (to_str (ty_of v), v)) l
  | Reset => []
  end.

Fixpoint committed (ops : list bop) (oks : list bool) (acc : list citem) : list citem :=
  match ops, oks with
  | o :: r, ok :: oks' =>
      match o with
      | Reset => committed r oks' []
      | _ => committed r oks' (if ok then acc ++ items_of o else acc)
      end
  | _, _ => acc
  end.

Definition citem_ok (it : citem) : Prop := typed (snd it) /\ strings_small (snd it) = true.
Definition op_ok (o : bop) : Prop := Forall citem_ok (items_of o).
Definition total_fds (ops : list bop) : N :=
  fold_right (fun o acc => fold_right (fun it a => fdcount (snd it) + a) 0 (items_of o) + acc) 0 ops.

Definition represents (be : bool) (b : body) (items : list citem) : Prop :=
  bbe b = be /\ (bsig b, bbuf b, bfds b) = render be items.

Lemma render_snoc be items it : render be (items ++ [it]) = render_step be (render be items) it.
Proof. unfold render. now rewrite fold_left_app. Qed.
Lemma render_app be items more : render be (items ++ more) = fold_left (render_step be) more (render be items).
Proof. unfold render. now rewrite fold_left_app. Qed.

Lemma render_fds_le be items : snd (render be items) = fold_right (fun it a => fdcount (snd it) + a) 0 items.
Proof.
  induction items as [|it items IH] using rev_ind; [reflexivity|].
  rewrite render_snoc. destruct (render be items) as [[sg buf] n]. cbn [snd] in IH. unfold render_step.
  pose proof (relabel_count (snd it) n) as Hc. destruct (relabel (snd it) n) as [v' n']. cbn [snd] in *.
  rewrite Hc, IH. rewrite fold_right_app. cbn [fold_right].
  generalize (fdcount (snd it)). clear. induction items as [|x xs IHx]; intros k; cbn [fold_right]; [lia|]. rewrite <- IHx. lia.
Qed.

(** a successful typed push appends the item *)
Lemma push_inner_ok be b items i b' : represents be b items -> citem_ok (to_str (fst i), snd i) ->
  snd (render be (items ++ [(to_str (fst i), snd i)])) <= 2 ^ 32 ->
  push_inner b i = (b', true) -> represents be b' (items ++ [(to_str (fst i), snd i)]).
Proof.
  intros [Hbe Hr] [Hty Hss] Hb H. unfold push_inner in H. cbn [snd fst] in *.
  destruct (marshal_t (bbe b) (snd i) {| mbuf := bbuf b; mfds := bfds b |}) as [c [|]] eqn:Em; [|discriminate].
  injection H as <-. split; [exact Hbe|]. cbn [bbe bsig bbuf bfds].
  rewrite render_snoc in Hb |- *. rewrite <- Hr in Hb |- *. unfold render_step in Hb |- *. cbn [fst snd] in *.
  rewrite Hbe in Em.
  destruct (marshal_t_spec be (snd i) Hty Hss _ _ Em) as [E1 E2]; cbn [mbuf mfds] in *.
  { destruct (relabel (snd i) (bfds b)); exact Hb. }
  destruct (relabel (snd i) (bfds b)) as [v' n']. cbn [fst snd] in *. now rewrite E1, E2.
Qed.
