(** C15: the body builder is transactional and its content is exactly the committed pushes;
    the parser only advances on success and refuses mismatching types. *)
From RB Require Import Base.Prelude Sig.Types Sig.Parser Sig.ParserProofs Sig.Validator Sig.Iter Wire.Bytes Wire.Align Wire.Text Wire.Value
  Wire.SpecEnc Wire.Marshal Wire.Relabel Wire.MarshalProofs Wire.Decode Wire.Unmarshal Wire.HasSig Wire.HasSigProofs Wire.Body.

(** ** number of descriptor leaves *)
Fixpoint fdcount (v : val) : N :=
  match v with
  | VBase BUnixFd _ => 1
  | VBase _ _ | VText _ _ => 0
  | VArray _ vs | VStruct vs => fold_right (fun x acc => fdcount x + acc) 0 vs
  | VDict _ _ kvs => fold_right (fun kv acc => fdcount (fst kv) + fdcount (snd kv) + acc) 0 kvs
  | VVariant _ x => fdcount x
  end.

Lemma relabel_count v : forall n, snd (relabel v n) = n + fdcount v.
Proof.
  induction v as [b k|b s|t vs IH|vs IH|k vt kvs IH|t x IH] using val_ind'; intros n; cbn [relabel fdcount].
  - destruct b; cbn; lia.
  - cbn; lia.
  - assert (H : forall l m, Forall (fun v => forall n, snd (relabel v n) = n + fdcount v) l ->
                  snd (relabel_list relabel l m) = m + fold_right (fun x acc => fdcount x + acc) 0 l).
    { induction l as [|y l IHl]; intros m Hall; [cbn; lia|]. rewrite relabel_list_cons.
      apply Forall_cons_iff in Hall. destruct Hall as [Hy Hl]. specialize (Hy m).
      destruct (relabel y m) as [y' n1]. specialize (IHl n1 Hl). destruct (relabel_list relabel l n1). cbn in *. lia. }
    specialize (H vs n IH). destruct (relabel_list relabel vs n). cbn in *. exact H.
  - assert (H : forall l m, Forall (fun v => forall n, snd (relabel v n) = n + fdcount v) l ->
                  snd (relabel_list relabel l m) = m + fold_right (fun x acc => fdcount x + acc) 0 l).
    { induction l as [|y l IHl]; intros m Hall; [cbn; lia|]. rewrite relabel_list_cons.
      apply Forall_cons_iff in Hall. destruct Hall as [Hy Hl]. specialize (Hy m).
      destruct (relabel y m) as [y' n1]. specialize (IHl n1 Hl). destruct (relabel_list relabel l n1). cbn in *. lia. }
    specialize (H vs n IH). destruct (relabel_list relabel vs n). cbn in *. exact H.
  - assert (H : forall l m, Forall (fun kv => (forall n, snd (relabel (fst kv) n) = n + fdcount (fst kv))
                                              /\ (forall n, snd (relabel (snd kv) n) = n + fdcount (snd kv))) l ->
                  snd (relabel_entries relabel l m) = m + fold_right (fun kv acc => fdcount (fst kv) + fdcount (snd kv) + acc) 0 l).
    { induction l as [|[a b] l IHl]; intros m Hall; [cbn; lia|]. rewrite relabel_entries_cons.
      apply Forall_cons_iff in Hall. destruct Hall as [[Ha Hb] Hl]. cbn [fst snd] in Ha, Hb. specialize (Ha m).
      destruct (relabel a m) as [a' n1]. specialize (Hb n1). destruct (relabel b n1) as [b' n2].
      specialize (IHl n2 Hl). destruct (relabel_entries relabel l n2). cbn in *. lia. }
    specialize (H kvs n IH). destruct (relabel_entries relabel kvs n). cbn in *. exact H.
  - specialize (IH n). destruct (relabel x n). cbn in *. exact IH.
Qed.

(** ** what a body must contain: the committed items rendered by the specification *)
Definition citem := (list N * val)%type.            (* signature characters, value as handed to push *)

Definition render_step (be : bool) (st : list N * list N * N) (it : citem) : list N * list N * N :=
  let '(sg, buf, n) := st in
  let '(v', n') := relabel (snd it) n in
  (sg ++ fst it, buf ++ spec_enc be (len buf) v', n').
Definition render (be : bool) (items : list citem) : list N * list N * N :=
  fold_left (render_step be) items ([], [], 0).

Definition items_of (o : bop) : list citem :=
  match o with
  | Push i => [(to_str (fst i), snd i)]
  | PushN l | PushParams l => map (fun i => (to_str (fst i), snd i)) l
  | PushVariant i => [([c_v], VVariant (fst i) (snd i))]
  | PushOld v => [(to_str (ty_of v), v)]
  | PushOlds l => map (fun v => (to_str (ty_of v), v)) l
  | Reset => []
  end.

Fixpoint committed (ops : list bop) (oks : list bool) (acc : list citem) : list citem :=
  match ops, oks with
  | o :: r, ok :: oks' =>
      match o with
      | Reset => committed r oks' []
      | _ => committed r oks' (if ok then acc ++ items_of o else acc)
      end
  | _, _ => acc
  end.

Definition citem_ok (it : citem) : Prop := typed (snd it) /\ strings_small (snd it) = true.
Definition op_ok (o : bop) : Prop := Forall citem_ok (items_of o).
Definition total_fds (ops : list bop) : N :=
  fold_right (fun o acc => fold_right (fun it a => fdcount (snd it) + a) 0 (items_of o) + acc) 0 ops.

Definition represents (be : bool) (b : body) (items : list citem) : Prop :=
  bbe b = be /\ (bsig b, bbuf b, bfds b) = render be items.

Lemma render_snoc be items it : render be (items ++ [it]) = render_step be (render be items) it.
Proof. unfold render. now rewrite fold_left_app. Qed.
Lemma render_app be items more : render be (items ++ more) = fold_left (render_step be) more (render be items).
Proof. unfold render. now rewrite fold_left_app. Qed.

Lemma render_fds_le be items : snd (render be items) = fold_right (fun it a => fdcount (snd it) + a) 0 items.
Proof.
  induction items as [|it items IH] using rev_ind; [reflexivity|].
  rewrite render_snoc. destruct (render be items) as [[sg buf] n]. cbn [snd] in IH. unfold render_step.
  pose proof (relabel_count (snd it) n) as Hc. destruct (relabel (snd it) n) as [v' n']. cbn [snd] in *.
  rewrite Hc, IH. rewrite fold_right_app. cbn [fold_right].
  generalize (fdcount (snd it)). clear. induction items as [|x xs IHx]; intros k; cbn [fold_right]; [lia|]. rewrite <- IHx. lia.
Qed.

(** a successful typed push appends the item *)
Lemma push_inner_ok be b items i b' : represents be b items -> citem_ok (to_str (fst i), snd i) ->
  snd (render be (items ++ [(to_str (fst i), snd i)])) <= 2 ^ 32 ->
  push_inner b i = (b', true) -> represents be b' (items ++ [(to_str (fst i), snd i)]).
Proof.
  intros [Hbe Hr] [Hty Hss] Hb H. unfold push_inner in H. cbn [snd fst] in *.
  destruct (marshal_t (bbe b) (snd i) {| mbuf := bbuf b; mfds := bfds b |}) as [c [|]] eqn:Em; [|discriminate].
  injection H as <-. split; [exact Hbe|]. cbn [bbe bsig bbuf bfds].
  rewrite render_snoc in Hb |- *. rewrite <- Hr in Hb |- *. unfold render_step in Hb |- *. cbn [fst snd] in *.
  rewrite Hbe in Em.
  destruct (marshal_t_spec be (snd i) Hty Hss _ _ Em) as [E1 E2]; cbn [mbuf mfds] in *.
  { destruct (relabel (snd i) (bfds b)); exact Hb. }
  destruct (relabel (snd i) (bfds b)) as [v' n']. cbn [fst snd] in *. now rewrite E1, E2.
Qed.

Definition fds_of (items : list citem) : N := fold_right (fun it a => fdcount (snd it) + a) 0 items.
Lemma fds_of_app a b : fds_of (a ++ b) = fds_of a + fds_of b.
Proof. unfold fds_of. induction a as [|x a IH]; cbn [app fold_right]; [lia|]. rewrite IH. lia. Qed.

Lemma helper_spec b f b' ok : helper b f = (b', ok) ->
  (ok = true /\ f b = (b', true)) \/ (ok = false /\ b' = b).
Proof. unfold helper. destruct (f b) as [b1 [|]]; intros H; injection H as <- <-; [left|right]; auto. Qed.

Lemma push_param_spec be b items i b' ok : represents be b items -> citem_ok (to_str (fst i), snd i) ->
  fds_of items + fdcount (snd i) <= 2 ^ 32 ->
  push_param b i = (b', ok) ->
  if ok then represents be b' (items ++ [(to_str (fst i), snd i)]) else b' = b.
Proof.
  intros Hr Hok Hb H. unfold push_param in H. apply helper_spec in H. destruct H as [[-> H]|[-> ->]]; [|reflexivity].
  eapply push_inner_ok; try eassumption. rewrite render_fds_le. change (fold_right _ 0 ?l) with (fds_of l).
  rewrite fds_of_app. cbn. lia.
Qed.

Lemma push_all_spec be : forall l b items b' ok, represents be b items ->
  Forall (fun i => citem_ok (to_str (fst i), snd i)) l ->
  fds_of items + fds_of (map (fun i => (to_str (fst i), snd i)) l) <= 2 ^ 32 ->
  push_all push_param b l = (b', ok) ->
  ok = true -> represents be b' (items ++ map (fun i => (to_str (fst i), snd i)) l).
Proof.
  induction l as [|i l IH]; intros b items b' ok Hr Hall Hb H Hok.
  - cbn in H. injection H as <- _. cbn. now rewrite app_nil_r.
  - apply Forall_cons_iff in Hall. destruct Hall as [Hi Hl]. cbn [push_all] in H.
    destruct (push_param b i) as [b1 ok1] eqn:E1. cbn [map] in Hb. cbn [fds_of fold_right snd] in Hb. fold (fds_of (map (fun i0 => (to_str (fst i0), snd i0)) l)) in Hb.
    pose proof (push_param_spec be b items i b1 ok1 Hr Hi ltac:(lia) E1) as Hs.
    destruct ok1; [|injection H as _ <-; discriminate].
    cbn [map]. replace (items ++ (to_str (fst i), snd i) :: map (fun i0 => (to_str (fst i0), snd i0)) l)
      with ((items ++ [(to_str (fst i), snd i)]) ++ map (fun i0 => (to_str (fst i0), snd i0)) l) by (now rewrite <- app_assoc).
    eapply IH; try eassumption. rewrite fds_of_app. cbn. lia.
Qed.

Lemma push_variant_spec be b items i b' ok : represents be b items ->
  citem_ok ([c_v], VVariant (fst i) (snd i)) ->
  fds_of items + fdcount (snd i) <= 2 ^ 32 ->
  push_variant b i = (b', ok) ->
  if ok then represents be b' (items ++ [([c_v], VVariant (fst i) (snd i))]) else b' = b.
Proof.
  intros [Hbe Hr] [Hty Hss] Hb H. unfold push_variant in H. apply helper_spec in H. destruct H as [[-> H]|[-> ->]]; [|reflexivity].
  destruct (marshal_t (bbe b) (VVariant (fst i) (snd i)) {| mbuf := bbuf b; mfds := bfds b |}) as [c ok] eqn:Em.
  injection H as <- ->. split; [exact Hbe|]. cbn [bbe bsig bbuf bfds].
  rewrite render_snoc. rewrite <- Hr. unfold render_step. cbn [fst snd].
  rewrite Hbe in Em. cbn [snd] in Hty, Hss.
  destruct (marshal_t_spec be _ Hty Hss _ _ Em) as [E1 E2]; cbn [mbuf mfds] in *.
  { rewrite relabel_count. cbn [fdcount].
    assert (bfds b = fds_of items).
    { pose proof (render_fds_le be items) as Hf. rewrite <- Hr in Hf. cbn [snd] in Hf. exact Hf. }
    lia. }
  destruct (relabel (VVariant (fst i) (snd i)) (bfds b)) as [v' n']. cbn [fst snd] in *. now rewrite E1, E2.
Qed.

Lemma push_old_param_spec be b items v b' ok : represents be b items -> citem_ok (to_str (ty_of v), v) ->
  fds_of items + fdcount v <= 2 ^ 32 ->
  push_old_param b v = (b', ok) ->
  if ok then represents be b' (items ++ [(to_str (ty_of v), v)]) else b' = b.
Proof.
  intros [Hbe Hr] [Hty Hss] Hb H. unfold push_old_param in H. apply helper_spec in H. destruct H as [[-> H]|[-> ->]]; [|reflexivity].
  unfold push_old_inner in H.
  destruct (marshal_param_top (bbe b) v {| mbuf := bbuf b; mfds := bfds b |}) as [c [|]] eqn:Em; [|discriminate].
  apply marshal_param_top_ok in Em. destruct Em as [_ Em].
  injection H as <-. split; [exact Hbe|]. cbn [bbe bsig bbuf bfds].
  rewrite render_snoc. rewrite <- Hr. unfold render_step. cbn [fst snd] in *.
  rewrite Hbe in Em.
  destruct (marshal_p_spec be _ Hty Hss 0 _ _ Em) as [E1 E2]; cbn [mbuf mfds] in *.
  { rewrite relabel_count.
    assert (bfds b = fds_of items).
    { pose proof (render_fds_le be items) as Hf. rewrite <- Hr in Hf. cbn [snd] in Hf. exact Hf. }
    lia. }
  destruct (relabel v (bfds b)) as [v' n']. cbn [fst snd] in *. now rewrite E1, E2.
Qed.

Lemma push_olds_spec be : forall l b items b' ok, represents be b items ->
  Forall (fun v => citem_ok (to_str (ty_of v), v)) l ->
  fds_of items + fds_of (map (fun v => (to_str (ty_of v), v)) l) <= 2 ^ 32 ->
  push_olds b l = (b', ok) ->
  ok = true -> represents be b' (items ++ map (fun v => (to_str (ty_of v), v)) l).
Proof.
  induction l as [|v l IH]; intros b items b' ok Hr Hall Hb H Hok.
  - cbn in H. injection H as <- _. cbn. now rewrite app_nil_r.
  - apply Forall_cons_iff in Hall. destruct Hall as [Hi Hl]. cbn [push_olds] in H.
    destruct (push_old_param b v) as [b1 ok1] eqn:E1. cbn [map] in Hb. cbn [fds_of fold_right snd] in Hb.
    fold (fds_of (map (fun v0 => (to_str (ty_of v0), v0)) l)) in Hb.
    pose proof (push_old_param_spec be b items v b1 ok1 Hr Hi ltac:(lia) E1) as Hs.
    destruct ok1; [|injection H as _ <-; discriminate].
    cbn [map]. replace (items ++ (to_str (ty_of v), v) :: map (fun v0 => (to_str (ty_of v0), v0)) l)
      with ((items ++ [(to_str (ty_of v), v)]) ++ map (fun v0 => (to_str (ty_of v0), v0)) l) by (now rewrite <- app_assoc).
    eapply IH; try eassumption. rewrite fds_of_app. cbn. lia.
Qed.

(** one operation *)
Lemma step_body_spec be b items o b' ok : represents be b items -> op_ok o ->
  fds_of items + fds_of (items_of o) <= 2 ^ 32 ->
  step_body b o = (b', ok) ->
  match o with
  | Reset => represents be b' []
  | _ => if ok then represents be b' (items ++ items_of o) else b' = b
  end.
Proof.
  intros Hr Hop Hb H. unfold op_ok in Hop. destruct o as [i|l|l|i|v|l|]; cbn [step_body items_of] in *.
  - apply Forall_cons_iff in Hop. destruct Hop as [Hi _]. eapply push_param_spec; try eassumption. cbn in Hb. lia.
  - apply helper_spec in H. destruct H as [[-> H]|[-> ->]]; [|reflexivity].
    eapply push_all_spec; try eassumption; [|reflexivity].
    apply Forall_forall. intros i Hin. rewrite Forall_forall in Hop. apply Hop. exact (in_map (fun i0 : item => (to_str (fst i0), snd i0)) l i Hin).
  - apply helper_spec in H. destruct H as [[-> H]|[-> ->]]; [|reflexivity].
    eapply push_all_spec; try eassumption; [|reflexivity].
    apply Forall_forall. intros i Hin. rewrite Forall_forall in Hop. apply Hop. exact (in_map (fun i0 : item => (to_str (fst i0), snd i0)) l i Hin).
  - apply Forall_cons_iff in Hop. destruct Hop as [Hi _]. eapply push_variant_spec; try eassumption. cbn in Hb. cbn [fdcount] in Hb. lia.
  - apply Forall_cons_iff in Hop. destruct Hop as [Hi _]. eapply push_old_param_spec; try eassumption. cbn in Hb. lia.
  - apply helper_spec in H. destruct H as [[-> H]|[-> ->]]; [|reflexivity].
    eapply push_olds_spec; try eassumption; [|reflexivity].
    apply Forall_forall. intros v Hin. rewrite Forall_forall in Hop. apply Hop. exact (in_map (fun v0 : val => (to_str (ty_of v0), v0)) l v Hin).
  - injection H as <- _. destruct Hr as [Hbe _]. split; [exact Hbe|reflexivity].
Qed.

(** any history *)
Theorem body_history be : forall ops b items b' oks,
  represents be b items -> Forall op_ok ops ->
  fds_of items + total_fds ops <= 2 ^ 32 ->
  run_body b ops = (b', oks) ->
  represents be b' (committed ops oks items) /\ length oks = length ops.
Proof.
  induction ops as [|o ops IH]; intros b items b' oks Hr Hall Hb H.
  - cbn in H. injection H as <- <-. cbn. auto.
  - apply Forall_cons_iff in Hall. destruct Hall as [Ho Hops]. cbn [run_body] in H.
    destruct (step_body b o) as [b1 ok] eqn:E1. destruct (run_body b1 ops) as [b2 oks'] eqn:E2.
    injection H as <- <-. cbn [total_fds fold_right] in Hb. fold (total_fds ops) in Hb. fold (fds_of (items_of o)) in Hb.
    pose proof (step_body_spec be b items o b1 ok Hr Ho ltac:(lia) E1) as Hs.
    assert (Hnr : (o = Reset /\ represents be b1 []) \/
                  (committed (o :: ops) (ok :: oks') items = committed ops oks' (if ok then items ++ items_of o else items)
                   /\ (if ok then represents be b1 (items ++ items_of o) else b1 = b))).
    { destruct o; try (right; split; [reflexivity|exact Hs]). left. auto. }
    cbn [length]. destruct Hnr as [[-> Hs']|[Ec Hs']].
    + cbn [committed]. destruct (IH b1 [] b2 oks' Hs' Hops ltac:(cbn; lia) E2) as [Hf Hl]. split; [exact Hf|now rewrite Hl].
    + rewrite Ec. destruct ok.
      * destruct (IH b1 _ b2 oks' Hs' Hops ltac:(rewrite fds_of_app; lia) E2) as [Hf Hl]. split; [exact Hf|now rewrite Hl].
      * subst b1. destruct (IH b _ b2 oks' Hr Hops ltac:(lia) E2) as [Hf Hl]. split; [exact Hf|now rewrite Hl].
Qed.

Corollary body_from_new be ops b' oks : Forall op_ok ops -> total_fds ops <= 2 ^ 32 ->
  run_body (new_body be) ops = (b', oks) ->
  (bsig b', bbuf b', bfds b') = render be (committed ops oks []).
Proof.
  intros Hall Hb H.
  assert (R0 : represents be (new_body be) []) by (split; reflexivity).
  assert (B0 : fds_of [] + total_fds ops <= 2 ^ 32) by (cbn; lia).
  destruct (body_history be ops (new_body be) [] b' oks R0 Hall B0 H) as [[_ Hr] _]. exact Hr.
Qed.

(** a failed operation leaves no trace; reset leaves nothing attached *)
Lemma step_fail_unchanged b o b' : step_body b o = (b', false) -> b' = b.
Proof.
  destruct o as [i|l|l|i|v|l|]; cbn [step_body]; intros H;
    try (apply helper_spec in H; destruct H as [[E _]|[_ ->]]; [discriminate|reflexivity]).
  - unfold push_param in H. apply helper_spec in H. destruct H as [[E _]|[_ ->]]; [discriminate|reflexivity].
  - unfold push_variant in H. apply helper_spec in H. destruct H as [[E _]|[_ ->]]; [discriminate|reflexivity].
  - unfold push_old_param in H. apply helper_spec in H. destruct H as [[E _]|[_ ->]]; [discriminate|reflexivity].
  - discriminate.
Qed.
Lemma step_reset_empty b : fst (step_body b Reset) = {| bbe := bbe b; bsig := []; bbuf := []; bfds := 0 |}.
Proof. reflexivity. Qed.

(** ** the parser *)
Lemma get_fail_unchanged p e p' r : get p e = Ok (p', r) -> (forall v, r <> GVal v) -> p' = p.
Proof.
  unfold get. destruct (get_next_sig p) as [[s|]| | | |]; cbn [bind]; try discriminate.
  - destruct (has_sig e s) as [hs| | | |]; cbn [bind]; try discriminate.
    destruct (negb hs); [intros H _; now injection H as <- _|].
    destruct (unmarshal_t _ _ _ _) as [[v c]| | | |]; try discriminate; intros H Hr; injection H as <- <-;
      [now elim (Hr v)|reflexivity].
  - intros H _. now injection H as <- _.
Qed.

Lemma get_param_fail_unchanged p p' r : get_param p = Ok (p', r) -> (forall v, r <> GVal v) -> p' = p.
Proof.
  unfold get_param. destruct (get_next_sig p) as [[s|]| | | |]; cbn [bind]; try discriminate.
  - destruct (parse_description s) as [[|t ts]| | | |]; try discriminate.
    + destruct (unmarshal_p _ _ _ _) as [[v c]| | | |]; try discriminate; intros H Hr; injection H as <- <-;
        [now elim (Hr v)|reflexivity].
    + intros H _. now injection H as <- _.
  - intros H _. now injection H as <- _.
Qed.

Lemma get_n_fail_unchanged p es p' : get_n p es = Ok (p', None) -> p' = p.
Proof.
  unfold get_n. destruct (sigs_left p) as [n| | | |]; cbn [bind]; try discriminate.
  destruct (n <? len es); [intros H; now injection H as <-|].
  destruct (get_all p es []) as [[p1 [vs|]]| | | |]; cbn [bind]; try discriminate; intros H; now injection H as <-.
Qed.

(* where the parser stands: after the first k types of the body signature *)
Definition parser_at (p : parser) (before : list ty) (t : ty) (after : list ty) : Prop :=
  bsig (pbody p) = to_str_list (before ++ t :: after) /\ psig_idx p = len (to_str_list before).

Lemma to_str_list_app a b : to_str_list (a ++ b) = to_str_list a ++ to_str_list b.
Proof. unfold to_str_list. apply flat_map_app. Qed.

Lemma get_next_sig_at p before t after : parser_at p before t after -> get_next_sig p = Ok (Some (to_str t)).
Proof.
  intros [Hs Hi]. unfold get_next_sig. rewrite Hs, Hi, to_str_list_app, len_app.
  assert (Hpos : 0 < len (to_str_list (t :: after))).
  { unfold to_str_list. cbn [flat_map]. rewrite len_app. destruct (to_str_nonempty t) as (? & ? & ->). rewrite len_cons. lia. }
  destruct (N.leb_spec (len (to_str_list before) + len (to_str_list (t :: after))) (len (to_str_list before))) as [|_]; [lia|].
  rewrite skipnN_app_len. unfold to_str_list at 1. cbn [flat_map]. fold (to_str_list after).
  pose proof (sig_next_type t (to_str_list after)) as Hn. unfold sig_next in Hn. rewrite Hn. reflexivity.
Qed.

Lemma ty_eqb_eq a : forall b, ty_eqb a b = true -> a = b.
Proof.
  induction a as [x|e IHe|ts IHts|k v IHv|] using ty_ind'; intros b H; destruct b as [y|e'|ts'|k' v'|]; try discriminate H; cbn [ty_eqb] in H.
  - f_equal. now destruct (base_eqb_spec x y).
  - f_equal. now apply IHe.
  - f_equal. revert ts' H. induction ts as [|t ts IH]; intros [|t' ts'] H; try discriminate; [reflexivity|].
    apply andb_prop in H. destruct H as [H1 H2]. apply Forall_cons_iff in IHts. destruct IHts as [Ht Hts].
    f_equal; [now apply Ht|now apply IH].
  - apply andb_prop in H. destruct H as [H1 H2]. f_equal; [now destruct (base_eqb_spec k k')|now apply IHv].
  - reflexivity.
Qed.

(* requesting a type that does not match the next signature is an error, never a misread *)
Theorem get_mismatch p e before t after : parser_at p before t after -> erase e <> t ->
  get p e = Ok (p, GWrongSig).
Proof.
  intros Hat Hne. unfold get. rewrite (get_next_sig_at _ _ _ _ Hat). cbn [bind]. rewrite has_sig_exact. cbn [bind].
  destruct (ty_eqb (erase e) t) eqn:E; [|reflexivity]. apply ty_eqb_eq in E. now elim Hne.
Qed.

(* a successful get advances the signature index by exactly the type read *)
Theorem get_success_sig p e before t after p' v : parser_at p before t after ->
  get p e = Ok (p', GVal v) ->
  erase e = t /\ psig_idx p' = psig_idx p + len (to_str t) /\ pbody p' = pbody p.
Proof.
  intros Hat H. unfold get in H. rewrite (get_next_sig_at _ _ _ _ Hat) in H. cbn [bind] in H.
  rewrite has_sig_exact in H. cbn [bind] in H.
  destruct (ty_eqb (erase e) t) eqn:E; cbn [negb] in H; [|discriminate].
  apply ty_eqb_eq in E.
  destruct (unmarshal_t _ _ _ _) as [[v0 c]| | | |]; try discriminate. injection H as <- _. cbn. auto.
Qed.
