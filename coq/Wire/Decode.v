(** Models of the three decoders (after the fix: commits):
    - raw validation: rustbus/src/wire/validate_raw.rs
    - typed unmarshalling: wire/unmarshal/traits/{base,container}.rs, wire/unmarshal_context.rs
    - dynamic (Param) unmarshalling: wire/unmarshal/param/{base,container}.rs
    and of the helpers in wire/util.rs they share (align_offset, parse_u32, unmarshal_str,
    unmarshal_signature, check_array_len).
    Termination structure: the outer recursion is on [vf], a budget for entering variants (the
    code's own nesting limit of 64 makes 65 enough), the inner recursion is structural on the
    type, element loops run on a byte budget. *)
From RB Require Import Base.Prelude Sig.Types Sig.Parser Sig.Validator Wire.Bytes Wire.Align Wire.Text Wire.Value Wire.SpecEnc.

Definition slice (buf : list N) (from n : N) : list N := firstnN n (skipnN from buf).

(* util::align_offset(align_to, buf, offset): number of padding bytes, which must be zero *)
Definition align_offset (a : N) (buf : list N) (offset : N) : outcome N :=
  if len buf <? offset then Panic                         (* buf[offset..] *)
  else
    let p := pad_amount a offset in
    if len buf - offset <? p then Err
    else if forallb (N.eqb 0) (slice buf offset p) then Ok p else Err.

(* util::parse_u32 on buf[offset..] *)
Definition parse_u32_at (be : bool) (buf : list N) (offset : N) : outcome N :=
  if len buf <? offset then Panic
  else if len buf - offset <? 4 then Err
  else Ok (dec be (slice buf offset 4)).

(* util::check_array_len *)
Definition check_array_len (n : N) : outcome N := if MAX_ARRAY <? n then Err else Ok n.

(* util::unmarshal_str on buf[offset..]: (bytes used, string bytes) *)
Definition unmarshal_str (be : bool) (buf : list N) (offset : N) : outcome (N * list N) :=
  do n <- parse_u32_at be buf offset;
  if len buf - offset <? n + 5 then Err
  else
    let s := slice buf (offset + 4) n in
    if negb (utf8_valid s) then Err
    else if has_nul s then Err
    else match nthN buf (offset + 4 + n) with
         | Some 0 => Ok (n + 5, s)
         | Some _ => Err                                   (* MissingNulTerminator *)
         | None => Panic
         end.

(* util::unmarshal_signature on buf[offset..] *)
Definition unmarshal_signature (buf : list N) (offset : N) : outcome (N * list N) :=
  if len buf <? offset then Panic
  else match nthN buf offset with
       | None => Err                                       (* empty *)
       | Some n =>
           if len buf - offset <? n + 2 then Err
           else
             let s := slice buf (offset + 1) n in
             if negb (utf8_valid s) then Err
             else match nthN buf (offset + n + 1) with
                  | Some 0 => Ok (n + 2, s)
                  | Some _ => Err
                  | None => Panic
                  end
       end.

(* Base::bytes_always_valid *)
Definition bytes_always_valid (t : ty) : bool :=
  match t with
  | TBase (BByte | BInt16 | BUint16 | BUint32 | BInt64 | BUint64 | BUnixFd | BDouble) => true
  | _ => false
  end.

(** ** raw validation *)
(* validate_marshalled_base *)
Definition validate_base (be : bool) (offset : N) (buf : list N) (b : base) : outcome N :=
  do padding <- align_offset (base_align b) buf offset;
  match b with
  | BString =>
      do r <- unmarshal_str be buf (offset + padding); Ok (fst r + padding)
  | BObjectPath =>
      do r <- unmarshal_str be buf (offset + padding);
      if valid_path (snd r) then Ok (fst r + padding) else Err
  | BSignature =>
      do r <- unmarshal_signature buf offset;
      if is_ok (validate_signature (snd r)) then Ok (fst r + padding) else Err
  | BBoolean =>
      if len buf - (offset + padding) <? 4 then Err
      else
        let v := dec be (slice buf (offset + padding) 4) in
        if v <? 2 then Ok (4 + padding) else Err
  | _ =>
      let k := N.of_nat (base_size b) in
      if len buf - (offset + padding) <? k then Err else Ok (k + padding)
  end.

(* the `while bytes_used_counter < bytes_in_array` loop; [one p] validates one element at position p *)
Fixpoint elem_loop (one : N -> outcome N) (lf : nat) (offset n used : N) : outcome N :=
  if used <? n then
    match lf with
    | O => OutOfFuel
    | S lf' => do k <- one (offset + used); elem_loop one lf' offset n (used + k)
    end
  else Ok used.

Fixpoint validate (vf : nat) (be : bool) (depth : N) (offset : N) (buf : list N) (t : ty) {struct vf} : outcome N :=
  match vf with
  | O => OutOfFuel
  | S vf' =>
      (fix vt (t : ty) (depth offset : N) (buf : list N) {struct t} : outcome N :=
         match t with
         | TBase b => validate_base be offset buf b
         | _ =>
             if MAX_DEPTH <=? depth then Err else
             let depth := depth + 1 in
             match t with
             | TBase _ => Err
             | TArray e =>
                 do padding <- align_offset 4 buf offset;
                 let offset := offset + padding in
                 do n <- parse_u32_at be buf offset;
                 do n <- check_array_len n;
                 let offset := offset + 4 in
                 if len buf - offset <? n then Err else
                 do fp <- align_offset (align e) buf offset;
                 let offset := offset + fp in
                 if len buf - offset <? n then Err else
                 if bytes_always_valid e then
                   (if n mod align e =? 0 then Ok (padding + 4 + fp + n) else Err)
                 else
                   let clipped := firstnN (offset + n) buf in
                   do used <- elem_loop (fun p => vt e depth p clipped) (S (N.to_nat n)) offset n 0;
                   Ok (padding + 4 + fp + n)
             | TDict k v =>
                 do padding <- align_offset 4 buf offset;
                 let offset := offset + padding in
                 do n <- parse_u32_at be buf offset;
                 do n <- check_array_len n;
                 let offset := offset + 4 in
                 if len buf - offset <? n then Err else
                 do bp <- align_offset 8 buf offset;
                 let offset := offset + bp in
                 if len buf - offset <? n then Err else
                 let clipped := firstnN (offset + n) buf in
                 do used <- elem_loop (fun p =>
                                         do ep <- align_offset 8 clipped p;
                                         do kb <- validate_base be (p + ep) clipped k;
                                         do vb <- vt v depth (p + ep + kb) clipped;
                                         Ok (ep + kb + vb))
                                      (S (N.to_nat n)) offset n 0;
                 Ok (padding + bp + 4 + used)
             | TStruct ts =>
                 do padding <- align_offset 8 buf offset;
                 let offset := offset + padding in
                 do used <- (fix fields (l : list ty) (used : N) : outcome N :=
                               match l with
                               | [] => Ok used
                               | f :: r => do k <- vt f depth (offset + used) buf; fields r (used + k)
                               end) ts 0;
                 Ok (padding + used)
             | TVariant =>
                 do r <- unmarshal_signature buf offset;
                 let '(sb, sg) := r in
                 do tys <- parse_description sg;
                 match tys with
                 | [t'] => do pb <- validate vf' be depth (offset + sb) buf t'; Ok (sb + pb)
                 | _ => Err
                 end
             end
         end) t depth offset buf
  end.

(* validate_marshalled(byteorder, offset, raw, sig) *)
Definition validate_marshalled (be : bool) (offset : N) (buf : list N) (t : ty) : outcome N :=
  validate 66 be 0 offset buf t.
