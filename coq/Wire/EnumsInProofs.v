(** An enum in element position behaves as a variant of alignment 1:
    - its Signature impl says Variant, alignment 1 (like marshal::traits::Variant and params::Variant);
    - a container of enum values marshals as the container of the variants of their cases (whole algebra [cty]);
    - Vec<Enum> on a valid array of variants returns the cases element by element and consumes exactly the array
      (generic lemma over the element decoder, instantiated with the hit theorems of Wire/EnumsProofs.v);
    - the tuple impls' align_to(E::alignment()) before an enum field is a no-op, so tuples and derived structs
      read an enum field alike. *)
From RB Require Import Base.Prelude Sig.Types Sig.Parser Sig.ParserProofs Sig.Validator Sig.ValidatorProofs Sig.Iter
  Wire.Bytes Wire.Align Wire.Text Wire.Value Wire.SpecEnc Wire.Marshal Wire.MarshalProofs Wire.Decode Wire.Unmarshal
  Wire.DecodeLemmas Wire.DecodeComplete Wire.HasSig Wire.HasSigProofs Wire.Derive Wire.DeriveProofs Wire.Enums Wire.EnumsProofs
  Wire.C16Cross Wire.C16Final Wire.EnumsIn.

Notation mkc := Build_uctx.

(** ** signature and alignment *)
Theorem enum_is_variant_of_alignment_1 g cs :
  csig (CEnum g cs) = TVariant /\ calign (CEnum g cs) = 1 /\ calign (CEnum g cs) = align TVariant
  /\ csig CPVar = TVariant /\ calign CPVar = 1
  /\ calign (CEnum g cs) = ealign (EVar (EBase BByte)) /\ valid_slice false (csig (CEnum g cs)) = false.
Proof. repeat split. Qed.

(** ** decoding: a generic element *)
(* [dec] decodes every valid encoding of [x] to [a], at any place, nested at most [D] deep *)
Definition dec_complete {A} (be : bool) (D : N) (dec : uctx -> outcome (A * uctx)) (x : val) (a : A) : Prop :=
  forall buf off nf ud, ud <= D -> encodable be off D x = true -> fds_below nf x = true ->
    has_at buf off (spec_enc be off x) ->
    dec (mkc buf off nf ud) = Ok (a, mkc buf (off + len (spec_enc be off x)) nf ud).

Lemma gen_elems {A} be t d (dec : uctx -> outcome (A * uctx)) : forall xs (zs : list A),
  Forall2 (dec_complete be d dec) xs zs -> Forall (fun y => wt y t = true) xs ->
  forall buf off nf ud lf acc, ud <= d ->
    encodable_list be off d xs = true ->
    forallb (fds_below nf) xs = true ->
    has_at buf off (spec_enc_list be off xs) ->
    off + len (spec_enc_list be off xs) = len buf ->
    (N.to_nat (len buf - off) < lf)%nat ->
    sub_loop (fun c => do c <- u_align (align t) c; dec c) lf (mkc buf off nf ud) acc = Ok (rev acc ++ zs).
Proof.
  induction 1 as [|y z r zs Hy _ IH]; intros Hwt buf off nf ud lf acc Hud He Hfd H Hn Hlf.
  - cbn [spec_enc_list] in Hn. rewrite len_nil in Hn. rewrite sub_loop_done; [now rewrite app_nil_r|].
    unfold remainder_len. cbn [ubuf uoff]. lia.
  - destruct lf as [|lf]; [lia|]. rewrite sub_loop_S.
    apply Forall_cons_iff in Hwt. destruct Hwt as [Hwy Hwr].
    cbn [spec_enc_list encodable_list forallb] in *. apply andb_prop in He, Hfd.
    destruct He as [Hey Her], Hfd as [Hfy Hfr].
    pose proof (spec_enc_nonempty be y _ _ _ Hwy Hey) as Hne.
    set (ey := spec_enc be off y) in *.
    destruct (has_at_app _ _ _ _ H) as [H1 H2]. rewrite len_app in Hn.
    unfold remainder_len. cbn [ubuf uoff]. destruct (N.eqb_spec (len buf - off) 0) as [|_]; [lia|].
    (* the explicit alignment eats the padding the encoding starts with *)
    subst ey. rewrite (spec_enc_align be y t off Hwy) in H1. set (p := padlen (align t) off) in *.
    destruct (has_at_app _ _ _ _ H1) as [Hz Hv]. rewrite len_zeros in Hv.
    rewrite (u_align_ok (align t) (mkc buf off nf ud) (align_pos _) Hz). unfold set_off; cbn [bind ubuf uoff unfds udepth]. fold p.
    rewrite <- (encodable_align be y t off d Hwy) in Hey. fold p in Hey.
    rewrite (Hy buf (off + p) nf ud Hud Hey Hfy Hv). cbn [bind fst snd].
    replace (off + p + len (spec_enc be (off + p) y)) with (off + len (spec_enc be off y))
      by (rewrite (spec_enc_align be y t off Hwy), len_app, len_zeros; fold p; lia).
    rewrite (IH Hwr buf (off + len (spec_enc be off y)) nf ud lf (z :: acc) Hud Her Hfr H2); [|lia|lia].
    cbn [rev]. now rewrite <- app_assoc.
Qed.

(* Vec<E> over such an element, E::alignment() being the alignment of the elements' D-Bus type *)
Theorem vec_unmarshal_complete {A} be t (dec : uctx -> outcome (A * uctx)) xs (zs : list A) buf off nf ud d :
  wt (VArray t xs) (TArray t) = true -> encodable be off d (VArray t xs) = true -> ud <= d ->
  fds_below nf (VArray t xs) = true -> has_at buf off (spec_enc be off (VArray t xs)) ->
  Forall2 (dec_complete be (d + 1) dec) xs zs ->
  vec_unmarshal be (align t) dec (mkc buf off nf ud) = Ok (zs, mkc buf (off + len (spec_enc be off (VArray t xs))) nf ud).
Proof.
  intros Hwt He Hud Hfd H Hel2.
  pose proof (wt_array_inv _ _ _ Hwt) as Hel.
  rewrite encodable_array in He. apply andb4 in He. destruct He as (Hd & Hty & Hsz & Hes).
  apply N.ltb_lt in Hd. apply N.leb_le in Hsz. cbn [fds_below] in Hfd.
  rewrite spec_enc_array' in *.
  set (p1 := padlen 4 off) in *. set (p2 := padlen (align t) (off + p1 + 4)) in *.
  set (body := spec_enc_list be (off + p1 + 4 + p2) xs) in *.
  assert (Hp1 : padlen 4 (off + p1) = 0) by (apply padlen_at_aligned; lia).
  destruct (has_at_app4 _ _ _ _ _ _ H) as (H1 & H3 & H5 & H6). lens.
  pose proof (has_at_bound _ _ _ H6) as Hb.
  unfold vec_unmarshal.
  rewrite (u_align_ok 4 (mkc buf off nf ud) ltac:(lia) H1). unfold set_off; cbn [bind ubuf uoff unfds udepth]. fold p1.
  rewrite (u_read_u32_aligned be buf (off + p1) nf ud (len body) (MAX_ARRAY_u32 _ Hsz) Hp1 H3). cbn [bind fst snd].
  unfold check_array_len. destruct (N.ltb_spec MAX_ARRAY (len body)) as [|_]; [lia|]. cbn [bind].
  rewrite (u_align_ok (align t) (mkc buf (off + p1 + 4) nf ud) (align_pos _) H5).
  unfold set_off; cbn [bind ubuf uoff unfds udepth]. fold p2.
  rewrite (u_sub_ok (len body) (mkc buf (off + p1 + 4 + p2) nf ud)) by (cbn [ubuf uoff]; lia).
  unfold set_off; cbn [bind ubuf uoff unfds udepth fst snd].
  rewrite (gen_elems be t (d + 1) dec xs zs Hel2 Hel (firstnN (off + p1 + 4 + p2 + len body) buf) (off + p1 + 4 + p2) nf ud
             (S (N.to_nat (len body))) []).
  - cbn [bind fst snd rev app]. do 3 f_equal; rewrite ?len_app, ?len_zeros, ?len_enc4; lia.
  - lia.
  - exact Hes.
  - exact Hfd.
  - apply has_at_clip; [exact H6|]. fold body. lia.
  - fold body. rewrite len_clip by lia. reflexivity.
  - rewrite len_clip by lia. lia.
Qed.

(** ** the enums as such an element *)
Lemma at_variant_mk be buf off nf ud D t v : ud <= D -> wt v t = true ->
  encodable be off D (VVariant t v) = true -> fds_below nf (VVariant t v) = true ->
  has_at buf off (spec_enc be off (VVariant t v)) -> at_variant be (mkc buf off nf ud) t v.
Proof.
  intros Hud Hwt He Hfd Hb. constructor; cbn [ubuf uoff unfds udepth]; try assumption.
  exact (encodable_mono be _ off D ud Hud He).
Qed.
Lemma after_variant_mk be buf off nf ud t v :
  after_variant be (mkc buf off nf ud) t v = mkc buf (off + len (spec_enc be off (VVariant t v))) nf ud.
Proof. reflexivity. Qed.

Lemma derive_enum_elem be D pre k post t v : Forall (fun k' => case_ty k' <> t) pre -> case_ty k = t ->
  wt v t = true -> rty_matches (case_rty k) v ->
  dec_complete be D (derive_enum_unmarshal 66 be (pre ++ k :: post)) (VVariant t v) (ECase (length pre) v).
Proof.
  intros Hpre Hk Hwt Hm buf off nf ud Hud He Hfd Hb.
  rewrite (derive_enum_hit' 66 be _ t v pre k post (at_variant_mk be buf off nf ud D t v Hud Hwt He Hfd Hb) (fuel_ok_66 _) Hpre Hk Hm).
  now rewrite after_variant_mk.
Qed.
Lemma sig_macro_elem be D pre r post t v : Forall (fun r' => sig_r r' <> t) pre -> sig_r r = t ->
  wt v t = true -> rty_matches r v ->
  dec_complete be D (sig_macro_unmarshal 66 be (pre ++ r :: post)) (VVariant t v) (ECase (length pre) v).
Proof.
  intros Hpre Hr Hwt Hm buf off nf ud Hud He Hfd Hb.
  rewrite (sig_macro_hit' 66 be _ t v pre r post (at_variant_mk be buf off nf ud D t v Hud Hwt He Hfd Hb) (fuel_ok_66 _) Hpre Hr Hm).
  now rewrite after_variant_mk.
Qed.
Lemma var_macro_elem be D pre r post t v : Forall (fun r' => sig_r r' <> t) pre -> sig_r r = t ->
  wt v t = true -> rty_matches r v ->
  dec_complete be D (var_macro_unmarshal 66 be (pre ++ r :: post)) (VVariant t v) (ECase (length pre) v).
Proof.
  intros Hpre Hr Hwt Hm buf off nf ud Hud He Hfd Hb.
  rewrite (var_macro_hit' 66 be _ t v pre r post (at_variant_mk be buf off nf ud D t v Hud Hwt He Hfd Hb) (fuel_ok_66 _) Hpre Hr Hm).
  now rewrite after_variant_mk.
Qed.
(* dbus_variant_sig!'s Catchall as an element: the value is skipped, the signature kept *)
Lemma sig_macro_elem_miss be D cs t v : Forall (fun r => sig_r r <> t) cs -> wt v t = true ->
  dec_complete be D (sig_macro_unmarshal 66 be cs) (VVariant t v) (ECatchSig t).
Proof.
  intros Hcs Hwt buf off nf ud Hud He Hfd Hb.
  rewrite (sig_macro_miss 66 be cs _ t v (at_variant_mk be buf off nf ud D t v Hud Hwt He Hfd Hb) Hcs).
  now rewrite after_variant_mk.
Qed.

(* which case of a case list a variant (t, v) hits: the first one of type t, whose Rust type fits v *)
Definition hits (cs : list ecase) (tv : ty * val) (i : nat) : Prop :=
  exists pre k post, cs = pre ++ k :: post /\ i = length pre /\ Forall (fun k' => case_ty k' <> fst tv) pre
    /\ case_ty k = fst tv /\ wt (snd tv) (fst tv) = true /\ rty_matches (case_rty k) (snd tv).
(* the same for the macro enums, whose case types are [macro_case k] *)
Definition hits_macro (cs : list ecase) (tv : ty * val) (i : nat) : Prop :=
  exists pre k post, cs = pre ++ k :: post /\ i = length pre /\ Forall (fun k' => case_ty k' <> fst tv) pre
    /\ case_ty k = fst tv /\ wt (snd tv) (fst tv) = true /\ rty_matches (macro_case k) (snd tv).

Lemma case_ty_macro k : sig_r (macro_case k) = case_ty k.
Proof. destruct k; reflexivity. Qed.
Lemma Forall_macro (t : ty) cs : Forall (fun k' => case_ty k' <> t) cs -> Forall (fun r' => sig_r r' <> t) (map macro_case cs).
Proof. induction 1; cbn [map]; constructor; [now rewrite case_ty_macro|assumption]. Qed.

Lemma Forall2_in_l {A B} (R : A -> B -> Prop) l l' x : Forall2 R l l' -> In x l -> exists y, In y l' /\ R x y.
Proof.
  induction 1 as [|a b l l' Hab _ IH]; intros Hin; [destruct Hin|].
  destruct Hin as [->|Hin]; [exists b; split; [now left|exact Hab]|].
  destruct (IH Hin) as (y & Hy & Hr). exists y. split; [now right|exact Hr].
Qed.

Definition variants (tvs : list (ty * val)) : list val := map (fun tv => VVariant (fst tv) (snd tv)) tvs.

Lemma unmarshal_c_vec be y c : unmarshal_c be (CVec y) c = lift RList (vec_unmarshal be (calign y) (unmarshal_c be y) c).
Proof. reflexivity. Qed.

(* Vec<E> for an enum E of any of the three generators, on a valid array of variants each of which hits a case *)
Theorem enum_vec_unmarshal be g cs tvs idx buf off nf ud d :
  let arr := VArray TVariant (variants tvs) in
  Forall2 (match g with GDerive => hits cs | _ => hits_macro cs end) tvs idx ->
  encodable be off d arr = true -> ud <= d -> fds_below nf arr = true -> has_at buf off (spec_enc be off arr) ->
  unmarshal_c be (CVec (CEnum g cs)) (mkc buf off nf ud)
  = Ok (RList (map (fun iv => REnum (ECase (fst iv) (snd (snd iv)))) (combine idx tvs)), mkc buf (off + len (spec_enc be off arr)) nf ud).
Proof.
  intros arr Hh He Hud Hfd Hb.
  assert (Hwt : wt arr (TArray TVariant) = true).
  { cbn [wt arr]. rewrite ty_eqb_refl. cbn [andb]. unfold variants. rewrite forallb_forall. intros x Hx.
    apply in_map_iff in Hx. destruct Hx as (tv & <- & Hin). cbn [wt].
    destruct (Forall2_in_l _ _ _ _ Hh Hin) as (i & _ & Hi).
    destruct g; destruct Hi as (? & ? & ? & _ & _ & _ & _ & Hw & _); exact Hw. }
  rewrite unmarshal_c_vec. change (calign (CEnum g cs)) with (align TVariant).
  set (dec := unmarshal_c be (CEnum g cs)).
  assert (Hel : Forall2 (dec_complete be (d + 1) dec) (variants tvs)
                  (map (fun iv => REnum (ECase (fst iv) (snd (snd iv)))) (combine idx tvs))).
  { clear -Hh. unfold variants. induction Hh as [|tv i tvs idx Hi _ IH]; cbn [map combine]; constructor; [|exact IH].
    cbn [fst snd]. subst dec. intros buf off nf ud Hud He Hfd Hb.
    destruct g; destruct Hi as (pre & k & post & -> & -> & Hpre & Hk & Hw & Hm); cbn [unmarshal_c].
    - unfold lift. rewrite (derive_enum_elem be (d + 1) pre k post _ _ Hpre Hk Hw Hm buf off nf ud Hud He Hfd Hb). reflexivity.
    - unfold lift. rewrite map_app. cbn [map].
      rewrite (sig_macro_elem be (d + 1) (map macro_case pre) (macro_case k) (map macro_case post) _ _
                 (Forall_macro _ _ Hpre) (eq_trans (case_ty_macro k) Hk) Hw Hm buf off nf ud Hud He Hfd Hb).
      now rewrite map_length.
    - unfold lift. rewrite map_app. cbn [map].
      rewrite (var_macro_elem be (d + 1) (map macro_case pre) (macro_case k) (map macro_case post) _ _
                 (Forall_macro _ _ Hpre) (eq_trans (case_ty_macro k) Hk) Hw Hm buf off nf ud Hud He Hfd Hb).
      now rewrite map_length. }
  unfold lift. rewrite (vec_unmarshal_complete be TVariant dec _ _ buf off nf ud d Hwt He Hud Hfd Hb Hel). reflexivity.
Qed.

(** ** field position: alignment 1 means the tuple impls' align_to is a no-op *)
Theorem align_1_field_noop be x c : calign x = 1 -> uoff c <= len (ubuf c) ->
  (do c' <- u_align (calign x) c; unmarshal_c be x c') = unmarshal_c be x c.
Proof. intros Ha Hc. rewrite Ha. now rewrite (u_align_1 c Hc). Qed.

(** ** marshalling: a container of enum values is the container of the variants of their cases *)
Section cty_ind'.
  Variable P : cty -> Prop.
  Hypothesis Hp : forall r, P (CPlain r).
  Hypothesis He : forall g cs, P (CEnum g cs).
  Hypothesis Hv : P CPVar.
  Hypothesis Ha : forall x, P x -> P (CVec x).
  Hypothesis Hm : forall k x, P x -> P (CMap k x).
  Hypothesis Ht : forall xs, Forall P xs -> P (CTuple xs).
  Hypothesis Hd : forall xs, Forall P xs -> P (CDerived xs).
  Fixpoint cty_ind' (x : cty) : P x :=
    match x with
    | CPlain r => Hp r
    | CEnum g cs => He g cs
    | CPVar => Hv
    | CVec y => Ha y (cty_ind' y)
    | CMap k y => Hm k y (cty_ind' y)
    | CTuple ys => Ht ys ((fix go (l : list cty) : Forall P l :=
                             match l with [] => Forall_nil P | y :: r => Forall_cons y (cty_ind' y) (go r) end) ys)
    | CDerived ys => Hd ys ((fix go (l : list cty) : Forall P l :=
                               match l with [] => Forall_nil P | y :: r => Forall_cons y (cty_ind' y) (go r) end) ys)
    end.
End cty_ind'.

Lemma calign_csig x : calign x = align (csig x).
Proof. destruct x; try reflexivity. cbn [calign csig]. now rewrite ralign_tup, sig_r_tup. Qed.

Lemma pay_matches_c_eq k p : pay_matches_c k p = pay_matches k p.
Proof. destruct k, p; reflexivity. Qed.

Lemma enum_marshal_variant be g k p c : pay_matches k p = true ->
  enum_marshal be g k p c = marshal_t be (VVariant (case_ty k) (payload_val p)) c.
Proof.
  intros Hp. destruct g; cbn [enum_marshal].
  - now apply derive_enum_marshal_variant.
  - rewrite <- case_ty_macro. apply sig_macro_marshal_variant.
  - rewrite <- case_ty_macro. apply var_macro_marshal_variant.
Qed.

Lemma seq_loop be : forall ms ws, Forall2 (fun (m : mctx -> mres) w => forall c, m c = marshal_t be w c) ms ws ->
  forall c, (fix go (l : list (mctx -> mres)) (c : mctx) : mres :=
               match l with [] => (c, true) | m :: r => mbind (m c) (go r) end) ms c
            = marshal_seq (marshal_t be) ws c.
Proof.
  induction 1 as [|m w ms ws Hm _ IH]; intros c; [reflexivity|].
  rewrite marshal_seq_cons, Hm. destruct (marshal_t be w c) as [c' [|]]; cbn [mbind]; [apply IH|reflexivity].
Qed.

(* impl Marshal for &[E] (element loop) over elements that marshal as marshal_t of their values *)
Theorem vec_marshal_t be t ms ws c : valid_slice be t = false ->
  Forall2 (fun (m : mctx -> mres) w => forall c, m c = marshal_t be w c) ms ws ->
  vec_marshal be (align t) ms c = marshal_t be (VArray t ws) c.
Proof.
  intros Hvs H. rewrite marshal_t_array, Hvs. unfold vec_marshal. cbv zeta.
  destruct H as [|m w ms ws Hm Hr]; [reflexivity|].
  rewrite (seq_loop be (m :: ms) (w :: ws) (Forall2_cons _ _ Hm Hr)). reflexivity.
Qed.

Lemma entries_loop be : forall ms kvs,
  Forall2 (fun (m : (mctx -> mres) * (mctx -> mres)) (kv : val * val) =>
             (forall c, fst m c = marshal_t be (fst kv) c) /\ (forall c, snd m c = marshal_t be (snd kv) c)) ms kvs ->
  forall c, (fix go (l : list ((mctx -> mres) * (mctx -> mres))) (c : mctx) : mres :=
               match l with
               | [] => (c, true)
               | (mk, mv) :: r => mbind (mk {| mbuf := pad_to 8 (mbuf c); mfds := mfds c |}) (fun c2 => mbind (mv c2) (go r))
               end) ms c
            = marshal_entries (marshal_t be) kvs c.
Proof.
  induction 1 as [|[mk mv] [a b] ms kvs [Hk Hv] _ IH]; intros c; [reflexivity|]. cbn [fst snd] in *.
  rewrite marshal_entries_cons, Hk. destruct (marshal_t be a _) as [c2 [|]]; cbn [mbind]; [|reflexivity].
  rewrite Hv. destruct (marshal_t be b c2) as [c3 [|]]; cbn [mbind]; [apply IH|reflexivity].
Qed.
Theorem map_marshal_t be k vt ms kvs c :
  Forall2 (fun (m : (mctx -> mres) * (mctx -> mres)) (kv : val * val) =>
             (forall c, fst m c = marshal_t be (fst kv) c) /\ (forall c, snd m c = marshal_t be (snd kv) c)) ms kvs ->
  map_marshal be ms c = marshal_t be (VDict k vt kvs) c.
Proof.
  intros H. rewrite marshal_t_dict. unfold map_marshal. cbv zeta.
  destruct H as [|m kv ms kvs Hm Hr]; [reflexivity|].
  rewrite (entries_loop be (m :: ms) (kv :: kvs) (Forall2_cons _ _ Hm Hr)). reflexivity.
Qed.

Lemma zip_marshal be : forall ys, Forall (fun y => forall v, cshape be y v = true -> forall c, marshal_c be y v c = marshal_t be (cval_val y v) c) ys ->
  forall l, (length ys =? length l)%nat && forallb (fun b => b) (zipwith (fun y w => cshape be y w) ys l) = true ->
  Forall2 (fun (m : mctx -> mres) w => forall c, m c = marshal_t be w c)
          (zipwith (fun y w => marshal_c be y w) ys l) (zipwith (fun y w => cval_val y w) ys l).
Proof.
  induction 1 as [|y ys Hy _ IH]; intros [|w l] H; cbn [zipwith length Nat.eqb forallb] in *; try discriminate; [constructor|].
  apply andb_prop in H. destruct H as [Hl H]. apply andb_prop in H. destruct H as [Hs H].
  constructor; [intros c; now apply Hy|]. apply IH. now rewrite Hl, H.
Qed.

Theorem marshal_c_val be : forall x v, cshape be x v = true -> forall c, marshal_c be x v c = marshal_t be (cval_val x v) c.
Proof.
  induction x as [r|g cs| |y IH|k y IH|ys IH|ys IH] using cty_ind'; intros v Hs c; destruct v as [w|i p|t w|l|l]; try discriminate Hs.
  - reflexivity.
  - cbn [cshape marshal_c cval_val] in *. destruct (nth_error cs i) as [kc|]; [|discriminate].
    rewrite pay_matches_c_eq in Hs. now apply enum_marshal_variant.
  - cbn [cshape marshal_c cval_val] in *. apply andb_prop in Hs. destruct Hs as [Hvs Hl]. apply negb_true_iff in Hvs.
    rewrite calign_csig. apply vec_marshal_t; [exact Hvs|].
    clear Hvs. induction l as [|w l IHl]; cbn [map]; constructor.
    + intros c'. apply IH. cbn [forallb] in Hl. now apply andb_prop in Hl.
    + apply IHl. cbn [forallb] in Hl. now apply andb_prop in Hl.
  - cbn [cshape marshal_c cval_val] in *. apply map_marshal_t.
    induction l as [|[a w] l IHl]; cbn [map]; constructor; cbn [fst snd forallb] in *; apply andb_prop in Hs; destruct Hs as [H1 H2].
    + split; [reflexivity|intros c'; now apply IH].
    + now apply IHl.
  - cbn [cshape marshal_c cval_val] in *. apply derive_struct_marshal_tuple. now apply zip_marshal.
  - cbn [cshape marshal_c cval_val] in *. apply derive_struct_marshal_tuple. now apply zip_marshal.
Qed.
