(** C18: the protocol's size and depth limits, written from the D-Bus specification, and the two small
    message-level checks of the send path that the marshaller models do not contain
    (rustbus/src/wire/marshal.rs: marshal(), marshal_header(); util.rs: check_marshalled_array_len).
    The array / nesting checks of the marshallers and decoders are in Wire/Marshal.v, Decode.v,
    Unmarshal.v (MAX_ARRAY, MAX_DEPTH from Wire/SpecEnc.v); the receive path is Conn/Recv.v. *)
From RB Require Import Base.Prelude Sig.Types Wire.Bytes Wire.Align Wire.Value Wire.SpecEnc.

(** * Specification side *)

(* a whole message (header, padding, body) has at most 128 MiB *)
Definition MAX_MESSAGE : N := 2 ^ 27.

(* container nesting of a value: arrays, structs, dicts (array and entry count as one, as in the
   specification's [encodable]) and variants *)
Fixpoint vdepth (v : val) : N :=
  match v with
  | VBase _ _ | VText _ _ => 0
  | VArray _ vs => 1 + fold_right (fun x m => N.max (vdepth x) m) 0 vs
  | VStruct vs => 1 + fold_right (fun x m => N.max (vdepth x) m) 0 vs
  | VDict _ _ kvs => 1 + fold_right (fun kv m => N.max (N.max (vdepth (fst kv)) (vdepth (snd kv))) m) 0 kvs
  | VVariant _ x => 1 + vdepth x
  end.
Definition vdepth_list (vs : list val) : N := fold_right (fun x m => N.max (vdepth x) m) 0 vs.
Definition vdepth_entries (kvs : list (val * val)) : N :=
  fold_right (fun kv m => N.max (N.max (vdepth (fst kv)) (vdepth (snd kv))) m) 0 kvs.

(* how many values a value is made of, counting everything that occupies at least one byte of its own on the wire:
   base values, arrays and dicts (their length field), variants (their signature); a struct is just its fields *)
Definition nsum (l : list N) : N := fold_right N.add 0 l.
Fixpoint vcount (v : val) : N :=
  match v with
  | VBase _ _ | VText _ _ => 1
  | VArray _ vs => 1 + fold_right (fun x m => vcount x + m) 0 vs
  | VStruct vs => fold_right (fun x m => vcount x + m) 0 vs
  | VDict _ _ kvs => 1 + fold_right (fun kv m => vcount (fst kv) + vcount (snd kv) + m) 0 kvs
  | VVariant _ x => 1 + vcount x
  end.
Definition vcount_list (vs : list val) : N := fold_right (fun x m => vcount x + m) 0 vs.
Definition vcount_entries (kvs : list (val * val)) : N := fold_right (fun kv m => vcount (fst kv) + vcount (snd kv) + m) 0 kvs.

(* where the u32 length of an array / dict that starts at [off] sits: after the padding to 4 *)
Definition len_pos (off : N) : N := off + padlen 4 off.

(* the length a message announces in its first 16 bytes: fixed header (12), length of the header field
   array (4), the array, padding to 8, the body *)
Definition announced (hfl body_len : N) : N :=
  let h := 12 + 4 + hfl in h + padlen 8 h + body_len.

(* every array and dict inside the value, encoded at [pos], has at most 2^26 bytes of content
   (the specification's encoding [spec_enc] gives the content) *)
Fixpoint arrays_within (be : bool) (pos : N) (v : val) {struct v} : bool :=
  match v with
  | VBase _ _ | VText _ _ => true
  | VArray t vs =>
      let start := pos + padlen 4 pos + 4 + padlen (align t) (pos + padlen 4 pos + 4) in
      (len (spec_enc_list be start vs) <=? MAX_ARRAY)
      && (fix go (pos : N) (l : list val) : bool :=
            match l with
            | [] => true
            | x :: r => arrays_within be pos x && go (pos + len (spec_enc be pos x)) r
            end) start vs
  | VStruct vs =>
      (fix go (pos : N) (l : list val) : bool :=
         match l with
         | [] => true
         | x :: r => arrays_within be pos x && go (pos + len (spec_enc be pos x)) r
         end) (pos + padlen 8 pos) vs
  | VDict k vt kvs =>
      let start := pos + padlen 4 pos + 4 + padlen 8 (pos + padlen 4 pos + 4) in
      (len (spec_enc_entries be start kvs) <=? MAX_ARRAY)
      && (fix go (pos : N) (l : list (val * val)) : bool :=
            match l with
            | [] => true
            | (a, b) :: r =>
                let p := pos + padlen 8 pos in
                arrays_within be p a && arrays_within be (p + len (spec_enc be p a)) b
                && go (pos + len (spec_enc_entry be pos (a, b))) r
            end) start kvs
  | VVariant t x => arrays_within be (pos + len (sig_bytes (to_str t))) x
  end.

(** * Code side: the message-level checks of the send path *)

(* util::check_marshalled_array_len: `if len > MAX_ARRAY_LEN { Err } else { Ok(len as u32) }` *)
Definition check_marshalled_array_len (n : N) : outcome N :=
  if MAX_ARRAY <? n then Err else Ok (n mod 2 ^ 32).

(* marshal::marshal after marshal_header + pad_to_align(8): [hdr] = buf.len(), [body] = msg.get_buf().len();
   `if buf.len() + msg.get_buf().len() > MAX_MESSAGE_LEN { Err(MessageTooLong) }`, then
   insert_u32(msg.get_buf().len() as u32) *)
Definition marshal_message_len (hdr body : N) : outcome N :=
  if MAX_MESSAGE <? hdr + body then Err else Ok (body mod 2 ^ 32).

(* marshal_header: the length of the header field array goes through check_marshalled_array_len
   (fix 7b30723) before it is written; [fields] = buf.len() - pos - 4 *)
Definition marshal_header_fields_len (fields : N) : outcome N := check_marshalled_array_len fields.
