(** Non-vacuity for Wire/BodyAdvance.v (C15): an explicit [parser_at] / [parser_pos] instance, the hypotheses of the
    success theorems on a concrete body, the cursors computed by the model, a multi-get with the mismatching type in
    the first, the middle and the last slot, a decode error behind a valid signature, and well-typed pushes. *)
From RB Require Import Base.Prelude Sig.Types Sig.Parser Sig.ParserProofs Wire.Value Wire.SpecEnc Wire.Marshal Wire.Relabel
  Wire.MarshalProofs Wire.Decode Wire.Unmarshal Wire.HasSig Wire.Body Wire.BodyProofs Wire.BodyExamples.
From RB Require Import Wire.DecodeSoundLemmas Wire.BodyAdvance.

(* a body: byte 7, string "ab", u32 9, struct (byte 1, string "cd"); little endian *)
Definition ys := TStruct [TBase BByte; TBase BString].
Definition adv_ops : list bop :=
  [ Push (TBase BByte, VBase BByte 7);
    PushN [(TBase BString, VText BString [97; 98]); (TBase BUint32, VBase BUint32 9)];
    PushOld (VStruct [VBase BByte 1; VText BString [99; 100]]) ].
Definition adv_body : body := fst (run_body (new_body false) adv_ops).
Definition p0 : parser := new_parser adv_body.

Example ex_adv_body : bsig adv_body = [121; 115; 117; 40; 121; 115; 41] (* "ysu(ys)" *)
  /\ bbuf adv_body = [7; 0; 0; 0; 2; 0; 0; 0; 97; 98; 0; 0; 9; 0; 0; 0; 1; 0; 0; 0; 2; 0; 0; 0; 99; 100; 0] /\ bfds adv_body = 0.
Proof. vm_compute. repeat split. Qed.

(** (d) an explicit [parser_at] instance: the fresh parser stands before the byte; after get::<u8> and get::<String>
    it stands at ([y; s], u, [(ys)]) *)
Example ex_parser_at_0 : parser_at p0 [] (TBase BByte) [TBase BString; TBase BUint32; ys].
Proof. split; vm_compute; reflexivity. Qed.

Definition p2 : parser := {| pbody := adv_body; psig_idx := 2; pbuf_idx := 11 |}.
Example ex_parser_at_2 : parser_at p2 [TBase BByte; TBase BString] (TBase BUint32) [ys].
Proof. split; vm_compute; reflexivity. Qed.
Example ex_parser_pos_2 : parser_pos p2 [TBase BByte; TBase BString] [TBase BUint32; ys] /\ bytes_pos p2.
Proof.
  split; [split; vm_compute; reflexivity|]. split; [|vm_compute; discriminate].
  apply Forall_forall. intros x Hx. vm_compute in Hx. unfold byte_ok.
  repeat (destruct Hx as [<-|Hx]; [vm_compute; reflexivity|]). destruct Hx.
Qed.
(* p2 is where the model gets by two successful gets *)
Example ex_p2_reached :
  match get p0 (EBase BByte) with
  | Ok (p1, GVal v1) => v1 = VBase BByte 7 /\ psig_idx p1 = 1 /\ pbuf_idx p1 = 1
      /\ get p1 (EBase BString) = Ok (p2, GVal (VText BString [97; 98]))
  | _ => False
  end.
Proof. vm_compute. repeat split. Qed.

(** hypotheses of [get_success_advances] hold, and its conclusion computed: the u32 at offset 11 occupies
    1 byte of padding + 4 bytes: the byte cursor moves from 11 to 16 = 11 + len (spec_enc false 11 (u32 9)) *)
Example ex_ety_ok : ety_ok (EBase BUint32) /\ ety_ok (EStruct [EBase BByte; EBase BString]) /\ ety_ok (EVar (EBase BUint32)).
Proof. repeat split; vm_compute; try reflexivity; discriminate. Qed.

Example ex_get_advances :
  match get p2 (EBase BUint32) with
  | Ok (p3, GVal v) =>
      v = VBase BUint32 9 /\ spec_enc false 11 v = [0; 9; 0; 0; 0]
      /\ pbuf_idx p3 = pbuf_idx p2 + len (spec_enc false 11 v) /\ pbuf_idx p3 = 16
      /\ psig_idx p3 = psig_idx p2 + len (to_str (TBase BUint32)) /\ psig_idx p3 = 3
      /\ slice (bbuf adv_body) 11 5 = spec_enc false 11 v
  | _ => False
  end.
Proof. vm_compute. repeat split. Qed.

(** get_n (get3) with three different types from the start: k = 3 values, cursors advanced by exactly those *)
Example ex_get_n_advances :
  match get_n p0 [EBase BByte; EBase BString; EBase BUint32] with
  | Ok (p3, Some vs) =>
      vs = [VBase BByte 7; VText BString [97; 98]; VBase BUint32 9]
      /\ enc_seq false 0 vs = [7; 0; 0; 0; 2; 0; 0; 0; 97; 98; 0; 0; 9; 0; 0; 0]
      /\ pbuf_idx p3 = pbuf_idx p0 + len (enc_seq false 0 vs) /\ pbuf_idx p3 = 16
      /\ psig_idx p3 = psig_idx p0 + len (to_str_list [TBase BByte; TBase BString; TBase BUint32]) /\ psig_idx p3 = 3
      /\ parser_pos p3 [TBase BByte; TBase BString; TBase BUint32] [ys]
  | _ => False
  end.
Proof. vm_compute. repeat split. Qed.

(** (b) the mismatching type in the first, the middle and the last slot of a multi-get: error, parser unchanged *)
Example ex_get_n_mismatch :
  get_n p0 [EBase BUint32; EBase BString; EBase BUint32] = Ok (p0, None)
  /\ get_n p0 [EBase BByte; EBase BObjectPath; EBase BUint32] = Ok (p0, None)
  /\ get_n p0 [EBase BByte; EBase BString; EBase BInt32] = Ok (p0, None)
  /\ get_n p0 [EBase BByte; EBase BString; EBase BUint32; EStruct [EBase BByte; EBase BString; EBase BByte]] = Ok (p0, None).
Proof. vm_compute. repeat split. Qed.
(* the hypotheses of [get_n_mismatch_unchanged] for the middle slot *)
Example ex_get_n_mismatch_hyps :
  parser_pos p0 [] [TBase BByte; TBase BString; TBase BUint32; ys]
  /\ nth_error [EBase BByte; EBase BObjectPath; EBase BUint32] 1 = Some (EBase BObjectPath)
  /\ nth_error [TBase BByte; TBase BString; TBase BUint32; ys] 1 = Some (TBase BString)
  /\ erase (EBase BObjectPath) <> TBase BString.
Proof. split; [split; vm_compute; reflexivity|]. split; [reflexivity|]. split; [reflexivity|]. cbn. discriminate. Qed.

(** a DECODE error behind a valid signature: the same body with the boolean-free struct's string made invalid UTF-8
    (byte 0xFF).  get3 over (u32, (ys)) fails in its LAST slot after the u32 and the struct's byte were decoded: parser
    unchanged; the u32 alone is still read from the same place; get_param fails there as well and stays *)
Definition bad_body : body :=
  {| bbe := false; bsig := bsig adv_body; bfds := 0;
     bbuf := [7; 0; 0; 0; 2; 0; 0; 0; 97; 98; 0; 0; 9; 0; 0; 0; 1; 0; 0; 0; 2; 0; 0; 0; 99; 255; 0] |}.
Definition q2 : parser := {| pbody := bad_body; psig_idx := 2; pbuf_idx := 11 |}.
Example ex_decode_error_unchanged :
  get_n q2 [EBase BUint32; EStruct [EBase BByte; EBase BString]] = Ok (q2, None)
  /\ match get q2 (EBase BUint32) with
     | Ok (q3, GVal v) => v = VBase BUint32 9 /\ pbuf_idx q3 = 16 /\ psig_idx q3 = 3
         /\ get q3 (EStruct [EBase BByte; EBase BString]) = Ok (q3, GErr)
         /\ get_param q3 = Ok (q3, GErr)
     | _ => False
     end.
Proof. vm_compute. repeat split. Qed.

(** get_param: both cursors (the struct at offset 16: no padding, 11 bytes) *)
Definition p3 : parser := {| pbody := adv_body; psig_idx := 3; pbuf_idx := 16 |}.
Example ex_get_param_advances :
  parser_at p3 [TBase BByte; TBase BString; TBase BUint32] ys [] /\ type_ok ys = true
  /\ match get_param p3 with
     | Ok (p4, GVal v) => v = VStruct [VBase BByte 1; VText BString [99; 100]]
         /\ pbuf_idx p4 = pbuf_idx p3 + len (spec_enc false 16 v) /\ pbuf_idx p4 = 27 /\ psig_idx p4 = 7
     | _ => False
     end.
Proof. split; [split; vm_compute; reflexivity|]. split; [vm_compute; reflexivity|]. vm_compute. repeat split. Qed.

(** (c) well-typed pushes: [op_wt] holds for the example history, and the committed items computed from the VALUES
    are the ones computed from the declared types *)
Example ex_op_wt : Forall op_wt adv_ops /\ Forall op_ok adv_ops /\ total_fds adv_ops <= 2 ^ 32.
Proof.
  split; [|split; [apply ops_ok_b; vm_compute; reflexivity|vm_compute; discriminate]].
  repeat constructor.
Qed.
Example ex_by_value :
  let '(b, oks) := run_body (new_body false) adv_ops in
  committed_by_value adv_ops oks [] = committed adv_ops oks []
  /\ (bsig b, bbuf b, bfds b) = render false (committed_by_value adv_ops oks []).
Proof. vm_compute. repeat split. Qed.
(* a declared type that is NOT the value's type (impossible through Rust's push_param::<T>): the model appends the
   declared signature, which is why [op_wt] is the hypothesis that ties the two *)
Example ex_not_wt : ~ op_wt (Push (TBase BUint32, VBase BByte 7))
  /\ bsig (fst (step_body (new_body false) (Push (TBase BUint32, VBase BByte 7)))) = [117].
Proof. split; [cbn; discriminate|vm_compute; reflexivity]. Qed.
