(** The scenarios the wire harness runs (harness/src/bin/wire.rs, wirelib.rs), composed from the
    model functions, so that the extracted driver has no logic of its own. Also the relevant part
    of MessageBodyParser::get / get_param and MarshalledMessageBody::validate. *)
From RB Require Import Base.Prelude Sig.Types Sig.Parser Sig.Validator Wire.Bytes Wire.Align Wire.Text
  Wire.Value Wire.SpecEnc Wire.Marshal Wire.Relabel Wire.Decode Wire.Unmarshal.

(* the prefix parameters the harness pushes first: k bytes (i*37+1) mod 256, one u8 each *)
Fixpoint prefix_bytes (k : nat) (i : N) : list N :=
  match k with O => [] | S k' => ((i * 37 + 1) mod 256) :: prefix_bytes k' (i + 1) end.

Record mt_result := { mt_ok : bool; mt_buf : list N; mt_nfds : N; mt_spec : list N; mt_encodable : bool }.

(* MT / MP: marshal after the prefix; also what the specification says the bytes must be *)
Definition op_marshal (typed : bool) (be : bool) (prefix : nat) (v : val) : mt_result :=
  let pre := prefix_bytes prefix 0 in
  let c0 := {| mbuf := pre; mfds := 0 |} in
  let '(c, ok) := if typed then marshal_t be v c0 else marshal_param_top be v c0 in
  let wv := fst (relabel v 0) in
  {| mt_ok := ok; mt_buf := mbuf c; mt_nfds := mfds c;
     mt_spec := pre ++ spec_enc be (len pre) wv;
     mt_encodable := handles_live v && encodable be (len pre) 0 wv |}.

(* MarshalledMessageBody::validate: every complete type of the signature in turn, all bytes used *)
Fixpoint validate_seq (be : bool) (buf : list N) (tys : list ty) (used : N) : outcome N :=
  match tys with
  | [] => Ok used
  | t :: r => do n <- validate_marshalled be used buf t; validate_seq be buf r (used + n)
  end.
Definition body_validate (be : bool) (buf : list N) (tys : list ty) : bool :=
  match validate_seq be buf tys 0 with Ok n => n =? len buf | _ => false end.

Record rt_result := { rt_pushed : bool; rt_valid : bool; rt_res : outcome (val * N); rt_trailer : bool }.

(* RT / RP: marshal prefix, value, trailer byte 0xA5; validate the body; read the value back at the
   position after the prefix; check the trailer is the next thing *)
Definition op_roundtrip (typed : bool) (be : bool) (prefix : nat) (e : ety) (v : val) : rt_result :=
  let pre := prefix_bytes prefix 0 in
  let c0 := {| mbuf := pre; mfds := 0 |} in
  let '(c, ok) := if typed then marshal_t be v c0 else marshal_param_top be v c0 in
  if negb ok then {| rt_pushed := false; rt_valid := false; rt_res := Err; rt_trailer := false |} else
  let buf := mbuf c ++ [165] in
  let tys := repeat (TBase BByte) prefix ++ [erase e; TBase BByte] in
  let u0 := {| ubuf := buf; uoff := len pre; unfds := mfds c; udepth := 0 |} in
  let r := if typed then unmarshal_t 66 be e u0 else unmarshal_p 66 be (erase e) u0 in
  match r with
  | Ok (x, u1) =>
      {| rt_pushed := true; rt_valid := body_validate be buf tys; rt_res := Ok (x, uoff u1);
         rt_trailer := match nthN buf (uoff u1) with Some 165 => uoff u1 + 1 =? len buf | _ => false end |}
  | Err => {| rt_pushed := true; rt_valid := body_validate be buf tys; rt_res := Err; rt_trailer := false |}
  | Panic => {| rt_pushed := true; rt_valid := false; rt_res := Panic; rt_trailer := false |}
  | UB => {| rt_pushed := true; rt_valid := false; rt_res := UB; rt_trailer := false |}
  | OutOfFuel => {| rt_pushed := true; rt_valid := false; rt_res := OutOfFuel; rt_trailer := false |}
  end.

(* UT: typed decode of raw bytes at an offset; result value and bytes consumed *)
Definition op_unmarshal_t (be : bool) (offset nfds : N) (e : ety) (buf : list N) : outcome (val * N) :=
  do r <- unmarshal_t 66 be e {| ubuf := buf; uoff := offset; unfds := nfds; udepth := 0 |};
  Ok (fst r, uoff (snd r) - offset).

(* UP: dynamic decode of every complete type of a signature in turn *)
Fixpoint unmarshal_p_seq (be : bool) (tys : list ty) (c : uctx) (acc : list val) : outcome (list val * uctx) :=
  match tys with
  | [] => Ok (rev acc, c)
  | t :: r => do x <- unmarshal_p 66 be t c; unmarshal_p_seq be r (snd x) (fst x :: acc)
  end.
Definition op_unmarshal_p (be : bool) (offset nfds : N) (tys : list ty) (buf : list N) : outcome (list val * N) :=
  do r <- unmarshal_p_seq be tys {| ubuf := buf; uoff := offset; unfds := nfds; udepth := 0 |} [];
  Ok (fst r, uoff (snd r) - offset).

(* VR: raw validation of every complete type of a signature in turn, starting at offset *)
Definition op_validate (be : bool) (offset : N) (tys : list ty) (buf : list N) : outcome N :=
  do n <- validate_seq be buf tys offset; Ok (n - offset).

(* SE: the specification applied to a wire-level value (descriptor leaves are indices) *)
Definition op_spec (be : bool) (pos : N) (v : val) : list N * bool := (spec_enc be pos v, encodable be pos 0 v).

(** ** whole bodies *)
(* wire::unmarshal::unmarshal_body(byteorder, sigs, buf, fds, 0): every type of the signature in turn, then
   NotAllBytesUsed unless nothing remains (fix 5de75d3) *)
Definition unmarshal_body (be : bool) (nfds : N) (tys : list ty) (buf : list N) : outcome (list val) :=
  do r <- unmarshal_p_seq be tys {| ubuf := buf; uoff := 0; unfds := nfds; udepth := 0 |} [];
  if remainder_len (snd r) =? 0 then Ok (fst r) else Err.

(* MarshalledMessage::unmarshall_all: an empty signature means no values and (fix 5de75d3) no bytes *)
Definition body_unmarshall_all (be : bool) (nfds : N) (sigbytes : list N) (buf : list N) : outcome (list val) :=
  match sigbytes with
  | [] => match buf with [] => Ok [] | _ => Err end
  | _ => do tys <- parse_description sigbytes; unmarshal_body be nfds tys buf
  end.

(* MarshalledMessageBody::validate() *)
Definition op_body_validate (be : bool) (sigbytes : list N) (buf : list N) : bool :=
  match sigbytes, buf with
  | [], [] => true
  | _, _ => match parse_description sigbytes with Ok tys => body_validate be buf tys | _ => false end
  end.
