(** C04, step counting: instrumented copy of the dynamic (Param) decoder model of Wire/Unmarshal.v
    (rustbus/src/wire/unmarshal/param/container.rs: unmarshal_with_sig, unmarshal_container,
    unmarshal_container_contents, unmarshal_variant).
    [unmarshal_ps] is [unmarshal_p] clause by clause; steps counted (as in Wire/Steps.v):
      - 1 for every call of unmarshal_with_sig (every entry of [up], the call for the content of a variant included),
      - 1 for every round of an element loop (`while !ctx.remainder().is_empty()`, arrays and dicts),
      - 1 for every round of the field loop of a struct,
      - 1 for the direct call of unmarshal_base for a dict key.
    Cursor operations, check_array_len, parse_description and unmarshal_base are not recursive and belong to the step
    that calls them. *)
From RB Require Import Base.Prelude Sig.Types Sig.Parser Sig.Validator Wire.Bytes Wire.Align Wire.Text Wire.Value
  Wire.SpecEnc Wire.Marshal Wire.Decode Wire.Unmarshal Wire.Steps.

(* [sub_loop] with one step per round *)
Fixpoint sub_loop_s {A} (one : uctx -> counted (A * uctx)) (lf : nat) (c : uctx) (acc : list A) : counted (list A) :=
  if remainder_len c =? 0 then (Ok (rev acc), 0)
  else match lf with
       | O => (OutOfFuel, 0)
       | S lf' => tick (dos r <- one c; sub_loop_s one lf' (snd r) (fst r :: acc))
       end.

(* [unmarshal_p] (Wire/Unmarshal.v) with the counter *)
Fixpoint unmarshal_ps (vf : nat) (be : bool) (t : ty) (c : uctx) {struct vf} : counted (val * uctx) :=
  match vf with
  | O => (OutOfFuel, 0)
  | S vf' =>
      (fix up (t : ty) (c : uctx) {struct t} : counted (val * uctx) :=
         tick                                               (* one call of unmarshal_with_sig *)
         match t with
         | TBase b => lift (u_base be b c)
         | _ =>
             dos c <- lift (u_enter c);
             dos r <-
               match t with
               | TBase _ => lift Err
               | TArray e =>
                   dos r <- lift (u_read_fixed be 4 c);
                   dos n <- lift (check_array_len (fst r));
                   dos c1 <- lift (u_align (align e) (snd r));
                   dos s <- lift (u_sub n c1);
                   dos vs <- sub_loop_s (up e) (S (N.to_nat n)) (fst s) [];
                   lift (Ok (VArray e vs, snd s))
               | TDict k v =>
                   dos r <- lift (u_read_fixed be 4 c);
                   dos n <- lift (check_array_len (fst r));
                   dos c1 <- lift (u_align 8 (snd r));
                   dos s <- lift (u_sub n c1);
                   dos kvs <- sub_loop_s (fun c => dos c <- lift (u_align 8 c);
                                                dos kr <- tick (lift (u_base be k c));      (* the key call *)
                                                dos vr <- up v (snd kr);
                                                lift (Ok ((fst kr, fst vr), snd vr)))
                                      (S (N.to_nat n)) (fst s) [];
                   lift (Ok (VDict k v kvs, snd s))
               | TStruct ts =>
                   dos c <- lift (u_align 8 c);
                   match ts with
                   | [] => lift Err                                     (* EmptyStruct *)
                   | _ =>
                       dos r <- (fix fields (l : list ty) (c : uctx) (acc : list val) : counted (list val * uctx) :=
                                  match l with
                                  | [] => lift (Ok (rev acc, c))
                                  | f :: r => tick (dos x <- up f c; fields r (snd x) (fst x :: acc))
                                  end) ts c [];
                       lift (Ok (VStruct (fst r), snd r))
                   end
               | TVariant =>
                   dos r <- lift (u_read_sig c);
                   dos tys <- lift (parse_description (fst r));
                   match tys with
                   | [t'] => dos x <- unmarshal_ps vf' be t' (snd r); lift (Ok (VVariant t' (fst x), snd x))
                   | _ => lift Err
                   end
               end;
             lift (Ok (fst r, u_leave (snd r)))
         end) t c
  end.
