(** The D-Bus wire format as a specification: [spec_enc be pos v] is THE encoding of value [v]
    starting at absolute position [pos] of the message body, in big ([be = true]) or little
    endian. Written from the specification text: padding is computed from the absolute position,
    lengths are computed (not back-patched), there are no fast paths.
    [encodable] says which values have an encoding at all. *)
From RB Require Import Base.Prelude Sig.Types Sig.Parser Sig.Validator Wire.Bytes Wire.Align Wire.Text Wire.Value.

Definition sig_bytes (s : list N) : list N := len s :: s ++ [0].     (* u8 length, bytes, NUL *)

Fixpoint spec_enc (be : bool) (pos : N) (v : val) {struct v} : list N :=
  match v with
  | VBase b n => zeros (padlen (base_align b) pos) ++ enc be (base_size b) n
  | VText BSignature s => sig_bytes s
  | VText _ s => zeros (padlen 4 pos) ++ enc be 4 (len s) ++ s ++ [0]
  | VArray t vs =>
      let p1 := padlen 4 pos in
      let start := pos + p1 + 4 in
      let p2 := padlen (align t) start in
      let body := (fix go (pos : N) (l : list val) : list N :=
                     match l with
                     | [] => []
                     | x :: r => let e := spec_enc be pos x in e ++ go (pos + len e) r
                     end) (start + p2) vs in
      zeros p1 ++ enc be 4 (len body) ++ zeros p2 ++ body
  | VStruct vs =>
      let p := padlen 8 pos in
      zeros p ++ (fix go (pos : N) (l : list val) : list N :=
                    match l with
                    | [] => []
                    | x :: r => let e := spec_enc be pos x in e ++ go (pos + len e) r
                    end) (pos + p) vs
  | VDict k vt kvs =>
      let p1 := padlen 4 pos in
      let start := pos + p1 + 4 in
      let p2 := padlen 8 start in
      let body := (fix go (pos : N) (l : list (val * val)) : list N :=
                     match l with
                     | [] => []
                     | (a, b) :: r =>
                         let pz := zeros (padlen 8 pos) in
                         let ea := spec_enc be (pos + len pz) a in
                         let eb := spec_enc be (pos + len pz + len ea) b in
                         let e := pz ++ ea ++ eb in
                         e ++ go (pos + len e) r
                     end) (start + p2) kvs in
      zeros p1 ++ enc be 4 (len body) ++ zeros p2 ++ body
  | VVariant t x =>
      let sg := sig_bytes (to_str t) in
      sg ++ spec_enc be (pos + len sg) x
  end.

Fixpoint spec_enc_list (be : bool) (pos : N) (l : list val) : list N :=
  match l with
  | [] => []
  | x :: r => let e := spec_enc be pos x in e ++ spec_enc_list be (pos + len e) r
  end.

Definition spec_enc_entry (be : bool) (pos : N) (kv : val * val) : list N :=
  let pz := zeros (padlen 8 pos) in
  let ea := spec_enc be (pos + len pz) (fst kv) in
  let eb := spec_enc be (pos + len pz + len ea) (snd kv) in
  pz ++ ea ++ eb.

Fixpoint spec_enc_entries (be : bool) (pos : N) (l : list (val * val)) : list N :=
  match l with
  | [] => []
  | kv :: r => let e := spec_enc_entry be pos kv in e ++ spec_enc_entries be (pos + len e) r
  end.

Lemma spec_enc_array be pos t vs : spec_enc be pos (VArray t vs) =
  let p1 := padlen 4 pos in
  let start := pos + p1 + 4 in
  let p2 := padlen (align t) start in
  let body := spec_enc_list be (start + p2) vs in
  zeros p1 ++ enc be 4 (len body) ++ zeros p2 ++ body.
Proof.
  cbn [spec_enc]. cbv zeta.
  match goal with |- context [(fix go (p : N) (l : list val) {struct l} : list N := _)] =>
    set (go := (fix go (p : N) (l : list val) {struct l} : list N := _)) end.
  assert (E : forall l p, go p l = spec_enc_list be p l)
    by (induction l as [|x l IH]; intros p; cbn; [reflexivity|now rewrite IH]).
  now rewrite !E.
Qed.
Lemma spec_enc_struct be pos vs : spec_enc be pos (VStruct vs) =
  zeros (padlen 8 pos) ++ spec_enc_list be (pos + padlen 8 pos) vs.
Proof.
  cbn [spec_enc]. cbv zeta.
  match goal with |- context [(fix go (p : N) (l : list val) {struct l} : list N := _)] =>
    set (go := (fix go (p : N) (l : list val) {struct l} : list N := _)) end.
  assert (E : forall l p, go p l = spec_enc_list be p l)
    by (induction l as [|x l IH]; intros p; cbn; [reflexivity|now rewrite IH]).
  now rewrite !E.
Qed.
Lemma spec_enc_dict be pos k vt kvs : spec_enc be pos (VDict k vt kvs) =
  let p1 := padlen 4 pos in
  let start := pos + p1 + 4 in
  let p2 := padlen 8 start in
  let body := spec_enc_entries be (start + p2) kvs in
  zeros p1 ++ enc be 4 (len body) ++ zeros p2 ++ body.
Proof.
  cbn [spec_enc]. cbv zeta.
  match goal with |- context [(fix go (p : N) (l : list (val * val)) {struct l} : list N := _)] =>
    set (go := (fix go (p : N) (l : list (val * val)) {struct l} : list N := _)) end.
  assert (E : forall l p, go p l = spec_enc_entries be p l).
  { induction l as [|[a b] l IH]; intros p; cbn [spec_enc_entries]; [reflexivity|].
    unfold spec_enc_entry. cbn [fst snd]. cbv zeta. cbn. now rewrite IH. }
  now rewrite !E.
Qed.

(** ** Which values have an encoding *)
Definition MAX_ARRAY : N := 2 ^ 26.
Definition MAX_DEPTH : N := 64.

(* a single complete type that may appear in a variant's signature / as an element type *)
Definition type_ok (t : ty) : bool := wf t && depth_ok 0 0 t && (len (to_str t) <=? 255).

(* [depth] = number of containers the value is nested in *)
Fixpoint encodable (be : bool) (pos : N) (depth : N) (v : val) {struct v} : bool :=
  match v with
  | VBase b n => true
  | VText BString s => utf8_valid s && negb (has_nul s) && (len s <? 2 ^ 32)
  | VText BObjectPath s => utf8_valid s && valid_path s && (len s <? 2 ^ 32)
  | VText BSignature s => is_ok (validate_signature s)
  | VText _ _ => false
  | VArray t vs =>
      (depth <? MAX_DEPTH) && type_ok t
      && (len (spec_enc_list be (pos + padlen 4 pos + 4 + padlen (align t) (pos + padlen 4 pos + 4)) vs) <=? MAX_ARRAY)
      && (fix go (pos : N) (l : list val) : bool :=
            match l with
            | [] => true
            | x :: r => encodable be pos (depth + 1) x && go (pos + len (spec_enc be pos x)) r
            end) (pos + padlen 4 pos + 4 + padlen (align t) (pos + padlen 4 pos + 4)) vs
  | VStruct vs =>
      (depth <? MAX_DEPTH) && negb (match vs with [] => true | _ => false end)
      && (fix go (pos : N) (l : list val) : bool :=
            match l with
            | [] => true
            | x :: r => encodable be pos (depth + 1) x && go (pos + len (spec_enc be pos x)) r
            end) (pos + padlen 8 pos) vs
  | VDict k vt kvs =>
      (depth <? MAX_DEPTH) && type_ok vt
      && (len (spec_enc_entries be (pos + padlen 4 pos + 4 + padlen 8 (pos + padlen 4 pos + 4)) kvs) <=? MAX_ARRAY)
      && (fix go (pos : N) (l : list (val * val)) : bool :=
            match l with
            | [] => true
            | (a, b) :: r =>
                let p := pos + padlen 8 pos in
                encodable be p (depth + 1) a
                && encodable be (p + len (spec_enc be p a)) (depth + 1) b
                && go (pos + len (spec_enc_entry be pos (a, b))) r
            end) (pos + padlen 4 pos + 4 + padlen 8 (pos + padlen 4 pos + 4)) kvs
  | VVariant t x => (depth <? MAX_DEPTH) && type_ok t && encodable be (pos + len (sig_bytes (to_str t))) (depth + 1) x
  end.
