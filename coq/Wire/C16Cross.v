(** Cross-decoding: what one API marshals, the other APIs decode to the same value.
    Composition of "marshalling appends exactly the specification encoding" (Wire/MarshalProofs.v, C02)
    with decoder completeness (Wire/DecodeComplete.v). The dynamic decoder's completeness is proved there;
    the typed decoder's is still being proved, so it is a premise (Section hypothesis) here. *)
From RB Require Import Base.Prelude Sig.Types Sig.Parser Sig.Validator Wire.Bytes Wire.Align Wire.Text Wire.Value Wire.SpecEnc
  Wire.Marshal Wire.Relabel Wire.MarshalProofs Wire.Decode Wire.Unmarshal Wire.DecodeLemmas Wire.DecodeComplete
  Wire.Derive Wire.DeriveProofs.

(* the value on the wire: descriptor handles replaced by their indices in the message's descriptor list *)
Definition wire_val (v : val) (c : mctx) : val := fst (relabel v (mfds c)).

(* the decoding context the body parser builds: whole buffer, cursor at [off], nesting depth 0 *)
Definition ctx_at (buf : list N) (off nf : N) : uctx := {| ubuf := buf; uoff := off; unfds := nf; udepth := 0 |}.

Lemma marshalled_has_at buf0 enc suf : has_at ((buf0 ++ enc) ++ suf) (len buf0) enc.
Proof. rewrite <- app_assoc. apply has_at_intro. Qed.

(* typed API (tuples, and by Wire/DeriveProofs.v derived structs) marshals, dynamic API decodes *)
Theorem typed_then_param be v t c c' suf nf :
  wt v t = true -> strings_small v = true ->
  marshal_t be v c = (c', true) -> snd (relabel v (mfds c)) <= 2 ^ 32 ->
  wt (wire_val v c) t = true -> encodable be (len (mbuf c)) 0 (wire_val v c) = true -> fds_below nf (wire_val v c) = true ->
  unmarshal_p 66 be t (ctx_at (mbuf c' ++ suf) (len (mbuf c)) nf) = Ok (wire_val v c, ctx_at (mbuf c' ++ suf) (len (mbuf c')) nf).
Proof.
  intros Hwt Hs Hm Hb Hww He Hf.
  destruct (marshal_t_spec be v (ex_intro _ t Hwt) Hs c c' Hm Hb) as [Ebuf _]. fold (wire_val v c) in Ebuf.
  unfold ctx_at. rewrite Ebuf, len_app.
  apply (unmarshal_p_complete_gen be (wire_val v c) t _ _ nf 0 66%nat Hww He Hf (marshalled_has_at _ _ _) (fuel_ok_66 _)).
Qed.

(* dynamic API marshals, dynamic API decodes (for completeness of the table) *)
Theorem param_then_param be v t d c c' suf nf :
  wt v t = true -> strings_small v = true ->
  marshal_p be d v c = (c', true) -> snd (relabel v (mfds c)) <= 2 ^ 32 ->
  wt (wire_val v c) t = true -> encodable be (len (mbuf c)) 0 (wire_val v c) = true -> fds_below nf (wire_val v c) = true ->
  unmarshal_p 66 be t (ctx_at (mbuf c' ++ suf) (len (mbuf c)) nf) = Ok (wire_val v c, ctx_at (mbuf c' ++ suf) (len (mbuf c')) nf).
Proof.
  intros Hwt Hs Hm Hb Hww He Hf.
  destruct (marshal_p_spec be v (ex_intro _ t Hwt) Hs d c c' Hm Hb) as [Ebuf _]. fold (wire_val v c) in Ebuf.
  unfold ctx_at. rewrite Ebuf, len_app.
  apply (unmarshal_p_complete_gen be (wire_val v c) t _ _ nf 0 66%nat Hww He Hf (marshalled_has_at _ _ _) (fuel_ok_66 _)).
Qed.

Section TypedDecoder.
  Variable ety_matches : ety -> val -> Prop.
  Hypothesis unmarshal_t_complete_gen : forall be e v buf off nf d vf,
    ety_matches e v -> encodable be off d v = true -> fds_below nf v = true ->
    has_at buf off (spec_enc be off v) -> fuel_ok vf d ->
    unmarshal_t vf be e (Build_uctx buf off nf d) = Ok (v, Build_uctx buf (off + len (spec_enc be off v)) nf d).

  (* dynamic API marshals; the typed API decodes - with tuples or with derived structs in any position *)
  Theorem param_then_typed be v r d c c' suf nf :
    typed v -> strings_small v = true ->
    marshal_p be d v c = (c', true) -> snd (relabel v (mfds c)) <= 2 ^ 32 ->
    ety_matches (tup r) (wire_val v c) -> encodable be (len (mbuf c)) 0 (wire_val v c) = true -> fds_below nf (wire_val v c) = true ->
    unmarshal_r 66 be r (ctx_at (mbuf c' ++ suf) (len (mbuf c)) nf) = Ok (wire_val v c, ctx_at (mbuf c' ++ suf) (len (mbuf c')) nf).
  Proof.
    intros Hwt Hs Hm Hb Hww He Hf.
    destruct (marshal_p_spec be v Hwt Hs d c c' Hm Hb) as [Ebuf _]. fold (wire_val v c) in Ebuf.
    unfold ctx_at. rewrite unmarshal_r_tup, Ebuf, len_app.
    apply (unmarshal_t_complete_gen be (tup r) (wire_val v c) _ _ nf 0 66%nat Hww He Hf (marshalled_has_at _ _ _) (fuel_ok_66 _)).
  Qed.

  (* typed API marshals (tuple or derived struct: same bytes), typed API decodes as either *)
  Theorem typed_then_typed be v r c c' suf nf :
    typed v -> strings_small v = true ->
    marshal_t be v c = (c', true) -> snd (relabel v (mfds c)) <= 2 ^ 32 ->
    ety_matches (tup r) (wire_val v c) -> encodable be (len (mbuf c)) 0 (wire_val v c) = true -> fds_below nf (wire_val v c) = true ->
    unmarshal_r 66 be r (ctx_at (mbuf c' ++ suf) (len (mbuf c)) nf) = Ok (wire_val v c, ctx_at (mbuf c' ++ suf) (len (mbuf c')) nf).
  Proof.
    intros Hwt Hs Hm Hb Hww He Hf.
    destruct (marshal_t_spec be v Hwt Hs c c' Hm Hb) as [Ebuf _]. fold (wire_val v c) in Ebuf.
    unfold ctx_at. rewrite unmarshal_r_tup, Ebuf, len_app.
    apply (unmarshal_t_complete_gen be (tup r) (wire_val v c) _ _ nf 0 66%nat Hww He Hf (marshalled_has_at _ _ _) (fuel_ok_66 _)).
  Qed.
End TypedDecoder.
