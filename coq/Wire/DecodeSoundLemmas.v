(** Helper lemmas for decoder soundness/totality (C03): slice algebra, inversion lemmas for the
    cursor helpers of Wire/Decode.v and Wire/Unmarshal.v (what an [Ok] result says about the bytes),
    and specification-side facts (list forms of [encodable], type conditions). *)
From RB Require Import Base.Prelude Sig.Types Sig.Parser Sig.ParserProofs Sig.Validator Sig.ValidatorProofs
  Wire.Bytes Wire.Align Wire.Text Wire.Value Wire.SpecEnc Wire.Marshal Wire.MarshalProofs Wire.Decode Wire.Unmarshal.

(** ** slices *)
Lemma slice_sub buf off n : slice buf off n = sub buf off n. Proof. reflexivity. Qed.

Lemma slice_add buf off n m : slice buf off (n + m) = slice buf off n ++ slice buf (off + n) m.
Proof. apply sub_add. Qed.
Lemma slice_0 buf off : slice buf off 0 = []. Proof. reflexivity. Qed.
Lemma len_slice buf off n : off + n <= len buf -> len (slice buf off n) = n.
Proof. intros H. unfold slice. rewrite len_firstnN, len_skipnN. lia. Qed.
Lemma len_slice_le buf off n : len (slice buf off n) <= n.
Proof. unfold slice. rewrite len_firstnN. lia. Qed.

Lemma firstn_firstn_le {A} (l : list A) i j : (i <= j)%nat -> firstn i (firstn j l) = firstn i l.
Proof. intros H. rewrite firstn_firstn. f_equal. lia. Qed.
Lemma firstn_skipn_comm' {A} (l : list A) a b : firstn a (skipn b l) = skipn b (firstn (b + a) l).
Proof. now rewrite firstn_skipn_comm. Qed.

Lemma slice_firstnN buf k off n : off + n <= k -> slice (firstnN k buf) off n = slice buf off n.
Proof.
  intros H. unfold slice, firstnN, skipnN.
  rewrite (firstn_skipn_comm' (firstn (N.to_nat k) buf)), (firstn_skipn_comm' buf).
  f_equal. apply firstn_firstn_le. lia.
Qed.
Lemma len_firstnN_le {A} k (l : list A) : k <= len l -> len (firstnN k l) = k.
Proof. intros H. rewrite len_firstnN. lia. Qed.
Lemma firstnN_firstnN {A} (l : list A) i j : i <= j -> firstnN i (firstnN j l) = firstnN i l.
Proof. intros H. unfold firstnN. apply firstn_firstn_le. lia. Qed.
Lemma firstnN_all {A} (l : list A) k : len l <= k -> firstnN k l = l.
Proof. intros H. unfold firstnN. apply firstn_all2. unfold len in H. lia. Qed.

Lemma In_firstn' {A} (l : list A) n x : In x (firstn n l) -> In x l.
Proof. revert l; induction n as [|n IH]; intros l H; [destruct H|]. destruct l as [|y l]; [destruct H|].
  cbn in H. destruct H as [->|H]; [now left|right; now apply IH]. Qed.
Lemma In_skipn' {A} (l : list A) n x : In x (skipn n l) -> In x l.
Proof. revert l; induction n as [|n IH]; intros l H; [exact H|]. destruct l as [|y l]; [destruct H|].
  cbn in H. right. now apply IH. Qed.
Lemma bytes_ok_firstnN k buf : bytes_ok buf -> bytes_ok (firstnN k buf).
Proof. unfold bytes_ok, firstnN. intros H. apply Forall_forall. intros x Hin.
  rewrite Forall_forall in H. apply H. eapply In_firstn'; eauto. Qed.
Lemma bytes_ok_slice buf off n : bytes_ok buf -> bytes_ok (slice buf off n).
Proof. unfold bytes_ok, slice, firstnN, skipnN. intros H. apply Forall_forall. intros x Hin.
  rewrite Forall_forall in H. apply H. eapply In_skipn', In_firstn'; eauto. Qed.

Lemma all_zero_zeros l : forallb (N.eqb 0) l = true -> l = zeros (len l).
Proof.
  induction l as [|x l IH]; intros H; [reflexivity|]. cbn [forallb] in H. apply andb_prop in H. destruct H as [Hx Hl].
  apply N.eqb_eq in Hx. subst x. rewrite len_cons. unfold zeros.
  replace (N.to_nat (1 + len l)) with (S (N.to_nat (len l))) by lia. cbn [repeat]. f_equal. now apply IH.
Qed.

Lemma slice_nth buf off c : nthN buf off = Some c -> slice buf off 1 = [c].
Proof. apply sub_1. Qed.

Lemma slice_whole_prefix buf off n m : n <= m -> slice buf off n = firstnN n (slice buf off m).
Proof. intros H. unfold slice. now rewrite firstnN_firstnN. Qed.

(** ** util::align_offset *)
Lemma align_offset_ok a buf off p : 0 < a -> align_offset a buf off = Ok p ->
  p = padlen a off /\ off + p <= len buf /\ slice buf off p = zeros p.
Proof.
  intros Ha. unfold align_offset. destruct (N.ltb_spec (len buf) off) as [|Hoff]; [discriminate|].
  rewrite pad_amount_padlen by exact Ha. set (q := padlen a off).
  destruct (N.ltb_spec (len buf - off) q) as [|Hq]; [discriminate|].
  destruct (forallb (N.eqb 0) (slice buf off q)) eqn:Ez; [|discriminate]. intros H. injection H as <-.
  split; [reflexivity|]. split; [lia|]. apply all_zero_zeros in Ez. rewrite len_slice in Ez by lia. exact Ez.
Qed.
Lemma align_offset_total a buf off : off <= len buf -> ok_or_err (align_offset a buf off).
Proof.
  intros H. unfold align_offset. destruct (N.ltb_spec (len buf) off); [lia|].
  destruct (_ <? _); [exact I|]. destruct (forallb _ _); exact I.
Qed.
(* an aligned position needs no padding *)
Lemma padlen_after a off : 0 < a -> padlen a (off + padlen a off) = 0.
Proof. intros Ha. apply padlen_0; [exact Ha|]. now apply padlen_aligned. Qed.

(** ** util::parse_u32 *)
Lemma parse_u32_at_ok be buf off n : bytes_ok buf -> parse_u32_at be buf off = Ok n ->
  off + 4 <= len buf /\ slice buf off 4 = enc be 4 n /\ n < 2 ^ 32.
Proof.
  intros Hb. unfold parse_u32_at. destruct (N.ltb_spec (len buf) off) as [|Hoff]; [discriminate|].
  destruct (N.ltb_spec (len buf - off) 4) as [|H4]; [discriminate|]. intros H. injection H as <-.
  assert (Hl : len (slice buf off 4) = 4) by (apply len_slice; lia).
  pose proof (bytes_ok_slice buf off 4 Hb) as Hs.
  split; [lia|]. split.
  - pose proof (enc_dec be _ Hs) as E. assert (L : length (slice buf off 4) = 4%nat) by (unfold len in Hl; lia).
    rewrite L in E. now symmetry.
  - pose proof (dec_bound be _ Hs) as B. rewrite Hl in B. exact B.
Qed.
Lemma parse_u32_at_total be buf off : off <= len buf -> ok_or_err (parse_u32_at be buf off).
Proof. intros H. unfold parse_u32_at. destruct (N.ltb_spec (len buf) off); [lia|]. destruct (_ <? _); exact I. Qed.

(** ** util::unmarshal_str *)
Lemma unmarshal_str_ok be buf off k s : bytes_ok buf -> unmarshal_str be buf off = Ok (k, s) ->
  k = len s + 5 /\ off + k <= len buf /\ slice buf off k = enc be 4 (len s) ++ s ++ [0]
  /\ utf8_valid s = true /\ has_nul s = false /\ len s < 2 ^ 32.
Proof.
  intros Hb. unfold unmarshal_str. destruct (parse_u32_at be buf off) as [n| | | |] eqn:En; cbn [bind]; try discriminate.
  destruct (parse_u32_at_ok _ _ _ _ Hb En) as (H4 & E4 & Hn).
  destruct (N.ltb_spec (len buf - off) (n + 5)) as [|Hn5]; [discriminate|].
  set (s0 := slice buf (off + 4) n). destruct (utf8_valid s0) eqn:Eu; cbn [negb]; [|discriminate].
  destruct (has_nul s0) eqn:Enul; [discriminate|].
  destruct (nthN buf (off + 4 + n)) as [c|] eqn:Ec; [|discriminate].
  destruct c as [|c]; [|discriminate]. intros H. injection H as <- <-.
  assert (Ls : len s0 = n) by (apply len_slice; lia).
  rewrite Ls. split; [reflexivity|]. split; [lia|]. split; [|auto].
  replace (n + 5) with (4 + (n + 1)) by lia. rewrite slice_add, E4. f_equal.
  rewrite slice_add. f_equal. apply slice_nth. exact Ec.
Qed.
Lemma unmarshal_str_total be buf off : off <= len buf -> ok_or_err (unmarshal_str be buf off).
Proof.
  intros H. unfold unmarshal_str. pose proof (parse_u32_at_total be buf off H) as Ht.
  destruct (parse_u32_at be buf off) as [n| | | |]; cbn [bind]; try exact Ht.
  destruct (N.ltb_spec (len buf - off) (n + 5)) as [|Hn5]; [exact I|].
  destruct (negb _); [exact I|]. destruct (has_nul _); [exact I|].
  destruct (nthN buf (off + 4 + n)) as [c|] eqn:Ec.
  - destruct c; exact I.
  - apply nthN_None in Ec. lia.
Qed.

(** ** util::unmarshal_signature *)
Lemma unmarshal_signature_ok buf off k s : unmarshal_signature buf off = Ok (k, s) ->
  k = len s + 2 /\ off + k <= len buf /\ slice buf off k = sig_bytes s /\ utf8_valid s = true.
Proof.
  unfold unmarshal_signature. destruct (N.ltb_spec (len buf) off) as [|Hoff]; [discriminate|].
  destruct (nthN buf off) as [n|] eqn:En; [|discriminate].
  destruct (N.ltb_spec (len buf - off) (n + 2)) as [|Hn2]; [discriminate|].
  set (s0 := slice buf (off + 1) n). destruct (utf8_valid s0) eqn:Eu; cbn [negb]; [|discriminate].
  destruct (nthN buf (off + n + 1)) as [c|] eqn:Ec; [|discriminate].
  destruct c as [|c]; [|discriminate]. intros H. injection H as <- <-.
  assert (Ls : len s0 = n) by (apply len_slice; lia).
  rewrite Ls. split; [reflexivity|]. split; [lia|]. split; [|exact Eu].
  unfold sig_bytes. rewrite Ls. replace (n + 2) with (1 + (n + 1)) by lia. rewrite slice_add.
  rewrite (slice_nth _ _ _ En). cbn [app]. f_equal. rewrite slice_add. f_equal.
  apply slice_nth. replace (off + 1 + n) with (off + n + 1) by lia. exact Ec.
Qed.
Lemma unmarshal_signature_total buf off : off <= len buf -> ok_or_err (unmarshal_signature buf off).
Proof.
  intros H. unfold unmarshal_signature. destruct (N.ltb_spec (len buf) off); [lia|].
  destruct (nthN buf off) as [n|]; [|exact I].
  destruct (N.ltb_spec (len buf - off) (n + 2)) as [|Hn2]; [exact I|].
  destruct (negb _); [exact I|].
  destruct (nthN buf (off + n + 1)) as [c|] eqn:Ec.
  - destruct c; exact I.
  - apply nthN_None in Ec. lia.
Qed.

(** ** list forms of [encodable] (the anonymous fixes of SpecEnc.encodable, named) *)
Fixpoint enc_list_ok (be : bool) (pos d : N) (l : list val) : bool :=
  match l with
  | [] => true
  | x :: r => encodable be pos d x && enc_list_ok be (pos + len (spec_enc be pos x)) d r
  end.
Fixpoint enc_entries_ok (be : bool) (pos d : N) (l : list (val * val)) : bool :=
  match l with
  | [] => true
  | kv :: r =>
      let p := pos + padlen 8 pos in
      encodable be p d (fst kv)
      && encodable be (p + len (spec_enc be p (fst kv))) d (snd kv)
      && enc_entries_ok be (pos + len (spec_enc_entry be pos kv)) d r
  end.

Lemma encodable_array be pos d t vs : encodable be pos d (VArray t vs) =
  let start := pos + padlen 4 pos + 4 + padlen (align t) (pos + padlen 4 pos + 4) in
  (d <? MAX_DEPTH) && type_ok t && (len (spec_enc_list be start vs) <=? MAX_ARRAY) && enc_list_ok be start (d + 1) vs.
Proof.
  cbn [encodable]. cbv zeta. f_equal.
  generalize (pos + padlen 4 pos + 4 + padlen (align t) (pos + padlen 4 pos + 4)) as p.
  induction vs as [|x r IH]; intros p; [reflexivity|]. cbn [enc_list_ok]. now rewrite IH.
Qed.
Lemma encodable_struct be pos d vs : encodable be pos d (VStruct vs) =
  (d <? MAX_DEPTH) && negb (match vs with [] => true | _ => false end) && enc_list_ok be (pos + padlen 8 pos) (d + 1) vs.
Proof.
  cbn [encodable]. f_equal. generalize (pos + padlen 8 pos) as p.
  induction vs as [|x r IH]; intros p; [reflexivity|]. cbn [enc_list_ok]. now rewrite IH.
Qed.
Lemma encodable_dict be pos d k vt kvs : encodable be pos d (VDict k vt kvs) =
  let start := pos + padlen 4 pos + 4 + padlen 8 (pos + padlen 4 pos + 4) in
  (d <? MAX_DEPTH) && type_ok vt && (len (spec_enc_entries be start kvs) <=? MAX_ARRAY) && enc_entries_ok be start (d + 1) kvs.
Proof.
  cbn [encodable]. cbv zeta. f_equal.
  generalize (pos + padlen 4 pos + 4 + padlen 8 (pos + padlen 4 pos + 4)) as p.
  induction kvs as [|[a b] r IH]; intros p; [reflexivity|]. cbn [enc_entries_ok fst snd]. cbv zeta. now rewrite IH.
Qed.

(** typing of struct fields, named *)
Fixpoint wt_fields (l : list val) (ts : list ty) : bool :=
  match l, ts with
  | [], [] => true
  | x :: l', t :: ts' => wt x t && wt_fields l' ts'
  | _, _ => false
  end.
Lemma wt_struct_eq vs ts : wt (VStruct vs) (TStruct ts) = wt_fields vs ts.
Proof. reflexivity. Qed.

(** ** conditions on the expected type *)
(* every element type of an array / value type of a dict inside [t] may appear in a signature *)
Fixpoint tys_ok (t : ty) : bool :=
  match t with
  | TBase _ | TVariant => true
  | TArray e => type_ok e && tys_ok e
  | TDict _ v => type_ok v && tys_ok v
  | TStruct ts => forallb tys_ok ts
  end.

Lemma depth_ok_mono t : forall a s a' s', a' <= a -> s' <= s -> depth_ok a s t = true -> depth_ok a' s' t = true.
Proof.
  induction t as [b|e IHe|ts IHts|k v IHv|] using ty_ind'; intros a s a' s' Ha Hs H; cbn [depth_ok] in *; try reflexivity.
  - apply andb_prop in H. destruct H as [H1 H2]. apply N.ltb_lt in H1. apply andb_true_intro. split; [apply N.ltb_lt; lia|].
    eapply IHe; [| |exact H2]; lia.
  - apply andb_prop in H. destruct H as [H1 H2]. apply N.ltb_lt in H1. apply andb_true_intro. split; [apply N.ltb_lt; lia|].
    rewrite forallb_forall in H2 |- *. intros x Hin. rewrite Forall_forall in IHts.
    eapply (IHts x Hin); [| |exact (H2 x Hin)]; lia.
  - apply andb_prop in H. destruct H as [H1 H2]. apply N.ltb_lt in H1. apply andb_true_intro. split; [apply N.ltb_lt; lia|].
    eapply IHv; [| |exact H2]; lia.
Qed.

Lemma len_flat_map_in (ts : list ty) x : In x ts -> len (to_str x) <= len (flat_map to_str ts).
Proof.
  induction ts as [|y ts IH]; intros Hin; [destruct Hin|]. cbn [flat_map]. rewrite len_app.
  destruct Hin as [->|Hin]; [lia|]. specialize (IH Hin). lia.
Qed.

Lemma tys_ok_of_depth t : forall a s, wf t = true -> depth_ok a s t = true -> len (to_str t) <= 255 -> tys_ok t = true.
Proof.
  induction t as [b|e IHe|ts IHts|k v IHv|] using ty_ind'; intros a s Hw Hd Hl; cbn [tys_ok wf depth_ok to_str] in *; try reflexivity.
  - apply andb_prop in Hd. destruct Hd as [_ Hd]. rewrite len_cons in Hl.
    apply andb_true_intro. split; [|eapply IHe; eauto; lia].
    unfold type_ok. rewrite Hw. rewrite (depth_ok_mono e (a + 1) s 0 0) by (try lia; exact Hd).
    cbn [andb]. apply N.leb_le. lia.
  - apply andb_prop in Hd, Hw. destruct Hd as [_ Hd], Hw as [_ Hw].
    rewrite forallb_forall in Hd, Hw |- *. intros x Hin. rewrite Forall_forall in IHts.
    apply (IHts x Hin a (s + 1)); [now apply Hw|now apply Hd|].
    pose proof (len_flat_map_in ts x Hin) as Hle. rewrite len_cons, len_app in Hl. lia.
  - apply andb_prop in Hd. destruct Hd as [_ Hd]. rewrite !len_cons, len_app in Hl.
    apply andb_true_intro. split; [|eapply IHv; eauto; lia].
    unfold type_ok. rewrite Hw. rewrite (depth_ok_mono v (a + 1) s 0 0) by (try lia; exact Hd).
    cbn [andb]. apply N.leb_le. lia.
Qed.
Lemma type_ok_tys_ok t : type_ok t = true -> tys_ok t = true.
Proof.
  unfold type_ok. intros H. apply andb_prop in H. destruct H as [H Hl]. apply andb_prop in H. destruct H as [Hw Hd].
  apply N.leb_le in Hl. eapply tys_ok_of_depth; eauto.
Qed.
Lemma type_ok_wf t : type_ok t = true -> wf t = true.
Proof. unfold type_ok. intros H. apply andb_prop in H. destruct H as [H _]. now apply andb_prop in H. Qed.

(* what the signature of a variant gives *)
Lemma parse_single s t : parse_description s = Ok [t] -> s = to_str t /\ type_ok t = true.
Proof.
  intros H. apply parse_description_spec in H. destruct H as (Hl & Hw & Hd & Es).
  unfold to_str_list in Es. cbn [flat_map] in Es. rewrite app_nil_r in Es. subst s.
  cbn [forallb] in Hw, Hd. rewrite andb_true_r in Hw, Hd. split; [reflexivity|].
  unfold type_ok. rewrite Hw, Hd. cbn [andb]. now apply N.leb_le.
Qed.

(** ** the decoders, one equation per type constructor (named field loops) *)
Section FieldLoops.
  Variable one : ty -> N -> outcome N.
  Variable offset : N.
  (* the `fields` loop of validate's struct arm *)
  Fixpoint v_fields (l : list ty) (used : N) : outcome N :=
    match l with
    | [] => Ok used
    | f :: r => do k <- one f (offset + used); v_fields r (used + k)
    end.
End FieldLoops.
Section PFieldLoops.
  Variable one : ty -> uctx -> outcome (val * uctx).
  Fixpoint p_fields (l : list ty) (c : uctx) (acc : list val) : outcome (list val * uctx) :=
    match l with
    | [] => Ok (rev acc, c)
    | f :: r => do x <- one f c; p_fields r (snd x) (fst x :: acc)
    end.
End PFieldLoops.
Section TFieldLoops.
  Variable one : ety -> uctx -> outcome (val * uctx).
  Fixpoint t_fields (l : list ety) (first : bool) (c : uctx) (acc : list val) : outcome (list val * uctx) :=
    match l with
    | [] => Ok (rev acc, c)
    | f :: r =>
        do c <- (if first then Ok c else u_align (ealign f) c);
        do x <- one f c; t_fields r false (snd x) (fst x :: acc)
    end.
End TFieldLoops.

Lemma validate_0 be d off buf t : validate 0 be d off buf t = OutOfFuel. Proof. reflexivity. Qed.
Lemma validate_base_eq vf be d off buf b : validate (S vf) be d off buf (TBase b) = validate_base be off buf b.
Proof. reflexivity. Qed.
Lemma validate_array_eq vf be d off buf e : validate (S vf) be d off buf (TArray e) =
  if MAX_DEPTH <=? d then Err else
  do padding <- align_offset 4 buf off;
  do n <- parse_u32_at be buf (off + padding);
  do n <- check_array_len n;
  if len buf - (off + padding + 4) <? n then Err else
  do fp <- align_offset (align e) buf (off + padding + 4);
  if len buf - (off + padding + 4 + fp) <? n then Err else
  if bytes_always_valid e then
    (if n mod align e =? 0 then Ok (padding + 4 + fp + n) else Err)
  else
    do used <- elem_loop (fun p => validate (S vf) be (d + 1) p (firstnN (off + padding + 4 + fp + n) buf) e)
                         (S (N.to_nat n)) (off + padding + 4 + fp) n 0;
    Ok (padding + 4 + fp + n).
Proof. reflexivity. Qed.
Lemma validate_dict_eq vf be d off buf k v : validate (S vf) be d off buf (TDict k v) =
  if MAX_DEPTH <=? d then Err else
  do padding <- align_offset 4 buf off;
  do n <- parse_u32_at be buf (off + padding);
  do n <- check_array_len n;
  if len buf - (off + padding + 4) <? n then Err else
  do bp <- align_offset 8 buf (off + padding + 4);
  if len buf - (off + padding + 4 + bp) <? n then Err else
  let clipped := firstnN (off + padding + 4 + bp + n) buf in
  do used <- elem_loop (fun p =>
                          do ep <- align_offset 8 clipped p;
                          do kb <- validate_base be (p + ep) clipped k;
                          do vb <- validate (S vf) be (d + 1) (p + ep + kb) clipped v;
                          Ok (ep + kb + vb))
                       (S (N.to_nat n)) (off + padding + 4 + bp) n 0;
  Ok (padding + bp + 4 + used).
Proof. reflexivity. Qed.
Lemma validate_struct_eq vf be d off buf ts : validate (S vf) be d off buf (TStruct ts) =
  if MAX_DEPTH <=? d then Err else
  do padding <- align_offset 8 buf off;
  do used <- v_fields (fun f p => validate (S vf) be (d + 1) p buf f) (off + padding) ts 0;
  Ok (padding + used).
Proof. reflexivity. Qed.
Lemma validate_variant_eq vf be d off buf : validate (S vf) be d off buf TVariant =
  if MAX_DEPTH <=? d then Err else
  do r <- unmarshal_signature buf off;
  do tys <- parse_description (snd r);
  match tys with
  | [t'] => do pb <- validate vf be (d + 1) (off + fst r) buf t'; Ok (fst r + pb)
  | _ => Err
  end.
Proof. cbn [validate]. destruct (MAX_DEPTH <=? d); [reflexivity|]. destruct (unmarshal_signature buf off) as [[sb sg]| | | |]; reflexivity. Qed.

Lemma unmarshal_p_base_eq vf be b c : unmarshal_p (S vf) be (TBase b) c = u_base be b c.
Proof. reflexivity. Qed.
Lemma unmarshal_p_array_eq vf be e c : unmarshal_p (S vf) be (TArray e) c =
  do c <- u_enter c;
  do r <- (do r <- u_read_fixed be 4 c;
           do n <- check_array_len (fst r);
           do c1 <- u_align (align e) (snd r);
           do s <- u_sub n c1;
           do vs <- sub_loop (unmarshal_p (S vf) be e) (S (N.to_nat n)) (fst s) [];
           Ok (VArray e vs, snd s));
  Ok (fst r, u_leave (snd r)).
Proof. reflexivity. Qed.
Lemma unmarshal_p_dict_eq vf be k v c : unmarshal_p (S vf) be (TDict k v) c =
  do c <- u_enter c;
  do r <- (do r <- u_read_fixed be 4 c;
           do n <- check_array_len (fst r);
           do c1 <- u_align 8 (snd r);
           do s <- u_sub n c1;
           do kvs <- sub_loop (fun c => do c <- u_align 8 c;
                                        do kr <- u_base be k c;
                                        do vr <- unmarshal_p (S vf) be v (snd kr);
                                        Ok ((fst kr, fst vr), snd vr))
                              (S (N.to_nat n)) (fst s) [];
           Ok (VDict k v kvs, snd s));
  Ok (fst r, u_leave (snd r)).
Proof. reflexivity. Qed.
Lemma unmarshal_p_struct_eq vf be ts c : unmarshal_p (S vf) be (TStruct ts) c =
  do c <- u_enter c;
  do r <- (do c <- u_align 8 c;
           match ts with
           | [] => Err
           | _ => do r <- p_fields (unmarshal_p (S vf) be) ts c []; Ok (VStruct (fst r), snd r)
           end);
  Ok (fst r, u_leave (snd r)).
Proof. reflexivity. Qed.
Lemma unmarshal_p_variant_eq vf be c : unmarshal_p (S vf) be TVariant c =
  do c <- u_enter c;
  do r <- (do r <- u_read_sig c;
           do tys <- parse_description (fst r);
           match tys with
           | [t'] => do x <- unmarshal_p vf be t' (snd r); Ok (VVariant t' (fst x), snd x)
           | _ => Err
           end);
  Ok (fst r, u_leave (snd r)).
Proof. reflexivity. Qed.

Lemma unmarshal_t_base_eq vf be b c : unmarshal_t (S vf) be (EBase b) c = u_base be b c.
Proof. reflexivity. Qed.
Lemma unmarshal_t_array_eq vf be x c : unmarshal_t (S vf) be (EArray x) c =
  if valid_slice be (erase x) then
    do r <- u_read_fixed be 4 c;
    do n <- check_array_len (fst r);
    do c1 <- u_align (ealign x) (snd r);
    if negb (n mod ealign x =? 0) then Err else
    if remainder_len c1 <? n then Err else
    match erase x with
    | TBase b => Ok (VArray (erase x) (chunks b (base_size b) (S (N.to_nat n)) (slice (ubuf c1) (uoff c1) n)),
                     set_off c1 (uoff c1 + n))
    | _ => Err
    end
  else
    do c0 <- u_align 4 c;
    do r <- u_read_fixed be 4 c0;
    do n <- check_array_len (fst r);
    do c1 <- u_align (ealign x) (snd r);
    do s <- u_sub n c1;
    do vs <- sub_loop (fun c => do c <- u_align (ealign x) c; unmarshal_t (S vf) be x c) (S (N.to_nat n)) (fst s) [];
    Ok (VArray (erase x) vs, snd s).
Proof. reflexivity. Qed.
Lemma unmarshal_t_dict_eq vf be k v c : unmarshal_t (S vf) be (EDict k v) c =
  do c0 <- u_align 4 c;
  do r <- u_read_fixed be 4 c0;
  do n <- check_array_len (fst r);
  do c1 <- u_align 8 (snd r);
  do s <- u_sub n c1;
  do kvs <- sub_loop (fun c => do c <- u_align 8 c;
                               do kr <- u_base be k c;
                               do c2 <- u_align (ealign v) (snd kr);
                               do vr <- unmarshal_t (S vf) be v c2;
                               Ok ((fst kr, fst vr), snd vr))
                     (S (N.to_nat n)) (fst s) [];
  Ok (VDict k (erase v) kvs, snd s).
Proof. reflexivity. Qed.
Lemma unmarshal_t_struct_eq vf be es c : unmarshal_t (S vf) be (EStruct es) c =
  do c <- u_align 8 c;
  do r <- t_fields (unmarshal_t (S vf) be) es true c [];
  Ok (VStruct (fst r), snd r).
Proof. reflexivity. Qed.
Lemma unmarshal_t_var_eq vf be x c : unmarshal_t (S vf) be (EVar x) c =
  do r <- u_read_sig c;
  match parse_description (fst r) with
  | Ok [t'] =>
      do c1 <- u_align (align t') (snd r);
      do c2 <- u_enter c1;
      do n <- validate 66 be (udepth c2) (uoff c2) (ubuf c2) t';
      do s <- u_sub n c2;
      if ty_eqb t' (erase x) then
        do v <- unmarshal_t vf be x (fst s);
        Ok (VVariant t' (fst v), u_leave (snd s))
      else Err
  | _ => Err
  end.
Proof. reflexivity. Qed.

(** ** cursor operations on contexts *)
Lemma u_align_ok a c c' : 0 < a -> u_align a c = Ok c' ->
  c' = set_off c (uoff c + padlen a (uoff c)) /\ uoff c + padlen a (uoff c) <= len (ubuf c)
  /\ slice (ubuf c) (uoff c) (padlen a (uoff c)) = zeros (padlen a (uoff c)).
Proof.
  intros Ha. unfold u_align. destruct (align_offset a (ubuf c) (uoff c)) as [p| | | |] eqn:E; cbn [bind]; try discriminate.
  destruct (align_offset_ok _ _ _ _ Ha E) as (-> & Hb & Hz).
  destruct (_ <? _); [discriminate|]. intros H. injection H as <-. auto.
Qed.
Lemma u_align_total a c : uoff c <= len (ubuf c) -> ok_or_err (u_align a c).
Proof.
  intros H. unfold u_align. pose proof (align_offset_total a _ _ H) as Ht.
  destruct (align_offset a (ubuf c) (uoff c)); cbn [bind]; try exact Ht. destruct (_ <? _); exact I.
Qed.

Lemma enc_dec_slice be buf off k : bytes_ok buf -> off + N.of_nat k <= len buf ->
  enc be k (dec be (slice buf off (N.of_nat k))) = slice buf off (N.of_nat k)
  /\ dec be (slice buf off (N.of_nat k)) < 256 ^ N.of_nat k.
Proof.
  intros Hb Hl. pose proof (bytes_ok_slice buf off (N.of_nat k) Hb) as Hs.
  assert (L : len (slice buf off (N.of_nat k)) = N.of_nat k) by (apply len_slice; lia).
  split.
  - pose proof (enc_dec be _ Hs) as E. assert (L' : length (slice buf off (N.of_nat k)) = k) by (unfold len in L; lia).
    now rewrite L' in E.
  - pose proof (dec_bound be _ Hs) as B. now rewrite L in B.
Qed.

Lemma u_read_fixed_ok be k c n c' : (0 < k)%nat -> u_read_fixed be k c = Ok (n, c') ->
  let p := padlen (N.of_nat k) (uoff c) in
  c' = set_off c (uoff c + p + N.of_nat k) /\ uoff c + p + N.of_nat k <= len (ubuf c)
  /\ slice (ubuf c) (uoff c) p = zeros p /\ n = dec be (slice (ubuf c) (uoff c + p) (N.of_nat k)).
Proof.
  intros Hk. unfold u_read_fixed. cbv zeta. destruct (Nat.eqb_spec k 1) as [->|Hk1]; cbn [bind].
  - rewrite padlen_1. rewrite N.add_0_r. unfold remainder_len.
    destruct (N.ltb_spec (len (ubuf c) - uoff c) (N.of_nat 1)) as [|H1]; [discriminate|].
    intros H. injection H as <- <-. repeat split; try reflexivity.
    unfold remainder_len in H1. destruct (N.le_gt_cases (uoff c) (len (ubuf c))); [lia|].
    change (N.of_nat 1) with 1 in *. lia.
  - destruct (u_align (N.of_nat k) c) as [c1| | | |] eqn:Ea; cbn [bind]; try discriminate.
    assert (Hk0 : 0 < N.of_nat k) by lia.
    destruct (u_align_ok _ _ _ Hk0 Ea) as (-> & Hb & Hz). unfold remainder_len. cbn [ubuf uoff set_off].
    destruct (N.ltb_spec (len (ubuf c) - (uoff c + padlen (N.of_nat k) (uoff c))) (N.of_nat k)) as [|H1]; [discriminate|].
    intros H. injection H as <- <-. unfold set_off; cbn [ubuf uoff unfds udepth]. repeat split; try assumption; lia.
Qed.
Lemma u_read_fixed_total be k c : uoff c <= len (ubuf c) -> ok_or_err (u_read_fixed be k c).
Proof.
  intros H. unfold u_read_fixed. destruct (Nat.eqb k 1); cbn [bind].
  - destruct (_ <? _); exact I.
  - pose proof (u_align_total (N.of_nat k) c H) as Ht. destruct (u_align (N.of_nat k) c); cbn [bind]; try exact Ht.
    destruct (_ <? _); exact I.
Qed.

Lemma u_sub_ok n c s c' : uoff c <= len (ubuf c) -> u_sub n c = Ok (s, c') ->
  uoff c + n <= len (ubuf c)
  /\ s = {| ubuf := firstnN (uoff c + n) (ubuf c); uoff := uoff c; unfds := unfds c; udepth := udepth c |}
  /\ c' = set_off c (uoff c + n).
Proof.
  intros Hc. unfold u_sub, remainder_len. destruct (N.ltb_spec (len (ubuf c) - uoff c) n) as [|H]; [discriminate|].
  intros E. injection E as <- <-. split; [lia|]. auto.
Qed.
Lemma u_enter_ok c c' : u_enter c = Ok c' ->
  udepth c < MAX_DEPTH /\ c' = {| ubuf := ubuf c; uoff := uoff c; unfds := unfds c; udepth := udepth c + 1 |}.
Proof. unfold u_enter. destruct (N.leb_spec MAX_DEPTH (udepth c)) as [|Hd]; [discriminate|]. intros E. injection E as <-. auto. Qed.

(** ** what it means that a region of the buffer is the encoding of a value *)
Definition denotes (be : bool) (d : N) (buf : list N) (off n : N) (v : val) (t : ty) : Prop :=
  wt v t = true /\ encodable be off d v = true /\ slice buf off n = spec_enc be off v /\ off + n <= len buf.

Lemma denotes_len be d buf off n v t : denotes be d buf off n v t -> len (spec_enc be off v) = n.
Proof. intros (_ & _ & E & Hb). rewrite <- E. now apply len_slice. Qed.

Lemma denotes_clip be d buf k off n v t : denotes be d (firstnN k buf) off n v t -> denotes be d buf off n v t.
Proof.
  intros (Hw & He & Es & Hb). rewrite len_firstnN in Hb. repeat split; try assumption; [|lia].
  rewrite <- Es. symmetry. apply slice_firstnN. lia.
Qed.

(* a sequence of adjacent items between two positions *)
Inductive chain {X} (R : N -> N -> X -> Prop) : N -> N -> list X -> Prop :=
| chain_nil a : chain R a a []
| chain_cons a k b x xs : R a k x -> chain R (a + k) b xs -> chain R a b (x :: xs).

Lemma chain_le {X} (R : N -> N -> X -> Prop) a b xs : chain R a b xs -> a <= b.
Proof. induction 1; lia. Qed.
Lemma chain_impl {X} (R R' : N -> N -> X -> Prop) a b xs : (forall p k x, R p k x -> R' p k x) -> chain R a b xs -> chain R' a b xs.
Proof. intros H. induction 1; econstructor; eauto. Qed.

(* elements of an array *)
Lemma chain_values be d buf e a b vs : b <= len buf -> chain (fun p k x => denotes be d buf p k x e) a b vs ->
  forallb (fun x => wt x e) vs = true /\ enc_list_ok be a d vs = true /\ slice buf a (b - a) = spec_enc_list be a vs.
Proof.
  intros Hb H. induction H as [a|a k b x xs Hx Hxs IH].
  - rewrite N.sub_diag. auto.
  - pose proof (chain_le _ _ _ _ Hxs) as Hle. specialize (IH Hb). destruct IH as (IH1 & IH2 & IH3).
    pose proof (denotes_len _ _ _ _ _ _ _ Hx) as Hl. destruct Hx as (Hw & He & Es & Hbx).
    cbn [forallb enc_list_ok spec_enc_list]. rewrite Hw, He, Hl, IH1, IH2. repeat split.
    replace (b - a) with (k + (b - (a + k))) by lia. rewrite slice_add, Es, IH3. reflexivity.
Qed.

(* fields of a struct: items carry their types *)
Lemma chain_fields be d buf a b (xs : list (val * ty)) : b <= len buf ->
  chain (fun p k x => denotes be d buf p k (fst x) (snd x)) a b xs ->
  wt_fields (map fst xs) (map snd xs) = true /\ enc_list_ok be a d (map fst xs) = true
  /\ slice buf a (b - a) = spec_enc_list be a (map fst xs).
Proof.
  intros Hb H. induction H as [a|a k b x xs Hx Hxs IH].
  - rewrite N.sub_diag. auto.
  - pose proof (chain_le _ _ _ _ Hxs) as Hle. specialize (IH Hb). destruct IH as (IH1 & IH2 & IH3).
    pose proof (denotes_len _ _ _ _ _ _ _ Hx) as Hl. destruct Hx as (Hw & He & Es & Hbx).
    cbn [map wt_fields enc_list_ok spec_enc_list]. rewrite Hw, He, Hl, IH1, IH2. repeat split.
    replace (b - a) with (k + (b - (a + k))) by lia. rewrite slice_add, Es, IH3. reflexivity.
Qed.

(* entries of a dict *)
Definition denotes_entry (be : bool) (d : N) (buf : list N) (kt : base) (vt : ty) (p k : N) (kv : val * val) : Prop :=
  exists k1 k2, k = padlen 8 p + k1 + k2
    /\ slice buf p (padlen 8 p) = zeros (padlen 8 p)
    /\ denotes be d buf (p + padlen 8 p) k1 (fst kv) (TBase kt)
    /\ denotes be d buf (p + padlen 8 p + k1) k2 (snd kv) vt.

Lemma denotes_entry_enc be d buf kt vt p k kv : denotes_entry be d buf kt vt p k kv ->
  slice buf p k = spec_enc_entry be p kv /\ p + k <= len buf.
Proof.
  intros (k1 & k2 & -> & Hz & Ha & Hb).
  pose proof (denotes_len _ _ _ _ _ _ _ Ha) as La. destruct Ha as (_ & _ & Ea & Hba). destruct Hb as (_ & _ & Eb & Hbb).
  split; [|lia]. unfold spec_enc_entry. cbv zeta. rewrite len_zeros, La.
  rewrite <- N.add_assoc, slice_add, Hz. f_equal. rewrite slice_add, Ea, Eb. reflexivity.
Qed.

Lemma chain_entries be d buf kt vt a b kvs : b <= len buf -> chain (denotes_entry be d buf kt vt) a b kvs ->
  forallb (fun kv => wt (fst kv) (TBase kt) && wt (snd kv) vt) kvs = true /\ enc_entries_ok be a d kvs = true
  /\ slice buf a (b - a) = spec_enc_entries be a kvs.
Proof.
  intros Hb H. induction H as [a|a k b x xs Hx Hxs IH].
  - rewrite N.sub_diag. auto.
  - pose proof (chain_le _ _ _ _ Hxs) as Hle. specialize (IH Hb). destruct IH as (IH1 & IH2 & IH3).
    destruct (denotes_entry_enc _ _ _ _ _ _ _ _ Hx) as [Ee Hbe].
    assert (Hl : len (spec_enc_entry be a x) = k) by (rewrite <- Ee; apply len_slice; lia).
    destruct Hx as (k1 & k2 & Ek & Hz & Ha & Hv).
    pose proof (denotes_len _ _ _ _ _ _ _ Ha) as La.
    destruct Ha as (Hwa & Hea & _ & _). destruct Hv as (Hwv & Hev & _ & _).
    cbn [forallb enc_entries_ok spec_enc_entries]. cbv zeta. rewrite Hwa, Hwv, Hea, La, Hev, Hl, IH1, IH2. repeat split.
    replace (b - a) with (k + (b - (a + k))) by lia. rewrite slice_add, Ee, IH3. reflexivity.
Qed.

(** ** building the denotation of each kind of value from what a decoder has checked *)
Lemma base_eqb_refl b : base_eqb b b = true. Proof. unfold base_eqb. apply N.eqb_refl. Qed.

Lemma denotes_fixed be d buf off b : is_text b = false -> bytes_ok buf ->
  let p := padlen (base_align b) off in
  let k := N.of_nat (base_size b) in
  slice buf off p = zeros p -> off + p + k <= len buf ->
  (b = BBoolean -> dec be (slice buf (off + p) k) < 2) ->
  denotes be d buf off (p + k) (VBase b (dec be (slice buf (off + p) k))) (TBase b).
Proof.
  intros Ht Hb p k Hz Hl Hbool. destruct (enc_dec_slice be buf (off + p) (base_size b) Hb Hl) as [E B].
  subst k. unfold denotes. cbn [wt encodable spec_enc]. fold p. rewrite base_eqb_refl, Ht. cbn [negb andb].
  apply N.ltb_lt in B. rewrite B. cbn [andb]. repeat split.
  - destruct b; try reflexivity. apply N.ltb_lt. now apply Hbool.
  - rewrite slice_add, Hz, E. reflexivity.
  - lia.
Qed.

Lemma denotes_string be d buf off b k s : (b = BString \/ (b = BObjectPath /\ valid_path s = true)) -> bytes_ok buf ->
  let p := padlen 4 off in
  slice buf off p = zeros p -> unmarshal_str be buf (off + p) = Ok (k, s) ->
  denotes be d buf off (p + k) (VText b s) (TBase b).
Proof.
  intros Hbs Hb p Hz Hs. destruct (unmarshal_str_ok _ _ _ _ _ Hb Hs) as (-> & Hl & Es & Hu & Hn & Hlen).
  apply N.ltb_lt in Hlen. unfold denotes. repeat split.
  - destruct Hbs as [->|[-> _]]; reflexivity.
  - destruct Hbs as [->|[-> Hp]]; cbn [encodable]; rewrite Hu, Hlen; [now rewrite Hn|now rewrite Hp].
  - rewrite slice_add, Hz, Es. destruct Hbs as [->|[-> _]]; reflexivity.
  - lia.
Qed.

Lemma denotes_signature be d buf off k s : unmarshal_signature buf off = Ok (k, s) ->
  is_ok (validate_signature s) = true -> denotes be d buf off k (VText BSignature s) (TBase BSignature).
Proof.
  intros Hs Hv. destruct (unmarshal_signature_ok _ _ _ _ Hs) as (-> & Hl & Es & _).
  unfold denotes. cbn [wt encodable spec_enc is_text]. rewrite base_eqb_refl. auto.
Qed.

Lemma validate_base_sound be d buf off b n : bytes_ok buf -> validate_base be off buf b = Ok n ->
  exists v, denotes be d buf off n v (TBase b).
Proof.
  intros Hb. unfold validate_base.
  destruct (align_offset (base_align b) buf off) as [p| | | |] eqn:Ea; cbn [bind]; try discriminate.
  destruct (align_offset_ok _ _ _ _ (base_align_pos b) Ea) as (Ep & Hlp & Hz). rewrite Ep in Hz.
  assert (Hfix : is_text b = false ->
     (if len buf - (off + p) <? N.of_nat (base_size b) then Err else Ok (N.of_nat (base_size b) + p)) = Ok n ->
     b <> BBoolean -> exists v, denotes be d buf off n v (TBase b)).
  { intros Ht H Hnb. destruct (N.ltb_spec (len buf - (off + p)) (N.of_nat (base_size b))) as [|Hk]; [discriminate|].
    injection H as <-. eexists. rewrite N.add_comm, Ep. apply denotes_fixed; try assumption; [lia|]. intros ->. now elim Hnb. }
  destruct b; try (intros H; apply Hfix; [reflexivity|exact H|discriminate]).
  - (* string *)
    destruct (unmarshal_str be buf (off + p)) as [[k s]| | | |] eqn:Es; cbn [bind]; try discriminate.
    intros H. injection H as <-. cbn [fst]. exists (VText BString s). rewrite N.add_comm, Ep. rewrite Ep in Es.
    apply denotes_string; auto.
  - (* signature *)
    destruct (unmarshal_signature buf off) as [[k s]| | | |] eqn:Es; cbn [bind]; try discriminate. cbn [fst snd].
    destruct (is_ok (validate_signature s)) eqn:Ev; [|discriminate]. intros H. injection H as <-.
    exists (VText BSignature s). cbn [base_align] in Ep. rewrite padlen_1 in Ep. subst p. rewrite N.add_0_r.
    now apply denotes_signature.
  - (* object path *)
    destruct (unmarshal_str be buf (off + p)) as [[k s]| | | |] eqn:Es; cbn [bind]; try discriminate. cbn [fst snd].
    destruct (valid_path s) eqn:Ev; [|discriminate].
    intros H. injection H as <-. exists (VText BObjectPath s). rewrite N.add_comm, Ep. rewrite Ep in Es.
    apply denotes_string; auto.
  - (* boolean *)
    destruct (N.ltb_spec (len buf - (off + p)) 4) as [|Hk]; [discriminate|].
    destruct (N.ltb_spec (dec be (slice buf (off + p) 4)) 2) as [H2|]; [|discriminate]. intros H. injection H as <-.
    eexists. rewrite N.add_comm. cbn [base_align] in Ep. subst p.
    apply (denotes_fixed be d buf off BBoolean); try assumption; try reflexivity.
    + cbn [base_size base_align]. change (N.of_nat 4) with 4. lia.
    + intros _. cbn [base_size base_align]. change (N.of_nat 4) with 4. exact H2.
Qed.

Lemma len_sig_bytes s : len (sig_bytes s) = len s + 2.
Proof. unfold sig_bytes. rewrite len_cons, len_app. change (len [0]) with 1. lia. Qed.

Lemma denotes_variant be d buf off k s t m x :
  d < MAX_DEPTH -> unmarshal_signature buf off = Ok (k, s) -> parse_description s = Ok [t] ->
  denotes be (d + 1) buf (off + k) m x t ->
  denotes be d buf off (k + m) (VVariant t x) TVariant.
Proof.
  intros Hd Hs Hp Hx. destruct (unmarshal_signature_ok _ _ _ _ Hs) as (Ek & Hl & Es & _).
  destruct (parse_single _ _ Hp) as [-> Hok]. destruct Hx as (Hw & He & Ex & Hbx).
  assert (Lk : len (sig_bytes (to_str t)) = k) by (rewrite len_sig_bytes; lia).
  unfold denotes. cbn [wt encodable spec_enc]. cbv zeta. rewrite Lk. apply N.ltb_lt in Hd. rewrite Hd, Hok, He, Hw.
  repeat split; [|lia]. rewrite slice_add, Es, Ex. reflexivity.
Qed.

Lemma denotes_array be d buf off e n vs :
  let p1 := padlen 4 off in
  let start := off + p1 + 4 in
  let p2 := padlen (align e) start in
  d < MAX_DEPTH -> type_ok e = true -> n <= MAX_ARRAY ->
  slice buf off p1 = zeros p1 -> slice buf (off + p1) 4 = enc be 4 n -> slice buf start p2 = zeros p2 ->
  start + p2 + n <= len buf ->
  chain (fun p k x => denotes be (d + 1) buf p k x e) (start + p2) (start + p2 + n) vs ->
  denotes be d buf off (p1 + 4 + p2 + n) (VArray e vs) (TArray e).
Proof.
  intros p1 start p2 Hd Hok Hn Hz1 En Hz2 Hl Hc.
  destruct (chain_values _ _ _ _ _ _ _ Hl Hc) as (Hw & He & Es).
  replace (start + p2 + n - (start + p2)) with n in Es by lia.
  assert (Ln : len (spec_enc_list be (start + p2) vs) = n) by (rewrite <- Es; apply len_slice; lia).
  unfold denotes. rewrite encodable_array, spec_enc_array. cbv zeta. fold p1. fold start. fold p2.
  cbn [wt]. rewrite ty_eqb_refl, Hw, Ln, Hok, He. apply N.ltb_lt in Hd. apply N.leb_le in Hn. rewrite Hd, Hn.
  repeat split; [|subst start; lia].
  replace (p1 + 4 + p2 + n) with (p1 + (4 + (p2 + n))) by lia.
  rewrite slice_add, Hz1. f_equal. rewrite slice_add, En. f_equal.
  fold start. rewrite slice_add, Hz2, Es. reflexivity.
Qed.

Lemma denotes_dict be d buf off kt vt n kvs :
  let p1 := padlen 4 off in
  let start := off + p1 + 4 in
  let p2 := padlen 8 start in
  d < MAX_DEPTH -> type_ok vt = true -> n <= MAX_ARRAY ->
  slice buf off p1 = zeros p1 -> slice buf (off + p1) 4 = enc be 4 n -> slice buf start p2 = zeros p2 ->
  start + p2 + n <= len buf ->
  chain (denotes_entry be (d + 1) buf kt vt) (start + p2) (start + p2 + n) kvs ->
  denotes be d buf off (p1 + 4 + p2 + n) (VDict kt vt kvs) (TDict kt vt).
Proof.
  intros p1 start p2 Hd Hok Hn Hz1 En Hz2 Hl Hc.
  destruct (chain_entries _ _ _ _ _ _ _ _ Hl Hc) as (Hw & He & Es).
  replace (start + p2 + n - (start + p2)) with n in Es by lia.
  assert (Ln : len (spec_enc_entries be (start + p2) kvs) = n) by (rewrite <- Es; apply len_slice; lia).
  unfold denotes. rewrite encodable_dict, spec_enc_dict. cbv zeta. fold p1. fold start. fold p2.
  cbn [wt]. rewrite base_eqb_refl, ty_eqb_refl, Hw, Ln, Hok, He. apply N.ltb_lt in Hd. apply N.leb_le in Hn. rewrite Hd, Hn.
  repeat split; [|subst start; lia].
  replace (p1 + 4 + p2 + n) with (p1 + (4 + (p2 + n))) by lia.
  rewrite slice_add, Hz1. f_equal. rewrite slice_add, En. f_equal.
  fold start. rewrite slice_add, Hz2, Es. reflexivity.
Qed.

Lemma denotes_struct be d buf off u (xs : list (val * ty)) :
  let p := padlen 8 off in
  d < MAX_DEPTH -> xs <> [] -> slice buf off p = zeros p -> off + p + u <= len buf ->
  chain (fun q k x => denotes be (d + 1) buf q k (fst x) (snd x)) (off + p) (off + p + u) xs ->
  denotes be d buf off (p + u) (VStruct (map fst xs)) (TStruct (map snd xs)).
Proof.
  intros p Hd Hne Hz Hl Hc.
  destruct (chain_fields _ _ _ _ _ _ Hl Hc) as (Hw & He & Es).
  replace (off + p + u - (off + p)) with u in Es by lia.
  unfold denotes. rewrite encodable_struct, spec_enc_struct, wt_struct_eq. fold p.
  apply N.ltb_lt in Hd. rewrite Hw, He, Hd.
  repeat split; [destruct xs; [now elim Hne|reflexivity]| |lia].
  rewrite slice_add, Hz, Es. reflexivity.
Qed.

(** ** the common header of arrays and dicts in the value decoders: length, element alignment, sub-context *)
Definition u_header (be : bool) (a : N) (c : uctx) : outcome (N * (uctx * uctx)) :=
  do r <- u_read_fixed be 4 c;
  do n <- check_array_len (fst r);
  do c1 <- u_align a (snd r);
  do s <- u_sub n c1;
  Ok (n, s).

Lemma unmarshal_p_array_eq' vf be e c : unmarshal_p (S vf) be (TArray e) c =
  do c <- u_enter c;
  do r <- (do h <- u_header be (align e) c;
           do vs <- sub_loop (unmarshal_p (S vf) be e) (S (N.to_nat (fst h))) (fst (snd h)) [];
           Ok (VArray e vs, snd (snd h)));
  Ok (fst r, u_leave (snd r)).
Proof.
  rewrite unmarshal_p_array_eq. unfold u_header. destruct (u_enter c) as [c0| | | |]; cbn [bind]; try reflexivity.
  destruct (u_read_fixed be 4 c0) as [r| | | |]; cbn [bind]; try reflexivity.
  destruct (check_array_len (fst r)) as [n| | | |]; cbn [bind]; try reflexivity.
  destruct (u_align (align e) (snd r)) as [c1| | | |]; cbn [bind]; try reflexivity.
  destruct (u_sub n c1) as [s| | | |]; cbn [bind]; reflexivity.
Qed.
Lemma unmarshal_p_dict_eq' vf be k v c : unmarshal_p (S vf) be (TDict k v) c =
  do c <- u_enter c;
  do r <- (do h <- u_header be 8 c;
           do kvs <- sub_loop (fun c => do c <- u_align 8 c;
                                        do kr <- u_base be k c;
                                        do vr <- unmarshal_p (S vf) be v (snd kr);
                                        Ok ((fst kr, fst vr), snd vr))
                              (S (N.to_nat (fst h))) (fst (snd h)) [];
           Ok (VDict k v kvs, snd (snd h)));
  Ok (fst r, u_leave (snd r)).
Proof.
  rewrite unmarshal_p_dict_eq. unfold u_header. destruct (u_enter c) as [c0| | | |]; cbn [bind]; try reflexivity.
  destruct (u_read_fixed be 4 c0) as [r| | | |]; cbn [bind]; try reflexivity.
  destruct (check_array_len (fst r)) as [n| | | |]; cbn [bind]; try reflexivity.
  destruct (u_align 8 (snd r)) as [c1| | | |]; cbn [bind]; try reflexivity.
  destruct (u_sub n c1) as [s| | | |]; cbn [bind]; reflexivity.
Qed.
Lemma unmarshal_t_array_slow_eq vf be x c : valid_slice be (erase x) = false -> unmarshal_t (S vf) be (EArray x) c =
  do c0 <- u_align 4 c;
  do h <- u_header be (ealign x) c0;
  do vs <- sub_loop (fun c => do c <- u_align (ealign x) c; unmarshal_t (S vf) be x c) (S (N.to_nat (fst h))) (fst (snd h)) [];
  Ok (VArray (erase x) vs, snd (snd h)).
Proof.
  intros Hvs. rewrite unmarshal_t_array_eq, Hvs. unfold u_header. destruct (u_align 4 c) as [c0| | | |]; cbn [bind]; try reflexivity.
  destruct (u_read_fixed be 4 c0) as [r| | | |]; cbn [bind]; try reflexivity.
  destruct (check_array_len (fst r)) as [n| | | |]; cbn [bind]; try reflexivity.
  destruct (u_align (ealign x) (snd r)) as [c1| | | |]; cbn [bind]; try reflexivity.
  destruct (u_sub n c1) as [s| | | |]; cbn [bind]; reflexivity.
Qed.
Lemma unmarshal_t_dict_eq' vf be k v c : unmarshal_t (S vf) be (EDict k v) c =
  do c0 <- u_align 4 c;
  do h <- u_header be 8 c0;
  do kvs <- sub_loop (fun c => do c <- u_align 8 c;
                               do kr <- u_base be k c;
                               do c2 <- u_align (ealign v) (snd kr);
                               do vr <- unmarshal_t (S vf) be v c2;
                               Ok ((fst kr, fst vr), snd vr))
                     (S (N.to_nat (fst h))) (fst (snd h)) [];
  Ok (VDict k (erase v) kvs, snd (snd h)).
Proof.
  rewrite unmarshal_t_dict_eq. unfold u_header. destruct (u_align 4 c) as [c0| | | |]; cbn [bind]; try reflexivity.
  destruct (u_read_fixed be 4 c0) as [r| | | |]; cbn [bind]; try reflexivity.
  destruct (check_array_len (fst r)) as [n| | | |]; cbn [bind]; try reflexivity.
  destruct (u_align 8 (snd r)) as [c1| | | |]; cbn [bind]; try reflexivity.
  destruct (u_sub n c1) as [s| | | |]; cbn [bind]; reflexivity.
Qed.

Lemma check_array_len_ok n m : check_array_len n = Ok m -> m = n /\ n <= MAX_ARRAY.
Proof. unfold check_array_len. destruct (N.ltb_spec MAX_ARRAY n) as [|Hn]; [discriminate|]. intros E. injection E as <-. auto. Qed.

(* what a successful header says about the bytes *)
Lemma u_header_ok be a c n s c3 : 0 < a -> bytes_ok (ubuf c) -> u_header be a c = Ok (n, (s, c3)) ->
  let off := uoff c in
  let p1 := padlen 4 off in
  let start := off + p1 + 4 in
  let p2 := padlen a start in
  n <= MAX_ARRAY /\ slice (ubuf c) off p1 = zeros p1 /\ slice (ubuf c) (off + p1) 4 = enc be 4 n
  /\ slice (ubuf c) start p2 = zeros p2 /\ start + p2 + n <= len (ubuf c)
  /\ s = {| ubuf := firstnN (start + p2 + n) (ubuf c); uoff := start + p2; unfds := unfds c; udepth := udepth c |}
  /\ c3 = set_off c (start + p2 + n).
Proof.
  intros Ha Hb. unfold u_header.
  destruct (u_read_fixed be 4 c) as [[n0 c1]| | | |] eqn:E1; cbn [bind fst snd]; try discriminate.
  destruct (u_read_fixed_ok be 4 _ _ _ (Nat.lt_0_succ 3) E1) as (-> & Hl1 & Hz1 & En). cbv zeta in *. change (N.of_nat 4) with 4 in *.
  destruct (check_array_len n0) as [n1| | | |] eqn:E2; cbn [bind]; try discriminate.
  destruct (check_array_len_ok _ _ E2) as [-> Hmax].
  destruct (u_align a _) as [c2| | | |] eqn:E3; cbn [bind]; try discriminate.
  destruct (u_align_ok _ _ _ Ha E3) as (-> & Hl2 & Hz2). cbn [set_off ubuf uoff unfds udepth] in *.
  destruct (u_sub n0 _) as [[s' c3']| | | |] eqn:E4; cbn [bind]; try discriminate.
  apply u_sub_ok in E4; [|exact Hl2]. destruct E4 as (Hl3 & -> & ->). cbn [set_off ubuf uoff unfds udepth] in *.
  intros H. injection H as <- <- <-. repeat split; try assumption.
  subst n0. destruct (enc_dec_slice be (ubuf c) (uoff c + padlen 4 (uoff c)) 4 Hb ltac:(change (N.of_nat 4) with 4; lia)) as [E _].
  change (N.of_nat 4) with 4 in E. now symmetry.
Qed.

(** ** extended (Rust) types: induction principle, well-formedness, nesting measures *)
Section ety_ind'.
  Variable P : ety -> Prop.
  Hypothesis Hbase : forall b, P (EBase b).
  Hypothesis Harr : forall x, P x -> P (EArray x).
  Hypothesis Hstruct : forall es, Forall P es -> P (EStruct es).
  Hypothesis Hdict : forall k v, P v -> P (EDict k v).
  Hypothesis Hvar : forall x, P x -> P (EVar x).
  Fixpoint ety_ind' (e : ety) : P e :=
    match e with
    | EBase b => Hbase b
    | EArray x => Harr x (ety_ind' x)
    | EStruct es => Hstruct es ((fix go (l : list ety) : Forall P l :=
                                   match l with [] => Forall_nil P | x :: xs => Forall_cons x (ety_ind' x) (go xs) end) es)
    | EDict k v => Hdict k v (ety_ind' v)
    | EVar x => Hvar x (ety_ind' x)
    end.
End ety_ind'.

(* no empty tuple structs, also inside variants *)
Fixpoint ewf (e : ety) : bool :=
  match e with
  | EBase _ => true
  | EArray x => ewf x
  | EStruct es => negb (match es with [] => true | _ => false end) && forallb ewf es
  | EDict _ v => ewf v
  | EVar x => ewf x
  end.
(* how many Variant<..> are nested inside each other: what the typed decoder's fuel counts *)
Fixpoint evars (e : ety) : nat :=
  match e with
  | EBase _ => 0
  | EArray x => evars x
  | EStruct es => fold_right (fun x m => Nat.max (evars x) m) 0%nat es
  | EDict _ v => evars v
  | EVar x => S (evars x)
  end.
(* container nesting of the Rust type: a bound on the nesting of every value it can decode *)
Fixpoint edepth (e : ety) : N :=
  match e with
  | EBase _ => 0
  | EArray x => 1 + edepth x
  | EStruct es => 1 + fold_right (fun x m => N.max (edepth x) m) 0 es
  | EDict _ v => 1 + edepth v
  | EVar x => 1 + edepth x
  end.

Lemma ewf_wf e : ewf e = true -> wf (erase e) = true.
Proof.
  induction e as [b|x IH|es IH|k v IH|x IH] using ety_ind'; cbn [ewf erase wf]; auto.
  intros H. apply andb_prop in H. destruct H as [Hne H]. apply andb_true_intro. split.
  - destruct es; [discriminate|reflexivity].
  - rewrite forallb_forall in H |- *. intros t Hin. apply in_map_iff in Hin. destruct Hin as (x & <- & Hin).
    rewrite Forall_forall in IH. apply IH; auto.
Qed.
Lemma evars_in es x : In x es -> (evars x <= evars (EStruct es))%nat.
Proof. cbn [evars]. induction es as [|y es IH]; intros Hin; [destruct Hin|]. cbn [fold_right]. destruct Hin as [->|Hin]; [lia|]. specialize (IH Hin). lia. Qed.
Lemma edepth_in es x : In x es -> 1 + edepth x <= edepth (EStruct es).
Proof. cbn [edepth]. induction es as [|y es IH]; intros Hin; [destruct Hin|]. cbn [fold_right]. destruct Hin as [->|Hin]; [lia|]. specialize (IH Hin). lia. Qed.

(* the EVar clause with enter_container unfolded *)
Lemma unmarshal_t_var_eq' vf be x c : unmarshal_t (S vf) be (EVar x) c =
  do r <- u_read_sig c;
  match parse_description (fst r) with
  | Ok [t'] =>
      do c1 <- u_align (align t') (snd r);
      if MAX_DEPTH <=? udepth c1 then Err else
      do n <- validate 66 be (udepth c1 + 1) (uoff c1) (ubuf c1) t';
      do s <- u_sub n {| ubuf := ubuf c1; uoff := uoff c1; unfds := unfds c1; udepth := udepth c1 + 1 |};
      if ty_eqb t' (erase x) then
        do v <- unmarshal_t vf be x (fst s);
        Ok (VVariant t' (fst v), u_leave (snd s))
      else Err
  | _ => Err
  end.
Proof.
  rewrite unmarshal_t_var_eq. destruct (u_read_sig c) as [r| | | |]; cbn [bind]; try reflexivity.
  destruct (parse_description (fst r)) as [[|t' [|]]| | | |]; try reflexivity.
  destruct (u_align (align t') (snd r)) as [c1| | | |]; cbn [bind]; try reflexivity.
  unfold u_enter. destruct (MAX_DEPTH <=? udepth c1); reflexivity.
Qed.
