(** C04, generated enum decoders: #[derive(Unmarshal)] on an enum, dbus_variant_sig!, dbus_variant_var! (models: Wire/Enums.v, over
    the Rust type algebra [rty] of Wire/Derive.v) return a value or an error on every input - never Panic, UB or exhausted fuel -
    and so does Catchall(variant).get::<T>(). The payload types range over [rty] (finite trees: types that do not contain the
    enum itself; see known finding D21 for self-referential ones). *)
From RB Require Import Base.Prelude Sig.Types Sig.Parser Sig.ParserProofs Sig.Validator Sig.Iter Wire.Bytes Wire.Align Wire.Text Wire.Value
  Wire.SpecEnc Wire.Marshal Wire.Decode Wire.Unmarshal Wire.HasSig Wire.Derive Wire.DeriveProofs Wire.Enums
  Wire.DecodeSoundLemmas Wire.DecodeTotal.

(* a payload type the typed-decoder totality theorem covers: no empty tuple struct, at most 65 Variant<..> nested in the type *)
Definition rty_ok (r : rty) : Prop := ewf (tup r) = true /\ (evars (tup r) <= 65)%nat.

Lemma unmarshal_r_good be r c : rty_ok r -> uoff c <= len (ubuf c) -> good c (unmarshal_r 66 be r c).
Proof. intros [Hw Hv] Hc. rewrite unmarshal_r_tup. apply unmarshal_t_good; [exact Hw|exact Hc|lia]. Qed.

Lemma in_bounds_after {A} c (r : A * uctx) : good c (Ok r) -> uoff (snd r) <= len (ubuf (snd r)).
Proof. intros [E H]. rewrite E. cbn [set_off ubuf uoff]. lia. Qed.

Lemma moved_in c c' : moved c c' -> uoff c' <= len (ubuf c').
Proof. intros [E H]. rewrite E. cbn [set_off ubuf uoff]. lia. Qed.

(* sub_context_for_value on a type that came out of parse_description *)
Lemma catch_value_total be t c1 : type_ok t = true -> uoff c1 <= len (ubuf c1) ->
  forall (K : uctx * uctx -> outcome (eres * uctx)), (forall s, ok_or_err (K s)) ->
  ok_or_err (do c2 <- u_enter c1; do n <- validate 66 be (udepth c2) (uoff c2) (ubuf c2) t; do s <- u_sub n c2; K s).
Proof.
  intros Htok Hc K HK. unfold u_enter. destruct (MAX_DEPTH <=? udepth c1); [exact I|]. cbn [bind ubuf uoff udepth].
  pose proof (validate_good be 66 t (udepth c1 + 1) (uoff c1) (ubuf c1) (type_ok_wf _ Htok) Hc ltac:(lia) ltac:(cbn; lia)) as G.
  destruct (validate 66 be (udepth c1 + 1) (uoff c1) (ubuf c1) t) as [n| | | |]; cbn [bind]; try exact G.
  unfold u_sub, remainder_len. cbn [ubuf uoff]. destruct (_ <? _); [exact I|]. cbn [bind]. apply HK.
Qed.

Lemma derive_cases_total be cs : Forall (fun k => rty_ok (case_rty k)) cs ->
  forall i sg c, uoff c <= len (ubuf c) -> ok_or_err (derive_enum_cases 66 be cs i sg c).
Proof.
  induction 1 as [|k cs Hk _ IH]; intros i sg c Hc; cbn [derive_enum_cases]; [exact I|].
  destruct (str_eqb sg (case_sig_str k)); [|now apply IH].
  pose proof (unmarshal_r_good be (case_rty k) c Hk Hc) as G.
  destruct (unmarshal_r 66 be (case_rty k) c); cbn [bind]; try exact G. exact I.
Qed.

Theorem derive_enum_unmarshal_total be cs c : Forall (fun k => rty_ok (case_rty k)) cs -> uoff c <= len (ubuf c) ->
  ok_or_err (derive_enum_unmarshal 66 be cs c).
Proof.
  intros Hcs Hc. unfold derive_enum_unmarshal. pose proof (u_read_sig_moved c Hc) as G.
  destruct (u_read_sig c) as [r| | | |]; cbn [bind]; try exact G. destruct G as [G _].
  apply derive_cases_total; [exact Hcs|exact (moved_in _ _ G)].
Qed.

Lemma sig_cases_total be cs : Forall rty_ok cs ->
  forall i t c, uoff c <= len (ubuf c) -> ok_or_err (sig_macro_cases 66 be cs i t c).
Proof.
  induction 1 as [|r cs Hr _ IH]; intros i t c Hc; cbn [sig_macro_cases]; [exact I|].
  destruct (ty_eqb t (sig_r r)); [|now apply IH].
  pose proof (unmarshal_r_good be r c Hr Hc) as G.
  destruct (unmarshal_r 66 be r c); cbn [bind]; try exact G. exact I.
Qed.

Theorem sig_macro_unmarshal_total be cs c : Forall rty_ok cs -> uoff c <= len (ubuf c) ->
  ok_or_err (sig_macro_unmarshal 66 be cs c).
Proof.
  intros Hcs Hc. unfold sig_macro_unmarshal. pose proof (u_read_sig_moved c Hc) as G.
  destruct (u_read_sig c) as [r| | | |]; cbn [bind]; try exact G. destruct G as [G _]. apply moved_in in G.
  pose proof (parse_description_total (fst r)) as P.
  destruct (parse_description (fst r)) as [tys| | | |] eqn:Ep; cbn [bind]; try exact P.
  destruct tys as [|t [|]]; try exact I.
  pose proof (sig_cases_total be cs Hcs 0%nat t (snd r) G) as S.
  destruct (sig_macro_cases 66 be cs 0 t (snd r)) as [[x|]| | | |]; cbn [bind]; try exact S.
  destruct (parse_single _ _ Ep) as [_ Htok].
  apply (catch_value_total be t (snd r) Htok G (fun s => Ok (ECatchSig t, u_leave (snd s)))). intros s. exact I.
Qed.

Lemma var_cases_total be cs : Forall rty_ok cs ->
  forall i sg c, uoff c <= len (ubuf c) -> ok_or_err (var_macro_cases 66 be cs i sg c).
Proof.
  induction 1 as [|r cs Hr _ IH]; intros i sg c Hc; cbn [var_macro_cases]; [exact I|].
  destruct (str_eqb sg (sig_str_r r)); [|now apply IH].
  pose proof (unmarshal_r_good be r c Hr Hc) as G.
  destruct (unmarshal_r 66 be r c); cbn [bind]; try exact G. exact I.
Qed.

Theorem var_macro_unmarshal_total be cs c : Forall rty_ok cs -> uoff c <= len (ubuf c) ->
  ok_or_err (var_macro_unmarshal 66 be cs c).
Proof.
  intros Hcs Hc. unfold var_macro_unmarshal. pose proof (u_read_sig_moved c Hc) as G.
  destruct (u_read_sig c) as [r| | | |]; cbn [bind]; try exact G. destruct G as [G _]. apply moved_in in G.
  pose proof (var_cases_total be cs Hcs 0%nat (fst r) (snd r) G) as S.
  destruct (var_macro_cases 66 be cs 0 (fst r) (snd r)) as [[x|]| | | |]; cbn [bind]; try exact S.
  destruct (parse_description (fst r)) as [[|t [|]]| | | |] eqn:Ep; try exact I.
  destruct (parse_single _ _ Ep) as [_ Htok].
  pose proof (u_align_moved (align t) (snd r) G) as A.
  destruct (u_align (align t) (snd r)) as [c1| | | |]; cbn [bind]; try exact A. apply moved_in in A.
  apply (catch_value_total be t c1 Htok A (fun s => Ok (ECatchVar t (fst s), u_leave (snd s)))). intros s. exact I.
Qed.

(* Catchall(variant).get::<T>() on a sub-context that lies inside its buffer (as every sub-context the decoders hand out does) *)
Theorem catch_var_get_total be t sub r : rty_ok r -> uoff sub <= len (ubuf sub) -> ok_or_err (catch_var_get 66 be t sub r).
Proof.
  intros Hr Hs. unfold catch_var_get. destruct (ty_eqb t (sig_r r)); [|exact I].
  pose proof (unmarshal_r_good be r sub Hr Hs) as G. destruct (unmarshal_r 66 be r sub); cbn [bind]; try exact G. exact I.
Qed.

Theorem enums_total : forall be c, uoff c <= len (ubuf c) ->
  (forall cs, Forall (fun k => rty_ok (case_rty k)) cs -> ok_or_err (derive_enum_unmarshal 66 be cs c))
  /\ (forall cs, Forall rty_ok cs -> ok_or_err (sig_macro_unmarshal 66 be cs c))
  /\ (forall cs, Forall rty_ok cs -> ok_or_err (var_macro_unmarshal 66 be cs c))
  /\ (forall t r, rty_ok r -> ok_or_err (catch_var_get 66 be t c r)).
Proof.
  intros be c Hc. repeat split; intros.
  - now apply derive_enum_unmarshal_total.
  - now apply sig_macro_unmarshal_total.
  - now apply var_macro_unmarshal_total.
  - now apply catch_var_get_total.
Qed.
