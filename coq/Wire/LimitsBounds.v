(** C04, resources: the value the Param decoder returns has at most as many nodes (base values, arrays, dicts,
    variants) as bytes were consumed for it - so the work done and the memory of the returned Param tree are
    linear in the input (struct nodes add at most a factor 64, the nesting limit). *)
From RB Require Import Base.Prelude Sig.Types Sig.Parser Sig.ParserProofs Sig.Validator Sig.ValidatorProofs
  Wire.Bytes Wire.Align Wire.Text Wire.Value Wire.SpecEnc Wire.Marshal Wire.Decode Wire.Unmarshal
  Wire.DecodeSoundLemmas Wire.DecodeLemmas Wire.DecodeTotal Wire.Limits Wire.LimitsProofs.

(* the invariant: the context moved forward inside the same buffer by at least [k] bytes *)
Definition adv (k : N) (c c' : uctx) : Prop :=
  ubuf c' = ubuf c /\ uoff c + k <= uoff c' /\ uoff c' <= len (ubuf c).

Lemma adv_trans k1 k2 c c1 c2 : adv k1 c c1 -> adv k2 c1 c2 -> adv (k1 + k2) c c2.
Proof. intros (E1 & A1 & B1) (E2 & A2 & B2). unfold adv. rewrite E2, E1 in *. repeat split; lia. Qed.
Lemma adv_weaken k k' c c' : k' <= k -> adv k c c' -> adv k' c c'.
Proof. intros H (E & A & B). unfold adv. repeat split; try assumption; lia. Qed.
Lemma adv_in c c' k : adv k c c' -> uoff c' <= len (ubuf c').
Proof. intros (E & A & B). rewrite E. exact B. Qed.

Lemma moved_adv c c' : moved c c' -> adv 0 c c'.
Proof. intros [E H]. unfold adv. rewrite E. cbn [set_off ubuf uoff]. repeat split; lia. Qed.

Lemma u_align_adv a c c' : uoff c <= len (ubuf c) -> u_align a c = Ok c' -> adv 0 c c'.
Proof. intros Hc E. pose proof (u_align_moved a c Hc) as G. rewrite E in G. now apply moved_adv. Qed.
Lemma u_read_fixed_adv be k c r : uoff c <= len (ubuf c) -> u_read_fixed be k c = Ok r -> adv (N.of_nat k) c (snd r).
Proof.
  intros Hc E. pose proof (u_read_fixed_moved be k c Hc) as G. rewrite E in G. destruct G as [[E1 H1] H2].
  unfold adv. rewrite E1. cbn [set_off ubuf uoff]. repeat split; lia.
Qed.
Lemma u_read_sig_adv c r : uoff c <= len (ubuf c) -> u_read_sig c = Ok r -> adv 2 c (snd r).
Proof.
  intros Hc E. pose proof (u_read_sig_moved c Hc) as G. rewrite E in G. destruct G as [[E1 H1] H2].
  unfold adv. rewrite E1. cbn [set_off ubuf uoff]. repeat split; lia.
Qed.
Lemma u_base_adv be b c v c' : uoff c <= len (ubuf c) -> u_base be b c = Ok (v, c') -> adv 1 c c' /\ vcount v = 1.
Proof.
  intros Hc E. pose proof (u_base_good be b c Hc) as G. rewrite E in G. destruct G as [E1 H1]. cbn [snd] in *.
  split.
  - unfold adv. rewrite E1. cbn [set_off ubuf uoff]. repeat split; lia.
  - unfold u_base in E. destruct b;
      repeat match type of E with
             | context [bind ?o _] => destruct o; cbn [bind] in E; try discriminate
             | context [if ?b then _ else _] => destruct b; try discriminate
             end; injection E as <- _; reflexivity.
Qed.

Lemma u_enter_adv c c0 : u_enter c = Ok c0 -> ubuf c0 = ubuf c /\ uoff c0 = uoff c.
Proof. apply u_enter_same. Qed.

(* the element loops: what was decoded so far is accounted for by the bytes between the start of the region and the
   current position *)
Lemma sub_loop_count {A} (cnt : A -> N) (one : uctx -> outcome (A * uctx)) :
  (forall c r, uoff c <= len (ubuf c) -> one c = Ok r -> adv (cnt (fst r)) c (snd r)) ->
  forall lf c acc l start, uoff c <= len (ubuf c) -> start + fold_right (fun x m => cnt x + m) 0 acc <= uoff c ->
    sub_loop one lf c acc = Ok l -> start + fold_right (fun x m => cnt x + m) 0 l <= len (ubuf c).
Proof.
  intros Hone. induction lf as [|lf IH]; intros c acc l start Hc Hacc; cbn [sub_loop]; destruct (_ =? 0).
  1,3: intros E; injection E as <-.
  1,2: assert (R : forall (a : list A), fold_right (fun x m => cnt x + m) 0 (rev a) = fold_right (fun x m => cnt x + m) 0 a)
         by (induction a as [|y a IHa]; [reflexivity|]; cbn [rev]; rewrite fold_right_app; cbn [fold_right];
             rewrite <- IHa; clear; generalize (rev a); induction l as [|z l IHl]; cbn [fold_right]; lia);
       rewrite R; lia.
  - discriminate.
  - destruct (one c) as [r| | | |] eqn:E; cbn [bind]; try discriminate. intros H.
    destruct (Hone c r Hc E) as (Eb & A1 & B1).
    assert (G := IH (snd r) (fst r :: acc) l start ltac:(rewrite Eb; exact B1) ltac:(cbn [fold_right]; lia) H).
    rewrite Eb in G. exact G.
Qed.

Lemma pfields_count (one : ty -> uctx -> outcome (val * uctx)) :
  forall ts, (forall f c r, In f ts -> uoff c <= len (ubuf c) -> one f c = Ok r -> adv (vcount (fst r)) c (snd r)) ->
  forall c acc r, uoff c <= len (ubuf c) -> pfields one ts c acc = Ok r ->
    exists k, adv k c (snd r) /\ vcount_list (fst r) = vcount_list acc + k.
Proof.
  assert (R : forall a, vcount_list (rev a) = vcount_list a).
  { induction a as [|y a IHa]; [reflexivity|]. cbn [rev]. unfold vcount_list in *. rewrite fold_right_app. cbn [fold_right].
    rewrite <- IHa. clear. generalize (rev a). induction l as [|z l IHl]; cbn [fold_right]; lia. }
  induction ts as [|f ts IH]; intros Hone c acc r Hc; cbn [pfields].
  - intros E. injection E as <-. cbn [fst snd]. exists 0. split; [unfold adv; repeat split; lia|]. rewrite R. lia.
  - destruct (one f c) as [x| | | |] eqn:E; cbn [bind]; try discriminate. intros H.
    pose proof (Hone f c x (or_introl eq_refl) Hc E) as A1.
    destruct (IH (fun f' c' r' Hin => Hone f' c' r' (or_intror Hin)) (snd x) (fst x :: acc) r (adv_in _ _ _ A1) H) as (k & A2 & Ek).
    exists (vcount (fst x) + k). split; [eapply adv_trans; eassumption|]. rewrite Ek. unfold vcount_list. cbn [fold_right]. lia.
Qed.

Theorem unmarshal_p_count be : forall vf t c v c', uoff c <= len (ubuf c) ->
  unmarshal_p vf be t c = Ok (v, c') -> adv (vcount v) c c'.
Proof.
  induction vf as [|vf IHvf]; [discriminate|].
  induction t as [b|e IHe|ts IHts|kt vt IHv|] using ty_ind'; intros c v c' Hc.
  - rewrite unmarshal_p_S_base. intros H. destruct (u_base_adv be b c v c' Hc H) as [A ->]. exact A.
  - rewrite unmarshal_p_S_array. destruct (u_enter c) as [c0| | | |] eqn:Een; cbn [bind]; try discriminate.
    destruct (u_enter_adv _ _ Een) as [Eb0 Eo0]. unfold leave_res.
    assert (Hc0 : uoff c0 <= len (ubuf c0)) by (rewrite Eb0, Eo0; exact Hc).
    destruct (u_read_fixed be 4 c0) as [r| | | |] eqn:E1; cbn [bind]; try discriminate.
    pose proof (u_read_fixed_adv be 4 c0 r Hc0 E1) as A1. change (N.of_nat 4) with 4 in A1.
    destruct (check_array_len (fst r)) as [n| | | |]; cbn [bind]; try discriminate.
    destruct (u_align (align e) (snd r)) as [c1| | | |] eqn:E2; cbn [bind]; try discriminate.
    pose proof (u_align_adv _ _ _ (adv_in _ _ _ A1) E2) as A2.
    unfold u_sub, remainder_len. destruct (N.ltb_spec (len (ubuf c1) - uoff c1) n) as [|Hn]; [discriminate|]. cbn [bind fst snd].
    set (sc := {| ubuf := firstnN (uoff c1 + n) (ubuf c1); uoff := uoff c1; unfds := unfds c1; udepth := udepth c1 |}).
    destruct (sub_loop _ _ sc []) as [vs| | | |] eqn:El; cbn [bind]; try discriminate.
    intros H. injection H as <- <-.
    pose proof (adv_in _ _ _ A2) as Hc1.
    assert (Lsc : len (ubuf sc) = uoff c1 + n) by (cbn [sc ubuf]; rewrite len_firstnN; lia).
    assert (Hcnt : uoff c1 + vcount_list vs <= uoff c1 + n).
    { rewrite <- Lsc. refine (sub_loop_count vcount _ _ _ sc [] vs (uoff c1) _ _ El).
      - intros cc rr Hcc Hr. destruct rr as [x cc']. cbn [fst snd]. now apply IHe.
      - rewrite Lsc. cbn [sc uoff]. lia.
      - cbn [fold_right sc uoff]. lia. }
    destruct A1 as (Eb1 & Ao1 & Bo1). destruct A2 as (Eb2 & Ao2 & Bo2).
    unfold adv. cbn [u_leave set_off ubuf uoff vcount]. fold (vcount_list vs).
    rewrite Eb2, Eb1, Eb0 in *. rewrite Eo0 in *. repeat split; lia.
  - rewrite unmarshal_p_S_struct. destruct (u_enter c) as [c0| | | |] eqn:Een; cbn [bind]; try discriminate.
    destruct (u_enter_adv _ _ Een) as [Eb0 Eo0]. unfold leave_res.
    assert (Hc0 : uoff c0 <= len (ubuf c0)) by (rewrite Eb0, Eo0; exact Hc).
    destruct (u_align 8 c0) as [c1| | | |] eqn:E1; cbn [bind]; try discriminate.
    pose proof (u_align_adv _ _ _ Hc0 E1) as A1.
    destruct ts as [|t0 ts']; [discriminate|]. set (ts := t0 :: ts') in *.
    destruct (pfields _ ts c1 []) as [r| | | |] eqn:Ef; cbn [bind]; try discriminate.
    intros H. injection H as <- <-. rewrite Forall_forall in IHts.
    destruct (pfields_count (unmarshal_p (S vf) be) ts
                (fun f cc rr Hin Hcc Hr => ltac:(destruct rr as [x cc']; exact (IHts f Hin cc x cc' Hcc Hr)))
                c1 [] r (adv_in _ _ _ A1) Ef) as (k & A2 & Ek).
    cbn [vcount_list fold_right] in Ek. cbn [vcount]. fold (vcount_list (fst r)). rewrite Ek, N.add_0_l.
    destruct A1 as (Eb1 & Ao1 & Bo1). destruct A2 as (Eb2 & Ao2 & Bo2).
    unfold adv. cbn [u_leave ubuf uoff]. rewrite Eb2, Eb1, Eb0 in *. rewrite Eo0 in *. repeat split; lia.
  - rewrite unmarshal_p_S_dict. destruct (u_enter c) as [c0| | | |] eqn:Een; cbn [bind]; try discriminate.
    destruct (u_enter_adv _ _ Een) as [Eb0 Eo0]. unfold leave_res.
    assert (Hc0 : uoff c0 <= len (ubuf c0)) by (rewrite Eb0, Eo0; exact Hc).
    destruct (u_read_fixed be 4 c0) as [r| | | |] eqn:E1; cbn [bind]; try discriminate.
    pose proof (u_read_fixed_adv be 4 c0 r Hc0 E1) as A1. change (N.of_nat 4) with 4 in A1.
    destruct (check_array_len (fst r)) as [n| | | |]; cbn [bind]; try discriminate.
    destruct (u_align 8 (snd r)) as [c1| | | |] eqn:E2; cbn [bind]; try discriminate.
    pose proof (u_align_adv _ _ _ (adv_in _ _ _ A1) E2) as A2.
    unfold u_sub, remainder_len. destruct (N.ltb_spec (len (ubuf c1) - uoff c1) n) as [|Hn]; [discriminate|]. cbn [bind fst snd].
    set (sc := {| ubuf := firstnN (uoff c1 + n) (ubuf c1); uoff := uoff c1; unfds := unfds c1; udepth := udepth c1 |}).
    destruct (sub_loop _ _ sc []) as [kvs| | | |] eqn:El; cbn [bind]; try discriminate.
    intros H. injection H as <- <-.
    pose proof (adv_in _ _ _ A2) as Hc1.
    assert (Lsc : len (ubuf sc) = uoff c1 + n) by (cbn [sc ubuf]; rewrite len_firstnN; lia).
    assert (Hcnt : uoff c1 + vcount_entries kvs <= uoff c1 + n).
    { rewrite <- Lsc.
      refine (sub_loop_count (fun kv => vcount (fst kv) + vcount (snd kv)) _ _ _ sc [] kvs (uoff c1) _ _ El).
      - intros cc rr Hcc. destruct (u_align 8 cc) as [c2| | | |] eqn:Ea; cbn [bind]; try discriminate.
        pose proof (u_align_adv _ _ _ Hcc Ea) as B1.
        destruct (u_base be kt c2) as [[kv ck]| | | |] eqn:Ek; cbn [bind]; try discriminate.
        destruct (u_base_adv be kt c2 kv ck (adv_in _ _ _ B1) Ek) as [B2 Ck]. cbn [fst snd].
        destruct (unmarshal_p (S vf) be vt ck) as [[vv cv]| | | |] eqn:Ev; cbn [bind]; try discriminate.
        pose proof (IHv ck vv cv (adv_in _ _ _ B2) Ev) as B3.
        intros H. injection H as <-. cbn [fst snd]. rewrite Ck.
        pose proof (adv_trans _ _ _ _ _ (adv_trans _ _ _ _ _ B1 B2) B3) as B. eapply adv_weaken; [|exact B]. lia.
      - rewrite Lsc. cbn [sc uoff]. lia.
      - cbn [fold_right sc uoff]. lia. }
    destruct A1 as (Eb1 & Ao1 & Bo1). destruct A2 as (Eb2 & Ao2 & Bo2).
    unfold adv. cbn [u_leave set_off ubuf uoff vcount]. fold (vcount_entries kvs).
    rewrite Eb2, Eb1, Eb0 in *. rewrite Eo0 in *. repeat split; lia.
  - rewrite unmarshal_p_S_variant. destruct (u_enter c) as [c0| | | |] eqn:Een; cbn [bind]; try discriminate.
    destruct (u_enter_adv _ _ Een) as [Eb0 Eo0]. unfold leave_res.
    assert (Hc0 : uoff c0 <= len (ubuf c0)) by (rewrite Eb0, Eo0; exact Hc).
    destruct (u_read_sig c0) as [r| | | |] eqn:E1; cbn [bind]; try discriminate.
    pose proof (u_read_sig_adv c0 r Hc0 E1) as A1.
    destruct (parse_description (fst r)) as [[|t' [|]]| | | |]; cbn [bind]; try discriminate.
    destruct (unmarshal_p vf be t' (snd r)) as [[x cx]| | | |] eqn:Ex; cbn [bind]; try discriminate.
    pose proof (IHvf t' (snd r) x cx (adv_in _ _ _ A1) Ex) as A2.
    intros H. injection H as <- <-. cbn [fst snd vcount].
    destruct A1 as (Eb1 & Ao1 & Bo1). destruct A2 as (Eb2 & Ao2 & Bo2).
    unfold adv. cbn [u_leave ubuf uoff]. rewrite Eb2, Eb1, Eb0 in *. rewrite Eo0 in *. repeat split; lia.
Qed.

(* at most as many nodes as bytes consumed *)
Corollary unmarshal_p_count_bytes be vf t c v c' : uoff c <= len (ubuf c) ->
  unmarshal_p vf be t c = Ok (v, c') -> vcount v <= uoff c' - uoff c /\ uoff c' <= len (ubuf c).
Proof. intros Hc H. destruct (unmarshal_p_count be vf t c v c' Hc H) as (_ & A & B). split; lia. Qed.

(* nodes and nesting together: the statement of Properties/C04.v *)
Theorem param_decoder_bounds : forall be vf t c v c', uoff c <= len (ubuf c) -> unmarshal_p vf be t c = Ok (v, c') ->
  vcount v <= uoff c' - uoff c /\ uoff c' <= len (ubuf c) /\ (vdepth v = 0 \/ udepth c + vdepth v <= MAX_DEPTH).
Proof.
  intros be vf t c v c' Hc H. destruct (unmarshal_p_count_bytes be vf t c v c' Hc H) as [A B].
  destruct (decode_depth_value be vf t c v c' H) as [_ D]. auto.
Qed.
