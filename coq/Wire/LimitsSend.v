(** C18, send path, as one statement about the whole value: when a marshal call succeeds, EVERY array and dict inside
    the value - at any depth - has at most 2^26 bytes of content in the bytes produced (which are the specification's
    encoding, C02). [arrays_within] (Wire/Limits.v) is the specification-side predicate. *)
From RB Require Import Base.Prelude Sig.Types Sig.Parser Sig.Validator Wire.Bytes Wire.Align Wire.Text Wire.Value Wire.SpecEnc
  Wire.Marshal Wire.Relabel Wire.MarshalProofs Wire.Limits.

Definition aw_list (be : bool) : N -> list val -> bool :=
  fix go (pos : N) (l : list val) : bool :=
    match l with
    | [] => true
    | x :: r => arrays_within be pos x && go (pos + len (spec_enc be pos x)) r
    end.
Definition aw_entries (be : bool) : N -> list (val * val) -> bool :=
  fix go (pos : N) (l : list (val * val)) : bool :=
    match l with
    | [] => true
    | (a, b) :: r =>
        let p := pos + padlen 8 pos in
        arrays_within be p a && arrays_within be (p + len (spec_enc be p a)) b
        && go (pos + len (spec_enc_entry be pos (a, b))) r
    end.

Lemma arrays_within_array be pos t vs : arrays_within be pos (VArray t vs) =
  let start := pos + padlen 4 pos + 4 + padlen (align t) (pos + padlen 4 pos + 4) in
  (len (spec_enc_list be start vs) <=? MAX_ARRAY) && aw_list be start vs.
Proof. reflexivity. Qed.
Lemma arrays_within_struct be pos vs : arrays_within be pos (VStruct vs) = aw_list be (pos + padlen 8 pos) vs.
Proof. reflexivity. Qed.
Lemma arrays_within_dict be pos k vt kvs : arrays_within be pos (VDict k vt kvs) =
  let start := pos + padlen 4 pos + 4 + padlen 8 (pos + padlen 4 pos + 4) in
  (len (spec_enc_entries be start kvs) <=? MAX_ARRAY) && aw_entries be start kvs.
Proof. reflexivity. Qed.
Lemma aw_list_cons be pos x r : aw_list be pos (x :: r) = arrays_within be pos x && aw_list be (pos + len (spec_enc be pos x)) r.
Proof. reflexivity. Qed.
Lemma aw_entries_cons be pos a b r : aw_entries be pos ((a, b) :: r) =
  let p := pos + padlen 8 pos in
  arrays_within be p a && arrays_within be (p + len (spec_enc be p a)) b && aw_entries be (pos + len (spec_enc_entry be pos (a, b))) r.
Proof. reflexivity. Qed.

(** the statement for one value *)
Definition aw_ok (m : val -> mctx -> mres) (be : bool) (v : val) : Prop :=
  forall c c', m v c = (c', true) -> snd (relabel v (mfds c)) <= 2 ^ 32 ->
    arrays_within be (len (mbuf c)) (fst (relabel v (mfds c))) = true.

Lemma aw_seq m be vs :
  Forall (marshal_ok m be) vs -> Forall (aw_ok m be) vs ->
  forall c c', marshal_seq m vs c = (c', true) -> snd (relabel_list relabel vs (mfds c)) <= 2 ^ 32 ->
    aw_list be (len (mbuf c)) (fst (relabel_list relabel vs (mfds c))) = true.
Proof.
  induction vs as [|x r IH]; intros Hall Haw c c' H Hb; [reflexivity|].
  apply Forall_cons_iff in Hall, Haw. destruct Hall as [Hx Hr]. destruct Haw as [Ax Ar].
  rewrite marshal_seq_cons in H. destruct (m x c) as [c1 ok1] eqn:E1. destruct ok1; cbn [mbind] in H; [|discriminate].
  rewrite relabel_list_cons in Hb |- *.
  pose proof (relabel_mono x (mfds c)) as Hm1.
  pose proof (Ax c c1 E1) as A1. pose proof (Hx c c1 E1) as B1.
  destruct (relabel x (mfds c)) as [x' n1] eqn:Ex.
  assert (Hm2 := fun l => relabel_mono (VStruct l) n1).
  destruct (relabel_list relabel r n1) as [r' n2] eqn:Er. cbn [fst snd] in *.
  assert (Hn12 : n1 <= n2).
  { specialize (Hm2 r). cbn [relabel] in Hm2. rewrite Er in Hm2. exact Hm2. }
  specialize (A1 ltac:(lia)). destruct (B1 ltac:(lia)) as [Hb1 Hf1].
  specialize (IH Hr Ar c1 c' H). rewrite Hf1, Er in IH. cbn [fst snd] in IH. specialize (IH Hb).
  rewrite aw_list_cons, A1. cbn [andb]. rewrite Hb1, len_app in IH. exact IH.
Qed.

Lemma aw_ents m be kvs :
  Forall (fun kv => marshal_ok m be (fst kv) /\ marshal_ok m be (snd kv)) kvs ->
  Forall (fun kv => aw_ok m be (fst kv) /\ aw_ok m be (snd kv)) kvs ->
  forall c c', marshal_entries m kvs c = (c', true) -> snd (relabel_entries relabel kvs (mfds c)) <= 2 ^ 32 ->
    aw_entries be (len (mbuf c)) (fst (relabel_entries relabel kvs (mfds c))) = true.
Proof.
  induction kvs as [|[a b] r IH]; intros Hall Haw c c' H Hb; [reflexivity|].
  apply Forall_cons_iff in Hall, Haw. destruct Hall as [[Ha Hbb] Hr]. destruct Haw as [[Aa Ab] Ar]. cbn [fst snd] in Ha, Hbb, Aa, Ab.
  rewrite marshal_entries_cons in H.
  set (c0 := {| mbuf := pad_to 8 (mbuf c); mfds := mfds c |}) in *.
  destruct (m a c0) as [c1 ok1] eqn:E1. destruct ok1; cbn [mbind] in H; [|discriminate].
  destruct (m b c1) as [c2 ok2] eqn:E2. destruct ok2; cbn [mbind] in H; [|discriminate].
  rewrite relabel_entries_cons in Hb |- *.
  pose proof (relabel_mono a (mfds c)) as Hm1.
  pose proof (Aa c0 c1 E1) as A1. pose proof (Ha c0 c1 E1) as B1. subst c0. cbn [mfds mbuf] in A1, B1.
  destruct (relabel a (mfds c)) as [a' n1] eqn:Ea.
  pose proof (relabel_mono b n1) as Hm2.
  pose proof (Ab c1 c2 E2) as A2. pose proof (Hbb c1 c2 E2) as B2.
  destruct (relabel b n1) as [b' n2] eqn:Eb.
  assert (Hm3 := relabel_mono (VDict BByte TVariant r) n2). cbn [relabel] in Hm3.
  destruct (relabel_entries relabel r n2) as [r' n3] eqn:Er. cbn [fst snd] in *.
  specialize (A1 ltac:(lia)). destruct (B1 ltac:(lia)) as [Hb1 Hf1].
  rewrite Hf1, Eb in A2, B2. cbn [fst snd] in A2, B2.
  specialize (A2 ltac:(lia)). destruct (B2 ltac:(lia)) as [Hb2 Hf2].
  specialize (IH Hr Ar c2 c' H). rewrite Hf2, Er in IH. cbn [fst snd] in IH. specialize (IH Hb).
  rewrite aw_entries_cons. cbv zeta.
  set (pos := len (mbuf c)) in *. set (p := padlen 8 pos) in *.
  assert (L0 : len (pad_to 8 (mbuf c)) = pos + p).
  { rewrite pad_to_spec by lia. rewrite len_app, len_zeros. reflexivity. }
  rewrite L0 in A1, Hb1.
  set (ea := spec_enc be (pos + p) a') in *.
  assert (L1 : len (mbuf c1) = pos + p + len ea) by (rewrite Hb1, len_app, L0; reflexivity).
  rewrite L1 in A2, Hb2.
  set (eb := spec_enc be (pos + p + len ea) b') in *.
  assert (L2 : len (mbuf c2) = pos + len (spec_enc_entry be pos (a', b'))).
  { rewrite Hb2, len_app, L1. unfold spec_enc_entry. cbn [fst snd]. cbv zeta. rewrite len_zeros. fold p. fold ea. fold eb.
    rewrite !len_app, len_zeros. lia. }
  rewrite L2 in IH. rewrite A1, A2, IH. reflexivity.
Qed.

Lemma len_b3 a buf : 0 < a ->
  len (pad_to a (pad_to 4 buf ++ [0; 0; 0; 0])) = len buf + padlen 4 (len buf) + 4 + padlen a (len buf + padlen 4 (len buf) + 4).
Proof.
  intros Ha. rewrite (pad_to_spec 4 buf) by lia. rewrite pad_to_spec by exact Ha.
  rewrite !len_app, !len_zeros, len_zeros4. lia.
Qed.

(** ** the Param marshaller *)
Theorem marshal_p_arrays be : forall v, typed v -> strings_small v = true -> forall d, aw_ok (marshal_p be d) be v.
Proof.
  induction v as [b k|b s|t vs IH|vs IH|kb vt kvs IH|t x IH] using val_ind'; intros [T Hwt] Hss d.
  - intros c c' _ _. cbn [relabel]. destruct b; reflexivity.
  - intros c c' _ _. reflexivity.
  - (* array *)
    pose proof (wt_array_inv _ _ _ Hwt) as Hel.
    cbn [strings_small] in Hss. rewrite forallb_forall in Hss. apply Forall_forall in Hss.
    assert (Hty : Forall typed vs) by now apply (Forall_typed_of_wt t).
    assert (Hok : Forall (marshal_ok (marshal_p be (d + 1)) be) vs).
    { apply (Forall_combine typed (fun x => strings_small x = true) _ vs); [|exact Hty|exact Hss].
      apply Forall_forall. intros x _ H1 H2. now apply marshal_p_spec. }
    assert (Haw : Forall (aw_ok (marshal_p be (d + 1)) be) vs).
    { apply (Forall_combine typed (fun x => strings_small x = true) _ vs); [|exact Hty|exact Hss].
      eapply Forall_impl; [|exact IH]. intros x Hx H1 H2. now apply Hx. }
    intros c c' H Hb. rewrite marshal_p_array in H. cbv zeta in H. cbn [relabel] in Hb |- *.
    destruct (MAX_DEPTH <=? d); [discriminate|]. destruct (negb _); [discriminate|].
    set (b3 := pad_to (align t) (pad_to 4 (mbuf c) ++ [0; 0; 0; 0])) in *.
    pose proof (len_b3 (align t) (mbuf c) (align_pos t)) as Lb3. fold b3 in Lb3.
    destruct (marshal_seq (marshal_p be (d + 1)) vs {| mbuf := b3; mfds := mfds c |}) as [c1 ok1] eqn:Es.
    destruct ok1; cbn [mbind] in H; [|discriminate].
    destruct (relabel_list relabel vs (mfds c)) as [vs' n'] eqn:Er. cbn [fst snd] in *.
    destruct (marshal_seq_ok _ be vs Hok _ _ Es) as [Hb1 _]; [cbn [mfds]; rewrite Er; exact Hb|].
    pose proof (aw_seq _ be vs Hok Haw _ _ Es) as A. cbn [mbuf mfds] in Hb1, A. rewrite Er in Hb1, A. cbn [fst snd] in Hb1, A.
    specialize (A Hb).
    destruct (N.ltb_spec MAX_ARRAY (len (mbuf c1) - len b3)) as [|Hmax]; [discriminate|].
    rewrite arrays_within_array. cbv zeta. rewrite Lb3 in Hb1, A. rewrite A, Bool.andb_true_r. apply N.leb_le.
    rewrite Hb1, len_app in Hmax. lia.
  - (* struct *)
    pose proof (wt_struct_inv _ _ Hwt) as Hty.
    cbn [strings_small] in Hss. rewrite forallb_forall in Hss. apply Forall_forall in Hss.
    assert (Hok : Forall (marshal_ok (marshal_p be (d + 1)) be) vs).
    { apply (Forall_combine typed (fun x => strings_small x = true) _ vs); [|exact Hty|exact Hss].
      apply Forall_forall. intros x _ H1 H2. now apply marshal_p_spec. }
    assert (Haw : Forall (aw_ok (marshal_p be (d + 1)) be) vs).
    { apply (Forall_combine typed (fun x => strings_small x = true) _ vs); [|exact Hty|exact Hss].
      eapply Forall_impl; [|exact IH]. intros x Hx H1 H2. now apply Hx. }
    intros c c' H Hb. rewrite marshal_p_struct in H. cbn [relabel] in Hb |- *.
    destruct (MAX_DEPTH <=? d); [discriminate|].
    destruct (relabel_list relabel vs (mfds c)) as [vs' n'] eqn:Er. cbn [fst snd] in *.
    pose proof (aw_seq _ be vs Hok Haw _ _ H) as A. cbn [mbuf mfds] in A. rewrite Er in A. cbn [fst snd] in A. specialize (A Hb).
    rewrite pad_to_spec in A by lia. rewrite len_app, len_zeros in A. rewrite arrays_within_struct. exact A.
  - (* dict *)
    pose proof (wt_dict_inv _ _ _ _ Hwt) as Hel.
    cbn [strings_small] in Hss. rewrite forallb_forall in Hss.
    assert (Hok : Forall (fun kv => marshal_ok (marshal_p be (d + 1)) be (fst kv) /\ marshal_ok (marshal_p be (d + 1)) be (snd kv)) kvs).
    { apply Forall_forall. intros kv Hin. rewrite Forall_forall in Hel. destruct (Hel kv Hin) as [Hwa Hwb].
      specialize (Hss kv Hin). apply andb_prop in Hss. destruct Hss as [Hsa Hsb].
      split; apply marshal_p_spec; try assumption; [now exists (TBase kb)|now exists vt]. }
    assert (Haw : Forall (fun kv => aw_ok (marshal_p be (d + 1)) be (fst kv) /\ aw_ok (marshal_p be (d + 1)) be (snd kv)) kvs).
    { apply Forall_forall. intros kv Hin. rewrite Forall_forall in IH, Hel.
      destruct (IH kv Hin) as [IHa IHb]. destruct (Hel kv Hin) as [Hwa Hwb].
      specialize (Hss kv Hin). apply andb_prop in Hss. destruct Hss as [Hsa Hsb].
      split; [apply IHa; [now exists (TBase kb)|exact Hsa]|apply IHb; [now exists vt|exact Hsb]]. }
    intros c c' H Hb. rewrite marshal_p_dict in H. cbv zeta in H. cbn [relabel] in Hb |- *.
    destruct (MAX_DEPTH <=? d); [discriminate|]. destruct (negb _); [discriminate|].
    set (b3 := pad_to 8 (pad_to 4 (mbuf c) ++ [0; 0; 0; 0])) in *.
    pose proof (len_b3 8 (mbuf c) ltac:(lia)) as Lb3. fold b3 in Lb3.
    destruct (marshal_entries (marshal_p be (d + 1)) kvs {| mbuf := b3; mfds := mfds c |}) as [c1 ok1] eqn:Es.
    destruct ok1; cbn [mbind] in H; [|discriminate].
    destruct (relabel_entries relabel kvs (mfds c)) as [kvs' n'] eqn:Er. cbn [fst snd] in *.
    destruct (marshal_entries_ok _ be kvs Hok _ _ Es) as [Hb1 _]; [cbn [mfds]; rewrite Er; exact Hb|].
    pose proof (aw_ents _ be kvs Hok Haw _ _ Es) as A. cbn [mbuf mfds] in Hb1, A. rewrite Er in Hb1, A. cbn [fst snd] in Hb1, A.
    specialize (A Hb).
    destruct (N.ltb_spec MAX_ARRAY (len (mbuf c1) - len b3)) as [|Hmax]; [discriminate|].
    rewrite arrays_within_dict. cbv zeta. rewrite Lb3 in Hb1, A. rewrite A, Bool.andb_true_r. apply N.leb_le.
    rewrite Hb1, len_app in Hmax. lia.
  - (* variant *)
    pose proof (wt_variant_inv _ _ _ Hwt) as Hx. cbn [strings_small] in Hss.
    specialize (IH (ex_intro _ t Hx) Hss (d + 1)).
    intros c c' H Hb. cbn [marshal_p] in H. cbv zeta in H. cbn [relabel] in Hb |- *.
    destruct (MAX_DEPTH <=? d); [discriminate|]. destruct (negb (ty_eqb (ty_of x) t)); [discriminate|].
    destruct (is_ok (validate_signature (to_str t))) eqn:Ev; [|discriminate]. apply validate_signature_len in Ev.
    destruct (relabel x (mfds c)) as [x' n'] eqn:Er. cbn [fst snd] in *.
    specialize (IH _ _ H). cbn [mbuf mfds] in IH. rewrite Er in IH. cbn [fst snd] in IH. specialize (IH Hb).
    cbn [arrays_within]. unfold write_signature in IH. rewrite !len_app in IH. unfold sig_bytes.
    rewrite len_cons, len_app. change (len [len (to_str t) mod 256]) with 1 in IH. change (len [0]) with 1 in IH |- *.
    replace (len (mbuf c) + (1 + (len (to_str t) + 1))) with (len (mbuf c) + (1 + (len (to_str t) + 1))) in IH by lia.
    exact IH.
Qed.

(** ** the typed marshaller *)
Lemma aw_list_base be b vs : Forall (fun x => exists k, x = VBase b k) vs -> forall pos, aw_list be pos vs = true.
Proof. induction 1 as [|x r (k & ->) _ IH]; intros pos; [reflexivity|]. rewrite aw_list_cons. cbn [arrays_within andb]. apply IH. Qed.

Theorem marshal_t_arrays be : forall v, typed v -> strings_small v = true -> aw_ok (marshal_t be) be v.
Proof.
  induction v as [b k|b s|t vs IH|vs IH|kb vt kvs IH|t x IH] using val_ind'; intros [T Hwt] Hss.
  - intros c c' _ _. cbn [relabel]. destruct b; reflexivity.
  - intros c c' _ _. reflexivity.
  - (* array *)
    pose proof (wt_array_inv _ _ _ Hwt) as Hel.
    cbn [strings_small] in Hss. rewrite forallb_forall in Hss. apply Forall_forall in Hss.
    assert (Hty : Forall typed vs) by now apply (Forall_typed_of_wt t).
    assert (Hok : Forall (marshal_ok (marshal_t be) be) vs).
    { apply (Forall_combine typed (fun x => strings_small x = true) _ vs); [|exact Hty|exact Hss].
      apply Forall_forall. intros x _ H1 H2. now apply marshal_t_spec. }
    assert (Haw : Forall (aw_ok (marshal_t be) be) vs).
    { apply (Forall_combine typed (fun x => strings_small x = true) _ vs); [exact IH|exact Hty|exact Hss]. }
    intros c c' H Hb. rewrite marshal_t_array in H. cbv zeta in H. cbn [relabel] in Hb |- *.
    destruct (valid_slice be t) eqn:Evs.
    + (* memcpy fast path: the elements are fixed-width numbers *)
      destruct (valid_slice_inv _ _ Evs) as (b & -> & Htx & Hnfd & Hsz & Hbe).
      assert (Hvs : Forall (fun x => exists k, x = VBase b k /\ k < 256 ^ N.of_nat (base_size b)) vs).
      { eapply Forall_impl; [|exact Hel]. intros x Hx. destruct (wt_base_inv _ _ Hx) as [(k & -> & _ & Hk)|(s & -> & Hts)]; [eauto|congruence]. }
      rewrite relabel_list_nofd by (eapply Forall_impl; [|exact Hvs]; intros x (k & -> & _); eauto).
      cbn [fst snd align] in *. rewrite arrays_within_array. cbv zeta. cbn [align].
      destruct (N.ltb_spec MAX_ARRAY (base_align b * len vs)) as [|Hmax]; [discriminate|].
      set (start := len (mbuf c) + padlen 4 (len (mbuf c)) + 4 + padlen (base_align b) (len (mbuf c) + padlen 4 (len (mbuf c)) + 4)).
      assert (Hal : start mod base_align b = 0) by (apply padlen_aligned, base_align_pos).
      destruct (fast_body be b vs Hbe Htx Hsz Hvs _ Hal) as [_ E2].
      rewrite E2. rewrite aw_list_base with (b := b) by (eapply Forall_impl; [|exact Hvs]; intros x (k & -> & _); eauto).
      rewrite Bool.andb_true_r. now apply N.leb_le.
    + (* element loop *)
      set (b3 := pad_to (align t) (pad_to 4 (mbuf c) ++ [0; 0; 0; 0])) in *.
      pose proof (len_b3 (align t) (mbuf c) (align_pos t)) as Lb3. fold b3 in Lb3.
      destruct (relabel_list relabel vs (mfds c)) as [vs' n'] eqn:Er. cbn [fst snd] in *.
      rewrite arrays_within_array. cbv zeta.
      destruct vs as [|x0 vs0].
      { cbn in Er. injection Er as <- <-. reflexivity. }
      set (vs := x0 :: vs0) in *.
      destruct (marshal_seq (marshal_t be) vs {| mbuf := b3; mfds := mfds c |}) as [c1 ok1] eqn:Es.
      destruct ok1; cbn [mbind] in H; [|discriminate].
      destruct (marshal_seq_ok _ be vs Hok _ _ Es) as [Hb1 _]; [cbn [mfds]; rewrite Er; exact Hb|].
      pose proof (aw_seq _ be vs Hok Haw _ _ Es) as A. cbn [mbuf mfds] in Hb1, A. rewrite Er in Hb1, A. cbn [fst snd] in Hb1, A.
      specialize (A Hb).
      destruct (N.ltb_spec MAX_ARRAY (len (mbuf c1) - len b3)) as [|Hmax]; [discriminate|].
      rewrite Lb3 in Hb1, A. rewrite A, Bool.andb_true_r. apply N.leb_le.
      rewrite Hb1, len_app in Hmax. lia.
  - (* struct *)
    pose proof (wt_struct_inv _ _ Hwt) as Hty.
    cbn [strings_small] in Hss. rewrite forallb_forall in Hss. apply Forall_forall in Hss.
    assert (Hok : Forall (marshal_ok (marshal_t be) be) vs).
    { apply (Forall_combine typed (fun x => strings_small x = true) _ vs); [|exact Hty|exact Hss].
      apply Forall_forall. intros x _ H1 H2. now apply marshal_t_spec. }
    assert (Haw : Forall (aw_ok (marshal_t be) be) vs).
    { apply (Forall_combine typed (fun x => strings_small x = true) _ vs); [exact IH|exact Hty|exact Hss]. }
    intros c c' H Hb. rewrite marshal_t_struct in H. cbn [relabel] in Hb |- *.
    destruct (relabel_list relabel vs (mfds c)) as [vs' n'] eqn:Er. cbn [fst snd] in *.
    pose proof (aw_seq _ be vs Hok Haw _ _ H) as A. cbn [mbuf mfds] in A. rewrite Er in A. cbn [fst snd] in A. specialize (A Hb).
    rewrite pad_to_spec in A by lia. rewrite len_app, len_zeros in A. rewrite arrays_within_struct. exact A.
  - (* dict *)
    pose proof (wt_dict_inv _ _ _ _ Hwt) as Hel.
    cbn [strings_small] in Hss. rewrite forallb_forall in Hss.
    assert (Hok : Forall (fun kv => marshal_ok (marshal_t be) be (fst kv) /\ marshal_ok (marshal_t be) be (snd kv)) kvs).
    { apply Forall_forall. intros kv Hin. rewrite Forall_forall in Hel. destruct (Hel kv Hin) as [Hwa Hwb].
      specialize (Hss kv Hin). apply andb_prop in Hss. destruct Hss as [Hsa Hsb].
      split; apply marshal_t_spec; try assumption; [now exists (TBase kb)|now exists vt]. }
    assert (Haw : Forall (fun kv => aw_ok (marshal_t be) be (fst kv) /\ aw_ok (marshal_t be) be (snd kv)) kvs).
    { apply Forall_forall. intros kv Hin. rewrite Forall_forall in IH, Hel.
      destruct (IH kv Hin) as [IHa IHb]. destruct (Hel kv Hin) as [Hwa Hwb].
      specialize (Hss kv Hin). apply andb_prop in Hss. destruct Hss as [Hsa Hsb].
      split; [apply IHa; [now exists (TBase kb)|exact Hsa]|apply IHb; [now exists vt|exact Hsb]]. }
    intros c c' H Hb. rewrite marshal_t_dict in H. cbv zeta in H. cbn [relabel] in Hb |- *.
    set (b3 := pad_to 8 (pad_to 4 (mbuf c) ++ [0; 0; 0; 0])) in *.
    pose proof (len_b3 8 (mbuf c) ltac:(lia)) as Lb3. fold b3 in Lb3.
    destruct (relabel_entries relabel kvs (mfds c)) as [kvs' n'] eqn:Er. cbn [fst snd] in *.
    rewrite arrays_within_dict. cbv zeta.
    destruct kvs as [|kv0 kvs0].
    { cbn in Er. injection Er as <- <-. reflexivity. }
    set (kvs := kv0 :: kvs0) in *.
    destruct (marshal_entries (marshal_t be) kvs {| mbuf := b3; mfds := mfds c |}) as [c1 ok1] eqn:Es.
    destruct ok1; cbn [mbind] in H; [|discriminate].
    destruct (marshal_entries_ok _ be kvs Hok _ _ Es) as [Hb1 _]; [cbn [mfds]; rewrite Er; exact Hb|].
    pose proof (aw_ents _ be kvs Hok Haw _ _ Es) as A. cbn [mbuf mfds] in Hb1, A. rewrite Er in Hb1, A. cbn [fst snd] in Hb1, A.
    specialize (A Hb).
    destruct (N.ltb_spec MAX_ARRAY (len (mbuf c1) - len b3)) as [|Hmax]; [discriminate|].
    rewrite Lb3 in Hb1, A. rewrite A, Bool.andb_true_r. apply N.leb_le.
    rewrite Hb1, len_app in Hmax. lia.
  - (* variant *)
    pose proof (wt_variant_inv _ _ _ Hwt) as Hx. cbn [strings_small] in Hss.
    specialize (IH (ex_intro _ t Hx) Hss).
    intros c c' H Hb. cbn [marshal_t] in H. cbv zeta in H. cbn [relabel] in Hb |- *.
    destruct (N.ltb_spec 255 (len (to_str t))) as [|Hl]; [discriminate|].
    destruct (is_ok (validate_signature (to_str t))) eqn:Evs; [|discriminate].
    destruct (relabel x (mfds c)) as [x' n'] eqn:Er. cbn [fst snd] in *.
    specialize (IH _ _ H). cbn [mbuf mfds] in IH. rewrite Er in IH. cbn [fst snd] in IH. specialize (IH Hb).
    cbn [arrays_within]. unfold write_signature in IH. rewrite !len_app in IH. unfold sig_bytes.
    rewrite len_cons, len_app. change (len [len (to_str t) mod 256]) with 1 in IH. change (len [0]) with 1 in IH |- *.
    exact IH.
Qed.

(** the statements of Properties/C18.v *)
Theorem send_arrays_within : forall be v, typed v -> strings_small v = true ->
  (forall c c', marshal_t be v c = (c', true) -> snd (relabel v (mfds c)) <= 2 ^ 32 ->
     arrays_within be (len (mbuf c)) (fst (relabel v (mfds c))) = true)
  /\ (forall d c c', marshal_p be d v c = (c', true) -> snd (relabel v (mfds c)) <= 2 ^ 32 ->
        arrays_within be (len (mbuf c)) (fst (relabel v (mfds c))) = true).
Proof.
  intros be v Ht Hs. split; [exact (marshal_t_arrays be v Ht Hs)|]. intros d. exact (marshal_p_arrays be v Ht Hs d).
Qed.
