(** Non-vacuity for C02: a nested value with a dict, a variant, strings and a descriptor, at a
    misaligned start position, both byte orders; and refused values. *)
From RB Require Import Base.Prelude Sig.Types Wire.Bytes Wire.Align Wire.Text Wire.Value Wire.SpecEnc Wire.Marshal Wire.Relabel Wire.MarshalProofs.

(* ( a{s v} , [u64] , fd )  with  {"ab": variant u32 5}, [1;2], live handle *)
Definition ex_val : val :=
  VStruct [ VDict BString TVariant [(VText BString [97; 98], VVariant (TBase BUint32) (VBase BUint32 5))];
            VArray (TBase BUint64) [VBase BUint64 1; VBase BUint64 2];
            VBase BUnixFd 0 ].
Definition ex_ty : ty := TStruct [TDict BString TVariant; TArray (TBase BUint64); TBase BUnixFd].
Definition ex_ctx : mctx := {| mbuf := [1; 2; 3]; mfds := 2 |}.

Example ex_typed : wt ex_val ex_ty = true /\ strings_small ex_val = true /\ leaves_ok ex_val = true.
Proof. vm_compute. auto. Qed.
Example ex_marshal_le : snd (marshal_t false ex_val ex_ctx) = true /\ snd (marshal_p false 0 ex_val ex_ctx) = true
  /\ mbuf (fst (marshal_t false ex_val ex_ctx)) = mbuf ex_ctx ++ spec_enc false 3 (fst (relabel ex_val 2))
  /\ mbuf (fst (marshal_p false 0 ex_val ex_ctx)) = mbuf (fst (marshal_t false ex_val ex_ctx))
  /\ mfds (fst (marshal_t false ex_val ex_ctx)) = 3.
Proof. vm_compute. repeat split. Qed.
Example ex_marshal_be : snd (marshal_t true ex_val ex_ctx) = true
  /\ mbuf (fst (marshal_t true ex_val ex_ctx)) = mbuf ex_ctx ++ spec_enc true 3 (fst (relabel ex_val 2)).
Proof. vm_compute. repeat split. Qed.
(* refused: NUL in a string, invalid path, invalid signature, taken descriptor - anywhere in the value *)
Example ex_refused :
  snd (marshal_t false (VArray (TBase BString) [VText BString [97]; VText BString [97; 0; 98]]) ex_ctx) = false
  /\ snd (marshal_p false 0 (VStruct [VText BObjectPath [47; 47]]) ex_ctx) = false
  /\ snd (marshal_t false (VVariant (TBase BSignature) (VText BSignature [97])) ex_ctx) = false
  /\ snd (marshal_t false (VStruct [VBase BByte 1; VBase BUnixFd 1]) ex_ctx) = false.
Proof. vm_compute. repeat split. Qed.
