(** Decoder completeness: on a buffer that carries THE specification encoding of an encodable,
    well-typed value at some offset (anything before it, anything after it), the three decoders
    (raw validation, dynamic Param decoder, typed decoder) succeed, consume exactly the
    encoding, and the value-producing ones return exactly that value.
    Model: Wire/Decode.v, Wire/Unmarshal.v. Specification: Wire/SpecEnc.v. *)
From RB Require Import Base.Prelude Sig.Types Sig.Parser Sig.ParserProofs Sig.Validator Sig.ValidatorProofs
  Wire.Bytes Wire.Align Wire.Text Wire.Value Wire.SpecEnc Wire.Marshal Wire.MarshalProofs Wire.Decode Wire.Unmarshal
  Wire.DecodeLemmas.

(** fuel: [vf] bounds the number of variants that can still be entered; a value nested in
    [depth] containers can contain at most [64 - depth] more levels *)
Definition fuel_ok (vf : nat) (depth : N) : Prop := (1 <= vf)%nat /\ 65 <= depth + N.of_nat vf.

Lemma fuel_ok_66 depth : fuel_ok 66 depth.
Proof. unfold fuel_ok. split; lia. Qed.
Lemma fuel_ok_deeper vf depth : fuel_ok vf depth -> fuel_ok vf (depth + 1).
Proof. unfold fuel_ok. intros [H1 H2]. split; lia. Qed.
Lemma fuel_ok_variant vf depth : fuel_ok (S vf) depth -> depth < MAX_DEPTH -> fuel_ok vf (depth + 1).
Proof. unfold fuel_ok, MAX_DEPTH. intros [H1 H2] H3. split; lia. Qed.

Lemma MAX_ARRAY_u32 n : n <= MAX_ARRAY -> n < 2 ^ 32.
Proof. unfold MAX_ARRAY. intros H. assert (2 ^ 26 < 2 ^ 32) by (apply N.pow_lt_mono_r; lia). lia. Qed.

(* elements of a fixed-width type, starting aligned: no padding between them *)
Lemma fixed_list_len be b vs : is_text b = false -> Forall (fun x => wt x (TBase b) = true) vs ->
  forall pos, pos mod base_align b = 0 -> len (spec_enc_list be pos vs) = base_align b * len vs.
Proof.
  intros Ht. induction 1 as [|x r Hx _ IH]; intros pos Hpos.
  - cbn [spec_enc_list]. change (len (@nil N)) with 0. change (len (@nil val)) with 0. lia.
  - destruct (wt_base_inv _ _ Hx) as [(k & -> & _ & Hk)|(s & -> & Hts)]; [|congruence].
    cbn [spec_enc_list spec_enc]. rewrite (padlen_0 _ _ (base_align_pos b) Hpos). cbn [zeros N.to_nat repeat app].
    rewrite len_app, len_enc, len_cons, (base_size_align b Ht). rewrite IH; [lia|].
    pose proof (base_align_pos b) as Hap. apply N.mod_divide in Hpos; [|lia]. destruct Hpos as [q ->].
    replace (q * base_align b + base_align b) with ((q + 1) * base_align b) by lia. apply N.mod_mul. lia.
Qed.

Lemma bytes_always_valid_inv t : bytes_always_valid t = true -> exists b, t = TBase b /\ is_text b = false.
Proof. destruct t as [b|?|?|? ?|]; try discriminate. destruct b; try discriminate; eauto. Qed.

(** ** raw validation *)
Definition vc (be : bool) (v : val) : Prop :=
  forall t depth off buf vf, wt v t = true -> encodable be off depth v = true ->
    has_at buf off (spec_enc be off v) -> fuel_ok vf depth ->
    validate vf be depth off buf t = Ok (len (spec_enc be off v)).

Lemma validate_elems be vs e : Forall (vc be) vs -> Forall (fun x => wt x e = true) vs ->
  forall vf depth buf offset n used lf, fuel_ok (S vf) depth ->
    encodable_list be (offset + used) depth vs = true ->
    has_at buf (offset + used) (spec_enc_list be (offset + used) vs) ->
    used + len (spec_enc_list be (offset + used) vs) = n ->
    (N.to_nat (n - used) < lf)%nat ->
    elem_loop (fun p => validate (S vf) be depth p buf e) lf offset n used = Ok n.
Proof.
  induction vs as [|x r IH]; intros Hvc Hwt vf depth buf offset n used lf Hf He H Hn Hlf;
    (destruct lf as [|lf]; [lia|]); cbn [elem_loop].
  - cbn [spec_enc_list] in Hn. rewrite len_nil in Hn.
    destruct (N.ltb_spec used n) as [|_]; [lia|]. f_equal. lia.
  - apply Forall_cons_iff in Hvc, Hwt. destruct Hvc as [Hx Hr], Hwt as [Hwx Hwr].
    cbn [spec_enc_list encodable_list] in *. apply andb_prop in He. destruct He as [Hex Her].
    pose proof (spec_enc_nonempty be x e _ _ Hwx Hex) as Hne.
    set (ex := spec_enc be (offset + used) x) in *.
    destruct (has_at_app _ _ _ _ H) as [H1 H2]. rewrite len_app in Hn.
    destruct (N.ltb_spec used n) as [_|]; [|lia].
    rewrite (Hx e depth (offset + used) buf (S vf) Hwx Hex H1 Hf). cbn [bind].
    replace (offset + used + len ex) with (offset + (used + len ex)) in * by lia.
    apply (IH Hr Hwr); try assumption; fold ex; lia.
Qed.

Lemma validate_entries be kvs k vt :
  Forall (fun kv => vc be (fst kv) /\ vc be (snd kv)) kvs ->
  Forall (fun kv => wt (fst kv) (TBase k) = true /\ wt (snd kv) vt = true) kvs ->
  forall vf depth buf offset n used lf, fuel_ok (S vf) depth ->
    encodable_entries be (offset + used) depth kvs = true ->
    has_at buf (offset + used) (spec_enc_entries be (offset + used) kvs) ->
    used + len (spec_enc_entries be (offset + used) kvs) = n ->
    (N.to_nat (n - used) < lf)%nat ->
    elem_loop (fun p => do ep <- align_offset 8 buf p;
                        do kb <- validate_base be (p + ep) buf k;
                        do vb <- validate (S vf) be depth (p + ep + kb) buf vt;
                        Ok (ep + kb + vb)) lf offset n used = Ok n.
Proof.
  induction kvs as [|[a b] r IH]; intros Hvc Hwt vf depth buf offset n used lf Hf He H Hn Hlf;
    (destruct lf as [|lf]; [lia|]); cbn [elem_loop].
  - cbn [spec_enc_entries] in Hn. rewrite len_nil in Hn.
    destruct (N.ltb_spec used n) as [|_]; [lia|]. f_equal. lia.
  - apply Forall_cons_iff in Hvc, Hwt. destruct Hvc as [[_ Hb] Hr], Hwt as [[Hwa Hwb] Hwr]. cbn [fst snd] in *.
    cbn [spec_enc_entries encodable_entries] in *. cbv zeta in He. apply andb3 in He. destruct He as (Hea & Heb & Her).
    unfold spec_enc_entry in *. cbn [fst snd] in *. cbv zeta in *. rewrite len_zeros in *.
    set (pos := offset + used) in *. set (p := padlen 8 pos) in *.
    pose proof (spec_enc_nonempty be a _ _ _ Hwa Hea) as Hne.
    set (ea := spec_enc be (pos + p) a) in *. set (eb := spec_enc be (pos + p + len ea) b) in *.
    rewrite <- !app_assoc in H. destruct (has_at_app4 _ _ _ _ _ _ H) as (H1 & H3 & H5 & H6).
    lens.
    destruct (N.ltb_spec used n) as [_|]; [|lia].
    rewrite (align_offset_ok 8 buf pos ltac:(lia) H1). cbn [bind]. fold p.
    rewrite (validate_base_ok be k a depth (pos + p) buf Hwa Hea H3). cbn [bind]. fold ea.
    rewrite (Hb vt depth (pos + p + len ea) buf (S vf) Hwb Heb H5 Hf). cbn [bind]. fold eb.
    assert (Epos : pos + p + len ea + len eb = offset + (used + (p + len ea + len eb))) by (subst pos; lia).
    rewrite Epos in *.
    apply (IH Hr Hwr); try assumption; lia.
Qed.

Lemma vfields_cons one offset f r used :
  vfields one offset (f :: r) used = do k <- one f (offset + used); vfields one offset r (used + k).
Proof. reflexivity. Qed.
Lemma vfields_nil one offset used : vfields one offset [] used = Ok used.
Proof. reflexivity. Qed.

Lemma validate_fields be vs : Forall (vc be) vs -> forall ts, Forall2 (fun x t => wt x t = true) vs ts ->
  forall vf depth buf offset used, fuel_ok (S vf) depth ->
    encodable_list be (offset + used) depth vs = true ->
    has_at buf (offset + used) (spec_enc_list be (offset + used) vs) ->
    vfields (fun f p => validate (S vf) be depth p buf f) offset ts used
    = Ok (used + len (spec_enc_list be (offset + used) vs)).
Proof.
  induction vs as [|x r IH]; intros Hvc ts Hwt vf depth buf offset used Hf He H.
  - inversion Hwt; subst. rewrite vfields_nil. cbn [spec_enc_list]. rewrite len_nil. f_equal. lia.
  - inversion Hwt as [|? t ? ts' Hwx Hwr]; subst. apply Forall_cons_iff in Hvc. destruct Hvc as [Hx Hr].
    rewrite vfields_cons. cbn [spec_enc_list encodable_list] in *. apply andb_prop in He. destruct He as [Hex Her].
    set (ex := spec_enc be (offset + used) x) in *.
    destruct (has_at_app _ _ _ _ H) as [H1 H2].
    rewrite (Hx t depth (offset + used) buf (S vf) Hwx Hex H1 Hf). cbn [bind].
    fold ex. replace (offset + used + len ex) with (offset + (used + len ex)) in * by lia.
    rewrite (IH Hr ts' Hwr vf depth buf offset (used + len ex) Hf Her H2).
    f_equal. rewrite len_app. lia.
Qed.

Theorem validate_complete_gen be : forall v, vc be v.
Proof.
  induction v as [b k|b s|et vs IH|vs IH|kb vt kvs IH|vt x IH] using val_ind';
    intros T depth off buf vf Hwt He H Hf; (destruct vf as [|vf]; [destruct Hf; lia|]).
  - destruct (wt_base_ty _ _ _ Hwt) as (-> & _). rewrite validate_S_base. now apply (validate_base_ok be b _ depth).
  - destruct (wt_text_ty _ _ _ Hwt) as (-> & _). rewrite validate_S_base. now apply (validate_base_ok be b _ depth).
  - (* array *)
    pose proof (wt_array_inv _ _ _ Hwt) as Hel. rewrite (wt_array_ty _ _ _ Hwt). rewrite validate_S_array.
    rewrite encodable_array in He. apply andb4 in He. destruct He as (Hd & Hty & Hsz & Hes).
    apply N.ltb_lt in Hd. apply N.leb_le in Hsz.
    rewrite spec_enc_array' in *.
    set (p1 := padlen 4 off) in *. set (p2 := padlen (align et) (off + p1 + 4)) in *.
    set (body := spec_enc_list be (off + p1 + 4 + p2) vs) in *.
    destruct (has_at_app _ _ _ _ H) as [H1 H2]. rewrite len_zeros in H2.
    destruct (has_at_app _ _ _ _ H2) as [H3 H4]. rewrite len_enc in H4. change (N.of_nat 4) with 4 in H4.
    destruct (has_at_app _ _ _ _ H4) as [H5 H6]. rewrite len_zeros in H6.
    pose proof (has_at_bound _ _ _ H6) as Hb.
    destruct (N.leb_spec MAX_DEPTH depth) as [|_]; [lia|].
    rewrite (align_offset_ok 4 buf off ltac:(lia) H1). cbn [bind]. fold p1.
    rewrite (parse_u32_ok be buf (off + p1) (len body) (MAX_ARRAY_u32 _ Hsz) H3). cbn [bind].
    unfold check_array_len. destruct (N.ltb_spec MAX_ARRAY (len body)) as [|_]; [lia|]. cbn [bind].
    destruct (N.ltb_spec (len buf - (off + p1 + 4)) (len body)) as [|_]; [lia|].
    rewrite (align_offset_ok (align et) buf (off + p1 + 4) (align_pos et) H5). cbn [bind]. fold p2.
    destruct (N.ltb_spec (len buf - (off + p1 + 4 + p2)) (len body)) as [|_]; [lia|].
    assert (Elen : len (zeros p1 ++ enc be 4 (len body) ++ zeros p2 ++ body) = p1 + 4 + p2 + len body).
    { rewrite !len_app, !len_zeros, len_enc. lia. }
    rewrite Elen.
    destruct (bytes_always_valid et) eqn:Ebv.
    + destruct (bytes_always_valid_inv _ Ebv) as (b & -> & Htx). cbn [align] in *.
      assert (Hal : (off + p1 + 4 + p2) mod base_align b = 0) by (apply padlen_aligned, base_align_pos).
      subst body. rewrite (fixed_list_len be b vs Htx Hel _ Hal).
      rewrite N.mul_comm, N.mod_mul by (pose proof (base_align_pos b); lia). reflexivity.
    + rewrite (validate_elems be vs et IH Hel vf (depth + 1)
                 (firstnN (off + p1 + 4 + p2 + len body) buf) (off + p1 + 4 + p2) (len body) 0 (S (N.to_nat (len body)))).
      * reflexivity.
      * now apply fuel_ok_deeper.
      * rewrite N.add_0_r. exact Hes.
      * rewrite N.add_0_r. apply has_at_clip; [exact H6|]. fold body. lia.
      * rewrite N.add_0_r. fold body. lia.
      * lia.
  - (* struct *)
    destruct (wt_struct_ty _ _ Hwt) as (ts & -> & Hel). rewrite validate_S_struct.
    rewrite encodable_struct in He. apply andb3 in He. destruct He as (Hd & _ & Hes). apply N.ltb_lt in Hd.
    rewrite spec_enc_struct in *. set (p := padlen 8 off) in *.
    destruct (has_at_app _ _ _ _ H) as [H1 H2]. rewrite len_zeros in H2.
    destruct (N.leb_spec MAX_DEPTH depth) as [|_]; [lia|].
    rewrite (align_offset_ok 8 buf off ltac:(lia) H1). cbn [bind]. fold p.
    rewrite (validate_fields be vs IH ts Hel vf (depth + 1) buf (off + p) 0).
    + cbn [bind]. rewrite N.add_0_r, len_app, len_zeros. f_equal.
    + now apply fuel_ok_deeper.
    + rewrite N.add_0_r. exact Hes.
    + rewrite N.add_0_r. exact H2.
  - (* dict *)
    pose proof (wt_dict_inv _ _ _ _ Hwt) as Hel. rewrite (wt_dict_ty _ _ _ _ Hwt). rewrite validate_S_dict.
    rewrite encodable_dict in He. apply andb4 in He. destruct He as (Hd & Hty & Hsz & Hes).
    apply N.ltb_lt in Hd. apply N.leb_le in Hsz.
    rewrite spec_enc_dict' in *.
    set (p1 := padlen 4 off) in *. set (p2 := padlen 8 (off + p1 + 4)) in *.
    set (body := spec_enc_entries be (off + p1 + 4 + p2) kvs) in *.
    destruct (has_at_app _ _ _ _ H) as [H1 H2]. rewrite len_zeros in H2.
    destruct (has_at_app _ _ _ _ H2) as [H3 H4]. rewrite len_enc in H4. change (N.of_nat 4) with 4 in H4.
    destruct (has_at_app _ _ _ _ H4) as [H5 H6]. rewrite len_zeros in H6.
    pose proof (has_at_bound _ _ _ H6) as Hb.
    destruct (N.leb_spec MAX_DEPTH depth) as [|_]; [lia|].
    rewrite (align_offset_ok 4 buf off ltac:(lia) H1). cbn [bind]. fold p1.
    rewrite (parse_u32_ok be buf (off + p1) (len body) (MAX_ARRAY_u32 _ Hsz) H3). cbn [bind].
    unfold check_array_len. destruct (N.ltb_spec MAX_ARRAY (len body)) as [|_]; [lia|]. cbn [bind].
    destruct (N.ltb_spec (len buf - (off + p1 + 4)) (len body)) as [|_]; [lia|].
    rewrite (align_offset_ok 8 buf (off + p1 + 4) ltac:(lia) H5). cbn [bind]. fold p2.
    destruct (N.ltb_spec (len buf - (off + p1 + 4 + p2)) (len body)) as [|_]; [lia|].
    cbv zeta.
    rewrite (validate_entries be kvs kb vt IH Hel vf (depth + 1)
               (firstnN (off + p1 + 4 + p2 + len body) buf) (off + p1 + 4 + p2) (len body) 0 (S (N.to_nat (len body)))).
    + cbn [bind]. f_equal. rewrite !len_app, !len_zeros, len_enc. lia.
    + now apply fuel_ok_deeper.
    + rewrite N.add_0_r. exact Hes.
    + rewrite N.add_0_r. apply has_at_clip; [exact H6|]. fold body. lia.
    + rewrite N.add_0_r. fold body. lia.
    + lia.
  - (* variant *)
    pose proof (wt_variant_inv _ _ _ Hwt) as Hwx. rewrite (wt_variant_ty _ _ _ Hwt). rewrite validate_S_variant.
    cbn [encodable] in He. apply andb3 in He. destruct He as (Hd & Hty & Hex). apply N.ltb_lt in Hd.
    rewrite spec_enc_variant in *. rewrite len_sig_bytes in *.
    destruct (has_at_app _ _ _ _ H) as [H1 H2]. rewrite len_sig_bytes in H2.
    destruct (N.leb_spec MAX_DEPTH depth) as [|_]; [lia|].
    rewrite (unmarshal_signature_ok buf off (to_str vt) (utf8_valid_ascii _ (to_str_ascii vt)) H1). cbn [bind fst snd].
    rewrite (parse_description_single vt Hty). cbn [bind].
    rewrite (IH vt (depth + 1) (off + (len (to_str vt) + 2)) buf vf Hwx Hex H2 (fuel_ok_variant _ _ Hf Hd)). cbn [bind].
    f_equal. rewrite len_app, len_sig_bytes. reflexivity.
Qed.

Theorem validate_complete be v t depth pre suf : wt v t = true -> encodable be (len pre) depth v = true ->
  validate 66 be depth (len pre) (pre ++ spec_enc be (len pre) v ++ suf) t = Ok (len (spec_enc be (len pre) v)).
Proof. intros Hwt He. apply validate_complete_gen; [exact Hwt|exact He|apply has_at_intro|apply fuel_ok_66]. Qed.

(** ** the dynamic (Param) decoder *)
Lemma u_read_u32_ok be c n : n < 2 ^ 32 ->
  has_at (ubuf c) (uoff c) (zeros (padlen 4 (uoff c)) ++ enc be 4 n) ->
  u_read_fixed be 4 c = Ok (n, set_off c (uoff c + padlen 4 (uoff c) + 4)).
Proof. intros Hn H. apply (u_read_fixed_ok be 4 c n); [auto|exact Hn|exact H]. Qed.

Lemma pfields_cons one f r c acc :
  pfields one (f :: r) c acc = do x <- one f c; pfields one r (snd x) (fst x :: acc).
Proof. reflexivity. Qed.
Lemma pfields_nil one c acc : pfields one [] c acc = Ok (rev acc, c).
Proof. reflexivity. Qed.

Lemma sub_loop_S {A} (one : uctx -> outcome (A * uctx)) lf c acc :
  sub_loop one (S lf) c acc =
  if remainder_len c =? 0 then Ok (rev acc) else do r <- one c; sub_loop one lf (snd r) (fst r :: acc).
Proof. reflexivity. Qed.
Lemma sub_loop_done {A} (one : uctx -> outcome (A * uctx)) lf c acc :
  remainder_len c = 0 -> sub_loop one lf c acc = Ok (rev acc).
Proof. intros H. destruct lf; cbn [sub_loop]; rewrite H; reflexivity. Qed.

Notation mkc := Build_uctx.

Definition pc (be : bool) (v : val) : Prop :=
  forall t buf off nf d vf, wt v t = true -> encodable be off d v = true ->
    fds_below nf v = true ->
    has_at buf off (spec_enc be off v) -> fuel_ok vf d ->
    unmarshal_p vf be t (mkc buf off nf d) = Ok (v, mkc buf (off + len (spec_enc be off v)) nf d).

Lemma p_elems be vs e : Forall (pc be) vs -> Forall (fun x => wt x e = true) vs ->
  forall vf buf off nf d lf acc, fuel_ok (S vf) d ->
    encodable_list be off d vs = true ->
    forallb (fds_below nf) vs = true ->
    has_at buf off (spec_enc_list be off vs) ->
    off + len (spec_enc_list be off vs) = len buf ->
    (N.to_nat (len buf - off) < lf)%nat ->
    sub_loop (unmarshal_p (S vf) be e) lf (mkc buf off nf d) acc = Ok (rev acc ++ vs).
Proof.
  induction vs as [|x r IH]; intros Hpc Hwt vf buf off nf d lf acc Hf He Hfd H Hn Hlf.
  - cbn [spec_enc_list] in Hn. rewrite len_nil in Hn. rewrite sub_loop_done; [now rewrite app_nil_r|].
    unfold remainder_len. cbn [ubuf uoff]. lia.
  - destruct lf as [|lf]; [lia|]. rewrite sub_loop_S.
    apply Forall_cons_iff in Hpc, Hwt. destruct Hpc as [Hx Hr], Hwt as [Hwx Hwr].
    cbn [spec_enc_list encodable_list forallb] in *. apply andb_prop in He, Hfd. destruct He as [Hex Her], Hfd as [Hfx Hfr].
    pose proof (spec_enc_nonempty be x e _ _ Hwx Hex) as Hne.
    set (ex := spec_enc be off x) in *.
    destruct (has_at_app _ _ _ _ H) as [H1 H2]. rewrite len_app in Hn.
    unfold remainder_len. cbn [ubuf uoff]. destruct (N.eqb_spec (len buf - off) 0) as [|_]; [lia|].
    rewrite (Hx e buf off nf d (S vf) Hwx Hex Hfx H1 Hf). cbn [bind fst snd]. fold ex.
    rewrite (IH Hr Hwr vf buf (off + len ex) nf d lf (x :: acc) Hf Her Hfr H2); [|lia|lia].
    cbn [rev]. now rewrite <- app_assoc.
Qed.

Lemma p_entries be kvs k vt :
  Forall (fun kv => pc be (fst kv) /\ pc be (snd kv)) kvs ->
  Forall (fun kv => wt (fst kv) (TBase k) = true /\ wt (snd kv) vt = true) kvs ->
  forall vf buf off nf d lf acc, fuel_ok (S vf) d ->
    encodable_entries be off d kvs = true ->
    forallb (fun kv => fds_below nf (fst kv) && fds_below nf (snd kv)) kvs = true ->
    has_at buf off (spec_enc_entries be off kvs) ->
    off + len (spec_enc_entries be off kvs) = len buf ->
    (N.to_nat (len buf - off) < lf)%nat ->
    sub_loop (fun c => do c <- u_align 8 c;
                       do kr <- u_base be k c;
                       do vr <- unmarshal_p (S vf) be vt (snd kr);
                       Ok ((fst kr, fst vr), snd vr)) lf (mkc buf off nf d) acc = Ok (rev acc ++ kvs).
Proof.
  induction kvs as [|[a b] r IH]; intros Hpc Hwt vf buf off nf d lf acc Hf He Hfd H Hn Hlf.
  - cbn [spec_enc_entries] in Hn. rewrite len_nil in Hn. rewrite sub_loop_done; [now rewrite app_nil_r|].
    unfold remainder_len. cbn [ubuf uoff]. lia.
  - destruct lf as [|lf]; [lia|]. rewrite sub_loop_S.
    apply Forall_cons_iff in Hpc, Hwt. destruct Hpc as [[_ Hb] Hr], Hwt as [[Hwa Hwb] Hwr]. cbn [fst snd] in *.
    cbn [spec_enc_entries encodable_entries forallb] in *. cbv zeta in He. apply andb3 in He. destruct He as (Hea & Heb & Her).
    cbn [fst snd] in Hfd. apply andb3 in Hfd. destruct Hfd as (Hfa & Hfb & Hfr).
    unfold spec_enc_entry in *. cbn [fst snd] in *. cbv zeta in *. rewrite len_zeros in *.
    set (p := padlen 8 off) in *.
    pose proof (spec_enc_nonempty be a _ _ _ Hwa Hea) as Hne.
    set (ea := spec_enc be (off + p) a) in *. set (eb := spec_enc be (off + p + len ea) b) in *.
    rewrite <- !app_assoc in H. destruct (has_at_app4 _ _ _ _ _ _ H) as (H1 & H3 & H5 & H6).
    lens.
    unfold remainder_len. cbn [ubuf uoff]. destruct (N.eqb_spec (len buf - off) 0) as [|_]; [lia|].
    rewrite (u_align_ok 8 (mkc buf off nf d) ltac:(lia) H1). unfold set_off; cbn [bind ubuf uoff unfds udepth]. fold p.
    rewrite (u_base_ok be k a d (mkc buf (off + p) nf d) Hwa Hea Hfa H3). unfold set_off; cbn [bind ubuf uoff unfds udepth fst snd]. fold ea.
    rewrite (Hb vt buf (off + p + len ea) nf d (S vf) Hwb Heb Hfb H5 Hf). cbn [bind fst snd]. fold eb.
    rewrite (IH Hr Hwr vf buf (off + p + len ea + len eb) nf d lf ((a, b) :: acc) Hf Her Hfr H6); [|lia|lia].
    cbn [rev]. now rewrite <- app_assoc.
Qed.

Lemma p_fields be vs : Forall (pc be) vs -> forall ts, Forall2 (fun x t => wt x t = true) vs ts ->
  forall vf buf off nf d acc, fuel_ok (S vf) d ->
    encodable_list be off d vs = true ->
    forallb (fds_below nf) vs = true ->
    has_at buf off (spec_enc_list be off vs) ->
    pfields (unmarshal_p (S vf) be) ts (mkc buf off nf d) acc
    = Ok (rev acc ++ vs, mkc buf (off + len (spec_enc_list be off vs)) nf d).
Proof.
  induction vs as [|x r IH]; intros Hpc ts Hwt vf buf off nf d acc Hf He Hfd H.
  - inversion Hwt; subst. rewrite pfields_nil. cbn [spec_enc_list]. rewrite len_nil, N.add_0_r, app_nil_r. reflexivity.
  - inversion Hwt as [|? t ? ts' Hwx Hwr]; subst. apply Forall_cons_iff in Hpc. destruct Hpc as [Hx Hr].
    rewrite pfields_cons. cbn [spec_enc_list encodable_list forallb] in *.
    apply andb_prop in He, Hfd. destruct He as [Hex Her], Hfd as [Hfx Hfr].
    set (ex := spec_enc be off x) in *.
    destruct (has_at_app _ _ _ _ H) as [H1 H2].
    rewrite (Hx t buf off nf d (S vf) Hwx Hex Hfx H1 Hf). cbn [bind fst snd]. fold ex.
    rewrite (IH Hr ts' Hwr vf buf (off + len ex) nf d (x :: acc) Hf Her Hfr H2).
    cbn [rev]. rewrite <- app_assoc, len_app, N.add_assoc. reflexivity.
Qed.

Theorem unmarshal_p_complete_gen be : forall v, pc be v.
Proof.
  induction v as [b k|b s|et vs IH|vs IH|kb vt kvs IH|vt x IH] using val_ind';
    intros T buf off nf d vf Hwt He Hfd H Hf; (destruct vf as [|vf]; [destruct Hf; lia|]).
  - destruct (wt_base_ty _ _ _ Hwt) as (-> & _). rewrite unmarshal_p_S_base.
    now apply (u_base_ok be b _ d (mkc buf off nf d)).
  - destruct (wt_text_ty _ _ _ Hwt) as (-> & _). rewrite unmarshal_p_S_base.
    now apply (u_base_ok be b _ d (mkc buf off nf d)).
  - (* array *)
    pose proof (wt_array_inv _ _ _ Hwt) as Hel. rewrite (wt_array_ty _ _ _ Hwt). rewrite unmarshal_p_S_array.
    rewrite encodable_array in He. apply andb4 in He. destruct He as (Hd & Hty & Hsz & Hes).
    apply N.ltb_lt in Hd. apply N.leb_le in Hsz. cbn [fds_below] in Hfd.
    rewrite spec_enc_array' in *.
    set (p1 := padlen 4 off) in *. set (p2 := padlen (align et) (off + p1 + 4)) in *.
    set (body := spec_enc_list be (off + p1 + 4 + p2) vs) in *.
    rewrite app_assoc in H. destruct (has_at_app3 _ _ _ _ _ H) as (H1 & H5 & H6). lens.
    pose proof (has_at_bound _ _ _ H6) as Hb.
    rewrite (u_enter_ok (mkc buf off nf d) Hd). cbn [bind ubuf uoff unfds udepth]. unfold leave_res.
    rewrite (u_read_u32_ok be (mkc buf off nf (d + 1)) (len body) (MAX_ARRAY_u32 _ Hsz) H1).
    unfold set_off; cbn [bind ubuf uoff unfds udepth fst snd]. fold p1.
    unfold check_array_len. destruct (N.ltb_spec MAX_ARRAY (len body)) as [|_]; [lia|]. cbn [bind].
    rewrite (u_align_ok (align et) (mkc buf (off + p1 + 4) nf (d + 1)) (align_pos et) H5).
    unfold set_off; cbn [bind ubuf uoff unfds udepth]. fold p2.
    rewrite (u_sub_ok (len body) (mkc buf (off + p1 + 4 + p2) nf (d + 1))) by (cbn [ubuf uoff]; lia).
    unfold set_off; cbn [bind ubuf uoff unfds udepth fst snd].
    rewrite (p_elems be vs et IH Hel vf (firstnN (off + p1 + 4 + p2 + len body) buf) (off + p1 + 4 + p2) nf (d + 1)
               (S (N.to_nat (len body))) []).
    + unfold u_leave; cbn [bind fst snd ubuf uoff unfds udepth rev app]. do 3 f_equal; lia.
    + now apply fuel_ok_deeper.
    + exact Hes.
    + exact Hfd.
    + apply has_at_clip; [exact H6|]. fold body. lia.
    + fold body. rewrite len_clip by lia. reflexivity.
    + rewrite len_clip by lia. lia.
  - (* struct *)
    destruct (wt_struct_ty _ _ Hwt) as (ts & -> & Hel). rewrite unmarshal_p_S_struct.
    rewrite encodable_struct in He. apply andb3 in He. destruct He as (Hd & Hne & Hes). apply N.ltb_lt in Hd.
    cbn [fds_below] in Hfd.
    rewrite spec_enc_struct in *. set (p := padlen 8 off) in *.
    destruct (has_at_app _ _ _ _ H) as [H1 H2]. lens.
    rewrite (u_enter_ok (mkc buf off nf d) Hd). cbn [bind ubuf uoff unfds udepth]. unfold leave_res.
    rewrite (u_align_ok 8 (mkc buf off nf (d + 1)) ltac:(lia) H1). unfold set_off; cbn [bind ubuf uoff unfds udepth]. fold p.
    assert (Ets : match ts with [] => false | _ => true end = true).
    { destruct vs; [discriminate|]. inversion Hel. reflexivity. }
    destruct ts as [|t0 ts0]; [discriminate|].
    rewrite (p_fields be vs IH _ Hel vf buf (off + p) nf (d + 1) [] (fuel_ok_deeper _ _ Hf) Hes Hfd H2).
    unfold u_leave; cbn [bind fst snd ubuf uoff unfds udepth rev app]. do 3 f_equal; lia.
  - (* dict *)
    pose proof (wt_dict_inv _ _ _ _ Hwt) as Hel. rewrite (wt_dict_ty _ _ _ _ Hwt). rewrite unmarshal_p_S_dict.
    rewrite encodable_dict in He. apply andb4 in He. destruct He as (Hd & Hty & Hsz & Hes).
    apply N.ltb_lt in Hd. apply N.leb_le in Hsz. cbn [fds_below] in Hfd.
    rewrite spec_enc_dict' in *.
    set (p1 := padlen 4 off) in *. set (p2 := padlen 8 (off + p1 + 4)) in *.
    set (body := spec_enc_entries be (off + p1 + 4 + p2) kvs) in *.
    rewrite app_assoc in H. destruct (has_at_app3 _ _ _ _ _ H) as (H1 & H5 & H6). lens.
    pose proof (has_at_bound _ _ _ H6) as Hb.
    rewrite (u_enter_ok (mkc buf off nf d) Hd). cbn [bind ubuf uoff unfds udepth]. unfold leave_res.
    rewrite (u_read_u32_ok be (mkc buf off nf (d + 1)) (len body) (MAX_ARRAY_u32 _ Hsz) H1).
    unfold set_off; cbn [bind ubuf uoff unfds udepth fst snd]. fold p1.
    unfold check_array_len. destruct (N.ltb_spec MAX_ARRAY (len body)) as [|_]; [lia|]. cbn [bind].
    rewrite (u_align_ok 8 (mkc buf (off + p1 + 4) nf (d + 1)) ltac:(lia) H5).
    unfold set_off; cbn [bind ubuf uoff unfds udepth]. fold p2.
    rewrite (u_sub_ok (len body) (mkc buf (off + p1 + 4 + p2) nf (d + 1))) by (cbn [ubuf uoff]; lia).
    unfold set_off; cbn [bind ubuf uoff unfds udepth fst snd].
    rewrite (p_entries be kvs kb vt IH Hel vf (firstnN (off + p1 + 4 + p2 + len body) buf) (off + p1 + 4 + p2) nf (d + 1)
               (S (N.to_nat (len body))) []).
    + unfold u_leave; cbn [bind fst snd ubuf uoff unfds udepth rev app]. do 3 f_equal; lia.
    + now apply fuel_ok_deeper.
    + exact Hes.
    + exact Hfd.
    + apply has_at_clip; [exact H6|]. fold body. lia.
    + fold body. rewrite len_clip by lia. reflexivity.
    + rewrite len_clip by lia. lia.
  - (* variant *)
    pose proof (wt_variant_inv _ _ _ Hwt) as Hwx. rewrite (wt_variant_ty _ _ _ Hwt). rewrite unmarshal_p_S_variant.
    cbn [encodable] in He. apply andb3 in He. destruct He as (Hd & Hty & Hex). apply N.ltb_lt in Hd.
    cbn [fds_below] in Hfd.
    rewrite spec_enc_variant in *. rewrite len_sig_bytes in *.
    destruct (has_at_app _ _ _ _ H) as [H1 H2]. rewrite len_sig_bytes in H2.
    rewrite (u_enter_ok (mkc buf off nf d) Hd). cbn [bind ubuf uoff unfds udepth]. unfold leave_res.
    rewrite (u_read_sig_ok (mkc buf off nf (d + 1)) (to_str vt) (utf8_valid_ascii _ (to_str_ascii vt)) H1).
    unfold set_off; cbn [bind ubuf uoff unfds udepth fst snd].
    rewrite (parse_description_single vt Hty). cbn [bind].
    rewrite (IH vt buf (off + (len (to_str vt) + 2)) nf (d + 1) vf Hwx Hex Hfd H2 (fuel_ok_variant _ _ Hf Hd)).
    unfold u_leave; cbn [bind fst snd ubuf uoff unfds udepth]. do 3 f_equal; [|lia].
    rewrite len_app, len_sig_bytes. lia.
Qed.

Theorem unmarshal_p_complete be v t depth nf pre suf : wt v t = true -> encodable be (len pre) depth v = true ->
  fds_below nf v = true ->
  unmarshal_p 66 be t {| ubuf := pre ++ spec_enc be (len pre) v ++ suf; uoff := len pre; unfds := nf; udepth := depth |}
  = Ok (v, {| ubuf := pre ++ spec_enc be (len pre) v ++ suf; uoff := len pre + len (spec_enc be (len pre) v);
              unfds := nf; udepth := depth |}).
Proof.
  intros Hwt He Hfd. apply unmarshal_p_complete_gen; [exact Hwt|exact He|exact Hfd|apply has_at_intro|apply fuel_ok_66].
Qed.

(** ** the typed decoder *)
(** [ety_matches e v]: the Rust type the caller asks for has the shape of the value, and wherever
    it says Variant-then-get::<T>() the variant on the wire holds exactly a T. *)
Fixpoint ety_matches (e : ety) (v : val) {struct v} : bool :=
  match v, e with
  | VBase b _, EBase b' => base_eqb b b'
  | VText b _, EBase b' => base_eqb b b'
  | VArray t vs, EArray x => ty_eqb t (erase x) && forallb (ety_matches x) vs
  | VStruct vs, EStruct es =>
      (fix go (l : list val) (es : list ety) : bool :=
         match l, es with
         | [], [] => true
         | y :: l', e' :: es' => ety_matches e' y && go l' es'
         | _, _ => false
         end) vs es
  | VDict k vt kvs, EDict k' x =>
      base_eqb k k' && ty_eqb vt (erase x) && forallb (fun kv => ety_matches x (snd kv)) kvs
  | VVariant t y, EVar x => ty_eqb t (erase x) && ety_matches x y
  | _, _ => false
  end.

Lemma tfields_cons one f r first c acc :
  tfields one (f :: r) first c acc =
  do c <- (if first then Ok c else u_align (ealign f) c);
  do x <- one f c; tfields one r false (snd x) (fst x :: acc).
Proof. reflexivity. Qed.
Lemma tfields_nil one first c acc : tfields one [] first c acc = Ok (rev acc, c).
Proof. reflexivity. Qed.

Definition tc (be : bool) (v : val) : Prop :=
  forall e buf off nf ud d vf, wt v (erase e) = true -> ety_matches e v = true ->
    encodable be off d v = true -> ud <= d -> fds_below nf v = true ->
    has_at buf off (spec_enc be off v) -> fuel_ok vf d ->
    unmarshal_t vf be e (mkc buf off nf ud) = Ok (v, mkc buf (off + len (spec_enc be off v)) nf ud).

(* an explicit alignment to the type's alignment, then the decoder (which aligns again: no-op) *)
Lemma t_aligned be v : tc be v ->
  forall e buf off nf ud d vf, wt v (erase e) = true -> ety_matches e v = true ->
    encodable be off d v = true -> ud <= d -> fds_below nf v = true ->
    has_at buf off (spec_enc be off v) -> fuel_ok vf d ->
    u_align (ealign e) (mkc buf off nf ud) = Ok (mkc buf (off + padlen (ealign e) off) nf ud)
    /\ unmarshal_t vf be e (mkc buf (off + padlen (ealign e) off) nf ud)
       = Ok (v, mkc buf (off + len (spec_enc be off v)) nf ud).
Proof.
  intros Htc e buf off nf ud d vf Hwt Hm He Hud Hfd H Hf. unfold ealign.
  rewrite (spec_enc_align be v _ off Hwt) in H |- *. set (p := padlen (align (erase e)) off) in *.
  destruct (has_at_app _ _ _ _ H) as [H1 H2]. rewrite len_zeros in H2. split.
  - exact (u_align_ok _ (mkc buf off nf ud) (align_pos _) H1).
  - rewrite <- (encodable_align be v _ off d Hwt) in He. fold p in He.
    rewrite (Htc e buf (off + p) nf ud d vf Hwt Hm He Hud Hfd H2 Hf). rewrite len_app, len_zeros, N.add_assoc. reflexivity.
Qed.

Lemma t_elems be vs x : Forall (tc be) vs -> Forall (fun y => wt y (erase x) = true) vs ->
  forallb (ety_matches x) vs = true ->
  forall vf buf off nf ud d lf acc, fuel_ok (S vf) d -> ud <= d ->
    encodable_list be off d vs = true ->
    forallb (fds_below nf) vs = true ->
    has_at buf off (spec_enc_list be off vs) ->
    off + len (spec_enc_list be off vs) = len buf ->
    (N.to_nat (len buf - off) < lf)%nat ->
    sub_loop (fun c => do c <- u_align (ealign x) c; unmarshal_t (S vf) be x c) lf (mkc buf off nf ud) acc
    = Ok (rev acc ++ vs).
Proof.
  induction vs as [|y r IH]; intros Htc Hwt Hm vf buf off nf ud d lf acc Hf Hud He Hfd H Hn Hlf.
  - cbn [spec_enc_list] in Hn. rewrite len_nil in Hn. rewrite sub_loop_done; [now rewrite app_nil_r|].
    unfold remainder_len. cbn [ubuf uoff]. lia.
  - destruct lf as [|lf]; [lia|]. rewrite sub_loop_S.
    apply Forall_cons_iff in Htc, Hwt. destruct Htc as [Hy Hr], Hwt as [Hwy Hwr].
    cbn [spec_enc_list encodable_list forallb] in *. apply andb_prop in He, Hfd, Hm.
    destruct He as [Hey Her], Hfd as [Hfy Hfr], Hm as [Hmy Hmr].
    pose proof (spec_enc_nonempty be y _ _ _ Hwy Hey) as Hne.
    set (ey := spec_enc be off y) in *.
    destruct (has_at_app _ _ _ _ H) as [H1 H2]. rewrite len_app in Hn.
    unfold remainder_len. cbn [ubuf uoff]. destruct (N.eqb_spec (len buf - off) 0) as [|_]; [lia|].
    destruct (t_aligned be y Hy x buf off nf ud d (S vf) Hwy Hmy Hey Hud Hfy H1 Hf) as [E1 E2].
    rewrite E1. cbn [bind]. rewrite E2. cbn [bind fst snd]. fold ey.
    rewrite (IH Hr Hwr Hmr vf buf (off + len ey) nf ud d lf (y :: acc) Hf Hud Her Hfr H2); [|lia|lia].
    cbn [rev]. now rewrite <- app_assoc.
Qed.

Lemma t_entries be kvs k x :
  Forall (fun kv => tc be (fst kv) /\ tc be (snd kv)) kvs ->
  Forall (fun kv => wt (fst kv) (TBase k) = true /\ wt (snd kv) (erase x) = true) kvs ->
  forallb (fun kv => ety_matches x (snd kv)) kvs = true ->
  forall vf buf off nf ud d lf acc, fuel_ok (S vf) d -> ud <= d ->
    encodable_entries be off d kvs = true ->
    forallb (fun kv => fds_below nf (fst kv) && fds_below nf (snd kv)) kvs = true ->
    has_at buf off (spec_enc_entries be off kvs) ->
    off + len (spec_enc_entries be off kvs) = len buf ->
    (N.to_nat (len buf - off) < lf)%nat ->
    sub_loop (fun c => do c <- u_align 8 c;
                       do kr <- u_base be k c;
                       do c2 <- u_align (ealign x) (snd kr);
                       do vr <- unmarshal_t (S vf) be x c2;
                       Ok ((fst kr, fst vr), snd vr)) lf (mkc buf off nf ud) acc = Ok (rev acc ++ kvs).
Proof.
  induction kvs as [|[a b] r IH]; intros Htc Hwt Hm vf buf off nf ud d lf acc Hf Hud He Hfd H Hn Hlf.
  - cbn [spec_enc_entries] in Hn. rewrite len_nil in Hn. rewrite sub_loop_done; [now rewrite app_nil_r|].
    unfold remainder_len. cbn [ubuf uoff]. lia.
  - destruct lf as [|lf]; [lia|]. rewrite sub_loop_S.
    apply Forall_cons_iff in Htc, Hwt. destruct Htc as [[_ Hb] Hr], Hwt as [[Hwa Hwb] Hwr]. cbn [fst snd] in *.
    cbn [spec_enc_entries encodable_entries forallb] in *. cbv zeta in He. apply andb3 in He. destruct He as (Hea & Heb & Her).
    cbn [fst snd] in Hfd, Hm. apply andb3 in Hfd. destruct Hfd as (Hfa & Hfb & Hfr).
    apply andb_prop in Hm. destruct Hm as [Hmb Hmr].
    unfold spec_enc_entry in *. cbn [fst snd] in *. cbv zeta in *. rewrite len_zeros in *.
    set (p := padlen 8 off) in *.
    pose proof (spec_enc_nonempty be a _ _ _ Hwa Hea) as Hne.
    set (ea := spec_enc be (off + p) a) in *. set (eb := spec_enc be (off + p + len ea) b) in *.
    rewrite <- !app_assoc in H. destruct (has_at_app4 _ _ _ _ _ _ H) as (H1 & H3 & H5 & H6).
    lens.
    unfold remainder_len. cbn [ubuf uoff]. destruct (N.eqb_spec (len buf - off) 0) as [|_]; [lia|].
    rewrite (u_align_ok 8 (mkc buf off nf ud) ltac:(lia) H1). unfold set_off; cbn [bind ubuf uoff unfds udepth]. fold p.
    rewrite (u_base_ok be k a d (mkc buf (off + p) nf ud) Hwa Hea Hfa H3).
    unfold set_off; cbn [bind ubuf uoff unfds udepth fst snd]. fold ea.
    destruct (t_aligned be b Hb x buf (off + p + len ea) nf ud d (S vf) Hwb Hmb Heb Hud Hfb H5 Hf) as [E1 E2].
    rewrite E1. cbn [bind]. rewrite E2. cbn [bind fst snd]. fold eb.
    rewrite (IH Hr Hwr Hmr vf buf (off + p + len ea + len eb) nf ud d lf ((a, b) :: acc) Hf Hud Her Hfr H6); [|lia|lia].
    cbn [rev]. now rewrite <- app_assoc.
Qed.

Lemma t_fields be vs : Forall (tc be) vs ->
  forall es, Forall2 (fun y e => wt y (erase e) = true /\ ety_matches e y = true) vs es ->
  forall vf buf off nf ud d first acc, fuel_ok (S vf) d -> ud <= d ->
    encodable_list be off d vs = true ->
    forallb (fds_below nf) vs = true ->
    has_at buf off (spec_enc_list be off vs) ->
    tfields (unmarshal_t (S vf) be) es first (mkc buf off nf ud) acc
    = Ok (rev acc ++ vs, mkc buf (off + len (spec_enc_list be off vs)) nf ud).
Proof.
  induction vs as [|y r IH]; intros Htc es Hwt vf buf off nf ud d first acc Hf Hud He Hfd H.
  - inversion Hwt; subst. rewrite tfields_nil. cbn [spec_enc_list]. rewrite len_nil, N.add_0_r, app_nil_r. reflexivity.
  - inversion Hwt as [|? e ? es' [Hwy Hmy] Hwr]; subst. apply Forall_cons_iff in Htc. destruct Htc as [Hy Hr].
    rewrite tfields_cons. cbn [spec_enc_list encodable_list forallb] in *.
    apply andb_prop in He, Hfd. destruct He as [Hey Her], Hfd as [Hfy Hfr].
    set (ey := spec_enc be off y) in *.
    destruct (has_at_app _ _ _ _ H) as [H1 H2].
    assert (E : (do c <- (if first then Ok (mkc buf off nf ud) else u_align (ealign e) (mkc buf off nf ud));
                 unmarshal_t (S vf) be e c) = Ok (y, mkc buf (off + len ey) nf ud)).
    { destruct first.
      - cbn [bind]. exact (Hy e buf off nf ud d (S vf) Hwy Hmy Hey Hud Hfy H1 Hf).
      - destruct (t_aligned be y Hy e buf off nf ud d (S vf) Hwy Hmy Hey Hud Hfy H1 Hf) as [E1 E2].
        rewrite E1. cbn [bind]. exact E2. }
    destruct (if first then Ok (mkc buf off nf ud) else u_align (ealign e) (mkc buf off nf ud)) as [c'| | | |];
      cbn [bind] in E |- *; try discriminate E.
    rewrite E. cbn [bind fst snd].
    rewrite (IH Hr es' Hwr vf buf (off + len ey) nf ud d false (y :: acc) Hf Hud Her Hfr H2).
    cbn [rev]. rewrite <- app_assoc, len_app, N.add_assoc. reflexivity.
Qed.

Lemma struct_matches vs es : wt (VStruct vs) (TStruct (map erase es)) = true -> ety_matches (EStruct es) (VStruct vs) = true ->
  Forall2 (fun y e => wt y (erase e) = true /\ ety_matches e y = true) vs es.
Proof.
  cbn [wt ety_matches]. revert es. induction vs as [|y r IH]; intros [|e es] Hw Hm; cbn [map] in *; try discriminate; [constructor|].
  apply andb_prop in Hw, Hm. destruct Hw as [Hw1 Hw2], Hm as [Hm1 Hm2]. constructor; [auto|]. now apply IH.
Qed.

Lemma firstn_app_exact {A} (a b : list A) n : length a = n -> firstn n (a ++ b) = a.
Proof. intros <-. rewrite firstn_app, firstn_all, Nat.sub_diag. cbn. apply app_nil_r. Qed.
Lemma skipn_app_exact {A} (a b : list A) n : length a = n -> skipn n (a ++ b) = b.
Proof. intros <-. rewrite skipn_app, skipn_all, Nat.sub_diag. reflexivity. Qed.

(* the memcpy fast path: the raw bytes cut into chunks and read in native order are the elements *)
Lemma chunks_ok be b vs : (be = false \/ b = BByte) -> is_text b = false ->
  Forall (fun x => wt x (TBase b) = true) vs ->
  forall pos fuel, pos mod base_align b = 0 -> (length vs < fuel)%nat ->
    chunks b (base_size b) fuel (spec_enc_list be pos vs) = vs.
Proof.
  intros Hbe Ht. induction 1 as [|x r Hx _ IH]; intros pos fuel Hpos Hfu.
  - cbn [spec_enc_list]. destruct fuel; reflexivity.
  - destruct fuel as [|fuel]; [cbn in Hfu; lia|].
    destruct (wt_base_inv _ _ Hx) as [(k & -> & _ & Hk)|(s & -> & Hts)]; [|congruence].
    cbn [spec_enc_list spec_enc]. rewrite (padlen_0 _ _ (base_align_pos b) Hpos). cbn [zeros N.to_nat repeat app].
    assert (Ee : enc be (base_size b) k = enc false (base_size b) k).
    { destruct Hbe as [->| ->]; [reflexivity|]. destruct be; reflexivity. }
    rewrite len_enc, (base_size_align b Ht).
    set (rest := spec_enc_list be (pos + base_align b) r).
    pose proof (base_size_pos b Ht) as Hsz. pose proof (length_enc be (base_size b) k) as Hl.
    cbn [chunks]. destruct (enc be (base_size b) k ++ rest) as [|z zs] eqn:El.
    { apply (f_equal (@length N)) in El. rewrite app_length, Hl in El. cbn in El. lia. }
    rewrite <- El. rewrite (firstn_app_exact _ _ _ Hl), (skipn_app_exact _ _ _ Hl).
    rewrite Ee, dec_enc by exact Hk. f_equal. subst rest. apply IH; [|cbn in Hfu; lia].
    pose proof (base_align_pos b) as Hap. apply N.mod_divide in Hpos; [|lia]. destruct Hpos as [q ->].
    replace (q * base_align b + base_align b) with ((q + 1) * base_align b) by lia. apply N.mod_mul. lia.
Qed.

Lemma u_read_u32_aligned be buf off nf ud n : n < 2 ^ 32 -> padlen 4 off = 0 -> has_at buf off (enc be 4 n) ->
  u_read_fixed be 4 (mkc buf off nf ud) = Ok (n, mkc buf (off + 4) nf ud).
Proof.
  intros Hn Hp H. rewrite (u_read_u32_ok be (mkc buf off nf ud) n Hn).
  - unfold set_off. cbn [ubuf uoff unfds udepth]. now rewrite Hp, N.add_0_r.
  - cbn [ubuf uoff]. rewrite Hp. exact H.
Qed.

Theorem unmarshal_t_complete_gen be : forall v, tc be v.
Proof.
  induction v as [b k|b s|et vs IH|vs IH|kb vt kvs IH|vt y IH] using val_ind';
    intros e buf off nf ud d vf Hwt Hm He Hud Hfd H Hf; (destruct vf as [|vf]; [destruct Hf; lia|]).
  - destruct e as [b'|?|?|? ?|?]; try discriminate Hm. rewrite unmarshal_t_S_base.
    now apply (u_base_ok be b' _ d (mkc buf off nf ud)).
  - destruct e as [b'|?|?|? ?|?]; try discriminate Hm. rewrite unmarshal_t_S_base.
    now apply (u_base_ok be b' _ d (mkc buf off nf ud)).
  - (* array *)
    destruct e as [?|x|?|? ?|?]; try discriminate Hm. cbn [ety_matches] in Hm. apply andb_prop in Hm. destruct Hm as [Het Hms].
    apply ty_eqb_eq in Het. subst et. cbn [erase] in Hwt.
    pose proof (wt_array_inv _ _ _ Hwt) as Hel. rewrite unmarshal_t_S_array.
    rewrite encodable_array in He. apply andb4 in He. destruct He as (Hd & Hty & Hsz & Hes).
    apply N.ltb_lt in Hd. apply N.leb_le in Hsz. cbn [fds_below] in Hfd.
    rewrite spec_enc_array' in *.
    set (p1 := padlen 4 off) in *. set (p2 := padlen (align (erase x)) (off + p1 + 4)) in *.
    set (body := spec_enc_list be (off + p1 + 4 + p2) vs) in *.
    assert (Hp1 : padlen 4 (off + p1) = 0) by (apply padlen_at_aligned; lia).
    destruct (has_at_app4 _ _ _ _ _ _ H) as (H1 & H3 & H5 & H6). lens.
    pose proof (has_at_bound _ _ _ H6) as Hb.
    assert (H13 : has_at buf off (zeros p1 ++ enc be 4 (len body))).
    { rewrite app_assoc in H. now apply has_at_app_l in H. }
    destruct (valid_slice be (erase x)) eqn:Evs.
    + (* memcpy fast path *)
      unfold ealign.
      destruct (valid_slice_inv _ _ Evs) as (b & Ex & Htx & Hnfd & Hsa & Hbe).
      subst body p2. rewrite Ex in *. cbn [align] in *.
      set (p2 := padlen (base_align b) (off + p1 + 4)) in *. set (body := spec_enc_list be (off + p1 + 4 + p2) vs) in *.
      rewrite (u_read_u32_ok be (mkc buf off nf ud) (len body) (MAX_ARRAY_u32 _ Hsz) H13).
      unfold set_off; cbn [bind ubuf uoff unfds udepth fst snd]. fold p1.
      unfold check_array_len. destruct (N.ltb_spec MAX_ARRAY (len body)) as [|_]; [lia|]. cbn [bind].
      rewrite (u_align_ok (base_align b) (mkc buf (off + p1 + 4) nf ud) (base_align_pos _) H5).
      unfold set_off; cbn [bind ubuf uoff unfds udepth]. fold p2.
      assert (Hal : (off + p1 + 4 + p2) mod base_align b = 0) by (apply padlen_aligned, base_align_pos).
      assert (Elen : len body = base_align b * len vs) by (subst body; apply (fixed_list_len be b vs Htx Hel _ Hal)).
      rewrite Elen at 1. rewrite N.mul_comm, N.mod_mul by (pose proof (base_align_pos b); lia).
      cbn [N.eqb negb]. change (0 =? 0) with true. cbn [negb].
      unfold remainder_len. cbn [ubuf uoff].
      destruct (N.ltb_spec (len buf - (off + p1 + 4 + p2)) (len body)) as [|_]; [lia|].
      rewrite (slice_has_at _ _ _ H6). subst body.
      rewrite (chunks_ok be b vs Hbe Htx Hel _ _ Hal).
      * reflexivity.
      * rewrite Elen. pose proof (base_align_pos b). unfold len. nia.
    + (* element loop *)
      rewrite (u_align_ok 4 (mkc buf off nf ud) ltac:(lia) H1). unfold set_off; cbn [bind ubuf uoff unfds udepth]. fold p1.
      rewrite (u_read_u32_aligned be buf (off + p1) nf ud (len body) (MAX_ARRAY_u32 _ Hsz) Hp1 H3). cbn [bind fst snd].
      unfold check_array_len. destruct (N.ltb_spec MAX_ARRAY (len body)) as [|_]; [lia|]. cbn [bind].
      rewrite (u_align_ok (ealign x) (mkc buf (off + p1 + 4) nf ud) (align_pos _) H5).
      unfold set_off; cbn [bind ubuf uoff unfds udepth]. change (padlen (ealign x) (off + p1 + 4)) with p2.
      rewrite (u_sub_ok (len body) (mkc buf (off + p1 + 4 + p2) nf ud)) by (cbn [ubuf uoff]; lia).
      unfold set_off; cbn [bind ubuf uoff unfds udepth fst snd].
      rewrite (t_elems be vs x IH Hel Hms vf (firstnN (off + p1 + 4 + p2 + len body) buf) (off + p1 + 4 + p2) nf ud (d + 1)
                 (S (N.to_nat (len body))) []).
      * cbn [bind fst snd rev app]. do 3 f_equal; rewrite ?len_app, ?len_zeros, ?len_enc4; lia.
      * now apply fuel_ok_deeper.
      * lia.
      * exact Hes.
      * exact Hfd.
      * apply has_at_clip; [exact H6|]. fold body. lia.
      * fold body. rewrite len_clip by lia. reflexivity.
      * rewrite len_clip by lia. lia.
  - (* struct *)
    destruct e as [?|?|es|? ?|?]; try discriminate Hm. cbn [erase] in Hwt.
    pose proof (struct_matches _ _ Hwt Hm) as Hel. rewrite unmarshal_t_S_struct.
    rewrite encodable_struct in He. apply andb3 in He. destruct He as (Hd & Hne & Hes). apply N.ltb_lt in Hd.
    cbn [fds_below] in Hfd.
    rewrite spec_enc_struct in *. set (p := padlen 8 off) in *.
    destruct (has_at_app _ _ _ _ H) as [H1 H2]. lens.
    rewrite (u_align_ok 8 (mkc buf off nf ud) ltac:(lia) H1). unfold set_off; cbn [bind ubuf uoff unfds udepth]. fold p.
    rewrite (t_fields be vs IH es Hel vf buf (off + p) nf ud (d + 1) true [] (fuel_ok_deeper _ _ Hf) ltac:(lia) Hes Hfd H2).
    cbn [bind fst snd rev app]. reflexivity.
  - (* dict *)
    destruct e as [?|?|?|k' x|?]; try discriminate Hm. cbn [ety_matches] in Hm. apply andb3 in Hm. destruct Hm as (Hk & Het & Hms).
    apply ty_eqb_eq in Het. subst vt. destruct (base_eqb_spec kb k') as [<-|]; [|discriminate]. cbn [erase] in Hwt.
    pose proof (wt_dict_inv _ _ _ _ Hwt) as Hel. rewrite unmarshal_t_S_dict.
    rewrite encodable_dict in He. apply andb4 in He. destruct He as (Hd & Hty & Hsz & Hes).
    apply N.ltb_lt in Hd. apply N.leb_le in Hsz. cbn [fds_below] in Hfd.
    rewrite spec_enc_dict' in *.
    set (p1 := padlen 4 off) in *. set (p2 := padlen 8 (off + p1 + 4)) in *.
    set (body := spec_enc_entries be (off + p1 + 4 + p2) kvs) in *.
    assert (Hp1 : padlen 4 (off + p1) = 0) by (apply padlen_at_aligned; lia).
    destruct (has_at_app4 _ _ _ _ _ _ H) as (H1 & H3 & H5 & H6). lens.
    pose proof (has_at_bound _ _ _ H6) as Hb.
    rewrite (u_align_ok 4 (mkc buf off nf ud) ltac:(lia) H1). unfold set_off; cbn [bind ubuf uoff unfds udepth]. fold p1.
    rewrite (u_read_u32_aligned be buf (off + p1) nf ud (len body) (MAX_ARRAY_u32 _ Hsz) Hp1 H3). cbn [bind fst snd].
    unfold check_array_len. destruct (N.ltb_spec MAX_ARRAY (len body)) as [|_]; [lia|]. cbn [bind].
    rewrite (u_align_ok 8 (mkc buf (off + p1 + 4) nf ud) ltac:(lia) H5).
    unfold set_off; cbn [bind ubuf uoff unfds udepth]. fold p2.
    rewrite (u_sub_ok (len body) (mkc buf (off + p1 + 4 + p2) nf ud)) by (cbn [ubuf uoff]; lia).
    unfold set_off; cbn [bind ubuf uoff unfds udepth fst snd].
    rewrite (t_entries be kvs kb x IH Hel Hms vf (firstnN (off + p1 + 4 + p2 + len body) buf) (off + p1 + 4 + p2) nf ud (d + 1)
               (S (N.to_nat (len body))) []).
    + cbn [bind fst snd rev app]. do 3 f_equal; rewrite ?len_app, ?len_zeros, ?len_enc4; lia.
    + now apply fuel_ok_deeper.
    + lia.
    + exact Hes.
    + exact Hfd.
    + apply has_at_clip; [exact H6|]. fold body. lia.
    + fold body. rewrite len_clip by lia. reflexivity.
    + rewrite len_clip by lia. lia.
  - (* variant: read the signature, enter, validate the content at the cursor's absolute offset, decode it in a sub-context
       that carries the raised depth, leave *)
    destruct e as [?|?|?|? ?|x]; try discriminate Hm. cbn [ety_matches] in Hm. apply andb_prop in Hm. destruct Hm as [Het Hmy].
    apply ty_eqb_eq in Het. subst vt. cbn [erase] in Hwt. pose proof (wt_variant_inv _ _ _ Hwt) as Hwy.
    rewrite unmarshal_t_S_var.
    cbn [encodable] in He. apply andb3 in He. destruct He as (Hd & Hty & Hey). apply N.ltb_lt in Hd.
    cbn [fds_below] in Hfd.
    rewrite spec_enc_variant in *. rewrite len_sig_bytes in *.
    set (pos := off + (len (to_str (erase x)) + 2)) in *.
    rewrite (spec_enc_align be y _ pos Hwy) in H |- *. set (p := padlen (align (erase x)) pos) in *.
    rewrite <- (encodable_align be y _ pos _ Hwy) in Hey. fold p in Hey.
    set (ey := spec_enc be (pos + p) y) in *.
    destruct (has_at_app3 _ _ _ _ _ H) as (H1 & H2 & H3). rewrite len_sig_bytes in H2, H3. rewrite len_zeros in H3.
    fold pos in H2, H3. pose proof (has_at_bound _ _ _ H3) as Hb.
    rewrite (u_read_sig_ok (mkc buf off nf ud) (to_str (erase x)) (utf8_valid_ascii _ (to_str_ascii _)) H1).
    unfold set_off; cbn [bind ubuf uoff unfds udepth fst snd]. fold pos.
    rewrite (parse_description_single _ Hty).
    rewrite (u_align_ok (align (erase x)) (mkc buf pos nf ud) (align_pos _) H2).
    unfold set_off; cbn [bind ubuf uoff unfds udepth]. fold p.
    rewrite (u_enter_ok (mkc buf (pos + p) nf ud)) by (cbn [udepth]; lia). cbn [bind ubuf uoff unfds udepth].
    rewrite (validate_complete_gen be y (erase x) (ud + 1) (pos + p) buf 66%nat Hwy
               (encodable_mono be y _ (d + 1) (ud + 1) ltac:(lia) Hey) H3 (fuel_ok_66 _)). cbn [bind]. fold ey.
    rewrite (u_sub_ok (len ey) (mkc buf (pos + p) nf (ud + 1))) by (cbn [ubuf uoff]; lia).
    unfold set_off; cbn [bind ubuf uoff unfds udepth fst snd].
    rewrite ty_eqb_refl.
    rewrite (IH x (firstnN (pos + p + len ey) buf) (pos + p) nf (ud + 1) (d + 1) vf Hwy Hmy Hey ltac:(lia) Hfd).
    + cbn [bind fst snd]. unfold u_leave; cbn [ubuf uoff unfds udepth]. fold ey.
      replace (ud + 1 - 1) with ud by lia. do 3 f_equal. rewrite !len_app, len_sig_bytes, len_zeros. subst pos. lia.
    + apply has_at_clip; [exact H3|]. fold ey. lia.
    + exact (fuel_ok_variant _ _ Hf Hd).
Qed.

Theorem unmarshal_t_complete be v e depth nf pre suf : wt v (erase e) = true -> ety_matches e v = true ->
  encodable be (len pre) depth v = true -> fds_below nf v = true ->
  unmarshal_t 66 be e {| ubuf := pre ++ spec_enc be (len pre) v ++ suf; uoff := len pre; unfds := nf; udepth := depth |}
  = Ok (v, {| ubuf := pre ++ spec_enc be (len pre) v ++ suf; uoff := len pre + len (spec_enc be (len pre) v);
              unfds := nf; udepth := depth |}).
Proof.
  intros Hwt Hm He Hfd.
  apply (unmarshal_t_complete_gen be v e _ _ nf depth depth 66%nat Hwt Hm He (N.le_refl _) Hfd (has_at_intro _ _ _) (fuel_ok_66 _)).
Qed.
