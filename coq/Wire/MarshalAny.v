(** C02 without the typing hypothesis: the dynamic (Param) marshaller itself enforces typing - arrays and
    dicts through validate_array / validate_dict, variants through the comparison of the declared signature
    with the value's own (fix 35497e7) - so its theorems hold for EVERY Param tree, and the public entry points
    (marshal_param, marshal_container_param; fix 5849d4e) additionally refuse empty structs and over-deep
    trees before anything is written.
    A Param tree is a [val]; what Rust's Base enum guarantees about the leaves by construction (a number of the
    right width in a fixed-width leaf, a 0/1 boolean, text in a text leaf) is [payloads_ok].
    Model: Wire/Marshal.v (marshal_p, shape_ok, marshal_param_top), Wire/Body.v (push_param, push_old_param). *)
From RB Require Import Base.Prelude Sig.Types Sig.Parser Sig.Validator Wire.Bytes Wire.Align Wire.Text
  Wire.Value Wire.SpecEnc Wire.Marshal Wire.Relabel Wire.MarshalProofs Wire.Limits Wire.LimitsProofs
  Wire.Decode Wire.Unmarshal Wire.DecodeLemmas Wire.DecodeComplete Wire.MarshalEncodable Wire.MarshalAccept
  Wire.HasSig Wire.Body.

(** ** what the Rust types guarantee about leaves *)
Fixpoint payloads_ok (v : val) : bool :=
  match v with
  | VBase b n => wt (VBase b n) (TBase b)          (* fixed-width kind, n < 256^size, booleans 0/1 *)
  | VText b _ => is_text b                         (* string / object path / signature kind *)
  | VArray _ vs | VStruct vs => forallb payloads_ok vs
  | VDict _ _ kvs => forallb (fun kv => payloads_ok (fst kv) && payloads_ok (snd kv)) kvs
  | VVariant _ x => payloads_ok x
  end.

Lemma typed_payloads_ok : forall v, typed v -> payloads_ok v = true.
Proof.
  induction v as [b k|b s|t vs IH|vs IH|kb vt kvs IH|t x IH] using val_ind'; intros [T Hw]; cbn [payloads_ok].
  - destruct (wt_base_ty _ _ _ Hw) as (-> & _). exact Hw.
  - now destruct (wt_text_ty _ _ _ Hw).
  - pose proof (wt_array_inv _ _ _ Hw) as Hel. apply forallb_forall. intros x Hin. rewrite Forall_forall in IH, Hel.
    apply IH; [exact Hin|]. exists t. auto.
  - pose proof (wt_struct_inv _ _ Hw) as Hel. apply forallb_forall. intros x Hin. rewrite Forall_forall in IH, Hel. auto.
  - pose proof (wt_dict_inv _ _ _ _ Hw) as Hel. apply forallb_forall. intros kv Hin. rewrite Forall_forall in IH, Hel.
    destruct (IH kv Hin) as [IHa IHb]. destruct (Hel kv Hin) as [Ha Hb].
    rewrite IHa by (now exists (TBase kb)). rewrite IHb by (now exists vt). reflexivity.
  - apply IH. exists t. exact (wt_variant_inv _ _ _ Hw).
Qed.

Lemma typed_ty_of v : typed v <-> wt v (ty_of v) = true.
Proof. split; [intros [t H]; now rewrite (wt_ty_of _ _ H)|intros H; now exists (ty_of v)]. Qed.

(** ** the marshaller enforces typing *)
Theorem marshal_p_typed be : forall v d c c', payloads_ok v = true -> marshal_p be d v c = (c', true) ->
  wt v (ty_of v) = true.
Proof.
  induction v as [b k|b s|t vs IH|vs IH|kb vt kvs IH|t x IH] using val_ind'; intros d c c' Hp H; cbn [payloads_ok ty_of] in *.
  - exact Hp.
  - cbn [wt]. unfold base_eqb. now rewrite N.eqb_refl, Hp.
  - rewrite marshal_p_array in H. cbv zeta in H. destruct (MAX_DEPTH <=? d); [discriminate|].
    destruct (forallb (fun x => ty_eqb (ty_of x) t) vs) eqn:Es; cbn [negb] in H; [|discriminate].
    destruct (marshal_seq _ vs _) as [c1 [|]] eqn:Em; cbn [mbind] in H; [|discriminate].
    apply marshal_seq_all in Em. cbn [wt]. rewrite ty_eqb_refl. cbn [andb]. apply forallb_forall. intros x Hin.
    rewrite forallb_forall in Es, Hp. rewrite Forall_forall in IH, Em. destruct (Em x Hin) as (c2 & c3 & Ex).
    rewrite <- (ty_eqb_eq _ _ (Es x Hin)). exact (IH x Hin _ _ _ (Hp x Hin) Ex).
  - rewrite marshal_p_struct in H. destruct (MAX_DEPTH <=? d); [discriminate|].
    apply marshal_seq_all in H. cbn [wt]. clear c c'.
    induction vs as [|x r IHr]; [reflexivity|]. cbn [map forallb] in *. apply andb_prop in Hp. destruct Hp as [Hpx Hpr].
    apply Forall_cons_iff in IH, H. destruct IH as [IHx IHrest], H as [(c2 & c3 & Ex) Hr].
    rewrite (IHx _ _ _ Hpx Ex). cbn [andb]. exact (IHr IHrest Hpr Hr).
  - rewrite marshal_p_dict in H. cbv zeta in H. destruct (MAX_DEPTH <=? d); [discriminate|].
    destruct (forallb (fun kv => ty_eqb (ty_of (fst kv)) (TBase kb) && ty_eqb (ty_of (snd kv)) vt) kvs) eqn:Es;
      cbn [negb] in H; [|discriminate].
    destruct (marshal_entries _ kvs _) as [c1 [|]] eqn:Em; cbn [mbind] in H; [|discriminate].
    apply marshal_entries_all in Em. cbn [wt]. unfold base_eqb at 1. rewrite N.eqb_refl, ty_eqb_refl. cbn [andb].
    apply forallb_forall. intros kv Hin. rewrite forallb_forall in Es, Hp. rewrite Forall_forall in IH, Em.
    destruct (Em kv Hin) as [(c2 & c3 & Ea) (c4 & c5 & Eb)]. destruct (IH kv Hin) as [IHa IHb].
    specialize (Es kv Hin). specialize (Hp kv Hin). apply andb_prop in Es, Hp. destruct Es as [Esa Esb], Hp as [Hpa Hpb].
    rewrite <- (ty_eqb_eq _ _ Esa), <- (ty_eqb_eq _ _ Esb). now rewrite (IHa _ _ _ Hpa Ea), (IHb _ _ _ Hpb Eb).
  - cbn [marshal_p] in H. cbv zeta in H. destruct (MAX_DEPTH <=? d); [discriminate|].
    destruct (ty_eqb (ty_of x) t) eqn:Et; cbn [negb] in H; [|discriminate].
    destruct (is_ok (validate_signature (to_str t))); [|discriminate].
    cbn [wt]. rewrite <- (ty_eqb_eq _ _ Et). exact (IH _ _ _ Hp H).
Qed.

Corollary marshal_p_typed' be v d c c' : payloads_ok v = true -> marshal_p be d v c = (c', true) -> typed v.
Proof. intros Hp H. exists (ty_of v). exact (marshal_p_typed be v d c c' Hp H). Qed.

(* the bytes, for every Param tree *)
Theorem marshal_p_bytes_any be v d c c' : payloads_ok v = true -> strings_small v = true ->
  marshal_p be d v c = (c', true) -> snd (relabel v (mfds c)) <= 2 ^ 32 ->
  mbuf c' = mbuf c ++ spec_enc be (len (mbuf c)) (fst (relabel v (mfds c)))
  /\ mfds c' = snd (relabel v (mfds c)).
Proof. intros Hp Hs H Hb. exact (marshal_p_spec be v (marshal_p_typed' be v d c c' Hp H) Hs d c c' H Hb). Qed.

(* exactly when, for every Param tree *)
Theorem marshal_p_exactly_any be depth v c : payloads_ok v = true ->
  (snd (marshal_p be depth v c) = true
   <-> typed v /\ leaves_ok v = true /\ variant_sigs_ok v = true /\ nest_ok depth v = true
       /\ arrays_within be (len (mbuf c)) v = true).
Proof.
  intros Hp. split.
  - intros H. destruct (marshal_p be depth v c) as [c' ok] eqn:E. cbn [snd] in H. subst ok.
    pose proof (marshal_p_typed' be v depth c c' Hp E) as Ht. split; [exact Ht|].
    apply (marshal_p_exactly be depth v c Ht). now rewrite E.
  - intros (Ht & H). now apply (marshal_p_exactly be depth v c Ht).
Qed.

(** ** the public entry point *)
(* no struct without fields among the containers the shape check walks (everything but dict keys, which are Base) *)
Fixpoint no_empty_struct (v : val) : bool :=
  match v with
  | VBase _ _ | VText _ _ => true
  | VArray _ vs => forallb no_empty_struct vs
  | VStruct vs => negb (match vs with [] => true | _ => false end) && forallb no_empty_struct vs
  | VDict _ _ kvs => forallb (fun kv => no_empty_struct (snd kv)) kvs
  | VVariant _ x => no_empty_struct x
  end.

Lemma shape_ok_no_empty : forall v d, shape_ok d v = true -> no_empty_struct v = true.
Proof.
  induction v as [b k|b s|t vs IH|vs IH|kb vt kvs IH|t x IH] using val_ind'; intros d H; cbn [shape_ok no_empty_struct] in *;
    try reflexivity; destruct (MAX_DEPTH <=? d); try discriminate.
  - apply forallb_forall. intros x Hin. rewrite forallb_forall in H. rewrite Forall_forall in IH. exact (IH x Hin _ (H x Hin)).
  - destruct vs as [|x0 r0]; [discriminate|]. cbn [negb andb]. apply forallb_forall. intros x Hin.
    rewrite forallb_forall in H. rewrite Forall_forall in IH. exact (IH x Hin _ (H x Hin)).
  - apply forallb_forall. intros kv Hin. rewrite forallb_forall in H. rewrite Forall_forall in IH.
    exact (proj2 (IH kv Hin) _ (H kv Hin)).
  - exact (IH _ H).
Qed.

(* for a well-typed tree (dict keys are base values) the shape check is the nesting limit plus no empty struct *)
Lemma shape_ok_split : forall v, typed v -> forall d, shape_ok d v = nest_ok d v && no_empty_struct v.
Proof.
  induction v as [b k|b s|t vs IH|vs IH|kb vt kvs IH|t x IH] using val_ind'; intros [T Hw] d;
    cbn [shape_ok nest_ok no_empty_struct]; try reflexivity.
  - pose proof (wt_array_inv _ _ _ Hw) as Hel.
    destruct (N.leb_spec MAX_DEPTH d); destruct (N.ltb_spec d MAX_DEPTH); try lia; cbn [andb]; try reflexivity.
    rewrite <- forallb_andb. apply forallb_ext_In. intros x Hin. rewrite Forall_forall in IH, Hel.
    apply IH; [exact Hin|]. exists t. auto.
  - pose proof (wt_struct_inv _ _ Hw) as Hel.
    destruct (N.leb_spec MAX_DEPTH d); destruct (N.ltb_spec d MAX_DEPTH); try lia; cbn [andb]; try reflexivity.
    assert (E : forallb (shape_ok (d + 1)) vs = forallb (nest_ok (d + 1)) vs && forallb no_empty_struct vs).
    { rewrite <- forallb_andb. apply forallb_ext_In. intros x Hin. rewrite Forall_forall in IH, Hel. auto. }
    destruct vs as [|x0 r0]; [cbn; reflexivity|]. rewrite E. cbn [negb andb].
    destruct (forallb (nest_ok (d + 1)) (x0 :: r0)); reflexivity.
  - pose proof (wt_dict_inv _ _ _ _ Hw) as Hel.
    destruct (N.leb_spec MAX_DEPTH d); destruct (N.ltb_spec d MAX_DEPTH); try lia; cbn [andb]; try reflexivity.
    rewrite <- forallb_andb. apply forallb_ext_In. intros kv Hin. rewrite Forall_forall in IH, Hel.
    destruct (IH kv Hin) as [_ IHb]. destruct (Hel kv Hin) as [Ha Hb].
    rewrite IHb by (now exists vt).
    assert (Ek : nest_ok (d + 1) (fst kv) = true).
    { destruct (wt_base_inv _ _ Ha) as [(k & -> & _)|(s & -> & _)]; reflexivity. }
    now rewrite Ek.
  - destruct (N.leb_spec MAX_DEPTH d); destruct (N.ltb_spec d MAX_DEPTH); try lia; cbn [andb]; try reflexivity.
    apply IH. exists t. exact (wt_variant_inv _ _ _ Hw).
Qed.

(* a failed entry check has written nothing *)
Theorem marshal_param_top_unchanged be v c : shape_ok 0 v = false -> marshal_param_top be v c = (c, false).
Proof. apply marshal_param_top_refused. Qed.

Theorem marshal_param_top_exactly be v c : payloads_ok v = true ->
  (snd (marshal_param_top be v c) = true
   <-> typed v /\ no_empty_struct v = true /\ leaves_ok v = true /\ variant_sigs_ok v = true
       /\ nest_ok 0 v = true /\ arrays_within be (len (mbuf c)) v = true).
Proof.
  intros Hp. unfold marshal_param_top. split.
  - destruct (shape_ok 0 v) eqn:Es; [|discriminate]. intros H.
    apply (marshal_p_exactly_any be 0 v c Hp) in H. destruct H as (Ht & H1 & H2 & H3 & H4).
    repeat split; try assumption. exact (shape_ok_no_empty _ _ Es).
  - intros (Ht & Hn & H1 & H2 & H3 & H4). rewrite (shape_ok_split v Ht 0), H3, Hn. cbn [andb].
    apply (marshal_p_exactly_any be 0 v c Hp). auto.
Qed.

(* what the entry point accepts is what the marshaller at depth 0 accepts, minus empty structs; the results agree *)
Theorem marshal_param_top_bytes_any be v c c' : payloads_ok v = true -> strings_small v = true ->
  marshal_param_top be v c = (c', true) -> snd (relabel v (mfds c)) <= 2 ^ 32 ->
  mbuf c' = mbuf c ++ spec_enc be (len (mbuf c)) (fst (relabel v (mfds c)))
  /\ mfds c' = snd (relabel v (mfds c)).
Proof. intros Hp Hs H Hb. apply marshal_param_top_ok in H. destruct H as [_ H]. now apply (marshal_p_bytes_any be v 0). Qed.

(* an empty struct anywhere the walk goes: refused, nothing written *)
Theorem param_empty_struct_refused be v c : no_empty_struct v = false -> marshal_param_top be v c = (c, false).
Proof.
  intros H. apply marshal_param_top_refused. destruct (shape_ok 0 v) eqn:E; [|reflexivity].
  rewrite (shape_ok_no_empty _ _ E) in H. discriminate.
Qed.

(* typing never excluded empty structs: [wt (VStruct []) (TStruct []) = true]; the specification does *)
Lemma typed_empty_struct : typed (VStruct []).
Proof. exists (TStruct []). reflexivity. Qed.

Lemma encodable_no_empty_struct be : forall v pos d, encodable be pos d v = true -> no_empty_struct v = true.
Proof.
  induction v as [b k|b s|t vs IH|vs IH|kb vt kvs IH|t x IH] using val_ind'; intros pos d H; cbn [no_empty_struct];
    try reflexivity.
  - rewrite encodable_array in H. apply andb4 in H. destruct H as (_ & _ & _ & H).
    revert H. generalize (pos + padlen 4 pos + 4 + padlen (align t) (pos + padlen 4 pos + 4)). intros p H.
    revert p H. induction vs as [|x r IHr]; intros p H; [reflexivity|]. cbn [encodable_list forallb] in *.
    apply andb_prop in H. destruct H as [Hx Hr]. apply Forall_cons_iff in IH. destruct IH as [IHx IHrest].
    rewrite (IHx _ _ Hx). cbn [andb]. exact (IHr IHrest _ Hr).
  - rewrite encodable_struct in H. apply andb3 in H. destruct H as (_ & Hne & H). rewrite Hne. cbn [andb].
    revert H. generalize (pos + padlen 8 pos). intros p H.
    clear Hne. revert p H. induction vs as [|x r IHr]; intros p H; [reflexivity|]. cbn [encodable_list forallb] in *.
    apply andb_prop in H. destruct H as [Hx Hr]. apply Forall_cons_iff in IH. destruct IH as [IHx IHrest].
    rewrite (IHx _ _ Hx). cbn [andb]. exact (IHr IHrest _ Hr).
  - rewrite encodable_dict in H. apply andb4 in H. destruct H as (_ & _ & _ & H).
    revert H. generalize (pos + padlen 4 pos + 4 + padlen 8 (pos + padlen 4 pos + 4)). intros p H.
    revert p H. induction kvs as [|[a b] r IHr]; intros p H; [reflexivity|]. cbn [encodable_entries forallb fst snd] in *.
    cbv zeta in H. apply andb3 in H. destruct H as (_ & Hb & Hr). apply Forall_cons_iff in IH. destruct IH as [[_ IHb] IHrest].
    cbn [snd] in IHb. rewrite (IHb _ _ Hb). cbn [andb]. exact (IHr IHrest _ Hr).
  - cbn [encodable] in H. apply andb3 in H. destruct H as (_ & _ & H). exact (IH _ _ H).
Qed.

Lemma types_ok_no_empty_struct : forall v, types_ok v = true -> no_empty_struct v = true.
Proof.
  induction v as [b k|b s|t vs IH|vs IH|kb vt kvs IH|t x IH] using val_ind'; cbn [types_ok no_empty_struct]; intros H;
    try reflexivity.
  - apply andb_prop in H. destruct H as [_ H]. apply forallb_forall. intros x Hin. rewrite forallb_forall in H.
    rewrite Forall_forall in IH. auto.
  - apply andb_prop in H. destruct H as [Hne H]. rewrite Hne. cbn [andb]. apply forallb_forall. intros x Hin.
    rewrite forallb_forall in H. rewrite Forall_forall in IH. auto.
  - apply andb_prop in H. destruct H as [_ H]. apply forallb_forall. intros kv Hin. rewrite forallb_forall in H.
    rewrite Forall_forall in IH. specialize (H kv Hin). apply andb_prop in H. destruct H as [_ Hb]. exact (proj2 (IH kv Hin) Hb).
  - apply andb_prop in H. destruct H as [_ Hx]. auto.
Qed.

(* so: whatever the entry point marshals is encodable in the specification's sense, with no side hypothesis on
   nesting or struct shape (compare marshal_p_encodable, which needs [good]) - only the Rust-side guarantees remain *)
Theorem marshal_param_top_no_empty be v c c' : marshal_param_top be v c = (c', true) -> no_empty_struct v = true.
Proof. intros H. apply marshal_param_top_ok in H. exact (shape_ok_no_empty _ _ (proj1 H)). Qed.

(** ** the signature that goes with the bytes *)
Theorem push_param_sig b t v b' : push_param b (t, v) = (b', true) -> bsig b' = bsig b ++ to_str t.
Proof.
  unfold push_param, helper, push_inner. cbn [fst snd].
  destruct (marshal_t (bbe b) v _) as [c [|]]; intros H; injection H as <-; reflexivity || discriminate.
Qed.
Theorem push_old_param_sig b v b' : push_old_param b v = (b', true) -> bsig b' = bsig b ++ to_str (ty_of v).
Proof.
  unfold push_old_param, helper, push_old_inner.
  destruct (marshal_param_top (bbe b) v _) as [c [|]]; intros H; injection H as <-; reflexivity || discriminate.
Qed.
(* the appended signature is the type of the value whose bytes were appended *)
Theorem push_sig_is_type : forall b b',
  (forall t v, wt v t = true -> push_param b (t, v) = (b', true) ->
     bsig b' = bsig b ++ to_str (ty_of v) /\ wt v (ty_of v) = true)
  /\ (forall v, payloads_ok v = true -> push_old_param b v = (b', true) ->
     bsig b' = bsig b ++ to_str (ty_of v) /\ wt v (ty_of v) = true).
Proof.
  intros b b'. split.
  - intros t v Hw H. rewrite (wt_ty_of _ _ Hw). split; [exact (push_param_sig _ _ _ _ H)|exact Hw].
  - intros v Hp H. split; [exact (push_old_param_sig _ _ _ H)|].
    unfold push_old_param, helper, push_old_inner in H.
    destruct (marshal_param_top (bbe b) v _) as [c [|]] eqn:E; [|discriminate].
    apply marshal_param_top_ok in E. exact (marshal_p_typed _ _ _ _ _ Hp (proj2 E)).
Qed.
