(** Model of the code `#[derive(Marshal, Unmarshal, Signature)]` generates for a STRUCT
    (rustbus_derive/src/structs.rs: struct_field_marshal, struct_field_unmarshal, struct_field_sigs,
    struct_field_has_sigs, make_struct_signature_impl), next to the tuple impls it is compared with
    (rustbus/src/wire/marshal/traits/container.rs, wire/unmarshal/traits/container.rs).

    The typed decoder [unmarshal_t] (Wire/Unmarshal.v) is indexed by [ety], which has one struct
    constructor (tuples). Here the type algebra gets a second one, [RDerived], so that derived structs
    can sit anywhere inside other Rust types (Vec<Derived>, a derived struct with a derived field, a
    Variant of a derived struct ...). [unmarshal_r] repeats [unmarshal_t] clause by clause and adds the
    generated clause; [has_sig_r] repeats [has_sig] (Wire/HasSig.v) and adds the generated has_sig. *)
From RB Require Import Base.Prelude Sig.Types Sig.Parser Sig.Validator Sig.Iter Wire.Bytes Wire.Align Wire.Text Wire.Value
  Wire.SpecEnc Wire.Marshal Wire.Decode Wire.Unmarshal Wire.HasSig.

Inductive rty :=
| RBase (b : base)
| RArray (x : rty)                 (* Vec<E> *)
| RTuple (rs : list rty)           (* (E1, .., En) *)
| RDict (k : base) (v : rty)       (* HashMap<K, V> *)
| RVar (x : rty)                   (* marshal::traits::Variant<T> / unmarshal::traits::Variant + get::<T>() *)
| RDerived (rs : list rty).        (* #[derive(Marshal, Unmarshal, Signature)] struct S { f1: E1, .., fn: En } *)

Section rty_ind'.
  Variable P : rty -> Prop.
  Hypothesis Hb : forall b, P (RBase b).
  Hypothesis Ha : forall x, P x -> P (RArray x).
  Hypothesis Ht : forall rs, Forall P rs -> P (RTuple rs).
  Hypothesis Hd : forall k v, P v -> P (RDict k v).
  Hypothesis Hv : forall x, P x -> P (RVar x).
  Hypothesis Hs : forall rs, Forall P rs -> P (RDerived rs).
  Fixpoint rty_ind' (r : rty) : P r :=
    match r with
    | RBase b => Hb b
    | RArray x => Ha x (rty_ind' x)
    | RTuple rs => Ht rs ((fix go (l : list rty) : Forall P l :=
                             match l with [] => Forall_nil P | x :: xs => Forall_cons x (rty_ind' x) (go xs) end) rs)
    | RDict k v => Hd k v (rty_ind' v)
    | RVar x => Hv x (rty_ind' x)
    | RDerived rs => Hs rs ((fix go (l : list rty) : Forall P l :=
                               match l with [] => Forall_nil P | x :: xs => Forall_cons x (rty_ind' x) (go xs) end) rs)
    end.
End rty_ind'.

(* the tuple type with the same fields, everywhere *)
Fixpoint tup (r : rty) : ety :=
  match r with
  | RBase b => EBase b
  | RArray x => EArray (tup x)
  | RTuple rs => EStruct (map tup rs)
  | RDict k v => EDict k (tup v)
  | RVar x => EVar (tup x)
  | RDerived rs => EStruct (map tup rs)
  end.

(** ** Signature *)
(* Signature::signature(); for a derived struct: struct_field_sigs
   (sigs.push(<F as Signature>::signature()) per field, Container::Struct(StructTypes::new(sigs))) *)
Fixpoint sig_r (r : rty) : ty :=
  match r with
  | RBase b => TBase b
  | RArray x => TArray (sig_r x)
  | RTuple rs => TStruct (map sig_r rs)
  | RDict k v => TDict k (sig_r v)
  | RVar _ => TVariant
  | RDerived rs => TStruct (map sig_r rs)
  end.

(* Signature::alignment(); make_struct_signature_impl: fn alignment() -> usize { 8 } *)
Definition ralign (r : rty) : N :=
  match r with
  | RBase b => base_align b
  | RArray _ => 4
  | RTuple _ => 8
  | RDict _ _ => 4
  | RVar _ => 1
  | RDerived _ => 8
  end.

(* Signature::sig_str: the derive does not override it, so it is the default (signature().to_str()) *)
Definition sig_str_r (r : rty) : list N := to_str (sig_r r).

(** ** Marshal
    marshal_t (Wire/Marshal.v) is directed by the value, and a value of a derived struct is a
    [VStruct] of its field values. The generated code is given the marshal calls of the fields:
      ctx.align_to(8); #( self.#field.marshal(ctx)?; )* Ok(())                       (struct_field_marshal) *)
Definition derive_struct_marshal (fields : list (mctx -> mres)) (c : mctx) : mres :=
  (fix go (l : list (mctx -> mres)) (c : mctx) : mres :=
     match l with
     | [] => (c, true)
     | f :: r => mbind (f c) (go r)
     end) fields {| mbuf := pad_to 8 (mbuf c); mfds := mfds c |}.

(** ** Unmarshal *)
(* struct_field_unmarshal: ctx.align_to(8)?; Self { #( f: <F as Unmarshal>::unmarshal(ctx)?, )* }
   - the fields one after the other, NO align_to between them *)
Definition dfields {T} (u : T -> uctx -> outcome (val * uctx)) : list T -> uctx -> list val -> outcome (list val * uctx) :=
  fix go (l : list T) (c : uctx) (acc : list val) : outcome (list val * uctx) :=
    match l with
    | [] => Ok (rev acc, c)
    | f :: r => do x <- u f c; go r (snd x) (fst x :: acc)
    end.
(* the tuple impls: ctx.align_to(8)?; E1::unmarshal; ctx.align_to(E2::alignment())?; E2::unmarshal; ... *)
Definition tfields {T} (al : T -> N) (u : T -> uctx -> outcome (val * uctx))
  : list T -> bool -> uctx -> list val -> outcome (list val * uctx) :=
  fix go (l : list T) (first : bool) (c : uctx) (acc : list val) : outcome (list val * uctx) :=
    match l with
    | [] => Ok (rev acc, c)
    | f :: r =>
        do c <- (if first then Ok c else u_align (al f) c);
        do x <- u f c; go r false (snd x) (fst x :: acc)
    end.

Fixpoint unmarshal_r (vf : nat) (be : bool) (r : rty) (c : uctx) {struct vf} : outcome (val * uctx) :=
  match vf with
  | O => OutOfFuel
  | S vf' =>
      (fix ur (r : rty) (c : uctx) {struct r} : outcome (val * uctx) :=
         match r with
         | RBase b => u_base be b c
         | RArray x =>
             (* impl Unmarshal for Vec<E> *)
             if valid_slice be (sig_r x) then
               do r <- u_read_fixed be 4 c;
               do n <- check_array_len (fst r);
               do c1 <- u_align (ralign x) (snd r);
               if negb (n mod ralign x =? 0) then Err else
               if remainder_len c1 <? n then Err else
               match sig_r x with
               | TBase b => Ok (VArray (sig_r x) (chunks b (base_size b) (S (N.to_nat n)) (slice (ubuf c1) (uoff c1) n)),
                                set_off c1 (uoff c1 + n))
               | _ => Err
               end
             else
               do c0 <- u_align 4 c;
               do r <- u_read_fixed be 4 c0;
               do n <- check_array_len (fst r);
               do c1 <- u_align (ralign x) (snd r);
               do s <- u_sub n c1;
               do vs <- sub_loop (fun c => do c <- u_align (ralign x) c; ur x c) (S (N.to_nat n)) (fst s) [];
               Ok (VArray (sig_r x) vs, snd s)
         | RDict k v =>
             (* impl Unmarshal for HashMap<K, V> *)
             do c0 <- u_align 4 c;
             do r <- u_read_fixed be 4 c0;
             do n <- check_array_len (fst r);
             do c1 <- u_align 8 (snd r);
             do s <- u_sub n c1;
             do kvs <- sub_loop (fun c => do c <- u_align 8 c;
                                          do kr <- u_base be k c;
                                          do c2 <- u_align (ralign v) (snd kr);
                                          do vr <- ur v c2;
                                          Ok ((fst kr, fst vr), snd vr))
                                (S (N.to_nat n)) (fst s) [];
             Ok (VDict k (sig_r v) kvs, snd s)
         | RTuple rs =>
             do c <- u_align 8 c;
             do r <- tfields ralign ur rs true c [];
             Ok (VStruct (fst r), snd r)
         | RDerived rs =>
             (* struct_field_unmarshal *)
             do c <- u_align 8 c;
             do r <- dfields ur rs c [];
             Ok (VStruct (fst r), snd r)
         | RVar x =>
             (* Variant::unmarshal, then Variant::get::<T>() *)
             do r <- u_read_sig c;
             match parse_description (fst r) with
             | Ok [t'] =>
                 do c1 <- u_align (align t') (snd r);
                 (* sub_context_for_value: the sub-context is split off while the depth is raised (depth + 1);
                    leave_container on the outer context *)
                 do c2 <- u_enter c1;
                 do n <- validate 66 be (udepth c2) (uoff c2) (ubuf c2) t';
                 do s <- u_sub n c2;
                 if ty_eqb t' (sig_r x) then
                   do v <- unmarshal_r vf' be x (fst s);
                   Ok (VVariant t' (fst v), u_leave (snd s))
                 else Err
             | _ => Err
             end
         end) r c
  end.

(** ** has_sig *)
(* the `&&` chain of the tuple impls, evaluated left to right with short circuit *)
Definition all_has_sig {T} (h : T -> list N -> outcome bool) : list T -> list (list N) -> outcome bool :=
  fix all (l : list T) (ps : list (list N)) : outcome bool :=
    match l, ps with
    | f :: l', fs :: ps' => do b <- h f fs; if b then all l' ps' else Ok false
    | _, _ => Ok true
    end.

(* struct_field_has_sigs, the part after the two strips:
     #( let Some(field_sig) = iter.next() else { return false };
        if !<F as Signature>::has_sig(field_sig) { return false } )*
     iter.next().is_none() *)
Definition derived_fields_has_sig {T} (h : T -> list N -> outcome bool) : list T -> list N -> outcome bool :=
  fix go (l : list T) (s : list N) : outcome bool :=
    match l with
    | [] => do more <- sig_next s; Ok (match more with None => true | Some _ => false end)
    | f :: l' =>
        do r <- sig_next s;
        match r with
        | None => Ok false
        | Some (field_sig, rest) => do b <- h f field_sig; if b then go l' rest else Ok false
        end
    end.

(* sig.strip_prefix('(') then .strip_suffix(')'): the text between the brackets *)
Definition strip_parens (s : list N) : option (list N) :=
  match s with
  | c :: rest =>
      if c =? c_lpar then
        match rest with
        | [] => None
        | _ => if last rest 0 =? c_rpar then Some (removelast rest) else None
        end
      else None
  | [] => None
  end.

Fixpoint has_sig_r (r : rty) (s : list N) {struct r} : outcome bool :=
  match r with
  | RBase b => Ok (starts_with (base_char b) s)
  | RVar _ => Ok (starts_with c_v s)
  | RArray x =>
      match s with
      | c :: rest =>
          if c =? c_a then
            do r <- sig_next rest;
            match r with
            | Some (first, _) => has_sig_r x first
            | None => Panic
            end
          else Ok false
      | [] => Ok false
      end
  | RDict k v =>
      match s with
      | c1 :: c2 :: rest =>
          if (c1 =? c_a) && (c2 =? c_lbrace) then
            match rest with
            | [] => Panic
            | _ =>
                let inner := removelast rest in
                do r1 <- sig_next inner;
                match r1 with
                | None => Panic
                | Some (ks, rest1) =>
                    if starts_with (base_char k) ks then
                      do r2 <- sig_next rest1;
                      match r2 with
                      | None => Panic
                      | Some (vs, _) => has_sig_r v vs
                      end
                    else Ok false
                end
            end
          else Ok false
      | _ => Ok false
      end
  | RTuple rs =>
      match strip_parens s with
      | None => Ok false
      | Some inner =>
          do r <- take_sigs (length rs) inner [];
          match r with
          | None => Ok false
          | Some (pieces, leftover) =>
              do more <- sig_next leftover;
              match more with
              | Some _ => Ok false
              | None => all_has_sig has_sig_r rs pieces
              end
          end
      end
  | RDerived rs =>
      (* struct_field_has_sigs *)
      match strip_parens s with
      | None => Ok false
      | Some inner => derived_fields_has_sig has_sig_r rs inner
      end
  end.

(** ** MessageBodyParser::get::<T>() for a type of this algebra (message_builder.rs), on the body
    signature [bsig] from index [sig_idx] and the body bytes from [buf_idx]:
    result = (new sig_idx, new buf_idx, value) or the reason nothing was read *)
Inductive getres := GotVal (sig_idx buf_idx : N) (v : val) | GotWrongSig | GotEnd | GotErr.

Definition get_r (be : bool) (bsig buf : list N) (nfds sig_idx buf_idx : N) (r : rty) : outcome getres :=
  (* SignatureIter::new_at_idx(sig, sig_idx).next() *)
  do ns <- (if len bsig <=? sig_idx then Ok None else iter_next (skipnN sig_idx bsig));
  match ns with
  | None => Ok GotEnd
  | Some (s, _) =>
      do hs <- has_sig_r r s;
      if negb hs then Ok GotWrongSig
      else
        match unmarshal_r 66 be r {| ubuf := buf; uoff := buf_idx; unfds := nfds; udepth := 0 |} with
        | Ok (v, c) => Ok (GotVal (sig_idx + len s) (uoff c) v)
        | Err => Ok GotErr
        | Panic => Panic | UB => UB | OutOfFuel => OutOfFuel
        end
  end.
