(** Discharging the completeness premise of Wire/EnumsProofs.v (Section Hit) and Wire/C16Cross.v
    (Section TypedDecoder) with the typed-decoder completeness theorem of Wire/DecodeComplete.v. *)
From RB Require Import Base.Prelude Sig.Types Sig.Validator Wire.Bytes Wire.Align Wire.Text Wire.Value Wire.SpecEnc
  Wire.Marshal Wire.Relabel Wire.MarshalProofs Wire.Decode Wire.Unmarshal Wire.DecodeLemmas Wire.DecodeComplete
  Wire.HasSig Wire.Derive Wire.DeriveProofs Wire.Enums Wire.EnumsProofs Wire.C16Cross.

(* the value has the Rust type's D-Bus type, and every variant inside holds the type the Rust type expects there *)
Definition typed_matches (e : ety) (v : val) : Prop := wt v (erase e) = true /\ ety_matches e v = true.
Definition rty_matches (r : rty) (v : val) : Prop := typed_matches (tup r) v.

Lemma typed_complete : forall be e v buf off nf d vf,
  typed_matches e v -> encodable be off d v = true -> fds_below nf v = true ->
  has_at buf off (spec_enc be off v) -> fuel_ok vf d ->
  unmarshal_t vf be e (Build_uctx buf off nf d) = Ok (v, Build_uctx buf (off + len (spec_enc be off v)) nf d).
Proof.
  intros be e v buf off nf d vf [Hwt Hm] He Hfd Hb Hf.
  exact (unmarshal_t_complete_gen be v e buf off nf d d vf Hwt Hm He (N.le_refl _) Hfd Hb Hf).
Qed.

Definition derive_enum_hit' := derive_enum_hit typed_matches typed_complete.
Definition sig_macro_hit' := sig_macro_hit typed_matches typed_complete.
Definition var_macro_hit' := var_macro_hit typed_matches typed_complete.
Definition var_macro_catch_get' := var_macro_catch_get typed_matches typed_complete.
Definition param_then_typed' := param_then_typed typed_matches typed_complete.
Definition typed_then_typed' := typed_then_typed typed_matches typed_complete.

(** ** the bridge between the marshalling and the decoding theorems for enums: whatever marshalled a variant
    (typed Variant, any enum generator - they all are marshal_t of a VVariant by Wire/EnumsProofs.v - or the Param
    API), the parser's context stands at a valid variant afterwards, and "after the variant" is the end of what was
    appended *)
Lemma wire_val_variant t v c : wire_val (VVariant t v) c = VVariant t (wire_val v c).
Proof. unfold wire_val. cbn [relabel]. destruct (relabel v (mfds c)). reflexivity. Qed.

Theorem marshalled_variant_at be t v c c' suf nf :
  typed (VVariant t v) -> strings_small (VVariant t v) = true -> snd (relabel (VVariant t v) (mfds c)) <= 2 ^ 32 ->
  (marshal_t be (VVariant t v) c = (c', true) \/ exists d, marshal_p be d (VVariant t v) c = (c', true)) ->
  wt (wire_val v c) t = true -> encodable be (len (mbuf c)) 0 (VVariant t (wire_val v c)) = true ->
  fds_below nf (wire_val v c) = true ->
  at_variant be (ctx_at (mbuf c' ++ suf) (len (mbuf c)) nf) t (wire_val v c)
  /\ after_variant be (ctx_at (mbuf c' ++ suf) (len (mbuf c)) nf) t (wire_val v c) = ctx_at (mbuf c' ++ suf) (len (mbuf c')) nf.
Proof.
  intros Ht Hs Hb Hm Hwt He Hf.
  assert (Ebuf : mbuf c' = mbuf c ++ spec_enc be (len (mbuf c)) (VVariant t (wire_val v c))).
  { rewrite <- wire_val_variant. unfold wire_val. destruct Hm as [Hm|[d Hm]].
    - exact (proj1 (marshal_t_spec be _ Ht Hs c c' Hm Hb)).
    - exact (proj1 (marshal_p_spec be _ Ht Hs d c c' Hm Hb)). }
  split.
  - constructor; cbn [ctx_at ubuf uoff unfds udepth]; try assumption. rewrite Ebuf. apply marshalled_has_at.
  - unfold after_variant, ctx_at, set_off. cbn [ubuf uoff unfds udepth]. rewrite Ebuf at 3. now rewrite len_app.
Qed.
