(** C15, the rollback MECHANISM. Wire/Body.v models push_mult_helper by value: on failure it returns the body it was
    given. The Rust code (message_builder.rs, push_mult_helper) works on the body in place: it records the lengths of
    signature, buffer and descriptor list, lets the pushes run on the real body - a failing marshal leaves whatever it
    had already appended - and on error truncates each of the three to its recorded length. That restores the old body
    only if nothing below the recorded lengths was touched. Here:
    (i)  every marshaller only appends, whether it succeeds or fails: the buffer it leaves starts with the buffer it
         was given (length back-patching with insert_u32 happens inside the appended part) and the number of
         descriptors does not go down;
    (ii) hence truncating restores exactly the old body: the mechanistic helper equals the value-returning [helper] for
         every push operation, so every theorem about Wire/Body.v (C15) holds for the mechanism.
    Model: Wire/Marshal.v, Wire/Body.v. *)
From RB Require Import Base.Prelude Sig.Types Sig.Parser Sig.Validator Sig.Iter Wire.Bytes Wire.Align Wire.Text Wire.Value
  Wire.SpecEnc Wire.Marshal Wire.Relabel Wire.Decode Wire.Unmarshal Wire.HasSig Wire.Body Wire.DecodeLemmas.

(** ** (i) marshallers only append *)
Definition extends (c c' : mctx) : Prop := (exists ext, mbuf c' = mbuf c ++ ext) /\ mfds c <= mfds c'.

Lemma extends_refl c : extends c c.
Proof. split; [exists []; now rewrite app_nil_r|lia]. Qed.
Lemma extends_trans a b c : extends a b -> extends b c -> extends a c.
Proof. intros [[e1 E1] F1] [[e2 E2] F2]. split; [exists (e1 ++ e2); now rewrite E2, E1, app_assoc|lia]. Qed.
Lemma extends_buf c buf ext n : buf = mbuf c ++ ext -> mfds c <= n -> extends c {| mbuf := buf; mfds := n |}.
Proof. intros -> H. split; [now exists ext|exact H]. Qed.
Lemma extends_pad a c : extends c {| mbuf := pad_to a (mbuf c); mfds := mfds c |}.
Proof. apply (extends_buf c _ (zeros (pad_amount a (len (mbuf c))))); [reflexivity|cbn; lia]. Qed.

(* insert_u32 at a position inside the appended part keeps the old prefix *)
Lemma insert4_extends be n p c c1 : extends c c1 -> len (mbuf c) <= p ->
  extends c {| mbuf := insert4 be n p (mbuf c1); mfds := mfds c1 |}.
Proof.
  intros [[e E] F] Hp. split; [|exact F]. cbn [mbuf]. unfold insert4. rewrite E.
  rewrite firstnN_app_ge by exact Hp. rewrite <- app_assoc. eexists. reflexivity.
Qed.

Definition appends (m : val -> mctx -> mres) (v : val) : Prop := forall c, extends c (fst (m v c)).

Lemma mbind_extends c r f : extends c (fst r) -> (forall c1, extends c c1 -> extends c (fst (f c1))) ->
  extends c (fst (mbind r f)).
Proof. destruct r as [c1 [|]]; cbn [mbind fst]; intros H1 H2; [now apply H2|exact H1]. Qed.

Lemma seq_appends m vs : Forall (appends m) vs -> forall c, extends c (fst (marshal_seq m vs c)).
Proof.
  induction 1 as [|x r Hx _ IH]; intros c; [apply extends_refl|]. rewrite marshal_seq_cons.
  apply mbind_extends; [apply Hx|]. intros c1 H1. exact (extends_trans _ _ _ H1 (IH c1)).
Qed.
Lemma entries_appends m kvs : Forall (fun kv => appends m (fst kv) /\ appends m (snd kv)) kvs ->
  forall c, extends c (fst (marshal_entries m kvs c)).
Proof.
  induction 1 as [|[a b] r [Ha Hb] _ IH]; intros c; [apply extends_refl|]. cbn [fst snd] in *. rewrite marshal_entries_cons.
  pose proof (extends_pad 8 c) as H0.
  apply mbind_extends; [exact (extends_trans _ _ _ H0 (Ha _))|]. intros c1 H1.
  apply mbind_extends; [exact (extends_trans _ _ _ H1 (Hb _))|]. intros c2 H2. exact (extends_trans _ _ _ H2 (IH c2)).
Qed.

Lemma marshal_base_appends be b k c : extends c (fst (marshal_base be b k c)).
Proof.
  unfold marshal_base. destruct b; cbn [fst];
    try (eapply extends_buf; [unfold pad_to; rewrite <- app_assoc; reflexivity|cbn; lia]).
  - eapply extends_buf; [reflexivity|cbn; lia].
  - destruct (k =? 0); cbn [fst]; [|apply extends_refl].
    eapply extends_buf; [unfold pad_to; rewrite <- app_assoc; reflexivity|cbn; lia].
Qed.

(* the common tail of the array / dict clauses: length check, then back-patching at [size_pos] *)
Lemma patch_extends be c size_pos size_before r :
  extends c (fst r) -> len (mbuf c) <= size_pos ->
  extends c (fst (mbind r (fun c' => let n := len (mbuf c') - size_before in
                                     if MAX_ARRAY <? n then (c', false)
                                     else ({| mbuf := insert4 be n size_pos (mbuf c'); mfds := mfds c' |}, true)))).
Proof.
  intros H Hp. apply mbind_extends; [exact H|]. intros c1 H1. cbv zeta.
  destruct (MAX_ARRAY <? len (mbuf c1) - size_before); cbn [fst]; [exact H1|]. now apply insert4_extends.
Qed.

Lemma len_pad_to_ge a buf : len buf <= len (pad_to a buf).
Proof. unfold pad_to. rewrite len_app. lia. Qed.

Theorem marshal_t_appends be : forall v, appends (marshal_t be) v.
Proof.
  induction v as [b k|b s|t vs IH|vs IH|kb vt kvs IH|t x IH] using val_ind'; intros c.
  - cbn [marshal_t]. apply marshal_base_appends.
  - cbn [marshal_t]. destruct b;
      try (destruct (_ && _); cbn [fst]; [|apply extends_refl];
           eapply extends_buf; [unfold write_string, pad_to; rewrite <- !app_assoc; reflexivity|cbn; lia]).
    destruct (is_ok (validate_signature s)); cbn [fst]; [|apply extends_refl].
    eapply extends_buf; [unfold write_signature; reflexivity|cbn; lia].
  - rewrite marshal_t_array. cbv zeta.
    pose proof (extends_pad 4 c) as H1. set (c1 := {| mbuf := pad_to 4 (mbuf c); mfds := mfds c |}) in *.
    destruct (valid_slice be t).
    + destruct (MAX_ARRAY <? align t * len vs); cbn [fst]; [exact H1|].
      eapply extends_buf; [unfold pad_to; rewrite <- !app_assoc; reflexivity|cbn; lia].
    + assert (H3 : extends c {| mbuf := pad_to (align t) (pad_to 4 (mbuf c) ++ [0; 0; 0; 0]); mfds := mfds c |}).
      { eapply extends_buf; [unfold pad_to; rewrite <- !app_assoc; reflexivity|cbn; lia]. }
      destruct vs as [|x0 vs0]; [exact H3|].
      apply patch_extends; [exact (extends_trans _ _ _ H3 (seq_appends _ _ IH _))|apply len_pad_to_ge].
  - rewrite marshal_t_struct. exact (extends_trans _ _ _ (extends_pad 8 c) (seq_appends _ _ IH _)).
  - rewrite marshal_t_dict. cbv zeta.
    assert (H3 : extends c {| mbuf := pad_to 8 (pad_to 4 (mbuf c) ++ [0; 0; 0; 0]); mfds := mfds c |}).
    { eapply extends_buf; [unfold pad_to; rewrite <- !app_assoc; reflexivity|cbn; lia]. }
    destruct kvs as [|kv0 kvs0]; [exact H3|].
    apply patch_extends; [exact (extends_trans _ _ _ H3 (entries_appends _ _ IH _))|apply len_pad_to_ge].
  - cbn [marshal_t]. cbv zeta. destruct (255 <? len (to_str t)); [apply extends_refl|].
    destruct (is_ok (validate_signature (to_str t))); [|apply extends_refl].
    refine (extends_trans _ _ _ _ (IH _)). eapply extends_buf; [unfold write_signature; reflexivity|cbn; lia].
Qed.

Theorem marshal_p_appends be : forall v d, appends (marshal_p be d) v.
Proof.
  induction v as [b k|b s|t vs IH|vs IH|kb vt kvs IH|t x IH] using val_ind'; intros d c.
  - cbn [marshal_p]. exact (extends_trans _ _ _ (extends_pad _ c) (marshal_base_appends be b k _)).
  - cbn [marshal_p].
    assert (H0 := extends_pad (base_align b) c).
    destruct b;
      try (destruct (has_nul s); cbn [fst]; [exact H0|];
           eapply extends_buf; [unfold write_string, pad_to; cbn [mbuf]; rewrite <- !app_assoc; reflexivity|cbn; lia]).
    + destruct (is_ok (validate_signature s)); cbn [fst]; [|exact H0].
      eapply extends_buf; [unfold write_signature, pad_to; cbn [mbuf]; rewrite <- !app_assoc; reflexivity|cbn; lia].
    + destruct (valid_path s); cbn [fst]; [|exact H0].
      eapply extends_buf; [unfold write_string, pad_to; cbn [mbuf]; rewrite <- !app_assoc; reflexivity|cbn; lia].
  - rewrite marshal_p_array. cbv zeta. destruct (MAX_DEPTH <=? d); [apply extends_refl|].
    destruct (negb _); [apply extends_refl|].
    assert (H3 : extends c {| mbuf := pad_to (align t) (pad_to 4 (mbuf c) ++ [0; 0; 0; 0]); mfds := mfds c |}).
    { eapply extends_buf; [unfold pad_to; rewrite <- !app_assoc; reflexivity|cbn; lia]. }
    apply patch_extends; [|apply len_pad_to_ge]. refine (extends_trans _ _ _ H3 (seq_appends _ _ _ _)).
    eapply Forall_impl; [|exact IH]. intros x Hx. exact (Hx (d + 1)).
  - rewrite marshal_p_struct. destruct (MAX_DEPTH <=? d); [apply extends_refl|].
    refine (extends_trans _ _ _ (extends_pad 8 c) (seq_appends _ _ _ _)).
    eapply Forall_impl; [|exact IH]. intros x Hx. exact (Hx (d + 1)).
  - rewrite marshal_p_dict. cbv zeta. destruct (MAX_DEPTH <=? d); [apply extends_refl|].
    destruct (negb _); [apply extends_refl|].
    assert (H3 : extends c {| mbuf := pad_to 8 (pad_to 4 (mbuf c) ++ [0; 0; 0; 0]); mfds := mfds c |}).
    { eapply extends_buf; [unfold pad_to; rewrite <- !app_assoc; reflexivity|cbn; lia]. }
    apply patch_extends; [|apply len_pad_to_ge]. refine (extends_trans _ _ _ H3 (entries_appends _ _ _ _)).
    eapply Forall_impl; [|exact IH]. intros kv [Ha Hb]. split; [exact (Ha (d + 1))|exact (Hb (d + 1))].
  - cbn [marshal_p]. cbv zeta. destruct (MAX_DEPTH <=? d); [apply extends_refl|].
    destruct (negb _); [apply extends_refl|].
    destruct (is_ok (validate_signature (to_str t))); [|apply extends_refl].
    refine (extends_trans _ _ _ _ (IH _ _)). eapply extends_buf; [unfold write_signature; reflexivity|cbn; lia].
Qed.

Theorem marshal_param_top_appends be v : appends (marshal_param_top be) v.
Proof. intros c. unfold marshal_param_top. destruct (shape_ok 0 v); [apply marshal_p_appends|apply extends_refl]. Qed.

(** ** (ii) push_mult_helper as the Rust code does it *)
(* String::truncate / Vec::truncate: no effect when the length is already smaller *)
Definition truncate_body (b' : body) (sig_len buf_len fds_len : N) : body :=
  {| bbe := bbe b'; bsig := firstnN sig_len (bsig b'); bbuf := firstnN buf_len (bbuf b'); bfds := N.min fds_len (bfds b') |}.

(* let sig_len = self.sig.len(); let buf_len = self.buf.len(); let fds_len = self.raw_fds.len();
   match push_calls(self) { Ok => Ok, Err(e) => { truncate the three; Err(e) } } *)
Definition helper_mech (b : body) (f : body -> body * bool) : body * bool :=
  let sig_len := len (bsig b) in
  let buf_len := len (bbuf b) in
  let fds_len := bfds b in
  let '(b', ok) := f b in
  if ok then (b', true) else (truncate_body b' sig_len buf_len fds_len, false).

(* the pushes, each closure running on the body in place *)
Definition push_param_mech (b : body) (i : item) : body * bool := helper_mech b (fun b => push_inner b i).
Definition push_variant_mech (b : body) (i : item) : body * bool :=
  helper_mech b (fun b =>
    let '(c, ok) := marshal_t (bbe b) (VVariant (fst i) (snd i)) {| mbuf := bbuf b; mfds := bfds b |} in
    ({| bbe := bbe b; bsig := bsig b ++ [c_v]; bbuf := mbuf c; bfds := mfds c |}, ok)).
Definition push_old_param_mech (b : body) (v : val) : body * bool := helper_mech b (fun b => push_old_inner b v).
Fixpoint push_olds_mech (b : body) (l : list val) : body * bool :=
  match l with
  | [] => (b, true)
  | v :: r => let '(b', ok) := push_old_param_mech b v in if ok then push_olds_mech b' r else (b', false)
  end.
Definition step_body_mech (b : body) (o : bop) : body * bool :=
  match o with
  | Push i => push_param_mech b i
  | PushN l | PushParams l => helper_mech b (fun b => push_all push_param_mech b l)
  | PushVariant i => push_variant_mech b i
  | PushOld v => push_old_param_mech b v
  | PushOlds l => helper_mech b (fun b => push_olds_mech b l)
  | Reset => ({| bbe := bbe b; bsig := []; bbuf := []; bfds := 0 |}, true)
  end.
Fixpoint run_body_mech (b : body) (ops : list bop) : body * list bool :=
  match ops with
  | [] => (b, [])
  | o :: r => let '(b', ok) := step_body_mech b o in let '(b'', oks) := run_body_mech b' r in (b'', ok :: oks)
  end.

(** a body that only grew *)
Definition body_extends (b b' : body) : Prop :=
  bbe b' = bbe b /\ (exists e, bsig b' = bsig b ++ e) /\ (exists e, bbuf b' = bbuf b ++ e) /\ bfds b <= bfds b'.
Lemma body_extends_refl b : body_extends b b.
Proof. repeat split; try (exists []; now rewrite app_nil_r); lia. Qed.
Lemma body_extends_trans a b c : body_extends a b -> body_extends b c -> body_extends a c.
Proof.
  intros (E1 & [s1 S1] & [u1 U1] & F1) (E2 & [s2 S2] & [u2 U2] & F2). split; [congruence|]. split; [|split].
  - exists (s1 ++ s2). now rewrite S2, S1, app_assoc.
  - exists (u1 ++ u2). now rewrite U2, U1, app_assoc.
  - lia.
Qed.

(* truncating a grown body to the old lengths gives the old body back *)
Lemma truncate_restores b b' : body_extends b b' -> truncate_body b' (len (bsig b)) (len (bbuf b)) (bfds b) = b.
Proof.
  intros (E & [s S] & [u U] & F). destruct b as [be sg bf fd]. cbn [bbe bsig bbuf bfds] in *. unfold truncate_body.
  rewrite E, S, U, !firstnN_app_len. f_equal. lia.
Qed.

(* ... so the mechanism is the value-returning helper whenever the closure only appends *)
Lemma helper_mech_eq b f : (forall b' ok, f b = (b', ok) -> body_extends b b') -> helper_mech b f = helper b f.
Proof.
  intros H. unfold helper_mech, helper. destruct (f b) as [b' [|]] eqn:E; [reflexivity|].
  now rewrite (truncate_restores b b' (H _ _ eq_refl)).
Qed.
Lemma helper_extends b f b' ok : (forall b1 ok1, f b = (b1, ok1) -> body_extends b b1) ->
  helper b f = (b', ok) -> body_extends b b'.
Proof.
  intros H. unfold helper. destruct (f b) as [b1 [|]] eqn:E; intros E2; injection E2 as <- <-;
    [exact (H _ _ eq_refl)|apply body_extends_refl].
Qed.

(* the closures only append, success or failure *)
Lemma of_ctx_extends b c sg : extends {| mbuf := bbuf b; mfds := bfds b |} c ->
  body_extends b {| bbe := bbe b; bsig := bsig b ++ sg; bbuf := mbuf c; bfds := mfds c |}.
Proof. intros [[e E] F]. cbn [mbuf mfds] in *. repeat split; cbn [bbe bsig bbuf bfds]; eauto. Qed.
Lemma of_ctx_extends0 b c : extends {| mbuf := bbuf b; mfds := bfds b |} c ->
  body_extends b {| bbe := bbe b; bsig := bsig b; bbuf := mbuf c; bfds := mfds c |}.
Proof. intros H. pose proof (of_ctx_extends b c [] H) as G. now rewrite app_nil_r in G. Qed.

Lemma push_inner_extends b i b' ok : push_inner b i = (b', ok) -> body_extends b b'.
Proof.
  unfold push_inner. pose proof (marshal_t_appends (bbe b) (snd i) {| mbuf := bbuf b; mfds := bfds b |}) as H.
  destruct (marshal_t (bbe b) (snd i) _) as [c [|]]; cbn [fst] in H; intros E; injection E as <- <-;
    [now apply of_ctx_extends|now apply of_ctx_extends0].
Qed.
Lemma push_variant_inner_extends b i b' ok :
  (let '(c, ok) := marshal_t (bbe b) (VVariant (fst i) (snd i)) {| mbuf := bbuf b; mfds := bfds b |} in
   ({| bbe := bbe b; bsig := bsig b ++ [c_v]; bbuf := mbuf c; bfds := mfds c |}, ok)) = (b', ok) -> body_extends b b'.
Proof.
  pose proof (marshal_t_appends (bbe b) (VVariant (fst i) (snd i)) {| mbuf := bbuf b; mfds := bfds b |}) as H.
  destruct (marshal_t (bbe b) _ _) as [c okc]; cbn [fst] in H; intros E; injection E as <- <-. now apply of_ctx_extends.
Qed.
Lemma push_old_inner_extends b v b' ok : push_old_inner b v = (b', ok) -> body_extends b b'.
Proof.
  unfold push_old_inner. pose proof (marshal_param_top_appends (bbe b) v {| mbuf := bbuf b; mfds := bfds b |}) as H.
  destruct (marshal_param_top (bbe b) v _) as [c [|]]; cbn [fst] in H; intros E; injection E as <- <-;
    [now apply of_ctx_extends|now apply of_ctx_extends0].
Qed.

(** the single pushes: mechanism = model *)
Lemma push_param_mech_eq b i : push_param_mech b i = push_param b i.
Proof. apply helper_mech_eq. intros b' ok. apply push_inner_extends. Qed.
Lemma push_variant_mech_eq b i : push_variant_mech b i = push_variant b i.
Proof. apply helper_mech_eq. intros b' ok. apply push_variant_inner_extends. Qed.
Lemma push_old_param_mech_eq b v : push_old_param_mech b v = push_old_param b v.
Proof. apply helper_mech_eq. intros b' ok. apply push_old_inner_extends. Qed.

Lemma push_param_extends b i b' ok : push_param b i = (b', ok) -> body_extends b b'.
Proof. apply helper_extends. intros b1 ok1. apply push_inner_extends. Qed.
Lemma push_old_param_extends b v b' ok : push_old_param b v = (b', ok) -> body_extends b b'.
Proof. apply helper_extends. intros b1 ok1. apply push_old_inner_extends. Qed.

(** the multi pushes: an inner failure has already been rolled back, earlier successes are still there when the
    outer helper truncates *)
Lemma push_all_ext p1 p2 : (forall b i, p1 b i = p2 b i) -> forall l b, push_all p1 b l = push_all p2 b l.
Proof.
  intros H. induction l as [|i r IH]; intros b; cbn [push_all]; [reflexivity|]. rewrite H.
  destruct (p2 b i) as [b' [|]]; [apply IH|reflexivity].
Qed.
Lemma push_all_extends : forall l b b' ok, push_all push_param b l = (b', ok) -> body_extends b b'.
Proof.
  induction l as [|i r IH]; intros b b' ok E; cbn [push_all] in E.
  - injection E as <- _. apply body_extends_refl.
  - destruct (push_param b i) as [b1 [|]] eqn:E1.
    + exact (body_extends_trans _ _ _ (push_param_extends _ _ _ _ E1) (IH _ _ _ E)).
    + injection E as <- _. exact (push_param_extends _ _ _ _ E1).
Qed.
Lemma push_olds_mech_eq : forall l b, push_olds_mech b l = push_olds b l.
Proof.
  induction l as [|v r IH]; intros b; cbn [push_olds_mech push_olds]; [reflexivity|]. rewrite push_old_param_mech_eq.
  destruct (push_old_param b v) as [b' [|]]; [apply IH|reflexivity].
Qed.
Lemma push_olds_extends : forall l b b' ok, push_olds b l = (b', ok) -> body_extends b b'.
Proof.
  induction l as [|v r IH]; intros b b' ok E; cbn [push_olds] in E.
  - injection E as <- _. apply body_extends_refl.
  - destruct (push_old_param b v) as [b1 [|]] eqn:E1.
    + exact (body_extends_trans _ _ _ (push_old_param_extends _ _ _ _ E1) (IH _ _ _ E)).
    + injection E as <- _. exact (push_old_param_extends _ _ _ _ E1).
Qed.

(** ** refinement: the mechanism computes exactly what the model computes *)
Theorem step_body_mech_eq b o : step_body_mech b o = step_body b o.
Proof.
  destruct o as [i|l|l|i|v|l|]; cbn [step_body_mech step_body].
  - apply push_param_mech_eq.
  - rewrite (helper_mech_eq b (fun b => push_all push_param_mech b l)).
    + unfold helper. now rewrite (push_all_ext _ _ push_param_mech_eq).
    + intros b' ok. rewrite (push_all_ext _ _ push_param_mech_eq). apply push_all_extends.
  - rewrite (helper_mech_eq b (fun b => push_all push_param_mech b l)).
    + unfold helper. now rewrite (push_all_ext _ _ push_param_mech_eq).
    + intros b' ok. rewrite (push_all_ext _ _ push_param_mech_eq). apply push_all_extends.
  - apply push_variant_mech_eq.
  - apply push_old_param_mech_eq.
  - rewrite (helper_mech_eq b (fun b => push_olds_mech b l)).
    + unfold helper. now rewrite push_olds_mech_eq.
    + intros b' ok. rewrite push_olds_mech_eq. apply push_olds_extends.
  - reflexivity.
Qed.

Theorem run_body_mech_eq : forall ops b, run_body_mech b ops = run_body b ops.
Proof.
  induction ops as [|o r IH]; intros b; cbn [run_body_mech run_body]; [reflexivity|]. rewrite step_body_mech_eq.
  destruct (step_body b o) as [b' ok]. now rewrite IH.
Qed.

(* what the truncation relies on, stated for the body: whatever a (possibly failing, possibly multi-) push did before the
   helper looked at its result, the old signature, bytes and descriptor count were still there *)
Theorem step_only_appends b o b' ok : o <> Reset -> step_body b o = (b', ok) -> body_extends b b'.
Proof.
  destruct o as [i|l|l|i|v|l|]; cbn [step_body]; intros Hr E; try (now elim Hr).
  - exact (push_param_extends _ _ _ _ E).
  - refine (helper_extends _ _ _ _ _ E). intros b1 ok1. apply push_all_extends.
  - refine (helper_extends _ _ _ _ _ E). intros b1 ok1. apply push_all_extends.
  - unfold push_variant in E. refine (helper_extends _ _ _ _ _ E). intros b1 ok1. apply push_variant_inner_extends.
  - exact (push_old_param_extends _ _ _ _ E).
  - refine (helper_extends _ _ _ _ _ E). intros b1 ok1. apply push_olds_extends.
Qed.
