(** Non-vacuity for Wire/BodyDecode.v: a body "yv" holding a byte and a variant with a descriptor; with trailing bytes;
    with an empty signature. *)
From RB Require Import Base.Prelude Sig.Types Sig.Parser Wire.Bytes Wire.Align Wire.Text Wire.Value Wire.SpecEnc
  Wire.Marshal Wire.Decode Wire.Unmarshal Wire.Ops Wire.DecodeLemmas Wire.BodyDecode.

Definition sig_yv : list N := [121; 118].
(* 5, then variant "h" index 1 (padded to 4) *)
Definition buf_yv : list N := [5; 1; 104; 0; 1; 0; 0; 0].

Example ex_body_ok :
  Forall (fun b => b < 256) buf_yv
  /\ op_body_validate false sig_yv buf_yv = true
  /\ body_unmarshall_all false (2 ^ 32) sig_yv buf_yv = Ok [VBase BByte 5; VVariant (TBase BUnixFd) (VBase BUnixFd 1)]
  /\ body_unmarshall_all false 2 sig_yv buf_yv = Ok [VBase BByte 5; VVariant (TBase BUnixFd) (VBase BUnixFd 1)]
  /\ body_unmarshall_all false 1 sig_yv buf_yv = Err.                       (* only one descriptor attached *)
Proof. split; [repeat constructor|]. vm_compute. repeat split. Qed.

(* the theorem applied: validation accepts, so the decoder with enough descriptors succeeds *)
Example ex_body_by_theorem : exists vs, body_unmarshall_all false (2 ^ 32) sig_yv buf_yv = Ok vs.
Proof. destruct ex_body_ok as (Hb & Hv & _). exact (proj1 (body_agree false sig_yv buf_yv Hb) Hv). Qed.

(* bytes left over, and bytes without a signature: refused by both (unmarshall_all since fix 5de75d3) *)
Example ex_body_trailing :
  op_body_validate false sig_yv (buf_yv ++ [0]) = false /\ body_unmarshall_all false 2 sig_yv (buf_yv ++ [0]) = Err
  /\ op_body_validate false [] [7] = false /\ body_unmarshall_all false 0 [] [7] = Err
  /\ op_body_validate true [] [] = true /\ body_unmarshall_all true 0 [] [] = Ok []
  /\ op_body_validate false [40; 41] [] = false /\ body_unmarshall_all false 0 [40; 41] [] = Err.   (* "()" *)
Proof. vm_compute. repeat split. Qed.
