(** The three variant-enum generators agree with the typed Variant:
    - marshalling a case is marshalling a variant of the case's type;
    - decoding a valid variant of a case's type yields that case and consumes exactly the variant
      (relative to completeness of the typed decoder, a premise until Wire/DecodeComplete.v has it);
    - decoding a valid variant of any other type: the derived enum reports an error, both macro enums
      return Catchall having advanced exactly past the value. *)
From RB Require Import Base.Prelude Sig.Types Sig.Parser Sig.ParserProofs Sig.Validator Sig.ValidatorProofs Sig.Iter
  Wire.Bytes Wire.Align Wire.Text Wire.Value Wire.SpecEnc Wire.Marshal Wire.MarshalProofs Wire.Decode Wire.Unmarshal
  Wire.DecodeLemmas Wire.DecodeComplete Wire.HasSig Wire.HasSigProofs Wire.Derive Wire.DeriveProofs Wire.Enums.

(** ** texts and types *)
Lemma str_eqb_refl a : str_eqb a a = true.
Proof. induction a as [|x a IH]; cbn [str_eqb]; [reflexivity|]. now rewrite N.eqb_refl, IH. Qed.
Lemma str_eqb_true : forall a b, str_eqb a b = true -> a = b.
Proof.
  induction a as [|x a IH]; intros [|y b] H; cbn [str_eqb] in H; try discriminate; [reflexivity|].
  apply andb_prop in H. destruct H as [H1 H2]. apply N.eqb_eq in H1. f_equal; [exact H1|now apply IH].
Qed.

(* a Rust type for every D-Bus type *)
Fixpoint rty_of (t : ty) : rty :=
  match t with
  | TBase b => RBase b
  | TArray e => RArray (rty_of e)
  | TStruct ts => RTuple (map rty_of ts)
  | TDict k v => RDict k (rty_of v)
  | TVariant => RVar (RBase BByte)
  end.
Lemma sig_r_rty_of : forall t, sig_r (rty_of t) = t.
Proof.
  induction t as [b|e IH|ts IH|k v IH|] using ty_ind'; cbn [rty_of sig_r]; try congruence.
  f_equal. rewrite map_map. induction IH as [|x l Hx _ IHl]; cbn [map]; congruence.
Qed.

(* printing is injective (any type, well-formed or not): has_sig tells printed types apart *)
Lemma to_str_inj a b : to_str a = to_str b -> a = b.
Proof.
  intros H. pose proof (has_sig_r_exact (rty_of a) a) as H1. pose proof (has_sig_r_exact (rty_of a) b) as H2.
  rewrite H in H1. rewrite H1 in H2. rewrite sig_r_rty_of, ty_eqb_refl in H2.
  assert (H' : ty_eqb a b = true) by congruence. now apply ty_eqb_true.
Qed.

Lemma str_eqb_to_str a b : str_eqb (to_str a) (to_str b) = ty_eqb a b.
Proof.
  destruct (ty_eqb a b) eqn:E.
  - apply ty_eqb_true in E. subst. apply str_eqb_refl.
  - destruct (str_eqb (to_str a) (to_str b)) eqn:E2; [|reflexivity].
    apply str_eqb_true, to_str_inj in E2. subst. now rewrite ty_eqb_refl in E.
Qed.

Lemma flat_map_sig_str rs : flat_map sig_str_r rs = flat_map to_str (map sig_r rs).
Proof. induction rs as [|r rs IH]; cbn [flat_map map]; [reflexivity|]. now rewrite IH. Qed.

(* the text a case is compared with is the printed form of the case's type *)
Lemma case_sig_str_ty k : case_sig_str k = to_str (case_ty k).
Proof.
  destruct k as [r|named rs]; [reflexivity|].
  unfold case_sig_str, case_ty, case_rty. cbn [sig_r to_str app]. now rewrite flat_map_sig_str.
Qed.

(** ** marshalling *)
Definition pay_matches (k : ecase) (p : epay) : bool :=
  match k, p with
  | CSingle _, PSingle _ => true
  | CFields _ rs, PFields vs => true
  | _, _ => false
  end.

Lemma set_byte_at (a : list N) x y r : set_byte (len a) x (a ++ [y] ++ r) = a ++ [x] ++ r.
Proof.
  unfold set_byte. rewrite firstnN_app_len. f_equal. f_equal.
  replace (len a + 1) with (len (a ++ [y])) by (rewrite len_app; reflexivity).
  rewrite app_assoc. apply skipnN_app_len.
Qed.

Lemma mctx_eta c : {| mbuf := mbuf c; mfds := mfds c |} = c.
Proof. destruct c; reflexivity. Qed.

Lemma slice_mid (a : list N) x s r : slice (a ++ [x] ++ s ++ r) (len a + 1) (len s) = s.
Proof.
  unfold slice. replace (len a + 1) with (len (a ++ [x])) by (rewrite len_app; reflexivity).
  rewrite (app_assoc a [x]), skipnN_app_len. apply firstnN_app_len.
Qed.

(* no hypothesis at all: whatever makes the Variant wrapper refuse (more than 255 bytes, a signature the protocol
   forbids) makes the generated code refuse, and both leave the context as it was *)
Theorem derive_enum_marshal_variant be k p c : pay_matches k p = true ->
  derive_case_marshal be k p c = marshal_t be (VVariant (case_ty k) (payload_val p)) c.
Proof.
  intros Hp. destruct k as [r|named rs], p as [v|vs]; try discriminate Hp; cbn [derive_case_marshal payload_val].
  - reflexivity.
  - cbv zeta. pose proof (case_sig_str_ty (CFields named rs)) as Es. unfold case_sig_str in Es.
    set (s := to_str (case_ty (CFields named rs))) in *.
    replace (mbuf c ++ [0] ++ [c_lpar] ++ flat_map sig_str_r rs ++ [c_rpar] ++ [0])
      with (mbuf c ++ [0] ++ (s ++ [0])) by (rewrite <- Es, <- !app_assoc; reflexivity).
    replace (len (mbuf c ++ [0] ++ s ++ [0]) - len (mbuf c) - 2) with (len s)
      by (rewrite !len_app; change (len [0]) with 1; lia).
    change (marshal_t be (VVariant (case_ty (CFields named rs)) (VStruct vs)) c)
      with (if 255 <? len s then (c, false)
            else if is_ok (validate_signature s) then marshal_t be (VStruct vs) {| mbuf := write_signature s (mbuf c); mfds := mfds c |}
            else (c, false)).
    destruct (N.ltb_spec 255 (len s)) as [_|_].
    + rewrite firstnN_app_len. now rewrite mctx_eta.
    + rewrite set_byte_at, slice_mid.
      destruct (is_ok (validate_signature s)); cbn [negb].
      * rewrite (derive_struct_marshal_tuple be (map (marshal_t be) vs) vs).
        2:{ clear. induction vs as [|v vs IH]; cbn [map]; constructor; auto. }
        reflexivity.
      * rewrite firstnN_app_len. now rewrite mctx_eta.
Qed.

Lemma type_ok_validate t : type_ok t = true -> is_ok (validate_signature (to_str t)) = true.
Proof.
  intros H. destruct (type_ok_parts _ H) as (Hw & Hd & Hl).
  assert (E : validate_signature (to_str t) = Ok tt).
  { apply validate_signature_spec. exists [t]. unfold sig_of_types. cbn [forallb to_str_list flat_map].
    rewrite Hw, Hd, app_nil_r. auto. }
  now rewrite E.
Qed.

(* dbus_variant_sig! validates through SignatureWrapper::new, which includes the length limit *)
Theorem sig_macro_marshal_variant be r v c :
  sig_macro_marshal be r v c = marshal_t be (VVariant (sig_r r) v) c.
Proof.
  unfold sig_macro_marshal, sig_str_r. cbn [marshal_t].
  destruct (is_ok (validate_signature (to_str (sig_r r)))) eqn:E.
  - pose proof (validate_signature_len _ E) as Hl.
    destruct (N.ltb_spec 255 (len (to_str (sig_r r)))) as [|_]; [lia|]. reflexivity.
  - destruct (255 <? len (to_str (sig_r r))); reflexivity.
Qed.

Theorem var_macro_marshal_variant be r v c : var_macro_marshal be r v c = marshal_t be (VVariant (sig_r r) v) c.
Proof. reflexivity. Qed.

(** ** which case answers: the first one whose type is the variant's content type *)
Lemma derive_cases_hit vf be t c : forall pre i0 k post,
  Forall (fun k' => case_ty k' <> t) pre -> case_ty k = t ->
  derive_enum_cases vf be (pre ++ k :: post) i0 (to_str t) c =
    do r <- unmarshal_r vf be (case_rty k) c; Ok (ECase (i0 + length pre) (fst r), snd r).
Proof.
  induction pre as [|k' pre IH]; intros i0 k post Hpre Hk; cbn [app derive_enum_cases].
  - rewrite case_sig_str_ty, str_eqb_to_str, Hk, ty_eqb_refl. cbn [length]. now rewrite Nat.add_0_r.
  - apply Forall_cons_iff in Hpre. destruct Hpre as [Hk' Hpre]. rewrite case_sig_str_ty, str_eqb_to_str.
    destruct (ty_eqb t (case_ty k')) eqn:E; [apply ty_eqb_true in E; now elim Hk'|].
    rewrite IH by assumption. cbn [length]. now rewrite Nat.add_succ_r.
Qed.
Lemma derive_cases_miss vf be t c : forall cs i0, Forall (fun k' => case_ty k' <> t) cs ->
  derive_enum_cases vf be cs i0 (to_str t) c = Err.
Proof.
  induction cs as [|k' cs IH]; intros i0 H; cbn [derive_enum_cases]; [reflexivity|].
  apply Forall_cons_iff in H. destruct H as [Hk' H]. rewrite case_sig_str_ty, str_eqb_to_str.
  destruct (ty_eqb t (case_ty k')) eqn:E; [apply ty_eqb_true in E; now elim Hk'|]. now apply IH.
Qed.

Lemma sig_cases_hit vf be t c : forall pre i0 r post,
  Forall (fun r' => sig_r r' <> t) pre -> sig_r r = t ->
  sig_macro_cases vf be (pre ++ r :: post) i0 t c =
    do x <- unmarshal_r vf be r c; Ok (Some (ECase (i0 + length pre) (fst x), snd x)).
Proof.
  induction pre as [|r' pre IH]; intros i0 r post Hpre Hr; cbn [app sig_macro_cases].
  - rewrite Hr, ty_eqb_refl. cbn [length]. now rewrite Nat.add_0_r.
  - apply Forall_cons_iff in Hpre. destruct Hpre as [Hr' Hpre].
    destruct (ty_eqb t (sig_r r')) eqn:E; [apply ty_eqb_true in E; now elim Hr'|].
    rewrite IH by assumption. cbn [length]. now rewrite Nat.add_succ_r.
Qed.
Lemma sig_cases_miss vf be t c : forall cs i0, Forall (fun r' => sig_r r' <> t) cs ->
  sig_macro_cases vf be cs i0 t c = Ok None.
Proof.
  induction cs as [|r' cs IH]; intros i0 H; cbn [sig_macro_cases]; [reflexivity|].
  apply Forall_cons_iff in H. destruct H as [Hr' H].
  destruct (ty_eqb t (sig_r r')) eqn:E; [apply ty_eqb_true in E; now elim Hr'|]. now apply IH.
Qed.

Lemma var_cases_hit vf be t c : forall pre i0 r post,
  Forall (fun r' => sig_r r' <> t) pre -> sig_r r = t ->
  var_macro_cases vf be (pre ++ r :: post) i0 (to_str t) c =
    do x <- unmarshal_r vf be r c; Ok (Some (ECase (i0 + length pre) (fst x), snd x)).
Proof.
  induction pre as [|r' pre IH]; intros i0 r post Hpre Hr; cbn [app var_macro_cases]; unfold sig_str_r.
  - rewrite str_eqb_to_str, Hr, ty_eqb_refl. cbn [length]. now rewrite Nat.add_0_r.
  - apply Forall_cons_iff in Hpre. destruct Hpre as [Hr' Hpre]. rewrite str_eqb_to_str.
    destruct (ty_eqb t (sig_r r')) eqn:E; [apply ty_eqb_true in E; now elim Hr'|].
    rewrite IH by assumption. cbn [length]. now rewrite Nat.add_succ_r.
Qed.
Lemma var_cases_miss vf be t c : forall cs i0, Forall (fun r' => sig_r r' <> t) cs ->
  var_macro_cases vf be cs i0 (to_str t) c = Ok None.
Proof.
  induction cs as [|r' cs IH]; intros i0 H; cbn [var_macro_cases]; [reflexivity|]. unfold sig_str_r.
  apply Forall_cons_iff in H. destruct H as [Hr' H]. rewrite str_eqb_to_str.
  destruct (ty_eqb t (sig_r r')) eqn:E; [apply ty_eqb_true in E; now elim Hr'|]. now apply IH.
Qed.

(** ** a valid variant at the cursor *)
(* [c] stands at a valid encoding of the variant [VVariant t v], anywhere in a buffer *)
Record at_variant (be : bool) (c : uctx) (t : ty) (v : val) : Prop := {
  av_wt : wt v t = true;
  av_enc : encodable be (uoff c) (udepth c) (VVariant t v) = true;
  av_fds : fds_below (unfds c) v = true;
  av_bytes : has_at (ubuf c) (uoff c) (spec_enc be (uoff c) (VVariant t v))
}.

(* the cursor after the whole variant *)
Definition after_variant (be : bool) (c : uctx) (t : ty) (v : val) : uctx :=
  set_off c (uoff c + len (spec_enc be (uoff c) (VVariant t v))).

Lemma at_variant_parts be c t v : at_variant be c t v ->
  udepth c < MAX_DEPTH /\ type_ok t = true /\
  u_read_sig c = Ok (to_str t, set_off c (uoff c + (len (to_str t) + 2))) /\
  encodable be (uoff c + (len (to_str t) + 2)) (udepth c + 1) v = true /\
  has_at (ubuf c) (uoff c + (len (to_str t) + 2)) (spec_enc be (uoff c + (len (to_str t) + 2)) v) /\
  len (spec_enc be (uoff c) (VVariant t v)) = len (to_str t) + 2 + len (spec_enc be (uoff c + (len (to_str t) + 2)) v).
Proof.
  intros [Hwt He Hf Hb]. cbn [encodable] in He. apply andb3 in He. destruct He as (Hd & Hok & Hev).
  apply N.ltb_lt in Hd. rewrite spec_enc_variant in Hb. rewrite len_sig_bytes in *.
  destruct (has_at_app _ _ _ _ Hb) as [H1 H2]. rewrite len_sig_bytes in H2.
  repeat split; try assumption.
  - apply u_read_sig_ok; [apply utf8_valid_ascii, to_str_ascii|exact H1].
  - rewrite spec_enc_variant, len_app, !len_sig_bytes. reflexivity.
Qed.

Lemma set_off_set_off c a b : set_off (set_off c a) b = set_off c b.
Proof. reflexivity. Qed.
Lemma set_off_eq c a b : a = b -> set_off c a = set_off c b.
Proof. now intros ->. Qed.

(* leave_container after enter_container: the depth is what it was; the cursor stays where sub_context put it *)
Lemma leave_entered buf o nf d o' :
  u_leave (set_off {| ubuf := buf; uoff := o; unfds := nf; udepth := d + 1 |} o') = {| ubuf := buf; uoff := o'; unfds := nf; udepth := d |}.
Proof. unfold u_leave, set_off. cbn [ubuf uoff unfds udepth]. f_equal. lia. Qed.
Lemma set_off_build c o : set_off c o = {| ubuf := ubuf c; uoff := o; unfds := unfds c; udepth := udepth c |}.
Proof. reflexivity. Qed.

(** *** no case has the variant's type *)
Theorem derive_enum_miss vf be cs c t v : at_variant be c t v ->
  Forall (fun k => case_ty k <> t) cs ->
  derive_enum_unmarshal vf be cs c = Err.
Proof.
  intros Hav Hcs. destruct (at_variant_parts _ _ _ _ Hav) as (_ & _ & Hrs & _).
  unfold derive_enum_unmarshal. rewrite Hrs. cbn [bind fst snd]. now apply derive_cases_miss.
Qed.

Theorem sig_macro_miss vf be cs c t v : at_variant be c t v ->
  Forall (fun r => sig_r r <> t) cs ->
  sig_macro_unmarshal vf be cs c = Ok (ECatchSig t, after_variant be c t v).
Proof.
  intros Hav Hcs. destruct (at_variant_parts _ _ _ _ Hav) as (Hd & Hok & Hrs & Hev & Hb & Hlen).
  destruct Hav as [Hwt _ _ _].
  unfold sig_macro_unmarshal. rewrite Hrs. cbn [bind fst snd]. rewrite (parse_description_single _ Hok). cbn [bind].
  rewrite (sig_cases_miss _ _ _ _ _ _ Hcs). cbn [bind].
  set (c1 := set_off c (uoff c + (len (to_str t) + 2))).
  rewrite (u_enter_ok c1) by exact Hd. cbn [bind udepth set_off uoff ubuf unfds c1].
  rewrite (validate_complete_gen be v t (udepth c + 1) _ (ubuf c) 66%nat Hwt Hev Hb (fuel_ok_66 _)). cbn [bind].
  pose proof (has_at_bound _ _ _ Hb) as Hbound.
  rewrite u_sub_ok by (cbn [uoff ubuf]; exact Hbound). cbn [bind snd uoff].
  rewrite leave_entered. unfold after_variant. rewrite Hlen, set_off_build. do 3 f_equal. lia.
Qed.

Theorem var_macro_miss vf be cs c t v : at_variant be c t v ->
  Forall (fun r => sig_r r <> t) cs ->
  exists sub, var_macro_unmarshal vf be cs c = Ok (ECatchVar t sub, after_variant be c t v)
    (* the sub-context stands at the (aligned) value and ends where the value ends *)
    /\ has_at (ubuf sub) (uoff sub) (spec_enc be (uoff sub) v) /\ len (ubuf sub) = uoff sub + len (spec_enc be (uoff sub) v)
    (* it was split off inside the variant: one level deeper than the enum itself *)
    /\ unfds sub = unfds c /\ udepth sub = udepth c + 1
    /\ uoff sub = uoff c + (len (to_str t) + 2) + padlen (align t) (uoff c + (len (to_str t) + 2)).
Proof.
  intros Hav Hcs. destruct (at_variant_parts _ _ _ _ Hav) as (Hd & Hok & Hrs & Hev & Hb & Hlen).
  destruct Hav as [Hwt _ _ _].
  unfold var_macro_unmarshal. rewrite Hrs. cbn [bind fst snd].
  rewrite (var_cases_miss _ _ _ _ _ _ Hcs). cbn [bind]. rewrite (parse_description_single _ Hok).
  set (o1 := uoff c + (len (to_str t) + 2)) in *. set (c1 := set_off c o1).
  rewrite (spec_enc_align be v t o1 Hwt) in Hb. destruct (has_at_app _ _ _ _ Hb) as [Hz Hb2]. rewrite len_zeros in Hb2.
  rewrite (u_align_ok (align t) c1) by (try apply align_pos; exact Hz). cbn [bind set_off uoff ubuf unfds udepth c1].
  set (o2 := o1 + padlen (align t) o1) in *.
  rewrite u_enter_ok by (cbn [udepth]; exact Hd). subst c1. cbn [bind udepth uoff ubuf unfds set_off].
  rewrite <- (encodable_align be v t o1 (udepth c + 1) Hwt) in Hev. fold o2 in Hev.
  rewrite (validate_complete_gen be v t (udepth c + 1) o2 (ubuf c) 66%nat Hwt Hev Hb2 (fuel_ok_66 _)). cbn [bind].
  pose proof (has_at_bound _ _ _ Hb2) as Hbound.
  rewrite u_sub_ok by (cbn [uoff ubuf]; exact Hbound). cbn [bind fst snd uoff ubuf unfds udepth].
  rewrite leave_entered.
  eexists. split.
  { apply f_equal. apply f_equal2; [reflexivity|].
    unfold after_variant. rewrite set_off_build. f_equal.
    rewrite Hlen, (spec_enc_align be v t o1 Hwt), len_app, len_zeros. fold o2. lia. }
  cbn [ubuf uoff unfds udepth]. repeat split.
  - apply has_at_clip; [exact Hb2|lia].
  - apply len_clip. exact Hbound.
Qed.

(** *** the variant's type is a case's type. The payload is decoded by the case type's own Unmarshal impl,
    so this needs completeness of the typed decoder: the statement Wire/DecodeComplete.v is going to prove
    ([unmarshal_t_complete_gen], for its typing relation between Rust types and values) is a premise here. *)
Section Hit.
  Variable ety_matches : ety -> val -> Prop.
  Hypothesis unmarshal_t_complete_gen : forall be e v buf off nf d vf,
    ety_matches e v -> encodable be off d v = true -> fds_below nf v = true ->
    has_at buf off (spec_enc be off v) -> fuel_ok vf d ->
    unmarshal_t vf be e (Build_uctx buf off nf d) = Ok (v, Build_uctx buf (off + len (spec_enc be off v)) nf d).

  Lemma payload_decoded be vf c t v r : at_variant be c t v -> ety_matches (tup r) v -> fuel_ok vf (udepth c) ->
    unmarshal_r vf be r (set_off c (uoff c + (len (to_str t) + 2))) = Ok (v, after_variant be c t v).
  Proof.
    intros Hav Hm Hf. destruct (at_variant_parts _ _ _ _ Hav) as (Hd & Hok & Hrs & Hev & Hb & Hlen).
    destruct Hav as [Hwt _ Hfd _]. rewrite unmarshal_r_tup. unfold set_off at 1.
    rewrite (unmarshal_t_complete_gen be (tup r) v _ _ _ _ vf Hm
               (encodable_mono be v _ (udepth c + 1) (udepth c) ltac:(lia) Hev) Hfd Hb Hf).
    unfold after_variant, set_off. rewrite Hlen. do 3 f_equal. lia.
  Qed.

  Theorem derive_enum_hit vf be c t v pre k post : at_variant be c t v -> fuel_ok vf (udepth c) ->
    Forall (fun k' => case_ty k' <> t) pre -> case_ty k = t -> ety_matches (tup (case_rty k)) v ->
    derive_enum_unmarshal vf be (pre ++ k :: post) c = Ok (ECase (length pre) v, after_variant be c t v).
  Proof.
    intros Hav Hf Hpre Hk Hm. destruct (at_variant_parts _ _ _ _ Hav) as (_ & _ & Hrs & _).
    unfold derive_enum_unmarshal. rewrite Hrs. cbn [bind fst snd].
    rewrite (derive_cases_hit _ _ _ _ pre 0 k post Hpre Hk), (payload_decoded be vf c t v _ Hav Hm Hf). reflexivity.
  Qed.

  Theorem sig_macro_hit vf be c t v pre r post : at_variant be c t v -> fuel_ok vf (udepth c) ->
    Forall (fun r' => sig_r r' <> t) pre -> sig_r r = t -> ety_matches (tup r) v ->
    sig_macro_unmarshal vf be (pre ++ r :: post) c = Ok (ECase (length pre) v, after_variant be c t v).
  Proof.
    intros Hav Hf Hpre Hr Hm. destruct (at_variant_parts _ _ _ _ Hav) as (_ & Hok & Hrs & _).
    unfold sig_macro_unmarshal. rewrite Hrs. cbn [bind fst snd]. rewrite (parse_description_single _ Hok). cbn [bind].
    rewrite (sig_cases_hit _ _ _ _ pre 0 r post Hpre Hr), (payload_decoded be vf c t v _ Hav Hm Hf). reflexivity.
  Qed.

  Theorem var_macro_hit vf be c t v pre r post : at_variant be c t v -> fuel_ok vf (udepth c) ->
    Forall (fun r' => sig_r r' <> t) pre -> sig_r r = t -> ety_matches (tup r) v ->
    var_macro_unmarshal vf be (pre ++ r :: post) c = Ok (ECase (length pre) v, after_variant be c t v).
  Proof.
    intros Hav Hf Hpre Hr Hm. destruct (at_variant_parts _ _ _ _ Hav) as (_ & _ & Hrs & _).
    unfold var_macro_unmarshal. rewrite Hrs. cbn [bind fst snd].
    rewrite (var_cases_hit _ _ _ _ pre 0 r post Hpre Hr), (payload_decoded be vf c t v _ Hav Hm Hf). reflexivity.
  Qed.

  (* what dbus_variant_var!'s Catchall holds can be read with get::<T>() for the value's own type *)
  Theorem var_macro_catch_get be vf sub t v r : wt v t = true ->
    has_at (ubuf sub) (uoff sub) (spec_enc be (uoff sub) v) -> encodable be (uoff sub) (udepth sub) v = true ->
    fds_below (unfds sub) v = true -> fuel_ok vf (udepth sub) -> sig_r r = t -> ety_matches (tup r) v ->
    catch_var_get vf be t sub r = Ok v.
  Proof.
    intros Hwt Hb He Hfd Hf Hr Hm. unfold catch_var_get. rewrite Hr, ty_eqb_refl, unmarshal_r_tup.
    destruct sub as [buf off nf d]. cbn [ubuf uoff unfds udepth] in *.
    now rewrite (unmarshal_t_complete_gen be (tup r) v buf off nf d vf Hm He Hfd Hb Hf).
  Qed.
End Hit.
