(** Fixed-width integers on the wire: models of util::write_u16/32/64 (to_le_bytes/to_be_bytes),
    util::insert_u32 and util::parse_u16/32/64 (the shift-and-add formulas), with the
    round-trip lemmas for both byte orders. [be = true] is ByteOrder::BigEndian. *)
From RB Require Import Base.Prelude.

(* to_le_bytes: k bytes, least significant first *)
Fixpoint le_bytes (k : nat) (n : N) : list N :=
  match k with O => [] | S k' => (n mod 256) :: le_bytes k' (n / 256) end.
(* write_uK *)
Definition enc (be : bool) (k : nat) (n : N) : list N := if be then rev (le_bytes k n) else le_bytes k n.

(* parse_uK: (number[0]) + (number[1] << 8) + ... little endian; reversed for big endian *)
Fixpoint le_val (bs : list N) : N :=
  match bs with [] => 0 | b :: r => b + 256 * le_val r end.
Definition dec (be : bool) (bs : list N) : N := if be then le_val (rev bs) else le_val bs.

Lemma len_le_bytes k n : len (le_bytes k n) = N.of_nat k.
Proof. revert n; induction k as [|k IH]; intros n; cbn [le_bytes]; [reflexivity|]. rewrite len_cons, IH. lia. Qed.
Lemma length_le_bytes k n : length (le_bytes k n) = k.
Proof. revert n; induction k as [|k IH]; intros n; cbn [le_bytes length]; [reflexivity|]. now rewrite IH. Qed.
Lemma len_enc be k n : len (enc be k n) = N.of_nat k.
Proof. unfold enc; destruct be; [rewrite len_rev|]; apply len_le_bytes. Qed.
Lemma length_enc be k n : length (enc be k n) = k.
Proof. unfold enc; destruct be; [rewrite rev_length|]; apply length_le_bytes. Qed.

Lemma le_bytes_ok k n : bytes_ok (le_bytes k n).
Proof. revert n; induction k as [|k IH]; intros n; cbn [le_bytes]; [constructor|].
  constructor; [unfold byte_ok; apply N.mod_lt; lia|apply IH]. Qed.
Lemma enc_ok be k n : bytes_ok (enc be k n).
Proof. unfold enc, bytes_ok. destruct be; [apply Forall_rev|]; apply le_bytes_ok. Qed.

Lemma le_val_le_bytes k n : n < 256 ^ N.of_nat k -> le_val (le_bytes k n) = n.
Proof.
  revert n; induction k as [|k IH]; intros n H; cbn [le_bytes le_val].
  - cbn in H. lia.
  - rewrite IH.
    + pose proof (N.div_mod n 256 ltac:(lia)). lia.
    + rewrite Nat2N.inj_succ, N.pow_succ_r' in H. apply N.div_lt_upper_bound; lia.
Qed.
Lemma dec_enc be k n : n < 256 ^ N.of_nat k -> dec be (enc be k n) = n.
Proof. intros H. unfold dec, enc. destruct be; [rewrite rev_involutive|]; now apply le_val_le_bytes. Qed.

Lemma le_val_bound bs : bytes_ok bs -> le_val bs < 256 ^ len bs.
Proof.
  induction bs as [|b bs IH]; intros H; cbn [le_val].
  - cbn. lia.
  - inversion H as [|? ? Hb Hbs]; subst. specialize (IH Hbs). rewrite len_cons.
    replace (1 + len bs) with (N.succ (len bs)) by lia. rewrite N.pow_succ_r'. unfold byte_ok in Hb. nia.
Qed.
Lemma le_bytes_le_val bs : bytes_ok bs -> le_bytes (length bs) (le_val bs) = bs.
Proof.
  induction bs as [|b bs IH]; intros H; cbn [le_val le_bytes length]; [reflexivity|].
  inversion H as [|? ? Hb Hbs]; subst. unfold byte_ok in Hb.
  assert (E1 : (b + 256 * le_val bs) mod 256 = b).
  { symmetry. apply N.mod_unique with (q := le_val bs); lia. }
  assert (E2 : (b + 256 * le_val bs) / 256 = le_val bs).
  { symmetry. apply N.div_unique with (r := b); lia. }
  rewrite E1, E2, IH by assumption. reflexivity.
Qed.
Lemma enc_dec be bs : bytes_ok bs -> enc be (length bs) (dec be bs) = bs.
Proof.
  intros H. unfold enc, dec. destruct be.
  - rewrite <- (rev_length bs). rewrite le_bytes_le_val by (now apply Forall_rev). apply rev_involutive.
  - now apply le_bytes_le_val.
Qed.
Lemma dec_bound be bs : bytes_ok bs -> dec be bs < 256 ^ len bs.
Proof. intros H. unfold dec. destruct be; [rewrite <- (len_rev bs); apply le_val_bound; now apply Forall_rev|now apply le_val_bound]. Qed.

Lemma enc_inj be k n m : n < 256 ^ N.of_nat k -> m < 256 ^ N.of_nat k -> enc be k n = enc be k m -> n = m.
Proof. intros Hn Hm E. rewrite <- (dec_enc be k n Hn), <- (dec_enc be k m Hm). now rewrite E. Qed.
