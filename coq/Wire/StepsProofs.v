(** C04, step counting: the instrumented validator [validate_s] (Wire/Steps.v)
    - projects to the uninstrumented model [validate] (so the correspondence check of [validate] ties it to the code),
    - makes at most [step_weight d * (bytes from the start offset + 1)] steps on EVERY input, failing runs included,
      and at most [step_weight d * bytes consumed] steps when it succeeds. *)
From RB Require Import Base.Prelude Sig.Types Sig.Parser Sig.ParserProofs Sig.Validator Sig.ValidatorProofs
  Wire.Bytes Wire.Align Wire.Text Wire.Value Wire.SpecEnc Wire.Marshal Wire.MarshalProofs Wire.Decode Wire.Unmarshal.
From RB Require Import Wire.DecodeSoundLemmas Wire.DecodeTotal Wire.Steps.

(** ** one equation per type constructor *)
Section FieldLoopS.
  Variable one : ty -> N -> counted N.
  Variable offset : N.
  (* the `fields` loop of the struct arm of [validate_s] *)
  Fixpoint v_fields_s (l : list ty) (used : N) : counted N :=
    match l with
    | [] => lift (Ok used)
    | f :: r => tick (dos k <- one f (offset + used); v_fields_s r (used + k))
    end.
End FieldLoopS.

Lemma validate_s_0 be d off buf t : validate_s 0 be d off buf t = (OutOfFuel, 0). Proof. reflexivity. Qed.
Lemma validate_s_base_eq vf be d off buf b : validate_s (S vf) be d off buf (TBase b) = tick (lift (validate_base be off buf b)).
Proof. reflexivity. Qed.
Lemma validate_s_array_eq vf be d off buf e : validate_s (S vf) be d off buf (TArray e) =
  tick (
  if MAX_DEPTH <=? d then lift Err else
  dos padding <- lift (align_offset 4 buf off);
  dos n <- lift (parse_u32_at be buf (off + padding));
  dos n <- lift (check_array_len n);
  if len buf - (off + padding + 4) <? n then lift Err else
  dos fp <- lift (align_offset (align e) buf (off + padding + 4));
  if len buf - (off + padding + 4 + fp) <? n then lift Err else
  if bytes_always_valid e then
    lift (if n mod align e =? 0 then Ok (padding + 4 + fp + n) else Err)
  else
    dos used <- elem_loop_s (fun p => validate_s (S vf) be (d + 1) p (firstnN (off + padding + 4 + fp + n) buf) e)
                         (S (N.to_nat n)) (off + padding + 4 + fp) n 0;
    lift (Ok (padding + 4 + fp + n))).
Proof. reflexivity. Qed.
Lemma validate_s_dict_eq vf be d off buf k v : validate_s (S vf) be d off buf (TDict k v) =
  tick (
  if MAX_DEPTH <=? d then lift Err else
  dos padding <- lift (align_offset 4 buf off);
  dos n <- lift (parse_u32_at be buf (off + padding));
  dos n <- lift (check_array_len n);
  if len buf - (off + padding + 4) <? n then lift Err else
  dos bp <- lift (align_offset 8 buf (off + padding + 4));
  if len buf - (off + padding + 4 + bp) <? n then lift Err else
  let clipped := firstnN (off + padding + 4 + bp + n) buf in
  dos used <- elem_loop_s (fun p =>
                          dos ep <- lift (align_offset 8 clipped p);
                          dos kb <- tick (lift (validate_base be (p + ep) clipped k));
                          dos vb <- validate_s (S vf) be (d + 1) (p + ep + kb) clipped v;
                          lift (Ok (ep + kb + vb)))
                       (S (N.to_nat n)) (off + padding + 4 + bp) n 0;
  lift (Ok (padding + bp + 4 + used))).
Proof. reflexivity. Qed.
Lemma validate_s_struct_eq vf be d off buf ts : validate_s (S vf) be d off buf (TStruct ts) =
  tick (
  if MAX_DEPTH <=? d then lift Err else
  dos padding <- lift (align_offset 8 buf off);
  dos used <- v_fields_s (fun f p => validate_s (S vf) be (d + 1) p buf f) (off + padding) ts 0;
  lift (Ok (padding + used))).
Proof. reflexivity. Qed.
Lemma validate_s_variant_eq vf be d off buf : validate_s (S vf) be d off buf TVariant =
  tick (
  if MAX_DEPTH <=? d then lift Err else
  dos r <- lift (unmarshal_signature buf off);
  dos tys <- lift (parse_description (snd r));
  match tys with
  | [t'] => dos pb <- validate_s vf be (d + 1) (off + fst r) buf t'; lift (Ok (fst r + pb))
  | _ => lift Err
  end).
Proof.
  cbn [validate_s]. destruct (MAX_DEPTH <=? d); [reflexivity|].
  destruct (unmarshal_signature buf off) as [[sb sg]| | | |]; reflexivity.
Qed.

(** ** projection *)
Lemma fst_tick {A} (x : counted A) : fst (tick x) = fst x. Proof. reflexivity. Qed.
Lemma snd_tick {A} (x : counted A) : snd (tick x) = 1 + snd x. Proof. reflexivity. Qed.
Lemma fst_lift {A} (o : outcome A) : fst (lift o) = o. Proof. reflexivity. Qed.
Lemma snd_lift {A} (o : outcome A) : snd (lift o) = 0. Proof. reflexivity. Qed.
Lemma fst_bind_s {A B} (x : counted A) (f : A -> counted B) : fst (bind_s x f) = bind (fst x) (fun a => fst (f a)).
Proof. unfold bind_s. destruct (fst x); reflexivity. Qed.
Lemma bind_ext {A B} (o : outcome A) (f g : A -> outcome B) : (forall a, o = Ok a -> f a = g a) -> bind o f = bind o g.
Proof. intros H. destruct o; cbn [bind]; auto. Qed.
Lemma fst_if {A B} (c : bool) (x y : A * B) : fst (if c then x else y) = if c then fst x else fst y.
Proof. now destruct c. Qed.

Lemma elem_loop_s_proj one_s one : (forall p, fst (one_s p) = one p) ->
  forall lf offset n used, fst (elem_loop_s one_s lf offset n used) = elem_loop one lf offset n used.
Proof.
  intros H. induction lf as [|lf IH]; intros offset n used; cbn [elem_loop_s elem_loop]; destruct (used <? n); try reflexivity.
  rewrite fst_tick, fst_bind_s, H. apply bind_ext. intros k _. apply IH.
Qed.
Lemma v_fields_s_proj one_s one offset : forall ts, (forall f p, In f ts -> fst (one_s f p) = one f p) ->
  forall used, fst (v_fields_s one_s offset ts used) = v_fields one offset ts used.
Proof.
  induction ts as [|f r IH]; intros H used; cbn [v_fields_s v_fields]; [reflexivity|].
  rewrite fst_tick, fst_bind_s, (H f _ (or_introl eq_refl)). apply bind_ext. intros k _. apply IH.
  intros f' p Hin. apply H. now right.
Qed.

Theorem validate_s_proj be : forall vf t d off buf, fst (validate_s vf be d off buf t) = validate vf be d off buf t.
Proof.
  induction vf as [|vf IHvf]; [reflexivity|].
  induction t as [b|e IHe|ts IHts|kt vt IHv|] using ty_ind'; intros d off buf.
  - reflexivity.
  - rewrite validate_s_array_eq, validate_array_eq, fst_tick. destruct (MAX_DEPTH <=? d); [reflexivity|].
    rewrite fst_bind_s, fst_lift. apply bind_ext. intros p1 _.
    rewrite fst_bind_s, fst_lift. apply bind_ext. intros n0 _.
    rewrite fst_bind_s, fst_lift. apply bind_ext. intros n _.
    destruct (_ <? n); [reflexivity|].
    rewrite fst_bind_s, fst_lift. apply bind_ext. intros p2 _.
    destruct (_ <? n); [reflexivity|]. destruct (bytes_always_valid e); [reflexivity|].
    rewrite fst_bind_s. rewrite (elem_loop_s_proj _ (fun p => validate (S vf) be (d + 1) p (firstnN (off + p1 + 4 + p2 + n) buf) e)).
    + reflexivity.
    + intros p. apply IHe.
  - rewrite validate_s_struct_eq, validate_struct_eq, fst_tick. destruct (MAX_DEPTH <=? d); [reflexivity|].
    rewrite fst_bind_s, fst_lift. apply bind_ext. intros p1 _.
    rewrite fst_bind_s. rewrite (v_fields_s_proj _ (fun f p => validate (S vf) be (d + 1) p buf f)).
    + reflexivity.
    + rewrite Forall_forall in IHts. intros f p Hin. now apply IHts.
  - rewrite validate_s_dict_eq, validate_dict_eq, fst_tick. destruct (MAX_DEPTH <=? d); [reflexivity|].
    rewrite fst_bind_s, fst_lift. apply bind_ext. intros p1 _.
    rewrite fst_bind_s, fst_lift. apply bind_ext. intros n0 _.
    rewrite fst_bind_s, fst_lift. apply bind_ext. intros n _.
    destruct (_ <? n); [reflexivity|].
    rewrite fst_bind_s, fst_lift. apply bind_ext. intros p2 _.
    destruct (_ <? n); [reflexivity|]. cbv zeta.
    rewrite fst_bind_s. erewrite elem_loop_s_proj.
    + reflexivity.
    + intros p. cbv beta. rewrite fst_bind_s, fst_lift. apply bind_ext. intros ep _.
      rewrite fst_bind_s, fst_tick, fst_lift. apply bind_ext. intros kb _.
      rewrite fst_bind_s, IHv. reflexivity.
  - rewrite validate_s_variant_eq, validate_variant_eq, fst_tick. destruct (MAX_DEPTH <=? d); [reflexivity|].
    rewrite fst_bind_s, fst_lift. apply bind_ext. intros r _.
    rewrite fst_bind_s, fst_lift. apply bind_ext. intros tys _.
    destruct tys as [|t' [|]]; try reflexivity.
    rewrite fst_bind_s, IHvf. reflexivity.
Qed.

Corollary validate_marshalled_s_proj be off buf t : fst (validate_marshalled_s be off buf t) = validate_marshalled be off buf t.
Proof. apply validate_s_proj. Qed.

(** ** the bound *)
(** A good counted result of validation at [off] in [buf] when a byte weighs [w] steps: a successful run made at
    most [w] steps per byte it consumed, a failing run at most [w] steps per byte between [off] and the end of
    the buffer and [w] more (written without subtraction). *)
Definition sgood (w off : N) (buf : list N) (x : counted N) : Prop :=
  match fst x with
  | Ok k => 1 <= k /\ off + k <= len buf /\ snd x <= w * k
  | Err => snd x + w * off <= w * len buf + w
  | _ => False
  end.
(** the same for one round of a loop (or one call) at position [p] of a region ending at [L], the step for the round
    (the call) included *)
Definition rgood (v p L : N) (x : counted N) : Prop :=
  match fst x with
  | Ok k => 1 <= k /\ p + k <= L /\ 1 + snd x <= v * k
  | Err => 1 + snd x + v * p <= v * L + v
  | _ => False
  end.

Lemma sgood_tick w off buf x : rgood w off (len buf) x -> sgood w off buf (tick x).
Proof. unfold sgood, rgood. rewrite fst_tick, snd_tick. destruct (fst x); auto. Qed.
Lemma sgood_rgood w p buf x : p <= len buf -> sgood w p buf x -> rgood (w + 1) p (len buf) x.
Proof. unfold sgood, rgood. intros Hp. destruct (fst x); auto; intros H; intuition lia. Qed.
Lemma rgood_err0 w off L : 1 <= w -> off <= L -> rgood w off L (Err, 0).
Proof. intros Hw Ho. unfold rgood. cbn [fst snd]. pose proof (N.mul_le_mono_l off L w Ho). lia. Qed.
Lemma rgood_leaf w off buf o : 1 <= w -> off <= len buf -> vgood off buf o -> rgood w off (len buf) (lift o).
Proof.
  intros Hw Ho. unfold rgood, lift. cbn [fst snd]. destruct o as [k| | | |]; cbn [vgood]; auto.
  - intros [H1 H2]. repeat split; try assumption. nia.
  - intros _. pose proof (N.mul_le_mono_l off (len buf) w Ho). lia.
Qed.

Lemma bind_s_lift_ok {A B} (a : A) (f : A -> counted B) : bind_s (lift (Ok a)) f = f a.
Proof. unfold bind_s, lift. cbn [fst snd]. destruct (f a) as [r s]. reflexivity. Qed.

Lemma step_weight_pos d : 1 <= step_weight d.
Proof. unfold step_weight. lia. Qed.
Lemma step_weight_succ d : d < MAX_DEPTH -> step_weight d = step_weight (d + 1) + 2.
Proof. unfold step_weight, MAX_DEPTH. lia. Qed.

Lemma elem_loop_s_good one v L offset n :
  (forall p, p <= L -> rgood v p L (one p)) ->
  forall lf used, offset + used <= L -> (N.to_nat (n - used) < lf)%nat ->
    let x := elem_loop_s one lf offset n used in
    match fst x with
    | Ok u => n <= u /\ used <= u /\ offset + u <= L /\ snd x + v * used <= v * u
    | Err => snd x + v * (offset + used) <= v * L + v
    | _ => False
    end.
Proof.
  intros Hone. induction lf as [|lf IH]; intros used Hu Hf; cbn [elem_loop_s]; destruct (N.ltb_spec used n) as [Hlt|Hge];
    try (cbn [fst snd]; lia).
  specialize (Hone _ Hu). unfold rgood in Hone. cbv zeta. rewrite fst_tick, snd_tick. unfold bind_s.
  destruct (one (offset + used)) as [r s]. cbn [fst snd] in *. destruct r as [k| | | |]; cbn [fst snd]; try exact Hone.
  destruct Hone as (Hk1 & Hk2 & Hs).
  specialize (IH (used + k) ltac:(lia) ltac:(lia)). cbv zeta in IH.
  destruct (elem_loop_s one lf offset n (used + k)) as [r2 s2]. cbn [fst snd] in *.
  destruct r2 as [u| | | |]; try exact IH; intuition lia.
Qed.

Lemma v_fields_s_good one v L offset : forall ts,
  (forall f p, In f ts -> p <= L -> rgood v p L (one f p)) ->
  forall used, offset + used <= L ->
    let x := v_fields_s one offset ts used in
    match fst x with
    | Ok u => used + len ts <= u /\ offset + u <= L /\ snd x + v * used <= v * u
    | Err => snd x + v * (offset + used) <= v * L + v
    | _ => False
    end.
Proof.
  induction ts as [|f r IH]; intros Hone used Hu; cbn [v_fields_s]; cbv zeta.
  - cbn [lift fst snd]. change (len (@nil ty)) with 0. lia.
  - pose proof (Hone f _ (or_introl eq_refl) Hu) as H1. unfold rgood in H1. rewrite fst_tick, snd_tick. unfold bind_s.
    destruct (one f (offset + used)) as [r1 s1]. cbn [fst snd] in *. destruct r1 as [k| | | |]; cbn [fst snd]; try exact H1.
    destruct H1 as (Hk1 & Hk2 & Hs).
    specialize (IH (fun f' p Hin => Hone f' p (or_intror Hin)) (used + k) ltac:(lia)). cbv zeta in IH.
    destruct (v_fields_s one offset r (used + k)) as [r2 s2]. cbn [fst snd] in *. rewrite len_cons.
    destruct r2 as [u| | | |]; try exact IH; intuition lia.
Qed.

Ltac sstep t x E :=
  let T := fresh "T" in
  pose proof t as T;
  match type of T with
  | ok_or_err ?o => destruct o as [x| | | |] eqn:E; try (exfalso; exact T); clear T;
                    [rewrite bind_s_lift_ok|apply rgood_err0; [assumption|lia]]
  end.

Theorem validate_s_good be : forall vf t d off buf,
  wf t = true -> off <= len buf -> (1 <= vf)%nat -> 65 <= N.of_nat vf + d ->
  sgood (step_weight d) off buf (validate_s vf be d off buf t).
Proof.
  induction vf as [|vf IHvf]; [intros; lia|].
  induction t as [b|e IHe|ts IHts|kt vt IHv|] using ty_ind'; intros d off buf Hwf Hoff Hvf1 Hvf;
    pose proof (step_weight_pos d) as Hw.
  - rewrite validate_s_base_eq. apply sgood_tick, rgood_leaf; try assumption. now apply validate_base_good.
  - rewrite validate_s_array_eq. apply sgood_tick. cbn [wf] in Hwf.
    destruct (N.leb_spec MAX_DEPTH d) as [|Hd]; [apply rgood_err0; assumption|].
    rewrite (step_weight_succ d Hd) in *. pose proof (step_weight_pos (d + 1)) as Hw'. set (w' := step_weight (d + 1)) in *.
    sstep (align_offset_total 4 buf off Hoff) p1 E1. apply align_offset_bound in E1.
    sstep (parse_u32_at_total be buf (off + p1) E1) n0 E2. apply parse_u32_at_bound in E2.
    sstep (check_array_len_total n0) n E3.
    destruct (N.ltb_spec (len buf - (off + p1 + 4)) n) as [|Hn1]; [apply rgood_err0; [assumption|lia]|].
    sstep (align_offset_total (align e) buf (off + p1 + 4) ltac:(lia)) p2 E4. apply align_offset_bound in E4.
    destruct (N.ltb_spec (len buf - (off + p1 + 4 + p2)) n) as [|Hn2]; [apply rgood_err0; [assumption|lia]|].
    destruct (bytes_always_valid e).
    + destruct (_ =? 0); [|apply rgood_err0; [assumption|lia]]. unfold rgood, lift. cbn [fst snd]. nia.
    + set (cl := firstnN (off + p1 + 4 + p2 + n) buf).
      assert (Lcl : len cl = off + p1 + 4 + p2 + n) by (apply len_firstnN_le; lia).
      assert (Hone : forall p, p <= len cl -> rgood (w' + 1) p (len cl) (validate_s (S vf) be (d + 1) p cl e)).
      { intros p Hp. apply sgood_rgood; [assumption|]. apply IHe; try assumption. lia. }
      pose proof (elem_loop_s_good _ (w' + 1) (len cl) (off + p1 + 4 + p2) n Hone (S (N.to_nat n)) 0 ltac:(lia) ltac:(lia)) as G.
      cbv zeta in G. unfold bind_s.
      destruct (elem_loop_s _ _ _ _ _) as [r s]. cbn [fst snd] in G |- *. unfold rgood.
      destruct r as [u| | | |]; cbn [fst snd lift]; try exact G.
      * assert (u = n) by lia. subst u. nia.
      * pose proof (N.mul_le_mono_l (off + n) (len buf) (w' + 2) ltac:(lia)). nia.
  - rewrite validate_s_struct_eq. apply sgood_tick. cbn [wf] in Hwf. apply andb_prop in Hwf. destruct Hwf as [Hne Hwf].
    destruct (N.leb_spec MAX_DEPTH d) as [|Hd]; [apply rgood_err0; assumption|].
    rewrite (step_weight_succ d Hd) in *. pose proof (step_weight_pos (d + 1)) as Hw'. set (w' := step_weight (d + 1)) in *.
    sstep (align_offset_total 8 buf off Hoff) p E1. apply align_offset_bound in E1.
    rewrite forallb_forall in Hwf. rewrite Forall_forall in IHts.
    assert (Hone : forall f q, In f ts -> q <= len buf -> rgood (w' + 1) q (len buf) (validate_s (S vf) be (d + 1) q buf f)).
    { intros f q Hin Hq. apply sgood_rgood; [assumption|]. apply IHts; auto. lia. }
    pose proof (v_fields_s_good _ (w' + 1) (len buf) (off + p) ts Hone 0 ltac:(lia)) as G. cbv zeta in G. unfold bind_s.
    destruct (v_fields_s _ _ ts 0) as [r s]. cbn [fst snd] in G |- *. unfold rgood.
    destruct r as [u| | | |]; cbn [fst snd lift]; try exact G.
    + destruct ts as [|t0 ts]; [discriminate|]. rewrite len_cons in G. nia.
    + pose proof (N.mul_le_mono_l off (len buf) (w' + 2) ltac:(lia)). nia.
  - rewrite validate_s_dict_eq. apply sgood_tick. cbn [wf] in Hwf.
    destruct (N.leb_spec MAX_DEPTH d) as [|Hd]; [apply rgood_err0; assumption|].
    rewrite (step_weight_succ d Hd) in *. pose proof (step_weight_pos (d + 1)) as Hw'. set (w' := step_weight (d + 1)) in *.
    sstep (align_offset_total 4 buf off Hoff) p1 E1. apply align_offset_bound in E1.
    sstep (parse_u32_at_total be buf (off + p1) E1) n0 E2. apply parse_u32_at_bound in E2.
    sstep (check_array_len_total n0) n E3.
    destruct (N.ltb_spec (len buf - (off + p1 + 4)) n) as [|Hn1]; [apply rgood_err0; [assumption|lia]|].
    sstep (align_offset_total 8 buf (off + p1 + 4) ltac:(lia)) p2 E4. apply align_offset_bound in E4.
    destruct (N.ltb_spec (len buf - (off + p1 + 4 + p2)) n) as [|Hn2]; [apply rgood_err0; [assumption|lia]|]. cbv zeta.
    set (cl := firstnN (off + p1 + 4 + p2 + n) buf).
    assert (Lcl : len cl = off + p1 + 4 + p2 + n) by (apply len_firstnN_le; lia).
    set (one := fun p => dos ep <- lift (align_offset 8 cl p); dos kb <- tick (lift (validate_base be (p + ep) cl kt));
                         dos vb <- validate_s (S vf) be (d + 1) (p + ep + kb) cl vt; lift (Ok (ep + kb + vb))).
    assert (Hone : forall p, p <= len cl -> rgood (w' + 1) p (len cl) (one p)).
    { intros p Hp. unfold one.
      assert (Hv : 1 <= w' + 1) by lia.
      sstep (align_offset_total 8 cl p Hp) ep Ea. apply align_offset_bound in Ea.
      pose proof (validate_base_good be (p + ep) cl kt Ea) as Tk. unfold bind_s at 1. rewrite fst_tick, snd_tick, fst_lift, snd_lift.
      destruct (validate_base be (p + ep) cl kt) as [kb| | | |]; cbn [vgood] in Tk; try (exfalso; exact Tk).
      2:{ unfold rgood. cbn [fst snd]. pose proof (N.mul_le_mono_l p (len cl) w' Hp). nia. }
      destruct Tk as [Hk1 Hk2].
      pose proof (IHv (d + 1) (p + ep + kb) cl Hwf ltac:(lia) Hvf1 ltac:(lia)) as Tv. fold w' in Tv. unfold sgood in Tv.
      unfold bind_s. destruct (validate_s (S vf) be (d + 1) (p + ep + kb) cl vt) as [r s]. cbn [fst snd] in Tv |- *. unfold rgood.
      destruct r as [vb| | | |]; cbn [fst snd lift]; try exact Tv.
      - nia.
      - pose proof (N.mul_le_mono_l (p + 1) (p + ep + kb) w' ltac:(lia)). nia. }
    pose proof (elem_loop_s_good one (w' + 1) (len cl) (off + p1 + 4 + p2) n Hone (S (N.to_nat n)) 0 ltac:(lia) ltac:(lia)) as G.
    cbv zeta in G. unfold bind_s.
    destruct (elem_loop_s _ _ _ _ _) as [r s]. cbn [fst snd] in G |- *. unfold rgood.
    destruct r as [u| | | |]; cbn [fst snd lift]; try exact G.
    + assert (u = n) by lia. subst u. nia.
    + pose proof (N.mul_le_mono_l (off + n) (len buf) (w' + 2) ltac:(lia)). nia.
  - rewrite validate_s_variant_eq. apply sgood_tick.
    destruct (N.leb_spec MAX_DEPTH d) as [|Hd]; [apply rgood_err0; assumption|].
    rewrite (step_weight_succ d Hd) in *. pose proof (step_weight_pos (d + 1)) as Hw'. set (w' := step_weight (d + 1)) in *.
    sstep (unmarshal_signature_total buf off Hoff) r Es. destruct r as [k s]. cbn [fst snd].
    apply unmarshal_signature_bound in Es.
    sstep (parse_description_total s) tys Ep.
    destruct tys as [|t' [|]]; try (apply rgood_err0; [assumption|lia]).
    destruct (parse_single _ _ Ep) as [_ Htok]. unfold MAX_DEPTH in Hd.
    pose proof (IHvf t' (d + 1) (off + k) buf (type_ok_wf _ Htok) ltac:(lia) ltac:(lia) ltac:(lia)) as Tv. fold w' in Tv.
    unfold sgood in Tv. unfold bind_s.
    destruct (validate_s vf be (d + 1) (off + k) buf t') as [r2 s2]. cbn [fst snd] in Tv |- *. unfold rgood.
    destruct r2 as [pb| | | |]; cbn [fst snd lift]; try exact Tv.
    + nia.
    + pose proof (N.mul_le_mono_l off (len buf) 2 Hoff). nia.
Qed.

(** the bound in closed form, for every outcome: [step_weight d] steps per byte between the start offset and the end
    of the buffer, plus [step_weight d]; a successful run: [step_weight d] steps per byte consumed *)
Corollary validate_s_bound be vf t d off buf :
  wf t = true -> off <= len buf -> (1 <= vf)%nat -> 65 <= N.of_nat vf + d ->
  let x := validate_s vf be d off buf t in
  snd x <= step_weight d * (len buf - off) + step_weight d
  /\ (forall n, fst x = Ok n -> snd x <= step_weight d * n /\ n <= len buf - off).
Proof.
  intros Hw Ho H1 H2 x. pose proof (validate_s_good be vf t d off buf Hw Ho H1 H2) as G. fold x in G. unfold sgood in G.
  assert (E : step_weight d * len buf = step_weight d * (len buf - off) + step_weight d * off) by nia.
  split.
  - destruct (fst x) as [k| | | |]; try (exfalso; exact G).
    + destruct G as (Hk1 & Hk2 & Hs). pose proof (N.mul_le_mono_l k (len buf - off) (step_weight d) ltac:(lia)). lia.
    + lia.
  - intros n En. rewrite En in G. intuition lia.
Qed.

(** the entry point validate_marshalled: depth 0, the fuel [validate_marshalled] uses; [step_weight 0 = 129] *)
Theorem validate_marshalled_s_bound be off buf t : wf t = true -> off <= len buf ->
  snd (validate_marshalled_s be off buf t) <= 129 * (len buf - off) + 129
  /\ (forall n, fst (validate_marshalled_s be off buf t) = Ok n ->
        snd (validate_marshalled_s be off buf t) <= 129 * n /\ n <= len buf - off).
Proof.
  intros Hw Ho. unfold validate_marshalled_s.
  exact (validate_s_bound be 66 t 0 off buf Hw Ho ltac:(lia) ltac:(cbn; lia)).
Qed.
