(** C04, step counting: the instrumented validator [validate_s] (Wire/Steps.v)
    - projects to the uninstrumented model [validate] (so the correspondence check of [validate] ties it to the code),
    - makes at most [step_weight d * (bytes from the start offset + 1)] steps on EVERY input, failing runs included,
      and at most [step_weight d * bytes consumed] steps when it succeeds. *)
From RB Require Import Base.Prelude Sig.Types Sig.Parser Sig.ParserProofs Sig.Validator Sig.ValidatorProofs
  Wire.Bytes Wire.Align Wire.Text Wire.Value Wire.SpecEnc Wire.Marshal Wire.MarshalProofs Wire.Decode Wire.Unmarshal.
From RB Require Import Wire.DecodeSoundLemmas Wire.DecodeTotal Wire.Steps.

(** ** one equation per type constructor *)
Section FieldLoopS.
  Variable one : ty -> N -> counted N.
  Variable offset : N.
  (* the `fields` loop of the struct arm of [validate_s] *)
  Fixpoint v_fields_s (l : list ty) (used : N) : counted N :=
    match l with
    | [] => lift (Ok used)
    | f :: r => tick (dos k <- one f (offset + used); v_fields_s r (used + k))
    end.
End FieldLoopS.

Lemma validate_s_0 be d off buf t : validate_s 0 be d off buf t = (OutOfFuel, 0). Proof. reflexivity. Qed.
Lemma validate_s_base_eq vf be d off buf b : validate_s (S vf) be d off buf (TBase b) = tick (lift (validate_base be off buf b)).
Proof. reflexivity. Qed.
Lemma validate_s_array_eq vf be d off buf e : validate_s (S vf) be d off buf (TArray e) =
  tick (
  if MAX_DEPTH <=? d then lift Err else
  dos padding <- lift (align_offset 4 buf off);
  dos n <- lift (parse_u32_at be buf (off + padding));
  dos n <- lift (check_array_len n);
  if len buf - (off + padding + 4) <? n then lift Err else
  dos fp <- lift (align_offset (align e) buf (off + padding + 4));
  if len buf - (off + padding + 4 + fp) <? n then lift Err else
  if bytes_always_valid e then
    lift (if n mod align e =? 0 then Ok (padding + 4 + fp + n) else Err)
  else
    dos used <- elem_loop_s (fun p => validate_s (S vf) be (d + 1) p (firstnN (off + padding + 4 + fp + n) buf) e)
                         (S (N.to_nat n)) (off + padding + 4 + fp) n 0;
    lift (Ok (padding + 4 + fp + n))).
Proof. reflexivity. Qed.
Lemma validate_s_dict_eq vf be d off buf k v : validate_s (S vf) be d off buf (TDict k v) =
  tick (
  if MAX_DEPTH <=? d then lift Err else
  dos padding <- lift (align_offset 4 buf off);
  dos n <- lift (parse_u32_at be buf (off + padding));
  dos n <- lift (check_array_len n);
  if len buf - (off + padding + 4) <? n then lift Err else
  dos bp <- lift (align_offset 8 buf (off + padding + 4));
  if len buf - (off + padding + 4 + bp) <? n then lift Err else
  let clipped := firstnN (off + padding + 4 + bp + n) buf in
  dos used <- elem_loop_s (fun p =>
                          dos ep <- lift (align_offset 8 clipped p);
                          dos kb <- tick (lift (validate_base be (p + ep) clipped k));
                          dos vb <- validate_s (S vf) be (d + 1) (p + ep + kb) clipped v;
                          lift (Ok (ep + kb + vb)))
                       (S (N.to_nat n)) (off + padding + 4 + bp) n 0;
  lift (Ok (padding + bp + 4 + used))).
Proof. reflexivity. Qed.
Lemma validate_s_struct_eq vf be d off buf ts : validate_s (S vf) be d off buf (TStruct ts) =
  tick (
  if MAX_DEPTH <=? d then lift Err else
  dos padding <- lift (align_offset 8 buf off);
  dos used <- v_fields_s (fun f p => validate_s (S vf) be (d + 1) p buf f) (off + padding) ts 0;
  lift (Ok (padding + used))).
Proof. reflexivity. Qed.
Lemma validate_s_variant_eq vf be d off buf : validate_s (S vf) be d off buf TVariant =
  tick (
  if MAX_DEPTH <=? d then lift Err else
  dos r <- lift (unmarshal_signature buf off);
  dos tys <- lift (parse_description (snd r));
  match tys with
  | [t'] => dos pb <- validate_s vf be (d + 1) (off + fst r) buf t'; lift (Ok (fst r + pb))
  | _ => lift Err
  end).
Proof.
  cbn [validate_s]. destruct (MAX_DEPTH <=? d); [reflexivity|].
  destruct (unmarshal_signature buf off) as [[sb sg]| | | |]; reflexivity.
Qed.

(** ** projection *)
Lemma fst_tick {A} (x : counted A) : fst (tick x) = fst x. Proof. reflexivity. Qed.
Lemma snd_tick {A} (x : counted A) : snd (tick x) = 1 + snd x. Proof. reflexivity. Qed.
Lemma fst_lift {A} (o : outcome A) : fst (lift o) = o. Proof. reflexivity. Qed.
Lemma snd_lift {A} (o : outcome A) : snd (lift o) = 0. Proof. reflexivity. Qed.
Lemma fst_bind_s {A B} (x : counted A) (f : A -> counted B) : fst (bind_s x f) = bind (fst x) (fun a => fst (f a)).
Proof. unfold bind_s. destruct (fst x); reflexivity. Qed.
Lemma bind_ext {A B} (o : outcome A) (f g : A -> outcome B) : (forall a, o = Ok a -> f a = g a) -> bind o f = bind o g.
Proof. intros H. destruct o; cbn [bind]; auto. Qed.
Lemma fst_if {A B} (c : bool) (x y : A * B) : fst (if c then x else y) = if c then fst x else fst y.
Proof. now destruct c. Qed.

Lemma elem_loop_s_proj one_s one : (forall p, fst (one_s p) = one p) ->
  forall lf offset n used, fst (elem_loop_s one_s lf offset n used) = elem_loop one lf offset n used.
Proof.
  intros H. induction lf as [|lf IH]; intros offset n used; cbn [elem_loop_s elem_loop]; destruct (used <? n); try reflexivity.
  rewrite fst_tick, fst_bind_s, H. apply bind_ext. intros k _. apply IH.
Qed.
Lemma v_fields_s_proj one_s one offset : forall ts, (forall f p, In f ts -> fst (one_s f p) = one f p) ->
  forall used, fst (v_fields_s one_s offset ts used) = v_fields one offset ts used.
Proof.
  induction ts as [|f r IH]; intros H used; cbn [v_fields_s v_fields]; [reflexivity|].
  rewrite fst_tick, fst_bind_s, (H f _ (or_introl eq_refl)). apply bind_ext. intros k _. apply IH.
  intros f' p Hin. apply H. now right.
Qed.

Theorem validate_s_proj be : forall vf t d off buf, fst (validate_s vf be d off buf t) = validate vf be d off buf t.
Proof.
  induction vf as [|vf IHvf]; [reflexivity|].
  induction t as [b|e IHe|ts IHts|kt vt IHv|] using ty_ind'; intros d off buf.
  - reflexivity.
  - rewrite validate_s_array_eq, validate_array_eq, fst_tick. destruct (MAX_DEPTH <=? d); [reflexivity|].
    rewrite fst_bind_s, fst_lift. apply bind_ext. intros p1 _.
    rewrite fst_bind_s, fst_lift. apply bind_ext. intros n0 _.
    rewrite fst_bind_s, fst_lift. apply bind_ext. intros n _.
    destruct (_ <? n); [reflexivity|].
    rewrite fst_bind_s, fst_lift. apply bind_ext. intros p2 _.
    destruct (_ <? n); [reflexivity|]. destruct (bytes_always_valid e); [reflexivity|].
    rewrite fst_bind_s. rewrite (elem_loop_s_proj _ (fun p => validate (S vf) be (d + 1) p (firstnN (off + p1 + 4 + p2 + n) buf) e)).
    + reflexivity.
    + intros p. apply IHe.
  - rewrite validate_s_struct_eq, validate_struct_eq, fst_tick. destruct (MAX_DEPTH <=? d); [reflexivity|].
    rewrite fst_bind_s, fst_lift. apply bind_ext. intros p1 _.
    rewrite fst_bind_s. rewrite (v_fields_s_proj _ (fun f p => validate (S vf) be (d + 1) p buf f)).
    + reflexivity.
    + rewrite Forall_forall in IHts. intros f p Hin. now apply IHts.
  - rewrite validate_s_dict_eq, validate_dict_eq, fst_tick. destruct (MAX_DEPTH <=? d); [reflexivity|].
    rewrite fst_bind_s, fst_lift. apply bind_ext. intros p1 _.
    rewrite fst_bind_s, fst_lift. apply bind_ext. intros n0 _.
    rewrite fst_bind_s, fst_lift. apply bind_ext. intros n _.
    destruct (_ <? n); [reflexivity|].
    rewrite fst_bind_s, fst_lift. apply bind_ext. intros p2 _.
    destruct (_ <? n); [reflexivity|]. cbv zeta.
    rewrite fst_bind_s. erewrite elem_loop_s_proj.
    + reflexivity.
    + intros p. cbv beta. rewrite fst_bind_s, fst_lift. apply bind_ext. intros ep _.
      rewrite fst_bind_s, fst_tick, fst_lift. apply bind_ext. intros kb _.
      rewrite fst_bind_s, IHv. reflexivity.
  - rewrite validate_s_variant_eq, validate_variant_eq, fst_tick. destruct (MAX_DEPTH <=? d); [reflexivity|].
    rewrite fst_bind_s, fst_lift. apply bind_ext. intros r _.
    rewrite fst_bind_s, fst_lift. apply bind_ext. intros tys _.
    destruct tys as [|t' [|]]; try reflexivity.
    rewrite fst_bind_s, IHvf. reflexivity.
Qed.

Corollary validate_marshalled_s_proj be off buf t : fst (validate_marshalled_s be off buf t) = validate_marshalled be off buf t.
Proof. apply validate_s_proj. Qed.
