(** Examples for Wire/Limits*.v and Wire/ParserTotal.v: the hypotheses of the C04/C18 theorems are satisfiable and the
    models compute on the inputs the checks use (nesting bombs, length bombs, boundary announcements). *)
From RB Require Import Base.Prelude Sig.Types Sig.Parser Sig.ParserProofs Sig.Validator Sig.ValidatorProofs
  Wire.Bytes Wire.Align Wire.Text Wire.Value Wire.SpecEnc Wire.Marshal Wire.Decode Wire.Unmarshal Wire.HasSig Wire.Body
  Wire.Relabel Wire.MarshalProofs Wire.DecodeSoundLemmas Wire.Derive Wire.Enums Wire.EnumsTotal Wire.Limits Wire.LimitsProofs Wire.LimitsBounds Wire.LimitsSend Wire.LimitsKnown Wire.ParserTotal.
From RB Require Conn.Recv Wire.LimitsRecv Msg.Header Wire.LimitsEntry.

(* n variants in each other around a variant holding the byte 7: n+1 containers *)
Definition nested_variants (n : nat) : list N := concat (repeat [1; 118; 0] n) ++ [1; 121; 0; 7].

Example validate_64_levels : validate_marshalled false 0 (nested_variants 63) TVariant = Ok 193.
Proof. vm_compute. reflexivity. Qed.
Example validate_65_levels : validate_marshalled false 0 (nested_variants 64) TVariant = Err.
Proof. vm_compute. reflexivity. Qed.
Example validate_1000_levels : validate_marshalled false 0 (nested_variants 1000) TVariant = Err.
Proof. vm_compute. reflexivity. Qed.
Example unmarshal_p_65_levels :
  unmarshal_p 66 false TVariant {| ubuf := nested_variants 64; uoff := 0; unfds := 0; udepth := 0 |} = Err.
Proof. vm_compute. reflexivity. Qed.
Example unmarshal_p_64_levels_depth :
  match unmarshal_p 66 false TVariant {| ubuf := nested_variants 63; uoff := 0; unfds := 0; udepth := 0 |} with
  | Ok (v, c) => vdepth v = 64 /\ udepth c = 0 /\ uoff c = 193
  | _ => False
  end.
Proof. vm_compute. auto. Qed.

(* a length field of 2^26 + 1 (little endian 01 00 00 04), whatever follows *)
Example over_limit_le : over_limit false [1; 0; 0; 4] 0.
Proof. split; vm_compute; [discriminate|reflexivity]. Qed.
Example over_limit_be_offset : over_limit true [9; 0; 0; 0; 255; 255; 255; 255; 1; 2; 3] 1.
Proof. split; vm_compute; [discriminate|reflexivity]. Qed.
Example length_bomb_validate : validate_marshalled false 0 ([1; 0; 0; 4] ++ [7; 7; 7]) (TArray (TBase BUint64)) = Err.
Proof. apply validate_array_over, over_limit_prefix, over_limit_le. Qed.
Example at_limit_is_not_over : ~ over_limit false [0; 0; 0; 4] 0.
Proof. intros [_ H]. vm_compute in H. discriminate. Qed.
(* ... exactly 2^26 is refused only because the bytes are not there *)
Example at_limit_short : validate_marshalled false 0 [0; 0; 0; 4; 1] (TArray (TBase BByte)) = Err.
Proof. vm_compute. reflexivity. Qed.

(* send side: 64 nested variants are marshalled by the Param API, 65 are refused; the typed API marshals 100 nested structs *)
Fixpoint nest_variant (n : nat) (v : val) : val :=
  match n with O => v | S k => let x := nest_variant k v in VVariant (ty_of x) x end.
Example marshal_p_64 : snd (marshal_p false 0 (nest_variant 64 (VBase BByte 7)) {| mbuf := []; mfds := 0 |}) = true.
Proof. vm_compute. reflexivity. Qed.
Example marshal_p_65 : snd (marshal_p false 0 (nest_variant 65 (VBase BByte 7)) {| mbuf := []; mfds := 0 |}) = false.
Proof. vm_compute. reflexivity. Qed.
Example vdepth_65 : vdepth (nest_variant 65 (VBase BByte 7)) = 65.
Proof. vm_compute. reflexivity. Qed.
Example marshal_t_100_structs : snd (marshal_t false (nest_struct 100 (VBase BByte 7)) {| mbuf := []; mfds := 0 |}) = true
  /\ vdepth (nest_struct 100 (VBase BByte 7)) = 100.
Proof. split; [apply marshal_t_counts_no_nesting|vm_compute; reflexivity]. Qed.

(* message-level checks at the boundary *)
Example message_at_limit : marshal_message_len 128 (2 ^ 27 - 128) = Ok (2 ^ 27 - 128).
Proof. vm_compute. reflexivity. Qed.
Example message_over_limit : marshal_message_len 128 (2 ^ 27 - 127) = Err.
Proof. vm_compute. reflexivity. Qed.
Example header_fields_over : marshal_header_fields_len (2 ^ 26 + 1) = Err.
Proof. vm_compute. reflexivity. Qed.

(* receive path: 'l', call, flags 0, version 1, body_len, serial 1, header-field-array length *)
Definition first16 (body_len4 hfl4 : list N) : list N := [108; 1; 0; 1] ++ body_len4 ++ [1; 0; 0; 0] ++ hfl4.
Example announce_small : Recv.needed_of (first16 [8; 0; 0; 0] [5; 0; 0; 0]) = Recv.ROk 32.
Proof. vm_compute. reflexivity. Qed.
Example announced_small : announced 5 8 = 32.
Proof. vm_compute. reflexivity. Qed.
Example announce_fields_over : Recv.needed_of (first16 [0; 0; 0; 0] [1; 0; 0; 4]) = Recv.RErr Recv.EOther.
Proof. vm_compute. reflexivity. Qed.
Example announce_total_at_limit : Recv.needed_of (first16 [240; 255; 255; 7] [0; 0; 0; 0]) = Recv.ROk (2 ^ 27).
Proof. vm_compute. reflexivity. Qed.
Example announce_total_over : Recv.needed_of (first16 [241; 255; 255; 7] [0; 0; 0; 0]) = Recv.RErr Recv.EOther.
Proof. vm_compute. reflexivity. Qed.
Example announce_4gib : Recv.needed_of (first16 [255; 255; 255; 255] [255; 255; 255; 255]) = Recv.RErr Recv.EOther.
Proof. vm_compute. reflexivity. Qed.

(* body parser: a valid signature "yv", requested types that do not fit, and bytes that are not an encoding *)
Definition body_yv : body := {| bbe := false; bsig := [121; 118]; bbuf := [5; 1; 121; 0; 7]; bfds := 0 |}.
Example body_yv_ok : parser_ok (new_parser body_yv).
Proof.
  apply parser_ok_new. exists [TBase BByte; TVariant]. repeat split; vm_compute; try reflexivity. discriminate.
Qed.
Example get_wrong_type :
  get (new_parser body_yv) (EStruct [EBase BString; EArray (EBase BUint64)]) = Ok (new_parser body_yv, GWrongSig).
Proof. vm_compute. reflexivity. Qed.
Example get_right_type :
  match get (new_parser body_yv) (EBase BByte) with
  | Ok (p, GVal v) => v = VBase BByte 5 /\ psig_idx p = 1 /\ pbuf_idx p = 1
  | _ => False
  end.
Proof. vm_compute. auto. Qed.
Example get_n_too_many :
  get_n (new_parser body_yv) [EBase BByte; EVar (EBase BByte); EBase BByte] = Ok (new_parser body_yv, None).
Proof. vm_compute. reflexivity. Qed.
Example get_param_garbage :
  get_param (new_parser {| bbe := true; bsig := [97; 123; 115; 118; 125]; bbuf := [255; 255; 255; 255; 0]; bfds := 0 |})
  = Ok (new_parser {| bbe := true; bsig := [97; 123; 115; 118; 125]; bbuf := [255; 255; 255; 255; 0]; bfds := 0 |}, GErr).
Proof. vm_compute. reflexivity. Qed.

(* nodes against bytes: an array of three bytes (7 bytes on the wire) has 4 nodes *)
Example count_array :
  match unmarshal_p 66 false (TArray (TBase BByte)) {| ubuf := [3; 0; 0; 0; 1; 2; 3]; uoff := 0; unfds := 0; udepth := 0 |} with
  | Ok (v, c) => vcount v = 4 /\ uoff c = 7
  | _ => False
  end.
Proof. vm_compute. auto. Qed.

(* every array inside a value: an array of two byte arrays, marshalled by both APIs; the predicate computes *)
Definition aay : val := VArray (TArray (TBase BByte)) [VArray (TBase BByte) [VBase BByte 1; VBase BByte 2]; VArray (TBase BByte) []].
Example aay_typed : typed aay /\ strings_small aay = true.
Proof. split; [exists (TArray (TArray (TBase BByte))); reflexivity|reflexivity]. Qed.
Example aay_marshals : snd (marshal_t false aay {| mbuf := [9]; mfds := 0 |}) = true
  /\ snd (marshal_p false 0 aay {| mbuf := [9]; mfds := 0 |}) = true
  /\ arrays_within false 1 aay = true.
Proof. vm_compute. auto. Qed.

(* C18_recv_reserve: its hypotheses hold together - 16 bytes buffered that announce a 32 byte message, the peer's next 5 bytes
   queued - and one refill grows the buffer to exactly the announced 32 bytes *)
Definition st16 : Recv.rstate := {| Recv.buf := first16 [8; 0; 0; 0] [5; 0; 0; 0]; Recv.filled := 16; Recv.fds_in := [] |}.
Example recv_reserve_hyps :
  Recv.filled st16 <= len (Recv.buf st16) /\ len (Recv.buf st16) <= MAX_MESSAGE /\ RecvLists.segs_ok [([1; 2; 3; 4; 5], [])]
  /\ Recv.bytes_needed st16 = Recv.ROk 32.
Proof. repeat split; try (vm_compute; (discriminate || reflexivity)). constructor; [discriminate|constructor]. Qed.
Example recv_reserve_run :
  match Recv.refill_buffer st16 [([1; 2; 3; 4; 5], [])] 32 (Recv.KDeliver 100) with
  | (Recv.ROk _, st', q') => len (Recv.buf st') = 32 /\ Recv.filled st' = 21 /\ q' = []
  | _ => False
  end.
Proof. vm_compute. auto. Qed.

(* the send clause: a value of a Rust type three containers deep is outside the known class; the witness inside it *)
Example vfits_small : vfits (EArray (EStruct [EBase BByte; EVar (EBase BString)])) 
                        (VArray (TStruct [TBase BByte; TVariant]) [VStruct [VBase BByte 1; VVariant (TBase BString) (VText BString [97])]]) = true
  /\ edepth (EArray (EStruct [EBase BByte; EVar (EBase BString)])) = 3.
Proof. split; vm_compute; reflexivity. Qed.
Example drec_is_the_harness_value : vdepth (drec 2) = 5 /\ ty_of (drec 2) = TVariant.
Proof. split; vm_compute; reflexivity. Qed.

(* enum decoders: a derived enum with the cases A(u8), B { x: String, y: u32 }, D(Vec<(u8, String)>) satisfies the hypothesis
   of C04_total_enums and decodes / refuses as computed *)
Definition de1_cases : list ecase :=
  [CSingle (RBase BByte); CFields true [RBase BString; RBase BUint32]; CSingle (RArray (RDerived [RBase BByte; RBase BString]))].
Example de1_ok : Forall (fun k => rty_ok (case_rty k)) de1_cases.
Proof. repeat constructor; vm_compute; lia. Qed.
Example de1_decodes :
  match derive_enum_unmarshal 66 false de1_cases {| ubuf := [1; 121; 0; 7]; uoff := 0; unfds := 0; udepth := 0 |} with
  | Ok (ECase 0 (VBase BByte 7), c) => uoff c = 4
  | _ => False
  end.
Proof. vm_compute. reflexivity. Qed.
Example de1_unknown_case : derive_enum_unmarshal 66 false de1_cases {| ubuf := [1; 116; 0; 0; 0; 0; 0; 0; 1; 0; 0; 0; 0; 0; 0; 0]; uoff := 0; unfds := 0; udepth := 0 |} = Err.
Proof. vm_compute. reflexivity. Qed.

(* the typed push of a params::Variant: 64 levels in all are accepted, 65 refused - exactly like the Param entry point *)
Example variant_entry_64 :
  snd (LimitsEntry.marshal_variant_param false (ty_of (nest_variant 63 (VBase BByte 7))) (nest_variant 63 (VBase BByte 7)) {| mbuf := []; mfds := 0 |}) = true.
Proof. vm_compute. reflexivity. Qed.
Example variant_entry_65 :
  snd (LimitsEntry.marshal_variant_param false (ty_of (nest_variant 64 (VBase BByte 7))) (nest_variant 64 (VBase BByte 7)) {| mbuf := []; mfds := 0 |}) = false.
Proof. vm_compute. reflexivity. Qed.

(* the message limit over the header model: a method call with a one byte body is marshalled, the header padded to 8 *)
Definition call1 : Header.msg :=
  Header.with_body (Header.build_call false [77] (Some [47; 97]) None None) [7] [121] 0.
Example call1_marshals :
  match Header.marshal_msg call1 5, Header.marshal_header call1 5 with
  | Ok hb, Ok h => len hb = len (pad_to 8 h) /\ len hb mod 8 = 0 /\ len hb + 1 <= MAX_MESSAGE
  | _, _ => False
  end.
Proof. vm_compute. repeat split; discriminate. Qed.
