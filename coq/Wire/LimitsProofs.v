(** C18, decoders: a length field above 2^26 and a container entered at nesting level 64 end every
    decoder with an error at that point - whatever bytes follow, whatever the element type. *)
From RB Require Import Base.Prelude Sig.Types Sig.Parser Sig.ParserProofs Sig.Validator Sig.ValidatorProofs Sig.Iter
  Wire.Bytes Wire.Align Wire.Text Wire.Value Wire.SpecEnc Wire.Marshal Wire.MarshalProofs Wire.Decode Wire.Unmarshal
  Wire.DecodeSoundLemmas Wire.DecodeLemmas Wire.DecodeTotal Wire.Limits.

Lemma bind_err_r {A B} (o : outcome A) (f : A -> outcome B) :
  ok_or_err o -> (forall a, o = Ok a -> f a = Err) -> bind o f = Err.
Proof. destruct o as [a| | | |]; cbn; intros H Hf; try contradiction; auto. Qed.

(** ** the length field: reading it *)

(* align_offset at [off] inside the buffer: the padding it reports is the specification's, or it fails *)
Lemma align_offset_cases a buf off : 0 < a -> off <= len buf ->
  align_offset a buf off = Ok (padlen a off) \/ align_offset a buf off = Err.
Proof.
  intros Ha Ho. unfold align_offset. destruct (N.ltb_spec (len buf) off) as [|_]; [lia|].
  rewrite pad_amount_padlen by exact Ha. destruct (_ <? _); [now right|]. destruct (forallb _ _); [now left|now right].
Qed.

(* the u32 at the aligned length position exceeds the array limit *)
Definition over_limit (be : bool) (buf : list N) (off : N) : Prop :=
  len_pos off + 4 <= len buf /\ MAX_ARRAY < dec be (slice buf (len_pos off) 4).

Lemma parse_len_over be buf off : over_limit be buf off ->
  (do n <- parse_u32_at be buf (len_pos off); check_array_len n) = Err.
Proof.
  intros [Hl Hn]. unfold parse_u32_at. destruct (N.ltb_spec (len buf) (len_pos off)) as [|_]; [lia|].
  destruct (N.ltb_spec (len buf - len_pos off) 4) as [|_]; [lia|]. cbn [bind]. unfold check_array_len.
  destruct (N.ltb_spec MAX_ARRAY (dec be (slice buf (len_pos off) 4))) as [_|]; [reflexivity|lia].
Qed.

Lemma over_limit_off be buf off : over_limit be buf off -> off <= len buf.
Proof. intros [Hl _]. unfold len_pos in Hl. lia. Qed.

(* the common head of the array and dict arms of validate *)
Lemma validate_head_over be buf off (k : N -> N -> outcome N) : over_limit be buf off ->
  (do padding <- align_offset 4 buf off;
   do n <- parse_u32_at be buf (off + padding);
   do n <- check_array_len n; k padding n) = Err.
Proof.
  intros Ho. pose proof (over_limit_off _ _ _ Ho) as Hoff.
  destruct (align_offset_cases 4 buf off ltac:(lia) Hoff) as [-> | ->]; [|reflexivity]. cbn [bind].
  pose proof (parse_len_over be buf off Ho) as H. fold (len_pos off).
  destruct (parse_u32_at be buf (len_pos off)) as [n| | | |]; cbn [bind] in *; try discriminate; try reflexivity.
  destruct (check_array_len n); cbn [bind] in *; try discriminate; reflexivity.
Qed.

Theorem validate_array_over be vf d off buf e : over_limit be buf off ->
  validate (S vf) be d off buf (TArray e) = Err.
Proof.
  intros Ho. rewrite validate_S_array. destruct (MAX_DEPTH <=? d); [reflexivity|].
  exact (validate_head_over be buf off _ Ho).
Qed.
Theorem validate_dict_over be vf d off buf k v : over_limit be buf off ->
  validate (S vf) be d off buf (TDict k v) = Err.
Proof.
  intros Ho. rewrite validate_S_dict. destruct (MAX_DEPTH <=? d); [reflexivity|].
  exact (validate_head_over be buf off _ Ho).
Qed.

(** the cursor version: u_read_fixed 4 at [c] *)
Lemma u_align_cases a c : 0 < a -> uoff c <= len (ubuf c) ->
  u_align a c = Ok (set_off c (uoff c + padlen a (uoff c))) \/ u_align a c = Err.
Proof.
  intros Ha Ho. unfold u_align. destruct (align_offset_cases a (ubuf c) (uoff c) Ha Ho) as [-> | ->]; [|now right].
  cbn [bind]. destruct (_ <? _); [now right|now left].
Qed.

Lemma u_read_len_over be c : over_limit be (ubuf c) (uoff c) ->
  match u_read_fixed be 4 c with Ok r => check_array_len (fst r) = Err | Err => True | _ => False end.
Proof.
  intros Ho. pose proof (over_limit_off _ _ _ Ho) as Hoff. destruct Ho as [Hl Hn]. unfold u_read_fixed.
  change (Nat.eqb 4 1) with false. cbv iota. change (N.of_nat 4) with 4.
  destruct (u_align_cases 4 c ltac:(lia) Hoff) as [-> | ->]; [|exact I]. cbn [bind].
  unfold remainder_len. cbn [set_off ubuf uoff]. fold (len_pos (uoff c)).
  destruct (N.ltb_spec (len (ubuf c) - len_pos (uoff c)) 4) as [|_]; [lia|]. cbn [fst].
  unfold check_array_len. destruct (N.ltb_spec MAX_ARRAY (dec be (slice (ubuf c) (len_pos (uoff c)) 4))) as [_|]; [reflexivity|lia].
Qed.
Ltac read_len_over H :=
  let G := fresh "G" in
  pose proof H as G;
  match type of G with match ?o with _ => _ end =>
    destruct o as [?r| | | |]; cbn [bind]; try reflexivity; try contradiction; rewrite G; reflexivity
  end.

Lemma u_enter_inv c c0 : u_enter c = Ok c0 ->
  udepth c < MAX_DEPTH /\ c0 = {| ubuf := ubuf c; uoff := uoff c; unfds := unfds c; udepth := udepth c + 1 |}.
Proof. unfold u_enter. destruct (N.leb_spec MAX_DEPTH (udepth c)); [discriminate|]. intros E. injection E as <-. auto. Qed.
Lemma u_enter_same c c0 : u_enter c = Ok c0 -> ubuf c0 = ubuf c /\ uoff c0 = uoff c.
Proof. unfold u_enter. destruct (_ <=? _); [discriminate|]. intros E. injection E as <-. auto. Qed.

Theorem unmarshal_p_array_over be vf e c : over_limit be (ubuf c) (uoff c) ->
  unmarshal_p (S vf) be (TArray e) c = Err.
Proof.
  intros Ho. rewrite unmarshal_p_S_array. destruct (u_enter c) as [c0| | | |] eqn:E; cbn [bind]; try reflexivity;
    try (unfold u_enter in E; destruct (_ <=? _); discriminate).
  destruct (u_enter_same _ _ E) as [Eb Eo]. unfold leave_res.
  rewrite <- Eb, <- Eo in Ho. read_len_over (u_read_len_over be c0 Ho).
Qed.
Theorem unmarshal_p_dict_over be vf k v c : over_limit be (ubuf c) (uoff c) ->
  unmarshal_p (S vf) be (TDict k v) c = Err.
Proof.
  intros Ho. rewrite unmarshal_p_S_dict. destruct (u_enter c) as [c0| | | |] eqn:E; cbn [bind]; try reflexivity;
    try (unfold u_enter in E; destruct (_ <=? _); discriminate).
  destruct (u_enter_same _ _ E) as [Eb Eo]. unfold leave_res.
  rewrite <- Eb, <- Eo in Ho. read_len_over (u_read_len_over be c0 Ho).
Qed.

(** the typed decoder: both the slice fast path and the element loop read the length first *)
Theorem unmarshal_t_array_over be vf x c : over_limit be (ubuf c) (uoff c) ->
  unmarshal_t (S vf) be (EArray x) c = Err.
Proof.
  intros Ho. rewrite unmarshal_t_S_array. destruct (valid_slice be (erase x)).
  - read_len_over (u_read_len_over be c Ho).
  - pose proof (over_limit_off _ _ _ Ho) as Hoff.
    destruct (u_align_cases 4 c ltac:(lia) Hoff) as [-> | ->]; [|reflexivity]. cbn [bind].
    assert (Ho' : over_limit be (ubuf (set_off c (uoff c + padlen 4 (uoff c)))) (uoff (set_off c (uoff c + padlen 4 (uoff c))))).
    { cbn [set_off ubuf uoff]. destruct Ho as [Hl Hn]. unfold over_limit, len_pos in *.
      rewrite (padlen_0 4 (uoff c + padlen 4 (uoff c))) by (try apply padlen_aligned; lia).
      rewrite N.add_0_r. split; assumption. }
    read_len_over (u_read_len_over be _ Ho').
Qed.
Theorem unmarshal_t_dict_over be vf k v c : over_limit be (ubuf c) (uoff c) ->
  unmarshal_t (S vf) be (EDict k v) c = Err.
Proof.
  intros Ho. rewrite unmarshal_t_S_dict. pose proof (over_limit_off _ _ _ Ho) as Hoff.
  destruct (u_align_cases 4 c ltac:(lia) Hoff) as [-> | ->]; [|reflexivity]. cbn [bind].
  assert (Ho' : over_limit be (ubuf (set_off c (uoff c + padlen 4 (uoff c)))) (uoff (set_off c (uoff c + padlen 4 (uoff c))))).
  { cbn [set_off ubuf uoff]. destruct Ho as [Hl Hn]. unfold over_limit, len_pos in *.
    rewrite (padlen_0 4 (uoff c + padlen 4 (uoff c))) by (try apply padlen_aligned; lia).
    rewrite N.add_0_r. split; assumption. }
  read_len_over (u_read_len_over be _ Ho').
Qed.

(** "whatever follows": the hypothesis only looks at the bytes up to the end of the length field *)
Lemma slice_app_prefix (pre suffix : list N) q n : q + n <= len pre -> slice (pre ++ suffix) q n = slice pre q n.
Proof.
  intros H. unfold slice, firstnN, skipnN. rewrite skipn_app.
  rewrite firstn_app. replace (N.to_nat n - length (skipn (N.to_nat q) pre))%nat with 0%nat.
  - cbn [firstn]. apply app_nil_r.
  - rewrite skipn_length. unfold len in H. lia.
Qed.

Lemma over_limit_prefix be pre suffix off : over_limit be pre off -> over_limit be (pre ++ suffix) off.
Proof.
  intros [Hl Hn]. split; [rewrite len_app; lia|]. now rewrite slice_app_prefix.
Qed.

(** ** nesting: a container met at level 64 is refused before anything of it is read *)
Definition is_container (t : ty) : bool := match t with TBase _ => false | _ => true end.

Theorem validate_depth_over be vf d off buf t : is_container t = true -> MAX_DEPTH <= d ->
  validate (S vf) be d off buf t = Err.
Proof.
  intros Hc Hd. apply N.leb_le in Hd. destruct t as [b|e|ts|k v|]; try discriminate Hc.
  - rewrite validate_S_array, Hd. reflexivity.
  - rewrite validate_S_struct, Hd. reflexivity.
  - rewrite validate_S_dict, Hd. reflexivity.
  - rewrite validate_S_variant, Hd. reflexivity.
Qed.

Lemma u_enter_over c : MAX_DEPTH <= udepth c -> u_enter c = Err.
Proof. intros H. apply N.leb_le in H. unfold u_enter. now rewrite H. Qed.

Theorem unmarshal_p_depth_over be vf t c : is_container t = true -> MAX_DEPTH <= udepth c ->
  unmarshal_p (S vf) be t c = Err.
Proof.
  intros Hc Hd. apply u_enter_over in Hd. destruct t as [b|e|ts|k v|]; try discriminate Hc.
  - rewrite unmarshal_p_S_array, Hd. reflexivity.
  - rewrite unmarshal_p_S_struct, Hd. reflexivity.
  - rewrite unmarshal_p_S_dict, Hd. reflexivity.
  - rewrite unmarshal_p_S_variant, Hd. reflexivity.
Qed.

(* the typed decoder counts nesting where the message chooses the type: at a variant *)
Theorem unmarshal_t_var_depth_over be vf x c : uoff c <= len (ubuf c) -> MAX_DEPTH <= udepth c ->
  unmarshal_t (S vf) be (EVar x) c = Err.
Proof.
  intros Hc Hd. rewrite unmarshal_t_S_var. pose proof (u_read_sig_moved c Hc) as G.
  destruct (u_read_sig c) as [r| | | |]; cbn [bind]; try reflexivity; try contradiction.
  destruct G as [[E H] _]. destruct (parse_description (fst r)) as [[|t' [|]]| | | |]; try reflexivity.
  assert (Hc1 : uoff (snd r) <= len (ubuf (snd r))) by (rewrite E; cbn [set_off ubuf uoff]; lia).
  pose proof (u_align_moved (align t') (snd r) Hc1) as G.
  destruct (u_align (align t') (snd r)) as [c1| | | |]; cbn [bind]; try reflexivity; try contradiction.
  destruct G as [E1 _]. rewrite u_enter_over; [reflexivity|].
  rewrite E1, E. cbn [set_off udepth]. exact Hd.
Qed.

(** ** nesting, semantically: every value the dynamic decoder returns is nested at most 64 levels deep,
    counting the levels it was already in; the context's depth counter is restored *)
Lemma u_align_depth a c c' : u_align a c = Ok c' -> udepth c' = udepth c.
Proof.
  unfold u_align. destruct (align_offset _ _ _); cbn [bind]; try discriminate.
  destruct (_ <? _); [discriminate|]. intros E. now injection E as <-.
Qed.
Lemma u_read_fixed_depth be k c r : u_read_fixed be k c = Ok r -> udepth (snd r) = udepth c.
Proof.
  unfold u_read_fixed. destruct (Nat.eqb k 1).
  - cbn [bind]. destruct (_ <? _); [discriminate|]. intros E. now injection E as <-.
  - destruct (u_align (N.of_nat k) c) as [c1| | | |] eqn:Ea; cbn [bind]; try discriminate.
    destruct (_ <? _); [discriminate|]. intros E. injection E as <-. cbn [snd set_off udepth]. now apply u_align_depth in Ea.
Qed.
Lemma u_read_str_depth be c r : u_read_str be c = Ok r -> udepth (snd r) = udepth c.
Proof.
  unfold u_read_str. destruct (u_align 4 c) as [c1| | | |] eqn:Ea; cbn [bind]; try discriminate.
  destruct (unmarshal_str _ _ _); cbn [bind]; try discriminate. intros E. injection E as <-.
  cbn [snd set_off udepth]. now apply u_align_depth in Ea.
Qed.
Lemma u_read_sig_depth c r : u_read_sig c = Ok r -> udepth (snd r) = udepth c.
Proof.
  unfold u_read_sig. destruct (unmarshal_signature _ _); cbn [bind]; try discriminate. intros E. now injection E as <-.
Qed.
Lemma u_sub_depth n c s : u_sub n c = Ok s -> udepth (fst s) = udepth c /\ udepth (snd s) = udepth c.
Proof. unfold u_sub. destruct (_ <? _); [discriminate|]. intros E. injection E as <-. auto. Qed.

Lemma u_base_depth be b c v c' : u_base be b c = Ok (v, c') -> udepth c' = udepth c /\ vdepth v = 0.
Proof.
  unfold u_base. destruct b.
  all: try (destruct (u_read_fixed be _ c) as [r| | | |] eqn:E; cbn [bind]; try discriminate; apply u_read_fixed_depth in E).
  all: try (destruct (u_read_str be c) as [r| | | |] eqn:E; cbn [bind]; try discriminate; apply u_read_str_depth in E).
  all: try (destruct (u_read_sig c) as [r| | | |] eqn:E; cbn [bind]; try discriminate; apply u_read_sig_depth in E).
  all: try (destruct (_ <=? _); [discriminate|]).
  all: try (destruct (_ <? _); [|discriminate]).
  all: try (destruct (valid_path _); [|discriminate]).
  all: try (destruct (is_ok _); [|discriminate]).
  all: intros H; injection H as <- <-; auto.
Qed.

Lemma sub_loop_inv {A} (P : uctx -> Prop) (Q : A -> Prop) (one : uctx -> outcome (A * uctx)) :
  (forall c r, P c -> one c = Ok r -> P (snd r) /\ Q (fst r)) ->
  forall lf c acc l, P c -> Forall Q acc -> sub_loop one lf c acc = Ok l -> Forall Q l.
Proof.
  intros Hone. induction lf as [|lf IH]; intros c acc l Pc Hacc; cbn [sub_loop]; destruct (_ =? 0).
  1,3: intros E; injection E as <-; now apply Forall_rev.
  - discriminate.
  - destruct (one c) as [r| | | |] eqn:E; cbn [bind]; try discriminate.
    destruct (Hone c r Pc E) as [P1 Q1]. apply IH; [exact P1|now constructor].
Qed.

Lemma vdepth_list_le vs d : Forall (fun x => vdepth x <= d) vs -> vdepth_list vs <= d.
Proof. induction 1 as [|x l Hx _ IH]; cbn [vdepth_list fold_right]; [lia|]. fold (vdepth_list l). lia. Qed.
Lemma vdepth_entries_le kvs d : Forall (fun kv => vdepth (fst kv) <= d /\ vdepth (snd kv) <= d) kvs -> vdepth_entries kvs <= d.
Proof. induction 1 as [|x l [Ha Hb] _ IH]; cbn [vdepth_entries fold_right]; [lia|]. fold (vdepth_entries l). lia. Qed.

Lemma pfields_inv (P : uctx -> Prop) (Q : val -> Prop) (one : ty -> uctx -> outcome (val * uctx)) :
  forall ts, (forall f c r, In f ts -> P c -> one f c = Ok r -> P (snd r) /\ Q (fst r)) ->
  forall c acc r, P c -> Forall Q acc -> pfields one ts c acc = Ok r -> P (snd r) /\ Forall Q (fst r).
Proof.
  induction ts as [|f ts IH]; intros Hone c acc r Pc Hacc; cbn [pfields].
  - intros E. injection E as <-. cbn [fst snd]. split; [exact Pc|now apply Forall_rev].
  - destruct (one f c) as [x| | | |] eqn:E; cbn [bind]; try discriminate.
    destruct (Hone f c x (or_introl eq_refl) Pc E) as [P1 Q1].
    apply IH; [intros f' c' r' Hin; apply Hone; now right|exact P1|now constructor].
Qed.

Theorem unmarshal_p_depth be : forall vf t c v c',
  unmarshal_p vf be t c = Ok (v, c') -> udepth c' = udepth c /\ vdepth v <= MAX_DEPTH - udepth c.
Proof.
  induction vf as [|vf IHvf]; [discriminate|].
  induction t as [b|e IHe|ts IHts|kt vt IHv|] using ty_ind'; intros c v c'.
  - rewrite unmarshal_p_S_base. intros H. apply u_base_depth in H. destruct H as [-> ->]. split; [reflexivity|lia].
  - rewrite unmarshal_p_S_array. destruct (u_enter c) as [c0| | | |] eqn:Een; cbn [bind]; try discriminate.
    apply u_enter_inv in Een. destruct Een as [Hd ->]. unfold leave_res.
    match goal with |- context [u_read_fixed be 4 ?cc] => set (c0 := cc) end.
    destruct (u_read_fixed be 4 c0) as [r| | | |] eqn:E1; cbn [bind]; try discriminate. apply u_read_fixed_depth in E1.
    destruct (check_array_len (fst r)) as [n| | | |]; cbn [bind]; try discriminate.
    destruct (u_align (align e) (snd r)) as [c1| | | |] eqn:E2; cbn [bind]; try discriminate. apply u_align_depth in E2.
    destruct (u_sub n c1) as [s| | | |] eqn:E3; cbn [bind]; try discriminate. apply u_sub_depth in E3. destruct E3 as [E3 E3'].
    destruct (sub_loop _ _ _ _) as [vs| | | |] eqn:El; cbn [bind]; try discriminate.
    intros H. injection H as <- <-. cbn [u_leave udepth snd].
    assert (D0 : udepth c0 = udepth c + 1) by reflexivity.
    split; [rewrite E3', E2, E1, D0; lia|].
    assert (Hall : Forall (fun x => vdepth x <= MAX_DEPTH - (udepth c + 1)) vs).
    { refine (sub_loop_inv (fun cc => udepth cc = udepth c + 1) (fun x => vdepth x <= MAX_DEPTH - (udepth c + 1)) _ _ _ _ _ _ _ (Forall_nil _) El).
      - intros cc rr Pc Hr. destruct rr as [x cc']. apply IHe in Hr. destruct Hr as [H1 H2]. cbn [fst snd]. rewrite H1, Pc in *. auto.
      - rewrite E3, E2, E1. exact D0. }
    cbn [vdepth]. fold (vdepth_list vs). pose proof (vdepth_list_le _ _ Hall). unfold MAX_DEPTH in *. lia.
  - rewrite unmarshal_p_S_struct. destruct (u_enter c) as [c0| | | |] eqn:Een; cbn [bind]; try discriminate.
    apply u_enter_inv in Een. destruct Een as [Hd ->]. unfold leave_res.
    match goal with |- context [u_align 8 ?cc] => set (c0 := cc) end.
    destruct (u_align 8 c0) as [c1| | | |] eqn:E1; cbn [bind]; try discriminate. apply u_align_depth in E1.
    destruct ts as [|t0 ts']; [discriminate|]. set (ts := t0 :: ts') in *.
    destruct (pfields _ ts c1 []) as [r| | | |] eqn:Ef; cbn [bind]; try discriminate.
    intros H. injection H as <- <-. cbn [u_leave udepth snd].
    assert (D0 : udepth c0 = udepth c + 1) by reflexivity.
    rewrite Forall_forall in IHts.
    apply (pfields_inv (fun cc => udepth cc = udepth c + 1) (fun x => vdepth x <= MAX_DEPTH - (udepth c + 1))) in Ef.
    + destruct Ef as [P1 Q1]. split; [rewrite P1; lia|]. cbn [vdepth]. fold (vdepth_list (fst r)).
      pose proof (vdepth_list_le _ _ Q1). unfold MAX_DEPTH in *. lia.
    + intros f cc rr Hin Pc Hr. destruct rr as [x cc']. apply (IHts f Hin) in Hr. destruct Hr as [H1 H2]. cbn [fst snd].
      rewrite H1, Pc in *. auto.
    + rewrite E1. exact D0.
    + constructor.
  - rewrite unmarshal_p_S_dict. destruct (u_enter c) as [c0| | | |] eqn:Een; cbn [bind]; try discriminate.
    apply u_enter_inv in Een. destruct Een as [Hd ->]. unfold leave_res.
    match goal with |- context [u_read_fixed be 4 ?cc] => set (c0 := cc) end.
    destruct (u_read_fixed be 4 c0) as [r| | | |] eqn:E1; cbn [bind]; try discriminate. apply u_read_fixed_depth in E1.
    destruct (check_array_len (fst r)) as [n| | | |]; cbn [bind]; try discriminate.
    destruct (u_align 8 (snd r)) as [c1| | | |] eqn:E2; cbn [bind]; try discriminate. apply u_align_depth in E2.
    destruct (u_sub n c1) as [s| | | |] eqn:E3; cbn [bind]; try discriminate. apply u_sub_depth in E3. destruct E3 as [E3 E3'].
    destruct (sub_loop _ _ _ _) as [kvs| | | |] eqn:El; cbn [bind]; try discriminate.
    intros H. injection H as <- <-. cbn [u_leave udepth snd].
    assert (D0 : udepth c0 = udepth c + 1) by reflexivity.
    split; [rewrite E3', E2, E1, D0; lia|].
    assert (Hall : Forall (fun kv => vdepth (fst kv) <= MAX_DEPTH - (udepth c + 1) /\ vdepth (snd kv) <= MAX_DEPTH - (udepth c + 1)) kvs).
    { refine (sub_loop_inv (fun cc => udepth cc = udepth c + 1)
                (fun kv => vdepth (fst kv) <= MAX_DEPTH - (udepth c + 1) /\ vdepth (snd kv) <= MAX_DEPTH - (udepth c + 1)) _ _ _ _ _ _ _ (Forall_nil _) El).
      - intros cc rr Pc. destruct (u_align 8 cc) as [c2| | | |] eqn:Ea; cbn [bind]; try discriminate. apply u_align_depth in Ea.
        destruct (u_base be kt c2) as [[kv ck]| | | |] eqn:Ek; cbn [bind]; try discriminate. apply u_base_depth in Ek. destruct Ek as [Ek1 Ek2].
        cbn [fst snd]. destruct (unmarshal_p (S vf) be vt ck) as [[vv cv]| | | |] eqn:Ev; cbn [bind]; try discriminate.
        apply IHv in Ev. destruct Ev as [Ev1 Ev2]. intros H. injection H as <-. cbn [fst snd].
        rewrite Ev1, Ek1, Ea, Pc in *. rewrite Ek2. repeat split; lia.
      - rewrite E3, E2, E1. exact D0. }
    cbn [vdepth]. fold (vdepth_entries kvs). pose proof (vdepth_entries_le _ _ Hall). unfold MAX_DEPTH in *. lia.
  - rewrite unmarshal_p_S_variant. destruct (u_enter c) as [c0| | | |] eqn:Een; cbn [bind]; try discriminate.
    apply u_enter_inv in Een. destruct Een as [Hd ->]. unfold leave_res.
    match goal with |- context [u_read_sig ?cc] => set (c0 := cc) end.
    destruct (u_read_sig c0) as [r| | | |] eqn:E1; cbn [bind]; try discriminate. apply u_read_sig_depth in E1.
    destruct (parse_description (fst r)) as [[|t' [|]]| | | |]; cbn [bind]; try discriminate.
    destruct (unmarshal_p vf be t' (snd r)) as [[x cx]| | | |] eqn:Ex; cbn [bind]; try discriminate.
    apply IHvf in Ex. destruct Ex as [Ex1 Ex2]. intros H. injection H as <- <-. cbn [u_leave udepth snd fst].
    assert (D0 : udepth c0 = udepth c + 1) by reflexivity.
    rewrite Ex1, E1, D0 in *. split; [lia|]. cbn [vdepth]. unfold MAX_DEPTH in *. lia.
Qed.

(** * Send path *)

(** ** nesting: the Param marshaller refuses anything nested deeper than 64 levels *)
Lemma marshal_seq_all m vs : forall c c', marshal_seq m vs c = (c', true) ->
  Forall (fun x => exists c1 c2, m x c1 = (c2, true)) vs.
Proof.
  induction vs as [|x r IH]; intros c c' H; [constructor|]. rewrite marshal_seq_cons in H.
  destruct (m x c) as [c1 [|]] eqn:E; cbn [mbind] in H; [|discriminate].
  constructor; [now exists c, c1|]. eapply IH. exact H.
Qed.
Lemma marshal_entries_all m kvs : forall c c', marshal_entries m kvs c = (c', true) ->
  Forall (fun kv => (exists c1 c2, m (fst kv) c1 = (c2, true)) /\ (exists c1 c2, m (snd kv) c1 = (c2, true))) kvs.
Proof.
  induction kvs as [|[a b] r IH]; intros c c' H; [constructor|]. rewrite marshal_entries_cons in H.
  destruct (m a _) as [c1 [|]] eqn:E1; cbn [mbind] in H; [|discriminate].
  destruct (m b c1) as [c2 [|]] eqn:E2; cbn [mbind] in H; [|discriminate].
  constructor; [cbn [fst snd]; split; eauto|]. eapply IH. exact H.
Qed.

Theorem marshal_p_depth be : forall v d c c', marshal_p be d v c = (c', true) -> vdepth v <= MAX_DEPTH - d.
Proof.
  induction v as [b k|b s|t vs IH|vs IH|k vt kvs IH|t x IH] using val_ind'; intros d c c' H.
  - cbn [vdepth]. lia.
  - cbn [vdepth]. lia.
  - rewrite marshal_p_array in H. destruct (N.leb_spec MAX_DEPTH d) as [|Hd]; [discriminate|].
    destruct (negb _); [discriminate|]. cbv zeta in H.
    destruct (marshal_seq _ vs _) as [c1 [|]] eqn:Es; cbn [mbind] in H; [|discriminate].
    apply marshal_seq_all in Es. cbn [vdepth]. fold (vdepth_list vs).
    assert (Hall : Forall (fun x => vdepth x <= MAX_DEPTH - (d + 1)) vs).
    { rewrite Forall_forall in *. intros x Hin. destruct (Es x Hin) as (c2 & c3 & E). exact (IH x Hin _ _ _ E). }
    pose proof (vdepth_list_le _ _ Hall). unfold MAX_DEPTH in *. lia.
  - rewrite marshal_p_struct in H. destruct (N.leb_spec MAX_DEPTH d) as [|Hd]; [discriminate|].
    apply marshal_seq_all in H. cbn [vdepth]. fold (vdepth_list vs).
    assert (Hall : Forall (fun x => vdepth x <= MAX_DEPTH - (d + 1)) vs).
    { rewrite Forall_forall in *. intros x Hin. destruct (H x Hin) as (c2 & c3 & E). exact (IH x Hin _ _ _ E). }
    pose proof (vdepth_list_le _ _ Hall). unfold MAX_DEPTH in *. lia.
  - rewrite marshal_p_dict in H. destruct (N.leb_spec MAX_DEPTH d) as [|Hd]; [discriminate|].
    destruct (negb _); [discriminate|]. cbv zeta in H.
    destruct (marshal_entries _ kvs _) as [c1 [|]] eqn:Es; cbn [mbind] in H; [|discriminate].
    apply marshal_entries_all in Es. cbn [vdepth]. fold (vdepth_entries kvs).
    assert (Hall : Forall (fun kv => vdepth (fst kv) <= MAX_DEPTH - (d + 1) /\ vdepth (snd kv) <= MAX_DEPTH - (d + 1)) kvs).
    { rewrite Forall_forall in *. intros kv Hin. destruct (Es kv Hin) as [(c2 & c3 & Ea) (c4 & c5 & Eb)].
      destruct (IH kv Hin) as [IHa IHb]. split; [exact (IHa _ _ _ Ea)|exact (IHb _ _ _ Eb)]. }
    pose proof (vdepth_entries_le _ _ Hall). unfold MAX_DEPTH in *. lia.
  - cbn [marshal_p] in H. destruct (N.leb_spec MAX_DEPTH d) as [|Hd]; [discriminate|].
    destruct (negb (ty_eqb (ty_of x) t)); [discriminate|].
    destruct (is_ok _); [|discriminate]. apply IH in H. cbn [vdepth]. unfold MAX_DEPTH in *. lia.
Qed.

(* at the top level (depth counter 0): at most 64 levels *)
Corollary marshal_p_depth_top be v c c' : marshal_p be 0 v c = (c', true) -> vdepth v <= MAX_DEPTH.
Proof. intros H. apply marshal_p_depth in H. lia. Qed.

(** the typed API does not count nesting: n structs in each other marshal for every n (in Rust the nesting of a typed
    value is fixed by the program text; the library adds no check of its own) *)
Fixpoint nest_struct (n : nat) (v : val) : val := match n with O => v | S k => VStruct [nest_struct k v] end.
Lemma vdepth_nest n v : vdepth (nest_struct n v) = N.of_nat n + vdepth v.
Proof. induction n as [|n IH]; cbn [nest_struct vdepth fold_right]; [lia|]. rewrite IH. lia. Qed.
Theorem marshal_t_counts_no_nesting be n : forall c, snd (marshal_t be (nest_struct n (VBase BByte 7)) c) = true.
Proof.
  induction n as [|n IH]; intros c; [reflexivity|]. cbn [nest_struct]. rewrite marshal_t_struct, marshal_seq_cons.
  specialize (IH {| mbuf := pad_to 8 (mbuf c); mfds := mfds c |}).
  destruct (marshal_t be (nest_struct n (VBase BByte 7)) _) as [c1 ok]. cbn [snd] in IH. subst ok. reflexivity.
Qed.

(** ** array lengths: what is written is the number of bytes of content, at most 2^26, untruncated *)
Lemma small_is_u32 n : n <= MAX_ARRAY -> n mod 2 ^ 32 = n.
Proof. intros H. apply N.mod_small. unfold MAX_ARRAY in H. assert (2 ^ 26 < 2 ^ 32) by (cbn; lia). lia. Qed.

Lemma insert4_exact be n p buf : n <= MAX_ARRAY ->
  insert4 be n p buf = firstnN p buf ++ enc be 4 n ++ skipnN (p + 4) buf.
Proof. intros H. unfold insert4. now rewrite small_is_u32. Qed.

Theorem marshal_p_array_limit be d t vs c c' : marshal_p be d (VArray t vs) c = (c', true) ->
  let b3 := pad_to (align t) (pad_to 4 (mbuf c) ++ [0; 0; 0; 0]) in
  exists c1, marshal_seq (marshal_p be (d + 1)) vs {| mbuf := b3; mfds := mfds c |} = (c1, true)
    /\ len (mbuf c1) - len b3 <= MAX_ARRAY
    /\ mbuf c' = firstnN (len (pad_to 4 (mbuf c))) (mbuf c1) ++ enc be 4 (len (mbuf c1) - len b3)
                 ++ skipnN (len (pad_to 4 (mbuf c)) + 4) (mbuf c1).
Proof.
  intros H b3. rewrite marshal_p_array in H. destruct (_ <=? _); [discriminate|]. destruct (negb _); [discriminate|].
  cbv zeta in H. fold b3 in H. destruct (marshal_seq _ vs _) as [c1 [|]] eqn:Es; cbn [mbind] in H; [|discriminate].
  destruct (N.ltb_spec MAX_ARRAY (len (mbuf c1) - len b3)) as [|Hn]; [discriminate|]. injection H as <-.
  exists c1. split; [reflexivity|]. split; [exact Hn|]. cbn [mbuf]. now apply insert4_exact.
Qed.
Theorem marshal_p_dict_limit be d k vt kvs c c' : marshal_p be d (VDict k vt kvs) c = (c', true) ->
  let b3 := pad_to 8 (pad_to 4 (mbuf c) ++ [0; 0; 0; 0]) in
  exists c1, marshal_entries (marshal_p be (d + 1)) kvs {| mbuf := b3; mfds := mfds c |} = (c1, true)
    /\ len (mbuf c1) - len b3 <= MAX_ARRAY
    /\ mbuf c' = firstnN (len (pad_to 4 (mbuf c))) (mbuf c1) ++ enc be 4 (len (mbuf c1) - len b3)
                 ++ skipnN (len (pad_to 4 (mbuf c)) + 4) (mbuf c1).
Proof.
  intros H b3. rewrite marshal_p_dict in H. destruct (_ <=? _); [discriminate|]. destruct (negb _); [discriminate|].
  cbv zeta in H. fold b3 in H. destruct (marshal_entries _ kvs _) as [c1 [|]] eqn:Es; cbn [mbind] in H; [|discriminate].
  destruct (N.ltb_spec MAX_ARRAY (len (mbuf c1) - len b3)) as [|Hn]; [discriminate|]. injection H as <-.
  exists c1. split; [reflexivity|]. split; [exact Hn|]. cbn [mbuf]. now apply insert4_exact.
Qed.

(* typed API, element loop (non-empty array of a type without the slice fast path) *)
Theorem marshal_t_array_limit be t vs c c' : valid_slice be t = false -> vs <> [] ->
  marshal_t be (VArray t vs) c = (c', true) ->
  let b3 := pad_to (align t) (pad_to 4 (mbuf c) ++ [0; 0; 0; 0]) in
  exists c1, marshal_seq (marshal_t be) vs {| mbuf := b3; mfds := mfds c |} = (c1, true)
    /\ len (mbuf c1) - len b3 <= MAX_ARRAY
    /\ mbuf c' = firstnN (len (pad_to 4 (mbuf c))) (mbuf c1) ++ enc be 4 (len (mbuf c1) - len b3)
                 ++ skipnN (len (pad_to 4 (mbuf c)) + 4) (mbuf c1).
Proof.
  intros Hs Hne H b3. rewrite marshal_t_array in H. cbv zeta in H. rewrite Hs in H. fold b3 in H.
  destruct vs as [|v0 vs']; [now elim Hne|].
  destruct (marshal_seq _ (v0 :: vs') _) as [c1 [|]] eqn:Es; cbn [mbind] in H; [|discriminate].
  destruct (N.ltb_spec MAX_ARRAY (len (mbuf c1) - len b3)) as [|Hn]; [discriminate|]. injection H as <-.
  exists c1. split; [reflexivity|]. split; [exact Hn|]. cbn [mbuf]. now apply insert4_exact.
Qed.
(* typed API, slice fast path: the content is the elements' memory, align t bytes each *)
Theorem marshal_t_slice_limit be t vs c c' : valid_slice be t = true ->
  marshal_t be (VArray t vs) c = (c', true) ->
  align t * len vs <= MAX_ARRAY
  /\ exists content, mbuf c' = pad_to (align t) (pad_to 4 (mbuf c) ++ enc be 4 (align t * len vs)) ++ content
  /\ dec be (enc be 4 (align t * len vs)) = align t * len vs.
Proof.
  intros Hs H. rewrite marshal_t_array in H. cbv zeta in H. rewrite Hs in H.
  destruct (N.ltb_spec MAX_ARRAY (align t * len vs)) as [|Hn]; [discriminate|]. injection H as <-. cbn [mbuf].
  split; [exact Hn|]. eexists. split; [reflexivity|]. apply dec_enc. unfold MAX_ARRAY in Hn.
  assert (2 ^ 26 < 256 ^ N.of_nat 4) by (cbn; lia). lia.
Qed.
Theorem marshal_t_dict_limit be k vt kvs c c' : kvs <> [] ->
  marshal_t be (VDict k vt kvs) c = (c', true) ->
  let b3 := pad_to 8 (pad_to 4 (mbuf c) ++ [0; 0; 0; 0]) in
  exists c1, marshal_entries (marshal_t be) kvs {| mbuf := b3; mfds := mfds c |} = (c1, true)
    /\ len (mbuf c1) - len b3 <= MAX_ARRAY
    /\ mbuf c' = firstnN (len (pad_to 4 (mbuf c))) (mbuf c1) ++ enc be 4 (len (mbuf c1) - len b3)
                 ++ skipnN (len (pad_to 4 (mbuf c)) + 4) (mbuf c1).
Proof.
  intros Hne H b3. rewrite marshal_t_dict in H. cbv zeta in H. fold b3 in H.
  destruct kvs as [|kv0 kvs']; [now elim Hne|].
  destruct (marshal_entries _ (kv0 :: kvs') _) as [c1 [|]] eqn:Es; cbn [mbind] in H; [|discriminate].
  destruct (N.ltb_spec MAX_ARRAY (len (mbuf c1) - len b3)) as [|Hn]; [discriminate|]. injection H as <-.
  exists c1. split; [reflexivity|]. split; [exact Hn|]. cbn [mbuf]. now apply insert4_exact.
Qed.

(** ** the message-level checks *)
Theorem marshal_message_len_spec hdr body :
  match marshal_message_len hdr body with
  | Ok n => hdr + body <= MAX_MESSAGE /\ n = body
  | Err => MAX_MESSAGE < hdr + body
  | _ => False
  end.
Proof.
  unfold marshal_message_len. destruct (N.ltb_spec MAX_MESSAGE (hdr + body)) as [H|H]; [exact H|].
  split; [exact H|]. apply N.mod_small. unfold MAX_MESSAGE in H. assert (2 ^ 27 < 2 ^ 32) by (cbn; lia). lia.
Qed.
Theorem check_marshalled_array_len_spec n :
  match check_marshalled_array_len n with
  | Ok m => n <= MAX_ARRAY /\ m = n
  | Err => MAX_ARRAY < n
  | _ => False
  end.
Proof.
  unfold check_marshalled_array_len. destruct (N.ltb_spec MAX_ARRAY n) as [H|H]; [exact H|].
  split; [exact H|now apply small_is_u32].
Qed.

(** * The statements of Properties/C18.v that combine the lemmas above *)
Theorem decode_length_all : forall be (pre : list N) off, over_limit be pre off -> forall suffix vf,
  (forall d e, validate (S vf) be d off (pre ++ suffix) (TArray e) = Err)
  /\ (forall d k v, validate (S vf) be d off (pre ++ suffix) (TDict k v) = Err)
  /\ (forall nf d e, unmarshal_p (S vf) be (TArray e) {| ubuf := pre ++ suffix; uoff := off; unfds := nf; udepth := d |} = Err)
  /\ (forall nf d k v, unmarshal_p (S vf) be (TDict k v) {| ubuf := pre ++ suffix; uoff := off; unfds := nf; udepth := d |} = Err)
  /\ (forall nf d x, unmarshal_t (S vf) be (EArray x) {| ubuf := pre ++ suffix; uoff := off; unfds := nf; udepth := d |} = Err)
  /\ (forall nf d k x, unmarshal_t (S vf) be (EDict k x) {| ubuf := pre ++ suffix; uoff := off; unfds := nf; udepth := d |} = Err).
Proof.
  intros be pre off Ho suffix vf. pose proof (over_limit_prefix be pre suffix off Ho) as H.
  repeat split; intros.
  - now apply validate_array_over.
  - now apply validate_dict_over.
  - now apply unmarshal_p_array_over.
  - now apply unmarshal_p_dict_over.
  - now apply unmarshal_t_array_over.
  - now apply unmarshal_t_dict_over.
Qed.

Theorem decode_depth_all : forall be vf,
  (forall t d off buf, is_container t = true -> MAX_DEPTH <= d -> validate (S vf) be d off buf t = Err)
  /\ (forall t c, is_container t = true -> MAX_DEPTH <= udepth c -> unmarshal_p (S vf) be t c = Err)
  /\ (forall x c, uoff c <= len (ubuf c) -> MAX_DEPTH <= udepth c -> unmarshal_t (S vf) be (EVar x) c = Err).
Proof.
  intros be vf. repeat split; intros.
  - now apply validate_depth_over.
  - now apply unmarshal_p_depth_over.
  - now apply unmarshal_t_var_depth_over.
Qed.

Theorem decode_depth_value : forall be vf t c v c',
  unmarshal_p vf be t c = Ok (v, c') -> udepth c' = udepth c /\ (vdepth v = 0 \/ udepth c + vdepth v <= MAX_DEPTH).
Proof.
  intros be vf t c v c' H. destruct (unmarshal_p_depth be vf t c v c' H) as [H1 H2]. split; [exact H1|].
  destruct (N.eq_dec (vdepth v) 0) as [|Hnz]; [now left|]. right. unfold MAX_DEPTH in *. lia.
Qed.

Theorem typed_counts_no_nesting : forall be n c,
  snd (marshal_t be (nest_struct n (VBase BByte 7)) c) = true /\ vdepth (nest_struct n (VBase BByte 7)) = N.of_nat n.
Proof. intros be n c. split; [apply marshal_t_counts_no_nesting|rewrite vdepth_nest; cbn [vdepth]; lia]. Qed.

Theorem send_message_checks : forall hdr body fields,
  match marshal_message_len hdr body with
  | Ok n => hdr + body <= MAX_MESSAGE /\ n = body
  | Err => MAX_MESSAGE < hdr + body
  | _ => False
  end
  /\ match marshal_header_fields_len fields with
     | Ok m => fields <= MAX_ARRAY /\ m = fields
     | Err => MAX_ARRAY < fields
     | _ => False
     end.
Proof. intros. split; [apply marshal_message_len_spec|apply check_marshalled_array_len_spec]. Qed.

(** * C04: progress of the decoders, totality of the signature functions, allocation of the slice fast path *)
Lemma validate_marshalled_vgood be off buf t : wf t = true -> off <= len buf -> vgood off buf (validate_marshalled be off buf t).
Proof. intros Hw Ho. unfold validate_marshalled. apply validate_good; [exact Hw|exact Ho|lia|cbn; lia]. Qed.

Theorem decoders_progress : forall be,
  (forall t off buf n, wf t = true -> off <= len buf -> validate_marshalled be off buf t = Ok n -> 1 <= n /\ off + n <= len buf)
  /\ (forall t c v c', wf t = true -> uoff c <= len (ubuf c) -> unmarshal_p 66 be t c = Ok (v, c') ->
        uoff c < uoff c' <= len (ubuf c))
  /\ (forall e c v c', ewf e = true -> uoff c <= len (ubuf c) -> (evars e <= 65)%nat -> unmarshal_t 66 be e c = Ok (v, c') ->
        uoff c < uoff c' <= len (ubuf c)).
Proof.
  intros be. split; [|split].
  - intros t off buf n Hw Ho H. pose proof (validate_marshalled_vgood be off buf t Hw Ho) as G. rewrite H in G. exact G.
  - intros t c v c' Hw Ho H.
    assert (G : good c (unmarshal_p 66 be t c)) by (apply unmarshal_p_good; [exact Hw|exact Ho|lia|cbn; lia]).
    rewrite H in G. destruct G as [_ G]. exact G.
  - intros e c v c' Hw Ho Hv H.
    assert (G : good c (unmarshal_t 66 be e c)) by (apply unmarshal_t_good; [exact Hw|exact Ho|lia]).
    rewrite H in G. destruct G as [_ G]. exact G.
Qed.

Theorem signatures_total : forall l,
  ok_or_err (parse_description l) /\ ok_or_err (validate_signature l)
  /\ (ValidSig l -> ok_or_err (iter_all (S (length l)) l)).
Proof.
  intros l. split; [apply parse_description_total|]. split; [apply validate_signature_total|].
  intros (ts & _ & _ & _ & ->). rewrite iter_all_types; [exact I|]. pose proof (length_flat_ge ts). lia.
Qed.

(* the slice fast path (Vec<E>, Cow<[E]>, &[u8]): unmarshal_slice_bytes reads the length field n, checks it against 2^26, skips the
   padding, checks n mod alignment and that n bytes are really there; copy_slice_bytes then asks for Vec::with_capacity(n / alignment)
   and the result has exactly that many elements. So the request is determined by the length field and bounded by the bytes present. *)
Lemma chunks_length b k : (0 < k)%nat -> forall fuel l m, (length l < fuel)%nat -> length l = (m * k)%nat ->
  length (chunks b k fuel l) = m.
Proof.
  intros Hk. induction fuel as [|f IH]; intros l m Hf Hl; [lia|]. cbn [chunks].
  destruct l as [|y l']; [cbn [length] in Hl; destruct m; [reflexivity|cbn in Hl; lia]|].
  set (l := y :: l') in *. destruct m as [|m]; [cbn [length] in Hl; subst l; cbn in Hl; lia|].
  cbn [length]. f_equal. apply IH.
  - rewrite skipn_length. subst l. cbn [length] in *. lia.
  - rewrite skipn_length. lia.
Qed.

Lemma u_read_len_field be c r : uoff c <= len (ubuf c) -> u_read_fixed be 4 c = Ok r ->
  fst r = dec be (slice (ubuf c) (len_pos (uoff c)) 4) /\ snd r = set_off c (len_pos (uoff c) + 4) /\ len_pos (uoff c) + 4 <= len (ubuf c).
Proof.
  intros Ho. unfold u_read_fixed. change (Nat.eqb 4 1) with false. cbv iota. change (N.of_nat 4) with 4.
  destruct (u_align_cases 4 c ltac:(lia) Ho) as [-> | ->]; [|discriminate]. cbn [bind].
  unfold remainder_len. cbn [set_off ubuf uoff]. fold (len_pos (uoff c)).
  destruct (N.ltb_spec (len (ubuf c) - len_pos (uoff c)) 4) as [|Hl]; [discriminate|]. intros E. injection E as <-.
  cbn [fst snd]. unfold len_pos in *. repeat split; lia.
Qed.

Theorem slice_alloc_bound : forall be vf x c v c', valid_slice be (erase x) = true -> uoff c <= len (ubuf c) ->
  unmarshal_t (S vf) be (EArray x) c = Ok (v, c') ->
  let n := dec be (slice (ubuf c) (len_pos (uoff c)) 4) in
  let start := len_pos (uoff c) + 4 + padlen (ealign x) (len_pos (uoff c) + 4) in
  n <= MAX_ARRAY /\ n mod ealign x = 0 /\ uoff c' = start + n /\ start + n <= len (ubuf c)
  /\ exists vs, v = VArray (erase x) vs /\ len vs = n / ealign x.
Proof.
  intros be vf x c v c' Hs Ho H n start. rewrite unmarshal_t_S_array, Hs in H.
  destruct (u_read_fixed be 4 c) as [r| | | |] eqn:E1; cbn [bind] in H; try discriminate.
  destruct (u_read_len_field be c r Ho E1) as (En & Er & Hl). fold n in En.
  unfold check_array_len in H. rewrite En in H. destruct (N.ltb_spec MAX_ARRAY n) as [|Hn]; cbn [bind] in H; [discriminate|].
  destruct (valid_slice_inv _ _ Hs) as (b & Eb & Htx & Hnfd & Hsz & Hbe).
  assert (Ha : ealign x = base_align b) by (unfold ealign; now rewrite Eb).
  assert (Hap : 0 < ealign x) by (rewrite Ha; apply base_align_pos).
  assert (Hr : uoff (snd r) <= len (ubuf (snd r))) by (rewrite Er; cbn [set_off ubuf uoff]; lia).
  destruct (u_align_cases (ealign x) (snd r) Hap Hr) as [E2 | E2]; rewrite E2 in H; cbn [bind] in H; [|discriminate].
  rewrite Er in H. cbn [set_off ubuf uoff] in H. fold start in H.
  destruct (N.eqb_spec (n mod ealign x) 0) as [Hm|]; cbn [negb] in H; [|discriminate].
  unfold remainder_len in H. cbn [set_off ubuf uoff] in H.
  destruct (N.ltb_spec (len (ubuf c) - start) n) as [|Hrem]; [discriminate|].
  rewrite Eb in H. injection H as <- <-. cbn [set_off uoff].
  assert (Hst : start <= len (ubuf c)).
  { pose proof (u_align_moved (ealign x) (snd r) Hr) as G. rewrite E2 in G. destruct G as [_ G]. rewrite Er in G.
    cbn [set_off ubuf uoff] in G. fold start in G. lia. }
  split; [exact Hn|]. split; [exact Hm|]. split; [reflexivity|]. split; [lia|].
  exists (chunks b (base_size b) (S (N.to_nat n)) (slice (ubuf c) start n)). split; [rewrite Eb; reflexivity|].
  (* the number of elements *)
  assert (Hk : (0 < base_size b)%nat) by (destruct b; cbn in *; try discriminate; lia).
  assert (Ek : ealign x = N.of_nat (base_size b)) by (rewrite Ha, Hsz; reflexivity).
  match goal with |- len (chunks _ _ _ ?l) = _ => set (sl := l) end.
  assert (Lsl : len sl = n) by (subst sl; unfold slice; rewrite len_firstnN, len_skipnN; lia).
  apply N.mod_divide in Hm; [|lia]. destruct Hm as [q Hq].
  assert (Ll : length sl = (N.to_nat q * base_size b)%nat) by (unfold len in Lsl; rewrite Ek in Hq; lia).
  unfold len. rewrite (chunks_length b (base_size b) Hk (S (N.to_nat n)) sl (N.to_nat q)); [|unfold len in Lsl; lia|exact Ll].
  rewrite Hq, N.div_mul by lia. lia.
Qed.
