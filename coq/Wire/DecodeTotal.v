(** C03/C04: the three decoders are total: on every input whose offset lies inside the buffer they
    return [Ok] or [Err] - never [Panic] (Rust slice/index panics), [UB] or [OutOfFuel] - and an
    [Ok] result stays inside the buffer and makes progress ("frame" facts reused by the soundness proofs). *)
From RB Require Import Base.Prelude Sig.Types Sig.Parser Sig.ParserProofs Sig.Validator Sig.ValidatorProofs
  Wire.Bytes Wire.Align Wire.Text Wire.Value Wire.SpecEnc Wire.Marshal Wire.MarshalProofs Wire.Decode Wire.Unmarshal.
From RB Require Import Wire.DecodeSoundLemmas.

(** what a good result of validation at [off] in [buf] is *)
Definition vgood (off : N) (buf : list N) (o : outcome N) : Prop :=
  match o with Ok n => 1 <= n /\ off + n <= len buf | Err => True | _ => False end.
(** what a good result of a value decoder started in context [c] is: only the offset moved, forward, inside the buffer *)
Definition good {A} (c : uctx) (o : outcome (A * uctx)) : Prop :=
  match o with
  | Ok r => snd r = set_off c (uoff (snd r)) /\ uoff c < uoff (snd r) <= len (ubuf c)
  | Err => True
  | _ => False
  end.

Lemma vgood_total off buf o : vgood off buf o -> ok_or_err o.
Proof. destruct o; cbn; auto. Qed.
Lemma good_total {A} c (o : outcome (A * uctx)) : good c o -> ok_or_err o.
Proof. destruct o; cbn; auto. Qed.

Ltac tstep t x E :=
  let T := fresh "T" in
  pose proof t as T;
  match type of T with
  | ok_or_err ?o => destruct o as [x| | | |] eqn:E; cbn [bind]; try exact T; clear T
  end.
Ltac gstep t x E G :=
  pose proof t as G;
  match type of G with
  | vgood _ _ ?o => destruct o as [x| | | |] eqn:E; cbn [bind]; try exact G; cbn [vgood] in G
  | good _ ?o => destruct o as [x| | | |] eqn:E; cbn [bind]; try exact G; cbn [good] in G
  end.

(** ** bounds of the cursor helpers without assumptions on the bytes *)
Lemma parse_u32_at_bound be buf off n : parse_u32_at be buf off = Ok n -> off + 4 <= len buf.
Proof.
  unfold parse_u32_at. destruct (N.ltb_spec (len buf) off); [discriminate|].
  destruct (N.ltb_spec (len buf - off) 4); [discriminate|]. intros _. lia.
Qed.
Lemma unmarshal_str_bound be buf off k s : unmarshal_str be buf off = Ok (k, s) -> 5 <= k /\ off + k <= len buf.
Proof.
  unfold unmarshal_str. destruct (parse_u32_at be buf off) as [n| | | |] eqn:En; cbn [bind]; try discriminate.
  apply parse_u32_at_bound in En.
  destruct (N.ltb_spec (len buf - off) (n + 5)); [discriminate|].
  destruct (negb _); [discriminate|]. destruct (has_nul _); [discriminate|].
  destruct (nthN buf (off + 4 + n)) as [[|c]|]; try discriminate. intros E. injection E as <- _. lia.
Qed.
Lemma unmarshal_signature_bound buf off k s : unmarshal_signature buf off = Ok (k, s) -> 2 <= k /\ off + k <= len buf.
Proof.
  unfold unmarshal_signature. destruct (N.ltb_spec (len buf) off); [discriminate|].
  destruct (nthN buf off) as [n|]; [|discriminate].
  destruct (N.ltb_spec (len buf - off) (n + 2)); [discriminate|].
  destruct (negb _); [discriminate|].
  destruct (nthN buf (off + n + 1)) as [[|c]|]; try discriminate. intros E. injection E as <- _. lia.
Qed.
Lemma align_offset_bound a buf off p : align_offset a buf off = Ok p -> off + p <= len buf.
Proof.
  unfold align_offset. destruct (N.ltb_spec (len buf) off); [discriminate|].
  destruct (N.ltb_spec (len buf - off) (pad_amount a off)); [discriminate|].
  destruct (forallb _ _); [|discriminate]. intros E. injection E as <-. lia.
Qed.

Lemma base_size_pos b : is_text b = false -> 1 <= N.of_nat (base_size b).
Proof. destruct b; cbn; intros; try lia; discriminate. Qed.

(** ** validate_base *)
Lemma validate_base_good be off buf b : off <= len buf -> vgood off buf (validate_base be off buf b).
Proof.
  intros Hoff. unfold validate_base.
  tstep (align_offset_total (base_align b) buf off Hoff) p Ea0. pose proof (align_offset_bound _ _ _ _ Ea0) as Ea.
  assert (Hfix : is_text b = false ->
     vgood off buf (if len buf - (off + p) <? N.of_nat (base_size b) then Err else Ok (N.of_nat (base_size b) + p))).
  { intros Ht. destruct (N.ltb_spec (len buf - (off + p)) (N.of_nat (base_size b))); [exact I|].
    pose proof (base_size_pos b Ht). cbn [vgood]. lia. }
  destruct b; try (apply Hfix; reflexivity).
  - tstep (unmarshal_str_total be buf (off + p) Ea) r Es. destruct r as [k s].
    apply unmarshal_str_bound in Es. cbn [fst vgood]. lia.
  - tstep (unmarshal_signature_total buf off Hoff) r Es. destruct r as [k s].
    apply unmarshal_signature_bound in Es. cbn [fst snd]. destruct (is_ok _); [|exact I]. cbn [vgood].
    destruct (align_offset_ok 1 _ _ _ eq_refl Ea0) as (Ep & _). rewrite padlen_1 in Ep. lia.
  - tstep (unmarshal_str_total be buf (off + p) Ea) r Es. destruct r as [k s].
    apply unmarshal_str_bound in Es. cbn [fst snd]. destruct (valid_path s); [|exact I]. cbn [vgood]. lia.
  - destruct (N.ltb_spec (len buf - (off + p)) 4); [exact I|]. destruct (_ <? 2); [|exact I]. cbn [vgood]. lia.
Qed.

(** ** loops of validate *)
Lemma elem_loop_total one L offset n :
  (forall p, p <= L -> match one p with Ok k => 1 <= k /\ p + k <= L | Err => True | _ => False end) ->
  forall lf used, offset + used <= L -> (N.to_nat (n - used) < lf)%nat -> ok_or_err (elem_loop one lf offset n used).
Proof.
  intros Hone. induction lf as [|lf IH]; intros used Hu Hf; cbn [elem_loop]; destruct (N.ltb_spec used n) as [Hlt|Hge];
    try exact I; [lia|].
  specialize (Hone _ Hu). destruct (one (offset + used)) as [k| | | |]; cbn [bind]; try exact Hone.
  apply IH; lia.
Qed.
Lemma elem_loop_bound one L offset n :
  (forall p k, p <= L -> one p = Ok k -> p + k <= L) ->
  forall lf used u, offset + used <= L -> elem_loop one lf offset n used = Ok u -> n <= u /\ offset + u <= L.
Proof.
  intros Hone. induction lf as [|lf IH]; intros used u Hu; cbn [elem_loop]; destruct (N.ltb_spec used n) as [Hlt|Hge];
    try discriminate; try (intros H; injection H as <-; lia).
  destruct (one (offset + used)) as [k| | | |] eqn:E; cbn [bind]; try discriminate. intros H.
  specialize (Hone _ _ Hu E). apply (IH (used + k) u); [lia|exact H].
Qed.

Lemma v_fields_good one L offset :
  forall ts, (forall f p, In f ts -> p <= L -> match one f p with Ok k => 1 <= k /\ p + k <= L | Err => True | _ => False end) ->
  forall used, offset + used <= L ->
    match v_fields one offset ts used with
    | Ok u => used + len ts <= u /\ offset + u <= L
    | Err => True
    | _ => False
    end.
Proof.
  induction ts as [|f r IH]; intros Hone used Hu; cbn [v_fields].
  - change (len (@nil ty)) with 0. lia.
  - pose proof (Hone f _ (or_introl eq_refl) Hu) as H1.
    destruct (one f (offset + used)) as [k| | | |]; cbn [bind]; try exact H1.
    specialize (IH (fun f' p Hin => Hone f' p (or_intror Hin)) (used + k) ltac:(lia)).
    destruct (v_fields one offset r (used + k)); try exact IH. rewrite len_cons. lia.
Qed.

Lemma check_array_len_total n : ok_or_err (check_array_len n).
Proof. unfold check_array_len. destruct (_ <? _); exact I. Qed.

(** ** validate *)
Theorem validate_good be : forall vf t d off buf,
  wf t = true -> off <= len buf -> (1 <= vf)%nat -> 65 <= N.of_nat vf + d ->
  vgood off buf (validate vf be d off buf t).
Proof.
  induction vf as [|vf IHvf]; [intros; lia|].
  induction t as [b|e IHe|ts IHts|kt vt IHv|] using ty_ind'; intros d off buf Hwf Hoff Hvf1 Hvf.
  - rewrite validate_base_eq. now apply validate_base_good.
  - rewrite validate_array_eq. cbn [wf] in Hwf.
    destruct (N.leb_spec MAX_DEPTH d) as [|Hd]; [exact I|].
    tstep (align_offset_total 4 buf off Hoff) p1 E1. apply align_offset_bound in E1.
    tstep (parse_u32_at_total be buf (off + p1) E1) n0 E2. apply parse_u32_at_bound in E2.
    tstep (check_array_len_total n0) n E3.
    destruct (N.ltb_spec (len buf - (off + p1 + 4)) n) as [|Hn1]; [exact I|].
    tstep (align_offset_total (align e) buf (off + p1 + 4) ltac:(lia)) p2 E4. apply align_offset_bound in E4.
    destruct (N.ltb_spec (len buf - (off + p1 + 4 + p2)) n) as [|Hn2]; [exact I|].
    destruct (bytes_always_valid e).
    + destruct (_ =? 0); [|exact I]. cbn [vgood]. lia.
    + set (cl := firstnN (off + p1 + 4 + p2 + n) buf).
      assert (Lcl : len cl = off + p1 + 4 + p2 + n) by (apply len_firstnN_le; lia).
      assert (Hone : forall p, p <= len cl -> vgood p cl (validate (S vf) be (d + 1) p cl e)).
      { intros p Hp. apply IHe; try assumption. lia. }
      tstep (elem_loop_total _ (len cl) (off + p1 + 4 + p2) n Hone (S (N.to_nat n)) 0 ltac:(lia) ltac:(lia)) used El.
      cbn [vgood]. lia.
  - rewrite validate_struct_eq. cbn [wf] in Hwf. apply andb_prop in Hwf. destruct Hwf as [Hne Hwf].
    destruct (N.leb_spec MAX_DEPTH d) as [|Hd]; [exact I|].
    tstep (align_offset_total 8 buf off Hoff) p E1. apply align_offset_bound in E1.
    rewrite forallb_forall in Hwf. rewrite Forall_forall in IHts.
    assert (Hone : forall f q, In f ts -> q <= len buf -> vgood q buf (validate (S vf) be (d + 1) q buf f)).
    { intros f q Hin Hq. apply IHts; auto. lia. }
    pose proof (v_fields_good _ (len buf) (off + p) ts Hone 0 ltac:(lia)) as T.
    destruct (v_fields _ _ ts 0) as [u| | | |]; cbn [bind]; try exact T.
    destruct ts as [|t0 ts]; [discriminate|]. rewrite len_cons in T. cbn [vgood]. lia.
  - rewrite validate_dict_eq. cbn [wf] in Hwf.
    destruct (N.leb_spec MAX_DEPTH d) as [|Hd]; [exact I|].
    tstep (align_offset_total 4 buf off Hoff) p1 E1. apply align_offset_bound in E1.
    tstep (parse_u32_at_total be buf (off + p1) E1) n0 E2. apply parse_u32_at_bound in E2.
    tstep (check_array_len_total n0) n E3.
    destruct (N.ltb_spec (len buf - (off + p1 + 4)) n) as [|Hn1]; [exact I|].
    tstep (align_offset_total 8 buf (off + p1 + 4) ltac:(lia)) p2 E4. apply align_offset_bound in E4.
    destruct (N.ltb_spec (len buf - (off + p1 + 4 + p2)) n) as [|Hn2]; [exact I|]. cbv zeta.
    set (cl := firstnN (off + p1 + 4 + p2 + n) buf).
    assert (Lcl : len cl = off + p1 + 4 + p2 + n) by (apply len_firstnN_le; lia).
    set (one := fun p => do ep <- align_offset 8 cl p; do kb <- validate_base be (p + ep) cl kt;
                         do vb <- validate (S vf) be (d + 1) (p + ep + kb) cl vt; Ok (ep + kb + vb)).
    assert (Hone : forall p, p <= len cl -> vgood p cl (one p)).
    { intros p Hp. unfold one.
      tstep (align_offset_total 8 cl p Hp) ep Ea. apply align_offset_bound in Ea.
      gstep (validate_base_good be (p + ep) cl kt Ea) kb Ek Tk. destruct Tk as [Hk1 Hk2].
      gstep (IHv (d + 1) (p + ep + kb) cl Hwf ltac:(lia) Hvf1 ltac:(lia)) vb Ev Tv. cbn [vgood]. lia. }
    tstep (elem_loop_total one (len cl) (off + p1 + 4 + p2) n Hone (S (N.to_nat n)) 0 ltac:(lia) ltac:(lia)) used El.
    assert (Hb : forall p k, p <= len cl -> one p = Ok k -> p + k <= len cl).
    { intros p k Hp Hk. specialize (Hone p Hp). rewrite Hk in Hone. apply Hone. }
    destruct (elem_loop_bound one (len cl) (off + p1 + 4 + p2) n Hb _ 0 used ltac:(lia) El) as [H1 H2]. cbn [vgood]. lia.
  - rewrite validate_variant_eq.
    destruct (N.leb_spec MAX_DEPTH d) as [|Hd]; [exact I|].
    tstep (unmarshal_signature_total buf off Hoff) r Es. destruct r as [k s]. cbn [fst snd].
    apply unmarshal_signature_bound in Es.
    tstep (parse_description_total s) tys Ep.
    destruct tys as [|t' [|]]; try exact I.
    destruct (parse_single _ _ Ep) as [_ Htok]. unfold MAX_DEPTH in Hd.
    gstep (IHvf t' (d + 1) (off + k) buf (type_ok_wf _ Htok) ltac:(lia) ltac:(lia) ltac:(lia)) pb Ev Tv.
    cbn [vgood]. lia.
Qed.

Theorem validate_total be vf t d off buf :
  wf t = true -> off <= len buf -> (1 <= vf)%nat -> 65 <= N.of_nat vf + d -> ok_or_err (validate vf be d off buf t).
Proof. intros. eapply vgood_total, validate_good; eassumption. Qed.
Theorem validate_frame be vf t d off buf n :
  wf t = true -> off <= len buf -> validate vf be d off buf t = Ok n -> 1 <= n /\ off + n <= len buf.
Proof.
  (* fuel does not matter for an Ok result: rerun with enough fuel is not needed, the bound proof is by the same induction *)
  revert t d off buf n. induction vf as [|vf IHvf]; [discriminate|].
  induction t as [b|e IHe|ts IHts|kt vt IHv|] using ty_ind'; intros d off buf n Hwf Hoff H.
  - rewrite validate_base_eq in H. pose proof (validate_base_good be off buf b Hoff) as T. now rewrite H in T.
  - rewrite validate_array_eq in H. destruct (MAX_DEPTH <=? d); [discriminate|].
    destruct (align_offset 4 buf off) as [p1| | | |] eqn:E1; cbn [bind] in H; try discriminate. apply align_offset_bound in E1.
    destruct (parse_u32_at be buf (off + p1)) as [n0| | | |] eqn:E2; cbn [bind] in H; try discriminate. apply parse_u32_at_bound in E2.
    destruct (check_array_len n0) as [n1| | | |]; cbn [bind] in H; try discriminate.
    destruct (N.ltb_spec (len buf - (off + p1 + 4)) n1); [discriminate|].
    destruct (align_offset (align e) buf (off + p1 + 4)) as [p2| | | |] eqn:E4; cbn [bind] in H; try discriminate. apply align_offset_bound in E4.
    destruct (N.ltb_spec (len buf - (off + p1 + 4 + p2)) n1); [discriminate|].
    destruct (bytes_always_valid e).
    + destruct (_ =? 0); [|discriminate]. injection H as <-. lia.
    + destruct (elem_loop _ _ _ _ _); cbn [bind] in H; try discriminate. injection H as <-. lia.
  - rewrite validate_struct_eq in H. cbn [wf] in Hwf. apply andb_prop in Hwf. destruct Hwf as [Hne Hwf].
    destruct (MAX_DEPTH <=? d); [discriminate|].
    destruct (align_offset 8 buf off) as [p| | | |] eqn:E1; cbn [bind] in H; try discriminate. apply align_offset_bound in E1.
    rewrite forallb_forall in Hwf. rewrite Forall_forall in IHts.
    assert (Hone : forall f q, In f ts -> q <= len buf ->
              match validate (S vf) be (d + 1) q buf f with Ok k => 1 <= k /\ q + k <= len buf | Err => True | _ => True end).
    { intros f q Hin Hq. destruct (validate (S vf) be (d + 1) q buf f) eqn:Ev; try exact I. eapply IHts; eauto. }
    destruct (v_fields _ _ ts 0) as [u| | | |] eqn:Ef; cbn [bind] in H; try discriminate. injection H as <-.
    (* rerun the bound argument on the successful run *)
    assert (G : forall l used u', (forall f, In f l -> In f ts) -> off + p + used <= len buf ->
              v_fields (fun f q => validate (S vf) be (d + 1) q buf f) (off + p) l used = Ok u' ->
              used + len l <= u' /\ off + p + u' <= len buf).
    { induction l as [|f r IHl]; intros used u' Hsub Hu; cbn [v_fields].
      - intros E. injection E as <-. change (len (@nil ty)) with 0. lia.
      - destruct (validate (S vf) be (d + 1) (off + p + used) buf f) as [k| | | |] eqn:Ev; cbn [bind]; try discriminate.
        intros E. destruct (IHts f (Hsub f (or_introl eq_refl)) _ _ _ _ (Hwf f (Hsub f (or_introl eq_refl))) Hu Ev) as [Hk1 Hk2].
        destruct (IHl (used + k) u' (fun f' Hin => Hsub f' (or_intror Hin)) ltac:(lia) E). rewrite len_cons. lia. }
    destruct (G ts 0 u (fun f Hin => Hin) ltac:(lia) Ef) as [G1 G2].
    destruct ts as [|t0 ts]; [discriminate|]. rewrite len_cons in G1. lia.
  - rewrite validate_dict_eq in H. cbn [wf] in Hwf. destruct (MAX_DEPTH <=? d); [discriminate|].
    destruct (align_offset 4 buf off) as [p1| | | |] eqn:E1; cbn [bind] in H; try discriminate. apply align_offset_bound in E1.
    destruct (parse_u32_at be buf (off + p1)) as [n0| | | |] eqn:E2; cbn [bind] in H; try discriminate. apply parse_u32_at_bound in E2.
    destruct (check_array_len n0) as [n1| | | |]; cbn [bind] in H; try discriminate.
    destruct (N.ltb_spec (len buf - (off + p1 + 4)) n1); [discriminate|].
    destruct (align_offset 8 buf (off + p1 + 4)) as [p2| | | |] eqn:E4; cbn [bind] in H; try discriminate. apply align_offset_bound in E4.
    destruct (N.ltb_spec (len buf - (off + p1 + 4 + p2)) n1); [discriminate|]. cbv zeta in H.
    set (cl := firstnN (off + p1 + 4 + p2 + n1) buf) in *.
    assert (Lcl : len cl = off + p1 + 4 + p2 + n1) by (apply len_firstnN_le; lia).
    destruct (elem_loop _ _ _ _ _) as [used| | | |] eqn:El; cbn [bind] in H; try discriminate. injection H as <-.
    match type of El with elem_loop ?f _ _ _ _ = _ => set (one := f) in * end.
    assert (Hb : forall p k, p <= len cl -> one p = Ok k -> p + k <= len cl).
    { intros p k Hp. unfold one.
      destruct (align_offset 8 cl p) as [ep| | | |] eqn:Ea; cbn [bind]; try discriminate. apply align_offset_bound in Ea.
      pose proof (validate_base_good be (p + ep) cl kt Ea) as Tk.
      destruct (validate_base be (p + ep) cl kt) as [kb| | | |]; cbn [bind]; try discriminate. destruct Tk as [Hk1 Hk2].
      destruct (validate (S vf) be (d + 1) (p + ep + kb) cl vt) as [vb| | | |] eqn:Ev; cbn [bind]; try discriminate.
      intros E. injection E as <-. assert (Hq : p + ep + kb <= len cl) by lia. destruct (IHv _ _ _ _ Hwf Hq Ev). lia. }
    destruct (elem_loop_bound one (len cl) (off + p1 + 4 + p2) n1 Hb _ 0 used ltac:(lia) El) as [G1 G2]. lia.
  - rewrite validate_variant_eq in H. destruct (MAX_DEPTH <=? d); [discriminate|].
    destruct (unmarshal_signature buf off) as [[k s]| | | |] eqn:Es; cbn [bind fst snd] in H; try discriminate.
    apply unmarshal_signature_bound in Es.
    destruct (parse_description s) as [tys| | | |] eqn:Ep; cbn [bind] in H; try discriminate.
    destruct tys as [|t' [|]]; try discriminate. destruct (parse_single _ _ Ep) as [_ Htok].
    destruct (validate vf be (d + 1) (off + k) buf t') as [pb| | | |] eqn:Ev; cbn [bind] in H; try discriminate.
    injection H as <-. assert (Hq : off + k <= len buf) by lia. destruct (IHvf _ _ _ _ _ (type_ok_wf _ Htok) Hq Ev). lia.
Qed.

(** ** the value decoders: cursor operations only move the offset, forward, inside the buffer *)
Definition moved (c c' : uctx) : Prop := c' = set_off c (uoff c') /\ uoff c <= uoff c' <= len (ubuf c).

Lemma moved_trans c c1 c2 : moved c c1 -> moved c1 c2 -> moved c c2.
Proof. intros [E1 H1] [E2 H2]. rewrite E1 in E2, H2. cbn [set_off ubuf uoff] in *. split; [exact E2|lia]. Qed.

Lemma u_align_moved a c : uoff c <= len (ubuf c) ->
  match u_align a c with Ok c' => moved c c' | Err => True | _ => False end.
Proof.
  intros H. unfold u_align. tstep (align_offset_total a _ _ H) p E. apply align_offset_bound in E.
  destruct (N.ltb_spec (len (ubuf c)) (uoff c + p)); [exact I|]. unfold moved. cbn [set_off uoff ubuf]. split; [reflexivity|lia].
Qed.
Lemma u_read_fixed_moved be k c : uoff c <= len (ubuf c) ->
  match u_read_fixed be k c with
  | Ok r => moved c (snd r) /\ uoff c + N.of_nat k <= uoff (snd r)
  | Err => True | _ => False end.
Proof.
  intros H. unfold u_read_fixed.
  assert (G : match (if Nat.eqb k 1 then Ok c else u_align (N.of_nat k) c) with Ok c' => moved c c' | Err => True | _ => False end).
  { destruct (Nat.eqb k 1); [|now apply u_align_moved]. split; [now destruct c|lia]. }
  destruct (if Nat.eqb k 1 then Ok c else u_align (N.of_nat k) c) as [c1| | | |]; cbn [bind]; try exact G.
  destruct G as [E1 H1]. unfold remainder_len. destruct (N.ltb_spec (len (ubuf c1) - uoff c1) (N.of_nat k)); [exact I|].
  cbn [snd]. rewrite E1 in *. cbn [set_off uoff ubuf] in *. unfold moved. cbn [set_off uoff ubuf]. split; [split; [reflexivity|lia]|lia].
Qed.
Lemma u_read_str_moved be c : uoff c <= len (ubuf c) ->
  match u_read_str be c with
  | Ok r => moved c (snd r) /\ uoff c + 5 <= uoff (snd r)
  | Err => True | _ => False end.
Proof.
  intros H. unfold u_read_str. pose proof (u_align_moved 4 c H) as G.
  destruct (u_align 4 c) as [c1| | | |]; cbn [bind]; try exact G. destruct G as [E1 H1].
  tstep (unmarshal_str_total be (ubuf c1) (uoff c1) ltac:(rewrite E1; cbn [set_off ubuf uoff]; lia)) r Es.
  destruct r as [k s]. apply unmarshal_str_bound in Es. cbn [fst snd]. rewrite E1 in *. cbn [set_off uoff ubuf] in *.
  unfold moved. cbn [set_off uoff ubuf]. split; [split; [reflexivity|lia]|lia].
Qed.
Lemma u_read_sig_moved c : uoff c <= len (ubuf c) ->
  match u_read_sig c with
  | Ok r => moved c (snd r) /\ uoff c + 2 <= uoff (snd r)
  | Err => True | _ => False end.
Proof.
  intros H. unfold u_read_sig. tstep (unmarshal_signature_total (ubuf c) (uoff c) H) r Es.
  destruct r as [k s]. apply unmarshal_signature_bound in Es. cbn [fst snd].
  unfold moved. cbn [set_off uoff ubuf]. split; [split; [reflexivity|lia]|lia].
Qed.

Lemma moved_good {A} c (x : A) c' : moved c c' -> uoff c < uoff c' -> good c (Ok (x, c')).
Proof. intros [E H] Hlt. cbn [good snd]. split; [exact E|lia]. Qed.

Lemma u_base_good be b c : uoff c <= len (ubuf c) -> good c (u_base be b c).
Proof.
  intros H.
  assert (Hfix : forall k, (0 < k)%nat -> forall (f : N * uctx -> outcome (val * uctx)),
            (forall r, match f r with Ok x => snd x = snd r | Err => True | _ => False end) ->
            good c (do r <- u_read_fixed be k c; f r)).
  { intros k Hk f Hf. pose proof (u_read_fixed_moved be k c H) as G.
    destruct (u_read_fixed be k c) as [r| | | |]; cbn [bind]; try exact G. specialize (Hf r).
    destruct (f r) as [x| | | |]; try exact Hf. destruct x as [v c']. cbn [snd] in Hf. subst c'.
    apply moved_good; [apply G|]. destruct G. lia. }
  assert (Hstr : forall (f : list N * uctx -> outcome (val * uctx)),
            (forall r, match f r with Ok x => snd x = snd r | Err => True | _ => False end) ->
            good c (do r <- u_read_str be c; f r)).
  { intros f Hf. pose proof (u_read_str_moved be c H) as G.
    destruct (u_read_str be c) as [r| | | |]; cbn [bind]; try exact G. specialize (Hf r).
    destruct (f r) as [x| | | |]; try exact Hf. destruct x as [v c']. cbn [snd] in Hf. subst c'.
    apply moved_good; [apply G|]. destruct G. lia. }
  destruct b; cbn [u_base base_size]; try (apply Hfix; [lia|intros r; reflexivity]).
  - apply Hfix; [lia|]. intros r. destruct (_ <=? _); [exact I|reflexivity].
  - apply Hstr. intros r. reflexivity.
  - pose proof (u_read_sig_moved c H) as G. destruct (u_read_sig c) as [r| | | |]; cbn [bind]; try exact G.
    destruct (is_ok _); [|exact I]. apply moved_good; [apply G|]. destruct G. lia.
  - apply Hstr. intros r. destruct (valid_path _); [reflexivity|exact I].
  - apply Hfix; [lia|]. intros r. destruct (_ <? 2); [reflexivity|exact I].
Qed.

(* the header of arrays and dicts *)
Lemma u_header_good be a c : uoff c <= len (ubuf c) ->
  match u_header be a c with
  | Ok (n, (s, c3)) => exists o,
      s = {| ubuf := firstnN (o + n) (ubuf c); uoff := o; unfds := unfds c; udepth := udepth c |}
      /\ c3 = set_off c (o + n) /\ uoff c + 4 <= o /\ o + n <= len (ubuf c)
  | Err => True
  | _ => False
  end.
Proof.
  intros H. unfold u_header. pose proof (u_read_fixed_moved be 4 c H) as G.
  destruct (u_read_fixed be 4 c) as [r| | | |]; cbn [bind]; try exact G. destruct G as [[E1 H1] H1'].
  tstep (check_array_len_total (fst r)) n E2.
  pose proof (u_align_moved a (snd r) ltac:(rewrite E1; cbn [set_off ubuf uoff]; lia)) as G.
  destruct (u_align a (snd r)) as [c2| | | |]; cbn [bind]; try exact G. destruct G as [E3 H3].
  rewrite E1 in E3, H3. cbn [set_off ubuf uoff] in E3, H3.
  unfold u_sub, remainder_len. rewrite E3. cbn [set_off ubuf uoff unfds udepth].
  destruct (N.ltb_spec (len (ubuf c) - uoff c2) n); [exact I|]. cbn [bind]. exists (uoff c2).
  change (N.of_nat 4) with 4 in *. repeat split; lia.
Qed.

(** loops of the value decoders *)
Lemma sub_loop_total {A} (P : uctx -> Prop) (one : uctx -> outcome (A * uctx)) :
  (forall c o, P c -> P (set_off c o)) ->
  (forall c, uoff c <= len (ubuf c) -> P c -> good c (one c)) ->
  forall lf c acc, uoff c <= len (ubuf c) -> P c -> (N.to_nat (len (ubuf c) - uoff c) < lf)%nat ->
    ok_or_err (sub_loop one lf c acc).
Proof.
  intros HP Hone. induction lf as [|lf IH]; intros c acc Hc Pc Hf; cbn [sub_loop]; unfold remainder_len;
    destruct (N.eqb_spec (len (ubuf c) - uoff c) 0) as [Hz|Hnz]; try exact I; [lia|].
  pose proof (Hone c Hc Pc) as G. destruct (one c) as [r| | | |]; cbn [bind]; try exact G.
  destruct G as [E Hr]. apply IH; rewrite E; cbn [set_off ubuf uoff]; [lia|now apply HP|lia].
Qed.

Lemma p_fields_good (P : uctx -> Prop) (one : ty -> uctx -> outcome (val * uctx)) :
  (forall c o, P c -> P (set_off c o)) ->
  forall ts, (forall f c, In f ts -> uoff c <= len (ubuf c) -> P c -> good c (one f c)) ->
  forall c acc, uoff c <= len (ubuf c) -> P c ->
    match p_fields one ts c acc with
    | Ok r => moved c (snd r) /\ uoff c + len ts <= uoff (snd r)
    | Err => True
    | _ => False
    end.
Proof.
  intros HP. induction ts as [|f r IH]; intros Hone c acc Hc Pc; cbn [p_fields].
  - cbn [snd]. change (len (@nil ty)) with 0. split; [split; [now destruct c|lia]|lia].
  - pose proof (Hone f c (or_introl eq_refl) Hc Pc) as G. destruct (one f c) as [x| | | |]; cbn [bind]; try exact G.
    destruct G as [E Hx].
    assert (Hc1 : uoff (snd x) <= len (ubuf (snd x))) by (rewrite E; cbn [set_off ubuf uoff]; lia).
    assert (Pc1 : P (snd x)) by (rewrite E; now apply HP).
    specialize (IH (fun f' c' Hin => Hone f' c' (or_intror Hin)) (snd x) (fst x :: acc) Hc1 Pc1).
    destruct (p_fields one r (snd x) (fst x :: acc)) as [y| | | |]; try exact IH. destruct IH as [Hm Hl].
    assert (Hm0 : moved c (snd x)) by (split; [exact E|lia]).
    split; [eapply moved_trans; eassumption|]. rewrite len_cons. lia.
Qed.

Lemma leave_moved c c0 c3 : u_enter c = Ok c0 -> moved c0 c3 -> moved c (u_leave c3).
Proof.
  intros He [E H]. apply u_enter_ok in He. destruct He as [_ ->]. cbn [ubuf uoff] in *.
  unfold moved, u_leave. rewrite E. cbn [set_off ubuf uoff unfds udepth]. split; [|exact H].
  unfold set_off. f_equal. lia.
Qed.

(** ** the dynamic decoder *)
Theorem unmarshal_p_good be : forall vf t c,
  wf t = true -> uoff c <= len (ubuf c) -> (1 <= vf)%nat -> 65 <= N.of_nat vf + udepth c ->
  good c (unmarshal_p vf be t c).
Proof.
  induction vf as [|vf IHvf]; [intros; lia|].
  induction t as [b|e IHe|ts IHts|kt vt IHv|] using ty_ind'; intros c Hwf Hc Hvf1 Hvf.
  - rewrite unmarshal_p_base_eq. now apply u_base_good.
  - rewrite unmarshal_p_array_eq'. cbn [wf] in Hwf.
    destruct (u_enter c) as [c0| | | |] eqn:Een; cbn [bind]; try (unfold u_enter in Een; destruct (_ <=? _); discriminate).
    2: exact I.
    pose proof (u_enter_ok _ _ Een) as [Hd Ec0].
    assert (Hc0 : uoff c0 <= len (ubuf c0)) by (rewrite Ec0; exact Hc).
    pose proof (u_header_good be (align e) c0 Hc0) as G.
    destruct (u_header be (align e) c0) as [[n [s c3]]| | | |]; cbn [bind fst snd]; try exact G.
    destruct G as (o & Es & Ec3 & Ho & Hon).
    assert (Ls : len (ubuf s) = o + n) by (rewrite Es; cbn [ubuf]; apply len_firstnN_le; lia).
    tstep (sub_loop_total (fun c' => 65 <= N.of_nat (S vf) + udepth c') (unmarshal_p (S vf) be e)
             (fun c' o' Hp => Hp) (fun c' Hc' Hp => IHe c' Hwf Hc' Hvf1 Hp) (S (N.to_nat n)) s []
             ltac:(rewrite Ls, Es; cbn [uoff]; lia) ltac:(rewrite Es, Ec0; cbn [udepth]; lia)
             ltac:(rewrite Ls, Es; cbn [uoff]; lia)) vs El.
    cbn [good fst snd]. assert (Hm : moved c0 c3) by (split; [rewrite Ec3; reflexivity|rewrite Ec3; cbn [set_off uoff]; lia]).
    destruct (leave_moved _ _ _ Een Hm) as [E1 E2]. split; [exact E1|].
    unfold u_leave in *. cbn [uoff] in *. rewrite Ec3, Ec0 in *. cbn [set_off uoff ubuf] in *. lia.
  - rewrite unmarshal_p_struct_eq. cbn [wf] in Hwf. apply andb_prop in Hwf. destruct Hwf as [Hne Hwf].
    destruct (u_enter c) as [c0| | | |] eqn:Een; cbn [bind]; try (unfold u_enter in Een; destruct (_ <=? _); discriminate).
    2: exact I.
    pose proof (u_enter_ok _ _ Een) as [Hd Ec0].
    assert (Hc0 : uoff c0 <= len (ubuf c0)) by (rewrite Ec0; exact Hc).
    pose proof (u_align_moved 8 c0 Hc0) as G. destruct (u_align 8 c0) as [c1| | | |]; cbn [bind]; try exact G.
    destruct ts as [|t0 ts']; [discriminate|]. set (ts := t0 :: ts') in *.
    rewrite forallb_forall in Hwf. rewrite Forall_forall in IHts.
    assert (Hc1 : uoff c1 <= len (ubuf c1)) by (destruct G as [E ?]; rewrite E; cbn [set_off ubuf uoff]; lia).
    pose proof (p_fields_good (fun c' => 65 <= N.of_nat (S vf) + udepth c') (unmarshal_p (S vf) be)
                  (fun c' o' Hp => Hp) ts (fun f c' Hin Hc' Hp => IHts f Hin c' (Hwf f Hin) Hc' Hvf1 Hp) c1 [] Hc1
                  ltac:(destruct G as [E ?]; rewrite E, Ec0; cbn [set_off udepth]; lia)) as G2.
    destruct (p_fields _ ts c1 []) as [r| | | |]; cbn [bind]; try exact G2. destruct G2 as [Hm2 Hl2].
    cbn [good fst snd]. pose proof (moved_trans _ _ _ G Hm2) as Hm.
    destruct (leave_moved _ _ _ Een Hm) as [E1 E2]. split; [exact E1|].
    unfold ts in Hl2. rewrite len_cons in Hl2. destruct G as [_ G]. rewrite Ec0 in *. unfold u_leave in *. cbn [uoff ubuf] in *. lia.
  - rewrite unmarshal_p_dict_eq'. cbn [wf] in Hwf.
    destruct (u_enter c) as [c0| | | |] eqn:Een; cbn [bind]; try (unfold u_enter in Een; destruct (_ <=? _); discriminate).
    2: exact I.
    pose proof (u_enter_ok _ _ Een) as [Hd Ec0].
    assert (Hc0 : uoff c0 <= len (ubuf c0)) by (rewrite Ec0; exact Hc).
    pose proof (u_header_good be 8 c0 Hc0) as G.
    destruct (u_header be 8 c0) as [[n [s c3]]| | | |]; cbn [bind fst snd]; try exact G.
    destruct G as (o & Es & Ec3 & Ho & Hon).
    assert (Ls : len (ubuf s) = o + n) by (rewrite Es; cbn [ubuf]; apply len_firstnN_le; lia).
    set (one := fun c => do c <- u_align 8 c; do kr <- u_base be kt c; do vr <- unmarshal_p (S vf) be vt (snd kr);
                         Ok ((fst kr, fst vr), snd vr)).
    assert (Hone : forall c', uoff c' <= len (ubuf c') -> 65 <= N.of_nat (S vf) + udepth c' -> good c' (one c')).
    { intros c' Hc' Hp. unfold one. pose proof (u_align_moved 8 c' Hc') as G1.
      destruct (u_align 8 c') as [c1| | | |]; cbn [bind]; try exact G1. destruct G1 as [E1 H1].
      assert (Hc1 : uoff c1 <= len (ubuf c1)) by (rewrite E1; cbn [set_off ubuf uoff]; lia).
      gstep (u_base_good be kt c1 Hc1) kr Ek Gk. destruct Gk as [E2 H2].
      assert (Hc2 : uoff (snd kr) <= len (ubuf (snd kr))) by (rewrite E2; cbn [set_off ubuf uoff]; lia).
      gstep (IHv (snd kr) Hwf Hc2 Hvf1 ltac:(rewrite E2, E1; cbn [set_off udepth]; lia)) vr Ev Gv. destruct Gv as [E3 H3].
      cbn [good snd]. rewrite E3, E2, E1 in *. cbn [set_off ubuf uoff] in *. split; [reflexivity|lia]. }
    tstep (sub_loop_total (fun c' => 65 <= N.of_nat (S vf) + udepth c') one
             (fun c' o' Hp => Hp) Hone (S (N.to_nat n)) s []
             ltac:(rewrite Ls, Es; cbn [uoff]; lia) ltac:(rewrite Es, Ec0; cbn [udepth]; lia)
             ltac:(rewrite Ls, Es; cbn [uoff]; lia)) kvs El.
    cbn [good fst snd]. assert (Hm : moved c0 c3) by (split; [rewrite Ec3; reflexivity|rewrite Ec3; cbn [set_off uoff]; lia]).
    destruct (leave_moved _ _ _ Een Hm) as [E1 E2]. split; [exact E1|].
    unfold u_leave in *. cbn [uoff] in *. rewrite Ec3, Ec0 in *. cbn [set_off uoff ubuf] in *. lia.
  - rewrite unmarshal_p_variant_eq.
    destruct (u_enter c) as [c0| | | |] eqn:Een; cbn [bind]; try (unfold u_enter in Een; destruct (_ <=? _); discriminate).
    2: exact I.
    pose proof (u_enter_ok _ _ Een) as [Hd Ec0]. unfold MAX_DEPTH in Hd.
    assert (Hc0 : uoff c0 <= len (ubuf c0)) by (rewrite Ec0; exact Hc).
    pose proof (u_read_sig_moved c0 Hc0) as G. destruct (u_read_sig c0) as [r| | | |]; cbn [bind]; try exact G.
    destruct G as [[E1 H1] H1'].
    tstep (parse_description_total (fst r)) tys Ep. destruct tys as [|t' [|]]; cbn [bind]; try exact I.
    destruct (parse_single _ _ Ep) as [_ Htok].
    assert (Hc1 : uoff (snd r) <= len (ubuf (snd r))) by (rewrite E1; cbn [set_off ubuf uoff]; lia).
    gstep (IHvf t' (snd r) (type_ok_wf _ Htok) Hc1 ltac:(lia) ltac:(rewrite E1, Ec0; cbn [set_off udepth]; lia)) x Ex Gx.
    destruct Gx as [E2 H2]. cbn [good fst snd].
    assert (Hm : moved c0 (snd x)).
    { apply (moved_trans _ (snd r)); split; try assumption. lia. }
    destruct (leave_moved _ _ _ Een Hm) as [E3 E4]. split; [exact E3|].
    unfold u_leave in *. cbn [uoff] in *. rewrite Ec0 in *. cbn [uoff ubuf] in *. rewrite E1 in H2. cbn [set_off uoff ubuf] in H2. lia.
Qed.

Theorem unmarshal_p_total be vf t c :
  wf t = true -> uoff c <= len (ubuf c) -> (1 <= vf)%nat -> 65 <= N.of_nat vf + udepth c -> ok_or_err (unmarshal_p vf be t c).
Proof. intros. eapply good_total, unmarshal_p_good; eassumption. Qed.

(** ** the typed decoder *)
Lemma t_fields_good (one : ety -> uctx -> outcome (val * uctx)) :
  forall es, (forall f c, In f es -> uoff c <= len (ubuf c) -> good c (one f c)) ->
  forall first c acc, uoff c <= len (ubuf c) ->
    match t_fields one es first c acc with
    | Ok r => moved c (snd r) /\ uoff c + len es <= uoff (snd r)
    | Err => True
    | _ => False
    end.
Proof.
  induction es as [|f r IH]; intros Hone first c acc Hc; cbn [t_fields].
  - cbn [snd]. change (len (@nil ety)) with 0. split; [split; [now destruct c|lia]|lia].
  - assert (G0 : match (if first then Ok c else u_align (ealign f) c) with Ok c' => moved c c' | Err => True | _ => False end).
    { destruct first; [|now apply u_align_moved]. split; [now destruct c|lia]. }
    destruct (if first then Ok c else u_align (ealign f) c) as [c0| | | |]; cbn [bind]; try exact G0.
    assert (Hc0 : uoff c0 <= len (ubuf c0)) by (destruct G0 as [E ?]; rewrite E; cbn [set_off ubuf uoff]; lia).
    pose proof (Hone f c0 (or_introl eq_refl) Hc0) as G. destruct (one f c0) as [x| | | |]; cbn [bind]; try exact G.
    destruct G as [E Hx].
    assert (Hc1 : uoff (snd x) <= len (ubuf (snd x))) by (rewrite E; cbn [set_off ubuf uoff]; lia).
    specialize (IH (fun f' c' Hin => Hone f' c' (or_intror Hin)) false (snd x) (fst x :: acc) Hc1).
    destruct (t_fields one r false (snd x) (fst x :: acc)) as [y| | | |]; try exact IH. destruct IH as [Hm Hl].
    assert (Hm0 : moved c0 (snd x)) by (split; [exact E|lia]).
    split; [eapply moved_trans; [exact G0|]; eapply moved_trans; eassumption|]. rewrite len_cons. destruct G0 as [_ G0]. lia.
Qed.

Theorem unmarshal_t_good be : forall vf e c,
  ewf e = true -> uoff c <= len (ubuf c) -> (evars e < vf)%nat -> good c (unmarshal_t vf be e c).
Proof.
  induction vf as [|vf IHvf]; [intros; lia|].
  induction e as [b|x IHx|es IHes|kt v IHv|x _] using ety_ind'; intros c Hwf Hc Hvf.
  - rewrite unmarshal_t_base_eq. now apply u_base_good.
  - cbn [ewf evars] in Hwf, Hvf. destruct (valid_slice be (erase x)) eqn:Evs.
    + rewrite unmarshal_t_array_eq, Evs.
      pose proof (u_read_fixed_moved be 4 c Hc) as G. destruct (u_read_fixed be 4 c) as [r| | | |]; cbn [bind]; try exact G.
      destruct G as [[E1 H1] H1'].
      tstep (check_array_len_total (fst r)) n E2.
      pose proof (u_align_moved (ealign x) (snd r) ltac:(rewrite E1; cbn [set_off ubuf uoff]; lia)) as G.
      destruct (u_align (ealign x) (snd r)) as [c1| | | |]; cbn [bind]; try exact G. destruct G as [E3 H3].
      destruct (negb _); [exact I|]. unfold remainder_len. destruct (N.ltb_spec (len (ubuf c1) - uoff c1) n); [exact I|].
      destruct (erase x); try exact I. cbn [good snd]. rewrite E3, E1 in *. cbn [set_off ubuf uoff] in *.
      change (N.of_nat 4) with 4 in *. split; [reflexivity|lia].
    + rewrite (unmarshal_t_array_slow_eq _ _ _ _ Evs).
      pose proof (u_align_moved 4 c Hc) as G0. destruct (u_align 4 c) as [c0| | | |]; cbn [bind]; try exact G0.
      assert (Hc0 : uoff c0 <= len (ubuf c0)) by (destruct G0 as [E ?]; rewrite E; cbn [set_off ubuf uoff]; lia).
      pose proof (u_header_good be (ealign x) c0 Hc0) as G.
      destruct (u_header be (ealign x) c0) as [[n [s c3]]| | | |]; cbn [bind fst snd]; try exact G.
      destruct G as (o & Es & Ec3 & Ho & Hon).
      assert (Ls : len (ubuf s) = o + n) by (rewrite Es; cbn [ubuf]; apply len_firstnN_le; lia).
      set (one := fun c => do c <- u_align (ealign x) c; unmarshal_t (S vf) be x c).
      assert (Hone : forall c', uoff c' <= len (ubuf c') -> True -> good c' (one c')).
      { intros c' Hc' _. unfold one. pose proof (u_align_moved (ealign x) c' Hc') as G1.
        destruct (u_align (ealign x) c') as [c1| | | |]; cbn [bind]; try exact G1. destruct G1 as [E1 H1].
        assert (Hc1 : uoff c1 <= len (ubuf c1)) by (rewrite E1; cbn [set_off ubuf uoff]; lia).
        gstep (IHx c1 Hwf Hc1 Hvf) r Er Gr. destruct Gr as [E2 H2]. cbn [good].
        rewrite E2, E1 in *. cbn [set_off ubuf uoff] in *. split; [reflexivity|lia]. }
      tstep (sub_loop_total (fun _ => True) one (fun _ _ _ => I) Hone (S (N.to_nat n)) s []
               ltac:(rewrite Ls, Es; cbn [uoff]; lia) I ltac:(rewrite Ls, Es; cbn [uoff]; lia)) vs El.
      cbn [good snd]. destruct G0 as [E0 H0]. rewrite Ec3, E0 in *. cbn [set_off ubuf uoff] in *. split; [reflexivity|lia].
  - rewrite unmarshal_t_struct_eq. cbn [ewf] in Hwf. apply andb_prop in Hwf. destruct Hwf as [Hne Hwf].
    pose proof (u_align_moved 8 c Hc) as G0. destruct (u_align 8 c) as [c0| | | |]; cbn [bind]; try exact G0.
    assert (Hc0 : uoff c0 <= len (ubuf c0)) by (destruct G0 as [E ?]; rewrite E; cbn [set_off ubuf uoff]; lia).
    rewrite forallb_forall in Hwf. rewrite Forall_forall in IHes.
    pose proof (t_fields_good (unmarshal_t (S vf) be) es
                  (fun f c' Hin Hc' => IHes f Hin c' (Hwf f Hin) Hc' ltac:(pose proof (evars_in es f Hin); lia)) true c0 [] Hc0) as G.
    destruct (t_fields _ es true c0 []) as [r| | | |]; cbn [bind]; try exact G. destruct G as [Hm Hl].
    cbn [good snd]. destruct (moved_trans _ _ _ G0 Hm) as [E1 H1]. split; [exact E1|].
    destruct es as [|e0 es']; [discriminate|]. rewrite len_cons in Hl. destruct G0 as [_ G0]. lia.
  - rewrite unmarshal_t_dict_eq'. cbn [ewf evars] in Hwf, Hvf.
    pose proof (u_align_moved 4 c Hc) as G0. destruct (u_align 4 c) as [c0| | | |]; cbn [bind]; try exact G0.
    assert (Hc0 : uoff c0 <= len (ubuf c0)) by (destruct G0 as [E ?]; rewrite E; cbn [set_off ubuf uoff]; lia).
    pose proof (u_header_good be 8 c0 Hc0) as G.
    destruct (u_header be 8 c0) as [[n [s c3]]| | | |]; cbn [bind fst snd]; try exact G.
    destruct G as (o & Es & Ec3 & Ho & Hon).
    assert (Ls : len (ubuf s) = o + n) by (rewrite Es; cbn [ubuf]; apply len_firstnN_le; lia).
    set (one := fun c => do c <- u_align 8 c; do kr <- u_base be kt c; do c2 <- u_align (ealign v) (snd kr);
                         do vr <- unmarshal_t (S vf) be v c2; Ok ((fst kr, fst vr), snd vr)).
    assert (Hone : forall c', uoff c' <= len (ubuf c') -> True -> good c' (one c')).
    { intros c' Hc' _. unfold one. pose proof (u_align_moved 8 c' Hc') as G1.
      destruct (u_align 8 c') as [c1| | | |]; cbn [bind]; try exact G1. destruct G1 as [E1 H1].
      assert (Hc1 : uoff c1 <= len (ubuf c1)) by (rewrite E1; cbn [set_off ubuf uoff]; lia).
      gstep (u_base_good be kt c1 Hc1) kr Ek Gk. destruct Gk as [E2 H2].
      assert (Hc2 : uoff (snd kr) <= len (ubuf (snd kr))) by (rewrite E2; cbn [set_off ubuf uoff]; lia).
      pose proof (u_align_moved (ealign v) (snd kr) Hc2) as G3.
      destruct (u_align (ealign v) (snd kr)) as [c2| | | |]; cbn [bind]; try exact G3. destruct G3 as [E3 H3].
      assert (Hc3 : uoff c2 <= len (ubuf c2)) by (rewrite E3; cbn [set_off ubuf uoff]; lia).
      gstep (IHv c2 Hwf Hc3 Hvf) vr Ev Gv. destruct Gv as [E4 H4].
      cbn [good snd]. rewrite E4, E3, E2, E1 in *. cbn [set_off ubuf uoff] in *. split; [reflexivity|lia]. }
    tstep (sub_loop_total (fun _ => True) one (fun _ _ _ => I) Hone (S (N.to_nat n)) s []
             ltac:(rewrite Ls, Es; cbn [uoff]; lia) I ltac:(rewrite Ls, Es; cbn [uoff]; lia)) kvs El.
    cbn [good snd]. destruct G0 as [E0 H0]. rewrite Ec3, E0 in *. cbn [set_off ubuf uoff] in *. split; [reflexivity|lia].
  - rewrite unmarshal_t_var_eq'. cbn [ewf evars] in Hwf, Hvf.
    pose proof (u_read_sig_moved c Hc) as G. destruct (u_read_sig c) as [r| | | |]; cbn [bind]; try exact G.
    destruct G as [[E1 H1] H1'].
    destruct (parse_description (fst r)) as [tys| | | |] eqn:Ep; try exact I.
    destruct tys as [|t' [|]]; try exact I. destruct (parse_single _ _ Ep) as [_ Htok].
    assert (Hc1 : uoff (snd r) <= len (ubuf (snd r))) by (rewrite E1; cbn [set_off ubuf uoff]; lia).
    pose proof (u_align_moved (align t') (snd r) Hc1) as G2.
    destruct (u_align (align t') (snd r)) as [c1| | | |]; cbn [bind]; try exact G2. destruct G2 as [E2 H2].
    assert (Hc2 : uoff c1 <= len (ubuf c1)) by (rewrite E2; cbn [set_off ubuf uoff]; lia).
    destruct (N.leb_spec MAX_DEPTH (udepth c1)) as [|Hd1]; [exact I|].
    gstep (validate_good be 66 t' (udepth c1 + 1) (uoff c1) (ubuf c1) (type_ok_wf _ Htok) Hc2 ltac:(lia) ltac:(cbn; lia)) n Ev Gv.
    destruct Gv as [Hn1 Hn2].
    unfold u_sub, remainder_len. cbn [ubuf uoff unfds udepth].
    destruct (N.ltb_spec (len (ubuf c1) - uoff c1) n); [exact I|]. cbn [bind fst snd].
    destruct (ty_eqb t' (erase x)); [|exact I].
    set (s := {| ubuf := firstnN (uoff c1 + n) (ubuf c1); uoff := uoff c1; unfds := unfds c1; udepth := udepth c1 + 1 |}).
    assert (Hs : uoff s <= len (ubuf s)) by (unfold s; cbn [ubuf uoff]; rewrite len_firstnN_le; lia).
    gstep (IHvf x s Hwf Hs ltac:(lia)) y Ey Gy. cbn [good snd].
    rewrite E2, E1 in *. unfold u_leave, set_off in *. cbn [ubuf uoff unfds udepth] in *. split; [f_equal; lia|lia].
Qed.

Theorem unmarshal_t_total be vf e c :
  ewf e = true -> uoff c <= len (ubuf c) -> (evars e < vf)%nat -> ok_or_err (unmarshal_t vf be e c).
Proof. intros. eapply good_total, unmarshal_t_good; eassumption. Qed.

(** the entry points: validate_marshalled, and the decoders at the fuel the operations use (66) *)
Corollary validate_marshalled_total be off buf t : wf t = true -> off <= len buf -> ok_or_err (validate_marshalled be off buf t).
Proof. intros Hw Ho. unfold validate_marshalled. apply validate_total; try assumption; [lia|cbn; lia]. Qed.
Corollary unmarshal_p_total_66 be t c : wf t = true -> uoff c <= len (ubuf c) -> ok_or_err (unmarshal_p 66 be t c).
Proof. intros Hw Ho. apply unmarshal_p_total; try assumption; [lia|cbn; lia]. Qed.
Corollary unmarshal_t_total_66 be e c : ewf e = true -> uoff c <= len (ubuf c) -> (evars e <= 65)%nat -> ok_or_err (unmarshal_t 66 be e c).
Proof. intros Hw Ho He. apply unmarshal_t_total; try assumption. lia. Qed.
