(** Variant enums (and params::Variant) in ELEMENT position: inside Vec, HashMap values, tuples and derived
    structs. The generic container impls (wire/marshal/traits/container.rs, wire/unmarshal/traits/container.rs,
    rustbus_derive/src/structs.rs) use exactly four things of their element type E: E::alignment(),
    E::valid_slice() (false for every enum), E::marshal and E::unmarshal. They are written here once, over an
    element given by these, and instantiated at the three enum generators of Wire/Enums.v (alignment 1:
    make_variant_signature_imp / dbus_variant_sig! / dbus_variant_var!: fn alignment() -> usize { 1 }) and at
    params::Variant (alignment Variant::signature().get_alignment() = 1).
    [cty] is the type algebra "containers over enums and ordinary types"; results are trees [cres]. *)
From RB Require Import Base.Prelude Sig.Types Sig.Parser Sig.Validator Sig.Iter Wire.Bytes Wire.Align Wire.Text Wire.Value
  Wire.SpecEnc Wire.Marshal Wire.Decode Wire.Unmarshal Wire.HasSig Wire.Derive Wire.Enums.

(** ** generic container code over an element *)
(* impl Unmarshal for Vec<E> when E::valid_slice() is false: align 4, u32 length, align E::alignment(),
   sub-context, per element: align E::alignment(), E::unmarshal *)
Definition vec_unmarshal {A} (be : bool) (al : N) (dec : uctx -> outcome (A * uctx)) (c : uctx) : outcome (list A * uctx) :=
  do c0 <- u_align 4 c;
  do r <- u_read_fixed be 4 c0;
  do n <- check_array_len (fst r);
  do c1 <- u_align al (snd r);
  do s <- u_sub n c1;
  do xs <- sub_loop (fun c => do c <- u_align al c; dec c) (S (N.to_nat n)) (fst s) [];
  Ok (xs, snd s).

(* impl Unmarshal for HashMap<K, V>: align 4, length, align 8, sub-context, per entry: align 8, K, align V::alignment(), V *)
Definition map_unmarshal {A} (be : bool) (k : base) (al : N) (dec : uctx -> outcome (A * uctx)) (c : uctx)
  : outcome (list (val * A) * uctx) :=
  do c0 <- u_align 4 c;
  do r <- u_read_fixed be 4 c0;
  do n <- check_array_len (fst r);
  do c1 <- u_align 8 (snd r);
  do s <- u_sub n c1;
  do kvs <- sub_loop (fun c => do c <- u_align 8 c;
                               do kr <- u_base be k c;
                               do c2 <- u_align al (snd kr);
                               do vr <- dec c2;
                               Ok ((fst kr, fst vr), snd vr))
                     (S (N.to_nat n)) (fst s) [];
  Ok (kvs, snd s).

(* tuple impls: align 8, first field, then align_to(E::alignment()) before every further field;
   derived struct (struct_field_unmarshal): align 8, the fields without align_to *)
Definition fields_unmarshal {A} (derived : bool) : list (N * (uctx -> outcome (A * uctx))) -> bool -> uctx -> list A -> outcome (list A * uctx) :=
  fix go (l : list (N * (uctx -> outcome (A * uctx)))) (first : bool) (c : uctx) (acc : list A) : outcome (list A * uctx) :=
    match l with
    | [] => Ok (rev acc, c)
    | (al, dec) :: r =>
        do c <- (if first || derived then Ok c else u_align al c);
        do x <- dec c; go r false (snd x) (fst x :: acc)
    end.
Definition struct_unmarshal {A} (derived : bool) (fs : list (N * (uctx -> outcome (A * uctx)))) (c : uctx) : outcome (list A * uctx) :=
  do c <- u_align 8 c; fields_unmarshal derived fs true c [].

(* impl Marshal for &[E], E::valid_slice() false: align 4, placeholder, align E::alignment(), (empty: done), the elements,
   check_marshalled_array_len, insert_u32 *)
Definition vec_marshal (be : bool) (al : N) (ms : list (mctx -> mres)) (c : mctx) : mres :=
  let b1 := pad_to 4 (mbuf c) in
  let size_pos := len b1 in
  let b3 := pad_to al (b1 ++ [0; 0; 0; 0]) in
  match ms with
  | [] => ({| mbuf := b3; mfds := mfds c |}, true)
  | _ =>
      let size_before := len b3 in
      mbind ((fix go (l : list (mctx -> mres)) (c : mctx) : mres :=
                match l with
                | [] => (c, true)
                | m :: r => mbind (m c) (go r)
                end) ms {| mbuf := b3; mfds := mfds c |})
        (fun c' =>
           let n := len (mbuf c') - size_before in
           if MAX_ARRAY <? n then (c', false)
           else ({| mbuf := insert4 be n size_pos (mbuf c'); mfds := mfds c' |}, true))
  end.
(* impl Marshal for HashMap<K, V>: entries are (key marshal, value marshal) *)
Definition map_marshal (be : bool) (ms : list ((mctx -> mres) * (mctx -> mres))) (c : mctx) : mres :=
  let b1 := pad_to 4 (mbuf c) in
  let size_pos := len b1 in
  let b3 := pad_to 8 (b1 ++ [0; 0; 0; 0]) in
  match ms with
  | [] => ({| mbuf := b3; mfds := mfds c |}, true)
  | _ =>
      let size_before := len b3 in
      mbind ((fix go (l : list ((mctx -> mres) * (mctx -> mres))) (c : mctx) : mres :=
                match l with
                | [] => (c, true)
                | (mk, mv) :: r =>
                    mbind (mk {| mbuf := pad_to 8 (mbuf c); mfds := mfds c |}) (fun c2 => mbind (mv c2) (go r))
                end) ms {| mbuf := b3; mfds := mfds c |})
        (fun c' =>
           let n := len (mbuf c') - size_before in
           if MAX_ARRAY <? n then (c', false)
           else ({| mbuf := insert4 be n size_pos (mbuf c'); mfds := mfds c' |}, true))
  end.

(** ** the algebra *)
Inductive egen := GDerive | GSigMacro | GVarMacro.

Inductive cty :=
| CPlain (r : rty)                          (* a type without enums *)
| CEnum (g : egen) (cs : list ecase)        (* an enum of one of the three generators (macro enums: macro_case of each case) *)
| CPVar                                     (* params::Variant through its Marshal / Unmarshal impls *)
| CVec (x : cty)
| CMap (k : base) (x : cty)
| CTuple (xs : list cty)
| CDerived (xs : list cty).

(* values handed to marshal *)
Inductive cval :=
| XPlain (v : val)
| XEnum (i : nat) (p : epay)                (* case number and payload *)
| XPVar (t : ty) (v : val)                  (* params::Variant { sig, value } *)
| XList (l : list cval)                     (* Vec elements, tuple / struct fields *)
| XMap (l : list (val * cval)).

(* results of unmarshal *)
Inductive cres :=
| RPlain (v : val)
| REnum (e : eres)
| RList (l : list cres)
| RMap (l : list (val * cres)).

Definition macro_case (k : ecase) : rty := match k with CSingle r => r | CFields _ rs => RTuple rs end.

(* Signature::signature() / alignment() *)
Fixpoint csig (x : cty) : ty :=
  match x with
  | CPlain r => sig_r r
  | CEnum _ _ => enum_sig
  | CPVar => TVariant
  | CVec y => TArray (csig y)
  | CMap k y => TDict k (csig y)
  | CTuple ys => TStruct (map csig ys)
  | CDerived ys => TStruct (map csig ys)
  end.
Definition calign (x : cty) : N :=
  match x with
  | CPlain r => ralign r
  | CEnum _ _ => enum_align
  | CPVar => 1
  | CVec _ => 4
  | CMap _ _ => 4
  | CTuple _ => 8
  | CDerived _ => 8
  end.

Definition zipwith {A B C} (f : A -> B -> C) : list A -> list B -> list C :=
  fix zip (l1 : list A) (l2 : list B) : list C :=
    match l1, l2 with
    | a :: l1', b :: l2' => f a b :: zip l1' l2'
    | _, _ => []
    end.

Definition lift {A B} (f : A -> B) (o : outcome (A * uctx)) : outcome (B * uctx) := do r <- o; Ok (f (fst r), snd r).

Fixpoint unmarshal_c (be : bool) (x : cty) (c : uctx) {struct x} : outcome (cres * uctx) :=
  match x with
  | CPlain r => lift RPlain (unmarshal_r 66 be r c)
  | CEnum GDerive cs => lift REnum (derive_enum_unmarshal 66 be cs c)
  | CEnum GSigMacro cs => lift REnum (sig_macro_unmarshal 66 be (map macro_case cs) c)
  | CEnum GVarMacro cs => lift REnum (var_macro_unmarshal 66 be (map macro_case cs) c)
  | CPVar =>
      (* impl Unmarshal for params::Variant: unmarshal_variant = the TVariant clause of the dynamic decoder *)
      lift RPlain (unmarshal_p 66 be TVariant c)
  | CVec y => lift RList (vec_unmarshal be (calign y) (unmarshal_c be y) c)
  | CMap k y => lift RMap (map_unmarshal be k (calign y) (unmarshal_c be y) c)
  | CTuple ys => lift RList (struct_unmarshal false (map (fun y => (calign y, unmarshal_c be y)) ys) c)
  | CDerived ys => lift RList (struct_unmarshal true (map (fun y => (calign y, unmarshal_c be y)) ys) c)
  end.

Definition pay_matches_c (k : ecase) (p : epay) : bool :=
  match k, p with CSingle _, PSingle _ => true | CFields _ _, PFields _ => true | _, _ => false end.

Definition enum_marshal (be : bool) (g : egen) (k : ecase) (p : epay) : mctx -> mres :=
  match g with
  | GDerive => derive_case_marshal be k p
  | GSigMacro => sig_macro_marshal be (macro_case k) (payload_val p)
  | GVarMacro => var_macro_marshal be (macro_case k) (payload_val p)
  end.

Fixpoint marshal_c (be : bool) (x : cty) (v : cval) (c : mctx) {struct x} : mres :=
  match x, v with
  | CPlain _, XPlain w => marshal_t be w c
  | CEnum g cs, XEnum i p =>
      match nth_error cs i with Some k => enum_marshal be g k p c | None => (c, false) end
  | CPVar, XPVar t w =>
      (* impl Marshal for params::Variant: marshal_variant_param = check_param_shape(value, 1), marshal_variant(var, ctx, 1):
         what marshal_param does for the same variant inside a Param *)
      marshal_param_top be (VVariant t w) c
  | CVec y, XList l => vec_marshal be (calign y) (map (marshal_c be y) l) c
  | CMap k y, XMap l => map_marshal be (map (fun kv => (marshal_t be (fst kv), marshal_c be y (snd kv))) l) c
  | CTuple ys, XList l =>
      derive_struct_marshal (zipwith (fun y w => marshal_c be y w) ys l) c
  | CDerived ys, XList l =>
      derive_struct_marshal (zipwith (fun y w => marshal_c be y w) ys l) c
  | _, _ => (c, false)
  end.

(* the D-Bus value a container value stands for: an enum value is the variant of its case *)
Fixpoint cval_val (x : cty) (v : cval) {struct x} : val :=
  match x, v with
  | CPlain _, XPlain w => w
  | CEnum _ cs, XEnum i p => VVariant (match nth_error cs i with Some k => case_ty k | None => TVariant end) (payload_val p)
  | CPVar, XPVar t w => VVariant t w
  | CVec y, XList l => VArray (csig y) (map (cval_val y) l)
  | CMap k y, XMap l => VDict k (csig y) (map (fun kv => (fst kv, cval_val y (snd kv))) l)
  | CTuple ys, XList l =>
      VStruct (zipwith (fun y w => cval_val y w) ys l)
  | CDerived ys, XList l =>
      VStruct (zipwith (fun y w => cval_val y w) ys l)
  | _, _ => VStruct []
  end.

(* a container value of the shape its type asks for, whose enum values are values of the enum; Vec<E> is the generic
   element loop only when E::valid_slice() is false (Vec of fixed-width numbers is CPlain (RArray ..)); params::Variant
   marshals through the Param API and is not covered by the typed marshalling theorem *)
Fixpoint cshape (be : bool) (x : cty) (v : cval) {struct x} : bool :=
  match x, v with
  | CPlain _, XPlain _ => true
  | CEnum g cs, XEnum i p =>
      match nth_error cs i with
      | Some k => pay_matches_c k p
      | None => false
      end
  | CVec y, XList l => negb (valid_slice be (csig y)) && forallb (cshape be y) l
  | CMap k y, XMap l => forallb (fun kv => cshape be y (snd kv)) l
  | CTuple ys, XList l => (length ys =? length l)%nat && forallb (fun b => b) (zipwith (fun y w => cshape be y w) ys l)
  | CDerived ys, XList l => (length ys =? length l)%nat && forallb (fun b => b) (zipwith (fun y w => cshape be y w) ys l)
  | _, _ => false
  end.
